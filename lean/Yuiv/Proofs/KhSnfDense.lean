import Yuiv.Proofs.KhSnfDefs
/-
KhSnf (helper, no property theorem here): the dense integer elimination of the reference
(`KhRef.findPivot`, `KhRef.pivotStep`) rewritten as pure folds, with entrywise specifications.

  * `findPivot_eq`   : the two nested `for` loops are a nested `List.foldl` of `pivBody`;
    `findPivot_none`, `findPivot_some`, `findPivot_isSome_of_ne` : `none` iff the block `[t,m) × [t,n)` is zero,
    `some (v, pi, pj)` is a non-zero entry of least absolute value `v` of the block;
  * `pivotStep_eq`   : `pivotStep a t m n pi pj = phases (swapCols (swapRows a pi t) pj t) t m n`, where `phases` is
    `rowPhase` (fold of `rowBody`), `colPhase` (fold of `colBody`, skipped if the row phase was not clean), `finalFlag`;
  * `swapRows_spec`, `swapCols_spec`, `rowOp_spec`, `colOp_spec` : entries (`afn`) and `Shape` of the four array operations;
  * `RowInv`/`ColInv` + `rowPhase_spec`/`colPhase_spec` : loop invariants of the two phases;
  * `pivotStep_spec` (`pivotStep_spec_weak`: without the conjunct on zero pivot-row entries) : the entrywise
    description of one round.
`/` on `Int` is `Int.div` = floor/Euclidean (`Int.emod_def`), so the remainder `v - v / pv * pv = v % pv` has
`natAbs < pv.natAbs` (`rem_lt`).
-/
namespace Yuiv.KhSnf
open Yuiv Yuiv.KhRef

theorem id_forIn_fold {α β} (l : List α) (b : β) (g : α → β → β) (f : α → β → Id (ForInStep β))
    (h : ∀ a b, f a b = pure (ForInStep.yield (g a b))) :
    forIn l b f = (pure (l.foldl (fun b a => g a b) b) : Id β) := by
  induction l generalizing b with
  | nil => rfl
  | cons a l ih => simp [h, ih]

/-- body of the inner loop of `findPivot` -/
def pivBody (a : Array (Array Int)) (i j : Nat) (best : Option (Nat × Nat × Nat)) : Option (Nat × Nat × Nat) :=
  if (afn a i j).natAbs = 0 then best
  else
    match best with
    | some (b, _, _) => if (afn a i j).natAbs < b then some ((afn a i j).natAbs, i, j) else best
    | none => some ((afn a i j).natAbs, i, j)

theorem findPivot_eq (a : Array (Array Int)) (t m n : Nat) :
    findPivot a t m n =
      (List.range' t (m - t)).foldl (fun best i => (List.range' t (n - t)).foldl (fun best j => pivBody a i j best) best) none := by
  unfold findPivot
  simp only [Std.Legacy.Range.forIn_eq_forIn_range', Std.Legacy.Range.size, Nat.add_sub_cancel, Nat.div_one]
  rw [id_forIn_fold (g := fun i best => (List.range' t (n - t)).foldl (fun best j => pivBody a i j best) best)]
  · rfl
  · intro i best
    rw [id_forIn_fold (g := fun j best => pivBody a i j best)]
    · rfl
    · intro j best
      unfold pivBody afn
      by_cases h : ((a[i]!)[j]!).natAbs = 0
      · simp [h]
      · simp only [bne_iff_ne, ne_eq, h, not_false_eq_true, if_true, if_false]
        rcases best with _ | ⟨b, x, y⟩
        · rfl
        · show (if _ then _ else _) = pure (ForInStep.yield (if _ then _ else _))
          split <;> rfl

/-- `best` is a correct answer of the pivot search over the positions `P` -/
def Good (a : Array (Array Int)) (t m n : Nat) (P : Nat → Nat → Prop) : Option (Nat × Nat × Nat) → Prop
  | none => ∀ i j, P i j → afn a i j = 0
  | some (v, pi, pj) => t ≤ pi ∧ pi < m ∧ t ≤ pj ∧ pj < n ∧ v = (afn a pi pj).natAbs ∧ v ≠ 0 ∧
      ∀ i j, P i j → afn a i j ≠ 0 → v ≤ (afn a i j).natAbs

theorem good_step {a : Array (Array Int)} {t m n : Nat} {P Q : Nat → Nat → Prop} {best : Option (Nat × Nat × Nat)} {i j : Nat}
    (hi : t ≤ i) (hi' : i < m) (hj : t ≤ j) (hj' : j < n) (hQ : ∀ i' j', Q i' j' → P i' j' ∨ (i' = i ∧ j' = j))
    (h : Good a t m n P best) : Good a t m n Q (pivBody a i j best) := by
  unfold pivBody
  by_cases h0 : (afn a i j).natAbs = 0
  · rw [if_pos h0]
    have h0' : afn a i j = 0 := Int.natAbs_eq_zero.mp h0
    match best, h with
    | none, h =>
      intro i' j' hq
      rcases hQ i' j' hq with hp | ⟨rfl, rfl⟩
      · exact h i' j' hp
      · exact h0'
    | some (v, pi, pj), h =>
      obtain ⟨h1, h2, h3, h4, h5, h6, h7⟩ := h
      refine ⟨h1, h2, h3, h4, h5, h6, ?_⟩
      intro i' j' hq hne
      rcases hQ i' j' hq with hp | ⟨rfl, rfl⟩
      · exact h7 i' j' hp hne
      · exact absurd h0' hne
  · rw [if_neg h0]
    match best, h with
    | none, h =>
      refine ⟨hi, hi', hj, hj', rfl, h0, ?_⟩
      intro i' j' hq hne
      rcases hQ i' j' hq with hp | ⟨rfl, rfl⟩
      · exact absurd (h i' j' hp) hne
      · exact Nat.le_refl _
    | some (v, pi, pj), h =>
      obtain ⟨h1, h2, h3, h4, h5, h6, h7⟩ := h
      show Good a t m n Q (if (afn a i j).natAbs < v then _ else _)
      by_cases hlt : (afn a i j).natAbs < v
      · rw [if_pos hlt]
        refine ⟨hi, hi', hj, hj', rfl, h0, ?_⟩
        intro i' j' hq hne
        rcases hQ i' j' hq with hp | ⟨rfl, rfl⟩
        · have := h7 i' j' hp hne; omega
        · exact Nat.le_refl _
      · rw [if_neg hlt]
        refine ⟨h1, h2, h3, h4, h5, h6, ?_⟩
        intro i' j' hq hne
        rcases hQ i' j' hq with hp | ⟨rfl, rfl⟩
        · exact h7 i' j' hp hne
        · omega

theorem good_mono {a : Array (Array Int)} {t m n : Nat} {P Q : Nat → Nat → Prop} {best : Option (Nat × Nat × Nat)}
    (hQ : ∀ i j, Q i j → P i j) (h : Good a t m n P best) : Good a t m n Q best := by
  match best, h with
  | none, h => exact fun i j hq => h i j (hQ i j hq)
  | some (v, pi, pj), ⟨h1, h2, h3, h4, h5, h6, h7⟩ =>
    exact ⟨h1, h2, h3, h4, h5, h6, fun i j hq => h7 i j (hQ i j hq)⟩

theorem good_inner {a : Array (Array Int)} {t m n i : Nat} (hi : t ≤ i) (hi' : i < m) (len : Nat) :
    ∀ (k : Nat) (P Q : Nat → Nat → Prop) (best : Option (Nat × Nat × Nat)), t ≤ k → k + len ≤ n →
      (∀ i' j', Q i' j' → P i' j' ∨ (i' = i ∧ k ≤ j' ∧ j' < k + len)) → Good a t m n P best →
      Good a t m n Q ((List.range' k len).foldl (fun best j => pivBody a i j best) best) := by
  induction len with
  | zero =>
    intro k P Q best _ _ hQ h
    refine good_mono (fun i' j' hq => ?_) h
    rcases hQ i' j' hq with hp | ⟨_, h1, h2⟩
    · exact hp
    · omega
  | succ len ih =>
    intro k P Q best hk hkn hQ h
    rw [List.range'_succ, List.foldl_cons]
    refine ih (k + 1) (fun i' j' => P i' j' ∨ (i' = i ∧ j' = k)) Q _ (by omega) (by omega) ?_
      (good_step hi hi' hk (by omega) (fun _ _ hq => hq) h)
    intro i' j' hq
    rcases hQ i' j' hq with hp | ⟨h0, h1, h2⟩
    · exact Or.inl (Or.inl hp)
    · by_cases hjk : j' = k
      · exact Or.inl (Or.inr ⟨h0, hjk⟩)
      · exact Or.inr ⟨h0, by omega, by omega⟩

theorem good_outer {a : Array (Array Int)} {t m n : Nat} (len : Nat) :
    ∀ (k : Nat) (P Q : Nat → Nat → Prop) (best : Option (Nat × Nat × Nat)), t ≤ k → k + len ≤ m →
      (∀ i' j', Q i' j' → P i' j' ∨ (k ≤ i' ∧ i' < k + len ∧ t ≤ j' ∧ j' < n)) → Good a t m n P best →
      Good a t m n Q ((List.range' k len).foldl
        (fun best i => (List.range' t (n - t)).foldl (fun best j => pivBody a i j best) best) best) := by
  induction len with
  | zero =>
    intro k P Q best _ _ hQ h
    refine good_mono (fun i' j' hq => ?_) h
    rcases hQ i' j' hq with hp | ⟨h1, h2, _⟩
    · exact hp
    · omega
  | succ len ih =>
    intro k P Q best hk hkm hQ h
    rw [List.range'_succ, List.foldl_cons]
    by_cases htn : t ≤ n
    · refine ih (k + 1) (fun i' j' => P i' j' ∨ (i' = k ∧ t ≤ j' ∧ j' < t + (n - t))) Q _ (by omega) (by omega) ?_
        (good_inner hk (by omega) (n - t) t P _ best (Nat.le_refl _) (by omega) (fun _ _ hq => hq) h)
      intro i' j' hq
      rcases hQ i' j' hq with hp | ⟨h0, h1, h2, h3⟩
      · exact Or.inl (Or.inl hp)
      · by_cases hik : i' = k
        · exact Or.inl (Or.inr ⟨hik, h2, by omega⟩)
        · exact Or.inr ⟨by omega, by omega, h2, h3⟩
    · have e : List.range' t (n - t) = [] := by rw [show n - t = 0 by omega]; rfl
      have e2 : (List.range' t (n - t)).foldl (fun best j => pivBody a k j best) best = best := by rw [e]; rfl
      rw [e2]
      refine ih (k + 1) P Q _ (by omega) (by omega) ?_ h
      intro i' j' hq
      rcases hQ i' j' hq with hp | ⟨h0, h1, h2, h3⟩
      · exact Or.inl hp
      · omega

theorem findPivot_good (a : Array (Array Int)) (t m n : Nat) :
    Good a t m n (fun i j => t ≤ i ∧ i < m ∧ t ≤ j ∧ j < n) (findPivot a t m n) := by
  rw [findPivot_eq]
  by_cases htm : t ≤ m
  · refine good_outer (m - t) t (fun _ _ => False) _ none (Nat.le_refl _) (by omega) ?_ (fun _ _ h => h.elim)
    intro i j ⟨h1, h2, h3, h4⟩
    exact Or.inr ⟨h1, by omega, h3, h4⟩
  · have e : m - t = 0 := by omega
    rw [e, List.range'_zero, List.foldl_nil]
    intro i j ⟨h1, h2, _⟩
    omega

theorem findPivot_none {a : Array (Array Int)} {t m n : Nat} (h : findPivot a t m n = none) :
    ∀ i j, t ≤ i → i < m → t ≤ j → j < n → afn a i j = 0 := by
  have hg := findPivot_good a t m n
  rw [h] at hg
  exact fun i j h1 h2 h3 h4 => hg i j ⟨h1, h2, h3, h4⟩

theorem findPivot_some {a : Array (Array Int)} {t m n v pi pj : Nat} (h : findPivot a t m n = some (v, pi, pj)) :
    t ≤ pi ∧ pi < m ∧ t ≤ pj ∧ pj < n ∧ v = (afn a pi pj).natAbs ∧ v ≠ 0 ∧
    ∀ i j, t ≤ i → i < m → t ≤ j → j < n → afn a i j ≠ 0 → v ≤ (afn a i j).natAbs := by
  have hg := findPivot_good a t m n
  rw [h] at hg
  obtain ⟨h1, h2, h3, h4, h5, h6, h7⟩ := hg
  exact ⟨h1, h2, h3, h4, h5, h6, fun i j a1 a2 a3 a4 => h7 i j ⟨a1, a2, a3, a4⟩⟩

theorem findPivot_isSome_of_ne {a : Array (Array Int)} {t m n i j : Nat} (hi : t ≤ i) (hi' : i < m) (hj : t ≤ j) (hj' : j < n)
    (h : afn a i j ≠ 0) : ∃ p, findPivot a t m n = some p := by
  cases hf : findPivot a t m n with
  | none => exact absurd (findPivot_none hf i j hi hi' hj hj') h
  | some p => exact ⟨p, rfl⟩
theorem get_set {α} [Inhabited α] (a : Array α) (k i : Nat) (r : α) (hk : k < a.size) :
    (a.set! k r)[i]! = if i = k then r else a[i]! := by
  simp only [Array.set!_eq_setIfInBounds, getElem!_def, Array.getElem?_setIfInBounds]
  by_cases h : i = k
  · subst h; simp [hk]
  · have : ¬ k = i := fun e => h e.symm
    simp [h, this]

theorem get_map {α β} [Inhabited α] [Inhabited β] (a : Array α) (f : α → β) (i : Nat) (hi : i < a.size) :
    (a.map f)[i]! = f a[i]! := by
  simp [hi]

theorem get_mapIdx {α β} [Inhabited α] [Inhabited β] (a : Array α) (f : Nat → α → β) (i : Nat) (hi : i < a.size) :
    (a.mapIdx f)[i]! = f i a[i]! := by
  simp [hi]

def swapRows (a : Array (Array Int)) (pi t : Nat) : Array (Array Int) :=
  if pi = t then a else (a.set! pi a[t]!).set! t a[pi]!

def swapCols (a : Array (Array Int)) (pj t : Nat) : Array (Array Int) :=
  if pj = t then a else a.map (fun r => (r.set! pj r[t]!).set! t r[pj]!)

def rowOp (a : Array (Array Int)) (t i : Nat) (q : Int) : Array (Array Int) :=
  a.set! i (Array.mapIdx (fun j x => x - q * (a[t]!)[j]!) a[i]!)

def colOp (a : Array (Array Int)) (t j : Nat) (q : Int) : Array (Array Int) :=
  a.map (fun r => r.set! j (r[j]! - q * r[t]!))

/-- swap of two indices -/
def sw (x y i : Nat) : Nat := if i = x then y else if i = y then x else i

theorem swapRows_spec {a : Array (Array Int)} {m n pi t : Nat} (hS : Shape a m n) (hpi : pi < m) (ht : t < m) :
    Shape (swapRows a pi t) m n ∧ ∀ i j, afn (swapRows a pi t) i j = afn a (sw pi t i) j := by
  obtain ⟨hm, hn⟩ := hS
  unfold swapRows
  by_cases h : pi = t
  · subst h
    simp only [if_true]
    refine ⟨⟨hm, hn⟩, fun i j => ?_⟩
    unfold sw; split <;> simp_all
  · simp only [h, if_false]
    have key : ∀ i, ((a.set! pi a[t]!).set! t a[pi]!)[i]! = a[sw pi t i]! := by
      intro i
      rw [get_set _ _ _ _ (by simp [hm, ht]), get_set _ _ _ _ (by omega)]
      unfold sw
      split_ifs <;> first | rfl | (exfalso; omega)
    refine ⟨⟨by simp [hm], fun i hi => ?_⟩, fun i j => ?_⟩
    · rw [key]
      apply hn
      unfold sw; split
      · exact ht
      · split
        · exact hpi
        · exact hi
    · unfold afn; rw [key]

theorem swapCols_spec {a : Array (Array Int)} {m n pj t : Nat} (hS : Shape a m n) (hpj : pj < n) (ht : t < n) :
    Shape (swapCols a pj t) m n ∧ ∀ i j, i < m → j < n → afn (swapCols a pj t) i j = afn a i (sw pj t j) := by
  obtain ⟨hm, hn⟩ := hS
  unfold swapCols
  by_cases h : pj = t
  · subst h
    simp only [if_true]
    refine ⟨⟨hm, hn⟩, fun i j _ _ => ?_⟩
    unfold sw; split <;> simp_all
  · simp only [h, if_false]
    refine ⟨⟨by simp [hm], fun i hi => ?_⟩, fun i j hi hj => ?_⟩
    · rw [get_map _ _ _ (by omega)]
      simp [hn i hi]
    · unfold afn
      rw [get_map _ _ _ (by omega), get_set _ _ _ _ (by simp [hn i hi, ht]), get_set _ _ _ _ (by rw [hn i hi]; exact hpj)]
      unfold sw
      split_ifs <;> first | rfl | (exfalso; omega)

theorem rowOp_spec {a : Array (Array Int)} {m n t i : Nat} (q : Int) (hS : Shape a m n) (hi : i < m) :
    Shape (rowOp a t i q) m n ∧ ∀ i' j, i' < m → j < n →
      afn (rowOp a t i q) i' j = if i' = i then afn a i j - q * afn a t j else afn a i' j := by
  obtain ⟨hm, hn⟩ := hS
  unfold rowOp
  refine ⟨⟨by simp [hm], fun i' hi' => ?_⟩, fun i' j hi' hj => ?_⟩
  · rw [get_set _ _ _ _ (by omega)]
    split
    · simp [hn i hi]
    · exact hn i' hi'
  · unfold afn
    rw [get_set _ _ _ _ (by omega)]
    split
    · rw [get_mapIdx _ _ _ (by rw [hn i hi]; exact hj)]
    · rfl

theorem colOp_spec {a : Array (Array Int)} {m n t j : Nat} (q : Int) (hS : Shape a m n) (hj : j < n) :
    Shape (colOp a t j q) m n ∧ ∀ i j', i < m → j' < n →
      afn (colOp a t j q) i j' = if j' = j then afn a i j - q * afn a i t else afn a i j' := by
  obtain ⟨hm, hn⟩ := hS
  unfold colOp
  refine ⟨⟨by simp [hm], fun i hi => ?_⟩, fun i j' hi hj' => ?_⟩
  · rw [get_map _ _ _ (by omega)]
    simp [hn i hi]
  · unfold afn
    rw [get_map _ _ _ (by omega), get_set _ _ _ _ (by rw [hn i hi]; exact hj)]

theorem rem_lt (v pv : Int) (h : pv ≠ 0) : (v - v / pv * pv).natAbs < pv.natAbs := by
  have e : v - v / pv * pv = v % pv := by rw [Int.emod_def, Int.mul_comm]
  rw [e]
  have h1 := Int.emod_nonneg v h
  rcases Int.lt_or_gt_of_ne h with hneg | hpos
  · have h2 := Int.emod_lt_of_pos v (show 0 < -pv by omega)
    rw [Int.emod_neg] at h2
    omega
  · have h2 := Int.emod_lt_of_pos v hpos
    omega

/-! ### `pivotStep` as a composition of pure functions -/

def rowBody (t : Nat) (pv : Int) (i : Nat) (s : Array (Array Int) × Bool) : Array (Array Int) × Bool :=
  if (s.1[i]!)[t]! = 0 then s
  else (rowOp s.1 t i ((s.1[i]!)[t]! / pv),
        if ((rowOp s.1 t i ((s.1[i]!)[t]! / pv))[i]!)[t]! = 0 then s.2 else false)

def colBody (t : Nat) (pv : Int) (j : Nat) (s : Array (Array Int) × Bool) : Array (Array Int) × Bool :=
  if (s.1[t]!)[j]! = 0 then s
  else (colOp s.1 t j ((s.1[t]!)[j]! / pv),
        if ((colOp s.1 t j ((s.1[t]!)[j]! / pv))[t]!)[j]! = 0 then s.2 else false)

def rowPhase (a : Array (Array Int)) (t m : Nat) : Array (Array Int) × Bool :=
  (List.range' (t + 1) (m - (t + 1))).foldl (fun s i => rowBody t (a[t]!)[t]! i s) (a, true)

def colPhase (s : Array (Array Int) × Bool) (pv : Int) (t n : Nat) : Array (Array Int) × Bool :=
  if s.2 = true then (List.range' (t + 1) (n - (t + 1))).foldl (fun s j => colBody t pv j s) s else s

def finalFlag (s : Array (Array Int) × Bool) (t m n : Nat) : Bool :=
  if s.2 = true then
    ((List.range (m - t - 1)).all fun d => (s.1[t + 1 + d]!)[t]! == 0) &&
      (List.range (n - t - 1)).all fun d => (s.1[t]!)[t + 1 + d]! == 0
  else false

def phases (a : Array (Array Int)) (t m n : Nat) : Array (Array Int) × Int × Bool :=
  ((colPhase (rowPhase a t m) (a[t]!)[t]! t n).1, (a[t]!)[t]!, finalFlag (colPhase (rowPhase a t m) (a[t]!)[t]! t n) t m n)

theorem pivotStep_eq (a : Array (Array Int)) (t m n pi pj : Nat) :
    pivotStep a t m n pi pj = phases (swapCols (swapRows a pi t) pj t) t m n := by
  have key : ∀ a1 : Array (Array Int),
      (have clean := true;
          have pv := (a1[t]!)[t]!;
          do
          let __s ←
            forIn [t + 1:m] (a1, clean) fun i __s =>
                have a := __s.1;
                have clean := __s.2;
                have v := (a[i]!)[t]!;
                if (v != 0) = true then
                  have q := v / pv;
                  have rt := a[t]!;
                  have a := a.set! i (Array.mapIdx (fun j x => x - q * rt[j]!) a[i]!);
                  if ((a[i]!)[t]! != 0) = true then
                    have clean := false;
                    pure (ForInStep.yield (a, clean))
                  else pure (ForInStep.yield (a, clean))
                else pure (ForInStep.yield (a, clean))
          have a : Array (Array ℤ) := __s.1
          have clean : Bool := __s.2
          have __do_jp : Unit → Array (Array ℤ) → Bool → Id (Array (Array ℤ) × ℤ × Bool) := fun __r a clean =>
            if clean = true then
              have colZero := (List.range (m - t - 1)).all fun d => (a[t + 1 + d]!)[t]! == 0;
              have rowZero := (List.range (n - t - 1)).all fun d => (a[t]!)[t + 1 + d]! == 0;
              pure (a, pv, colZero && rowZero)
            else pure (a, pv, false)
          if clean = true then do
              let __s ←
                forIn [t + 1:n] (a, clean) fun j __s =>
                    have a := __s.1;
                    have clean := __s.2;
                    have v := (a[t]!)[j]!;
                    if (v != 0) = true then
                      have q := v / pv;
                      have a := Array.map (fun r => r.set! j (r[j]! - q * r[t]!)) a;
                      if ((a[t]!)[j]! != 0) = true then
                        have clean := false;
                        pure (ForInStep.yield (a, clean))
                      else pure (ForInStep.yield (a, clean))
                    else pure (ForInStep.yield (a, clean))
              have a : Array (Array ℤ) := __s.1
              have clean : Bool := __s.2
              __do_jp () a clean
            else __do_jp () a clean : Id _).run = phases a1 t m n := by
    intro a1
    simp only [Std.Legacy.Range.forIn_eq_forIn_range', Std.Legacy.Range.size, Nat.add_sub_cancel, Nat.div_one]
    rw [id_forIn_fold (g := fun i s => rowBody t (a1[t]!)[t]! i s)]
    · simp only [pure_bind]
      rw [id_forIn_fold (g := fun j s => colBody t (a1[t]!)[t]! j s)]
      · simp only [pure_bind]
        unfold phases colPhase finalFlag rowPhase
        generalize List.foldl (fun b a => rowBody t (a1[t]!)[t]! a b) (a1, true) (List.range' (t + 1) (m - (t + 1))) = s1
        obtain ⟨a2, c⟩ := s1
        cases c
        · simp only [Bool.false_eq_true, if_false]; rfl
        · simp only [if_true]
          generalize List.foldl (fun b a => colBody t (a1[t]!)[t]! a b) (a2, true) (List.range' (t + 1) (n - (t + 1))) = s2
          obtain ⟨a3, c⟩ := s2
          cases c
          · simp only [Bool.false_eq_true, if_false]; rfl
          · simp only [if_true]; rfl
      · intro j s
        unfold colBody colOp
        by_cases h : (s.1[t]!)[j]! = 0
        · simp [h]
        · simp only [bne_iff_ne, ne_eq, h, not_false_eq_true, if_true, if_false]
          split <;> simp_all
    · intro i s
      unfold rowBody rowOp
      by_cases h : (s.1[i]!)[t]! = 0
      · simp [h]
      · simp only [bne_iff_ne, ne_eq, h, not_false_eq_true, if_true, if_false]
        split <;> simp_all
  by_cases h1 : pi = t <;> by_cases h2 : pj = t
  · have h1' : (pi != t) = false := by simp [h1]
    have h2' : (pj != t) = false := by simp [h2]
    have e : swapCols (swapRows a pi t) pj t = a := by simp only [swapRows, swapCols, h1, h2, if_true]
    rw [e, ← key a]
    unfold pivotStep
    simp -zeta only [h1', h2', Bool.false_eq_true, if_false]
    rfl
  · have h1' : (pi != t) = false := by simp [h1]
    have h2' : (pj != t) = true := by simp [h2]
    have e : swapCols (swapRows a pi t) pj t = a.map (fun r => (r.set! pj r[t]!).set! t r[pj]!) := by
      simp only [swapRows, swapCols, h1, h2, if_true, if_false]
    rw [e, ← key]
    unfold pivotStep
    simp -zeta only [h1', h2', Bool.false_eq_true, if_true, if_false]
    rfl
  · have h1' : (pi != t) = true := by simp [h1]
    have h2' : (pj != t) = false := by simp [h2]
    have e : swapCols (swapRows a pi t) pj t = (a.set! pi a[t]!).set! t a[pi]! := by
      simp only [swapRows, swapCols, h1, h2, if_true, if_false]
    rw [e, ← key]
    unfold pivotStep
    simp -zeta only [h1', h2', Bool.false_eq_true, if_true, if_false]
    rfl
  · have h1' : (pi != t) = true := by simp [h1]
    have h2' : (pj != t) = true := by simp [h2]
    have e : swapCols (swapRows a pi t) pj t =
        ((a.set! pi a[t]!).set! t a[pi]!).map (fun r => (r.set! pj r[t]!).set! t r[pj]!) := by
      simp only [swapRows, swapCols, h1, h2, if_false]
    rw [e, ← key]
    unfold pivotStep
    simp -zeta only [h1', h2', if_true]
    rfl

/-- invariant of the row phase after the rows `t < i < k`; `S` is the matrix before the phase -/
def RowInv (S : Nat → Nat → Int) (pv : Int) (t m n k : Nat) (s : Array (Array Int) × Bool) : Prop :=
  Shape s.1 m n ∧
  (∃ qr : Nat → Int, (∀ i, i ≤ t ∨ k ≤ i → qr i = 0) ∧
    ∀ i j, i < m → j < n → afn s.1 i j = S i j - qr i * S t j) ∧
  (s.2 = true → ∀ i, t < i → i < k → afn s.1 i t = 0) ∧
  (s.2 = false → ∃ i, t < i ∧ i < k ∧ afn s.1 i t ≠ 0 ∧ (afn s.1 i t).natAbs < pv.natAbs)

theorem rowInv_step {S : Nat → Nat → Int} {pv : Int} {t m n k : Nat} {s : Array (Array Int) × Bool}
    (hpv : pv ≠ 0) (hS : S t t = pv) (ht : t < n) (htk : t < k) (hk : k < m)
    (h : RowInv S pv t m n k s) : RowInv S pv t m n (k + 1) (rowBody t pv k s) := by
  obtain ⟨hsh, ⟨qr, hq0, hq⟩, hT, hF⟩ := h
  unfold rowBody
  by_cases h0 : (s.1[k]!)[t]! = 0
  · rw [if_pos h0]
    refine ⟨hsh, ⟨qr, fun i hi => hq0 i (by omega), hq⟩, fun hc i h1 h2 => ?_, fun hc => ?_⟩
    · by_cases e : i = k
      · subst e; exact h0
      · exact hT hc i h1 (by omega)
    · obtain ⟨i, h1, h2, h3, h4⟩ := hF hc
      exact ⟨i, h1, by omega, h3, h4⟩
  · rw [if_neg h0]
    have tm : t < m := by omega
    have hkt : afn s.1 k t = S k t := by
      rw [hq k t hk ht, hq0 k (Or.inr (Nat.le_refl _)), Int.zero_mul, Int.sub_zero]
    have htj : ∀ j, j < n → afn s.1 t j = S t j := by
      intro j hj
      rw [hq t j tm hj, hq0 t (Or.inl (Nat.le_refl _)), Int.zero_mul, Int.sub_zero]
    have hkj : ∀ j, j < n → afn s.1 k j = S k j := by
      intro j hj
      rw [hq k j hk hj, hq0 k (Or.inr (Nat.le_refl _)), Int.zero_mul, Int.sub_zero]
    change ¬ afn s.1 k t = 0 at h0
    show RowInv S pv t m n (k + 1) (rowOp s.1 t k (afn s.1 k t / pv),
      if afn (rowOp s.1 t k (afn s.1 k t / pv)) k t = 0 then s.2 else false)
    obtain ⟨hsh', hent⟩ := rowOp_spec (t := t) (afn s.1 k t / pv) hsh hk
    have hnew : afn (rowOp s.1 t k (afn s.1 k t / pv)) k t = afn s.1 k t - afn s.1 k t / pv * pv := by
      rw [hent k t hk ht, if_pos rfl, htj t ht, hS]
    have hlt := rem_lt (afn s.1 k t) pv hpv
    refine ⟨hsh', ⟨fun i => if i = k then afn s.1 k t / pv else qr i, fun i hi => ?_, fun i j hi hj => ?_⟩,
      fun hc i h1 h2 => ?_, fun hc => ?_⟩
    · show (if i = k then _ else _) = _
      rw [if_neg (by omega)]
      exact hq0 i (by omega)
    · show _ = S i j - (if i = k then _ else _) * S t j
      rw [hent i j hi hj]
      by_cases e : i = k
      · rw [if_pos e, if_pos e, hkj j hj, htj j hj, e]
      · rw [if_neg e, if_neg e, hq i j hi hj]
    · show afn (rowOp s.1 t k (afn s.1 k t / pv)) i t = 0
      change (if _ then s.2 else false) = true at hc
      by_cases e0 : afn (rowOp s.1 t k (afn s.1 k t / pv)) k t = 0
      · rw [if_pos e0] at hc
        by_cases e : i = k
        · rw [e]; exact e0
        · rw [hent i t (by omega) ht, if_neg e]
          exact hT hc i h1 (by omega)
      · rw [if_neg e0] at hc
        exact absurd hc (by decide)
    · change (if _ then s.2 else false) = false at hc
      show ∃ i, t < i ∧ i < k + 1 ∧ afn (rowOp s.1 t k (afn s.1 k t / pv)) i t ≠ 0 ∧
        (afn (rowOp s.1 t k (afn s.1 k t / pv)) i t).natAbs < pv.natAbs
      by_cases e0 : afn (rowOp s.1 t k (afn s.1 k t / pv)) k t = 0
      · rw [if_pos e0] at hc
        obtain ⟨i, h1, h2, h3, h4⟩ := hF hc
        refine ⟨i, h1, by omega, ?_⟩
        rw [hent i t (by omega) ht, if_neg (by omega)]
        exact ⟨h3, h4⟩
      · refine ⟨k, htk, by omega, e0, ?_⟩
        rw [hnew]; exact hlt

theorem rowInv_fold {S : Nat → Nat → Int} {pv : Int} {t m n : Nat}
    (hpv : pv ≠ 0) (hS : S t t = pv) (ht : t < n) (len : Nat) :
    ∀ (k : Nat) (s : Array (Array Int) × Bool), t < k → k + len ≤ m → RowInv S pv t m n k s →
      RowInv S pv t m n (k + len) ((List.range' k len).foldl (fun s i => rowBody t pv i s) s) := by
  induction len with
  | zero => intro k s _ _ h; exact h
  | succ len ih =>
    intro k s htk hkm h
    rw [List.range'_succ, List.foldl_cons, show k + (len + 1) = (k + 1) + len by omega]
    exact ih (k + 1) _ (by omega) (by omega) (rowInv_step hpv hS ht htk (by omega) h)

theorem rowPhase_spec {a : Array (Array Int)} {t m n : Nat} (hS : Shape a m n) (htm : t < m) (htn : t < n)
    (hpv : afn a t t ≠ 0) : RowInv (afn a) (afn a t t) t m n m (rowPhase a t m) := by
  have h0 : RowInv (afn a) (afn a t t) t m n (t + 1) (a, true) := by
    refine ⟨hS, ⟨fun _ => 0, fun _ _ => rfl, fun i j _ _ => ?_⟩, fun _ i h1 h2 => ?_, fun hc => ?_⟩
    · show afn a i j = afn a i j - 0 * afn a t j
      rw [Int.zero_mul, Int.sub_zero]
    · omega
    · exact Bool.noConfusion hc
  have := rowInv_fold hpv rfl htn (m - (t + 1)) (t + 1) (a, true) (by omega) (by omega) h0
  rw [show t + 1 + (m - (t + 1)) = m by omega] at this
  exact this

/-- invariant of the column phase after the columns `t < j < k`; `B` is the matrix before the phase -/
def ColInv (B : Nat → Nat → Int) (pv : Int) (t m n k : Nat) (s : Array (Array Int) × Bool) : Prop :=
  Shape s.1 m n ∧
  (∃ qc : Nat → Int, (∀ j, j ≤ t ∨ k ≤ j → qc j = 0) ∧ (∀ j, B t j = 0 → qc j = 0) ∧
    ∀ i j, i < m → j < n → afn s.1 i j = B i j - qc j * B i t) ∧
  (s.2 = true → ∀ j, t < j → j < k → afn s.1 t j = 0) ∧
  (s.2 = false → ∃ j, t < j ∧ j < k ∧ afn s.1 t j ≠ 0 ∧ (afn s.1 t j).natAbs < pv.natAbs)

theorem colInv_step {B : Nat → Nat → Int} {pv : Int} {t m n k : Nat} {s : Array (Array Int) × Bool}
    (hpv : pv ≠ 0) (hB : B t t = pv) (ht : t < m) (htk : t < k) (hk : k < n)
    (h : ColInv B pv t m n k s) : ColInv B pv t m n (k + 1) (colBody t pv k s) := by
  obtain ⟨hsh, ⟨qc, hq0, hqz, hq⟩, hT, hF⟩ := h
  unfold colBody
  by_cases h0 : (s.1[t]!)[k]! = 0
  · rw [if_pos h0]
    refine ⟨hsh, ⟨qc, fun j hj => hq0 j (by omega), hqz, hq⟩, fun hc j h1 h2 => ?_, fun hc => ?_⟩
    · by_cases e : j = k
      · subst e; exact h0
      · exact hT hc j h1 (by omega)
    · obtain ⟨j, h1, h2, h3, h4⟩ := hF hc
      exact ⟨j, h1, by omega, h3, h4⟩
  · rw [if_neg h0]
    have tn : t < n := by omega
    have hit : ∀ i, i < m → afn s.1 i t = B i t := by
      intro i hi
      rw [hq i t hi tn, hq0 t (Or.inl (Nat.le_refl _)), Int.zero_mul, Int.sub_zero]
    have hik : ∀ i, i < m → afn s.1 i k = B i k := by
      intro i hi
      rw [hq i k hi hk, hq0 k (Or.inr (Nat.le_refl _)), Int.zero_mul, Int.sub_zero]
    change ¬ afn s.1 t k = 0 at h0
    show ColInv B pv t m n (k + 1) (colOp s.1 t k (afn s.1 t k / pv),
      if afn (colOp s.1 t k (afn s.1 t k / pv)) t k = 0 then s.2 else false)
    obtain ⟨hsh', hent⟩ := colOp_spec (t := t) (afn s.1 t k / pv) hsh hk
    have hnew : afn (colOp s.1 t k (afn s.1 t k / pv)) t k = afn s.1 t k - afn s.1 t k / pv * pv := by
      rw [hent t k ht hk, if_pos rfl, hit t ht, hB]
    have hlt := rem_lt (afn s.1 t k) pv hpv
    refine ⟨hsh', ⟨fun j => if j = k then afn s.1 t k / pv else qc j, fun j hj => ?_, fun j hj => ?_,
      fun i j hi hj => ?_⟩, fun hc j h1 h2 => ?_, fun hc => ?_⟩
    · show (if j = k then _ else _) = _
      rw [if_neg (by omega)]
      exact hq0 j (by omega)
    · show (if j = k then _ else _) = _
      by_cases e : j = k
      · exfalso; apply h0; rw [hik t ht, ← e]; exact hj
      · rw [if_neg e]; exact hqz j hj
    · show _ = B i j - (if j = k then _ else _) * B i t
      rw [hent i j hi hj]
      by_cases e : j = k
      · rw [if_pos e, if_pos e, hik i hi, hit i hi, e]
      · rw [if_neg e, if_neg e, hq i j hi hj]
    · show afn (colOp s.1 t k (afn s.1 t k / pv)) t j = 0
      change (if _ then s.2 else false) = true at hc
      by_cases e0 : afn (colOp s.1 t k (afn s.1 t k / pv)) t k = 0
      · rw [if_pos e0] at hc
        by_cases e : j = k
        · rw [e]; exact e0
        · rw [hent t j ht (by omega), if_neg e]
          exact hT hc j h1 (by omega)
      · rw [if_neg e0] at hc
        exact absurd hc (by decide)
    · change (if _ then s.2 else false) = false at hc
      show ∃ j, t < j ∧ j < k + 1 ∧ afn (colOp s.1 t k (afn s.1 t k / pv)) t j ≠ 0 ∧
        (afn (colOp s.1 t k (afn s.1 t k / pv)) t j).natAbs < pv.natAbs
      by_cases e0 : afn (colOp s.1 t k (afn s.1 t k / pv)) t k = 0
      · rw [if_pos e0] at hc
        obtain ⟨j, h1, h2, h3, h4⟩ := hF hc
        refine ⟨j, h1, by omega, ?_⟩
        rw [hent t j ht (by omega), if_neg (by omega)]
        exact ⟨h3, h4⟩
      · refine ⟨k, htk, by omega, e0, ?_⟩
        rw [hnew]; exact hlt

theorem colInv_fold {B : Nat → Nat → Int} {pv : Int} {t m n : Nat}
    (hpv : pv ≠ 0) (hB : B t t = pv) (ht : t < m) (len : Nat) :
    ∀ (k : Nat) (s : Array (Array Int) × Bool), t < k → k + len ≤ n → ColInv B pv t m n k s →
      ColInv B pv t m n (k + len) ((List.range' k len).foldl (fun s j => colBody t pv j s) s) := by
  induction len with
  | zero => intro k s _ _ h; exact h
  | succ len ih =>
    intro k s htk hkn h
    rw [List.range'_succ, List.foldl_cons, show k + (len + 1) = (k + 1) + len by omega]
    exact ih (k + 1) _ (by omega) (by omega) (colInv_step hpv hB ht htk (by omega) h)

/-- the column phase started on a clean state `(b, true)` -/
theorem colPhase_spec {b : Array (Array Int)} {t m n : Nat} (hS : Shape b m n) (htm : t < m) (htn : t < n)
    (hpv : afn b t t ≠ 0) : ColInv (afn b) (afn b t t) t m n n (colPhase (b, true) (afn b t t) t n) := by
  have h0 : ColInv (afn b) (afn b t t) t m n (t + 1) (b, true) := by
    refine ⟨hS, ⟨fun _ => 0, fun _ _ => rfl, fun _ _ => rfl, fun i j _ _ => ?_⟩, fun _ j h1 h2 => ?_, fun hc => ?_⟩
    · show afn b i j = afn b i j - 0 * afn b i t
      rw [Int.zero_mul, Int.sub_zero]
    · omega
    · exact Bool.noConfusion hc
  have := colInv_fold hpv rfl htm (n - (t + 1)) (t + 1) (b, true) (by omega) (by omega) h0
  rw [show t + 1 + (n - (t + 1)) = n by omega] at this
  unfold colPhase
  rw [if_pos rfl]
  exact this

theorem finalFlag_true {s : Array (Array Int) × Bool} {t m n : Nat} (h : finalFlag s t m n = true) :
    s.2 = true ∧ (∀ i, t < i → i < m → afn s.1 i t = 0) ∧ (∀ j, t < j → j < n → afn s.1 t j = 0) := by
  unfold finalFlag at h
  by_cases h2 : s.2 = true
  · rw [if_pos h2, Bool.and_eq_true, List.all_eq_true, List.all_eq_true] at h
    refine ⟨h2, fun i h1 h3 => ?_, fun j h1 h3 => ?_⟩
    · have := h.1 (i - t - 1) (List.mem_range.mpr (by omega))
      rw [show t + 1 + (i - t - 1) = i by omega] at this
      exact eq_of_beq this
    · have := h.2 (j - t - 1) (List.mem_range.mpr (by omega))
      rw [show t + 1 + (j - t - 1) = j by omega] at this
      exact eq_of_beq this
  · rw [if_neg h2] at h
    exact Bool.noConfusion h

theorem finalFlag_of {s : Array (Array Int) × Bool} {t m n : Nat} (h2 : s.2 = true)
    (hc : ∀ i, t < i → i < m → afn s.1 i t = 0) (hr : ∀ j, t < j → j < n → afn s.1 t j = 0) :
    finalFlag s t m n = true := by
  unfold finalFlag
  rw [if_pos h2, Bool.and_eq_true, List.all_eq_true, List.all_eq_true]
  refine ⟨fun d hd => ?_, fun d hd => ?_⟩
  · have hd' := List.mem_range.mp hd
    exact beq_iff_eq.mpr (hc (t + 1 + d) (by omega) (by omega))
  · have hd' := List.mem_range.mp hd
    exact beq_iff_eq.mpr (hr (t + 1 + d) (by omega) (by omega))

theorem sw_self (x y : Nat) : sw x y y = x := by
  unfold sw; split_ifs <;> first | rfl | omega

/-- one round of the dense elimination: with `S i j = a (sw pi t i) (sw pj t j)` (rows `pi ↔ t`, columns `pj ↔ t`
swapped), `B i j = S i j - qr i * S t j` (row phase), the result is `B i j - qc j * B i t` (column phase; a column whose
entry in the swapped pivot row is zero gets no column operation); the flag is `true` only if column `t` below and row `t`
right of the pivot are zero, and if it is `false` a non-zero remainder of smaller absolute value than the pivot is left
in the block -/
theorem pivotStep_spec {a : Array (Array Int)} {t m n pi pj : Nat} (hS : Shape a m n)
    (hpi : t ≤ pi) (hpi' : pi < m) (hpj : t ≤ pj) (hpj' : pj < n) (hpv : afn a pi pj ≠ 0) :
    let r := pivotStep a t m n pi pj
    Shape r.1 m n ∧ r.2.1 = afn a pi pj ∧
    ∃ qr qc : Nat → Int, (∀ i, i ≤ t → qr i = 0) ∧ (∀ j, j ≤ t → qc j = 0) ∧
      (∀ j, afn a pi (sw pj t j) = 0 → qc j = 0) ∧
      (∀ i j, i < m → j < n →
        afn r.1 i j =
          (afn a (sw pi t i) (sw pj t j) - qr i * afn a (sw pi t t) (sw pj t j)) -
            qc j * (afn a (sw pi t i) (sw pj t t) - qr i * afn a (sw pi t t) (sw pj t t))) ∧
      (r.2.2 = true → (∀ i, t < i → i < m → afn r.1 i t = 0) ∧ (∀ j, t < j → j < n → afn r.1 t j = 0)) ∧
      (r.2.2 = false → ∃ i j, t ≤ i ∧ i < m ∧ t ≤ j ∧ j < n ∧ afn r.1 i j ≠ 0 ∧
        (afn r.1 i j).natAbs < (afn a pi pj).natAbs) := by
  intro r
  have htm : t < m := by omega
  have htn : t < n := by omega
  obtain ⟨hS1, hE1⟩ := swapRows_spec hS hpi' htm
  obtain ⟨hS2, hE2⟩ := swapCols_spec hS1 hpj' htn
  have hr : r = phases (swapCols (swapRows a pi t) pj t) t m n := pivotStep_eq a t m n pi pj
  generalize swapCols (swapRows a pi t) pj t = a2 at hS2 hE2 hr
  have hA : ∀ i j, i < m → j < n → afn a2 i j = afn a (sw pi t i) (sw pj t j) := by
    intro i j hi hj; rw [hE2 i j hi hj, hE1]
  have hpv2 : afn a2 t t = afn a pi pj := by rw [hA t t htm htn, sw_self, sw_self]
  have hRow := rowPhase_spec hS2 htm htn (by rw [hpv2]; exact hpv)
  have hr' : r = ((colPhase (rowPhase a2 t m) (afn a2 t t) t n).1, afn a2 t t,
      finalFlag (colPhase (rowPhase a2 t m) (afn a2 t t) t n) t m n) := hr
  generalize rowPhase a2 t m = sR at hRow hr'
  obtain ⟨b, c⟩ := sR
  obtain ⟨hshR, ⟨qr, hqr0, hqr⟩, hRT, hRF⟩ := hRow
  have hform : ∀ (qc : Nat → Int) (x : Array (Array Int)),
      (∀ i j, i < m → j < n → afn x i j = afn b i j - qc j * afn b i t) →
      ∀ i j, i < m → j < n → afn x i j =
          (afn a (sw pi t i) (sw pj t j) - qr i * afn a (sw pi t t) (sw pj t j)) -
            qc j * (afn a (sw pi t i) (sw pj t t) - qr i * afn a (sw pi t t) (sw pj t t)) := by
    intro qc x hx i j hi hj
    rw [hx i j hi hj, hqr i j hi hj, hqr i t hi htn, hA i j hi hj, hA t j htm hj, hA i t hi htn, hA t t htm htn]
  cases c with
  | false =>
    have e : colPhase (b, false) (afn a2 t t) t n = (b, false) := by
      unfold colPhase; rw [if_neg (fun h => Bool.noConfusion h)]
    rw [e] at hr'
    have hflag : r.2.2 = false := by rw [hr']; rfl
    have h1 : r.1 = b := by rw [hr']
    have h2 : r.2.1 = afn a2 t t := by rw [hr']
    rw [h1, h2, hflag]
    refine ⟨hshR, hpv2, qr, fun _ => 0, fun i hi => hqr0 i (Or.inl hi), fun _ _ => rfl, fun _ _ => rfl, ?_, ?_, ?_⟩
    · exact hform (fun _ => 0) b (fun i j _ _ => by rw [Int.zero_mul, Int.sub_zero])
    · intro h; exact Bool.noConfusion h
    · intro _
      obtain ⟨i, h1, h2, h3, h4⟩ := hRF rfl
      exact ⟨i, t, by omega, h2, Nat.le_refl _, htn, h3, by rw [← hpv2]; exact h4⟩
  | true =>
    have hbt : afn b t t = afn a2 t t := by
      rw [hqr t t htm htn, hqr0 t (Or.inl (Nat.le_refl _)), Int.zero_mul, Int.sub_zero]
    have hCol := colPhase_spec hshR htm htn (by rw [hbt, hpv2]; exact hpv)
    rw [hbt] at hCol
    generalize colPhase (b, true) (afn a2 t t) t n = sC at hCol hr'
    obtain ⟨hshC, ⟨qc, hqc0, hqcz, hqc⟩, hCT, hCF⟩ := hCol
    have h1 : r.1 = sC.1 := by rw [hr']
    have h2 : r.2.1 = afn a2 t t := by rw [hr']
    have h3 : r.2.2 = finalFlag sC t m n := by rw [hr']
    rw [h1, h2, h3]
    refine ⟨hshC, hpv2, qr, qc, fun i hi => hqr0 i (Or.inl hi), fun j hj => hqc0 j (Or.inl hj), fun j hj => ?_,
      hform qc sC.1 hqc, fun h => (finalFlag_true h).2, fun h => ?_⟩
    · by_cases hjn : j < n
      · apply hqcz
        rw [hqr t j htm hjn, hqr0 t (Or.inl (Nat.le_refl _)), Int.zero_mul, Int.sub_zero, hA t j htm hjn, sw_self]
        exact hj
      · exact hqc0 j (Or.inr (by omega))
    have hc2 : sC.2 = false := by
      cases hc : sC.2 with
      | false => rfl
      | true =>
        have : finalFlag sC t m n = true := by
          refine finalFlag_of hc (fun i hi hi' => ?_) (fun j hj hj' => hCT hc j hj hj')
          rw [hqc i t (by omega) htn, hqc0 t (Or.inl (Nat.le_refl _)), Int.zero_mul, Int.sub_zero]
          exact hRT rfl i hi hi'
        rw [this] at h
        exact Bool.noConfusion h
    obtain ⟨j, h1, h2, h3, h4⟩ := hCF hc2
    exact ⟨t, j, Nat.le_refl _, htm, by omega, h2, h3, by rw [← hpv2]; exact h4⟩

/-- `pivotStep_spec` without the conjunct `∀ j, afn a pi (sw pj t j) = 0 → qc j = 0` -/
theorem pivotStep_spec_weak {a : Array (Array Int)} {t m n pi pj : Nat} (hS : Shape a m n)
    (hpi : t ≤ pi) (hpi' : pi < m) (hpj : t ≤ pj) (hpj' : pj < n) (hpv : afn a pi pj ≠ 0) :
    let r := pivotStep a t m n pi pj
    Shape r.1 m n ∧ r.2.1 = afn a pi pj ∧
    ∃ qr qc : Nat → Int, (∀ i, i ≤ t → qr i = 0) ∧ (∀ j, j ≤ t → qc j = 0) ∧
      (∀ i j, i < m → j < n →
        afn r.1 i j =
          (afn a (sw pi t i) (sw pj t j) - qr i * afn a (sw pi t t) (sw pj t j)) -
            qc j * (afn a (sw pi t i) (sw pj t t) - qr i * afn a (sw pi t t) (sw pj t t))) ∧
      (r.2.2 = true → (∀ i, t < i → i < m → afn r.1 i t = 0) ∧ (∀ j, t < j → j < n → afn r.1 t j = 0)) ∧
      (r.2.2 = false → ∃ i j, t ≤ i ∧ i < m ∧ t ≤ j ∧ j < n ∧ afn r.1 i j ≠ 0 ∧
        (afn r.1 i j).natAbs < (afn a pi pj).natAbs) := by
  obtain ⟨h1, h2, qr, qc, h3, h4, _, h5, h6, h7⟩ := pivotStep_spec hS hpi hpi' hpj hpj' hpv
  exact ⟨h1, h2, qr, qc, h3, h4, h5, h6, h7⟩

end Yuiv.KhSnf
