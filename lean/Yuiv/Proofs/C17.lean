import Yuiv.Model.C17
/-
Spec definitions and helper lemmas for C17 (no property theorem here).
-/
namespace Yuiv.C17
open Yuiv Res

/-- representation invariant of `BitSeq` -/
def WF (b : BS) : Prop := b.len ≤ 64 ∧ b.val < 2 ^ b.len

/-- the list of booleans a bit sequence denotes (bit `i` of `val` is element `i`) -/
def toList (b : BS) : List Bool := (List.range b.len).map (fun i => b.val.testBit i)

/-- the bit sequence denoting a list (inverse of `toList` on well-formed values) -/
def ofList : List Bool → BS
  | [] => ⟨0, 0⟩
  | x :: xs => let t := ofList xs; ⟨(if x then 1 else 0) + 2 * t.val, t.len + 1⟩

/-- a result is `ok b` with `b` well-formed and denoting `l` -/
def Refines (r : Res BS) (l : List Bool) : Prop := ∃ b, r = ok b ∧ WF b ∧ toList b = l

/-! ### basic list view -/

theorem toList_len (b : BS) : (toList b).length = b.len := by simp [toList]

theorem getElem_toList (b : BS) (i : Nat) (h : i < (toList b).length) :
    (toList b)[i] = b.val.testBit i := by simp [toList]

theorem toList_eq_of_testBit {b : BS} {l : List Bool} (hl : l.length = b.len)
    (h : ∀ i (hi : i < l.length), b.val.testBit i = l[i]) : toList b = l := by
  apply List.ext_getElem
  · rw [toList_len, hl]
  · intro i h1 h2
    rw [getElem_toList, h i h2]

theorem testBit_of_lt {v n : Nat} (h : v < 2 ^ n) (j : Nat) (hj : n ≤ j) : v.testBit j = false := by
  apply Nat.testBit_lt_two_pow
  exact Nat.lt_of_lt_of_le h (Nat.pow_le_pow_right (by decide) hj)

theorem WF.testBit {b : BS} (h : WF b) (j : Nat) (hj : b.len ≤ j) : b.val.testBit j = false :=
  testBit_of_lt h.2 j hj

theorem wf_of_testBit {v n : Nat} (hn : n ≤ 64) (h : ∀ j, n ≤ j → v.testBit j = false) :
    WF ⟨v, n⟩ := ⟨hn, Nat.lt_pow_two_of_testBit v h⟩

theorem refines_ok {b : BS} {l : List Bool} (hw : WF b) (h : toList b = l) : Refines (ok b) l :=
  ⟨b, rfl, hw, h⟩

/-- the workhorse: a value described bit by bit refines the list described element by element -/
theorem refines_of_testBit {v n : Nat} {l : List Bool} (hn : n ≤ 64) (hl : l.length = n)
    (h : ∀ j, v.testBit j = if hj : j < l.length then l[j] else false) : Refines (ok ⟨v, n⟩) l := by
  apply refines_ok
  · apply wf_of_testBit hn
    intro j hj
    rw [h j, dif_neg (by omega)]
  · apply toList_eq_of_testBit (by simpa using hl)
    intro i hi
    rw [h i, dif_pos hi]

/-! ### primitive u64 operations -/

theorem shl_eq (x n : Nat) (h : n < 64) : shl x n = ok ((x <<< n) % 2 ^ 64) := by simp [shl, h]
theorem shl_one (n : Nat) (h : n < 64) : shl 1 n = ok (2 ^ n) := by
  have : 2 ^ n < 2 ^ 64 := Nat.pow_lt_pow_right (by decide) h
  simp [shl, h, Nat.one_shiftLeft, Nat.mod_eq_of_lt this]
theorem shl_panic (x n : Nat) (h : 64 ≤ n) : shl x n = panic := by
  simp [shl]; omega
theorem shr_eq (x n : Nat) (h : n < 64) : shr x n = ok (x >>> n) := by simp [shr, h]

theorem mask_le (len : Nat) (h : len ≤ 64) : mask len = ok (2 ^ len - 1) := by
  unfold mask
  by_cases h64 : len = 64
  · subst h64; simp [maxLen, u64Max]
  · have hlt : len < 64 := by omega
    have : 1 ≤ 2 ^ len := Nat.one_le_two_pow
    simp [maxLen, shl_one len hlt, usub, this]; omega

theorem mask_ge (len : Nat) (h : 64 ≤ len) : mask len = ok (2 ^ 64 - 1) := by
  simp [mask, maxLen, h, u64Max]

theorem testBit_not64 (x : Nat) (hx : x < 2 ^ 64) (j : Nat) :
    (not64 x).testBit j = (decide (j < 64) && !x.testBit j) := by
  have : not64 x = 2 ^ 64 - (x + 1) := by simp [not64, u64Max]
  rw [this, Nat.testBit_two_pow_sub_succ hx]

theorem testBit_ite (x : Bool) (k : Nat) :
    (if x then 1 else 0 : Nat).testBit k = (x && decide (k = 0)) := by
  cases x
  · simp
  · cases k <;> simp [Nat.testBit_succ]

theorem new_ok (val len : Nat) (hl : len ≤ 64) (hv : val < 2 ^ len) : new val len = ok ⟨val, len⟩ := by
  have : val ≤ 2 ^ len - 1 := by omega
  simp [new, mask_le len hl, Res.assert, maxLen, hl, this]

theorem new_panic (val len : Nat) (h : 64 < len ∨ 2 ^ len ≤ val) : new val len = panic := by
  by_cases hl : len ≤ 64
  · have h2 : 2 ^ len ≤ val := by omega
    have : 1 ≤ 2 ^ len := Nat.one_le_two_pow
    have : ¬ val ≤ 2 ^ len - 1 := by omega
    simp [new, mask_le len hl, Res.assert, maxLen, hl, this]
  · simp [new, Res.assert, maxLen, hl]

/-! ### revBits -/

theorem revBits_lt (n v : Nat) : revBits n v < 2 ^ n := by
  fun_induction revBits n v with
  | case1 => simp
  | case2 n v ih =>
    have : v % 2 < 2 := Nat.mod_lt _ (by decide)
    have : v % 2 * 2 ^ n ≤ 1 * 2 ^ n := Nat.mul_le_mul_right _ (by omega)
    rw [Nat.pow_succ]; omega

theorem testBit_revBits (n v j : Nat) :
    (revBits n v).testBit j = (decide (j < n) && v.testBit (n - 1 - j)) := by
  fun_induction revBits n v with
  | case1 => simp
  | case2 n v ih =>
    rw [Nat.mul_comm, Nat.testBit_two_pow_mul_add _ (revBits_lt n (v / 2))]
    by_cases hj : j < n
    · have e : n - j = (n - 1 - j) + 1 := by omega
      simp [hj, ih, show j < n + 1 by omega]
      rw [e, Nat.testBit_succ]
    · by_cases hjn : j = n
      · subst hjn
        simp [Nat.testBit_zero]
      · have : (v % 2).testBit (j - n) = false := by
          apply testBit_of_lt (n := 1) (Nat.mod_lt _ (by decide)); omega
        simp [hj, this, show ¬ j < n + 1 by omega]

/-! ### popcount and the Kernighan loop -/

def popc (v : Nat) : Nat := if h : v = 0 then 0 else v % 2 + popc (v / 2)
decreasing_by omega

theorem popc_eq (v : Nat) : popc v = v % 2 + popc (v / 2) := by
  by_cases h : v = 0
  · subst h; unfold popc; simp
  · rw [popc]; simp [h]

theorem popc_zero : popc 0 = 0 := by unfold popc; simp

theorem popc_and_pred (v : Nat) (h : 0 < v) : popc (v &&& (v - 1)) + 1 = popc v := by
  induction v using Nat.strongRecOn with
  | _ v ih =>
    rw [popc_eq (v &&& (v - 1)), popc_eq v, Nat.and_div_two,
      ← Nat.pow_one 2, Nat.and_mod_two_pow, Nat.pow_one]
    rcases Nat.mod_two_eq_zero_or_one v with h0 | h1
    · have hk : 0 < v / 2 := by omega
      have e1 : (v - 1) / 2 = v / 2 - 1 := by omega
      have e2 : (v - 1) % 2 = 1 := by omega
      rw [h0, e1, e2]
      have := ih (v / 2) (by omega) hk
      simp; omega
    · have e1 : (v - 1) / 2 = v / 2 := by omega
      have e2 : (v - 1) % 2 = 0 := by omega
      rw [h1, e1, e2, Nat.and_self]
      simp; omega

theorem weightLoop_eq (fuel v c : Nat) (h : popc v ≤ fuel) : weightLoop fuel v c = c + popc v := by
  fun_induction weightLoop fuel v c with
  | case1 v c => omega
  | case2 fuel v c hv ih =>
    have := popc_and_pred v hv
    rw [ih (by omega)]; omega
  | case3 fuel v c hv =>
    have : v = 0 := by omega
    subst this; simp [popc_zero]

theorem popc_eq_count (n v : Nat) (h : v < 2 ^ n) :
    popc v = ((List.range n).map (fun i => v.testBit i)).count true := by
  induction n generalizing v with
  | zero =>
    have : v = 0 := by simpa using h
    subst this; simp [popc_zero]
  | succ n ih =>
    have h2 : v / 2 < 2 ^ n := by rw [Nat.pow_succ] at h; omega
    rw [popc_eq, ih _ h2, List.range_succ_eq_map, List.map_cons, List.map_map, List.count_cons]
    have : ((fun i => v.testBit i) ∘ Nat.succ) = (fun i => (v / 2).testBit i) := by
      funext i; simp [Nat.testBit_succ]
    rw [this, Nat.testBit_zero]
    rcases Nat.mod_two_eq_zero_or_one v with h0 | h1
    · simp [h0]
    · simp [h1]; omega

theorem weight_eq (b : BS) (h : WF b) : weight b = (toList b).count true := by
  have hc := popc_eq_count b.len b.val h.2
  have hle : popc b.val ≤ 64 := by
    rw [hc]
    refine Nat.le_trans List.count_le_length ?_
    simpa using h.1
  unfold weight
  rw [weightLoop_eq _ _ _ hle, hc, toList]; simp

/-! ### iter -/

theorem iterLoop_eq (n v : Nat) : iterLoop n v = (List.range n).map (fun i => v.testBit i) := by
  fun_induction iterLoop n v with
  | case1 => simp
  | case2 n v ih =>
    rw [ih, List.range_succ_eq_map, List.map_cons, List.map_map]
    congr 1
    · rw [Nat.and_one_is_mod, Nat.testBit_zero]
      rcases Nat.mod_two_eq_zero_or_one v with h0 | h1 <;> simp [*]
    · apply List.map_congr_left
      intro i _
      simp [Nat.testBit_shiftRight, Nat.add_comm]

/-! ### ofList -/

theorem ofList_len (l : List Bool) : (ofList l).len = l.length := by
  induction l with
  | nil => rfl
  | cons x xs ih => simp [ofList, ih]

theorem ofList_lt (l : List Bool) : (ofList l).val < 2 ^ l.length := by
  induction l with
  | nil => simp [ofList]
  | cons x xs ih =>
    simp only [ofList, List.length_cons, Nat.pow_succ]
    cases x <;> simp <;> omega

theorem toList_ofList' (l : List Bool) : toList (ofList l) = l := by
  induction l with
  | nil => simp [ofList, toList]
  | cons x xs ih =>
    have ih' : List.map (fun i => (ofList xs).val.testBit i) (List.range (ofList xs).len) = xs := ih
    simp only [ofList, toList, List.range_succ_eq_map, List.map_cons, List.map_map]
    congr 1
    · cases x <;> simp [Nat.testBit_zero] <;> omega
    · refine Eq.trans ?_ ih'
      apply List.map_congr_left
      intro i _
      simp only [Function.comp, Nat.testBit_succ]
      congr 1
      cases x <;> simp <;> omega

theorem toList_mk_ofList (l : List Bool) : toList ⟨(ofList l).val, l.length⟩ = l := by
  have := toList_ofList' l
  rw [← ofList_len l]
  exact this

/-! ### from_iter -/

theorem or_two_pow {v n : Nat} (h : v < 2 ^ n) : v ||| 2 ^ n = v + 2 ^ n := by
  have := Nat.two_pow_add_eq_or_of_lt h 1
  rw [Nat.mul_one] at this
  rw [Nat.or_comm, ← this, Nat.add_comm]

theorem fromIterLoop_eq (l : List Bool) (v n : Nat) (hn : n + l.length ≤ 64) (hv : v < 2 ^ n) :
    fromIterLoop l v n = ok (v + 2 ^ n * (ofList l).val, n + l.length) := by
  induction l generalizing v n with
  | nil => simp [fromIterLoop, ofList]
  | cons x xs ih =>
    simp only [List.length_cons] at hn
    have hn' : n < 64 := by omega
    have hp : 2 ^ (n + 1) = 2 ^ n * 2 := Nat.pow_succ _ _
    cases x
    · have hv' : v < 2 ^ (n + 1) := by omega
      have e : v + 2 ^ (n + 1) * (ofList xs).val = v + 2 ^ n * (0 + 2 * (ofList xs).val) := by
        rw [hp, Nat.mul_assoc]; simp
      simp [fromIterLoop, ofList, ih v (n + 1) (by omega) hv', e]; omega
    · have hv' : v + 2 ^ n < 2 ^ (n + 1) := by omega
      have e : v + 2 ^ n + 2 ^ (n + 1) * (ofList xs).val = v + 2 ^ n * (1 + 2 * (ofList xs).val) := by
        rw [hp, Nat.mul_add, Nat.mul_assoc]; omega
      simp [fromIterLoop, ofList, shl_one n hn', or_two_pow hv, ih (v + 2 ^ n) (n + 1) (by omega) hv', e]
      omega

theorem fromIter_eq (l : List Bool) (h : l.length ≤ 64) :
    fromIter l = ok ⟨(ofList l).val, l.length⟩ := by
  unfold fromIter
  rw [fromIterLoop_eq l 0 0 (by omega) (by simp)]
  simp [new_ok _ _ h (ofList_lt l)]

theorem fromIterLoop_cases (l : List Bool) (v n : Nat) :
    fromIterLoop l v n = panic ∨ ∃ v', fromIterLoop l v n = ok (v', n + l.length) := by
  induction l generalizing v n with
  | nil => right; exact ⟨v, by simp [fromIterLoop]⟩
  | cons x xs ih =>
    have key : ∀ w, fromIterLoop xs w (n + 1) = panic ∨
        ∃ v', fromIterLoop xs w (n + 1) = ok (v', n + (x :: xs).length) := by
      intro w
      rcases ih w (n + 1) with h | ⟨v', h⟩
      · left; exact h
      · right; exact ⟨v', by rw [h]; simp; omega⟩
    cases x
    · simpa [fromIterLoop] using key v
    · by_cases hn : n < 64
      · simpa [fromIterLoop, shl_one n hn] using key _
      · left; simp [fromIterLoop, shl_panic 1 n (by omega)]

theorem fromIter_panic (l : List Bool) (h : 64 < l.length) : fromIter l = panic := by
  unfold fromIter
  rcases fromIterLoop_cases l 0 0 with h1 | ⟨v', h1⟩
  · rw [h1]; rfl
  · rw [h1]; simp [new_panic v' l.length (Or.inl h)]

/-! ### from_str -/

theorem fromStrLoop_map (l : List Bool) (v n : Nat) :
    fromStrLoop (l.map (fun x => if x then '1' else '0')) v n
      = (fromIterLoop l v n >>= fun p => ok (p.1, p.2, true)) := by
  induction l generalizing v n with
  | nil => simp [fromStrLoop, fromIterLoop]
  | cons x xs ih =>
    cases x
    · simp [fromStrLoop, fromIterLoop, ih]
    · by_cases hn : n < 64
      · simp [fromStrLoop, fromIterLoop, ih, shl_one n hn]
      · simp [fromStrLoop, fromIterLoop, shl_panic 1 n (by omega)]

theorem fromStr_eq (l : List Bool) (h : l.length ≤ 64) :
    fromStr (l.map (fun x => if x then '1' else '0')) = ok ⟨(ofList l).val, l.length⟩ := by
  unfold fromStr
  rw [fromStrLoop_map, fromIterLoop_eq l 0 0 (by omega) (by simp)]
  simp [new_ok _ _ h (ofList_lt l)]

theorem fromStrLoop_cases (s : List Char) (v n : Nat) :
    fromStrLoop s v n = panic ∨ ∃ v' n' good, fromStrLoop s v n = ok (v', n', good) ∧
      (good = true → n' = n + s.length ∧ ∀ c ∈ s, c = '0' ∨ c = '1') := by
  induction s generalizing v n with
  | nil => right; exact ⟨v, n, true, rfl, by simp⟩
  | cons c cs ih =>
    have key : ∀ w, (c = '0' ∨ c = '1') → (fromStrLoop cs w (n + 1) = panic ∨
        ∃ v' n' good, fromStrLoop cs w (n + 1) = ok (v', n', good) ∧
        (good = true → n' = n + (c :: cs).length ∧ ∀ c' ∈ c :: cs, c' = '0' ∨ c' = '1')) := by
      intro w hc
      rcases ih w (n + 1) with h | ⟨v', n', good, h, hg⟩
      · left; exact h
      · right; refine ⟨v', n', good, h, fun g => ?_⟩
        obtain ⟨h1, h2⟩ := hg g
        refine ⟨by simp; omega, ?_⟩
        intro c' hc'
        rcases List.mem_cons.1 hc' with rfl | hm
        · exact hc
        · exact h2 _ hm
    by_cases hc0 : c = '0'
    · simpa [fromStrLoop, hc0] using key v (Or.inl hc0)
    · by_cases hc1 : c = '1'
      · by_cases hn : n < 64
        · have := key (v ||| 2 ^ n) (Or.inr hc1)
          simpa [fromStrLoop, hc0, hc1, shl_one n hn] using this
        · left; simp [fromStrLoop, hc1, shl_panic 1 n (by omega)]
      · right; exact ⟨v, n, false, by simp [fromStrLoop, hc0, hc1], by simp⟩

theorem fromStr_not_ok (s : List Char)
    (h : 64 < s.length ∨ ∃ c ∈ s, c ≠ '0' ∧ c ≠ '1') : ¬ (fromStr s).isOk := by
  unfold fromStr
  rcases fromStrLoop_cases s 0 0 with h1 | ⟨v', n', good, h1, hg⟩
  · rw [h1]; simp [isOk]
  · rw [h1]
    cases good
    · simp only [bind_ok]
      cases new v' n' <;> simp [isOk]
    · obtain ⟨hn, hc⟩ := hg rfl
      rcases h with h | ⟨c, hm, h0, h1'⟩
      · simp [new_panic v' n' (Or.inl (by omega)), isOk]
      · rcases hc c hm with e | e
        · exact absurd e h0
        · exact absurd e h1'

theorem set_refines (b : BS) (h : WF b) (i : Nat) (x : Bool) (hi : i < b.len) :
    Refines (set b i x) ((toList b).set i x) := by
  have h64 : i < 64 := Nat.lt_of_lt_of_le hi h.1
  have hs : (2 : Nat) ^ i < 2 ^ 64 := Nat.pow_lt_pow_right (by decide) h64
  unfold set
  simp only [Res.assert, hi, decide_true, if_true, bind_ok, shl_one i h64]
  cases x
  · simp only [Bool.false_eq_true, if_false]
    apply refines_of_testBit h.1 (by simp [toList_len])
    intro j
    rw [Nat.testBit_and, testBit_not64 _ hs, Nat.testBit_two_pow]
    by_cases hj : j < b.len
    · have : j < 64 := Nat.lt_of_lt_of_le hj h.1
      simp [toList_len, hj, List.getElem_set, getElem_toList, this]
      by_cases e : i = j <;> simp [e]
    · simp [toList_len, hj, h.testBit j (by omega)]
  · simp only [if_true]
    apply refines_of_testBit h.1 (by simp [toList_len])
    intro j
    rw [Nat.testBit_or, Nat.testBit_two_pow]
    by_cases hj : j < b.len
    · simp [toList_len, hj, List.getElem_set, getElem_toList]
      by_cases e : i = j <;> simp [e]
    · simp [toList_len, hj, h.testBit j (by omega)]; omega

theorem push_refines (b : BS) (h : WF b) (x : Bool) (hl : b.len < 64) :
    Refines (push b x) (toList b ++ [x]) := by
  unfold push
  simp only [Res.assert, maxLen, hl, decide_true, if_true, bind_ok, shl_one _ hl]
  cases x
  · simp only [Bool.false_eq_true, if_false]
    apply refines_of_testBit (by omega) (by simp [toList_len])
    intro j
    by_cases hj : j < b.len
    · simp [toList_len, hj, getElem_toList, show j < b.len + 1 by omega]
    · by_cases e : j = b.len
      · simp [toList_len, e, h.testBit]
      · simp [toList_len, show ¬ j < b.len + 1 by omega, h.testBit j (by omega)]
  · simp only [if_true]
    apply refines_of_testBit (by omega) (by simp [toList_len])
    intro j
    rw [Nat.testBit_or, Nat.testBit_two_pow]
    by_cases hj : j < b.len
    · simp [toList_len, hj, getElem_toList, show j < b.len + 1 by omega]; omega
    · by_cases e : j = b.len
      · simp [toList_len, e, h.testBit]
      · simp [toList_len, show ¬ j < b.len + 1 by omega, h.testBit j (by omega)]; omega

theorem two_pow_sub_one_lt {n : Nat} (h : n ≤ 64) : 2 ^ n - 1 < 2 ^ 64 := by
  have : 2 ^ n ≤ 2 ^ 64 := Nat.pow_le_pow_right (by decide) h
  have : 1 ≤ 2 ^ n := Nat.one_le_two_pow
  omega

theorem append_refines (a b : BS) (ha : WF a) (hb : WF b) (hl : a.len + b.len ≤ 64) :
    Refines (append a b) (toList a ++ toList b) := by
  unfold append
  simp only [Res.assert, maxLen, hl, decide_true, if_true, bind_ok]
  by_cases hb0 : b.len > 0
  · have hal : a.len < 64 := by omega
    simp only [hb0, if_true, shl_eq _ _ hal, bind_ok]
    apply refines_of_testBit hl (by simp [toList_len])
    intro j
    rw [Nat.testBit_or, Nat.testBit_mod_two_pow, Nat.testBit_shiftLeft]
    by_cases hj : j < a.len
    · simp [toList_len, hj, getElem_toList, show j < a.len + b.len by omega]
      omega
    · by_cases hj2 : j < a.len + b.len
      · simp [toList_len, hj2, getElem_toList, ha.testBit j (by omega),
          show j < 64 by omega, show a.len ≤ j by omega]
      · simp [toList_len, hj2, ha.testBit j (by omega), hb.testBit (j - a.len) (by omega)]
  · have hb0' : b.len = 0 := by omega
    have hbl : toList b = [] := by simp [toList, hb0']
    simp only [hbl, List.append_nil, hb0', Nat.add_zero]
    exact refines_ok ha rfl

theorem remove_refines (b : BS) (h : WF b) (i : Nat) (hi : i < b.len) :
    Refines (remove b i) ((toList b).eraseIdx i) := by
  have hl := h.1
  unfold remove
  simp only [Res.assert, hi, decide_true, if_true, bind_ok, mask_le (i + 1) (by omega),
    mask_le i (by omega), shr_eq _ 1 (by decide), usub, show 1 ≤ b.len by omega]
  apply refines_of_testBit (by omega) (by simp [toList_len, List.length_eraseIdx, hi])
  intro j
  rw [Nat.testBit_or, Nat.testBit_shiftRight, Nat.testBit_and, Nat.testBit_and,
    testBit_not64 _ (two_pow_sub_one_lt (by omega)), Nat.testBit_two_pow_sub_one,
    Nat.testBit_two_pow_sub_one]
  by_cases hj : j < b.len - 1
  · simp only [List.length_eraseIdx, toList_len, hi, if_true, hj, dif_pos, List.getElem_eraseIdx,
      getElem_toList]
    by_cases hji : j < i
    · simp [hji]; omega
    · simp [hji, Nat.add_comm]; omega
  · simp only [List.length_eraseIdx, toList_len, hi, if_true, hj, dif_neg, not_false_eq_true]
    simp [h.testBit (1 + j) (by omega)]; omega

theorem insert_refines (b : BS) (h : WF b) (i : Nat) (x : Bool) (hi : i ≤ b.len) (hl : b.len < 64) :
    Refines (insert b i x) ((toList b).insertIdx i x) := by
  have hi64 : i < 64 := by omega
  unfold insert
  simp only [Res.assert, hi, hl, maxLen, decide_true, if_true, bind_ok, shl_one i hi64, usub,
    show 1 ≤ 2 ^ i from Nat.one_le_two_pow, shl_eq _ _ hi64, shl_eq _ 1 (by decide)]
  apply refines_of_testBit (by omega) (by simp [toList_len, List.length_insertIdx, hi])
  intro j
  rw [Nat.testBit_or, Nat.testBit_or, Nat.testBit_mod_two_pow, Nat.testBit_mod_two_pow,
    Nat.testBit_shiftLeft, Nat.testBit_shiftLeft, Nat.testBit_and, Nat.testBit_and,
    testBit_not64 _ (two_pow_sub_one_lt (by omega)), Nat.testBit_two_pow_sub_one, testBit_ite]
  by_cases hj : j < b.len + 1
  · simp only [List.length_insertIdx, toList_len, hi, if_true, hj, dif_pos, List.getElem_insertIdx,
      getElem_toList]
    have hj64 : j < 64 := by omega
    by_cases hji : j < i
    · simp [hji, hj64]; omega
    · by_cases hje : j = i
      · subst hje; simp [hj64]; omega
      · simp [hji, hje, hj64, show j - 1 < 64 by omega, show 1 ≤ j by omega,
          show ¬ j - 1 < i by omega, show ¬ j - i = 0 by omega]
  · simp only [List.length_insertIdx, toList_len, hi, if_true, hj, dif_neg, not_false_eq_true]
    simp [h.testBit (j - 1) (by omega), h.testBit j (by omega)]; omega

theorem toList_inj' (a b : BS) (ha : WF a) (hb : WF b) : toList a = toList b ↔ a = b := by
  constructor
  · intro e
    have hl : a.len = b.len := by
      have := congrArg List.length e
      simpa [toList_len] using this
    have hv : a.val = b.val := by
      apply Nat.eq_of_testBit_eq
      intro j
      by_cases hj : j < a.len
      · have h1 : j < (toList a).length := by simpa [toList_len] using hj
        have h2 : j < (toList b).length := by rw [← e]; exact h1
        have : (toList a)[j] = (toList b)[j] := by simp [e]
        rwa [getElem_toList, getElem_toList] at this
      · rw [ha.testBit j (by omega), hb.testBit j (by omega)]
    cases a; cases b; simp_all
  · intro e; rw [e]

theorem sub_eq (b : BS) (h : WF b) (l : Nat) (hl : l ≤ b.len) :
    sub b l = ok ⟨b.val % 2 ^ l, l⟩ ∧ WF ⟨b.val % 2 ^ l, l⟩ ∧
      toList ⟨b.val % 2 ^ l, l⟩ = (toList b).take l := by
  have hl64 : l ≤ 64 := Nat.le_trans hl h.1
  have hlt : b.val % 2 ^ l < 2 ^ l := Nat.mod_lt _ (Nat.two_pow_pos l)
  refine ⟨?_, ⟨hl64, hlt⟩, ?_⟩
  · unfold sub
    simp only [Res.assert, hl, decide_true, if_true, bind_ok, mask_le l hl64,
      Nat.and_two_pow_sub_one_eq_mod]
    exact new_ok _ _ hl64 hlt
  · apply toList_eq_of_testBit (by simp [toList_len, hl])
    intro i hi
    have : i < l := by simp [toList_len] at hi; omega
    simp [Nat.testBit_mod_two_pow, this, getElem_toList]

theorem isSub_eq (a b : BS) (ha : WF a) (hb : WF b) :
    isSub a b = ok ((toList a).isPrefixOf (toList b)) := by
  unfold isSub
  by_cases hl : a.len ≤ b.len
  · obtain ⟨_, hw, ht⟩ := sub_eq b hb a.len hl
    simp only [hl, if_true, mask_le a.len ha.1, bind_ok, Nat.and_two_pow_sub_one_eq_mod]
    congr 1
    rw [Bool.eq_iff_iff, List.isPrefixOf_iff_prefix, List.prefix_iff_eq_take, toList_len, ← ht,
      toList_inj' a _ ha hw, beq_iff_eq]
    constructor
    · intro e; cases a; simp_all
    · intro e; rw [e]
  · simp only [hl, if_false]
    congr 1
    symm
    rw [Bool.eq_false_iff]
    intro hp
    have := (List.isPrefixOf_iff_prefix.1 hp).length_le
    simp [toList_len] at this
    omega

theorem newRev_refines (val len : Nat) (hl : len ≤ 64) :
    Refines (newRev val len) ((List.range len).map (fun i => val.testBit (len - 1 - i))) := by
  unfold newRev
  simp only [Res.assert, maxLen, hl, decide_true, if_true, bind_ok]
  by_cases h0 : len = 0
  · subst h0
    simp only [if_true, new_ok 0 0 (by decide) (by decide)]
    exact refines_ok ⟨by decide, by decide⟩ (by simp [toList])
  · have hk : 64 - len < 64 := by omega
    simp only [h0, if_false, usub, hl, if_true, bind_ok, shr_eq _ _ hk]
    have hbit : ∀ j, (revBits 64 val >>> (64 - len)).testBit j
        = (decide (j < len) && val.testBit (len - 1 - j)) := by
      intro j
      rw [Nat.testBit_shiftRight, testBit_revBits]
      by_cases hj : j < len
      · simp [hj, show 64 - len + j < 64 by omega, show 64 - 1 - (64 - len + j) = len - 1 - j by omega]
      · simp [hj, show ¬ 64 - len + j < 64 by omega]
    have hlt : revBits 64 val >>> (64 - len) < 2 ^ len := by
      apply Nat.lt_pow_two_of_testBit
      intro j hj
      simp [hbit, show ¬ j < len by omega]
    rw [new_ok _ _ hl hlt]
    apply refines_of_testBit hl (by simp)
    intro j
    rw [hbit]
    by_cases hj : j < len <;> simp [hj]

theorem toList_zero (len : Nat) : toList ⟨0, len⟩ = List.replicate len false := by
  apply List.ext_getElem (by simp [toList_len])
  intro i h1 h2
  simp [getElem_toList]

theorem toList_ones (len : Nat) : toList ⟨2 ^ len - 1, len⟩ = List.replicate len true := by
  apply List.ext_getElem (by simp [toList_len])
  intro i h1 h2
  have : i < len := by simpa [toList_len] using h1
  simp [getElem_toList, Nat.testBit_two_pow_sub_one, this]

theorem index_eq (b : BS) (h : WF b) (i : Nat) (hi : i < b.len) :
    index b i = ok ((toList b).getD i false) := by
  have hi64 : i < 64 := Nat.lt_of_lt_of_le hi h.1
  unfold index
  simp only [Res.assert, hi, decide_true, if_true, bind_ok, shr_eq _ _ hi64]
  congr 1
  have hlen : i < (toList b).length := by simpa [toList_len] using hi
  rw [List.getD_eq_getElem?_getD, List.getElem?_eq_getElem hlen, Option.getD_some, getElem_toList,
    Nat.and_one_is_mod, ← Nat.add_zero i, ← Nat.testBit_shiftRight, Nat.add_zero, Nat.testBit_zero]
  rcases Nat.mod_two_eq_zero_or_one (b.val >>> i) with h0 | h1 <;> simp [*]

end Yuiv.C17
