import Yuiv.Proofs.SnfUnique
import Yuiv.Props.C09Full
/-
Bridge between the uniqueness theorem of `Proofs/SnfUnique.lean` (Mathlib matrices over ℤ) and the objects of the C09
framework: the model's sized matrices `C09.Mat Int m n`, their Mathlib image `toM id`, the diagonal list `diagL` and the
shape predicate `ShapeSpec` in which `C09.snf_total_correct` / `C09.snf_correct` state the Smith shape.
-/
namespace Yuiv.C09
open Yuiv Matrix Yuiv.SnfUnique

variable {m n : Nat}

/-- `T` is a Smith normal form of `A` with normalised (non-negative) diagonal, witnessed by transforms
`P, P⁻¹, Q, Q⁻¹`: literally the conclusion of `snf_total_correct` / `snf_correct` about the final state
`(t, p, pinv, q, qinv)` of the code model -/
def SnfWitness (A T : Mat Int m n) (P Pi : Mat Int m m) (Q Qi : Mat Int n n) : Prop :=
  (toM id P * toM id A * toM id Q = toM id T ∧ toM id P * toM id Pi = 1 ∧ toM id Q * toM id Qi = 1) ∧
    (∀ (i : Fin m) (j : Fin n), i.1 ≠ j.1 → T.get i j = 0) ∧ ShapeSpec (fun x : Int => 0 ≤ x) (diagL T)

/-- `T` is a normalised Smith normal form of `A` (for some invertible transforms) -/
def IsSnfOf (A T : Mat Int m n) : Prop := ∃ P Pi Q Qi, SnfWitness A T P Pi Q Qi

theorem diagL_length (T : Mat Int m n) : (diagL T).length = min m n := by simp [diagL]

theorem diagL_getElem_dgM (T : Mat Int m n) (k : Nat) (h : k < (diagL T).length) :
    (diagL T)[k] = dgM (toM id T) k := by
  have hk : k < min m n := by simpa [diagL] using h
  simp only [diagL, List.getElem_ofFn, dgM, toM_apply, id]
  rw [dif_pos ⟨by omega, by omega⟩]

theorem dgM_toM_out (T : Mat Int m n) (k : Nat) (h : min m n ≤ k) : dgM (toM id T) k = 0 := by
  unfold dgM
  rw [dif_neg (by omega)]

/-- the framework's shape predicate gives the divisibility chain `d_k ∣ d_{k+1}` for ALL `k` and non-negativity -/
theorem shapeSpec_chain_nonneg (T : Mat Int m n) (h : ShapeSpec (fun x : Int => 0 ≤ x) (diagL T)) :
    (∀ k, dgM (toM id T) k ∣ dgM (toM id T) (k + 1)) ∧ ∀ k, 0 ≤ dgM (toM id T) k := by
  obtain ⟨r, hr, hnz, hz, hch⟩ := h
  have hlen := diagL_length T
  constructor
  · intro k
    by_cases hk : k + 1 < min m n
    · by_cases hkr : k + 1 < r
      · have := hch k (by omega) hkr
        rwa [diagL_getElem_dgM, diagL_getElem_dgM] at this
      · have := hz (k + 1) (by omega) (by omega)
        rw [diagL_getElem_dgM] at this
        rw [this]; exact dvd_zero _
    · rw [dgM_toM_out T (k + 1) (by omega)]; exact dvd_zero _
  · intro k
    by_cases hk : k < min m n
    · by_cases hkr : k < r
      · have := (hnz k (by omega) hkr).2
        rwa [diagL_getElem_dgM] at this
      · have := hz k (by omega) (by omega)
        rw [diagL_getElem_dgM] at this
        rw [this]
    · rw [dgM_toM_out T k (by omega)]

theorem SnfWitness.isSmith {A T : Mat Int m n} {P Pi : Mat Int m m} {Q Qi : Mat Int n n}
    (h : SnfWitness A T P Pi Q Qi) : IsSmith (toM id T) :=
  ⟨fun i j hij => h.2.1 i j hij, (shapeSpec_chain_nonneg T h.2.2).1⟩

/-- two normalised Smith forms of the same matrix have the same `dgM` -/
theorem dgM_eq_of_isSnfOf (A T T' : Mat Int m n) (h : IsSnfOf A T) (h' : IsSnfOf A T') (k : Nat) :
    dgM (toM id T) k = dgM (toM id T') k := by
  obtain ⟨P, Pi, Q, Qi, w⟩ := h
  obtain ⟨P', Pi', Q', Qi', w'⟩ := h'
  have hn := smith_natAbs_eq_of_same (toM id A) (toM id T) (toM id T') w.isSmith w'.isSmith
    (toM id P) (toM id Pi) (toM id P') (toM id Pi') (toM id Q) (toM id Qi) (toM id Q') (toM id Qi')
    w.1.2.1 w.1.2.2 w'.1.2.1 w'.1.2.2 w.1.1 w'.1.1 k
  exact eq_of_natAbs_eq_of_nonneg hn ((shapeSpec_chain_nonneg T w.2.2).2 k) ((shapeSpec_chain_nonneg T' w'.2.2).2 k)

theorem diagL_eq_of_dgM_eq (T T' : Mat Int m n) (h : ∀ k, dgM (toM id T) k = dgM (toM id T') k) :
    diagL T = diagL T' := by
  apply List.ext_getElem
  · rw [diagL_length, diagL_length]
  · intro k h1 h2
    rw [diagL_getElem_dgM, diagL_getElem_dgM, h k]

/-- the verified checker `isSnfShape` (Model/C09.lean) implies the mathematical shape (as in `snf_shape_spec`) -/
theorem spec_of_isSnfShape (T : Mat Int m n) (hs : isSnfShape intOps T = true) :
    (∀ (i : Fin m) (j : Fin n), i.1 ≠ j.1 → T.get i j = 0) ∧ ShapeSpec (fun x : Int => 0 ≤ x) (diagL T) := by
  simp only [isSnfShape, Bool.and_eq_true] at hs
  refine ⟨(isDiag_iff lawful_int T).1 hs.1, ?_⟩
  have := shapeL_sound lawful_int (fun x : Int => 0 ≤ x) ?_ ?_ _ hs.2
  · simpa using this
  · intro a ha
    simp only [EOps.isNorm, int_isOne, int_normUnit] at ha
    show (0 : Int) ≤ a
    by_contra hlt
    rw [if_pos (by omega)] at ha
    omega
  · intro a b hab
    exact ((int_dvd a b).1 hab).2

theorem diagL_eq_map_dgM (T : Mat Int m n) : diagL T = (List.range (min m n)).map (dgM (toM id T)) := by
  apply List.ext_getElem
  · simp [diagL]
  · intro k h1 h2
    rw [diagL_getElem_dgM]
    simp

/-- a normalised Smith form in the framework's sense agrees with ANY normalised Smith form `D = U·A·V` given as Mathlib
matrices with `IsUnit det` transforms -/
theorem dgM_eq_of_isSnfOf_matrix (A T : Mat Int m n) (h : IsSnfOf A T) (D : Matrix (Fin m) (Fin n) ℤ)
    (U : Matrix (Fin m) (Fin m) ℤ) (V : Matrix (Fin n) (Fin n) ℤ) (hU : IsUnit U.det) (hV : IsUnit V.det)
    (hD : IsSmith D) (hn : ∀ k, 0 ≤ dgM D k) (hA : U * toM id A * V = D) (k : Nat) :
    dgM (toM id T) k = dgM D k := by
  obtain ⟨P, Pi, Q, Qi, w⟩ := h
  have hk := smith_natAbs_eq_of_same (toM id A) (toM id T) D w.isSmith hD
    (toM id P) (toM id Pi) U U⁻¹ (toM id Q) (toM id Qi) V V⁻¹
    w.1.2.1 w.1.2.2 (Matrix.mul_nonsing_inv U hU) (Matrix.mul_nonsing_inv V hV) w.1.1 hA k
  exact eq_of_natAbs_eq_of_nonneg hk ((shapeSpec_chain_nonneg T w.2.2).2 k) (hn k)

end Yuiv.C09
