import Yuiv.Proofs.C04InvUF
import Yuiv.Proofs.C04
/-
C04Inv (helper, no property theorem here): invariance of the model's circle counts — hence of the executable
`jones` / `chiChain` coefficient lists, LITERALLY — under an injective renumbering `f : ℕ → ℕ` of the edge labels.
-/
open Yuiv.KhRef Yuiv.C04
namespace Yuiv.C04Inv
open Relation

/-- renumbering of the edge labels of a link diagram by `f` -/
def renumber (f : Nat → Nat) (l : Link) : Link := l.map (fun c => ⟨c.ct, c.e.map f⟩)

def pmap (f : Nat → Nat) (p : Nat × Nat) : Nat × Nat := (f p.1, f p.2)

theorem crossingNum_renumber (f : Nat → Nat) (l : Link) : crossingNum (renumber f l) = crossingNum l := by
  unfold crossingNum renumber
  rw [Array.filter_map]
  simp [Function.comp_def]

theorem WF_renumber {f : Nat → Nat} {l : Link} (h : WF l) : WF (renumber f l) := by
  intro c hc
  unfold renumber at hc
  obtain ⟨c0, hc0, rfl⟩ := Array.mem_map.mp hc
  simpa using h c0 hc0

theorem labelSet_renumber (f : Nat → Nat) (l : Link) : labelSet (renumber f l) = f '' labelSet l := by
  ext x
  simp only [labelSet, renumber, Set.mem_ofPred_eq, Set.mem_image, Array.mem_map]
  constructor
  · rintro ⟨c, ⟨c0, hc0, rfl⟩, hx⟩
    obtain ⟨y, hy, rfl⟩ := Array.mem_map.mp hx
    exact ⟨y, ⟨c0, hc0, hy⟩, rfl⟩
  · rintro ⟨y, ⟨c0, hc0, hy⟩, rfl⟩
    exact ⟨_, ⟨c0, hc0, rfl⟩, Array.mem_map.mpr ⟨y, hy, rfl⟩⟩

theorem resTypes_map (g : Crossing → Crossing) (hg : ∀ c, (g c).ct = c.ct) (cs : List Crossing) (s : Nat) :
    resTypes (cs.map g) s = resTypes cs s := by
  induction cs generalizing s with
  | nil => rfl
  | cons c cs ih => simp [resTypes, hg, ih]

theorem arcs_map (f : Nat → Nat) (c : Crossing) (hc : c.e.size = 4) (t : CT) :
    arcs ⟨c.ct, c.e.map f⟩ t = (arcs c t).map (pmap f) := by
  have g : ∀ j < 4, (c.e.map f)[j]! = f c.e[j]! := by
    intro j hj
    rw [getElem!_pos _ j (by simpa using (by omega : j < c.e.size)), getElem!_pos c.e j (by omega)]
    simp
  unfold arcs arcIdx pmap
  cases t <;> simp [g]

theorem pairsL_map (f : Nat → Nat) (cs : List Crossing) (hwf : ∀ c ∈ cs, c.e.size = 4) (ts : List CT) :
    pairsL (cs.map (fun c => ⟨c.ct, c.e.map f⟩)) ts = (pairsL cs ts).map (pmap f) := by
  induction cs generalizing ts with
  | nil => simp [pairsL]
  | cons c cs ih =>
    cases ts with
    | nil => simp [pairsL]
    | cons t ts =>
      simp only [List.map_cons, pairsL, List.map_append]
      rw [arcs_map f c (hwf c (by simp)), ih (fun c hc => hwf c (List.mem_cons_of_mem _ hc))]

theorem statePairs_renumber (f : Nat → Nat) (l : Link) (hwf : WF l) (s : Nat) :
    statePairs (renumber f l) s = (statePairs l s).map (pmap f) := by
  unfold statePairs renumber
  rw [Array.toList_map, resTypes_map (fun c => ⟨c.ct, c.e.map f⟩) (fun _ => rfl), pairsL_map f _ (fun c hc => hwf c (by simpa using hc))]

theorem Conn.map (f : Nat → Nat) {P : List (Nat × Nat)} {x y : Nat} (c : Conn P x y) :
    Conn (P.map (pmap f)) (f x) (f y) := by
  induction c with
  | rel x y r => exact Conn.of_mem (List.mem_map.mpr ⟨(x, y), r, rfl⟩)
  | refl x => exact Conn.refl _
  | symm x y _ ih => exact ih.symm
  | trans x y z _ _ ih1 ih2 => exact ih1.trans ih2

theorem Conn.of_map {f : Nat → Nat} {L : Set Nat} (hf : Set.InjOn f L) {P : List (Nat × Nat)}
    (hP : ∀ p ∈ P, p.1 ∈ L ∧ p.2 ∈ L) {a b : Nat}
    (c : Conn (P.map (pmap f)) a b) : a = b ∨ ∃ x ∈ L, ∃ y ∈ L, a = f x ∧ b = f y ∧ Conn P x y := by
  induction c with
  | rel a b r =>
    obtain ⟨p, hp, e⟩ := List.mem_map.mp r
    simp only [pmap, Prod.mk.injEq] at e
    exact Or.inr ⟨p.1, (hP p hp).1, p.2, (hP p hp).2, e.1.symm, e.2.symm, Conn.of_mem hp⟩
  | refl a => exact Or.inl rfl
  | symm a b _ ih =>
    rcases ih with h | ⟨x, hx, y, hy, h1, h2, h3⟩
    · exact Or.inl h.symm
    · exact Or.inr ⟨y, hy, x, hx, h2, h1, h3.symm⟩
  | trans a b c _ _ ih1 ih2 =>
    rcases ih1 with h | ⟨x, hx, y, hy, h1, h2, h3⟩
    · subst h; exact ih2
    · rcases ih2 with h | ⟨y', hy', z, hz, h1', h2', h3'⟩
      · subst h; exact Or.inr ⟨x, hx, y, hy, h1, h2, h3⟩
      · have : y = y' := hf hy hy' (h2.symm.trans h1')
        subst this
        exact Or.inr ⟨x, hx, z, hz, h1, h2', h3.trans h3'⟩

theorem Conn.map_iff {f : Nat → Nat} {L : Set Nat} (hf : Set.InjOn f L) {P : List (Nat × Nat)}
    (hP : ∀ p ∈ P, p.1 ∈ L ∧ p.2 ∈ L) {x y : Nat} (hx : x ∈ L) (hy : y ∈ L) :
    Conn (P.map (pmap f)) (f x) (f y) ↔ Conn P x y := by
  constructor
  · intro c
    rcases c.of_map hf hP with h | ⟨x', hx', y', hy', h1, h2, h3⟩
    · rw [hf hx hy h]; exact Conn.refl _
    · rw [hf hx hx' h1, hf hy hy' h2]; exact h3
  · exact Conn.map f

theorem IsTransversal.map {f : Nat → Nat} {L : Set Nat} (hf : Set.InjOn f L) {P : List (Nat × Nat)}
    (hP : ∀ p ∈ P, p.1 ∈ L ∧ p.2 ∈ L) {T : List Nat} (h : IsTransversal L P T) :
    IsTransversal (f '' L) (P.map (pmap f)) (T.map f) := by
  refine ⟨List.Nodup.map_on (fun x hx y hy e => hf (h.sub x hx) (h.sub y hy) e) h.nodup, ?_, ?_, ?_⟩
  · intro t ht
    obtain ⟨t0, ht0, rfl⟩ := List.mem_map.mp ht
    exact ⟨t0, h.sub t0 ht0, rfl⟩
  · intro t1 ht1 t2 ht2 c
    obtain ⟨a, ha, rfl⟩ := List.mem_map.mp ht1
    obtain ⟨b, hb, rfl⟩ := List.mem_map.mp ht2
    rw [h.sep a ha b hb ((Conn.map_iff hf hP (h.sub a ha) (h.sub b hb)).mp c)]
  · rintro _ ⟨x, hx, rfl⟩
    obtain ⟨t, ht, c⟩ := h.cover x hx
    exact ⟨f t, List.mem_map.mpr ⟨t, ht, rfl⟩, c.map f⟩

theorem statePairs_sub (l : Link) (hwf : WF l) (s : Nat) :
    ∀ p ∈ statePairs l s, p.1 ∈ labelSet l ∧ p.2 ∈ labelSet l := by
  intro p hp
  obtain ⟨c, hc, h1, h2⟩ := mem_pairsL (fun c hc => hwf c (by simpa using hc)) hp
  exact ⟨⟨c, by simpa using hc, h1⟩, ⟨c, by simpa using hc, h2⟩⟩

/-- circle counts are unchanged by a renumbering that is injective ON THE LABELS OF THE DIAGRAM -/
theorem circleCount_renumber_on {f : Nat → Nat} (l : Link) (hf : Set.InjOn f (labelSet l)) (hwf : WF l) (s : Nat) :
    circleCount (renumber f l) s = circleCount l s := by
  obtain ⟨h1, T, hT⟩ := circleCount_eq l hwf s
  obtain ⟨h2, _⟩ := circleCount_eq (renumber f l) (WF_renumber hwf) s
  rw [h1, h2, classCount_eq_length hT, labelSet_renumber, statePairs_renumber f l hwf,
    classCount_eq_length (hT.map hf (statePairs_sub l hwf s)), List.length_map]

theorem circleCount_renumber {f : Nat → Nat} (hf : Function.Injective f) (l : Link) (hwf : WF l) (s : Nat) :
    circleCount (renumber f l) s = circleCount l s :=
  circleCount_renumber_on l hf.injOn hwf s

theorem jones_renumber_on {f : Nat → Nat} (l : Link) (hf : Set.InjOn f (labelSet l)) (hwf : WF l)
    (signs : Array Int) : jones (renumber f l) signs = jones l signs := by
  have h : circleCount (renumber f l) = circleCount l := funext (circleCount_renumber_on l hf hwf)
  unfold jones
  rw [crossingNum_renumber, h]

theorem jones_renumber {f : Nat → Nat} (hf : Function.Injective f) (l : Link) (hwf : WF l) (signs : Array Int) :
    jones (renumber f l) signs = jones l signs := by
  have h : circleCount (renumber f l) = circleCount l := funext (circleCount_renumber hf l hwf)
  unfold jones
  rw [crossingNum_renumber, h]



theorem chiChain_renumber_on {f : Nat → Nat} (l : Link) (hf : Set.InjOn f (labelSet l)) (hwf : WF l)
    (signs : Array Int) : chiChain (renumber f l) signs = chiChain l signs := by
  unfold chiChain
  dsimp only
  rw [mkCube_n, mkCube_n, crossingNum_renumber]
  apply List.foldl_ext
  intro acc s hs
  have hs' := List.mem_range.mp hs
  rw [mkCube_gensAt _ s (by rwa [crossingNum_renumber]), mkCube_gensAt l s hs', circleCount_renumber_on l hf hwf,
    ← Array.foldl_toList, ← Array.foldl_toList]
  apply List.foldl_ext
  intro acc g hg
  simp only [Array.toList_map, Array.toList_range, List.mem_map, List.mem_range] at hg
  obtain ⟨m, _, rfl⟩ := hg
  rw [mkCube_qDeg _ _ s m (by rwa [crossingNum_renumber]), mkCube_qDeg l _ s m hs', circleCount_renumber_on l hf hwf,
    crossingNum_renumber]

theorem chiChain_renumber {f : Nat → Nat} (hf : Function.Injective f) (l : Link) (hwf : WF l) (signs : Array Int) :
    chiChain (renumber f l) signs = chiChain l signs :=
  chiChain_renumber_on l hf.injOn hwf signs

end Yuiv.C04Inv
