import Yuiv.Proofs.KhSpecDefs
import Yuiv.Proofs.C01SqAsm
import Yuiv.Proofs.C01SqBridge
/-
KhSpecGens — the generator lists of `khHomology` (`gensByWeight`) and the targets of `Cube.d`.

  * `mem_gensAt_unreduced`, `gensAt_nodup` : the generators at a vertex (all labellings, without repetition);
  * `mem_gensByWeight`, `gensByWeight_nodup`, `gensByWeight_size`, `inGens_iff` : the lists by weight, by induction over
    the prefix of `List.range (2^n)` the first loop of `khHomology` has processed (`gbwPre`, invariant `gbwPre_inv`);
  * `d_targets`, `d_targets_mem` : `Cube.d` maps a generator of weight `w` to generators of weight `w + 1`.
-/
namespace Yuiv.KhSpec
open Yuiv Yuiv.KhRef

theorem popcount_le (s n : Nat) : popcount s n ≤ n := by
  unfold popcount
  have := List.length_filter_le (fun i => s.testBit i) (List.range n)
  simpa using this

/-! ### generators at a vertex -/

theorem gensAt_toList (c : Cube) (s : Nat) :
    (c.gensAt s).toList =
      match c.baseCircle s with
      | none => (List.range (2 ^ (c.circ[s]!).size)).map (Gen.mk s)
      | some b => ((List.range (2 ^ (c.circ[s]!).size)).map (Gen.mk s)).filter (fun g => g.mask.testBit b) := by
  unfold Cube.gensAt
  cases c.baseCircle s with
  | none => simp [Array.toList_range]
  | some b => simp [Array.toList_range]

theorem baseCircle_none (c : Cube) (hb : c.base = none) (s : Nat) : c.baseCircle s = none := by
  unfold Cube.baseCircle
  rw [hb]

theorem mem_gensAt_s (c : Cube) (s : Nat) (g : Gen) (h : g ∈ (c.gensAt s).toList) : g.s = s := by
  rw [gensAt_toList] at h
  split at h
  · obtain ⟨m, _, rfl⟩ := List.mem_map.1 h
    rfl
  · obtain ⟨m, _, rfl⟩ := List.mem_map.1 (List.mem_filter.1 h).1
    rfl

/-- unreduced cube: the generators at a vertex are all labellings -/
theorem mem_gensAt_unreduced (c : Cube) (hb : c.base = none) (s : Nat) (g : Gen) :
    g ∈ (c.gensAt s).toList ↔ g.s = s ∧ g.mask < 2 ^ (c.circ[s]!).size := by
  rw [gensAt_toList, baseCircle_none c hb s]
  obtain ⟨gs, gm⟩ := g
  simp only [List.mem_map, List.mem_range, Gen.mk.injEq]
  constructor
  · rintro ⟨m, hm, rfl, rfl⟩
    exact ⟨rfl, hm⟩
  · rintro ⟨rfl, hm⟩
    exact ⟨gm, hm, rfl, rfl⟩

theorem gensAt_nodup (c : Cube) (s : Nat) : (c.gensAt s).toList.Nodup := by
  have h0 : ((List.range (2 ^ (c.circ[s]!).size)).map (Gen.mk s)).Nodup := by
    apply List.Nodup.map _ List.nodup_range
    intro a b hab
    injection hab
  rw [gensAt_toList]
  split
  · exact h0
  · exact h0.filter _

/-! ### generators by weight: the loop over the states -/

/-- body of the first loop of `khHomology` -/
def gbwStep (c : Cube) (gens : Array (Array Gen)) (s : Nat) : Array (Array Gen) :=
  gens.set! (popcount s c.n) (gens[popcount s c.n]! ++ c.gensAt s)

/-- the lists after the states `0 … m-1` -/
def gbwPre (c : Cube) (m : Nat) : Array (Array Gen) :=
  (List.range m).foldl (gbwStep c) (Array.replicate (c.n + 1) #[])

theorem gensByWeight_eq (c : Cube) : gensByWeight c = gbwPre c (2 ^ c.n) := rfl

theorem gbwPre_succ (c : Cube) (m : Nat) : gbwPre c (m + 1) = gbwStep c (gbwPre c m) m := by
  unfold gbwPre
  rw [List.range_succ, List.foldl_append]
  rfl

theorem getElem!_set! (a : Array (Array Gen)) (i w : Nat) (v : Array Gen) (hi : i < a.size) :
    (a.set! i v)[w]! = if i = w then v else a[w]! := by
  by_cases hw : w < a.size
  · rw [getElem!_pos (a.set! i v) w (by simpa using hw), getElem!_pos a w hw]
    show (a.setIfInBounds i v)[w]'(by simpa using hw) = _
    rw [Array.getElem_setIfInBounds]
  · rw [getElem!_neg (a.set! i v) w (by simpa using hw), getElem!_neg a w hw]
    have : i ≠ w := by omega
    simp [this]

/-- the loop invariant -/
structure GbwInv (c : Cube) (m : Nat) (gens : Array (Array Gen)) : Prop where
  size : gens.size = c.n + 1
  mem : ∀ (w : Nat) (g : Gen), g ∈ (gens[w]! : Array Gen).toList ↔
    w ≤ c.n ∧ g.s < m ∧ popcount g.s c.n = w ∧ g ∈ (c.gensAt g.s).toList
  nodup : ∀ w : Nat, (gens[w]! : Array Gen).toList.Nodup

theorem gbwInv_zero (c : Cube) : GbwInv c 0 (gbwPre c 0) := by
  have e : ∀ w : Nat, ((Array.replicate (c.n + 1) (#[] : Array Gen))[w]!) = #[] := by
    intro w
    by_cases hw : w < c.n + 1
    · rw [getElem!_pos _ w (by simpa using hw)]
      simp
    · rw [getElem!_neg _ w (by simpa using hw)]
      rfl
  refine ⟨by simp [gbwPre], fun w g => ?_, fun w => ?_⟩
  · show g ∈ ((Array.replicate (c.n + 1) (#[] : Array Gen))[w]!).toList ↔ _
    rw [e]
    simp
  · show ((Array.replicate (c.n + 1) (#[] : Array Gen))[w]!).toList.Nodup
    rw [e]
    simp

theorem gbwInv_step (c : Cube) (m : Nat) (gens : Array (Array Gen)) (h : GbwInv c m gens) :
    GbwInv c (m + 1) (gbwStep c gens m) := by
  have hp : popcount m c.n < gens.size := by
    have := popcount_le m c.n
    rw [h.size]
    omega
  refine ⟨?_, fun w g => ?_, fun w => ?_⟩
  · unfold gbwStep
    simp [h.size]
  · unfold gbwStep
    rw [getElem!_set! _ _ _ _ hp]
    by_cases hw : popcount m c.n = w
    · rw [if_pos hw, Array.toList_append, List.mem_append, h.mem]
      subst hw
      constructor
      · rintro (⟨h1, h2, h3, h4⟩ | hg)
        · exact ⟨h1, by omega, h3, h4⟩
        · have hs := mem_gensAt_s c m g hg
          rw [hs]
          exact ⟨by have := popcount_le m c.n; omega, by omega, rfl, hg⟩
      · rintro ⟨h1, h2, h3, h4⟩
        by_cases hs : g.s = m
        · right
          rw [← hs]
          exact h4
        · left
          exact ⟨h1, by omega, h3, h4⟩
    · rw [if_neg hw, h.mem]
      constructor
      · rintro ⟨h1, h2, h3, h4⟩
        exact ⟨h1, by omega, h3, h4⟩
      · rintro ⟨h1, h2, h3, h4⟩
        have hs : g.s ≠ m := by
          intro hs
          rw [hs] at h3
          exact hw h3
        exact ⟨h1, by omega, h3, h4⟩
  · unfold gbwStep
    rw [getElem!_set! _ _ _ _ hp]
    by_cases hw : popcount m c.n = w
    · rw [if_pos hw, Array.toList_append, List.nodup_append]
      refine ⟨h.nodup _, gensAt_nodup c m, ?_⟩
      intro a ha b hb hab
      have h1 := ((h.mem _ _).1 ha).2.1
      have h2 := mem_gensAt_s c m b hb
      rw [hab] at h1
      omega
    · rw [if_neg hw]
      exact h.nodup w

theorem gbwInv (c : Cube) (m : Nat) : GbwInv c m (gbwPre c m) := by
  induction m with
  | zero => exact gbwInv_zero c
  | succ m ih =>
    rw [gbwPre_succ]
    exact gbwInv_step c m _ ih

theorem gensByWeight_size (c : Cube) : (gensByWeight c).size = c.n + 1 := by
  rw [gensByWeight_eq]
  exact (gbwInv c _).size

theorem mem_gensByWeight (c : Cube) (w : Nat) (g : Gen) :
    g ∈ ((gensByWeight c)[w]!).toList ↔
      w ≤ c.n ∧ g.s < 2 ^ c.n ∧ popcount g.s c.n = w ∧ g ∈ (c.gensAt g.s).toList := by
  rw [gensByWeight_eq]
  exact (gbwInv c _).mem w g

theorem gensByWeight_nodup (c : Cube) (w : Nat) : ((gensByWeight c)[w]!).toList.Nodup := by
  rw [gensByWeight_eq]
  exact (gbwInv c _).nodup w

theorem inGens_iff (c : Cube) (g : Gen) :
    inGens (gensByWeight c) g = true ↔ g.s < 2 ^ c.n ∧ g ∈ (c.gensAt g.s).toList := by
  unfold inGens
  rw [Array.any_eq_true]
  constructor
  · rintro ⟨i, hi, hc⟩
    rw [Array.contains_iff_mem, ← Array.mem_toList_iff, ← getElem!_pos (gensByWeight c) i hi, mem_gensByWeight] at hc
    exact ⟨hc.2.1, hc.2.2.2⟩
  · rintro ⟨h1, h2⟩
    have hw : popcount g.s c.n < (gensByWeight c).size := by
      have := popcount_le g.s c.n
      rw [gensByWeight_size]
      omega
    refine ⟨popcount g.s c.n, hw, ?_⟩
    rw [Array.contains_iff_mem, ← Array.mem_toList_iff, ← getElem!_pos (gensByWeight c) _ hw, mem_gensByWeight]
    exact ⟨popcount_le _ _, h1, rfl, h2⟩

/-! ### the targets of `Cube.d` -/

/-- flipping a clear bit raises the weight by one -/
theorem popcount_or_bit (s k n : Nat) (hk : k < n) (hb : s.testBit k = false) :
    popcount (s ||| 1 <<< k) n = popcount s n + 1 :=
  popcount_or_gt s k n hb hk

/-- the targets of `Cube.d` on an unreduced cube all of whose edges are merges/splits: one more crossing resolved, a
labelling of the circles of the new state -/
theorem d_targets (c : Cube) (p : Params) (hb : c.base = none) (hok : C02Mirror.cubeOK c)
    (hP : ∀ s s', s < 2 ^ c.n → s' < 2 ^ c.n → C02Mirror.Pair c.circ[s]! c.circ[s']!)
    (g : Gen) (hs : g.s < 2 ^ c.n) (ts : Array Term) (hd : c.d p g = some ts) :
    ∀ t ∈ ts.toList, ∃ k, k < c.n ∧ g.s.testBit k = false ∧ t.1.s = g.s ||| 1 <<< k ∧
      t.1.s < 2 ^ c.n ∧ t.1.mask < 2 ^ (c.circ[t.1.s]!).size := by
  intro t ht
  obtain ⟨ts', hd', hl⟩ := C01Sq.d_toList c p hb hok g hs
  rw [hd] at hd'
  cases hd'
  rw [hl] at ht
  obtain ⟨k, hk, hmk⟩ := List.mem_flatMap.1 ht
  have h1 : k < c.n := by
    simp only [List.mem_range'] at hk
    omega
  have hts : t.1.s = g.s ||| 1 <<< k := C01Sq.mem_edgeList_s c p g k t hmk
  have hs1 : g.s ||| 1 <<< k < 2 ^ c.n := C02Mirror.or_bit_lt _ _ _ hs h1
  unfold C01Sq.edgeList at hmk
  by_cases hbit : g.s.testBit k = false
  · rw [if_pos hbit] at hmk
    refine ⟨k, h1, hbit, hts, by rw [hts]; exact hs1, ?_⟩
    cases he : C02Mirror.edgeTerms p.h p.t c.circ[g.s]! c.circ[g.s ||| 1 <<< k]! g.mask with
    | none =>
      rw [he] at hmk
      simp at hmk
    | some tl =>
      rw [he] at hmk
      obtain ⟨mt, hmt, rfl⟩ := List.mem_map.1 hmk
      exact C01Sq.terms_lt (hP _ _ hs hs1) p.h p.t g.mask tl he mt hmt
  · rw [if_neg hbit] at hmk
    cases hmk

/-- hence: the targets of a generator of weight `w` are generators of weight `w + 1` -/
theorem d_targets_mem (c : Cube) (p : Params) (hb : c.base = none) (hok : C02Mirror.cubeOK c)
    (hP : ∀ s s', s < 2 ^ c.n → s' < 2 ^ c.n → C02Mirror.Pair c.circ[s]! c.circ[s']!)
    (w : Nat) (g : Gen) (hg : g ∈ ((gensByWeight c)[w]!).toList) (ts : Array Term) (hd : c.d p g = some ts) :
    ∀ t ∈ ts.toList, t.1 ∈ ((gensByWeight c)[w + 1]!).toList := by
  intro t ht
  obtain ⟨_, hs, hw, _⟩ := (mem_gensByWeight c w g).1 hg
  obtain ⟨k, hk, hbit, hts, hlt, hm⟩ := d_targets c p hb hok hP g hs ts hd t ht
  have hpc : popcount t.1.s c.n = w + 1 := by
    rw [hts, popcount_or_bit g.s k c.n hk hbit, hw]
  rw [mem_gensByWeight]
  refine ⟨?_, hlt, hpc, (mem_gensAt_unreduced c hb t.1.s t.1).2 ⟨rfl, hm⟩⟩
  rw [← hpc]
  exact popcount_le _ _

end Yuiv.KhSpec
