import Yuiv.Props.C07
import Yuiv.Props.C09Full
import Mathlib.LinearAlgebra.Matrix.Rank
/-
C07 end-to-end over ℤ: the code model of `HomologyCalc::calculate` (Model/C07Calc.lean, which takes the SNF routine
as a parameter) with the code model of the library's own SNF (`C09.snfCalc intOps`, Model/C09.lean) plugged in.

* `toC09`, `ofC09`, `ofSt`, `snfC09` — the ADAPTER between the two matrix representations
  (`C07.Mat`: shape + row-major `Array Int`;  `C09.Mat Int m n`: `Vector (Vector Int n) m`) and between C09's
  final state `St` (`t, p, pinv, q, qinv`) and C07's `Snf` record (`SnfResult`; the flags select which of the four
  transformation matrices are handed out).  `snfC09 fuel : SnfFn` is a literal composition of executable functions.
* `snfC09_spec` — `C09.snf_total_correct` transferred through the adapter, in the vocabulary of C07.
* rank lemmas (`rank_of_snf`, `rank_d2'`): the number of non-zero diagonal entries of ANY diagonalisation
  `P·A·Q` (P, Q invertible over ℤ) is the rank of `A` over ℚ.
-/
set_option linter.unusedVariables false
set_option linter.unusedSimpArgs false

namespace Yuiv.C07
open Matrix Yuiv

/-! ### the adapter -/

/-- a C07 matrix as a C09 matrix of the same shape -/
def toC09 (A : Mat) : C09.Mat Int A.r A.c := C09.Mat.ofFn fun i j => A.get i.val j.val

/-- a C09 matrix as a C07 matrix -/
def ofC09 {m n : Nat} (B : C09.Mat Int m n) : Mat :=
  Mat.ofFn m n fun i j => if h : i < m ∧ j < n then B.get ⟨i, h.1⟩ ⟨j, h.2⟩ else 0

/-- `SnfResult` from the final state of `SnfCalc`: the flags `[p, pinv, q, qinv]` select what is handed out -/
def ofSt {m n : Nat} (s : C09.St Int m n) (fl : SnfFlags) : Snf :=
  ⟨ofC09 s.t,
   if fl.1 then some (ofC09 s.p) else none,
   if fl.2.1 then some (ofC09 s.pinv) else none,
   if fl.2.2.1 then some (ofC09 s.q) else none,
   if fl.2.2.2 then some (ofC09 s.qinv) else none⟩

/-- the library's SNF over ℤ (code model of C09: debug build, identity preprocessing) as the SNF routine of C07 -/
def snfC09 (fuel : Nat) : SnfFn := fun A fl =>
  match C09.snfCalc C09.intOps true (fun s => .ok s) fuel (toC09 A) with
  | .ok s => .ok (ofSt s fl)
  | .panic => .panic
  | .err => .err

@[simp] theorem ofC09_r {m n : Nat} (B : C09.Mat Int m n) : (ofC09 B).r = m := rfl
@[simp] theorem ofC09_c {m n : Nat} (B : C09.Mat Int m n) : (ofC09 B).c = n := rfl

theorem ofC09_get {m n : Nat} (B : C09.Mat Int m n) (i j : Nat) :
    (ofC09 B).get i j = if h : i < m ∧ j < n then B.get ⟨i, h.1⟩ ⟨j, h.2⟩ else 0 := by
  unfold ofC09
  rw [Mat.get_ofFn]
  by_cases h : i < m ∧ j < n
  · simp [h]
  · simp [h]

theorem ofC09_toM {m n : Nat} (B : C09.Mat Int m n) : (ofC09 B).toM m n = C09.toM id B := by
  ext i j
  simp only [Mat.toM, ofC09_get, C09.toM_apply, id]
  rw [dif_pos ⟨i.isLt, j.isLt⟩]

theorem toC09_toM (A : Mat) : C09.toM id (toC09 A) = A.toM A.r A.c := by
  ext i j
  simp [toC09, Mat.toM]

theorem ofC09_diag {m n : Nat} (B : C09.Mat Int m n) (k : Nat) : (ofC09 B).get k k = C09.dgz B k := by
  rw [ofC09_get]
  unfold C09.dgz C09.dg
  rfl

/-! ### the SNF specification in the vocabulary of C07 -/

/-- what C07 needs from an SNF `(S, P, P⁻¹, Q, Q⁻¹)` of an `r × c` matrix `A`; `r1` = number of non-zero diagonal
entries (the rank), `S = diag(S₀₀, …, S_{r1-1,r1-1}, 0, …)`, positive entries, each dividing the next -/
structure SnfData (A S P Pi Q Qi : Mat) (r c r1 : Nat) : Prop where
  shS : S.r = r ∧ S.c = c
  shP : P.r = r ∧ P.c = r
  shPi : Pi.r = r ∧ Pi.c = r
  shQ : Q.r = c ∧ Q.c = c
  shQi : Qi.r = c ∧ Qi.c = c
  eqS : S.toM r c = P.toM r r * A.toM r c * Q.toM c c
  pp : P.toM r r * Pi.toM r r = 1
  qq : Q.toM c c * Qi.toM c c = 1
  r1r : r1 ≤ r
  r1c : r1 ≤ c
  diag : ∀ i j, S.get i j = if i = j ∧ i < r1 then S.get i i else 0
  pos : ∀ i, i < r1 → 0 < S.get i i
  chain : ∀ i, i + 1 < r1 → S.get i i ∣ S.get (i + 1) (i + 1)

/-- `C09.snf_total_correct` through the adapter: for every matrix there are a fuel bound `N` and a final state `st`
of the C09 model such that for all `fuel ≥ N` and all flags `snfC09 fuel A flags` returns `ofSt st flags`, and the
five matrices satisfy the SNF specification -/
theorem snfC09_spec (A : Mat) :
    ∃ (N : Nat) (st : C09.St Int A.r A.c) (r1 : Nat),
      (∀ fuel, N ≤ fuel → C09.snfCalc C09.intOps true (fun s => .ok s) fuel (toC09 A) = .ok st) ∧
      (∀ fuel, N ≤ fuel → ∀ fl, snfC09 fuel A fl = .ok (ofSt st fl)) ∧
      SnfData A (ofC09 st.t) (ofC09 st.p) (ofC09 st.pinv) (ofC09 st.q) (ofC09 st.qinv) A.r A.c r1 ∧
      (∀ k, k < r1 → (C09.diagL st.t)[k]? = some ((ofC09 st.t).get k k)) ∧
      (C09.diagL st.t).length = min A.r A.c ∧
      (∀ k, r1 ≤ k → k < min A.r A.c → (C09.diagL st.t)[k]? = some 0) := by
  obtain ⟨N, st, hN, ⟨hT, hP, hQ⟩, hD, r1, hr1, hnz, hz, hch⟩ := C09.snf_total_correct (toC09 A)
  have hlen : (C09.diagL st.t).length = min A.r A.c := by simp [C09.diagL]
  have hget : ∀ k (h : k < (C09.diagL st.t).length), (C09.diagL st.t)[k] = (ofC09 st.t).get k k := by
    intro k h; rw [C09.diagL_getElem _ _ h, ofC09_diag]
  refine ⟨N, st, r1, hN, ?_, ?_, ?_, hlen, ?_⟩
  · intro fuel hf fl
    unfold snfC09
    rw [hN fuel hf]
  · refine ⟨⟨rfl, rfl⟩, ⟨rfl, rfl⟩, ⟨rfl, rfl⟩, ⟨rfl, rfl⟩, ⟨rfl, rfl⟩, ?_, ?_, ?_, ?_, ?_, ?_, ?_, ?_⟩
    · rw [ofC09_toM, ofC09_toM, ofC09_toM, ← toC09_toM, hT]
    · rw [ofC09_toM, ofC09_toM, hP]
    · rw [ofC09_toM, ofC09_toM, hQ]
    · omega
    · omega
    · intro i j
      by_cases hij : i = j
      · subst hij
        by_cases hi : i < r1
        · simp [hi]
        · simp only [hi, and_false, if_false]
          by_cases hlt : i < (C09.diagL st.t).length
          · rw [← hget i hlt]; exact hz i hlt (by omega)
          · rw [ofC09_get, dif_neg (by omega)]
      · simp only [hij, false_and, if_false]
        rw [ofC09_get]
        split
        · rename_i h; exact hD ⟨i, h.1⟩ ⟨j, h.2⟩ hij
        · rfl
    · intro i hi
      have hlt : i < (C09.diagL st.t).length := by omega
      have := hnz i hlt hi
      rw [hget i hlt] at this
      omega
    · intro i hi
      have hlt : i + 1 < (C09.diagL st.t).length := by omega
      have := hch i hlt hi
      rwa [hget (i + 1) hlt, hget i (by omega)] at this
  · intro k hk
    have hlt : k < (C09.diagL st.t).length := by omega
    rw [List.getElem?_eq_getElem hlt, hget k hlt]
  · intro k hk hk2
    have hlt : k < (C09.diagL st.t).length := by omega
    rw [List.getElem?_eq_getElem hlt, hz k hlt hk]

/-! ### `SnfResult::rank`, `SnfResult::factors` and the torsion block for a matrix of Smith shape -/

theorem snf_rank_of_diag (s : Snf) (r c r1 : Nat) (shS : s.result.r = r ∧ s.result.c = c) (r1r : r1 ≤ r)
    (r1c : r1 ≤ c) (diag : ∀ i j, s.result.get i j = if i = j ∧ i < r1 then s.result.get i i else 0)
    (pos : ∀ i, i < r1 → 0 < s.result.get i i) : s.rank = r1 := by
  unfold Snf.rank
  rw [shS.1, shS.2]
  simp only
  by_cases h : r1 < min r c
  · have : (List.range (min r c)).find? (fun i => s.result.get i i == 0) = some r1 := by
      rw [List.find?_range_eq_some]
      refine ⟨?_, List.mem_range.2 h, ?_⟩
      · have := diag r1 r1
        simp only [Nat.lt_irrefl, and_false, if_false] at this
        simp [this]
      · intro j hj
        have := pos j hj
        simp only [Bool.not_eq_eq_eq_not, Bool.not_true, beq_eq_false_iff_ne, ne_eq]
        omega
    rw [this]; rfl
  · have : (List.range (min r c)).find? (fun i => s.result.get i i == 0) = none := by
      rw [List.find?_range_eq_none]
      intro i hi
      have := pos i (by omega)
      simp only [Bool.not_eq_eq_eq_not, Bool.not_true, beq_eq_false_iff_ne, ne_eq]
      omega
    rw [this]
    simp only [Option.getD_none]
    omega

theorem filterMap_range_diag (a : Nat → Int) (r1 : Nat) (hnz : ∀ i, i < r1 → a i ≠ 0) (hz : ∀ i, r1 ≤ i → a i = 0) :
    ∀ n, (List.range n).filterMap (fun i => if a i != 0 then some (a i) else none) = (List.range (min n r1)).map a
  | 0 => by simp
  | n + 1 => by
    rw [List.range_succ, List.filterMap_append, filterMap_range_diag a r1 hnz hz n]
    by_cases h : n < r1
    · have h1 : min (n + 1) r1 = min n r1 + 1 := by omega
      have h2 : min n r1 = n := by omega
      rw [h1, List.range_succ, List.map_append, h2]
      simp [hnz n h]
    · have h1 : min (n + 1) r1 = min n r1 := by omega
      rw [h1]
      simp [hz n (by omega)]

theorem snf_factors_of_diag (s : Snf) (r c r1 : Nat) (shS : s.result.r = r ∧ s.result.c = c) (r1r : r1 ≤ r)
    (r1c : r1 ≤ c) (diag : ∀ i j, s.result.get i j = if i = j ∧ i < r1 then s.result.get i i else 0)
    (pos : ∀ i, i < r1 → 0 < s.result.get i i) :
    s.factors = (List.range r1).map fun i => s.result.get i i := by
  unfold Snf.factors
  rw [shS.1, shS.2]
  have := filterMap_range_diag (fun i => s.result.get i i) r1 (fun i hi => by have := pos i hi; omega)
    (fun i hi => by have := diag i i; simpa [show ¬ i < r1 by omega] using this) (min r c)
  rw [show min (min r c) r1 = r1 by omega] at this
  exact this

theorem isUnitZ_of_pos (x : Int) (hx : 0 < x) : isUnitZ x = true ↔ x = 1 := by
  unfold isUnitZ
  rw [beq_iff_eq]
  omega

theorem chain_dvd (a : Nat → Int) (r1 : Nat) (chain : ∀ i, i + 1 < r1 → a i ∣ a (i + 1)) :
    ∀ j i, i ≤ j → j < r1 → a i ∣ a j
  | 0, i, hi, _ => by
    have : i = 0 := by omega
    subst this; exact dvd_refl _
  | j + 1, i, hi, hj => by
    by_cases h : i = j + 1
    · subst h; exact dvd_refl _
    · exact (chain_dvd a r1 chain j i (by omega) (by omega)).trans (chain j hj)

/-- the non-unit entries of a positive divisibility chain `a 0 ∣ a 1 ∣ … ∣ a (r1-1)` are the last `t` ones -/
theorem torsion_block (a : Nat → Int) (r1 : Nat) (pos : ∀ i, i < r1 → 0 < a i)
    (chain : ∀ i, i + 1 < r1 → a i ∣ a (i + 1)) (tors : List Int)
    (htors : tors = ((List.range r1).map a).filter fun x => !isUnitZ x) :
    tors.length ≤ r1 ∧ (∀ u, u < tors.length → tors.getD u 0 = a (r1 - tors.length + u)) ∧
      (∀ i, i < r1 - tors.length → a i = 1) ∧ (∀ i, r1 - tors.length ≤ i → i < r1 → 1 < a i) ∧
      tors.Pairwise (· ∣ ·) := by
  set l := (List.range r1).map a with hl
  have hlen : l.length = r1 := by simp [hl]
  have hget : ∀ i (h : i < l.length), l[i] = a i := by intro i h; simp [hl]
  have hpair : l.Pairwise (· ∣ ·) := by
    rw [List.pairwise_iff_getElem]
    intro i j hi hj hij
    rw [hget i hi, hget j hj]
    exact chain_dvd a r1 chain j i (by omega) (by omega)
  have hpos : ∀ x ∈ l, 0 < x := by
    intro x hx
    obtain ⟨i, hi, rfl⟩ := List.mem_map.1 hx
    exact pos i (List.mem_range.1 hi)
  have hu : ∀ x y : Int, x ∣ y → isUnitZ y = true → isUnitZ x = true := by
    intro x y hxy hy
    unfold isUnitZ at hy ⊢
    rw [beq_iff_eq] at hy ⊢
    have := Int.natAbs_dvd_natAbs.2 hxy
    rw [hy] at this
    exact Nat.dvd_one.1 this
  have hblock := torsion_block_position isUnitZ hu l hpair
  rw [← htors] at hblock
  have htl : tors.length ≤ r1 := by
    rw [htors, ← hlen]; exact List.length_filter_le _ _
  have hdrop : ∀ x ∈ l.drop (l.length - tors.length), (!isUnitZ x) = true := by
    intro x hx
    rw [← hblock, htors] at hx
    exact (List.mem_filter.1 hx).2
  have htake : ∀ x ∈ l.take (l.length - tors.length), isUnitZ x = true := by
    have hsplit : l = l.take (l.length - tors.length) ++ l.drop (l.length - tors.length) :=
      (List.take_append_drop _ _).symm
    have h1 : tors = (l.take (l.length - tors.length)).filter (fun x => !isUnitZ x) ++
        l.drop (l.length - tors.length) := by
      conv_lhs => rw [htors, hsplit, List.filter_append, List.filter_eq_self.2 hdrop]
    have h2 : ((l.take (l.length - tors.length)).filter (fun x => !isUnitZ x)).length = 0 := by
      have := congrArg List.length h1
      rw [List.length_append, List.length_drop] at this
      omega
    have h3 := List.eq_nil_of_length_eq_zero h2
    rw [List.filter_eq_nil_iff] at h3
    intro x hx
    have := h3 x hx
    simpa using this
  refine ⟨htl, ?_, ?_, ?_, by rw [htors]; exact hpair.filter _⟩
  · intro u hu'
    have h1 : tors.getD u 0 = tors[u] := by simp [List.getD_eq_getElem?_getD, hu']
    rw [h1]
    have h2 : u < (l.drop (l.length - tors.length)).length := by rw [List.length_drop]; omega
    have h3 : tors[u] = (l.drop (l.length - tors.length))[u] := by
      congr 1
    rw [h3, List.getElem_drop, hget, hlen]
  · intro i hi
    have hmem : l[i]'(by omega) ∈ l.take (l.length - tors.length) := by
      rw [List.mem_take_iff_getElem]
      exact ⟨i, by rw [hlen]; omega, rfl⟩
    have := htake _ hmem
    rw [hget] at this
    exact (isUnitZ_of_pos _ (pos i (by omega))).1 this
  · intro i hi hi2
    have hmem : l[i]'(by omega) ∈ l.drop (l.length - tors.length) := by
      rw [List.mem_drop_iff_getElem]
      refine ⟨i - (l.length - tors.length), by rw [hlen]; omega, ?_⟩
      congr 1; rw [hlen]; omega
    have := hdrop _ hmem
    rw [hget] at this
    have hp := pos i hi2
    have hne : a i ≠ 1 := by
      intro h1
      have h2 := (isUnitZ_of_pos _ hp).2 h1
      rw [h2] at this
      exact absurd this (by decide)
    omega

/-- the non-zero non-unit entries of the Smith diagonal, read off C09's `diagL`, are the code's torsion list -/
theorem diagL_filter (L : List Int) (a : Nat → Int) (r1 len : Nat) (hlen : L.length = len) (h1 : r1 ≤ len)
    (hk : ∀ k, k < r1 → L[k]? = some (a k)) (hz : ∀ k, r1 ≤ k → k < len → L[k]? = some 0)
    (pos : ∀ k, k < r1 → 0 < a k) :
    L.filter (fun x => x != 0 && x != 1) = ((List.range r1).map a).filter (fun x => !isUnitZ x) := by
  have hL : L = (List.range r1).map a ++ List.replicate (len - r1) 0 := by
    apply List.ext_getElem?
    intro k
    by_cases hk1 : k < r1
    · rw [hk k hk1, List.getElem?_append_left (by simpa using hk1)]
      simp [hk1]
    · by_cases hk2 : k < len
      · rw [hz k (by omega) hk2, List.getElem?_append_right (by simp; omega), List.getElem?_replicate]
        rw [if_pos (by simp; omega)]
      · rw [List.getElem?_eq_none (by omega), List.getElem?_eq_none (by simp; omega)]
  rw [hL, List.filter_append]
  have : (List.replicate (len - r1) (0 : Int)).filter (fun x => x != 0 && x != 1) = [] := by
    rw [List.filter_eq_nil_iff]
    intro x hx
    rw [List.eq_of_mem_replicate hx]
    simp
  rw [this, List.append_nil]
  apply List.filter_congr
  intro x hx
  obtain ⟨i, hi, rfl⟩ := List.mem_map.1 hx
  have hp := pos i (List.mem_range.1 hi)
  by_cases h1 : a i = 1
  · simp [h1, isUnitZ]
  · have : isUnitZ (a i) = false := by
      rw [← Bool.not_eq_true, isUnitZ_of_pos _ hp]; exact h1
    rw [this]
    simp [h1]; omega

/-! ### rank: the number of non-zero diagonal entries of ANY diagonalisation is the rank -/

theorem rank_diag_form {r c r1 : Nat} (S : Matrix (Fin r) (Fin c) ℤ) (a : Nat → ℤ) (h1 : r1 ≤ r) (h2 : r1 ≤ c)
    (hdiag : ∀ i j, S i j = if i.val = j.val ∧ i.val < r1 then a i.val else 0) (ha : ∀ i, i < r1 → a i ≠ 0) :
    S.rank = r1 := by
  apply le_antisymm
  · have hsub : Function.support S.row ⊆ ↑(Finset.univ.filter fun i : Fin r => i.val < r1) := by
      intro i hi
      simp only [Finset.coe_filter, Finset.mem_univ, true_and, Set.mem_ofPred_eq]
      by_contra hlt
      apply hi
      funext j
      simp [Matrix.row, hdiag, hlt]
    refine (rank_le_card_of_support_subset S _ hsub).trans ?_
    calc (Finset.univ.filter fun i : Fin r => i.val < r1).card ≤ (Finset.range r1).card :=
          Finset.card_le_card_of_injOn Fin.val (by intro i hi; simpa using hi) Fin.val_injective.injOn
      _ = r1 := Finset.card_range r1
  · have hsub : S.submatrix (Fin.castLE h1) (Fin.castLE h2) = diagonal (fun i : Fin r1 => a i.val) := by
      ext i j
      simp only [submatrix_apply, hdiag, Fin.val_castLE, diagonal_apply, Fin.ext_iff, i.isLt, and_true]
    have := rank_submatrix_le S (Fin.castLE h1) (Fin.castLE h2)
    rw [hsub, rank_of_det_ne_zero (by
      rw [det_diagonal]; exact Finset.prod_ne_zero_iff.2 (fun i _ => ha i.val i.isLt))] at this
    simpa using this

theorem rank_of_snf {r c : Nat} (A S : Matrix (Fin r) (Fin c) ℤ) (P Pi : Matrix (Fin r) (Fin r) ℤ)
    (Q Qi : Matrix (Fin c) (Fin c) ℤ) (hS : S = P * A * Q) (hP : P * Pi = 1) (hQ : Q * Qi = 1) :
    S.rank = A.rank := by
  rw [hS, rank_mul_eq_left_of_isUnit_det Q _ (Matrix.isUnit_det_of_right_inverse hQ),
    rank_mul_eq_right_of_isUnit_det P _ (Matrix.isUnit_det_of_right_inverse hP)]

/-- `d2' = d2·P1⁻¹[:, r1..n]` has the rank of `d2` when the first `r1` columns of `d2·P1⁻¹` vanish -/
theorem rank_d2' {n k r1 : Nat} (h : r1 ≤ n) (d2 : Matrix (Fin k) (Fin n) ℤ) (P1 P1i : Matrix (Fin n) (Fin n) ℤ)
    (hP : P1 * P1i = 1) (hcol : ∀ i (j : Fin n), j.val < r1 → (d2 * P1i) i j = 0) :
    (d2' d2 P1i (rangeMap r1 (n - r1) n (by omega))).rank = d2.rank := by
  have hX : (d2 * P1i).rank = d2.rank :=
    rank_mul_eq_left_of_isUnit_det P1i d2 (Matrix.isUnit_det_of_left_inverse hP)
  have e1 : d2' d2 P1i (rangeMap r1 (n - r1) n (by omega)) =
      (d2 * P1i).submatrix id (rangeMap r1 (n - r1) n (by omega)) := by
    unfold d2'; ext i j; simp [Matrix.mul_apply]
  apply le_antisymm
  · rw [e1, ← hX]; exact rank_submatrix_le _ _ _
  · rw [← hX, e1]
    generalize d2 * P1i = X at hcol
    have e2 : X = X.submatrix id (rangeMap r1 (n - r1) n (by omega)) *
        (1 : Matrix (Fin n) (Fin n) ℤ).submatrix (rangeMap r1 (n - r1) n (by omega)) id := by
      ext i j
      simp only [Matrix.mul_apply, submatrix_apply, id, Matrix.one_apply]
      by_cases hj : j.val < r1
      · rw [hcol i j hj]
        symm
        apply Finset.sum_eq_zero
        intro b _
        have : rangeMap r1 (n - r1) n (by omega) b ≠ j := by
          intro hb; have := congrArg Fin.val hb; simp [rangeMap] at this; omega
        simp [this]
      · rw [Finset.sum_eq_single (⟨j.val - r1, by omega⟩ : Fin (n - r1))]
        · have : rangeMap r1 (n - r1) n (by omega) ⟨j.val - r1, by omega⟩ = j := by
            apply Fin.ext; simp [rangeMap]; omega
          simp [this]
        · intro b _ hb
          have : rangeMap r1 (n - r1) n (by omega) b ≠ j := by
            intro hb'; apply hb; apply Fin.ext
            have := congrArg Fin.val hb'; simp [rangeMap] at this; simp; omega
          simp [this]
        · intro h'; exact absurd (Finset.mem_univ _) h'
    conv_lhs => rw [e2]
    exact rank_mul_le_left _ _

/-! ### the specification of an answer, and the core of the end-to-end theorem -/

/-- ALL clauses of property C07 for an answer `(rank, tors, P, Q)` to the complex `d1 : n×m`, `d2 : k×n` over ℤ
(`P` = `vectorize` = chain ↦ homology coordinates, `Q` = `gen` = homology coordinates ↦ chain; the first `rank`
coordinates are free, coordinate `rank + u` lives in `ℤ/tors[u]`) — except the values of `rank` and `tors`
themselves, which the theorems state separately -/
structure HomologySpec (d1 d2 : Mat) (n m k : Nat) (rank : Nat) (tors : List Int) (P Q : Mat) : Prop where
  shP : P.r = rank + tors.length ∧ P.c = n
  shQ : Q.r = n ∧ Q.c = rank + tors.length
  /-- torsion orders are non-zero non-units, normalised (positive) -/
  tors_gt : ∀ x ∈ tors, 1 < x
  /-- … in divisibility order -/
  tors_chain : tors.Pairwise (· ∣ ·)
  /-- `P·Q = I` -/
  pq : P.toM (rank + tors.length) n * Q.toM n (rank + tors.length) = 1
  /-- generators are cycles: `d2·Q = 0` -/
  cycles : d2.toM k n * Q.toM n (rank + tors.length) = 0
  /-- every boundary `d1·x` has zero free coordinates and torsion coordinates divisible by the orders -/
  bdry : ∀ (x : Fin m → ℤ) (i : Fin (rank + tors.length)),
      (i.val < rank → (P.toM (rank + tors.length) n *ᵥ (d1.toM n m *ᵥ x)) i = 0) ∧
      (rank ≤ i.val → tors.getD (i.val - rank) 0 ∣ (P.toM (rank + tors.length) n *ᵥ (d1.toM n m *ᵥ x)) i)
  /-- `vectorize(gen i) = e_i` -/
  gens : ∀ i : Fin (rank + tors.length),
      P.toM (rank + tors.length) n *ᵥ (Q.toM n (rank + tors.length) *ᵥ Pi.single i 1) = Pi.single i 1
  /-- completeness: a cycle whose coordinates vanish modulo the orders is a boundary -/
  complete : ∀ z : Fin n → ℤ, d2.toM k n *ᵥ z = 0 →
      (∀ i : Fin (rank + tors.length),
        (i.val < rank → (P.toM (rank + tors.length) n *ᵥ z) i = 0) ∧
        (rank ≤ i.val → tors.getD (i.val - rank) 0 ∣ (P.toM (rank + tors.length) n *ᵥ z) i)) →
      ∃ x : Fin m → ℤ, d1.toM n m *ᵥ x = z

/-- `HomologyCalc::{result, trans}` on two SNF records satisfying the SNF specification (for `d1`, resp. for a matrix
`D2` denoting `d2·P1⁻¹[:, r1..n]`): no panic, and every clause of the property holds -/
theorem calc_core (d1 d2 D2 S1 P1 P1i Q1 Q1i S2 P2 P2i Q2 Q2i : Mat) (n m k r1 r2 : Nat)
    (hdd : d2.toM k n * d1.toM n m = 0)
    (h1 : SnfData d1 S1 P1 P1i Q1 Q1i n m r1) (hr1n : r1 ≤ n)
    (hD2 : D2.toM k (n - r1) = d2' (d2.toM k n) (P1i.toM n n) (rangeMap r1 (n - r1) n (by omega)))
    (h2 : SnfData D2 S2 P2 P2i Q2 Q2i k (n - r1) r2) :
    ∃ P Q : Mat,
      calcResult ⟨S1, some P1, some P1i, none, none⟩ ⟨S2, none, none, some Q2, some Q2i⟩ =
        .ok (n - r1 - r2, ((List.range r1).map fun i => S1.get i i).filter fun x => !isUnitZ x) ∧
      calcTrans ⟨S1, some P1, some P1i, none, none⟩ ⟨S2, none, none, some Q2, some Q2i⟩ =
        .ok ⟨n, n - r1 - r2 + (((List.range r1).map fun i => S1.get i i).filter fun x => !isUnitZ x).length,
          [P], [Q]⟩ ∧
      HomologySpec d1 d2 n m k (n - r1 - r2)
        (((List.range r1).map fun i => S1.get i i).filter fun x => !isUnitZ x) P Q := by
  generalize hs1 : (⟨S1, some P1, some P1i, none, none⟩ : Snf) = s1
  generalize hs2 : (⟨S2, none, none, some Q2, some Q2i⟩ : Snf) = s2
  generalize htors : (((List.range r1).map fun i => S1.get i i).filter fun x => !isUnitZ x) = tors
  have hres1 : s1.result = S1 := by rw [← hs1]
  have hres2 : s2.result = S2 := by rw [← hs2]
  have hr1 : s1.rank = r1 :=
    snf_rank_of_diag s1 n m r1 (hres1 ▸ h1.shS) h1.r1r h1.r1c (hres1 ▸ h1.diag) (hres1 ▸ h1.pos)
  have hr2 : s2.rank = r2 :=
    snf_rank_of_diag s2 k (n - r1) r2 (hres2 ▸ h2.shS) h2.r1r h2.r1c (hres2 ▸ h2.diag) (hres2 ▸ h2.pos)
  have hfac : s1.factors = (List.range r1).map fun i => S1.get i i := by
    have := snf_factors_of_diag s1 n m r1 (hres1 ▸ h1.shS) h1.r1r h1.r1c (hres1 ▸ h1.diag) (hres1 ▸ h1.pos)
    rw [this, hres1]
  have hfil : s1.factors.filter (fun a => !isUnitZ a) = tors := by rw [hfac, htors]
  obtain ⟨htl, htget, hones, hbig, hchain⟩ := torsion_block (fun i => S1.get i i) r1 h1.pos h1.chain tors htors.symm
  have h12 : r1 + r2 ≤ n := by have := h2.r1c; omega
  have hn : s1.result.r = n := by rw [hres1]; exact h1.shS.1
  refine ⟨pModel P1 Q2i n r1 r2 tors.length, qModel P1i Q2 n r1 r2 tors.length, ?_, ?_, ?_⟩
  · unfold calcResult
    simp [hn, hr1, hr2, hfil, Res.assert, h12]
  · exact calcTrans_eq s1 s2 P1 P1i Q2 Q2i n r1 r2 tors.length (by rw [← hs1]) (by rw [← hs1]) (by rw [← hs2])
      (by rw [← hs2]) hn hr1 hr2 (by rw [hfil]) h12 htl h1.shP h1.shPi h2.shQ h2.shQi
  · have hP1' : P1i.toM n n * P1.toM n n = 1 := mul_eq_one_comm.mp h1.pp
    have hQ2' : Q2i.toM (n - r1) (n - r1) * Q2.toM (n - r1) (n - r1) = 1 := mul_eq_one_comm.mp h2.qq
    have hP2' : P2i.toM k k * P2.toM k k = 1 := mul_eq_one_comm.mp h2.pp
    have hS2 : S2.toM k (n - r1) = P2.toM k k *
        d2' (d2.toM k n) (P1i.toM n n) (rangeMap r1 (n - r1) n (by omega)) * Q2.toM (n - r1) (n - r1) := by
      rw [← hD2]; exact h2.eqS
    have hcol2 : ∀ i (j : Fin (n - r1)), r2 ≤ j.val → S2.toM k (n - r1) i j = 0 := by
      intro i j hj
      show S2.get i.val j.val = 0
      rw [h2.diag]
      have : ¬ (i.val = j.val ∧ i.val < r2) := by omega
      simp [this]
    have hne : ∀ i, i < r1 → S1.get i i ≠ 0 := fun i hi => by have := h1.pos i hi; omega
    obtain ⟨e1, e2, e3⟩ := homcalc_fin n m k r1 r2 tors.length htl hr1n h1.r1c h2.r1c
      (d1.toM n m) (d2.toM k n) (P1.toM n n) (P1i.toM n n) (Q1.toM m m) (Q1i.toM m m) (S1.toM n m)
      (P2.toM k k) (P2i.toM k k) (Q2.toM (n - r1) (n - r1)) (Q2i.toM (n - r1) (n - r1)) (S2.toM k (n - r1))
      (fun i => S1.get i i) hdd h1.pp hP1' h1.qq hP2' hQ2' h1.eqS (fun i j => h1.diag i.val j.val) hne hS2 hcol2
    have hp := pModel_toM P1 Q2i n r1 r2 tors.length h12 htl h1.shP h2.shQi
    have hq := qModel_toM P1i Q2 n r1 r2 tors.length h12 htl h1.shPi h2.shQ
    have hpq : (pModel P1 Q2i n r1 r2 tors.length).toM (n - r1 - r2 + tors.length) n *
        (qModel P1i Q2 n r1 r2 tors.length).toM n (n - r1 - r2 + tors.length) = 1 := by
      rw [hp, hq, sub_rows_mul_sub_cols', e1, Matrix.submatrix_one_equiv]
    -- coordinates through the re-indexing `Fin (r + t) ≃ Fin r ⊕ Fin t`
    have hpv : ∀ (v : Fin n → ℤ) (s : Fin (n - r1 - r2) ⊕ Fin tors.length),
        ((pModel P1 Q2i n r1 r2 tors.length).toM (n - r1 - r2 + tors.length) n *ᵥ v) (finSumFinEquiv s) =
        (pMat (P1.toM n n) (Q2i.toM (n - r1) (n - r1)) (rangeMap r1 (n - r1) n (by omega))
          (rangeMap (r1 - tors.length) tors.length n (by omega))
          (rangeMap r2 (n - r1 - r2) (n - r1) (by omega)) *ᵥ v) s := by
      intro v s
      rw [hp]
      simp [Matrix.mulVec, dotProduct]
    refine ⟨?_, ?_, ?_, hchain, hpq, ?_, ?_, ?_, ?_⟩
    · constructor
      · simp only [pModel, Mat.stack_r, Mat.mul_r, Mat.rows_r]; omega
      · simp only [pModel, Mat.stack_c, Mat.mul_c, Mat.rows_c]; exact h1.shP.2
    · constructor
      · simp only [qModel, Mat.concat_r, Mat.mul_r, Mat.cols_r]; exact h1.shPi.1
      · simp only [qModel, Mat.concat_c, Mat.mul_c, Mat.cols_c]; omega
    · intro x hx
      rw [← htors] at hx
      obtain ⟨hx1, hx2⟩ := List.mem_filter.1 hx
      obtain ⟨i, hi, rfl⟩ := List.mem_map.1 hx1
      have hp' := h1.pos i (List.mem_range.1 hi)
      have : S1.get i i ≠ 1 := by
        intro h; rw [(isUnitZ_of_pos _ hp').2 h] at hx2; exact absurd hx2 (by decide)
      omega
    · rw [hq]
      have : d2.toM k n * (qMat (P1i.toM n n) (Q2.toM (n - r1) (n - r1)) (rangeMap r1 (n - r1) n (by omega))
          (rangeMap (r1 - tors.length) tors.length n (by omega))
          (rangeMap r2 (n - r1 - r2) (n - r1) (by omega))).submatrix id finSumFinEquiv.symm
          = (d2.toM k n * qMat (P1i.toM n n) (Q2.toM (n - r1) (n - r1)) (rangeMap r1 (n - r1) n (by omega))
          (rangeMap (r1 - tors.length) tors.length n (by omega))
          (rangeMap r2 (n - r1 - r2) (n - r1) (by omega))).submatrix id finSumFinEquiv.symm := by
        ext i j; simp [Matrix.mul_apply]
      rw [this, e2]; rfl
    · intro x i
      obtain ⟨s, rfl⟩ := finSumFinEquiv.surjective i
      rw [hpv, Matrix.mulVec_mulVec, e3]
      cases s with
      | inl f =>
        refine ⟨fun _ => ?_, fun h => ?_⟩
        · simp [Matrix.mulVec, dotProduct]
        · have := f.isLt; simp at h; omega
      | inr u =>
        refine ⟨fun h => ?_, fun _ => ?_⟩
        · simp at h
        · have hv : (finSumFinEquiv (Sum.inr u : Fin (n - r1 - r2) ⊕ Fin tors.length)).val - (n - r1 - r2) = u.val := by
            simp
          rw [hv, htget u.val u.isLt]
          refine ⟨∑ j, (Q1i.toM m m) ⟨r1 - tors.length + u.val, by have := u.isLt; have := h1.r1c; omega⟩ j * x j, ?_⟩
          simp [Matrix.mulVec, dotProduct, Finset.mul_sum, mul_assoc]
    · intro i
      rw [Matrix.mulVec_mulVec, hpq, Matrix.one_mulVec]
    · intro z hz hc
      have hr2k : r2 ≤ k := h2.r1r
      let eN : Fin r1 ⊕ Fin (n - r1) ≃ Fin n := finSumFinEquiv.trans (finCongr (by omega))
      let eB : Fin r2 ⊕ Fin (n - r1 - r2) ≃ Fin (n - r1) := finSumFinEquiv.trans (finCongr (by omega))
      let jT : Fin tors.length → Fin r1 := rangeMap (r1 - tors.length) tors.length r1 (by omega)
      have hiB : (fun b => eN (Sum.inr b)) = rangeMap r1 (n - r1) n (by omega) := by
        funext b; apply Fin.ext; simp [eN, rangeMap]
      have hiT : (fun u => eN (Sum.inl (jT u))) = rangeMap (r1 - tors.length) tors.length n (by omega) := by
        funext u; apply Fin.ext; simp [eN, jT, rangeMap]
      have hiF : (fun f => eB (Sum.inr f)) = rangeMap r2 (n - r1 - r2) (n - r1) (by omega) := by
        funext f; apply Fin.ext; simp [eB, rangeMap]
      have hvA : ∀ a : Fin r1, (eN (Sum.inl a)).val = a.val := by intro a; simp [eN]
      have hvB : ∀ b : Fin (n - r1), (eN (Sum.inr b)).val = r1 + b.val := by intro b; simp [eN]
      have hvB2 : ∀ b : Fin r2, (eB (Sum.inl b)).val = b.val := by intro b; simp [eB]
      refine homcalc_complete (d1.toM n m) (d2.toM k n) (P1.toM n n) (P1i.toM n n) (Q1.toM m m) (S1.toM n m)
        (P2.toM k k) (Q2.toM (n - r1) (n - r1)) (Q2i.toM (n - r1) (n - r1)) (S2.toM k (n - r1)) eN eB jT
        (Fin.castLE h1.r1c) (Fin.castLE hr2k) (fun a => S1.get a.val a.val) (fun b => S2.get b.val b.val)
        hdd h1.eqS hP1' ?_ ?_ ?_ ?_ ?_ ?_ h2.qq ?_ ?_ z hz ?_ ?_
      · intro a j
        show S1.get (eN (Sum.inl a)).val j.val = _
        rw [hvA, h1.diag]
        by_cases hj : j = Fin.castLE h1.r1c a
        · subst hj; simp [a.isLt]
        · have : ¬ (a.val = j.val ∧ a.val < r1) := by
            rintro ⟨h, _⟩; exact hj (Fin.ext (by simp [h]))
          rw [if_neg this, if_neg hj]
      · intro a i
        show S1.get i.val (Fin.castLE h1.r1c a).val = _
        rw [h1.diag]
        by_cases hi : i = eN (Sum.inl a)
        · subst hi; simp [hvA, a.isLt]
        · have : ¬ (i.val = (Fin.castLE h1.r1c a).val ∧ i.val < r1) := by
            rintro ⟨h, _⟩; exact hi (Fin.ext (by rw [hvA]; simpa using h))
          rw [if_neg this, if_neg hi]
      · intro b j
        show S1.get (eN (Sum.inr b)).val j.val = 0
        rw [hvB, h1.diag]
        have : ¬ (r1 + b.val = j.val ∧ r1 + b.val < r1) := by omega
        simp [this]
      · intro a; exact hne a.val a.isLt
      · intro a
        by_cases h : a.val < r1 - tors.length
        · right; show IsUnit (S1.get a.val a.val); rw [hones a.val h]; exact isUnit_one
        · left
          refine ⟨⟨a.val - (r1 - tors.length), by have := a.isLt; omega⟩, Fin.ext ?_⟩
          simp [jT, rangeMap]; omega
      · rw [hiB]; exact hS2
      · intro b j
        show S2.get (Fin.castLE hr2k b).val j.val = _
        rw [h2.diag]
        by_cases hj : j = eB (Sum.inl b)
        · subst hj; simp [hvB2, b.isLt]
        · have : ¬ ((Fin.castLE hr2k b).val = j.val ∧ (Fin.castLE hr2k b).val < r2) := by
            rintro ⟨h, _⟩; exact hj (Fin.ext (by rw [hvB2]; simpa using h.symm))
          rw [if_neg this, if_neg hj]
      · intro b; have := h2.pos b.val b.isLt; show S2.get b.val b.val ≠ 0; omega
      · intro f
        rw [hiB, hiT, hiF, ← hpv]
        exact (hc _).1 (by simp)
      · intro u
        rw [hiB, hiT, hiF, ← hpv]
        have := (hc (finSumFinEquiv (Sum.inr u))).2 (by simp)
        have hv : (finSumFinEquiv (Sum.inr u : Fin (n - r1 - r2) ⊕ Fin tors.length)).val - (n - r1 - r2) = u.val := by
          simp
        rw [hv, htget u.val u.isLt] at this
        show S1.get (jT u).val (jT u).val ∣ _
        simpa [jT, rangeMap] using this

/-! ### plugging the pieces into `calculate` -/

/-- `SnfResult` with the transformation matrices selected by the flags -/
def mkSnf (S P Pi Q Qi : Mat) (fl : SnfFlags) : Snf :=
  ⟨S, if fl.1 then some P else none, if fl.2.1 then some Pi else none,
    if fl.2.2.1 then some Q else none, if fl.2.2.2 then some Qi else none⟩

theorem ofSt_eq_mkSnf {m n : Nat} (s : C09.St Int m n) (fl : SnfFlags) :
    ofSt s fl = mkSnf (ofC09 s.t) (ofC09 s.p) (ofC09 s.pinv) (ofC09 s.q) (ofC09 s.qinv) fl := rfl

/-- `snfC09_spec` for a matrix whose shape is known only propositionally (no dependent types in the statement) -/
theorem snfC09_spec' (A : Mat) (r c : Nat) (hr : A.r = r) (hc : A.c = c) :
    ∃ (N : Nat) (S P Pi Q Qi : Mat) (r1 : Nat),
      (∀ fuel, N ≤ fuel → ∀ fl, snfC09 fuel A fl = .ok (mkSnf S P Pi Q Qi fl)) ∧
      SnfData A S P Pi Q Qi r c r1 := by
  subst hr hc
  obtain ⟨N, st, r1, _, h2, h3, _⟩ := snfC09_spec A
  exact ⟨N, _, _, _, _, _, r1, fun fuel hf fl => by rw [h2 fuel hf fl, ofSt_eq_mkSnf], h3⟩

/-- number of non-zero entries on the diagonal of the final target of the C09 model -/
def nzCount {m n : Nat} (st : C09.St Int m n) : Nat := ((C09.diagL st.t).filter (fun a => a != 0)).length

/-- the non-zero non-unit (`≠ 1`; they are `≥ 0`) entries on that diagonal, in order -/
def nonUnitFactors {m n : Nat} (st : C09.St Int m n) : List Int :=
  (C09.diagL st.t).filter (fun a => a != 0 && a != 1)

theorem diagL_nz (L : List Int) (a : Nat → Int) (r1 len : Nat) (hlen : L.length = len) (h1 : r1 ≤ len)
    (hk : ∀ k, k < r1 → L[k]? = some (a k)) (hz : ∀ k, r1 ≤ k → k < len → L[k]? = some 0)
    (pos : ∀ k, k < r1 → 0 < a k) : (L.filter (fun x => x != 0)).length = r1 := by
  have hL : L = (List.range r1).map a ++ List.replicate (len - r1) 0 := by
    apply List.ext_getElem?
    intro k
    by_cases hk1 : k < r1
    · rw [hk k hk1, List.getElem?_append_left (by simpa using hk1)]
      simp [hk1]
    · by_cases hk2 : k < len
      · rw [hz k (by omega) hk2, List.getElem?_append_right (by simp; omega), List.getElem?_replicate]
        rw [if_pos (by simp; omega)]
      · rw [List.getElem?_eq_none (by omega), List.getElem?_eq_none (by simp; omega)]
  rw [hL, List.filter_append]
  have h0 : (List.replicate (len - r1) (0 : Int)).filter (fun x => x != 0) = [] := by
    rw [List.filter_eq_nil_iff]
    intro x hx
    rw [List.eq_of_mem_replicate hx]
    simp
  have h1' : ((List.range r1).map a).filter (fun x => x != 0) = (List.range r1).map a := by
    rw [List.filter_eq_self]
    intro x hx
    obtain ⟨i, hi, rfl⟩ := List.mem_map.1 hx
    have := pos i (List.mem_range.1 hi)
    simp; omega
  rw [h0, h1', List.append_nil]; simp

/-- the rank of `A` (over ℤ: the rank of the free abelian group `im A`) is the `r1` of its `SnfData` -/
theorem SnfData.rank_eq {A S P Pi Q Qi : Mat} {r c r1 : Nat} (h : SnfData A S P Pi Q Qi r c r1) :
    (A.toM r c).rank = r1 := by
  rw [← rank_of_snf (A.toM r c) (S.toM r c) (P.toM r r) (Pi.toM r r) (Q.toM c c) (Qi.toM c c) h.eqS h.pp h.qq]
  exact rank_diag_form (S.toM r c) (fun i => S.get i i) h.r1r h.r1c (fun i j => h.diag i.val j.val)
    (fun i hi => by have := h.pos i hi; omega)

/-- the first `r1` columns of `d2·P1⁻¹` vanish when `d2·d1 = 0` -/
theorem SnfData.d2P1i_cols {d1 d2 S1 P1 P1i Q1 Q1i : Mat} {n m k r1 : Nat} (h : SnfData d1 S1 P1 P1i Q1 Q1i n m r1)
    (hdd : d2.toM k n * d1.toM n m = 0) (i : Fin k) (j : Fin n) (hj : j.val < r1) :
    (d2.toM k n * P1i.toM n n) i j = 0 := by
  have := d2P1i_col_zero (d1.toM n m) (d2.toM k n) (P1.toM n n) (P1i.toM n n) (Q1.toM m m) (S1.toM n m)
    (Fin.castLE h.r1r) (Fin.castLE h.r1c) (fun a : Fin r1 => S1.get a.val a.val) hdd h.eqS
    (mul_eq_one_comm.mp h.pp) ?_ (fun a => by have := h.pos a.val a.isLt; omega) i ⟨j.val, hj⟩
  · exact this
  · intro a i'
    show S1.get i'.val (Fin.castLE h.r1c a).val = _
    rw [h.diag]
    by_cases hi : i' = Fin.castLE h.r1r a
    · subst hi; simp [a.isLt]
    · have : ¬ (i'.val = (Fin.castLE h.r1c a).val ∧ i'.val < r1) := by
        rintro ⟨h', _⟩; exact hi (Fin.ext (by simpa using h'))
      rw [if_neg this, if_neg hi]

theorem isZero_get (A : Mat) (h : A.isZero = true) (i j : Nat) : A.get i j = 0 := by
  unfold Mat.isZero at h
  rw [Array.all_eq_true] at h
  unfold Mat.get
  split
  · by_cases hlt : i * A.c + j < A.e.size
    · have := h _ hlt
      rw [Array.getD_eq_getD_getElem?, Array.getElem?_eq_getElem hlt]
      simpa using this
    · rw [Array.getD_eq_getD_getElem?, Array.getElem?_eq_none (by omega)]; rfl
  · rfl

theorem id_toM (n : Nat) : (Mat.id n).toM n n = 1 := by
  ext i j
  simp only [Mat.toM, Mat.id, Mat.get_ofFn, i.isLt, j.isLt, and_self, if_true, Matrix.one_apply, Fin.ext_iff]

/-- the matrix handed to the second SNF: `d2·P1⁻¹[:, r1..n]`, or `d2` itself when `r1 = 0` (then `P1⁻¹ = I`) -/
theorem D2_toM (d2 P1i : Mat) (n k r1 : Nat) (hr1 : r1 ≤ n) (hd2 : d2.r = k ∧ d2.c = n)
    (hP1i : P1i.r = n ∧ P1i.c = n) (h0 : r1 = 0 → P1i.toM n n = 1) :
    (if 0 < r1 then d2.mul (P1i.cols r1 n) else d2).r = k ∧
    (if 0 < r1 then d2.mul (P1i.cols r1 n) else d2).c = n - r1 ∧
    (if 0 < r1 then d2.mul (P1i.cols r1 n) else d2).toM k (n - r1) =
      d2' (d2.toM k n) (P1i.toM n n) (rangeMap r1 (n - r1) n (by omega)) := by
  by_cases h : 0 < r1
  · simp only [if_pos h]
    refine ⟨hd2.1, by simp, ?_⟩
    ext i j
    simp only [Mat.toM, d2', Matrix.mul_apply, submatrix_apply, id, rangeMap]
    rw [Mat.mul_get, if_pos ⟨by rw [hd2.1]; exact i.isLt, by simp⟩, dot_eq_sum, hd2.2,
      ← Fin.sum_univ_eq_sum_range (fun l => d2.get i.val l * (P1i.cols r1 n).get l j.val) n]
    apply Finset.sum_congr rfl
    intro l _
    rw [Mat.cols_get, if_pos j.isLt]
  · have hr : r1 = 0 := by omega
    subst hr
    simp only [Nat.lt_irrefl, if_false]
    refine ⟨hd2.1, by simp [hd2.2], ?_⟩
    rw [d2', h0 rfl]
    ext i j
    simp only [Matrix.mul_apply, submatrix_apply, Matrix.one_apply]
    rw [Finset.sum_eq_single (rangeMap 0 (n - 0) n (by omega) j)]
    · simp [Mat.toM, rangeMap]
    · intro b _ hb
      have hb' : ¬ (id b = rangeMap 0 (n - 0) n (by omega) j) := hb
      rw [if_neg hb', mul_zero]
    · intro h'; exact absurd (Finset.mem_univ _) h'

/-- `HomologyCalc::process_snf` with an SNF routine that returns `s1` on `d1` and `s2` on `d2·P1⁻¹[:, r1..n]` -/
theorem processSnf_eq (snf : SnfFn) (d1 d2 D2 : Mat) (s1 s2 : Snf) (P1i : Mat) (r1 : Nat)
    (h1 : snf d1 (true, true, false, false) = .ok s1) (hr : s1.rank = r1) (hpi : s1.pinv = some P1i)
    (hsh : d2.c = d1.r) (hP1i : P1i.r = d1.r ∧ P1i.c = d1.r) (hr1 : r1 ≤ d1.r)
    (hD2 : D2 = if 0 < r1 then d2.mul (P1i.cols r1 d1.r) else d2)
    (h2 : snf D2 (false, false, true, true) = .ok s2) :
    processSnf snf d1 d2 true = .ok (s1, s2) := by
  unfold processSnf
  rw [h1]
  simp only [Res.bind_ok, hr]
  by_cases h : 0 < r1
  · rw [if_pos h] at hD2
    simp [h, hpi, unwrap, colsR, Trans.mulMat, Res.assert, hP1i.1, hP1i.2, hr1, hsh, ← hD2, h2]
  · rw [if_neg h] at hD2
    simp only [gt_iff_lt, h, if_false, Res.pure_eq, Res.bind_ok, ← hD2, h2]

/-- the answer of `trivial_result` (`d1 = 0`, `d2 = 0`): `H = ℤⁿ`, identity coordinates -/
theorem trivial_spec (d1 d2 : Mat) (n m k : Nat) (h1 : d1.toM n m = 0) (h2 : d2.toM k n = 0) :
    HomologySpec d1 d2 n m k n [] (Mat.id n) (Mat.id n) := by
  have hid : (Mat.id n).toM (n + ([] : List Int).length) n = 1 := id_toM n
  have hid' : (Mat.id n).toM n (n + ([] : List Int).length) = 1 := id_toM n
  refine ⟨⟨rfl, rfl⟩, ⟨rfl, rfl⟩, fun x hx => absurd hx (by simp), List.Pairwise.nil, ?_, ?_, ?_, ?_, ?_⟩
  · rw [hid, hid']; exact Matrix.one_mul _
  · rw [h2]; exact Matrix.zero_mul _
  · intro x i
    rw [h1]
    refine ⟨fun _ => by simp, fun h => ?_⟩
    have := i.isLt
    simp only [List.length_nil, Nat.add_zero] at this
    omega
  · intro i
    rw [Matrix.mulVec_mulVec, hid, hid', Matrix.one_mul, Matrix.one_mulVec]
  · intro z hz hc
    refine ⟨0, ?_⟩
    rw [Matrix.mulVec_zero]
    funext i
    have := (hc i).1 i.isLt
    rw [hid, Matrix.one_mulVec] at this
    exact this.symm

/-! ### running the composite model -/

/-- `d1`, `d2`, expected `(rank, tors)`: run `calculate` on the C09 SNF with fuel 50, and let the verified checker
`check` (Model/C07.lean) confirm `P·Q = I`, `d2·Q = 0` and the boundary clause on the returned coordinate maps -/
def runsTo (d1 d2 : Mat) (rank : Nat) (tors : List Int) : Bool :=
  match calculate (snfC09 50) d1 d2 true with
  | .ok (rk, ts, some t) =>
    match t.forwardMat, t.backwardMat with
    | .ok P, .ok Q => rk == rank && ts == tors && check ⟨0, d1, d2, rk, ts.toArray, P, Q⟩ == .ok
    | _, _ => false
  | _ => false

end Yuiv.C07
