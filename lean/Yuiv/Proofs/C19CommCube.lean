import Yuiv.Proofs.C19CommEdge
import Yuiv.Proofs.C19CommDefs
/-
C19Comm — the strengthened per-instance check `icubeWf'`, its meaning, and the passage from the involutive cube to the
abstract edge situation `Sit` of `Proofs/C19CommEdge.lean`.
-/
namespace Yuiv.C19Comm
open Yuiv Yuiv.KhRef Yuiv.C19 Yuiv.C06Cycle Yuiv.C19Inv

theorem arrNodupB_spec (cs : Array (Array Nat)) (h : arrNodupB cs = true) : ArrInj cs := by
  intro i j hi hj e
  unfold arrNodupB at h
  rw [allBelow_spec] at h
  have := (allBelow_spec _ _).1 (h i hi) j hj
  simpa [e] using this

structure WFs' (F : Array Nat → Array Nat) (ic : ICube) (s : Nat) : Prop where
  le64 : (ic.cube.circ[s]!).size ≤ 64
  inj : ArrInj (ic.cube.circ[s]!)
  img : ∀ i < (ic.cube.circ[s]!).size,
    (ic.cube.circ[ic.tst[s]!]!)[(ic.tlab[s]!)[i]!]! = F (ic.cube.circ[s]!)[i]!
  edge : ∀ k < ic.cube.n, s.testBit k = false →
    ∃ k', k' < ic.cube.n ∧ (ic.tst[s]!).testBit k' = false ∧ ic.tst[s ||| 1 <<< k]! = ic.tst[s]! ||| 1 <<< k'

theorem wf'_wf (F : Array Nat → Array Nat) (ic : ICube) (h : icubeWf' F ic = true) : icubeWf ic = true := by
  unfold icubeWf' at h
  simp only [Bool.and_eq_true] at h
  exact h.1

theorem wf'_spec (F : Array Nat → Array Nat) (ic : ICube) (h : icubeWf' F ic = true) :
    ∀ s < 2 ^ ic.cube.n, WFs' F ic s := by
  intro s hs
  unfold icubeWf' at h
  simp only [Bool.and_eq_true, allBelow_spec, beq_iff_eq, decide_eq_true_eq] at h
  obtain ⟨⟨⟨h1, h2⟩, h3⟩, h4⟩ := h.2 s hs
  refine ⟨h1, arrNodupB_spec _ h2, h3, ?_⟩
  intro k hk hb
  have := h4 k hk
  simp only [hb, Bool.false_or, List.any_eq_true, List.mem_range, Bool.and_eq_true, Bool.not_eq_true', beq_iff_eq] at this
  obtain ⟨k', hk', hb', e⟩ := this
  exact ⟨k', hk', hb', e⟩

theorem or_bit_lt (s k n : Nat) (hs : s < 2 ^ n) (hk : k < n) : s ||| 1 <<< k < 2 ^ n := by
  apply Nat.or_lt_two_pow hs
  rw [Nat.one_shiftLeft]
  exact Nat.pow_lt_pow_right (by omega) hk

/-- the edge situation at the cube edge `s → s + e_k` -/
theorem sit_of_wf (F : Array Nat → Array Nat) (ic : ICube) (h : icubeWf' F ic = true) (s s' : Nat)
    (hs : s < 2 ^ ic.cube.n) (hs' : s' < 2 ^ ic.cube.n) :
    Sit (ic.cube.circ[s]!) (ic.cube.circ[s']!) (ic.cube.circ[ic.tst[s]!]!) (ic.cube.circ[ic.tst[s']!]!)
      (ic.tlab[s]!) (ic.tlab[s']!) (ic.tlab[ic.tst[s]!]!) (ic.tlab[ic.tst[s']!]!) := by
  have h0 := wf'_wf F ic h
  have ws := wf_spec ic h0 s hs
  have ws' := wf_spec ic h0 s' hs'
  have wt := wf_spec ic h0 _ ws.lt
  have wt' := wf_spec ic h0 _ ws'.lt
  have vs := wf'_spec F ic h s hs
  have vs' := wf'_spec F ic h s' hs'
  have vt := wf'_spec F ic h _ ws.lt
  have vt' := wf'_spec F ic h _ ws'.lt
  have bI : ∀ i < (ic.cube.circ[s]!).size, (ic.tlab[ic.tst[s]!]!)[i]! < (ic.cube.circ[s]!).size ∧
      (ic.tlab[s]!)[(ic.tlab[ic.tst[s]!]!)[i]!]! = i := by
    have := wt.bij; rw [ws.inv, ws.circ] at this; exact this
  have bI' : ∀ i < (ic.cube.circ[s']!).size, (ic.tlab[ic.tst[s']!]!)[i]! < (ic.cube.circ[s']!).size ∧
      (ic.tlab[s']!)[(ic.tlab[ic.tst[s']!]!)[i]!]! = i := by
    have := wt'.bij; rw [ws'.inv, ws'.circ] at this; exact this
  refine ⟨ws.circ, ws'.circ, ws.lab, ws'.lab, ws.bij, bI, ws'.bij, bI', vs.inj, vs'.inj, vt.inj, vt'.inj, vs'.le64, ?_⟩
  intro i hi j hj
  constructor
  · intro e
    rw [vs.img i hi, vs'.img j hj, e]
  · intro e
    have e1 := vt.img _ (by rw [ws.circ]; exact (ws.bij i hi).1)
    have e2 := vt'.img _ (by rw [ws'.circ]; exact (ws'.bij j hj).1)
    rw [ws.inv, (ws.bij i hi).2] at e1
    rw [ws'.inv, (ws'.bij j hj).2] at e2
    rw [e1, e2, e]

/-! ### 𝔽₂-supports -/

/-- the chain mod 2 of a list of terms, as the driver forms it: the targets of the terms with odd coefficient
(a generator occurring an even number of times cancels) -/
def oddSupp (ts : List Term) : List Gen := (ts.filter (fun t => t.2 % 2 != 0)).map (·.1)

theorem oddSupp_perm {ts ts' : List Term} (h : ts.Perm ts') : (oddSupp ts).Perm (oddSupp ts') :=
  (h.filter _).map _

theorem oddSupp_append (a b : List Term) : oddSupp (a ++ b) = oddSupp a ++ oddSupp b := by
  simp [oddSupp]

theorem oddSupp_scale (sign : Int) (hs : sign = 1 ∨ sign = -1) (ts : List Term) :
    oddSupp (ts.map (fun t => (t.1, sign * t.2))) = oddSupp ts := by
  unfold oddSupp
  rw [List.filter_map, List.map_map]
  have : ((fun t : Term => t.2 % 2 != 0) ∘ fun t : Term => (t.1, sign * t.2)) = (fun t : Term => t.2 % 2 != 0) := by
    funext t
    simp only [Function.comp]
    rcases hs with rfl | rfl
    · simp
    · congr 1
      omega
  rw [this]
  rfl

theorem edgeSign_pm (s k : Nat) : edgeSign s k = 1 ∨ edgeSign s k = -1 := by
  unfold edgeSign
  split
  · exact Or.inl rfl
  · exact Or.inr rfl

theorem edgeCore_state (cs cs' : Array (Array Nat)) (p : Params) (x s' : Nat) (ts : List Term)
    (h : edgeCore cs cs' p x s' = some ts) : ∀ t ∈ ts, t.1.s = s' := by
  unfold edgeCore at h
  simp only at h
  intro t ht
  split at h
  · simp only [Option.some.injEq] at h
    subst h
    obtain ⟨ya, _, e⟩ := List.mem_filterMap.1 ht
    split at e
    · simp only [Option.some.injEq] at e; subst e; rfl
    · cases e
  · split at h
    · simp only [Option.some.injEq] at h
      subst h
      obtain ⟨ya, _, e⟩ := List.mem_filterMap.1 ht
      split at e
      · simp only [Option.some.injEq] at e; subst e; rfl
      · cases e
    · cases h

theorem oddSupp_tau (ic : ICube) (s' : Nat) (ts : List Term) (h : ∀ t ∈ ts, t.1.s = s') :
    (oddSupp ts).map ic.tau = oddSupp (ts.map (tauT (ic.tlab[s']!) (ic.tst[s']!))) := by
  unfold oddSupp
  rw [List.filter_map, List.map_map, List.map_map]
  apply List.map_congr_left
  intro t ht
  have := h t (List.mem_filter.1 ht).1
  simp only [Function.comp, tauT, tau_eq, this]

/-- ONE EDGE of the involutive cube: if `τ(s + e_k) = τ s + e_k'`, the edge map along `k'` at `τ g` is the τ-image of the
edge map along `k` at `g` (𝔽₂-supports, up to the order of the terms); both are undefined together -/
theorem edge_comm (F : Array Nat → Array Nat) (ic : ICube) (h : icubeWf' F ic = true) (p : Params) (g : Gen)
    (hs : g.s < 2 ^ ic.cube.n) (k : Nat) (hk : k < ic.cube.n) (k' : Nat)
    (hrel : ic.tst[g.s ||| 1 <<< k]! = ic.tst[g.s]! ||| 1 <<< k') :
    match edgeTerms ic.cube p g k with
    | none => edgeTerms ic.cube p (ic.tau g) k' = none
    | some ts => ∃ ts', edgeTerms ic.cube p (ic.tau g) k' = some ts' ∧ ((oddSupp ts).map ic.tau).Perm (oddSupp ts') := by
  have S := sit_of_wf F ic h g.s (g.s ||| 1 <<< k) hs (or_bit_lt _ _ _ hs hk)
  have key := edgeCore_tau S p g.mask (g.s ||| 1 <<< k) (ic.tst[g.s ||| 1 <<< k]!)
  rw [edgeTerms_eq_core, edgeTerms_eq_core]
  rw [show (ic.tau g).s = ic.tst[g.s]! from rfl, show (ic.tau g).mask = tauMask (ic.tlab[g.s]!) g.mask from rfl, ← hrel]
  cases hc : edgeCore (ic.cube.circ[g.s]!) (ic.cube.circ[g.s ||| 1 <<< k]!) p g.mask (g.s ||| 1 <<< k) with
  | none =>
    rw [hc] at key
    simp only at key
    simp only [Option.map_none]
    rw [key]
    rfl
  | some ts =>
    rw [hc] at key
    obtain ⟨ts', e, hp⟩ := key
    simp only [Option.map_some]
    rw [e]
    refine ⟨_, rfl, ?_⟩
    rw [oddSupp_scale _ (edgeSign_pm _ _), oddSupp_scale _ (edgeSign_pm _ _),
      oddSupp_tau ic _ ts (edgeCore_state _ _ _ _ _ _ hc)]
    exact oddSupp_perm hp

end Yuiv.C19Comm
