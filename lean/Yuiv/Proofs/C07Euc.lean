import Yuiv.Proofs.C07EucBridge
import Yuiv.Props.C07
import Yuiv.Props.C09Euc
import Mathlib.LinearAlgebra.Matrix.Rank
/-
C07 end-to-end over EVERY lawful Euclidean operation record: the generic code of `HomologyCalc::calculate`
(`calculateG`, Proofs/C07EucModel.lean — at `intOps` it is the `Int` model, Proofs/C07EucTie.lean) with the code model of
the library's own SNF (`C09.snfCalc e`, Model/C09.lean, which is already generic) plugged in through the adapter
`snfC09G e fuel`.  Generic version of `Proofs/C07Full.lean`:

* `snfC09G_spec` — `C09.snf_total_correct_euc` transferred through the adapter, in the vocabulary of C07 (`SnfDataG`);
* `SnfResult::rank`, `SnfResult::factors`, the torsion block, for a matrix of Smith shape, with `is_zero`/`is_unit`
  of the operation record;
* rank lemmas over a commutative domain `K`;
* `HomologySpecG` (all clauses of the property through `φ`), `calc_coreG`, `processSnfG_eq`, `trivial_specG`.
-/
set_option linter.unusedVariables false
set_option linter.unusedSimpArgs false
set_option linter.unusedSectionVars false

namespace Yuiv.C07
open Matrix Yuiv

variable {α K : Type} [CommRing K] [IsDomain K] {e : C09.EOps α} {φ : α → K}

local notation "oo" => C09.EOps.toROps e

/-! ### the adapter -/

@[simp] theorem ofC09G_r (o : C09.ROps α) {m n : Nat} (B : C09.Mat α m n) : (ofC09G o B).r = m := rfl
@[simp] theorem ofC09G_c (o : C09.ROps α) {m n : Nat} (B : C09.Mat α m n) : (ofC09G o B).c = n := rfl

theorem ofC09G_get (o : C09.ROps α) {m n : Nat} (B : C09.Mat α m n) (i j : Nat) :
    (ofC09G o B).get o i j = if h : i < m ∧ j < n then B.get ⟨i, h.1⟩ ⟨j, h.2⟩ else o.zero := by
  unfold ofC09G
  rw [GMat.get_ofFn]
  by_cases h : i < m ∧ j < n
  · simp [h]
  · simp [h]

theorem ofC09G_toM (o : C09.ROps α) (φ : α → K) {m n : Nat} (B : C09.Mat α m n) :
    (ofC09G o B).toM φ o m n = C09.toM φ B := by
  ext i j
  simp only [GMat.toM, ofC09G_get, C09.toM_apply]
  rw [dif_pos ⟨i.isLt, j.isLt⟩]

theorem toC09G_toM (o : C09.ROps α) (φ : α → K) (A : GMat α) :
    C09.toM φ (toC09G o A) = A.toM φ o A.r A.c := by
  ext i j
  simp [toC09G, GMat.toM]

theorem ofC09G_diag (o : C09.ROps α) {m n : Nat} (B : C09.Mat α m n) (k : Nat) :
    (ofC09G o B).get o k k = C09.dg o B k := by
  rw [ofC09G_get]
  unfold C09.dg
  rfl

/-! ### the SNF specification in the vocabulary of C07 -/

/-- what C07 needs from an SNF `(S, P, P⁻¹, Q, Q⁻¹)` of an `r × c` matrix `A`, through `φ`; `r1` = number of non-zero
diagonal entries (the rank), `S = diag(S₀₀, …, S_{r1-1,r1-1}, 0, …)`, the non-zero entries normalised
(`normalizing_unit = 1`), each dividing the next -/
structure SnfDataG (e : C09.EOps α) (φ : α → K) (A S P Pi Q Qi : GMat α) (r c r1 : Nat) : Prop where
  shS : S.r = r ∧ S.c = c
  shP : P.r = r ∧ P.c = r
  shPi : Pi.r = r ∧ Pi.c = r
  shQ : Q.r = c ∧ Q.c = c
  shQi : Qi.r = c ∧ Qi.c = c
  eqS : S.toM φ e.toROps r c = P.toM φ e.toROps r r * A.toM φ e.toROps r c * Q.toM φ e.toROps c c
  pp : P.toM φ e.toROps r r * Pi.toM φ e.toROps r r = 1
  qq : Q.toM φ e.toROps c c * Qi.toM φ e.toROps c c = 1
  r1r : r1 ≤ r
  r1c : r1 ≤ c
  diag : ∀ i j, φ (S.get e.toROps i j) = if i = j ∧ i < r1 then φ (S.get e.toROps i i) else 0
  nz : ∀ i, i < r1 → φ (S.get e.toROps i i) ≠ 0
  norm : ∀ i, i < r1 → φ (e.normUnit (S.get e.toROps i i)) = 1
  chain : ∀ i, i + 1 < r1 → φ (S.get e.toROps i i) ∣ φ (S.get e.toROps (i + 1) (i + 1))

/-- `C09.snf_total_correct_euc` through the adapter: for every matrix there are a fuel bound `N` and a final state
`st` of the C09 model such that for all `fuel ≥ N` and all flags `snfC09G e fuel A flags` returns `ofStG st flags`,
and the five matrices satisfy the SNF specification; the diagonal list of C09 is the diagonal of the C07 matrix -/
theorem snfC09G_spec (L : C09.LawfulEuc e φ) (A : GMat α) :
    ∃ (N : Nat) (st : C09.St α A.r A.c) (r1 : Nat),
      (∀ fuel, N ≤ fuel → C09.snfCalc e true (fun s => .ok s) fuel (toC09G oo A) = .ok st) ∧
      (∀ fuel, N ≤ fuel → ∀ fl, snfC09G e fuel A fl = .ok (ofStG oo st fl)) ∧
      SnfDataG e φ A (ofC09G oo st.t) (ofC09G oo st.p) (ofC09G oo st.pinv) (ofC09G oo st.q) (ofC09G oo st.qinv)
        A.r A.c r1 ∧
      C09.diagL st.t = (List.range (min A.r A.c)).map fun k => (ofC09G oo st.t).get oo k k := by
  obtain ⟨N, st, hN, ⟨hT, hP, hQ⟩, hD, r1, hr1, hnz, hz, hch⟩ := C09.snf_total_correct_euc L (toC09G oo A)
  have hlen : (C09.diagL st.t).length = min A.r A.c := by simp [C09.diagL]
  have hget : ∀ k (h : k < (C09.diagL st.t).length), (C09.diagL st.t)[k] = (ofC09G oo st.t).get oo k k := by
    intro k h; rw [C09.Euc.diagL_getElem (e := e) _ _ h, ofC09G_diag]
  rw [List.length_map] at hr1
  refine ⟨N, st, r1, hN, ?_, ?_, ?_⟩
  · intro fuel hf fl
    unfold snfC09G
    rw [hN fuel hf]
  · refine ⟨⟨rfl, rfl⟩, ⟨rfl, rfl⟩, ⟨rfl, rfl⟩, ⟨rfl, rfl⟩, ⟨rfl, rfl⟩, ?_, ?_, ?_, ?_, ?_, ?_, ?_, ?_, ?_⟩
    · rw [ofC09G_toM, ofC09G_toM, ofC09G_toM, ← toC09G_toM, hT]
    · rw [ofC09G_toM, ofC09G_toM, hP]
    · rw [ofC09G_toM, ofC09G_toM, hQ]
    · omega
    · omega
    · intro i j
      by_cases hij : i = j
      · subst hij
        by_cases hi : i < r1
        · simp [hi]
        · simp only [hi, and_false, if_false]
          by_cases hlt : i < (C09.diagL st.t).length
          · rw [← hget i hlt]
            have := hz i (by simpa using hlt) (by omega)
            simpa using this
          · rw [ofC09G_get, dif_neg (by omega)]; exact L.phi_zero
      · simp only [hij, false_and, if_false]
        rw [ofC09G_get]
        split
        · rename_i h; exact hD ⟨i, h.1⟩ ⟨j, h.2⟩ hij
        · exact L.phi_zero
    · intro i hi
      have hlt : i < (C09.diagL st.t).length := by omega
      have := (hnz i (by simpa using hlt) hi).1
      rw [← hget i hlt]
      simpa using this
    · intro i hi
      have hlt : i < (C09.diagL st.t).length := by omega
      obtain ⟨a, ha, hn⟩ := (hnz i (by simpa using hlt) hi).2
      rw [← hget i hlt]
      rw [← hn]
      apply L.normUnit_congr
      simpa using ha.symm
    · intro i hi
      have hlt : i + 1 < (C09.diagL st.t).length := by omega
      have := hch i (by simpa using hlt) hi
      rw [← hget (i + 1) hlt, ← hget i (by omega)]
      simpa using this
  · apply List.ext_getElem
    · simp [hlen]
    · intro k h1 h2
      rw [hget k h1]
      simp

/-! ### `SnfResult::rank`, `SnfResult::factors` and the torsion block for a matrix of Smith shape -/

theorem snf_rank_of_diagG (L : C09.LawfulEuc e φ) (s : GSnf α) (r c r1 : Nat) (shS : s.result.r = r ∧ s.result.c = c)
    (r1r : r1 ≤ r) (r1c : r1 ≤ c)
    (diag : ∀ i j, φ (s.result.get oo i j) = if i = j ∧ i < r1 then φ (s.result.get oo i i) else 0)
    (nz : ∀ i, i < r1 → φ (s.result.get oo i i) ≠ 0) : s.rank oo = r1 := by
  unfold GSnf.rank
  rw [shS.1, shS.2]
  simp only
  by_cases h : r1 < min r c
  · have : (List.range (min r c)).find? (fun i => e.isZero (s.result.get oo i i)) = some r1 := by
      rw [List.find?_range_eq_some]
      refine ⟨?_, List.mem_range.2 h, ?_⟩
      · have := diag r1 r1
        simp only [Nat.lt_irrefl, and_false, if_false] at this
        exact (L.isZero_iff _).2 this
      · intro j hj
        have := nz j hj
        simp only [Bool.not_eq_eq_eq_not, Bool.not_true]
        exact (L.isZero_false _).2 this
    rw [this]; rfl
  · have : (List.range (min r c)).find? (fun i => e.isZero (s.result.get oo i i)) = none := by
      rw [List.find?_range_eq_none]
      intro i hi
      have := nz i (by omega)
      simp only [Bool.not_eq_eq_eq_not, Bool.not_true]
      exact (L.isZero_false _).2 this
    rw [this]
    simp only [Option.getD_none]
    omega

theorem filterMap_range_diagG (z : α → Bool) (a : Nat → α) (r1 : Nat) (hnz : ∀ i, i < r1 → z (a i) = false)
    (hz : ∀ i, r1 ≤ i → z (a i) = true) :
    ∀ n, (List.range n).filterMap (fun i => if !z (a i) then some (a i) else none) = (List.range (min n r1)).map a
  | 0 => by simp
  | n + 1 => by
    rw [List.range_succ, List.filterMap_append, filterMap_range_diagG z a r1 hnz hz n]
    by_cases h : n < r1
    · have h1 : min (n + 1) r1 = min n r1 + 1 := by omega
      have h2 : min n r1 = n := by omega
      rw [h1, List.range_succ, List.map_append, h2]
      simp [hnz n h]
    · have h1 : min (n + 1) r1 = min n r1 := by omega
      rw [h1]
      simp [hz n (by omega)]

theorem snf_factors_of_diagG (L : C09.LawfulEuc e φ) (s : GSnf α) (r c r1 : Nat)
    (shS : s.result.r = r ∧ s.result.c = c) (r1r : r1 ≤ r) (r1c : r1 ≤ c)
    (diag : ∀ i j, φ (s.result.get oo i j) = if i = j ∧ i < r1 then φ (s.result.get oo i i) else 0)
    (nz : ∀ i, i < r1 → φ (s.result.get oo i i) ≠ 0) :
    s.factors oo = (List.range r1).map fun i => s.result.get oo i i := by
  unfold GSnf.factors
  rw [shS.1, shS.2]
  have := filterMap_range_diagG (fun x => e.isZero x) (fun i => s.result.get oo i i) r1
    (fun i hi => (L.isZero_false _).2 (nz i hi))
    (fun i hi => (L.isZero_iff _).2 (by have := diag i i; simpa [show ¬ i < r1 by omega] using this)) (min r c)
  rw [show min (min r c) r1 = r1 by omega] at this
  exact this

theorem chain_dvdG (a : Nat → K) (r1 : Nat) (chain : ∀ i, i + 1 < r1 → a i ∣ a (i + 1)) :
    ∀ j i, i ≤ j → j < r1 → a i ∣ a j
  | 0, i, hi, _ => by
    have : i = 0 := by omega
    subst this; exact dvd_refl _
  | j + 1, i, hi, hj => by
    by_cases h : i = j + 1
    · subst h; exact dvd_refl _
    · exact (chain_dvdG a r1 chain j i (by omega) (by omega)).trans (chain j hj)

/-- `torsion_block_position` (Props/C07.lean) for an arbitrary relation -/
theorem torsion_block_positionG {β : Type} (unit : β → Bool) (rel : β → β → Prop)
    (hunit : ∀ x y, rel x y → unit y = true → unit x = true) (l : List β) (hchain : l.Pairwise rel) :
    l.filter (fun x => !unit x) = l.drop (l.length - (l.filter (fun x => !unit x)).length) := by
  induction l with
  | nil => simp
  | cons x xs ih =>
    rw [List.pairwise_cons] at hchain
    by_cases hx : unit x = true
    · have hle : (xs.filter (fun x => !unit x)).length ≤ xs.length := List.length_filter_le _ _
      simp only [List.filter_cons, hx, Bool.not_true, Bool.false_eq_true, if_false, List.length_cons]
      rw [show xs.length + 1 - (xs.filter (fun x => !unit x)).length
            = (xs.length - (xs.filter (fun x => !unit x)).length) + 1 by omega, List.drop_succ_cons]
      exact ih hchain.2
    · have hall : ∀ y ∈ x :: xs, (!unit y) = true := by
        intro y hy
        rcases List.mem_cons.mp hy with rfl | hy
        · simpa using hx
        · have := hchain.1 y hy
          cases h : unit y
          · rfl
          · exact absurd (hunit _ _ this h) hx
      rw [List.filter_eq_self.mpr hall]; simp

/-- the non-unit entries of a divisibility chain `a 0 ∣ a 1 ∣ … ∣ a (r1-1)` of non-zero elements are the last `t`
ones; the others are units -/
theorem torsion_blockG (L : C09.LawfulEuc e φ) (a : Nat → α) (r1 : Nat)
    (chain : ∀ i, i + 1 < r1 → φ (a i) ∣ φ (a (i + 1))) (tors : List α)
    (htors : tors = ((List.range r1).map a).filter fun x => !e.isUnit x) :
    tors.length ≤ r1 ∧ (∀ u, u < tors.length → tors.getD u e.zero = a (r1 - tors.length + u)) ∧
      (∀ i, i < r1 - tors.length → IsUnit (φ (a i))) ∧
      (∀ i, r1 - tors.length ≤ i → i < r1 → ¬ IsUnit (φ (a i))) ∧
      tors.Pairwise (fun x y => φ x ∣ φ y) := by
  set l := (List.range r1).map a with hl
  have hlen : l.length = r1 := by simp [hl]
  have hget : ∀ i (h : i < l.length), l[i] = a i := by intro i h; simp [hl]
  have hpair : l.Pairwise (fun x y => φ x ∣ φ y) := by
    rw [List.pairwise_iff_getElem]
    intro i j hi hj hij
    rw [hget i hi, hget j hj]
    exact chain_dvdG (fun i => φ (a i)) r1 chain j i (by omega) (by omega)
  have hu : ∀ x y : α, φ x ∣ φ y → e.isUnit y = true → e.isUnit x = true := by
    intro x y hxy hy
    rw [L.isUnit_iff] at hy ⊢
    exact isUnit_of_dvd_unit hxy hy
  have hblock := torsion_block_positionG e.isUnit _ hu l hpair
  rw [← htors] at hblock
  have htl : tors.length ≤ r1 := by
    rw [htors, ← hlen]; exact List.length_filter_le _ _
  have hdrop : ∀ x ∈ l.drop (l.length - tors.length), (!e.isUnit x) = true := by
    intro x hx
    rw [← hblock, htors] at hx
    exact (List.mem_filter.1 hx).2
  have htake : ∀ x ∈ l.take (l.length - tors.length), e.isUnit x = true := by
    have hsplit : l = l.take (l.length - tors.length) ++ l.drop (l.length - tors.length) :=
      (List.take_append_drop _ _).symm
    have h1 : tors = (l.take (l.length - tors.length)).filter (fun x => !e.isUnit x) ++
        l.drop (l.length - tors.length) := by
      conv_lhs => rw [htors, hsplit, List.filter_append, List.filter_eq_self.2 hdrop]
    have h2 : ((l.take (l.length - tors.length)).filter (fun x => !e.isUnit x)).length = 0 := by
      have := congrArg List.length h1
      rw [List.length_append, List.length_drop] at this
      omega
    have h3 := List.eq_nil_of_length_eq_zero h2
    rw [List.filter_eq_nil_iff] at h3
    intro x hx
    have := h3 x hx
    simpa using this
  refine ⟨htl, ?_, ?_, ?_, by rw [htors]; exact hpair.filter _⟩
  · intro u hu'
    have h1 : tors.getD u e.zero = tors[u] := by simp [List.getD_eq_getElem?_getD, hu']
    rw [h1]
    have h2 : u < (l.drop (l.length - tors.length)).length := by rw [List.length_drop]; omega
    have h3 : tors[u] = (l.drop (l.length - tors.length))[u] := by
      congr 1
    rw [h3, List.getElem_drop, hget, hlen]
  · intro i hi
    have hmem : l[i]'(by omega) ∈ l.take (l.length - tors.length) := by
      rw [List.mem_take_iff_getElem]
      exact ⟨i, by rw [hlen]; omega, rfl⟩
    have := htake _ hmem
    rw [hget] at this
    exact (L.isUnit_iff _).1 this
  · intro i hi hi2
    have hmem : l[i]'(by omega) ∈ l.drop (l.length - tors.length) := by
      rw [List.mem_drop_iff_getElem]
      refine ⟨i - (l.length - tors.length), by rw [hlen]; omega, ?_⟩
      congr 1; rw [hlen]; omega
    have := hdrop _ hmem
    rw [hget] at this
    intro hU
    rw [(L.isUnit_iff _).2 hU] at this
    exact absurd this (by decide)

/-! ### counting on C09's diagonal list -/

/-- number of non-zero entries on the diagonal of the final target of the C09 model -/
def nzCountG (e : C09.EOps α) {m n : Nat} (st : C09.St α m n) : Nat :=
  ((C09.diagL st.t).filter (fun a => !e.isZero a)).length

/-- the non-zero non-unit entries on that diagonal, in order -/
def nonUnitFactorsG (e : C09.EOps α) {m n : Nat} (st : C09.St α m n) : List α :=
  (C09.diagL st.t).filter (fun a => !e.isZero a && !e.isUnit a)

theorem filter_range_prefix (q : Nat → Bool) (r1 : Nat) (h1 : ∀ k, k < r1 → q k = true)
    (h2 : ∀ k, r1 ≤ k → q k = false) : ∀ n, r1 ≤ n → (List.range n).filter q = List.range r1 := by
  intro n hn
  obtain ⟨d, rfl⟩ := Nat.exists_eq_add_of_le hn
  induction d with
  | zero =>
    rw [Nat.add_zero, List.filter_eq_self]
    intro k hk; exact h1 k (List.mem_range.1 hk)
  | succ d ih =>
    rw [← Nat.add_assoc, List.range_succ, List.filter_append, ih (by omega)]
    simp [h2 (r1 + d) (by omega)]

theorem diagL_nzG (L : C09.LawfulEuc e φ) (a : Nat → α) (r1 len : Nat) (h1 : r1 ≤ len)
    (nz : ∀ k, k < r1 → φ (a k) ≠ 0) (hz : ∀ k, r1 ≤ k → φ (a k) = 0) :
    ((List.range len).map a).filter (fun x => !e.isZero x) = (List.range r1).map a := by
  rw [List.filter_map]
  congr 1
  apply filter_range_prefix _ r1 _ _ len h1
  · intro k hk
    simp only [Function.comp, Bool.not_eq_eq_eq_not, Bool.not_true]
    exact (L.isZero_false _).2 (nz k hk)
  · intro k hk
    simp only [Function.comp, Bool.not_eq_eq_eq_not, Bool.not_false]
    exact (L.isZero_iff _).2 (hz k hk)

theorem diagL_filterG (L : C09.LawfulEuc e φ) (a : Nat → α) (r1 len : Nat) (h1 : r1 ≤ len)
    (nz : ∀ k, k < r1 → φ (a k) ≠ 0) (hz : ∀ k, r1 ≤ k → φ (a k) = 0) :
    ((List.range len).map a).filter (fun x => !e.isZero x && !e.isUnit x) =
      ((List.range r1).map a).filter (fun x => !e.isUnit x) := by
  rw [← diagL_nzG L a r1 len h1 nz hz, List.filter_filter]
  apply List.filter_congr
  intro x _
  exact Bool.and_comm _ _

/-! ### rank: the number of non-zero diagonal entries of ANY diagonalisation is the rank -/

theorem rank_diag_formK {r c r1 : Nat} (S : Matrix (Fin r) (Fin c) K) (a : Nat → K) (h1 : r1 ≤ r) (h2 : r1 ≤ c)
    (hdiag : ∀ i j, S i j = if i.val = j.val ∧ i.val < r1 then a i.val else 0) (ha : ∀ i, i < r1 → a i ≠ 0) :
    S.rank = r1 := by
  apply le_antisymm
  · have hsub : Function.support S.row ⊆ ↑(Finset.univ.filter fun i : Fin r => i.val < r1) := by
      intro i hi
      simp only [Finset.coe_filter, Finset.mem_univ, true_and, Set.mem_ofPred_eq]
      by_contra hlt
      apply hi
      funext j
      simp [Matrix.row, hdiag, hlt]
    refine (rank_le_card_of_support_subset S _ hsub).trans ?_
    calc (Finset.univ.filter fun i : Fin r => i.val < r1).card ≤ (Finset.range r1).card :=
          Finset.card_le_card_of_injOn Fin.val (by intro i hi; simpa using hi) Fin.val_injective.injOn
      _ = r1 := Finset.card_range r1
  · have hsub : S.submatrix (Fin.castLE h1) (Fin.castLE h2) = diagonal (fun i : Fin r1 => a i.val) := by
      ext i j
      simp only [submatrix_apply, hdiag, Fin.val_castLE, diagonal_apply, Fin.ext_iff, i.isLt, and_true]
    have := rank_submatrix_le S (Fin.castLE h1) (Fin.castLE h2)
    rw [hsub, rank_of_det_ne_zero (by
      rw [det_diagonal]; exact Finset.prod_ne_zero_iff.2 (fun i _ => ha i.val i.isLt))] at this
    simpa using this

theorem rank_of_snfK {r c : Nat} (A S : Matrix (Fin r) (Fin c) K) (P Pi : Matrix (Fin r) (Fin r) K)
    (Q Qi : Matrix (Fin c) (Fin c) K) (hS : S = P * A * Q) (hP : P * Pi = 1) (hQ : Q * Qi = 1) :
    S.rank = A.rank := by
  rw [hS, rank_mul_eq_left_of_isUnit_det Q _ (Matrix.isUnit_det_of_right_inverse hQ),
    rank_mul_eq_right_of_isUnit_det P _ (Matrix.isUnit_det_of_right_inverse hP)]

/-- `d2' = d2·P1⁻¹[:, r1..n]` has the rank of `d2` when the first `r1` columns of `d2·P1⁻¹` vanish -/
theorem rank_d2'K {n k r1 : Nat} (h : r1 ≤ n) (d2 : Matrix (Fin k) (Fin n) K) (P1 P1i : Matrix (Fin n) (Fin n) K)
    (hP : P1 * P1i = 1) (hcol : ∀ i (j : Fin n), j.val < r1 → (d2 * P1i) i j = 0) :
    (d2' d2 P1i (rangeMap r1 (n - r1) n (by omega))).rank = d2.rank := by
  have hX : (d2 * P1i).rank = d2.rank :=
    rank_mul_eq_left_of_isUnit_det P1i d2 (Matrix.isUnit_det_of_left_inverse hP)
  have e1 : d2' d2 P1i (rangeMap r1 (n - r1) n (by omega)) =
      (d2 * P1i).submatrix id (rangeMap r1 (n - r1) n (by omega)) := by
    unfold d2'; ext i j; simp [Matrix.mul_apply]
  apply le_antisymm
  · rw [e1, ← hX]; exact rank_submatrix_le _ _ _
  · rw [← hX, e1]
    generalize d2 * P1i = X at hcol
    have e2 : X = X.submatrix id (rangeMap r1 (n - r1) n (by omega)) *
        (1 : Matrix (Fin n) (Fin n) K).submatrix (rangeMap r1 (n - r1) n (by omega)) id := by
      ext i j
      simp only [Matrix.mul_apply, submatrix_apply, id, Matrix.one_apply]
      by_cases hj : j.val < r1
      · rw [hcol i j hj]
        symm
        apply Finset.sum_eq_zero
        intro b _
        have : rangeMap r1 (n - r1) n (by omega) b ≠ j := by
          intro hb; have := congrArg Fin.val hb; simp [rangeMap] at this; omega
        simp [this]
      · rw [Finset.sum_eq_single (⟨j.val - r1, by omega⟩ : Fin (n - r1))]
        · have : rangeMap r1 (n - r1) n (by omega) ⟨j.val - r1, by omega⟩ = j := by
            apply Fin.ext; simp [rangeMap]; omega
          simp [this]
        · intro b _ hb
          have : rangeMap r1 (n - r1) n (by omega) b ≠ j := by
            intro hb'; apply hb; apply Fin.ext
            have := congrArg Fin.val hb'; simp [rangeMap] at this; simp; omega
          simp [this]
        · intro h'; exact absurd (Finset.mem_univ _) h'
    conv_lhs => rw [e2]
    exact rank_mul_le_left _ _

/-- the rank of `A` (through `φ`, over `K`) is the `r1` of its `SnfDataG` -/
theorem SnfDataG.rank_eq {A S P Pi Q Qi : GMat α} {r c r1 : Nat} (h : SnfDataG e φ A S P Pi Q Qi r c r1) :
    (A.toM φ oo r c).rank = r1 := by
  rw [← rank_of_snfK (A.toM φ oo r c) (S.toM φ oo r c) (P.toM φ oo r r) (Pi.toM φ oo r r) (Q.toM φ oo c c)
    (Qi.toM φ oo c c) h.eqS h.pp h.qq]
  exact rank_diag_formK (S.toM φ oo r c) (fun i => φ (S.get oo i i)) h.r1r h.r1c (fun i j => h.diag i.val j.val)
    h.nz

/-- the first `r1` columns of `d2·P1⁻¹` vanish when `d2·d1 = 0` -/
theorem SnfDataG.d2P1i_cols {d1 d2 S1 P1 P1i Q1 Q1i : GMat α} {n m k r1 : Nat}
    (h : SnfDataG e φ d1 S1 P1 P1i Q1 Q1i n m r1)
    (hdd : d2.toM φ oo k n * d1.toM φ oo n m = 0) (i : Fin k) (j : Fin n) (hj : j.val < r1) :
    (d2.toM φ oo k n * P1i.toM φ oo n n) i j = 0 := by
  have := d2P1i_col_zero (d1.toM φ oo n m) (d2.toM φ oo k n) (P1.toM φ oo n n) (P1i.toM φ oo n n)
    (Q1.toM φ oo m m) (S1.toM φ oo n m)
    (Fin.castLE h.r1r) (Fin.castLE h.r1c) (fun a : Fin r1 => φ (S1.get oo a.val a.val)) hdd h.eqS
    (mul_eq_one_comm.mp h.pp) ?_ (fun a => h.nz a.val a.isLt) i ⟨j.val, hj⟩
  · exact this
  · intro a i'
    show φ (S1.get oo i'.val (Fin.castLE h.r1c a).val) = _
    rw [h.diag]
    by_cases hi : i' = Fin.castLE h.r1r a
    · subst hi; simp [a.isLt]
    · have : ¬ (i'.val = (Fin.castLE h.r1c a).val ∧ i'.val < r1) := by
        rintro ⟨h', _⟩; exact hi (Fin.ext (by simpa using h'))
      rw [if_neg this, if_neg hi]

/-! ### the specification of an answer, and the core of the end-to-end theorem -/

/-- ALL clauses of property C07 for an answer `(rank, tors, P, Q)` to the complex `d1 : n×m`, `d2 : k×n` over the
operation record `e`, read through `φ : α → K` (`P` = `vectorize`, `Q` = `gen`; the first `rank` coordinates are
free, coordinate `rank + u` lives in `K/(φ tors[u])`) — except the values of `rank` and `tors` themselves, which the
theorems state separately -/
structure HomologySpecG (e : C09.EOps α) (φ : α → K) (d1 d2 : GMat α) (n m k : Nat) (rank : Nat) (tors : List α)
    (P Q : GMat α) : Prop where
  shP : P.r = rank + tors.length ∧ P.c = n
  shQ : Q.r = n ∧ Q.c = rank + tors.length
  /-- torsion orders are non-zero non-units, normalised (`normalizing_unit = 1`) -/
  tors_nonunit : ∀ x ∈ tors, φ x ≠ 0 ∧ ¬ IsUnit (φ x) ∧ φ (e.normUnit x) = 1
  /-- … in divisibility order -/
  tors_chain : tors.Pairwise (fun x y => φ x ∣ φ y)
  /-- `P·Q = I` -/
  pq : P.toM φ e.toROps (rank + tors.length) n * Q.toM φ e.toROps n (rank + tors.length) = 1
  /-- generators are cycles: `d2·Q = 0` -/
  cycles : d2.toM φ e.toROps k n * Q.toM φ e.toROps n (rank + tors.length) = 0
  /-- every boundary `d1·x` has zero free coordinates and torsion coordinates divisible by the orders -/
  bdry : ∀ (x : Fin m → K) (i : Fin (rank + tors.length)),
      (i.val < rank → (P.toM φ e.toROps (rank + tors.length) n *ᵥ (d1.toM φ e.toROps n m *ᵥ x)) i = 0) ∧
      (rank ≤ i.val → φ (tors.getD (i.val - rank) e.zero) ∣
        (P.toM φ e.toROps (rank + tors.length) n *ᵥ (d1.toM φ e.toROps n m *ᵥ x)) i)
  /-- `vectorize(gen i) = e_i` -/
  gens : ∀ i : Fin (rank + tors.length),
      P.toM φ e.toROps (rank + tors.length) n *ᵥ (Q.toM φ e.toROps n (rank + tors.length) *ᵥ Pi.single i 1) =
        Pi.single i 1
  /-- completeness: a cycle whose coordinates vanish modulo the orders is a boundary -/
  complete : ∀ z : Fin n → K, d2.toM φ e.toROps k n *ᵥ z = 0 →
      (∀ i : Fin (rank + tors.length),
        (i.val < rank → (P.toM φ e.toROps (rank + tors.length) n *ᵥ z) i = 0) ∧
        (rank ≤ i.val → φ (tors.getD (i.val - rank) e.zero) ∣ (P.toM φ e.toROps (rank + tors.length) n *ᵥ z) i)) →
      ∃ x : Fin m → K, d1.toM φ e.toROps n m *ᵥ x = z

/-- `HomologyCalc::{result, trans}` on two SNF records satisfying the SNF specification (for `d1`, resp. for a matrix
`D2` denoting `d2·P1⁻¹[:, r1..n]`): no panic, and every clause of the property holds -/
theorem calc_coreG (L : C09.LawfulEuc e φ) (d1 d2 D2 S1 P1 P1i Q1 Q1i S2 P2 P2i Q2 Q2i : GMat α) (n m k r1 r2 : Nat)
    (hdd : d2.toM φ oo k n * d1.toM φ oo n m = 0)
    (h1 : SnfDataG e φ d1 S1 P1 P1i Q1 Q1i n m r1) (hr1n : r1 ≤ n)
    (hD2 : D2.toM φ oo k (n - r1) =
      d2' (d2.toM φ oo k n) (P1i.toM φ oo n n) (rangeMap r1 (n - r1) n (by omega)))
    (h2 : SnfDataG e φ D2 S2 P2 P2i Q2 Q2i k (n - r1) r2) :
    ∃ P Q : GMat α,
      calcResultG e ⟨S1, some P1, some P1i, none, none⟩ ⟨S2, none, none, some Q2, some Q2i⟩ =
        .ok (n - r1 - r2, ((List.range r1).map fun i => S1.get oo i i).filter fun x => !e.isUnit x) ∧
      calcTransG e ⟨S1, some P1, some P1i, none, none⟩ ⟨S2, none, none, some Q2, some Q2i⟩ =
        .ok ⟨n, n - r1 - r2 + (((List.range r1).map fun i => S1.get oo i i).filter fun x => !e.isUnit x).length,
          [P], [Q]⟩ ∧
      HomologySpecG e φ d1 d2 n m k (n - r1 - r2)
        (((List.range r1).map fun i => S1.get oo i i).filter fun x => !e.isUnit x) P Q := by
  generalize hs1 : (⟨S1, some P1, some P1i, none, none⟩ : GSnf α) = s1
  generalize hs2 : (⟨S2, none, none, some Q2, some Q2i⟩ : GSnf α) = s2
  generalize htors : (((List.range r1).map fun i => S1.get oo i i).filter fun x => !e.isUnit x) = tors
  have hres1 : s1.result = S1 := by rw [← hs1]
  have hres2 : s2.result = S2 := by rw [← hs2]
  have hr1 : s1.rank oo = r1 :=
    snf_rank_of_diagG L s1 n m r1 (hres1 ▸ h1.shS) h1.r1r h1.r1c (hres1 ▸ h1.diag) (hres1 ▸ h1.nz)
  have hr2 : s2.rank oo = r2 :=
    snf_rank_of_diagG L s2 k (n - r1) r2 (hres2 ▸ h2.shS) h2.r1r h2.r1c (hres2 ▸ h2.diag) (hres2 ▸ h2.nz)
  have hfac : s1.factors oo = (List.range r1).map fun i => S1.get oo i i := by
    have := snf_factors_of_diagG L s1 n m r1 (hres1 ▸ h1.shS) h1.r1r h1.r1c (hres1 ▸ h1.diag) (hres1 ▸ h1.nz)
    rw [this, hres1]
  have hfil : (s1.factors oo).filter (fun a => !e.isUnit a) = tors := by rw [hfac, htors]
  obtain ⟨htl, htget, hones, hbig, hchain⟩ :=
    torsion_blockG L (fun i => S1.get oo i i) r1 h1.chain tors htors.symm
  have h12 : r1 + r2 ≤ n := by have := h2.r1c; omega
  have hn : s1.result.r = n := by rw [hres1]; exact h1.shS.1
  refine ⟨pModelG oo P1 Q2i n r1 r2 tors.length, qModelG oo P1i Q2 n r1 r2 tors.length, ?_, ?_, ?_⟩
  · unfold calcResultG
    simp [hn, hr1, hr2, hfil, Res.assert, h12]
  · exact calcTransG_eq e s1 s2 P1 P1i Q2 Q2i n r1 r2 tors.length (by rw [← hs1]) (by rw [← hs1]) (by rw [← hs2])
      (by rw [← hs2]) hn hr1 hr2 (by rw [hfil]) h12 htl h1.shP h1.shPi h2.shQ h2.shQi
  · have hP1' : P1i.toM φ oo n n * P1.toM φ oo n n = 1 := mul_eq_one_comm.mp h1.pp
    have hQ2' : Q2i.toM φ oo (n - r1) (n - r1) * Q2.toM φ oo (n - r1) (n - r1) = 1 := mul_eq_one_comm.mp h2.qq
    have hP2' : P2i.toM φ oo k k * P2.toM φ oo k k = 1 := mul_eq_one_comm.mp h2.pp
    have hS2 : S2.toM φ oo k (n - r1) = P2.toM φ oo k k *
        d2' (d2.toM φ oo k n) (P1i.toM φ oo n n) (rangeMap r1 (n - r1) n (by omega)) *
          Q2.toM φ oo (n - r1) (n - r1) := by
      rw [← hD2]; exact h2.eqS
    have hcol2 : ∀ i (j : Fin (n - r1)), r2 ≤ j.val → S2.toM φ oo k (n - r1) i j = 0 := by
      intro i j hj
      show φ (S2.get oo i.val j.val) = 0
      rw [h2.diag]
      have : ¬ (i.val = j.val ∧ i.val < r2) := by omega
      simp [this]
    have hne : ∀ i, i < r1 → φ (S1.get oo i i) ≠ 0 := h1.nz
    obtain ⟨e1, e2, e3⟩ := homcalc_fin n m k r1 r2 tors.length htl hr1n h1.r1c h2.r1c
      (d1.toM φ oo n m) (d2.toM φ oo k n) (P1.toM φ oo n n) (P1i.toM φ oo n n) (Q1.toM φ oo m m)
      (Q1i.toM φ oo m m) (S1.toM φ oo n m)
      (P2.toM φ oo k k) (P2i.toM φ oo k k) (Q2.toM φ oo (n - r1) (n - r1)) (Q2i.toM φ oo (n - r1) (n - r1))
      (S2.toM φ oo k (n - r1))
      (fun i => φ (S1.get oo i i)) hdd h1.pp hP1' h1.qq hP2' hQ2' h1.eqS (fun i j => h1.diag i.val j.val) hne hS2
      hcol2
    have hp := pModelG_toM L.lawful P1 Q2i n r1 r2 tors.length h12 htl h1.shP h2.shQi
    have hq := qModelG_toM L.lawful P1i Q2 n r1 r2 tors.length h12 htl h1.shPi h2.shQ
    have hpq : (pModelG oo P1 Q2i n r1 r2 tors.length).toM φ oo (n - r1 - r2 + tors.length) n *
        (qModelG oo P1i Q2 n r1 r2 tors.length).toM φ oo n (n - r1 - r2 + tors.length) = 1 := by
      rw [hp, hq, sub_rows_mul_sub_cols', e1, Matrix.submatrix_one_equiv]
    -- coordinates through the re-indexing `Fin (r + t) ≃ Fin r ⊕ Fin t`
    have hpv : ∀ (v : Fin n → K) (s : Fin (n - r1 - r2) ⊕ Fin tors.length),
        ((pModelG oo P1 Q2i n r1 r2 tors.length).toM φ oo (n - r1 - r2 + tors.length) n *ᵥ v) (finSumFinEquiv s) =
        (pMat (P1.toM φ oo n n) (Q2i.toM φ oo (n - r1) (n - r1)) (rangeMap r1 (n - r1) n (by omega))
          (rangeMap (r1 - tors.length) tors.length n (by omega))
          (rangeMap r2 (n - r1 - r2) (n - r1) (by omega)) *ᵥ v) s := by
      intro v s
      rw [hp]
      simp [Matrix.mulVec, dotProduct]
    refine ⟨?_, ?_, ?_, hchain, hpq, ?_, ?_, ?_, ?_⟩
    · constructor
      · simp only [pModelG, GMat.stack_r, GMat.mul_r, GMat.rows_r]; omega
      · simp only [pModelG, GMat.stack_c, GMat.mul_c, GMat.rows_c]; exact h1.shP.2
    · constructor
      · simp only [qModelG, GMat.concat_r, GMat.mul_r, GMat.cols_r]; exact h1.shPi.1
      · simp only [qModelG, GMat.concat_c, GMat.mul_c, GMat.cols_c]; omega
    · intro x hx
      rw [← htors] at hx
      obtain ⟨hx1, hx2⟩ := List.mem_filter.1 hx
      obtain ⟨i, hi, rfl⟩ := List.mem_map.1 hx1
      have hi' := List.mem_range.1 hi
      refine ⟨h1.nz i hi', ?_, h1.norm i hi'⟩
      intro hU
      rw [(L.isUnit_iff _).2 hU] at hx2
      exact absurd hx2 (by decide)
    · rw [hq]
      have : d2.toM φ oo k n * (qMat (P1i.toM φ oo n n) (Q2.toM φ oo (n - r1) (n - r1))
          (rangeMap r1 (n - r1) n (by omega))
          (rangeMap (r1 - tors.length) tors.length n (by omega))
          (rangeMap r2 (n - r1 - r2) (n - r1) (by omega))).submatrix id finSumFinEquiv.symm
          = (d2.toM φ oo k n * qMat (P1i.toM φ oo n n) (Q2.toM φ oo (n - r1) (n - r1))
          (rangeMap r1 (n - r1) n (by omega))
          (rangeMap (r1 - tors.length) tors.length n (by omega))
          (rangeMap r2 (n - r1 - r2) (n - r1) (by omega))).submatrix id finSumFinEquiv.symm := by
        ext i j; simp [Matrix.mul_apply]
      rw [this, e2]; rfl
    · intro x i
      obtain ⟨s, rfl⟩ := finSumFinEquiv.surjective i
      rw [hpv, Matrix.mulVec_mulVec, e3]
      cases s with
      | inl f =>
        refine ⟨fun _ => ?_, fun h => ?_⟩
        · simp [Matrix.mulVec, dotProduct]
        · have := f.isLt; simp at h; omega
      | inr u =>
        refine ⟨fun h => ?_, fun _ => ?_⟩
        · simp at h
        · have hv : (finSumFinEquiv (Sum.inr u : Fin (n - r1 - r2) ⊕ Fin tors.length)).val - (n - r1 - r2) = u.val := by
            simp
          rw [hv, htget u.val u.isLt]
          refine ⟨∑ j, (Q1i.toM φ oo m m) ⟨r1 - tors.length + u.val, by have := u.isLt; have := h1.r1c; omega⟩ j * x j,
            ?_⟩
          simp [Matrix.mulVec, dotProduct, Finset.mul_sum, mul_assoc]
    · intro i
      rw [Matrix.mulVec_mulVec, hpq, Matrix.one_mulVec]
    · intro z hz hc
      have hr2k : r2 ≤ k := h2.r1r
      let eN : Fin r1 ⊕ Fin (n - r1) ≃ Fin n := finSumFinEquiv.trans (finCongr (by omega))
      let eB : Fin r2 ⊕ Fin (n - r1 - r2) ≃ Fin (n - r1) := finSumFinEquiv.trans (finCongr (by omega))
      let jT : Fin tors.length → Fin r1 := rangeMap (r1 - tors.length) tors.length r1 (by omega)
      have hiB : (fun b => eN (Sum.inr b)) = rangeMap r1 (n - r1) n (by omega) := by
        funext b; apply Fin.ext; simp [eN, rangeMap]
      have hiT : (fun u => eN (Sum.inl (jT u))) = rangeMap (r1 - tors.length) tors.length n (by omega) := by
        funext u; apply Fin.ext; simp [eN, jT, rangeMap]
      have hiF : (fun f => eB (Sum.inr f)) = rangeMap r2 (n - r1 - r2) (n - r1) (by omega) := by
        funext f; apply Fin.ext; simp [eB, rangeMap]
      have hvA : ∀ a : Fin r1, (eN (Sum.inl a)).val = a.val := by intro a; simp [eN]
      have hvB : ∀ b : Fin (n - r1), (eN (Sum.inr b)).val = r1 + b.val := by intro b; simp [eN]
      have hvB2 : ∀ b : Fin r2, (eB (Sum.inl b)).val = b.val := by intro b; simp [eB]
      refine homcalc_complete (d1.toM φ oo n m) (d2.toM φ oo k n) (P1.toM φ oo n n) (P1i.toM φ oo n n)
        (Q1.toM φ oo m m) (S1.toM φ oo n m)
        (P2.toM φ oo k k) (Q2.toM φ oo (n - r1) (n - r1)) (Q2i.toM φ oo (n - r1) (n - r1))
        (S2.toM φ oo k (n - r1)) eN eB jT
        (Fin.castLE h1.r1c) (Fin.castLE hr2k) (fun a => φ (S1.get oo a.val a.val))
        (fun b => φ (S2.get oo b.val b.val))
        hdd h1.eqS hP1' ?_ ?_ ?_ ?_ ?_ ?_ h2.qq ?_ ?_ z hz ?_ ?_
      · intro a j
        show φ (S1.get oo (eN (Sum.inl a)).val j.val) = _
        rw [hvA, h1.diag]
        by_cases hj : j = Fin.castLE h1.r1c a
        · subst hj; simp [a.isLt]
        · have : ¬ (a.val = j.val ∧ a.val < r1) := by
            rintro ⟨h, _⟩; exact hj (Fin.ext (by simp [h]))
          rw [if_neg this, if_neg hj]
      · intro a i
        show φ (S1.get oo i.val (Fin.castLE h1.r1c a).val) = _
        rw [h1.diag]
        by_cases hi : i = eN (Sum.inl a)
        · subst hi; simp [hvA, a.isLt]
        · have : ¬ (i.val = (Fin.castLE h1.r1c a).val ∧ i.val < r1) := by
            rintro ⟨h, _⟩; exact hi (Fin.ext (by rw [hvA]; simpa using h))
          rw [if_neg this, if_neg hi]
      · intro b j
        show φ (S1.get oo (eN (Sum.inr b)).val j.val) = 0
        rw [hvB, h1.diag]
        have : ¬ (r1 + b.val = j.val ∧ r1 + b.val < r1) := by omega
        simp [this]
      · intro a; exact hne a.val a.isLt
      · intro a
        by_cases h : a.val < r1 - tors.length
        · right; exact hones a.val h
        · left
          refine ⟨⟨a.val - (r1 - tors.length), by have := a.isLt; omega⟩, Fin.ext ?_⟩
          simp [jT, rangeMap]; omega
      · rw [hiB]; exact hS2
      · intro b j
        show φ (S2.get oo (Fin.castLE hr2k b).val j.val) = _
        rw [h2.diag]
        by_cases hj : j = eB (Sum.inl b)
        · subst hj; simp [hvB2, b.isLt]
        · have : ¬ ((Fin.castLE hr2k b).val = j.val ∧ (Fin.castLE hr2k b).val < r2) := by
            rintro ⟨h, _⟩; exact hj (Fin.ext (by rw [hvB2]; simpa using h.symm))
          rw [if_neg this, if_neg hj]
      · intro b; exact h2.nz b.val b.isLt
      · intro f
        rw [hiB, hiT, hiF, ← hpv]
        exact (hc _).1 (by simp)
      · intro u
        rw [hiB, hiT, hiF, ← hpv]
        have := (hc (finSumFinEquiv (Sum.inr u))).2 (by simp)
        have hv : (finSumFinEquiv (Sum.inr u : Fin (n - r1 - r2) ⊕ Fin tors.length)).val - (n - r1 - r2) = u.val := by
          simp
        rw [hv, htget u.val u.isLt] at this
        show φ (S1.get oo (jT u).val (jT u).val) ∣ _
        simpa [jT, rangeMap] using this

/-! ### plugging the pieces into `calculateG` -/

/-- `SnfResult` with the transformation matrices selected by the flags -/
def mkSnfG (S P Pi Q Qi : GMat α) (fl : SnfFlags) : GSnf α :=
  ⟨S, if fl.1 then some P else none, if fl.2.1 then some Pi else none,
    if fl.2.2.1 then some Q else none, if fl.2.2.2 then some Qi else none⟩

theorem ofStG_eq_mkSnfG (o : C09.ROps α) {m n : Nat} (s : C09.St α m n) (fl : SnfFlags) :
    ofStG o s fl = mkSnfG (ofC09G o s.t) (ofC09G o s.p) (ofC09G o s.pinv) (ofC09G o s.q) (ofC09G o s.qinv) fl := rfl

/-- `snfC09G_spec` for a matrix whose shape is known only propositionally (no dependent types in the statement) -/
theorem snfC09G_spec' (L : C09.LawfulEuc e φ) (A : GMat α) (r c : Nat) (hr : A.r = r) (hc : A.c = c) :
    ∃ (N : Nat) (S P Pi Q Qi : GMat α) (r1 : Nat),
      (∀ fuel, N ≤ fuel → ∀ fl, snfC09G e fuel A fl = .ok (mkSnfG S P Pi Q Qi fl)) ∧
      SnfDataG e φ A S P Pi Q Qi r c r1 := by
  subst hr hc
  obtain ⟨N, st, r1, _, h2, h3, _⟩ := snfC09G_spec L A
  exact ⟨N, _, _, _, _, _, r1, fun fuel hf fl => by rw [h2 fuel hf fl, ofStG_eq_mkSnfG], h3⟩

theorem isZero_getG (L : C09.LawfulEuc e φ) (A : GMat α) (h : A.isZero oo = true) (i j : Nat) :
    φ (A.get oo i j) = 0 := by
  unfold GMat.isZero at h
  rw [Array.all_eq_true] at h
  unfold GMat.get
  split
  · by_cases hlt : i * A.c + j < A.e.size
    · have := h _ hlt
      rw [Array.getD_eq_getD_getElem?, Array.getElem?_eq_getElem hlt]
      exact (L.isZero_iff _).1 this
    · rw [Array.getD_eq_getD_getElem?, Array.getElem?_eq_none (by omega)]; exact L.phi_zero
  · exact L.phi_zero

theorem id_toMG (L : C09.LawfulEuc e φ) (n : Nat) : (GMat.id oo n).toM φ oo n n = 1 := by
  ext i j
  simp only [GMat.toM, GMat.id, GMat.get_ofFn, i.isLt, j.isLt, and_self, if_true, Matrix.one_apply, Fin.ext_iff]
  split
  · exact L.phi_one
  · exact L.phi_zero

/-- the matrix handed to the second SNF: `d2·P1⁻¹[:, r1..n]`, or `d2` itself when `r1 = 0` (then `P1⁻¹ = I`) -/
theorem D2_toMG (L : C09.LawfulEuc e φ) (d2 P1i : GMat α) (n k r1 : Nat) (hr1 : r1 ≤ n) (hd2 : d2.r = k ∧ d2.c = n)
    (hP1i : P1i.r = n ∧ P1i.c = n) (h0 : r1 = 0 → P1i.toM φ oo n n = 1) :
    (if 0 < r1 then d2.mul oo (P1i.cols oo r1 n) else d2).r = k ∧
    (if 0 < r1 then d2.mul oo (P1i.cols oo r1 n) else d2).c = n - r1 ∧
    (if 0 < r1 then d2.mul oo (P1i.cols oo r1 n) else d2).toM φ oo k (n - r1) =
      d2' (d2.toM φ oo k n) (P1i.toM φ oo n n) (rangeMap r1 (n - r1) n (by omega)) := by
  by_cases h : 0 < r1
  · simp only [if_pos h]
    refine ⟨hd2.1, by simp, ?_⟩
    ext i j
    simp only [GMat.toM, d2', Matrix.mul_apply, submatrix_apply, id, rangeMap]
    rw [GMat.mul_get, if_pos ⟨by rw [hd2.1]; exact i.isLt, by simp⟩, dot_eq_sumG L.lawful, hd2.2,
      ← Fin.sum_univ_eq_sum_range (fun l => φ (d2.get oo i.val l) * φ ((P1i.cols oo r1 n).get oo l j.val)) n]
    apply Finset.sum_congr rfl
    intro l _
    rw [GMat.cols_get, if_pos j.isLt]
  · have hr : r1 = 0 := by omega
    subst hr
    simp only [Nat.lt_irrefl, if_false]
    refine ⟨hd2.1, by simp [hd2.2], ?_⟩
    rw [d2', h0 rfl]
    ext i j
    simp only [Matrix.mul_apply, submatrix_apply, Matrix.one_apply]
    rw [Finset.sum_eq_single (rangeMap 0 (n - 0) n (by omega) j)]
    · simp [GMat.toM, rangeMap]
    · intro b _ hb
      have hb' : ¬ (id b = rangeMap 0 (n - 0) n (by omega) j) := hb
      rw [if_neg hb', mul_zero]
    · intro h'; exact absurd (Finset.mem_univ _) h'

/-- `HomologyCalc::process_snf` with an SNF routine that returns `s1` on `d1` and `s2` on `d2·P1⁻¹[:, r1..n]` -/
theorem processSnfG_eq (o : C09.ROps α) (snf : GSnfFn α) (d1 d2 D2 : GMat α) (s1 s2 : GSnf α) (P1i : GMat α)
    (r1 : Nat)
    (h1 : snf d1 (true, true, false, false) = .ok s1) (hr : s1.rank o = r1) (hpi : s1.pinv = some P1i)
    (hsh : d2.c = d1.r) (hP1i : P1i.r = d1.r ∧ P1i.c = d1.r) (hr1 : r1 ≤ d1.r)
    (hD2 : D2 = if 0 < r1 then d2.mul o (P1i.cols o r1 d1.r) else d2)
    (h2 : snf D2 (false, false, true, true) = .ok s2) :
    processSnfG o snf d1 d2 true = .ok (s1, s2) := by
  unfold processSnfG
  rw [h1]
  simp only [Res.bind_ok, hr]
  by_cases h : 0 < r1
  · rw [if_pos h] at hD2
    simp [h, hpi, unwrap, colsRG, GTrans.mulMat, Res.assert, hP1i.1, hP1i.2, hr1, hsh, ← hD2, h2]
  · rw [if_neg h] at hD2
    simp only [gt_iff_lt, h, if_false, Res.pure_eq, Res.bind_ok, ← hD2, h2]

/-- the answer of `trivial_result` (`d1 = 0`, `d2 = 0`): `H = Kⁿ`, identity coordinates -/
theorem trivial_specG (L : C09.LawfulEuc e φ) (d1 d2 : GMat α) (n m k : Nat) (h1 : d1.toM φ oo n m = 0)
    (h2 : d2.toM φ oo k n = 0) :
    HomologySpecG e φ d1 d2 n m k n [] (GMat.id oo n) (GMat.id oo n) := by
  have hid : (GMat.id oo n).toM φ oo (n + ([] : List α).length) n = 1 := id_toMG L n
  have hid' : (GMat.id oo n).toM φ oo n (n + ([] : List α).length) = 1 := id_toMG L n
  refine ⟨⟨rfl, rfl⟩, ⟨rfl, rfl⟩, fun x hx => absurd hx (by simp), List.Pairwise.nil, ?_, ?_, ?_, ?_, ?_⟩
  · rw [hid, hid']; exact Matrix.one_mul _
  · rw [h2]; exact Matrix.zero_mul _
  · intro x i
    rw [h1]
    refine ⟨fun _ => by simp, fun h => ?_⟩
    have := i.isLt
    simp only [List.length_nil, Nat.add_zero] at this
    omega
  · intro i
    rw [Matrix.mulVec_mulVec, hid, hid', Matrix.one_mul, Matrix.one_mulVec]
  · intro z hz hc
    refine ⟨0, ?_⟩
    rw [Matrix.mulVec_zero]
    funext i
    have := (hc i).1 i.isLt
    rw [hid, Matrix.one_mulVec] at this
    exact this.symm

/-! ### running the composite model -/

/-- executable test of an answer `(rank, tors, P, Q)` over the operation record `e`: `P·Q = I`, `d2·Q = 0`, the free
rows of `P·d1` vanish and torsion row `u` of `P·d1` is divisible by `tors[u]` (`%` of the record).  Only used to RUN
the composite model in the examples of `Props/C07Euc.lean`. -/
def checkG (e : C09.EOps α) (d1 d2 : GMat α) (rank : Nat) (tors : List α) (P Q : GMat α) : Bool :=
  let o := e.toROps
  P.r == rank + tors.length && P.c == d1.r && Q.r == d1.r && Q.c == rank + tors.length &&
  allIJ P.r Q.c (fun i j => o.beq (GMat.dot o P Q i j) (if i = j then o.one else o.zero)) &&
  allIJ d2.r Q.c (fun i j => o.isZero (GMat.dot o d2 Q i j)) &&
  allIJ P.r d1.c (fun i j =>
    if i < rank then o.isZero (GMat.dot o P d1 i j)
    else e.dvd (tors.getD (i - rank) o.zero) (GMat.dot o P d1 i j) || o.isZero (GMat.dot o P d1 i j))

/-- `d1`, `d2`, expected `(rank, tors)`: run `calculateG` on the C09 SNF with fuel 50, compare `(rank, tors)` (with
the `==` of the record) and test the returned coordinate maps with `checkG` -/
def runsToG (e : C09.EOps α) (d1 d2 : GMat α) (rank : Nat) (tors : List α) : Bool :=
  match calculateG e (snfC09G e 50) d1 d2 true with
  | .ok (rk, ts, some t) =>
    match t.forwardMat e.toROps, t.backwardMat e.toROps with
    | .ok P, .ok Q =>
      rk == rank && ts.length == tors.length && (List.zipWith e.beq ts tors).all (fun b => b) &&
        checkG e d1 d2 rk ts P Q
    | _, _ => false
  | _ => false

end Yuiv.C07
