import Yuiv.Proofs.C13
import Yuiv.Proofs.C13Trans
import Yuiv.Proofs.C13Dense
import Yuiv.Proofs.C13Perm
import Yuiv.Proofs.C13Vec
import Mathlib.Data.List.Perm.Subperm
/-
C13 — part 8 (helpers of `Props/C13Rest`): the remaining small routines of the code model.

* dense: `Mat::diag`, `Mat::is_zero`, `Mat::is_id`, `Mat::is_diag`;
* sparse: `SpMat::is_zero`, `SpVec::is_zero` (stored zeros do not matter), `SpVec` `+ − neg`, `SpVec::unit`;
* `util::perm_for_indices` with repeated indices (`PermOwned::new` rejects the result), and the explicit
  position formula for the unlisted indices;
* the ad-hoc closures handed to `extract` by the driver (`x0`, `x1`, `x2`, `vx1`, `vx2`).
-/
namespace Yuiv.C13
open Yuiv Res

set_option linter.unusedSectionVars false
set_option linter.unusedSimpArgs false
set_option linter.unusedVariables false

variable {R : Type} [CommRing R] [DecidableEq R]

/-! ### dense predicates and `diag` -/

theorem disZero_iff (A : DMat R) :
    A.isZero = true ↔ ∀ i j, i < A.nrows → j < A.ncols → A.get i j = 0 := by
  unfold DMat.isZero
  simp only [List.all_eq_true, List.mem_range, decide_eq_true_eq]
  exact ⟨fun h i j hi hj => h i hi j hj, fun h i hi j hj => h i j hi hj⟩

theorem disDiag_iff (A : DMat R) :
    A.isDiag = true ↔ ∀ i j, i < A.nrows → j < A.ncols → i ≠ j → A.get i j = 0 := by
  unfold DMat.isDiag
  simp only [List.all_eq_true, List.mem_range, Bool.or_eq_true, decide_eq_true_eq]
  constructor
  · intro h i j hi hj hij
    rcases h i hi j hj with e | e
    · exact absurd e hij
    · exact e
  · intro h i hi j hj
    by_cases e : i = j
    · exact Or.inl e
    · exact Or.inr (h i j hi hj e)

theorem disId_iff (A : DMat R) :
    A.isId = true ↔ A.nrows = A.ncols ∧
      ∀ i j, i < A.nrows → j < A.ncols → A.get i j = if i = j then 1 else 0 := by
  unfold DMat.isId
  simp only [Bool.and_eq_true, List.all_eq_true, List.mem_range, Bool.or_eq_true, decide_eq_true_eq]
  constructor
  · rintro ⟨hsq, h⟩
    refine ⟨hsq, ?_⟩
    intro i j hi hj
    rcases h i hi j hj with ⟨e, e1⟩ | ⟨e, e0⟩
    · rw [if_pos e]; exact e1
    · rw [if_neg (by simpa using e)]; exact e0
  · rintro ⟨hsq, h⟩
    refine ⟨hsq, ?_⟩
    intro i hi j hj
    have := h i j hi hj
    by_cases e : i = j
    · rw [if_pos e] at this; exact Or.inl ⟨e, this⟩
    · rw [if_neg e] at this; exact Or.inr ⟨by simpa using e, this⟩

theorem ddiag_ok (m n : Nat) (es : List R) (hm : es.length ≤ m) (hn : es.length ≤ n) :
    ∃ A, DMat.diag m n es = ok A ∧ A.nrows = m ∧ A.ncols = n ∧
      ∀ i j, i < m → j < n → A.get i j = if i = j then es.getD i 0 else 0 := by
  refine ⟨DMat.ofFn m n (fun i j => if i = j then es.getD i 0 else 0), ?_, rfl, rfl, ?_⟩
  · unfold DMat.diag; rw [if_pos ⟨hm, hn⟩]
  · intro i j hi hj; rw [get_ofFn _ _ _ _ _ hi hj]

theorem ddiag_panic (m n : Nat) (es : List R) (h : ¬ (es.length ≤ m ∧ es.length ≤ n)) :
    DMat.diag m n es = panic := by
  unfold DMat.diag; rw [if_neg h]

/-! ### `is_zero` of the sparse containers: stored zeros do not matter -/

/-- in a column with strictly increasing row indices the entry at a stored position is the stored value -/
theorem sumAt_of_mem_sorted (c : List (Nat × R)) (hs : (c.map (·.1)).Pairwise (· < ·)) (p : Nat × R)
    (hp : p ∈ c) : sumAt c p.1 = p.2 := by
  induction c with
  | nil => cases hp
  | cons q c ih =>
    obtain ⟨k, a⟩ := q
    rw [List.map_cons, List.pairwise_cons] at hs
    rw [sumAt_cons]
    rcases List.mem_cons.mp hp with e | hp'
    · subst e
      rw [if_pos rfl, sumAt_eq_zero c k (fun q hq e => by
        have := hs.1 q.1 (List.mem_map_of_mem hq); omega)]
      simp
    · have hlt := hs.1 p.1 (List.mem_map_of_mem hp')
      rw [if_neg (by omega), ih hs.2 hp']; simp

theorem sumAt_all_zero (c : List (Nat × R)) (h : ∀ p ∈ c, p.2 = 0) (i : Nat) : sumAt c i = 0 := by
  induction c with
  | nil => rfl
  | cons q c ih =>
    obtain ⟨k, a⟩ := q
    have ha : a = 0 := h (k, a) (by simp)
    rw [sumAt_cons, ih (fun p hp => h p (by simp [hp])), ha]; simp

theorem col_all_zero_iff (c : List (Nat × R)) (hs : (c.map (·.1)).Pairwise (· < ·)) :
    c.all (fun p => decide (p.2 = 0)) = true ↔ ∀ i, sumAt c i = 0 := by
  simp only [List.all_eq_true, decide_eq_true_eq]
  constructor
  · intro h i; exact sumAt_all_zero c h i
  · intro h p hp
    rw [← sumAt_of_mem_sorted c hs p hp]; exact h p.1

/-- `isZero = true` always implies that every entry is zero (no well-formedness needed) -/
theorem isZero_entries (A : SpMat R) (h : A.isZero = true) (i j : Nat) : A.entry i j = 0 := by
  unfold SpMat.isZero at h
  simp only [List.all_eq_true, decide_eq_true_eq] at h
  unfold SpMat.entry
  rw [List.getD_eq_getElem?_getD]
  cases hc : A.cols[j]? with
  | none => simp
  | some c =>
    simp only [Option.getD_some]
    exact sumAt_all_zero c (h c (List.mem_of_getElem? hc)) i

theorem isZero_iff (A : SpMat R) (hA : A.WF) : A.isZero = true ↔ ∀ i j, A.entry i j = 0 := by
  constructor
  · intro h i j; exact isZero_entries A h i j
  · intro h
    unfold SpMat.isZero
    rw [List.all_eq_true]
    intro c hc
    rw [col_all_zero_iff c (hA.sorted c hc)]
    intro i
    obtain ⟨j, hj, e⟩ := List.getElem_of_mem hc
    have := h i j
    unfold SpMat.entry at this
    rw [List.getD_eq_getElem?_getD, List.getElem?_eq_getElem hj, Option.getD_some, e] at this
    exact this

theorem visZero_iff (v : SpVec R) (hv : v.WF) : v.isZero = true ↔ ∀ i, v.entry i = 0 := by
  unfold SpVec.isZero SpVec.entry
  exact col_all_zero_iff v.ents (hv.sorted v.ents (by simp [SpVec.toMat]))

/-! ### `SpVec` `+ − neg unit` -/

theorem vadd_spec (v w : SpVec R) (hv : v.WF) (hw : w.WF) (hd : v.dim = w.dim) :
    ∃ u, v.add w = ok u ∧ u.dim = v.dim ∧ u.WF ∧ ∀ i, u.entry i = v.entry i + w.entry i := by
  obtain ⟨C, h1, h2, h3, h4, h5⟩ := add_spec v.toMat w.toMat hv hw hd rfl
  obtain ⟨u, k1, k2, k3, k4⟩ := intoSpVec_spec C h4 h3
  refine ⟨u, ?_, by rw [k2, h2]; rfl, k3, ?_⟩
  · unfold SpVec.add; rw [h1]; exact k1
  · intro i; rw [k4, h5]; rfl

theorem vadd_panic (v w : SpVec R) (hd : v.dim ≠ w.dim) : v.add w = panic := by
  unfold SpVec.add SpMat.add
  have : (decide (v.toMat.nrows = w.toMat.nrows) && decide (v.toMat.ncols = w.toMat.ncols)) = false := by
    simp [SpVec.toMat, hd]
  rw [assert_false' this]; rfl

theorem vsub_spec (v w : SpVec R) (hv : v.WF) (hw : w.WF) (hd : v.dim = w.dim) :
    ∃ u, v.sub w = ok u ∧ u.dim = v.dim ∧ u.WF ∧ ∀ i, u.entry i = v.entry i - w.entry i := by
  obtain ⟨C, h1, h2, h3, h4, h5⟩ := sub_spec v.toMat w.toMat hv hw hd rfl
  obtain ⟨u, k1, k2, k3, k4⟩ := intoSpVec_spec C h4 h3
  refine ⟨u, ?_, by rw [k2, h2]; rfl, k3, ?_⟩
  · unfold SpVec.sub; rw [h1]; exact k1
  · intro i; rw [k4, h5]; rfl

theorem vsub_panic (v w : SpVec R) (hd : v.dim ≠ w.dim) : v.sub w = panic := by
  unfold SpVec.sub SpMat.sub
  have : (decide (v.toMat.nrows = w.toMat.nrows) && decide (v.toMat.ncols = w.toMat.ncols)) = false := by
    simp [SpVec.toMat, hd]
  rw [assert_false' this]; rfl

theorem vneg_toMat (v : SpVec R) : v.neg.toMat = v.toMat.neg := rfl

theorem vneg_spec (v : SpVec R) (hv : v.WF) :
    v.neg.dim = v.dim ∧ v.neg.WF ∧ ∀ i, v.neg.entry i = - v.entry i := by
  refine ⟨rfl, ?_, ?_⟩
  · unfold SpVec.WF; rw [vneg_toMat]; exact neg_wf _ hv
  · intro i
    have := neg_entry v.toMat i 0
    rw [← vneg_toMat] at this
    exact this

theorem vunit_ok (n i : Nat) (hi : i < n) :
    (SpVec.unit n i : Res (SpVec R)) = ok ⟨n, [(i, 1)]⟩ := by
  unfold SpVec.unit tryFromCsc
  simp [splitLanes, strictInc, monotone, hi, SpMat.intoSpVec]

theorem vunit_panic (n i : Nat) (hi : ¬ i < n) : (SpVec.unit n i : Res (SpVec R)) = panic := by
  unfold SpVec.unit tryFromCsc
  simp [splitLanes, strictInc, monotone, hi]

theorem vunit_wf (n i : Nat) (hi : i < n) : (⟨n, [(i, 1)]⟩ : SpVec R).WF := by
  refine ⟨rfl, ?_, ?_⟩
  · intro c hc p hp
    simp only [SpVec.toMat, List.mem_singleton] at hc
    subst hc
    simp only [List.mem_singleton] at hp
    subst hp; exact hi
  · intro c hc
    simp only [SpVec.toMat, List.mem_singleton] at hc
    subst hc
    simp

theorem vunit_entry (n i k : Nat) : (⟨n, [(i, 1)]⟩ : SpVec R).entry k = if k = i then 1 else 0 := by
  unfold SpVec.entry
  rw [sumAt_cons, sumAt_nil, add_zero]
  by_cases e : i = k
  · subst e; simp
  · rw [if_neg e, if_neg (fun h => e h.symm)]

/-! ### `perm_for_indices` with repeated indices, position of the unlisted indices -/

/-- `fillInv` without the distinctness hypothesis: it still succeeds when every index is in range, and the slot
of the *last* listed index holds the last position -/
theorem fillInv_last (l : List Nat) (inv : List Nat) (i : Nat) (hb : ∀ j ∈ l, j < inv.length) :
    ∃ inv', fillInv inv i l = ok inv' ∧ inv'.length = inv.length ∧
      ∀ x, l.getLast? = some x → inv'[x]? = some (i + l.length - 1) := by
  induction l generalizing inv i with
  | nil => exact ⟨inv, rfl, rfl, fun x h => by simp at h⟩
  | cons j rest ih =>
    have hj : j < inv.length := hb j (by simp)
    obtain ⟨inv', h1, h2, h3⟩ := ih (inv.set j i) (i + 1)
      (fun k hk => by rw [List.length_set]; exact hb k (by simp [hk]))
    refine ⟨inv', ?_, by rw [h2, List.length_set], ?_⟩
    · rw [fillInv, setIdx, if_pos hj]; exact h1
    · intro x hx
      cases rest with
      | nil =>
        simp only [fillInv] at h1
        cases h1
        simp only [List.getLast?_singleton, Option.some.injEq] at hx
        subst hx
        simp [List.getElem?_set_self hj]
      | cons a as =>
        rw [List.getLast?_cons_cons] at hx
        rw [h3 x hx]
        congr 1
        simp only [List.length_cons]; omega

/-- the unlisted indices are fewer than `n - |indices|` would suggest exactly when an index is repeated -/
theorem vec_length_gt (n : Nat) (indices : List Nat) (hnd : ¬ indices.Nodup) :
    n < (indices ++ (List.range n).filter (fun i => !indices.contains i)).length := by
  have hpart := List.length_eq_length_filter_add (l := List.range n) (fun i => indices.contains i)
  rw [List.length_range] at hpart
  set s := (List.range n).filter (fun i => indices.contains i) with hs
  have hsnd : s.Nodup := (List.nodup_range).filter _
  have hsub : s ⊆ indices := by
    intro a ha
    simp only [hs, List.mem_filter, List.contains_iff_mem] at ha
    exact ha.2
  have hsp : s.Subperm indices := List.subperm_of_subset hsnd hsub
  have hlt : s.length < indices.length := by
    by_contra hge
    have hperm := hsp.perm_of_length_le (by omega)
    exact hnd (hperm.nodup_iff.mp hsnd)
  rw [List.length_append]
  have : ((List.range n).filter (fun i => !indices.contains i)).length
      = ((List.range n).filter (fun x => !(fun i => indices.contains i) x)).length := rfl
  omega

theorem permForIndices_repeat (n : Nat) (indices : List Nat) (hb : ∀ i ∈ indices, i < n) (hnd : ¬ indices.Nodup) :
    permForIndices n indices = panic := by
  unfold permForIndices
  rw [assert_true' (by rw [List.all_eq_true]; intro i hi; simpa using hb i hi)]
  simp only [bind_ok]
  have hlen := vec_length_gt n indices hnd
  generalize hvec : indices ++ (List.range n).filter (fun i => !indices.contains i) = vec at hlen
  have hvb : ∀ j ∈ vec, j < (List.replicate n 0).length := by
    intro j hj
    rw [List.length_replicate]
    rw [← hvec, List.mem_append] at hj
    rcases hj with hj | hj
    · exact hb j hj
    · exact List.mem_range.mp (List.mem_filter.mp hj).1
  obtain ⟨inv, h1, h2, h3⟩ := fillInv_last vec (List.replicate n 0) 0 hvb
  rw [h1]
  simp only [bind_ok]
  rw [List.length_replicate] at h2
  obtain ⟨x, hx⟩ : ∃ x, vec.getLast? = some x := by
    cases hv : vec.getLast? with
    | none => rw [List.getLast?_eq_none_iff] at hv; rw [hv] at hlen; simp at hlen
    | some x => exact ⟨x, rfl⟩
  have hlast := h3 x hx
  apply Perm.new_panic
  intro ⟨hall, _⟩
  have hmem : (0 + vec.length - 1) ∈ inv := List.mem_of_getElem? hlast
  have := hall _ hmem
  omega

theorem filter_range_split (n i : Nat) (q : Nat → Bool) (hi : i < n) (hq : q i = true) :
    ∃ tail, (List.range n).filter q = (List.range i).filter q ++ i :: tail := by
  obtain ⟨k, rfl⟩ : ∃ k, n = i + (k + 1) := ⟨n - i - 1, by omega⟩
  rw [List.range_add, List.filter_append, List.range_succ_eq_map, List.map_cons, List.filter_cons, Nat.add_zero,
    if_pos hq]
  exact ⟨_, rfl⟩

theorem permForIndices_unlisted (n : Nat) (indices : List Nat) (hnd : indices.Nodup) (hb : ∀ i ∈ indices, i < n) :
    ∃ p, permForIndices n indices = ok p ∧ p.Valid ∧ p.dim = n ∧
      (∀ k (h : k < indices.length), p.fn indices[k] = k) ∧
      ∀ i, i < n → i ∉ indices →
        p.fn i = indices.length + ((List.range i).filter (fun k => !indices.contains k)).length := by
  obtain ⟨p, h1, h2, h3, h4⟩ := permForIndices_spec n indices hnd hb
  refine ⟨p, h1, h2, h3, ?_, ?_⟩
  · intro k hk
    have := h4 k (by rw [List.length_append]; omega)
    rw [List.getElem_append_left hk] at this
    exact this
  · intro i hi hni
    obtain ⟨tail, ht⟩ := filter_range_split n i (fun k => !indices.contains k) hi (by simpa using hni)
    generalize hvec : indices ++ (List.range n).filter (fun i => !indices.contains i) = vec at h4
    generalize hpre : (List.range i).filter (fun k => !indices.contains k) = pre at ht
    have hget : vec[indices.length + pre.length]? = some i := by
      rw [← hvec, ht, List.getElem?_append_right (by omega), Nat.add_sub_cancel_left,
        List.getElem?_append_right (by omega), Nat.sub_self]
      rfl
    obtain ⟨hlt, e⟩ := List.getElem?_eq_some_iff.mp hget
    have := h4 _ hlt
    rw [e] at this
    exact this

theorem filter_range_length_lt (i j : Nat) (q : Nat → Bool) (hij : i < j) (hq : q i = true) :
    ((List.range i).filter q).length < ((List.range j).filter q).length := by
  obtain ⟨tail, ht⟩ := filter_range_split j i q hij hq
  rw [ht, List.length_append, List.length_cons]; omega


/-! ### sums over selected stored triplets -/

/-- a sum over the stored triplets selected by a predicate on the position is the sum of the selected entries -/
theorem filter_sum_eq_double (ts : List (Trip R)) (m n : Nat) (P : Nat → Nat → Prop) [∀ i j, Decidable (P i j)]
    (hb : ∀ t ∈ ts, t.1 < m ∧ t.2.1 < n) :
    ((ts.filter (fun t => decide (P t.1 t.2.1))).map (·.2.2)).sum
      = ∑ i ∈ Finset.range m, ∑ j ∈ Finset.range n, if P i j then entryT ts i j else 0 := by
  induction ts with
  | nil => simp
  | cons t ts ih =>
    obtain ⟨ti, tj, a⟩ := t
    have hbt := hb (ti, tj, a) (by simp)
    simp only at hbt
    have key : ∀ i j, (if P i j then entryT ((ti, tj, a) :: ts) i j else 0)
        = (if tj = j then (if ti = i then (if P i j then a else 0) else 0) else 0)
          + (if P i j then entryT ts i j else 0) := by
      intro i j
      rw [entryT_cons]
      split_ifs <;> simp_all
    simp_rw [key, Finset.sum_add_distrib]
    rw [← ih (fun t ht => hb t (by simp [ht]))]
    simp only [Finset.sum_ite_eq, Finset.mem_range, hbt.1, hbt.2, if_true]
    by_cases hp : P ti tj
    · simp [List.filter_cons, hp]
    · simp [List.filter_cons, hp]

theorem vfilter_sum_eq_sum (es : List (Nat × R)) (d : Nat) (P : Nat → Prop) [DecidablePred P]
    (hb : ∀ p ∈ es, p.1 < d) :
    ((es.filter (fun p => decide (P p.1))).map (·.2)).sum
      = ∑ i ∈ Finset.range d, if P i then sumAt es i else 0 := by
  induction es with
  | nil => simp
  | cons p es ih =>
    obtain ⟨k, a⟩ := p
    have hbt := hb (k, a) (by simp)
    simp only at hbt
    have key : ∀ i, (if P i then sumAt ((k, a) :: es) i else 0)
        = (if k = i then (if P i then a else 0) else 0) + (if P i then sumAt es i else 0) := by
      intro i
      rw [sumAt_cons]
      split_ifs <;> simp_all
    simp_rw [key, Finset.sum_add_distrib]
    rw [← ih (fun t ht => hb t (by simp [ht]))]
    simp only [Finset.sum_ite_eq, Finset.mem_range, hbt, if_true]
    by_cases hp : P k
    · simp [List.filter_cons, hp]
    · simp [List.filter_cons, hp]

/-! ### the ad-hoc closures handed to `extract` by the driver -/

theorem filter_sum_eq_entryT (ts : List (Trip R)) (P : Trip R → Prop) [DecidablePred P] (i j : Nat)
    (h : ∀ t ∈ ts, P t ↔ t.1 = i ∧ t.2.1 = j) :
    ((ts.filter (fun t => decide (P t))).map (·.2.2)).sum = entryT ts i j := by
  unfold entryT
  apply sum_filter_congr
  intro t ht
  exact decide_eq_beq_and _ _ _ _ (h t ht)

/-- `x0`: `extract` with the swapping closure is the transpose -/
theorem extract_swap_spec (A : SpMat R) (hA : A.WF) :
    ∃ B, A.extract A.ncols A.nrows (fun i j => ok (some (j, i))) = ok B ∧ B.nrows = A.ncols ∧
      B.ncols = A.nrows ∧ B.WF ∧ ∀ i j, B.entry i j = A.entry j i := by
  obtain ⟨B, h1, h2, h3, h4, h5⟩ := extract_spec A A.ncols A.nrows (fun i j => ok (some (j, i)))
    (fun i j => some (j, i)) (fun t ht => rfl)
    (fun t ht x hx => by cases hx; have := hA.trip_bound ht; exact ⟨this.2, this.1⟩)
  refine ⟨B, h1, h2, h3, h4, ?_⟩
  intro i j
  by_cases hij : i < A.ncols ∧ j < A.nrows
  · rw [h5 i j hij.1 hij.2, ← entryT_triplets]
    apply filter_sum_eq_entryT
    intro t ht
    simp only [Option.some.injEq, Prod.mk.injEq]; tauto
  · rw [h4.entry_oob i j (by rw [h2, h3]; exact hij), hA.entry_oob j i (by tauto)]

/-- `x2`: the closure keeping the even rows -/
theorem extract_even_rows_spec (A : SpMat R) (hA : A.WF) :
    ∃ B, A.extract ((A.nrows + 1) / 2) A.ncols (fun i j => ok (if i % 2 = 0 then some (i / 2, j) else none)) = ok B ∧
      B.nrows = (A.nrows + 1) / 2 ∧ B.ncols = A.ncols ∧ B.WF ∧ ∀ i j, B.entry i j = A.entry (2 * i) j := by
  obtain ⟨B, h1, h2, h3, h4, h5⟩ := extract_spec A ((A.nrows + 1) / 2) A.ncols
    (fun i j => ok (if i % 2 = 0 then some (i / 2, j) else none))
    (fun i j => if i % 2 = 0 then some (i / 2, j) else none) (fun t ht => rfl)
    (fun t ht x hx => by
      have := hA.trip_bound ht
      split at hx
      · cases hx; exact ⟨by simp only; omega, this.2⟩
      · cases hx)
  refine ⟨B, h1, h2, h3, h4, ?_⟩
  intro i j
  by_cases hij : i < (A.nrows + 1) / 2 ∧ j < A.ncols
  · rw [h5 i j hij.1 hij.2, ← entryT_triplets]
    apply filter_sum_eq_entryT
    intro t ht
    split
    · simp only [Option.some.injEq, Prod.mk.injEq]; omega
    · simp only [reduceCtorEq, false_iff]; omega
  · rw [h4.entry_oob i j (by rw [h2, h3]; exact hij), hA.entry_oob (2 * i) j (by omega)]

/-- `x1`: the folding closure `(i, j) ↦ (i % m', j % n')` for positive `m'`, `n'` -/
theorem extract_fold_spec (A : SpMat R) (m' n' : Nat) (hm : 0 < m') (hn : 0 < n') :
    ∃ B, A.extract m' n' (fun i j => if m' = 0 ∨ n' = 0 then panic else ok (some (i % m', j % n'))) = ok B ∧
      B.nrows = m' ∧ B.ncols = n' ∧ B.WF ∧ ∀ i' j', i' < m' → j' < n' →
        B.entry i' j' = ((A.triplets.filter (fun t => t.1 % m' = i' ∧ t.2.1 % n' = j')).map (·.2.2)).sum := by
  obtain ⟨B, h1, h2, h3, h4, h5⟩ := extract_spec A m' n'
    (fun i j => if m' = 0 ∨ n' = 0 then panic else ok (some (i % m', j % n')))
    (fun i j => some (i % m', j % n')) (fun t ht => by rw [if_neg (by omega)])
    (fun t ht x hx => by cases hx; exact ⟨Nat.mod_lt _ hm, Nat.mod_lt _ hn⟩)
  refine ⟨B, h1, h2, h3, h4, ?_⟩
  intro i' j' hi hj
  rw [h5 i' j' hi hj]
  congr 2
  apply List.filter_congr
  intro t ht
  simp only [Option.some.injEq, Prod.mk.injEq]

theorem extract_fold_panic (A : SpMat R) (m' n' : Nat) (h0 : m' = 0 ∨ n' = 0) (hne : A.triplets ≠ []) :
    A.extract m' n' (fun i j => if m' = 0 ∨ n' = 0 then panic else ok (some (i % m', j % n'))) = panic := by
  unfold SpMat.extract
  rw [mapTrips_panic _ _ (fun t ht => by rw [if_pos h0]; exact fun e => by cases e)
    (by obtain ⟨t, ht⟩ := List.exists_mem_of_ne_nil _ hne; exact ⟨t, ht, by rw [if_pos h0]⟩)]
  rfl

theorem extract_fold_empty (A : SpMat R) (m' n' : Nat) (hne : A.triplets = []) :
    A.extract m' n' (fun i j => if m' = 0 ∨ n' = 0 then panic else ok (some (i % m', j % n')))
      = ok (cooToCsc m' n' []) := by
  unfold SpMat.extract
  rw [hne]; rfl

/-- `vx2`: the closure keeping the even indices of a vector -/
theorem vextract_even_spec (v : SpVec R) (hv : v.WF) :
    ∃ w, v.extract ((v.dim + 1) / 2) (fun i => ok (if i % 2 = 0 then some (i / 2) else none)) = ok w ∧
      w.dim = (v.dim + 1) / 2 ∧ w.WF ∧ ∀ i, w.entry i = v.entry (2 * i) := by
  obtain ⟨w, h1, h2, h3, h4⟩ := vextract_spec v ((v.dim + 1) / 2)
    (fun i => ok (if i % 2 = 0 then some (i / 2) else none)) (fun i => if i % 2 = 0 then some (i / 2) else none)
    (fun p hp => rfl)
    (fun p hp x hx => by
      have := hv.bound p hp
      split at hx
      · cases hx; omega
      · cases hx)
  refine ⟨w, h1, h2, h3, ?_⟩
  intro i
  by_cases hi : i < (v.dim + 1) / 2
  · rw [h4 i hi]
    unfold SpVec.entry sumAt
    congr 2
    apply List.filter_congr
    intro p hp
    split
    · simp only [Option.some.injEq, beq_iff_eq, decide_eq_true_eq]
      rw [Bool.eq_iff_iff]; simp only [decide_eq_true_eq, beq_iff_eq]; omega
    · simp only [reduceCtorEq, decide_false]
      symm; rw [beq_eq_false_iff_ne]; omega
  · rw [h3.entry_oob i (by rw [h2]; exact hi), hv.entry_oob (2 * i) (by omega)]

/-- `vx1`: the folding closure `i ↦ i % d'` for positive `d'` -/
theorem vextract_fold_spec (v : SpVec R) (d' : Nat) (hd : 0 < d') :
    ∃ w, v.extract d' (fun i => if d' = 0 then panic else ok (some (i % d'))) = ok w ∧
      w.dim = d' ∧ w.WF ∧ ∀ i', i' < d' →
        w.entry i' = ((v.ents.filter (fun p => p.1 % d' = i')).map (·.2)).sum := by
  obtain ⟨w, h1, h2, h3, h4⟩ := vextract_spec v d'
    (fun i => if d' = 0 then panic else ok (some (i % d'))) (fun i => some (i % d'))
    (fun p hp => by rw [if_neg (by omega)])
    (fun p hp x hx => by cases hx; exact Nat.mod_lt _ hd)
  refine ⟨w, h1, h2, h3, ?_⟩
  intro i' hi
  rw [h4 i' hi]
  congr 2
  apply List.filter_congr
  intro p hp
  simp only [Option.some.injEq]

theorem vextract_fold_panic (v : SpVec R) (hne : v.ents ≠ []) :
    v.extract 0 (fun i => if (0 : Nat) = 0 then panic else ok (some (i % 0))) = panic := by
  unfold SpVec.extract
  obtain ⟨p, es, he⟩ := List.exists_cons_of_ne_nil hne
  obtain ⟨i, a⟩ := p
  rw [he, mapEnts]
  rfl

/-- `x1` with its mathematical meaning: entry `(i', j')` of the folded matrix is the sum of all entries of `A`
at positions congruent to `(i', j')` -/
theorem extract_fold_math (A : SpMat R) (hA : A.WF) (m' n' : Nat) (hm : 0 < m') (hn : 0 < n') :
    ∃ B, A.extract m' n' (fun i j => if m' = 0 ∨ n' = 0 then panic else ok (some (i % m', j % n'))) = ok B ∧
      B.nrows = m' ∧ B.ncols = n' ∧ B.WF ∧ ∀ i' j', i' < m' → j' < n' →
        B.entry i' j' = ∑ i ∈ Finset.range A.nrows, ∑ j ∈ Finset.range A.ncols,
          if i % m' = i' ∧ j % n' = j' then A.entry i j else 0 := by
  obtain ⟨B, h1, h2, h3, h4, h5⟩ := extract_fold_spec A m' n' hm hn
  refine ⟨B, h1, h2, h3, h4, ?_⟩
  intro i' j' hi hj
  rw [h5 i' j' hi hj, filter_sum_eq_double A.triplets A.nrows A.ncols (fun i j => i % m' = i' ∧ j % n' = j')
    (fun t ht => hA.trip_bound ht)]
  simp only [entryT_triplets]

/-- `vx1` with its mathematical meaning -/
theorem vextract_fold_math (v : SpVec R) (hv : v.WF) (d' : Nat) (hd : 0 < d') :
    ∃ w, v.extract d' (fun i => if d' = 0 then panic else ok (some (i % d'))) = ok w ∧
      w.dim = d' ∧ w.WF ∧ ∀ i', i' < d' →
        w.entry i' = ∑ i ∈ Finset.range v.dim, if i % d' = i' then v.entry i else 0 := by
  obtain ⟨w, h1, h2, h3, h4⟩ := vextract_fold_spec v d' hd
  refine ⟨w, h1, h2, h3, ?_⟩
  intro i' hi
  rw [h4 i' hi, vfilter_sum_eq_sum v.ents v.dim (fun i => i % d' = i') hv.bound]
  rfl

end Yuiv.C13
