import Yuiv.Model.C05Deloop
import Yuiv.Proofs.C05
import Yuiv.Props.C05
import Yuiv.Props.C08
/-
C05 (engine kernel) — spec definitions and helper lemmas for delooping and Gaussian elimination.

* `dotA d` : the element of `A = R[X]/(X² − hX − t)` a dot stands for (`None ↦ 1`, `X ↦ X`, `Y ↦ Y = X − h`).
* `val e`  : the ring element an (optional) edge stands for (`none ↦ 0`).
* `rowM`, `colM`, `matM` : the matrices of optional edges around a 1×1 pivot (pivot index type `Unit`).
-/
namespace Yuiv.C05.Deloop
open Yuiv Yuiv.C05

section alg
variable {R : Type} [CommRing R]

/-- the element of `A` a dot stands for -/
def dotA (h t : R) : Dot → A h t
  | .none => 1
  | .X => Xd h t
  | .Y => Yd h t

/-- the element a cup with `g` handles and dots `(x, y)` stands for (neck cutting: handle = `X + Y`) -/
def cupA (h t : R) (g x y : Nat) : A h t := Xd h t ^ x * Yd h t ^ y * (Xd h t + Yd h t) ^ g

theorem addDot_A (h t : R) (d : Dot) (p : Nat × Nat) :
    Xd h t ^ (addDot d p).1 * Yd h t ^ (addDot d p).2 = Xd h t ^ p.1 * Yd h t ^ p.2 * dotA h t d := by
  obtain ⟨x, y⟩ := p
  cases d <;> simp only [addDot, dotA, mul_one, pow_succ] <;> ring

theorem addDot_count (d : Dot) (p : Nat × Nat) :
    (addDot d p).1 + (addDot d p).2 = p.1 + p.2 + (addDot d (0, 0)).1 + (addDot d (0, 0)).2 := by
  obtain ⟨x, y⟩ := p
  cases d <;> simp only [addDot] <;> omega

theorem counit_smul (h t r : R) (z : A h t) : counit (r • z) = r * counit z := by
  simp [counit]

theorem counit_add (h t : R) (z w : A h t) : counit (z + w) = counit z + counit w := by
  simp [counit]

/-- every element is `ε(a)·X + ε(aY)·1` -/
theorem reconstruct (h t : R) (a : A h t) :
    a = counit (a * dotA h t copyX.deathDot) • dotA h t copyX.birthDot
      + counit (a * dotA h t copyI.deathDot) • dotA h t copyI.birthDot := by
  ext <;> simp [counit, dotA, copyX, copyI, Xd, Yd, QuadraticAlgebra.re_one, QuadraticAlgebra.im_one]
  ring

/-- on the ideal `X·A` the `X` copy alone reconstructs up to the error term `t·ε(b)` -/
theorem reconstruct_based (h t : R) (b : A h t) :
    Xd h t * b = counit (Xd h t * b * dotA h t copyX.deathDot) • dotA h t copyX.birthDot
      + Cc h t (t * counit b) := by
  ext <;> simp [counit, dotA, copyX, Xd, Cc]

variable [Coef R] [LawfulCoef R]

theorem coord_eq (h t : R) (c : Copy) (g x y : Nat) :
    coord h t c g x y = .ok (counit (cupA h t g x y * dotA h t c.deathDot)) := by
  unfold coord cupA
  simp only []
  rw [evalClosed_spec, addDot_A]
  congr 2; ring

theorem pairing_eq (h t : R) (ci cj : Copy) :
    pairing h t ci cj = .ok (counit (dotA h t ci.birthDot * dotA h t cj.deathDot)) := by
  unfold pairing cupDots
  simp only []
  rw [evalClosed_spec, addDot_A, addDot_A]
  simp

end alg

/-! ### elimination -/

section elim
variable {R : Type} [Ring R]

/-- the ring element an optional edge stands for -/
def val : Option R → R
  | none => 0
  | some r => r

theorem elimEntry_val (isZero : R → Bool) (hz : ∀ r, isZero r = true → r = 0) (ainv : R) (b c d : Option R) :
    val (elimEntry isZero ainv b c d) = val d - val c * ainv * val b := by
  have key : ∀ s : R, val (if isZero s then none else some s) = s := by
    intro s
    by_cases h0 : isZero s = true
    · rw [if_pos h0]; exact (hz s h0).symm
    · rw [if_neg h0]; rfl
  cases b <;> cases c <;> cases d <;> simp only [elimEntry] <;>
    first
      | exact (key _).trans (by simp only [val, zero_sub])
      | simp only [val, mul_zero, zero_mul, sub_zero]

/-- a stored edge is never zero (`add_edge`: `assert!(!f.is_zero())`) -/
def Stored (isZero : R → Bool) : Option R → Prop
  | none => True
  | some r => isZero r = false

theorem elimEntry_stored (isZero : R → Bool) (ainv : R) (b c d : Option R) (hd : Stored isZero d) :
    Stored isZero (elimEntry isZero ainv b c d) := by
  have key : ∀ s : R, Stored isZero (if isZero s then none else some s) := by
    intro s
    by_cases h0 : isZero s = true
    · rw [if_pos h0]; trivial
    · rw [if_neg h0]; simpa [Stored] using h0
  cases b <;> cases c <;> first | exact hd | exact key _

/-! matrices of optional edges around a 1×1 pivot (pivot index type `Unit`) -/

open Matrix in
/-- the pivot as a 1×1 matrix -/
def pivM (a : R) : Matrix Unit Unit R := Matrix.of fun _ _ => a
/-- `b j : l0ⱼ → k1` as a row -/
def rowM {J : Type} (b : J → Option R) : Matrix Unit J R := Matrix.of fun _ j => val (b j)
/-- `c i : k0 → l1ᵢ` as a column -/
def colM {I : Type} (c : I → Option R) : Matrix I Unit R := Matrix.of fun i _ => val (c i)
/-- `d i j : l0ⱼ → l1ᵢ` -/
def matM {I J : Type} (d : I → J → Option R) : Matrix I J R := Matrix.of fun i j => val (d i j)

theorem pivM_mul (a b : R) : pivM a * pivM b = pivM (a * b) := by
  ext i j; simp [pivM, Matrix.mul_apply]

theorem pivM_one : pivM (1 : R) = 1 := by
  ext i j; simp [pivM]

theorem elimFn_matM {I J : Type} (isZero : R → Bool) (hz : ∀ r, isZero r = true → r = 0) (ainv : R)
    (b : J → Option R) (c : I → Option R) (d : I → J → Option R) :
    matM (elimFn isZero ainv b c d) = C08.schurS (pivM ainv) (rowM b) (colM c) (matM d) := by
  ext i j
  simp [matM, elimFn, elimEntry_val isZero hz, C08.schurS, Matrix.mul_apply, pivM, rowM, colM]

end elim

end Yuiv.C05.Deloop
