import Yuiv.Proofs.C18BridgeDefs
import Yuiv.Proofs.C04InvUF
import Yuiv.Proofs.C18Part
import Yuiv.Proofs.C18Resolve
/-
C18Bridge — circles: the reference's (`Yuiv.KhRef` / `Yuiv.C04`) circle count of a resolution state `s` of
`toKh l` is the code model's (`Yuiv.C18`) circle count of the diagram `resolved_by l (bits of s)`, for EVERY
valid link `l` and EVERY state `s`; both are the number of classes of the arc relation of the smoothing.

Outline.  `r = smoothAll l (stateBits (crossingNum l) s)`.
 (a) `statePairs_toKh` : `statePairs (toKh l) s = arcPairs r` (the label pairs joined by the arcs of the
     crossings of `r`; induction over `l`, bit 0 of `s` belongs to the first unresolved crossing);
 (b) `conn_iff`        : for a crossingless `r`: `C18.Conn r x y ↔ C04Inv.Conn (arcPairs r) x y`;
 (c) `labelSet_toKh`   : `labelSet (toKh l) = {x | x ∈ allEdges l}`;
 (d) `transversal_bridge` : a `C18.Transversal` of `r` is a `C04Inv.IsTransversal` of the reference's relation;
 (e) `circleCount_bridge`, `cube_circ_bridge`.
-/
namespace Yuiv.C18Bridge
open Yuiv Yuiv.KhRef

/-- the state `s : Nat` of the reference as the list of bits consumed by `resolved_by` -/
def stateBits (n s : Nat) : List Bool := (List.range n).map (fun k => s.testBit k)

theorem stateBits_zero (s : Nat) : stateBits 0 s = [] := rfl

theorem stateBits_succ (n s : Nat) : stateBits (n + 1) s = s.testBit 0 :: stateBits n (s / 2) := by
  unfold stateBits
  rw [List.range_succ_eq_map, List.map_cons, List.map_map]
  congr 1
  apply List.map_congr_left
  intro k _
  simp [Nat.testBit_succ]

theorem stateBits_length (n s : Nat) : (stateBits n s).length = n := by simp [stateBits]

/-! ### well-formedness, crossing number, labels -/

theorem wf_toKh (l : C18.Link) : C04Inv.WF (toKh l) := by
  intro c hc
  simp only [toKh, List.mem_toArray, List.mem_map] at hc
  obtain ⟨c', _, rfl⟩ := hc
  rfl

theorem isResolved_ctKh (t : C18.CType) : (ctKh t).isResolved = t.isResolved := by
  cases t <;> rfl

theorem crossingNum_toKh (l : C18.Link) : KhRef.crossingNum (toKh l) = C18.crossingNum l := by
  unfold KhRef.crossingNum C18.crossingNum toKh
  simp only [List.filter_toArray', List.size_toArray, List.filter_map, List.length_map]
  congr 2
  funext c
  exact congrArg (!·) (isResolved_ctKh c.ctype)

theorem mem_edges_iff (c : C18.Crossing) (x : Nat) : x ∈ (crossingKh c).e ↔ x ∈ c.edges := by
  simp [crossingKh, C18.Crossing.edges]

theorem labelSet_toKh (l : C18.Link) : C04Inv.labelSet (toKh l) = {x | x ∈ C18.allEdges l} := by
  ext x
  simp only [C04Inv.labelSet, toKh, List.mem_toArray, List.mem_map, Set.mem_ofPred_eq, C18.allEdges,
    List.mem_flatMap]
  constructor
  · rintro ⟨_, ⟨c, hc, rfl⟩, hx⟩
    exact ⟨c, hc, (mem_edges_iff c x).1 hx⟩
  · rintro ⟨c, hc, hx⟩
    exact ⟨_, ⟨c, hc, rfl⟩, (mem_edges_iff c x).2 hx⟩

/-! ### (a) the pair list of the reference is the arc list of the smoothed diagram -/

/-- the label pairs joined by the two arcs of a (resolved) crossing of the code model -/
def arcsC (c : C18.Crossing) : List (Nat × Nat) :=
  match c.ctype with
  | .V => [(c.e0, c.e3), (c.e1, c.e2)]
  | .H => [(c.e0, c.e1), (c.e2, c.e3)]
  | _ => []

def arcPairs (r : C18.Link) : List (Nat × Nat) := r.flatMap arcsC

theorem arcs_crossingKh (c : C18.Crossing) (t : C18.CType) :
    C04Inv.arcs (crossingKh c) (ctKh t) = arcsC { c with ctype := t } := by
  cases t <;> rfl

theorem arcs_smooth (c : C18.Crossing) (b : Bool) :
    C04Inv.arcs (crossingKh c) ((ctKh c.ctype).resolve b) = arcsC (C18.smooth c b) := by
  obtain ⟨t, e0, e1, e2, e3⟩ := c
  cases t <;> cases b <;> rfl

theorem smoothAll_cons_resolved (c : C18.Crossing) (cs : C18.Link) (bs : List Bool) (h : c.isResolved = true) :
    C18.smoothAll (c :: cs) bs = c :: C18.smoothAll cs bs := by
  cases bs with
  | nil => rw [C18.smoothAll_nil, C18.smoothAll_nil]
  | cons b bs => simp only [C18.smoothAll, h, if_true]

theorem pairs_toKh (l : C18.Link) (s : Nat) :
    C04Inv.pairsL (l.map crossingKh) (C04Inv.resTypes (l.map crossingKh) s)
      = arcPairs (C18.smoothAll l (stateBits (C18.crossingNum l) s)) := by
  induction l generalizing s with
  | nil => cases h : stateBits (C18.crossingNum []) s <;> rfl
  | cons c cs ih =>
    rw [C18.crossingNum_cons, List.map_cons]
    unfold C04Inv.resTypes
    have hk : (crossingKh c).ct.isResolved = c.isResolved := isResolved_ctKh c.ctype
    rw [hk]
    cases hc : c.isResolved with
    | true =>
      simp only [if_true, Nat.zero_add]
      rw [smoothAll_cons_resolved c cs _ hc]
      unfold C04Inv.pairsL
      rw [ih s]
      unfold arcPairs
      rw [List.flatMap_cons]
      congr 1
      exact arcs_crossingKh c c.ctype
    | false =>
      simp only [Bool.false_eq_true, if_false]
      rw [Nat.add_comm 1, stateBits_succ]
      unfold C04Inv.pairsL
      rw [ih (s / 2)]
      simp only [C18.smoothAll, hc, Bool.false_eq_true, if_false]
      unfold arcPairs
      rw [List.flatMap_cons]
      congr 1
      exact arcs_smooth c _

theorem statePairs_toKh (l : C18.Link) (s : Nat) :
    C04Inv.statePairs (toKh l) s = arcPairs (C18.smoothAll l (stateBits (C18.crossingNum l) s)) := by
  unfold C04Inv.statePairs toKh
  exact pairs_toKh l s

/-! ### (b) the two connectivity relations of a crossingless diagram coincide -/

theorem resolved_of_crossingNum_zero (r : C18.Link) (h : C18.crossingNum r = 0) :
    ∀ c ∈ r, c.isResolved = true := by
  intro c hc
  unfold C18.crossingNum at h
  rw [List.length_eq_zero_iff, List.filter_eq_nil_iff] at h
  simpa using h c hc

/-- an arc of a crossing joins the two labels of a strand through it -/
theorem joined_of_arc (r : C18.Link) (x y : Nat) (h : (x, y) ∈ arcPairs r) : C18.joined r x y = true := by
  unfold arcPairs at h
  obtain ⟨c, hc, hxy⟩ := List.mem_flatMap.1 h
  rw [C18.joined_iff]
  obtain ⟨t, e0, e1, e2, e3⟩ := c
  cases t <;> simp only [arcsC, List.mem_cons, List.not_mem_nil, or_false, Prod.mk.injEq] at hxy
  · rcases hxy with ⟨rfl, rfl⟩ | ⟨rfl, rfl⟩
    · exact ⟨_, hc, 0, by omega, rfl, rfl⟩
    · exact ⟨_, hc, 1, by omega, rfl, rfl⟩
  · rcases hxy with ⟨rfl, rfl⟩ | ⟨rfl, rfl⟩
    · exact ⟨_, hc, 0, by omega, rfl, rfl⟩
    · exact ⟨_, hc, 2, by omega, rfl, rfl⟩

/-- in a crossingless diagram, a strand through a crossing is one of its arcs (in one of the two directions) -/
theorem arc_of_joined (r : C18.Link) (hr : ∀ c ∈ r, c.isResolved = true) (x y : Nat)
    (h : C18.joined r x y = true) : (x, y) ∈ arcPairs r ∨ (y, x) ∈ arcPairs r := by
  rw [C18.joined_iff] at h
  obtain ⟨c, hc, j, hj, h1, h2⟩ := h
  have hres := hr c hc
  have key : (x, y) ∈ arcsC c ∨ (y, x) ∈ arcsC c := by
    obtain ⟨t, e0, e1, e2, e3⟩ := c
    subst h1 h2
    cases t
    · cases hres
    · cases hres
    · have : j = 0 ∨ j = 1 ∨ j = 2 ∨ j = 3 := by omega
      rcases this with rfl | rfl | rfl | rfl <;> simp [arcsC, C18.Crossing.edge, C18.CType.pass]
    · have : j = 0 ∨ j = 1 ∨ j = 2 ∨ j = 3 := by omega
      rcases this with rfl | rfl | rfl | rfl <;> simp [arcsC, C18.Crossing.edge, C18.CType.pass]
  unfold arcPairs
  rcases key with k | k
  · exact Or.inl (List.mem_flatMap.2 ⟨c, hc, k⟩)
  · exact Or.inr (List.mem_flatMap.2 ⟨c, hc, k⟩)

theorem conn_iff (r : C18.Link) (hr : C18.crossingNum r = 0) (x y : Nat) :
    C18.Conn r x y ↔ C04Inv.Conn (arcPairs r) x y := by
  have hres := resolved_of_crossingNum_zero r hr
  constructor
  · intro h
    induction h with
    | refl => exact C04Inv.Conn.refl _
    | tail _ hj ih =>
      rcases arc_of_joined r hres _ _ hj with k | k
      · exact ih.trans (C04Inv.Conn.of_mem k)
      · exact ih.trans (C04Inv.Conn.of_mem k).symm
  · intro h
    induction h with
    | rel x y hxy => exact C18.Conn.single (joined_of_arc r x y hxy)
    | refl x => exact C18.Conn.refl x
    | symm x y _ ih => exact ih.symm
    | trans x y z _ _ ih1 ih2 => exact ih1.trans ih2

/-! ### (c), (d) transversals -/

theorem allEdges_smoothAll (l : C18.Link) (bs : List Bool) :
    C18.allEdges (C18.smoothAll l bs) = C18.allEdges l := by
  unfold C18.allEdges
  rw [List.flatMap_def, List.flatMap_def, C18.smoothAll_edges]

theorem pairwise_symm_forall {R : Nat → Nat → Prop} (hs : ∀ a b, R a b → R b a) {xs : List Nat}
    (h : xs.Pairwise R) : ∀ a ∈ xs, ∀ b ∈ xs, a ≠ b → R a b := by
  induction h with
  | nil => intro a ha; cases ha
  | cons hx _ ih =>
    intro a ha b hb hne
    rcases List.mem_cons.1 ha with rfl | ha' <;> rcases List.mem_cons.1 hb with rfl | hb'
    · exact absurd rfl hne
    · exact hx b hb'
    · exact hs _ _ (hx a ha')
    · exact ih a ha' b hb' hne

theorem transversal_bridge (l : C18.Link) (s : Nat) (reps : List Nat)
    (hr0 : C18.crossingNum (C18.smoothAll l (stateBits (C18.crossingNum l) s)) = 0)
    (ht : C18.Transversal (C18.smoothAll l (stateBits (C18.crossingNum l) s)) reps) :
    C04Inv.IsTransversal (C04Inv.labelSet (toKh l)) (C04Inv.statePairs (toKh l) s) reps := by
  rw [labelSet_toKh, statePairs_toKh]
  generalize hr : C18.smoothAll l (stateBits (C18.crossingNum l) s) = r at hr0 ht
  have he : C18.allEdges r = C18.allEdges l := by rw [← hr]; exact allEdges_smoothAll l _
  obtain ⟨h1, h2, h3⟩ := ht
  have hpw : reps.Pairwise (fun a b => ¬ C04Inv.Conn (arcPairs r) a b) :=
    h2.imp (fun {a b} hn hc => hn ((conn_iff r hr0 a b).2 hc))
  refine ⟨?_, ?_, ?_, ?_⟩
  · exact hpw.imp (S := fun a b => a ≠ b) (fun {a b} hn (hab : a = b) => hn (hab ▸ C04Inv.Conn.refl a))
  · intro t ht
    rw [Set.mem_ofPred_eq, ← he]
    exact h1 t ht
  · intro t1 ht1 t2 ht2 hc
    by_contra hne
    exact pairwise_symm_forall (fun a b hn hc => hn hc.symm) hpw t1 ht1 t2 ht2 hne hc
  · intro x hx
    rw [Set.mem_ofPred_eq, ← he] at hx
    obtain ⟨t, ht, hc⟩ := h3 x hx
    exact ⟨t, ht, ((conn_iff r hr0 t x).1 hc).symm⟩

/-! ### (e) the bridge theorems -/

theorem circleCount_bridge (l : C18.Link) (hv : C18.Valid l) (s : Nat) :
    ∃ r, C18.resolvedBy l (stateBits (C18.crossingNum l) s) = .ok r ∧
      C18.circleCount r = .ok (C04.circleCount (toKh l) s) ∧
      C04.circleCount (toKh l) s
        = C04Inv.classCount (C04Inv.labelSet (toKh l)) (C04Inv.statePairs (toKh l) s) := by
  have hs := stateBits_length (C18.crossingNum l) s
  obtain ⟨h1, h2⟩ := C18.foldlM_resolveFirst _ l hs
  have hr : C18.resolvedBy l (stateBits (C18.crossingNum l) s)
      = .ok (C18.smoothAll l (stateBits (C18.crossingNum l) s)) := by
    unfold C18.resolvedBy; rw [if_pos hs]; exact h1
  have hv' : C18.Valid (C18.smoothAll l (stateBits (C18.crossingNum l) s)) := by
    unfold C18.Valid; rw [allEdges_smoothAll]; exact hv
  obtain ⟨cs, hc, hchk⟩ := C18.components_check' _ hv'
  have hcc := C18.circleCount_of_check _ cs hc hchk
  have htr := transversal_bridge l s _ h2 (C18.check_transversal _ cs hchk)
  have hlen := C04Inv.classCount_eq_length htr
  have heq := (C04Inv.circleCount_eq (toKh l) (wf_toKh l) s).1
  rw [List.length_map] at hlen
  refine ⟨_, hr, ?_, heq⟩
  rw [hcc, heq, hlen]

theorem mkCube_circ' (l : KhRef.Link) (p : KhRef.Params) (s : Nat) (hs : s < 2 ^ KhRef.crossingNum l) :
    (KhRef.mkCube l p).circ[s]! = KhRef.circles l (KhRef.edgeLabels l) s := by
  show ((Array.range (2 ^ KhRef.crossingNum l)).map (fun s => KhRef.circles l (KhRef.edgeLabels l) s))[s]! = _
  rw [getElem!_pos _ _ (by simpa using hs)]
  simp [Array.getElem_range]

/-- the same through the cube of the reference: the circle list stored at vertex `s` -/
theorem cube_circ_bridge (l : C18.Link) (hv : C18.Valid l) (p : KhRef.Params) (s : Nat)
    (hs : s < 2 ^ C18.crossingNum l) :
    ∃ r, C18.resolvedBy l (stateBits (C18.crossingNum l) s) = .ok r ∧
      C18.circleCount r = .ok ((KhRef.mkCube (toKh l) p).circ[s]!).size := by
  obtain ⟨r, h1, h2, _⟩ := circleCount_bridge l hv s
  refine ⟨r, h1, ?_⟩
  rw [mkCube_circ' _ p s (by rw [crossingNum_toKh]; exact hs)]
  exact h2

/-! ### non-vacuity: trefoil and Hopf link -/

example : C18.Valid (C18.fromPD [[1,4,2,5],[3,6,4,1],[5,2,6,3]]) := by decide
example : C18.Valid (C18.fromPD [[4,1,3,2],[2,3,1,4]]) := by decide
example : stateBits 3 5 = [true, false, true] := by decide
example : (C18.resolvedBy (C18.fromPD [[1,4,2,5],[3,6,4,1],[5,2,6,3]]) (stateBits 3 5)).bind C18.circleCount
    = .ok 1 := by decide
example : (C18.resolvedBy (C18.fromPD [[1,4,2,5],[3,6,4,1],[5,2,6,3]]) (stateBits 3 0)).bind C18.circleCount
    = .ok 3 := by decide
example : (C18.resolvedBy (C18.fromPD [[1,4,2,5],[3,6,4,1],[5,2,6,3]]) (stateBits 3 7)).bind C18.circleCount
    = .ok 2 := by decide
example : (C18.resolvedBy (C18.fromPD [[4,1,3,2],[2,3,1,4]]) (stateBits 2 1)).bind C18.circleCount
    = .ok 1 := by decide
example : (C18.resolvedBy (C18.fromPD [[4,1,3,2],[2,3,1,4]]) (stateBits 2 0)).bind C18.circleCount
    = .ok 2 := by decide
/-- the instance of `circleCount_bridge` at the trefoil, state `0b101` -/
example : ∃ r, C18.resolvedBy (C18.fromPD [[1,4,2,5],[3,6,4,1],[5,2,6,3]]) (stateBits 3 5) = .ok r ∧
    C18.circleCount r = .ok (C04.circleCount (toKh (C18.fromPD [[1,4,2,5],[3,6,4,1],[5,2,6,3]])) 5) :=
  let ⟨r, h1, h2, _⟩ := circleCount_bridge _ (by decide) 5
  ⟨r, h1, h2⟩

end Yuiv.C18Bridge
