import Yuiv.Proofs.KhSnfDefs
import Yuiv.Proofs.C04InvModel
/-
KhSnf (helper): loop-free form of `KhRef.smithInvariants`.
  * `colsOf rows` : the sorted, duplicate-free array of the columns occurring in `rows` (the `cols'` of the code);
  * `denseOf rows`: the dense remainder handed to `denseDiag`;
  * `smithInvariants_eq` : the `Id.run do` tail of `smithInvariants` is `chain (denseDiag (denseOf rows))`;
  * `colsOf_nodup`, `mem_colsOf`, `denseOf_spec` : the dense remainder represents the rows on the occurring columns
    (all other columns of the rows are zero);
  * `filter_index` : positions of the kept elements of `Array.filter` (injective, and everything else fails `p`).
-/

namespace Yuiv.KhSnf
open Yuiv Yuiv.KhRef

/-- the columns occurring in the rows, sorted (the `cols'` of `smithInvariants`) -/
def colsOf (rows : Array Row) : Array Nat :=
  (rows.toList.foldl (fun cols r => r.toList.foldl (fun cols x => C04Inv.addNew cols x.1) cols) #[]).qsort (· < ·)
/-- the dense remainder -/
def denseOf (rows : Array Row) : Array (Array Int) := rows.map (fun r => (colsOf rows).map (fun c => rowGet r c))

/-- the unsorted column list -/
def preCols (rows : Array Row) : Array Nat :=
  rows.toList.foldl (fun cols r => r.toList.foldl (fun cols x => C04Inv.addNew cols x.1) cols) #[]

theorem colsOf_eq (rows : Array Row) : colsOf rows = (preCols rows).qsort (· < ·) := rfl

theorem cols_loop (rows : Array Row) :
    Array.foldl (fun x1 (x2 : Row) =>
        (forIn x2 x1 fun x (s : Array Nat) =>
          if x.1 ∈ s then (pure (ForInStep.yield s) : Id _) else pure (ForInStep.yield (s.push x.1))).run) #[] rows
      = preCols rows := by
  unfold preCols
  rw [← Array.foldl_toList]
  congr 1
  funext xs r
  rw [← Array.forIn_toList, C04Inv.id_forIn_yield (g := fun x s => C04Inv.addNew s x.1)]
  intro a b; unfold C04Inv.addNew; split <;> rfl

/-- loop-free form of `smithInvariants` -/
theorem smithInvariants_eq (rows0 : Array Row) :
    smithInvariants rows0 =
      (let ru := unitLoop ((rows0.filter (fun r => r.size > 0)).size + 1) (rows0.filter (fun r => r.size > 0)) 0
       if ru.1.size == 0 then (ru.2, #[])
       else
         let dg := chain (denseDiag (denseOf ru.1))
         (ru.2 + dg.size, dg.filter (fun x => x != 1))) := by
  unfold smithInvariants
  simp only []
  split
  · rfl
  · simp
    rw [cols_loop]
    exact ⟨rfl, rfl⟩

theorem preCols_aux (rs : List Row) (xs : Array Nat) (h : xs.toList.Nodup) :
    (rs.foldl (fun cols (r : Row) => r.toList.foldl (fun cols x => C04Inv.addNew cols x.1) cols) xs).toList.Nodup ∧
      ∀ z, z ∈ rs.foldl (fun cols (r : Row) => r.toList.foldl (fun cols x => C04Inv.addNew cols x.1) cols) xs ↔
        z ∈ xs ∨ ∃ r ∈ rs, ∃ x ∈ r.toList, x.1 = z := by
  induction rs generalizing xs with
  | nil => simp [h]
  | cons r rs ih =>
    have e : r.toList.foldl (fun cols x => C04Inv.addNew cols x.1) xs = (r.toList.map (·.1)).foldl C04Inv.addNew xs := by
      rw [List.foldl_map]
    obtain ⟨a1, a2⟩ := C04Inv.addNew_list (r.toList.map (·.1)) xs h
    rw [← e] at a1 a2
    obtain ⟨i1, i2⟩ := ih _ a1
    refine ⟨i1, fun z => ?_⟩
    rw [List.foldl_cons, i2, a2]
    simp [or_assoc]

theorem colsOf_nodup (rows : Array Row) : (colsOf rows).toList.Nodup := by
  rw [colsOf_eq]
  have := (C04Inv.qsort_perm (preCols rows) (· < ·)).toList
  rw [this.nodup_iff]
  exact (preCols_aux rows.toList #[] (by simp)).1

theorem mem_colsOf (rows : Array Row) (c : Nat) :
    c ∈ (colsOf rows).toList ↔ ∃ r ∈ rows.toList, ∃ x ∈ r.toList, x.1 = c := by
  rw [colsOf_eq, Array.mem_toList_iff, (C04Inv.qsort_perm (preCols rows) (· < ·)).mem_iff]
  have := (preCols_aux rows.toList #[] (by simp)).2 c
  unfold preCols
  rw [this]; simp

theorem getElem!_mem_toList {α} [Inhabited α] (xs : Array α) (i : Nat) (h : i < xs.size) : xs[i]! ∈ xs.toList := by
  rw [getElem!_pos xs i h]; simp

/-- the dense remainder represents the rows on the occurring columns -/
theorem denseOf_spec (hg : RowGetSpec) (n : Nat) (rows : Array Row) (hok : ∀ r ∈ rows.toList, RowOK n r) :
    Shape (denseOf rows) rows.size (colsOf rows).size ∧
    (∀ c, c < (colsOf rows).size → (colsOf rows)[c]! < n) ∧
    (∀ c c', c < (colsOf rows).size → c' < (colsOf rows).size → (colsOf rows)[c]! = (colsOf rows)[c']! → c = c') ∧
    (∀ k c, k < rows.size → c < (colsOf rows).size → afn (denseOf rows) k c = rval rows[k]! ((colsOf rows)[c]!)) ∧
    (∀ j, (∀ c, c < (colsOf rows).size → (colsOf rows)[c]! ≠ j) → ∀ k, k < rows.size → rval rows[k]! j = 0) := by
  refine ⟨⟨by simp [denseOf], ?_⟩, ?_, ?_, ?_, ?_⟩
  · intro i hi
    have : i < (denseOf rows).size := by simpa [denseOf] using hi
    rw [getElem!_pos _ i this]
    simp [denseOf]
  · intro c hc
    have hm := getElem!_mem_toList _ c hc
    rw [mem_colsOf] at hm
    obtain ⟨r, hr, x, hx, e⟩ := hm
    rw [← e]
    exact (hok r hr).2.2 x hx
  · intro c c' hc hc' e
    rw [getElem!_pos _ c hc, getElem!_pos _ c' hc'] at e
    exact (List.getElem_inj (xs := (colsOf rows).toList) (h₀ := by simpa using hc) (h₁ := by simpa using hc')
      (colsOf_nodup rows)).mp (by simpa using e)
  · intro k c hk hc
    have hk' : k < (denseOf rows).size := by simpa [denseOf] using hk
    unfold afn
    rw [getElem!_pos _ k hk']
    have e1 : (denseOf rows)[k] = (colsOf rows).map (fun c => rowGet rows[k] c) := by simp [denseOf]
    rw [e1]
    have hc' : c < ((colsOf rows).map (fun c => rowGet rows[k] c)).size := by simpa using hc
    rw [getElem!_pos _ c hc']
    simp only [Array.getElem_map]
    rw [getElem!_pos rows k hk, getElem!_pos _ c hc]
    exact hg n _ _ (hok _ (by simp))
  · intro j hj k hk
    unfold rval
    have : rows[k]!.toList.filter (fun x => x.1 == j) = [] := by
      rw [List.filter_eq_nil_iff]
      intro x hx hxj
      have hxj : x.1 = j := by simpa using hxj
      have hm : j ∈ (colsOf rows).toList := by
        rw [mem_colsOf]
        exact ⟨_, getElem!_mem_toList rows k hk, x, hx, hxj⟩
      obtain ⟨c, hc, e⟩ := List.getElem_of_mem hm
      have hc2 : c < (colsOf rows).size := by simpa using hc
      apply hj c hc2
      rw [getElem!_pos _ c hc2]
      simpa using e
    rw [this]; rfl

theorem filter_index_list {α : Type} [Inhabited α] (p : α → Bool) (l : List α) :
    ∃ idx : Nat → Nat, (∀ k, k < (l.filter p).length → idx k < l.length ∧ (l.filter p)[k]! = l[idx k]!) ∧
      (∀ k k', k < (l.filter p).length → k' < (l.filter p).length → idx k = idx k' → k = k') ∧
      (∀ i, i < l.length → (∀ k, k < (l.filter p).length → idx k ≠ i) → p l[i]! = false) := by
  induction l with
  | nil => exact ⟨fun _ => 0, by simp, by simp, by simp⟩
  | cons a l ih =>
    obtain ⟨idx, h1, h2, h3⟩ := ih
    by_cases hp : p a = true
    · refine ⟨fun k => match k with | 0 => 0 | k + 1 => idx k + 1, ?_, ?_, ?_⟩
      · intro k hk
        rw [List.filter_cons_of_pos hp] at hk ⊢
        cases k with
        | zero => simp
        | succ k =>
          have := h1 k (by simpa using hk)
          simp only [List.length_cons, Nat.add_lt_add_iff_right, this.1, true_and]
          simpa using this.2
      · intro k k' hk hk' e
        rw [List.filter_cons_of_pos hp] at hk hk'
        cases k with
        | zero => cases k' with
          | zero => rfl
          | succ k' => simp at e
        | succ k => cases k' with
          | zero => simp at e
          | succ k' =>
            have := h2 k k' (by simpa using hk) (by simpa using hk') (by simpa using e)
            omega
      · intro i hi hne
        rw [List.filter_cons_of_pos hp] at hne
        cases i with
        | zero => exact absurd rfl (hne 0 (by simp))
        | succ i =>
          have := h3 i (by simpa using hi) (fun k hk e => hne (k + 1) (by simpa using hk) (by simp [e]))
          simpa using this
    · have hp' : p a = false := by simpa using hp
      refine ⟨fun k => idx k + 1, ?_, ?_, ?_⟩
      · intro k hk
        rw [List.filter_cons_of_neg hp] at hk ⊢
        have := h1 k hk
        simp only [List.length_cons, Nat.add_lt_add_iff_right, this.1, true_and]
        simpa using this.2
      · intro k k' hk hk' e
        rw [List.filter_cons_of_neg hp] at hk hk'
        exact h2 k k' hk hk' (by simpa using e)
      · intro i hi hne
        rw [List.filter_cons_of_neg hp] at hne
        cases i with
        | zero => simpa using hp'
        | succ i =>
          have := h3 i (by simpa using hi) (fun k hk e => hne k hk (by simp [e]))
          simpa using this

/-- positions of the kept elements of a filtered array -/
theorem filter_index {α : Type} [Inhabited α] (xs : Array α) (p : α → Bool) :
    ∃ idx : Nat → Nat, (∀ k, k < (xs.filter p).size → idx k < xs.size ∧ (xs.filter p)[k]! = xs[idx k]!) ∧
      (∀ k k', k < (xs.filter p).size → k' < (xs.filter p).size → idx k = idx k' → k = k') ∧
      (∀ i, i < xs.size → (∀ k, k < (xs.filter p).size → idx k ≠ i) → p xs[i]! = false) := by
  obtain ⟨idx, h1, h2, h3⟩ := filter_index_list p xs.toList
  have hs : (xs.filter p).size = (xs.toList.filter p).length := by
    rw [← Array.length_toList, Array.toList_filter]
  have hget : ∀ (ys : Array α) (i : Nat), ys[i]! = ys.toList[i]! := by
    intro ys i
    by_cases h : i < ys.size
    · rw [getElem!_pos ys i h, getElem!_pos ys.toList i (by simpa using h)]; simp
    · rw [getElem!_neg ys i h, getElem!_neg ys.toList i (by simpa using h)]
  refine ⟨idx, ?_, ?_, ?_⟩
  · intro k hk
    have := h1 k (hs ▸ hk)
    refine ⟨by simpa using this.1, ?_⟩
    rw [hget, hget, Array.toList_filter]; exact this.2
  · intro k k' hk hk' e
    exact h2 k k' (hs ▸ hk) (hs ▸ hk') e
  · intro i hi hne
    rw [hget]
    exact h3 i (by simpa using hi) (fun k hk => hne k (hs ▸ hk))

end Yuiv.KhSnf
