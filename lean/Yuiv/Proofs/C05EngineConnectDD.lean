import Yuiv.Proofs.C05EngineConnect
import Yuiv.Proofs.C05EngineDeloopDD
import Mathlib.Algebra.BigOperators.Group.Finset.Sigma
/-
C05 (engine) — the product complex `TngComplex::connect` of the MODEL has `d ∘ d = 0` when both factors have:
entries of the product (`connect_ent`) and the tensor-sign computation (`connect_dd`).
-/
namespace Yuiv.C05.Engine
open Yuiv Yuiv.C05 Yuiv.C05.Tng

variable {E : Type} [Ring E]

/-- the horizontal composition with an identity, in ring notation: `tl f w = f ⊗ 1_w` (`D(f, 1)`), `tr g v = 1_v ⊗ g`
(`D(1, g)`); both are additive and multiplicative (functoriality of `⊗` in one argument), and `connect_edges`
multiplies `D(1, g)` by the sign -/
structure RingTensorOps (ops : EdgeOps E) (tl tr : E → Tng → E) : Prop where
  hL : ∀ f w, ops.hcompL f w = .ok (tl f w)
  hR : ∀ neg g v, ops.hcompR neg g v = .ok (if neg = true then -(tr g v) else tr g v)
  zero : ∀ x, ops.isZero x = true → x = 0
  tl_zero : ∀ w, tl 0 w = 0
  tr_zero : ∀ v, tr 0 v = 0
  tl_add : ∀ f g w, tl (f + g) w = tl f w + tl g w
  tr_add : ∀ f g v, tr (f + g) v = tr f v + tr g v
  tl_mul : ∀ f g w, tl (f * g) w = tl f w * tl g w
  tr_mul : ∀ f g v, tr (f * g) v = tr f v * tr g v

/-- the sign `(−1)^{weight(k) − left.deg_shift.0}` applied to a label -/
def sg (left : Cx E) (k : TKey) (z : E) : E := if signNeg left k = true then -z else z

theorem ent_of_mem (ops : EdgeOps E) (cx : Cx E) (hwf : WF ops cx) (a : (TKey × TKey) × E) (ha : a ∈ cx.edges) :
    ent cx a.1.1 a.1.2 = a.2 := by
  unfold ent Cx.edge?
  rw [lookup_of_mem_nodup cx.edges hwf.edges (a.1.1, a.1.2) a.2 ha]
  rfl

/-- **the entries of the product complex** -/
theorem connect_ent (ops : EdgeOps E) (tl tr : E → Tng → E) (hops : RingTensorOps ops tl tr)
    (left right cx' : Cx E) (hl : WF ops left) (hr : WF ops right) (hbl : Bounded left) (hbr : Bounded right)
    (h : left.connect ops right = .ok cx') (k x l y : TKey) (v w : Tng)
    (hx : x ∈ left.verts.map (·.1)) (hy : y ∈ right.verts.map (·.1))
    (hv : left.tng? k = some v) (hw : right.tng? l = some w) :
    ent cx' (k.append l) (x.append y) =
      (if y = l then tl (ent left k x) w else 0) + (if x = k then sg left k (tr (ent right l y) v) else 0) := by
  have hk := tng?_some_mem left k v hv
  have hl' := tng?_some_mem right l w hw
  have hw' := wf_connect ops left right cx' hl hr h
  obtain ⟨_, hinj⟩ := connect_verts ops left right cx' hl hr h
  have hP : ∀ a b, a ∈ left.verts.map (·.1) → b ∈ right.verts.map (·.1) → (a, b) ∈ allPairs left right :=
    fun a b ha hb => mem_allPairs left right hbl hbr a b ha hb
  have hpair : ∀ a b a' b', a ∈ left.verts.map (·.1) → b ∈ right.verts.map (·.1) → a' ∈ left.verts.map (·.1) →
      b' ∈ right.verts.map (·.1) → a.append b = a'.append b' → a = a' ∧ b = b' := by
    intro a b a' b' ha hb ha' hb' he
    have := hinj (a, b) (hP a b ha hb) (a', b') (hP a' b' ha' hb') he
    exact ⟨congrArg Prod.fst this, congrArg Prod.snd this⟩
  rcases he : cx'.edge? (k.append l) (x.append y) with _ | f
  · -- no edge: both candidate labels vanish
    have hnone : ∀ g, ((k.append l, x.append y), g) ∉ cx'.edges := by
      intro g hg
      have := lookup_of_mem_nodup cx'.edges hw'.edges _ g hg
      unfold Cx.edge? at he
      rw [he] at this
      cases this
    have hA : (if y = l then tl (ent left k x) w else 0) = 0 := by
      split
      · rename_i hyl
        subst hyl
        rcases hf : left.edge? k x with _ | f1
        · unfold ent; rw [hf]; exact hops.tl_zero w
        · have ha := hl.edge_mem k x f1 hf
          obtain ⟨g, hg, hmem⟩ := connect_complete_left ops left right cx' hl hbl hbr h _ ha y w hw
          rw [hops.hL] at hg
          cases hg
          have : ent left k x = f1 := by unfold ent; rw [hf]; rfl
          rw [this]
          by_cases hz : ops.isZero (tl f1 w) = true
          · exact hops.zero _ hz
          · exact absurd (hmem (by simpa using hz)) (hnone _)
      · rfl
    have hB : (if x = k then sg left k (tr (ent right l y) v) else 0) = 0 := by
      split
      · rename_i hxk
        subst hxk
        rcases hf : right.edge? l y with _ | g1
        · unfold ent sg; rw [hf]; simp [hops.tr_zero]
        · have ha := hr.edge_mem l y g1 hf
          obtain ⟨g, hg, hmem⟩ := connect_complete_right ops left right cx' hr hbl hbr h _ ha x v hv
          rw [hops.hR] at hg
          cases hg
          have : ent right l y = g1 := by unfold ent; rw [hf]; rfl
          rw [this]
          unfold sg
          by_cases hz : ops.isZero (if signNeg left x = true then -(tr g1 v) else tr g1 v) = true
          · exact hops.zero _ hz
          · exact absurd (hmem (by simpa using hz)) (hnone _)
      · rfl
    have hL : ent cx' (k.append l) (x.append y) = 0 := by unfold ent; rw [he]; rfl
    rw [hL, hA, hB]
    simp
  · -- an edge: it is one of the two kinds
    have hmem := mem_of_lookup cx'.edges _ f he
    obtain ⟨k0, l0, v0, w0, hv0, hw0, hcase⟩ := connect_sound ops left right cx' h _ hmem
    have hk0 := tng?_some_mem left k0 v0 hv0
    have hl0 := tng?_some_mem right l0 w0 hw0
    have hL : ent cx' (k.append l) (x.append y) = f := by unfold ent; rw [he]; rfl
    rw [hL]
    rcases hcase with ⟨a, ha, hak, g, hg, heq⟩ | ⟨a, ha, hak, g, hg, heq⟩
    · obtain ⟨_, ha2⟩ := hl.ends a ha
      have e1 : k.append l = k0.append l0 := congrArg (fun z => z.1.1) heq
      have e2 : x.append y = a.1.2.append l0 := congrArg (fun z => z.1.2) heq
      have e3 : f = g := congrArg (fun z => z.2) heq
      obtain ⟨rfl, rfl⟩ := hpair k l k0 l0 hk hl' hk0 hl0 e1
      obtain ⟨rfl, rfl⟩ := hpair x y a.1.2 l hx hy ha2 hl' e2
      rw [hw] at hw0; cases hw0
      rw [hops.hL] at hg; cases hg
      have hdeg := hl.deg a ha
      have hne : a.1.2 ≠ k := by intro e; rw [e, hak] at hdeg; omega
      have hent : ent left k a.1.2 = a.2 := by rw [← hak]; exact ent_of_mem ops left hl a ha
      simp [hent, hne, e3]
    · obtain ⟨_, ha2⟩ := hr.ends a ha
      have e1 : k.append l = k0.append l0 := congrArg (fun z => z.1.1) heq
      have e2 : x.append y = k0.append a.1.2 := congrArg (fun z => z.1.2) heq
      have e3 : f = g := congrArg (fun z => z.2) heq
      obtain ⟨rfl, rfl⟩ := hpair k l k0 l0 hk hl' hk0 hl0 e1
      obtain ⟨rfl, rfl⟩ := hpair x y k a.1.2 hx hy hk ha2 e2
      rw [hv] at hv0; cases hv0
      rw [hops.hR] at hg; cases hg
      have hdeg := hr.deg a ha
      have hne : a.1.2 ≠ l := by intro e; rw [e, hak] at hdeg; omega
      have hent : ent right l a.1.2 = a.2 := by rw [← hak]; exact ent_of_mem ops right hr a ha
      simp [hent, hne, e3, sg]

theorem tl_sum (ops : EdgeOps E) (tl tr : E → Tng → E) (hops : RingTensorOps ops tl tr) (w : Tng)
    (S : Finset TKey) (f : TKey → E) : tl (∑ x ∈ S, f x) w = ∑ x ∈ S, tl (f x) w := by
  classical
  induction S using Finset.induction_on with
  | empty => simp [hops.tl_zero]
  | insert a S ha ih => rw [Finset.sum_insert ha, Finset.sum_insert ha, hops.tl_add, ih]

theorem tr_sum (ops : EdgeOps E) (tl tr : E → Tng → E) (hops : RingTensorOps ops tl tr) (v : Tng)
    (S : Finset TKey) (f : TKey → E) : tr (∑ x ∈ S, f x) v = ∑ x ∈ S, tr (f x) v := by
  classical
  induction S using Finset.induction_on with
  | empty => simp [hops.tr_zero]
  | insert a S ha ih => rw [Finset.sum_insert ha, Finset.sum_insert ha, hops.tr_add, ih]

/-- the tangle of a vertex (`[]` for a missing key) -/
def tngOf (cx : Cx E) (k : TKey) : Tng := (cx.tng? k).getD []

omit [Ring E] in
theorem tng?_tngOf (cx : Cx E) (k : TKey) (h : k ∈ cx.verts.map (·.1)) : cx.tng? k = some (tngOf cx k) := by
  obtain ⟨t, ht⟩ := mem_tng?_some cx k h
  unfold tngOf; rw [ht]; rfl

/-- **the product complex has `d ∘ d = 0`** -/
theorem connect_dd (ops : EdgeOps E) (tl tr : E → Tng → E) (hops : RingTensorOps ops tl tr)
    (left right cx' : Cx E) (hl : WF ops left) (hr : WF ops right) (hbl : Bounded left) (hbr : Bounded right)
    (hX : ∀ k k' l l' f g, left.edge? k k' = some f → right.edge? l l' = some g →
      tr g (tngOf left k') * tl f (tngOf right l) = tl f (tngOf right l') * tr g (tngOf left k))
    (hd1 : DD left) (hd2 : DD right) (h : left.connect ops right = .ok cx') : DD cx' := by
  classical
  have hw' := wf_connect ops left right cx' hl hr h
  obtain ⟨hverts, hinj⟩ := connect_verts ops left right cx' hl hr h
  have hP : ∀ a b, a ∈ left.verts.map (·.1) → b ∈ right.verts.map (·.1) → (a, b) ∈ allPairs left right :=
    fun a b ha hb => mem_allPairs left right hbl hbr a b ha hb
  have hPinv : ∀ p ∈ allPairs left right, p.1 ∈ left.verts.map (·.1) ∧ p.2 ∈ right.verts.map (·.1) := by
    intro p hp
    unfold allPairs at hp
    simp only [List.mem_flatMap] at hp
    obtain ⟨i, _, hi⟩ := hp
    have := (mem_collectKeys left right i p.1 p.2).1 hi
    exact ⟨this.1, this.2.1⟩
  set S1 := (left.verts.map (·.1)).toFinset with hS1
  set S2 := (right.verts.map (·.1)).toFinset with hS2
  have hS' : (cx'.verts.map (·.1)).toFinset = (S1 ×ˢ S2).image pkey := by
    rw [hverts]
    ext z
    rw [List.mem_toFinset, Finset.mem_image]
    constructor
    · intro hz
      obtain ⟨p, hp, rfl⟩ := List.mem_map.1 hz
      exact ⟨p, Finset.mem_product.2 ⟨List.mem_toFinset.2 (hPinv p hp).1, List.mem_toFinset.2 (hPinv p hp).2⟩, rfl⟩
    · rintro ⟨p, hp, rfl⟩
      obtain ⟨h1, h2⟩ := Finset.mem_product.1 hp
      exact List.mem_map.2 ⟨p, hP p.1 p.2 (List.mem_toFinset.1 h1) (List.mem_toFinset.1 h2), rfl⟩
  intro a c
  unfold ddAt
  -- outside the product vertices everything vanishes
  by_cases ha : a ∈ cx'.verts.map (·.1)
  swap
  · apply Finset.sum_eq_zero
    intro b _
    rw [ent_zero_of_not_key ops cx' hw' a b (.inl ha), mul_zero]
  by_cases hc : c ∈ cx'.verts.map (·.1)
  swap
  · apply Finset.sum_eq_zero
    intro b _
    rw [ent_zero_of_not_key ops cx' hw' b c (.inr hc), zero_mul]
  rw [hverts] at ha hc
  obtain ⟨⟨k, l⟩, hkl, rfl⟩ := List.mem_map.1 ha
  obtain ⟨⟨k'', l''⟩, hkl'', rfl⟩ := List.mem_map.1 hc
  obtain ⟨hk, hl0⟩ := hPinv _ hkl
  obtain ⟨hk'', hl''⟩ := hPinv _ hkl''
  simp only at hk hl0 hk'' hl''
  rw [hS', Finset.sum_image (by
    intro p hp q hq hpq
    simp only [Finset.mem_coe, Finset.mem_product, hS1, hS2, List.mem_toFinset] at hp hq
    exact hinj p (hP _ _ hp.1 hp.2) q (hP _ _ hq.1 hq.2) hpq), Finset.sum_product]
  -- rewrite every entry
  have hterm : ∀ x ∈ S1, ∀ y ∈ S2,
      ent cx' (pkey (x, y)) (pkey (k'', l'')) * ent cx' (pkey (k, l)) (pkey (x, y)) =
        ((if l'' = y then tl (ent left x k'') (tngOf right y) else 0)
          + (if k'' = x then sg left x (tr (ent right y l'') (tngOf left x)) else 0))
        * ((if y = l then tl (ent left k x) (tngOf right l) else 0)
          + (if x = k then sg left k (tr (ent right l y) (tngOf left k)) else 0)) := by
    intro x hx y hy
    simp only [hS1, hS2, List.mem_toFinset] at hx hy
    unfold pkey
    simp only
    rw [connect_ent ops tl tr hops left right cx' hl hr hbl hbr h x k'' y l'' _ _ hk'' hl''
        (tng?_tngOf left x hx) (tng?_tngOf right y hy),
      connect_ent ops tl tr hops left right cx' hl hr hbl hbr h k x l y _ _ hx hy
        (tng?_tngOf left k hk) (tng?_tngOf right l hl0)]
  rw [Finset.sum_congr rfl (fun x hx => Finset.sum_congr rfl (fun y hy => hterm x hx y hy))]
  have hkS : k ∈ S1 := by simp [hS1, hk]
  have hlS : l ∈ S2 := by simp [hS2, hl0]
  have hk''S : k'' ∈ S1 := by simp [hS1, hk'']
  have hl''S : l'' ∈ S2 := by simp [hS2, hl'']
  simp only [add_mul, mul_add, Finset.sum_add_distrib]
  -- the four groups of paths of length two
  have hAA : ∑ x ∈ S1, ∑ y ∈ S2, (if l'' = y then tl (ent left x k'') (tngOf right y) else 0)
      * (if y = l then tl (ent left k x) (tngOf right l) else 0) = 0 := by
    have : ∀ x ∈ S1, ∑ y ∈ S2, (if l'' = y then tl (ent left x k'') (tngOf right y) else 0)
        * (if y = l then tl (ent left k x) (tngOf right l) else 0)
        = if l'' = l then tl (ent left x k'' * ent left k x) (tngOf right l) else 0 := by
      intro x _
      simp only [mul_ite, mul_zero, Finset.sum_ite_eq', hlS, if_true]
      split
      · exact (hops.tl_mul _ _ _).symm
      · simp
    rw [Finset.sum_congr rfl this]
    split
    · rw [← tl_sum ops tl tr hops]
      have := hd1 k k''
      unfold ddAt at this
      rw [this, hops.tl_zero]
    · simp
  have hBB : ∑ x ∈ S1, ∑ y ∈ S2, (if k'' = x then sg left x (tr (ent right y l'') (tngOf left x)) else 0)
      * (if x = k then sg left k (tr (ent right l y) (tngOf left k)) else 0) = 0 := by
    rw [Finset.sum_comm]
    have : ∀ y ∈ S2, ∑ x ∈ S1, (if k'' = x then sg left x (tr (ent right y l'') (tngOf left x)) else 0)
        * (if x = k then sg left k (tr (ent right l y) (tngOf left k)) else 0)
        = if k'' = k then tr (ent right y l'' * ent right l y) (tngOf left k) else 0 := by
      intro y _
      simp only [mul_ite, mul_zero, Finset.sum_ite_eq', hkS, if_true]
      split
      · rw [hops.tr_mul]
        unfold sg
        split <;> simp
      · simp
    rw [Finset.sum_congr rfl this]
    split
    · rw [← tr_sum ops tl tr hops]
      have := hd2 l l''
      unfold ddAt at this
      rw [this, hops.tr_zero]
    · simp
  have hAB : ∑ x ∈ S1, ∑ y ∈ S2, (if l'' = y then tl (ent left x k'') (tngOf right y) else 0)
      * (if x = k then sg left k (tr (ent right l y) (tngOf left k)) else 0)
      = tl (ent left k k'') (tngOf right l'') * sg left k (tr (ent right l l'') (tngOf left k)) := by
    have : ∀ x ∈ S1, ∑ y ∈ S2, (if l'' = y then tl (ent left x k'') (tngOf right y) else 0)
        * (if x = k then sg left k (tr (ent right l y) (tngOf left k)) else 0)
        = if x = k then tl (ent left x k'') (tngOf right l'') * sg left k (tr (ent right l l'') (tngOf left k)) else 0 := by
      intro x _
      by_cases hxk : x = k
      · simp only [hxk, if_true, ite_mul, zero_mul, Finset.sum_ite_eq, hl''S]
      · simp [hxk]
    rw [Finset.sum_congr rfl this, Finset.sum_ite_eq' S1 k, if_pos hkS]
  have hBA : ∑ x ∈ S1, ∑ y ∈ S2, (if k'' = x then sg left x (tr (ent right y l'') (tngOf left x)) else 0)
      * (if y = l then tl (ent left k x) (tngOf right l) else 0)
      = sg left k'' (tr (ent right l l'') (tngOf left k'')) * tl (ent left k k'') (tngOf right l) := by
    have : ∀ x ∈ S1, ∑ y ∈ S2, (if k'' = x then sg left x (tr (ent right y l'') (tngOf left x)) else 0)
        * (if y = l then tl (ent left k x) (tngOf right l) else 0)
        = if k'' = x then sg left x (tr (ent right l l'') (tngOf left x)) * tl (ent left k x) (tngOf right l) else 0 := by
      intro x _
      by_cases hkx : k'' = x
      · simp only [hkx, if_true, mul_ite, mul_zero, Finset.sum_ite_eq', hlS]
      · simp [hkx]
    rw [Finset.sum_congr rfl this, Finset.sum_ite_eq S1 k'', if_pos hk''S]
  rw [hAA, hAB, hBA, hBB]
  -- the two mixed paths cancel: interchange law and opposite signs
  rcases hf : left.edge? k k'' with _ | f
  · have : ent left k k'' = 0 := by unfold ent; rw [hf]; rfl
    simp [this, hops.tl_zero]
  · rcases hg : right.edge? l l'' with _ | g
    · have : ent right l l'' = 0 := by unfold ent; rw [hg]; rfl
      simp [this, hops.tr_zero, sg]
    · have e1 : ent left k k'' = f := by unfold ent; rw [hf]; rfl
      have e2 : ent right l l'' = g := by unfold ent; rw [hg]; rfl
      have hdeg := hl.deg _ (hl.edge_mem k k'' f hf)
      simp only at hdeg
      have hsign : signNeg left k'' = !signNeg left k := by
        unfold signNeg
        rw [hdeg]
        push_cast
        rcases Int.emod_two_eq_zero_or_one ((k.weight : Int) - left.dh) with h0 | h0
        · have : ((k.weight : Int) + 1 - left.dh) % 2 = 1 := by omega
          simp [h0, this]
        · have : ((k.weight : Int) + 1 - left.dh) % 2 = 0 := by omega
          simp [h0, this]
      have hx := hX k k'' l l'' f g hf hg
      rw [e1, e2]
      unfold sg
      rw [hsign]
      by_cases hs : signNeg left k = true
      · simp [hs, hx]
      · simp [hs, hx]

end Yuiv.C05.Engine
