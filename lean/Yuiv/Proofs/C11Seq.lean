import Yuiv.Proofs.C11Par
/-
C11 — the two sequential phases (`find_fl_pivots`, `find_fl_col_pivots`) establish the invariant in which
the parallel phase starts.
-/
namespace Yuiv.C11
open Yuiv Res Std

theorem remainRows_nodup (s : Str) (S : Pivs) : (remainRows s S).Nodup := by
  unfold remainRows
  rw [(List.mergeSort_perm _ _).nodup_iff]
  exact List.nodup_range.sublist List.filter_sublist

theorem remainRows_not_pivot (s : Str) (S : Pivs) : ∀ i ∈ remainRows s S, i ∉ S.map (·.1) := by
  intro i hi
  unfold remainRows at hi
  rw [(List.mergeSort_perm _ _).mem_iff, List.mem_filter] at hi
  have := hi.2
  simp only [Bool.and_eq_true, Bool.not_eq_true'] at this
  intro hmem
  rw [← hasRow_iff] at hmem
  rw [hmem] at this
  simp at this

/-! ### phase 1: pivots at the head (minimal column) of their row -/

structure FlInv (s : Str) (S : Pivs) : Prop where
  rows : (S.map (·.1)).Nodup
  cols : (S.map (·.2)).Nodup
  cand : ∀ p ∈ S, isCand s p.1 p.2 = true
  head : ∀ p ∈ S, ∀ j2 ∈ colsIn s p.1, p.2 ≤ j2

theorem FlInv.pinv {s : Str} {S : Pivs} (h : FlInv s S) : PInv s S := by
  refine ⟨h.rows, h.cols, h.cand, ?_⟩
  obtain ⟨B, hB⟩ := rank_bound (fun j => j) S
  refine ⟨fun j => B - j, ?_⟩
  intro p hp q hq hne hE
  have h1 := h.head p hp q.2 hE
  have h2 : q.2 < B := hB q hq
  have h3 : p.2 ≠ q.2 := hne
  show B - q.2 < B - p.2
  omega

theorem head_le {s : Str} (hwf : s.WF) {i j : Nat} (h : headColIn s i = some j) :
    ∀ j2 ∈ colsIn s i, j ≤ j2 := by
  unfold headColIn at h
  have hp := hwf.1 i
  cases hc : colsIn s i with
  | nil => rw [hc] at h; simp at h
  | cons a l =>
    rw [hc] at h hp
    simp at h
    subst h
    intro j2 hj2
    rcases List.mem_cons.1 hj2 with e | hj2
    · omega
    · exact Nat.le_of_lt ((List.pairwise_cons.1 hp).1 j2 hj2)

theorem flLoop_good (s : Str) (hwf : s.WF) (is : List Nat) : ∀ (S : Pivs), is.Nodup →
    (∀ i ∈ is, i ∉ S.map (·.1)) → FlInv s S → Good (flLoop s is S) (FlInv s) := by
  induction is with
  | nil => intro S _ _ h; exact h
  | cons i is ih =>
    intro S hnd hrows h
    have hnd' := List.nodup_cons.1 hnd
    have hrows' : ∀ i' ∈ is, i' ∉ S.map (·.1) := fun i' hi' => hrows i' (List.mem_cons_of_mem _ hi')
    rw [flLoop]
    cases hh : headColIn s i with
    | none => exact ih S hnd'.2 hrows' h
    | some j =>
      simp only
      by_cases hc : (!hasCol S j && isCand s i j) = true
      · simp only [hc, if_true]
        simp only [Bool.and_eq_true, Bool.not_eq_true'] at hc
        simp only [Pivs.set, hc.1, Bool.false_eq_true, if_false]
        show Good (flLoop s is (S ++ [(i, j)])) _
        apply ih _ hnd'.2
        · intro i' hi'
          simp only [List.map_append, List.mem_append, List.map_cons, List.map_nil, List.mem_singleton, not_or]
          exact ⟨hrows' i' hi', fun e => hnd'.1 (e ▸ hi')⟩
        · have hi : i ∉ S.map (·.1) := hrows i List.mem_cons_self
          have hj : j ∉ S.map (·.2) := hasCol_false_iff.1 hc.1
          refine ⟨?_, ?_, ?_, ?_⟩
          · rw [List.map_append, List.nodup_append]
            refine ⟨h.rows, by simp, ?_⟩
            intro a ha b hb; simp at hb; subst hb
            exact fun e => hi (e ▸ ha)
          · rw [List.map_append, List.nodup_append]
            refine ⟨h.cols, by simp, ?_⟩
            intro a ha b hb; simp at hb; subst hb
            exact fun e => hj (e ▸ ha)
          · intro p hp
            rcases List.mem_append.1 hp with hp | hp
            · exact h.cand p hp
            · simp at hp; subst hp; exact hc.2
          · intro p hp
            rcases List.mem_append.1 hp with hp | hp
            · exact h.head p hp
            · simp at hp; subst hp; exact head_le hwf hh
      · simp only [hc, Bool.false_eq_true, if_false]
        exact ih S hnd'.2 hrows' h

theorem findFlPivots_good (s : Str) (hwf : s.WF) : Good (findFlPivots s []) (PInv s) := by
  unfold findFlPivots
  refine Good.mono (flLoop_good s hwf _ [] (remainRows_nodup s []) (remainRows_not_pivot s []) ?_) (fun _ h => h.pinv)
  exact ⟨by simp, by simp, by simp, by simp⟩

/-! ### phase 2: pivots in columns that no pivot row occupies -/

theorem flColLoop_good (s : Str) (hwf : s.WF) (is : List Nat) : ∀ (occ : List Nat) (S : Pivs), is.Nodup →
    (∀ i ∈ is, i ∉ S.map (·.1)) → PInv s S → (∀ p ∈ S, ∀ j ∈ colsIn s p.1, j ∈ occ) →
    Good (flColLoop s is occ S) (PInv s) := by
  induction is with
  | nil => intro _ S _ _ h _; exact h
  | cons i is ih =>
    intro occ S hnd hrows h hocc
    have hnd' := List.nodup_cons.1 hnd
    have hrows' : ∀ i' ∈ is, i' ∉ S.map (·.1) := fun i' hi' => hrows i' (List.mem_cons_of_mem _ hi')
    rw [flColLoop]
    cases hm : minCol s ((colsIn s i).filter (fun j => !occ.contains j && isCand s i j)) with
    | none => exact ih occ S hnd'.2 hrows' h hocc
    | some j =>
      simp only
      have hj := minCol_mem s _ j hm
      simp only [List.mem_filter, Bool.and_eq_true, Bool.not_eq_true', List.contains_eq_mem,
        decide_eq_false_iff_not] at hj
      obtain ⟨hjrow, hjocc, hjc⟩ := hj
      have hnorow : ∀ p ∈ S, j ∉ colsIn s p.1 := fun p hp hin => hjocc (hocc p hp j hin)
      have hfree : j ∉ S.map (·.2) := by
        intro hmem
        obtain ⟨p, hp, e⟩ := List.mem_map.1 hmem
        have e' : p.2 = j := e
        apply hnorow p hp
        rw [← e']
        exact hwf.2 p.1 p.2 (h.cand p hp)
      have hi : i ∉ S.map (·.1) := hrows i List.mem_cons_self
      simp only [Pivs.set, hasCol_false_iff.2 hfree, Bool.false_eq_true, if_false]
      show Good (flColLoop s is (colsIn s i ++ occ) (S ++ [(i, j)])) _
      apply ih _ _ hnd'.2
      · intro i' hi'
        simp only [List.map_append, List.mem_append, List.map_cons, List.map_nil, List.mem_singleton, not_or]
        exact ⟨hrows' i' hi', fun e => hnd'.1 (e ▸ hi')⟩
      · refine ⟨?_, ?_, ?_, snoc_top_acyclic s S i j h.acyc hfree hnorow⟩
        · rw [List.map_append, List.nodup_append]
          refine ⟨h.rows, by simp, ?_⟩
          intro a ha b hb; simp at hb; subst hb
          exact fun e => hi (e ▸ ha)
        · rw [List.map_append, List.nodup_append]
          refine ⟨h.cols, by simp, ?_⟩
          intro a ha b hb; simp at hb; subst hb
          exact fun e => hfree (e ▸ ha)
        · intro p hp
          rcases List.mem_append.1 hp with hp | hp
          · exact h.cand p hp
          · simp at hp; subst hp; exact hjc
      · intro p hp j' hj'
        rcases List.mem_append.1 hp with hp | hp
        · exact List.mem_append_right _ (hocc p hp j' hj')
        · simp at hp; subst hp; exact List.mem_append_left _ hj'

theorem findFlColPivots_good (s : Str) (hwf : s.WF) (S : Pivs) (h : PInv s S) :
    Good (findFlColPivots s S) (PInv s) := by
  unfold findFlColPivots
  apply flColLoop_good s hwf _ _ S (remainRows_nodup s S) (remainRows_not_pivot s S) h
  intro p hp j hj
  unfold occupiedCols
  exact List.mem_flatMap.2 ⟨p, hp, hj⟩

theorem seqPhases_good (s : Str) (hwf : s.WF) : Good (seqPhases s) (PInv s) := by
  unfold seqPhases
  apply Good.bind (findFlPivots_good s hwf)
  intro S h
  exact findFlColPivots_good s hwf S h

theorem initState_good (s : Str) (hwf : s.WF) : Good (initState s) (GInv s) := by
  unfold initState
  apply Good.bind (seqPhases_good s hwf)
  intro S h
  exact ⟨h, by simp, remainRows_nodup s S, by simp, remainRows_not_pivot s S, by simp⟩

end Yuiv.C11
