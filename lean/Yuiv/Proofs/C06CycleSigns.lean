import Yuiv.Proofs.C18BridgeModel
import Yuiv.Proofs.C06CycleDefs
/-
C06Cycle — `KhRef.crossingSigns` returns one sign per unresolved crossing (helper): the state `oriPresState signs`
of the driver is a vertex of the cube.
-/
namespace Yuiv.C06Cycle
open Yuiv Yuiv.KhRef Yuiv.C18Bridge

theorem outF_size (l : Link) (sg : Array Int) : ∀ (is : List Nat) (out out' : Array Int),
    is.foldlM (fun out i =>
      if l[i]!.ct.isResolved then some out else if sg[i]! == 0 then none else some (out.push sg[i]!)) out = some out' →
    out'.size = out.size + is.countP (fun i => !l[i]!.ct.isResolved) := by
  intro is
  induction is with
  | nil =>
    intro out out' h
    simp only [List.foldlM_nil, Option.pure_def, Option.some.injEq] at h
    subst h; simp
  | cons i is ih =>
    intro out out' h
    rw [List.foldlM_cons] at h
    by_cases hr : l[i]!.ct.isResolved = true
    · simp only [hr, if_true, Option.bind_eq_bind, Option.bind_some] at h
      rw [ih _ _ h]
      simp [hr]
    · have hr' : l[i]!.ct.isResolved = false := by simpa using hr
      by_cases hz : (sg[i]! == 0) = true
      · simp [hr', hz] at h
      · simp only [hr', hz, Bool.false_eq_true, if_false, Option.bind_eq_bind, Option.bind_some] at h
        rw [ih _ _ h]
        simp [hr']
        omega

theorem toList_eq_range_map' (l : Link) : l.toList = (List.range l.size).map (fun i => l[i]!) := by
  apply List.ext_getElem
  · simp
  · intro i h1 h2
    simp at h1
    simp [getElem!_pos, h1]

theorem crossingNum_eq_countP (l : Link) :
    crossingNum l = (List.range l.size).countP (fun i => !l[i]!.ct.isResolved) := by
  unfold crossingNum
  rw [← Array.length_toList, Array.toList_filter, ← List.countP_eq_length_filter]
  conv_lhs => rw [toList_eq_range_map' l]
  rw [List.countP_map]
  rfl

/-- `crossingSigns` returns exactly one sign per unresolved crossing -/
theorem crossingSigns_size (l : Link) (sg : Array Int) (h : crossingSigns l = some sg) :
    sg.size = crossingNum l := by
  rw [crossingSigns_eq] at h
  unfold signsF at h
  simp only at h
  split at h
  · cases h
  · unfold outF at h
    have := outF_size l _ _ _ _ h
    rw [this, crossingNum_eq_countP]
    simp

end Yuiv.C06Cycle
