import Yuiv.Proofs.C09EucGcdx
import Mathlib.NumberTheory.Zsqrtd.GaussianInt
import Mathlib.Tactic.Linarith
/-
C09 — the Gaussian integers as an instance of `LawfulEuc`.

`gaussOps : EOps (ℤ × ℤ)` follows `yui/src/types/qint.rs` (`QuadInt<I, -1>`) and `yui/src/misc/int_ext.rs`:
 * `divRound` — `DivRound for Integer`: nearest integer, ties away from zero, from truncated `/ %`;
 * `/` = `div_round`: `z·conj(w)` divided componentwise by `N(w)`; `%` = `z - w·(z / w)`;
 * `normalizing_unit`: the unit that rotates `z` into the quadrant `re > 0, im ≥ 0`;
 * `is_unit` / `inv`: through the norm;  `gcdx`: the generic `EucRing::gcdx` (`genGcdx`);  `size` = norm.
(The record is NOT part of `Model/C09.lean` / the driver; it lives here so that the abstraction is exercised on a
ring with non-trivial units, where the unit branch of the wrapper `SnfCalc::gcdx` really needs the pivot to be
normalised.)  `φ (a, b) = a + b·i : GaussianInt` (Mathlib).
-/
set_option linter.unusedSimpArgs false
set_option linter.unnecessarySeqFocus false
namespace Yuiv.C09

def divRound (a b : Int) : Int :=
  let quo := a.tdiv b
  let rem := a.tmod b
  let nr := if 0 < rem then -rem else rem
  let nb := if 0 < b then -b else b
  if nr ≤ nb - nr then (if (decide (a < 0)) == (decide (b < 0)) then quo + 1 else quo - 1) else quo

theorem divRound_spec (a b : Int) (hb : 0 < b) : 2 * |a - divRound a b * b| ≤ b := by
  have h1 := Int.tmod_add_mul_tdiv a b
  have h2 : a.tmod b < b := Int.tmod_lt_of_pos a hb
  have h3 : -b < a.tmod b := by
    have := Int.tmod_lt_of_pos (-a) hb
    rw [Int.neg_tmod] at this
    omega
  have h4 : 0 ≤ a → 0 ≤ a.tmod b := fun ha => Int.tmod_nonneg b ha
  have h5 : a < 0 → a.tmod b ≤ 0 := by
    intro ha
    have := Int.tmod_nonneg b (show 0 ≤ -a by omega)
    rw [Int.neg_tmod] at this
    omega
  have key : ∀ X : Int, (2 * (a - X) ≤ b ∧ -b ≤ 2 * (a - X)) → 2 * |a - X| ≤ b := by
    intro X h
    rcases abs_cases (a - X) with h' | h' <;> omega
  unfold divRound
  generalize a.tdiv b = q at *
  generalize a.tmod b = r at *
  have e1 : (q + 1) * b = b * q + b := by ring
  have e2 : (q - 1) * b = b * q - b := by ring
  have e3 : q * b = b * q := by ring
  simp only
  split_ifs <;> apply key <;> simp only [e1, e2, e3] <;>
    (try simp only [beq_iff_eq, decide_eq_decide] at *) <;> omega

def gAdd (z w : Int × Int) : Int × Int := (z.1 + w.1, z.2 + w.2)
def gMul (z w : Int × Int) : Int × Int := (z.1 * w.1 - z.2 * w.2, z.1 * w.2 + z.2 * w.1)
def gNeg (z : Int × Int) : Int × Int := (-z.1, -z.2)
def gNorm (z : Int × Int) : Int := z.1 * z.1 + z.2 * z.2
def gConj (z : Int × Int) : Int × Int := (z.1, -z.2)
def gNormUnit (z : Int × Int) : Int × Int :=
  if 0 < z.1 ∧ 0 ≤ z.2 then (1, 0)
  else if z.1 ≤ 0 ∧ 0 < z.2 then (0, -1)
  else if z.1 < 0 ∧ z.2 ≤ 0 then (-1, 0)
  else if 0 ≤ z.1 ∧ z.2 < 0 then (0, 1)
  else (1, 0)
def gQuo (z w : Int × Int) : Int × Int :=
  (divRound (gMul z (gConj w)).1 (gNorm w), divRound (gMul z (gConj w)).2 (gNorm w))

def gaussPre : EOps (Int × Int) where
  zero := (0, 0)
  one := (1, 0)
  add := gAdd
  mul := gMul
  neg := gNeg
  beq a b := a.1 == b.1 && a.2 == b.2
  normUnit := gNormUnit
  inv z := if gNorm z == 1 || gNorm z == -1 then some (gMul (gNorm z, 0) (gConj z)) else none
  isUnit z := gNorm z == 1 || gNorm z == -1
  quo := gQuo
  rem z w := gAdd z (gNeg (gMul w (gQuo z w)))
  gcdx _ _ := ((0, 0), (0, 0), (0, 0))
  size z := (gNorm z).natAbs

def gaussOps : EOps (Int × Int) := { gaussPre with gcdx := genGcdx gaussPre }

theorem genGcdxLoop_with {α : Type} (e : EOps α) (g : α → α → α × α × α) : ∀ (f : Nat) (x y s0 s1 t0 t1 : α),
    genGcdxLoop { e with gcdx := g } f x y s0 s1 t0 t1 = genGcdxLoop e f x y s0 s1 t0 t1
  | 0, _, _, _, _, _, _ => rfl
  | f + 1, x, y, s0, s1, t0, t1 => by
    rw [genGcdxLoop, genGcdxLoop]
    split
    · rfl
    · exact genGcdxLoop_with e g f _ _ _ _ _ _

theorem genGcdx_with {α : Type} (e : EOps α) (g : α → α → α × α × α) (x y : α) :
    genGcdx { e with gcdx := g } x y = genGcdx e x y := by
  unfold genGcdx
  simp only [genGcdxLoop_with]
  rfl

theorem gauss_gcdx (x y : Int × Int) : gaussOps.gcdx x y = genGcdx gaussOps x y :=
  (genGcdx_with gaussPre _ x y).symm

def gφ (z : Int × Int) : GaussianInt := ⟨z.1, z.2⟩

theorem gφ_inj {a b : Int × Int} (h : gφ a = gφ b) : a = b := by
  have := Zsqrtd.ext_iff.1 h
  exact Prod.ext this.1 this.2

theorem gφ_norm (z : Int × Int) : (gφ z).norm = gNorm z := by
  simp only [Zsqrtd.norm_def, gφ, gNorm]; ring

theorem gNorm_nonneg (z : Int × Int) : 0 ≤ gNorm z := by
  unfold gNorm; nlinarith [mul_self_nonneg z.1, mul_self_nonneg z.2]

theorem gφ_eq_zero (z : Int × Int) : gφ z = 0 ↔ gNorm z = 0 := by
  rw [← gφ_norm, GaussianInt.norm_eq_zero]

@[simp] theorem gauss_add (a b : Int × Int) : gaussOps.toROps.add a b = gAdd a b := rfl
@[simp] theorem gauss_mul (a b : Int × Int) : gaussOps.toROps.mul a b = gMul a b := rfl
@[simp] theorem gauss_neg (a : Int × Int) : gaussOps.toROps.neg a = gNeg a := rfl
@[simp] theorem gauss_zero : gaussOps.toROps.zero = (0, 0) := rfl
@[simp] theorem gauss_one : gaussOps.toROps.one = (1, 0) := rfl
@[simp] theorem gauss_normUnit (a : Int × Int) : gaussOps.normUnit a = gNormUnit a := rfl
@[simp] theorem gauss_quo (a b : Int × Int) : gaussOps.quo a b = gQuo a b := rfl
@[simp] theorem gauss_rem (a b : Int × Int) : gaussOps.rem a b = gAdd a (gNeg (gMul b (gQuo a b))) := rfl
@[simp] theorem gauss_size (a : Int × Int) : gaussOps.size a = (gNorm a).natAbs := rfl

theorem gφ_add (a b : Int × Int) : gφ (gAdd a b) = gφ a + gφ b := by
  ext <;> simp [gφ, gAdd]
theorem gφ_mul (a b : Int × Int) : gφ (gMul a b) = gφ a * gφ b := by
  ext <;> simp [gφ, gMul] <;> ring
theorem gφ_neg (a : Int × Int) : gφ (gNeg a) = - gφ a := by
  ext <;> simp [gφ, gNeg]

theorem lawful_gauss : Lawful gaussOps.toROps gφ where
  zero := rfl
  one := rfl
  add := gφ_add
  mul := gφ_mul
  neg := gφ_neg
  beq a b := by
    show (a.1 == b.1 && a.2 == b.2) = true ↔ _
    rw [Bool.and_eq_true, beq_iff_eq, beq_iff_eq]
    constructor
    · rintro ⟨h1, h2⟩; ext <;> assumption
    · intro h; have := gφ_inj h; subst this; exact ⟨rfl, rfl⟩

theorem lawfulE_gauss : LawfulE gaussOps gφ where
  toLawful := lawful_gauss
  inv_mul u v h := by
    have h' : (if (gNorm u == 1 || gNorm u == -1) = true then some (gMul (gNorm u, 0) (gConj u)) else none) = some v := h
    split at h'
    · rename_i hc
      injection h' with h'; subst h'
      have hN : gNorm u * gNorm u = 1 := by
        simp only [Bool.or_eq_true, beq_iff_eq] at hc
        rcases hc with hc | hc <;> rw [hc] <;> rfl
      rw [← gφ_mul]
      have : gMul u (gMul (gNorm u, 0) (gConj u)) = (1, 0) := by
        unfold gNorm at hN
        simp only [gMul, gConj, gNorm]
        ext
        · simp only; linear_combination hN
        · simp only; ring
      rw [this]; rfl
    · cases h'

/-- the units of ℤ[i] -/
theorem gauss_units (p q : Int) (h : p * p + q * q = 1) :
    (p = 1 ∧ q = 0) ∨ (p = -1 ∧ q = 0) ∨ (p = 0 ∧ q = 1) ∨ (p = 0 ∧ q = -1) := by
  have hp : p * p ≤ 1 := by nlinarith [mul_self_nonneg q]
  have hq : q * q ≤ 1 := by nlinarith [mul_self_nonneg p]
  have hp1 : -1 ≤ p ∧ p ≤ 1 := by constructor <;> nlinarith
  have hq1 : -1 ≤ q ∧ q ≤ 1 := by constructor <;> nlinarith
  obtain ⟨a1, a2⟩ := hp1
  obtain ⟨b1, b2⟩ := hq1
  have hp3 : p = -1 ∨ p = 0 ∨ p = 1 := by omega
  have hq3 : q = -1 ∨ q = 0 ∨ q = 1 := by omega
  rcases hp3 with rfl | rfl | rfl <;> rcases hq3 with rfl | rfl | rfl <;> omega

/-- normalised = first quadrant (or zero) -/
theorem gNormUnit_eq_one (z : Int × Int) : gφ (gNormUnit z) = 1 ↔ (0 < z.1 ∧ 0 ≤ z.2) ∨ (z.1 = 0 ∧ z.2 = 0) := by
  have h1 : (1 : GaussianInt) = gφ (1, 0) := rfl
  rw [h1]
  constructor
  · intro h
    have := gφ_inj h
    unfold gNormUnit at this
    split_ifs at this <;> simp_all <;> omega
  · intro h
    unfold gNormUnit
    rcases h with h | h
    · rw [if_pos h]
    · rw [if_neg (by omega), if_neg (by omega), if_neg (by omega), if_neg (by omega)]

theorem gNorm_pos_of_ne (b : Int × Int) (hb : gφ b ≠ 0) : 0 < gNorm b := by
  have h1 := gNorm_nonneg b
  have h2 : gNorm b ≠ 0 := fun h => hb ((gφ_eq_zero b).2 h)
  omega

/-- the Euclidean property of rounding division in ℤ[i]: `N(a - b·[a/b]) ≤ N(b)/2` -/
theorem gauss_rem_norm (a b : Int × Int) (hN : 0 < gNorm b) :
    2 * gNorm (gAdd a (gNeg (gMul b (gQuo a b)))) ≤ gNorm b := by
  have d1 := divRound_spec (gMul a (gConj b)).1 (gNorm b) hN
  have d2 := divRound_spec (gMul a (gConj b)).2 (gNorm b) hN
  unfold gQuo
  generalize divRound (gMul a (gConj b)).1 (gNorm b) = q1 at *
  generalize divRound (gMul a (gConj b)).2 (gNorm b) = q2 at *
  obtain ⟨a1, a2⟩ := a
  obtain ⟨b1, b2⟩ := b
  simp only [gMul, gConj, gNorm, gAdd, gNeg] at *
  generalize hN' : b1 * b1 + b2 * b2 = N at *
  generalize hx : a1 * b1 - a2 * -b2 - q1 * N = ρ1 at d1
  generalize hy : a1 * -b2 + a2 * b1 - q2 * N = ρ2 at d2
  have key : ((a1 + -(b1 * q1 - b2 * q2)) * (a1 + -(b1 * q1 - b2 * q2)) +
      (a2 + -(b1 * q2 + b2 * q1)) * (a2 + -(b1 * q2 + b2 * q1))) * N = ρ1 * ρ1 + ρ2 * ρ2 := by
    rw [← hx, ← hy, ← hN']; ring
  have s1 : (2 * ρ1) * (2 * ρ1) ≤ N * N := by
    have := abs_le.1 (show |2 * ρ1| ≤ N by rw [abs_mul]; simpa using d1)
    nlinarith
  have s2 : (2 * ρ2) * (2 * ρ2) ≤ N * N := by
    have := abs_le.1 (show |2 * ρ2| ≤ N by rw [abs_mul]; simpa using d2)
    nlinarith
  nlinarith

theorem lawfulEucBase_gauss : LawfulEucBase gaussOps gφ where
  toLawfulE := lawfulE_gauss
  inv_normUnit a := by
    rw [gauss_normUnit]
    unfold gNormUnit
    split_ifs <;> exact ⟨_, rfl⟩
  normUnit_congr a b h := by rw [gφ_inj h]
  norm_mul a := by
    rw [gauss_normUnit, gauss_normUnit, gauss_mul, gNormUnit_eq_one]
    unfold gNormUnit
    split_ifs <;> simp only [gMul] <;> omega
  norm_unique a b ha hb h1 h2 := by
    rw [gauss_normUnit, gNormUnit_eq_one] at ha hb
    obtain ⟨u, hu⟩ := dvd_dvd_iff_associated.1 ⟨h1, h2⟩
    have hn := (Zsqrtd.norm_eq_one_iff' (by decide) (u : GaussianInt)).2 u.isUnit
    rw [Zsqrtd.norm_def] at hn
    have hre := (Zsqrtd.ext_iff.1 hu).1
    have him := (Zsqrtd.ext_iff.1 hu).2
    simp only [gφ, Zsqrtd.re_mul, Zsqrtd.im_mul] at hre him
    generalize (u : GaussianInt).re = p at *
    generalize (u : GaussianInt).im = q at *
    have hcases := gauss_units p q (by linarith)
    have : a = b := by
      rcases hcases with ⟨rfl, rfl⟩ | ⟨rfl, rfl⟩ | ⟨rfl, rfl⟩ | ⟨rfl, rfl⟩ <;> (ext <;> omega)
    rw [this]
  isUnit_iff a := by
    show (gNorm a == 1 || gNorm a == -1) = true ↔ _
    rw [← Zsqrtd.norm_eq_one_iff' (by decide), gφ_norm, Bool.or_eq_true, beq_iff_eq, beq_iff_eq]
    have := gNorm_nonneg a
    omega
  div_rem a b _ := by
    rw [gauss_quo, gauss_rem, gφ_add, gφ_neg, gφ_mul]; ring
  size_rem a b hb := by
    rw [gauss_rem, gauss_size, gauss_size]
    have hN := gNorm_pos_of_ne b hb
    have h1 := gauss_rem_norm a b hN
    have h2 := gNorm_nonneg (gAdd a (gNeg (gMul b (gQuo a b))))
    omega
  size_dvd a b hb h := by
    rw [gauss_size, gauss_size]
    obtain ⟨c, hc⟩ := h
    have hc0 : c ≠ 0 := by
      rintro rfl; rw [mul_zero] at hc; exact hb hc
    have h1 : gNorm b = gNorm a * c.norm := by
      rw [← gφ_norm, ← gφ_norm, hc, Zsqrtd.norm_mul]
    have h2 : 0 < c.norm := GaussianInt.norm_pos.2 hc0
    have h3 := gNorm_nonneg a
    have h4 : gNorm a ≤ gNorm b := by nlinarith
    omega

/-- **the Gaussian integers** (operations of `yui/src/types/qint.rs`, `D = -1`: rounding division, remainder
`z - w·[z/w]`, the quadrant `normalizing_unit`, the generic `EucRing::gcdx`) are a lawful Euclidean record -/
theorem lawfulEuc_gauss : LawfulEuc gaussOps gφ :=
  lawfulEuc_of_genGcdx gaussOps gφ lawfulEucBase_gauss gauss_gcdx

end Yuiv.C09
