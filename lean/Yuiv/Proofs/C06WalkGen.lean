import Yuiv.Proofs.C06WalkClosure
/-
C06Walk — a braid closure that is a KNOT (the walk model finds one component) uses every generator: if `σ_g` did not
occur, no strand would ever pass from the positions `≤ g` to the positions `> g` (helper; property theorems in
`Props/C06Walk.lean`).
-/
namespace Yuiv.C06Walk
open Yuiv Yuiv.KhRef Yuiv.C06Canon Yuiv.C04Inv Yuiv.C06Cycle Yuiv.C06Closure
open Yuiv.C18 (closure closure_bform posLab)
open Yuiv.C18Bridge (toKh)

theorem getElem!_mem_toList (a : Array Nat) (j : Nat) (hj : j < a.size) : a[j]! ∈ a.toList := by
  rw [getElem!_pos a j hj]; exact Array.mem_toList_iff.2 (Array.getElem_mem hj)

theorem every_generator_of_knot (n : Nat) (w : List Int) (l : C18.Link) (hcl : closure n w = .ok l)
    (comps : List Path) (hc : components (toKh l) = .ok comps) (h1 : comps.length = 1) :
    ∀ g, g + 1 < n → ∃ j, j < w.length ∧ (w.getD j 0).natAbs - 1 = g := by
  intro g hg
  by_contra hno
  have hno' : ∀ j, j < w.length → (w.getD j 0).natAbs - 1 ≠ g := fun j hj e => hno ⟨j, hj, e⟩
  obtain ⟨ins, outs, hB⟩ := closure_bform n w l hcl
  have hv := validK_toKh l (C18.closure_valid' n w l hcl)
  obtain ⟨paths, hp, W⟩ := components_spec (toKh l) hv
  rw [hc] at hp
  cases hp
  -- the side of `g` is invariant along strands
  have hpair : ∀ p ∈ passPairs (toKh l) ((toKh l).map (fun c : Crossing => c.ct)), (posLab n w p.1 ≤ g ↔ posLab n w p.2 ≤ g) := by
    intro p hp
    obtain ⟨i, j, hi, hj, rfl⟩ := (mem_passPairs _ _ p).1 hp
    have hx : (toKh l)[i]! ∈ toKh l := by rw [getElem!_pos _ i hi]; exact Array.getElem_mem hi
    obtain ⟨j', hj', e1, e2, e3, e4, _, hl, hpos⟩ := crossing_shape_mem hB _ hx
    have hsz : ((toKh l)[i]!).e.size = 4 := by
      have := congrArg List.length hl; simpa using this
    have m1 := getElem!_mem_toList ((toKh l)[i]!).e j (by omega)
    have m2 := getElem!_mem_toList ((toKh l)[i]!).e ((((toKh l).map (fun c : Crossing => c.ct))[i]!).pass j)
      (by rw [hsz]; exact pass_lt4 _ _ hj)
    rw [hl] at m1 m2
    simp only [List.mem_cons, List.not_mem_nil, or_false] at m1 m2
    have := hno' j' hj'
    simp only
    rcases hpos with ⟨q1, q2, q3, q4⟩ | ⟨q1, q2, q3, q4⟩ <;>
      rcases m1 with h | h | h | h <;> rcases m2 with h' | h' | h' | h' <;> rw [h, h'] <;> omega
  have hconn : ∀ x y, Conn (passPairs (toKh l) ((toKh l).map (fun c : Crossing => c.ct))) x y →
      (posLab n w x ≤ g ↔ posLab n w y ≤ g) := by
    intro x y c
    induction c with
    | rel x y h => exact hpair (x, y) h
    | refl x => exact Iff.rfl
    | symm x y _ ih => exact ih.symm
    | trans x y z _ _ ih1 ih2 => exact ih1.trans ih2
  obtain ⟨_, _, hk⟩ := conn_iff_pos n w l hcl
  obtain ⟨hg1, hg2⟩ := hk g (by omega)
  obtain ⟨hg3, hg4⟩ := hk (g + 1) hg
  obtain ⟨p, hp, hgp⟩ := (W.cover g).1 hg1
  obtain ⟨q, hq, hgq⟩ := (W.cover (g + 1)).1 hg3
  have hpq : q = p := by
    match comps, h1, hp, hq with
    | [r], _, hp, hq =>
      simp only [List.mem_singleton] at hp hq
      rw [hp, hq]
  subst hpq
  have := hconn g (g + 1) ((W.cls q hq g hgp (g + 1)).2 hgq)
  rw [hg2, hg4] at this
  omega

end Yuiv.C06Walk
