import Yuiv.Proofs.C02MirrorCells
import Yuiv.Proofs.C02MirrorSigns
import Yuiv.Proofs.C04InvEx
import Batteries.Tactic.OpenPrivate
import Mathlib.Tactic.FinCases
import Mathlib.LinearAlgebra.Matrix.Determinant.Basic
/-
C02Mirror — concrete data for the non-vacuity `example`s of `Props/C02Mirror.lean`: trefoil and Hopf link.
`KhRef.edgeLabels` sorts with `Array.qsort` (well-founded recursion, not kernel-reducible); its value on the two
diagrams is computed once here by unfolding, after which the cubes are evaluated by `decide +kernel`.
-/
open private Array.qsort.sort from Init.Data.Array.QSort.Basic
open private Array.qpartition.loop from Init.Data.Array.QSort.Basic
namespace Yuiv.C02Mirror.Ex
open Yuiv Yuiv.KhRef Yuiv.C04Inv Yuiv.C02Mirror

/-- `mkCube` (unreduced) with the label array as a parameter -/
def cubeWith (l : Link) (labels : Array Nat) : Cube :=
  { n := crossingNum l, circ := (Array.range (2 ^ crossingNum l)).map (fun s => circles l labels s), base := none }

theorem mkCube_eq_cubeWith (l : Link) (p : Params) (hp : p.reduced = false) :
    mkCube l p = cubeWith l (edgeLabels l) := by
  unfold mkCube cubeWith
  simp [hp]

theorem edgeLabels_trefoil : edgeLabels trefoil = #[1, 2, 3, 4, 5, 6] := by
  rw [edgeLabels_eq]
  have : preLabels trefoil = #[1, 4, 2, 5, 3, 6] := by decide +kernel
  rw [this]
  simp [Array.qsort, Array.qsort.sort, Array.qpartition, Array.qpartition.loop, Vector.swap]

theorem edgeLabels_hopf : edgeLabels hopf = #[1, 2, 3, 4] := by
  rw [edgeLabels_eq]
  have : preLabels hopf = #[4, 1, 3, 2] := by decide +kernel
  rw [this]
  simp [Array.qsort, Array.qsort.sort, Array.qpartition, Array.qpartition.loop, Vector.swap]

theorem edgeLabels_mirror_trefoil : edgeLabels (mirror trefoil) = #[1, 2, 3, 4, 5, 6] := by
  rw [edgeLabels_mirror, edgeLabels_trefoil]

instance (c : Cube) : Decidable (cubeOK c) := by unfold cubeOK; infer_instance
instance (c : Cube) (g : Gen) : Decidable (IsGen c g) := by unfold IsGen; infer_instance

/-- Frobenius parameters of Khovanov homology proper -/
def p0 : Params := ⟨0, 0, false⟩

theorem trefoil_ok : cubeOK (mkCube trefoil p0) := by
  rw [mkCube_eq_cubeWith _ _ rfl, edgeLabels_trefoil]
  decide +kernel

theorem hopf_ok : cubeOK (mkCube hopf p0) := by
  rw [mkCube_eq_cubeWith _ _ rfl, edgeLabels_hopf]
  decide +kernel

theorem trefoil_labels : (edgeLabels trefoil).size ≤ 64 := by rw [edgeLabels_trefoil]; decide
theorem hopf_labels : (edgeLabels hopf).size ≤ 64 := by rw [edgeLabels_hopf]; decide


/-! ### the ℤ/2 of the trefoil: bidegrees `(−3,−7) → (−2,−7)` of the left-handed trefoil (`n₋ = 3`, `q0 = −6`) -/

/-- the generators of bidegree `(−3,−7)`: state `000` (three circles), two circles labelled `X` -/
def tSrc : Fin 3 → Gen := ![⟨0, 3⟩, ⟨0, 5⟩, ⟨0, 6⟩]
/-- the generators of bidegree `(−2,−7)`: states `001`, `010`, `100` (two circles), both labelled `X` -/
def tTgt : Fin 3 → Gen := ![⟨1, 3⟩, ⟨2, 3⟩, ⟨4, 3⟩]
/-- there is no generator of bidegree `(−4,−7)` -/
def tNil : Fin 0 → Gen := ![]

theorem tSrc_gen : ∀ i, IsGen (mkCube trefoil p0) (tSrc i) := by
  rw [mkCube_eq_cubeWith _ _ rfl, edgeLabels_trefoil]
  decide +kernel

theorem tTgt_gen : ∀ i, IsGen (mkCube trefoil p0) (tTgt i) := by
  rw [mkCube_eq_cubeWith _ _ rfl, edgeLabels_trefoil]
  decide +kernel

theorem tSrc_deg : ∀ i, (-3 + (popcount (tSrc i).s 3 : Int) = -3) ∧ (mkCube trefoil p0).qDeg (-6) (tSrc i) = -7 := by
  rw [mkCube_eq_cubeWith _ _ rfl, edgeLabels_trefoil]
  decide +kernel

theorem tTgt_deg : ∀ i, (-3 + (popcount (tTgt i).s 3 : Int) = -2) ∧ (mkCube trefoil p0).qDeg (-6) (tTgt i) = -7 := by
  rw [mkCube_eq_cubeWith _ _ rfl, edgeLabels_trefoil]
  decide +kernel

def tB : Matrix (Fin 3) (Fin 3) ℤ := !![0, 1, 1; 1, 0, 1; 1, 1, 0]

theorem tB_eq : dMatrix (mkCube trefoil p0) p0 tSrc tTgt = tB := by
  have h : ∀ i j : Fin 3, dCoef (mkCube trefoil p0) p0 (tSrc i) (tTgt j) = tB j i := by
    rw [mkCube_eq_cubeWith _ _ rfl, edgeLabels_trefoil]
    decide +kernel
  ext j i
  exact h i j

def tP : Matrix (Fin 3) (Fin 3) ℤ := !![0, 1, 0; 1, 0, 0; 1, 1, -1]
def tQ : Matrix (Fin 3) (Fin 3) ℤ := !![1, 0, -1; 0, 1, -1; 0, 0, 1]

open Yuiv.C03Uct in
/-- Smith form `diag(1, 1, 2)` of the differential `(−3,−7) → (−2,−7)` of the trefoil -/
theorem tB_snf : EquivDiag (dMatrix (mkCube trefoil p0) p0 tSrc tTgt) [1, 1, 2] := by
  rw [tB_eq]
  refine ⟨by decide, tP, tQ, ?_, ?_, ?_⟩
  · have : tP.det = 1 := by simp [tP, Matrix.det_fin_three]
    rw [this]; exact isUnit_one
  · have : tQ.det = 1 := by simp [tQ, Matrix.det_fin_three]
    rw [this]; exact isUnit_one
  · ext i j
    fin_cases i <;> fin_cases j <;>
      simp [tB, tP, tQ, rectDiag, Matrix.mul_apply, Fin.sum_univ_three]

open Yuiv.C03Uct in
theorem tNil_snf : EquivDiag (dMatrix (mkCube trefoil p0) p0 tNil tSrc) [] :=
  ⟨by decide, 1, 1, by simp, by simp, by ext i j; exact j.elim0⟩


/-! ### corner cases: a kink, and a valid but non-planar code -/

/-- the unknot with one kink, `X[1,2,2,1]` -/
def kink : Link := #[⟨.X, #[1, 2, 2, 1]⟩]
/-- a one-crossing code in which every label occurs twice but which is not a planar diagram, `X[1,2,1,2]` -/
def virt : Link := #[⟨.X, #[1, 2, 1, 2]⟩]

theorem edgeLabels_kink : edgeLabels kink = #[1, 2] := by
  rw [edgeLabels_eq]
  have : preLabels kink = #[1, 2] := by decide +kernel
  rw [this]
  simp [Array.qsort, Array.qsort.sort, Array.qpartition, Array.qpartition.loop, Vector.swap]

theorem edgeLabels_virt : edgeLabels virt = #[1, 2] := by
  rw [edgeLabels_eq]
  have : preLabels virt = #[1, 2] := by decide +kernel
  rw [this]
  simp [Array.qsort, Array.qsort.sort, Array.qpartition, Array.qpartition.loop, Vector.swap]

theorem kink_ok : cubeOK (mkCube kink p0) ∧ (edgeLabels kink).size ≤ 64 := by
  rw [mkCube_eq_cubeWith _ _ rfl, edgeLabels_kink]
  decide +kernel

theorem virt_not_ok : ¬ cubeOK (mkCube virt p0) ∧ (mkCube virt p0).d p0 ⟨0, 0⟩ = none := by
  rw [mkCube_eq_cubeWith _ _ rfl, edgeLabels_virt]
  decide +kernel

end Yuiv.C02Mirror.Ex
