import Yuiv.Proofs.KhiSpecLoops
import Mathlib.Data.List.Nodup
/-
KhiSpec — `reduce2` (parity reduction through a hash map) and the index map of the target generators.
-/
namespace Yuiv.KhiSpec
open Yuiv Yuiv.KhRef Yuiv.C19 Yuiv.C06Cycle

instance : LawfulBEq IGen := inferInstance
instance : LawfulHashable IGen := inferInstance

abbrev Cnt := Std.HashMap IGen Nat

def cntStep (cnt : Cnt) (x : IGen) : Cnt := cnt.insert x ((cnt.get? x).getD 0 + 1)

theorem cnt_fold (l : List IGen) (cnt0 : Cnt) (c0 : IGen → Nat)
    (h0 : ∀ y, cnt0[y]? = if c0 y = 0 then none else some (c0 y)) (y : IGen) :
    (l.foldl cntStep cnt0)[y]? = if c0 y + l.count y = 0 then none else some (c0 y + l.count y) := by
  induction l generalizing cnt0 c0 with
  | nil => simpa using h0 y
  | cons x l ih =>
    rw [List.foldl_cons, ih (cntStep cnt0 x) (fun z => c0 z + if x == z then 1 else 0)]
    · rw [List.count_cons]
      have : c0 y + (if (x == y) = true then 1 else 0) + List.count y l =
          c0 y + (List.count y l + if (x == y) = true then 1 else 0) := by omega
      rw [this]
    · intro z
      unfold cntStep
      rw [Std.HashMap.getElem?_insert, Std.HashMap.get?_eq_getElem?]
      by_cases e : (x == z) = true
      · have : x = z := eq_of_beq e
        subst this
        rw [if_pos e, h0 x]
        by_cases hc : c0 x = 0
        · simp [hc]
        · simp [hc]
      · rw [if_neg e, h0 z]
        simp [e]

theorem reduce2_eq (xs : Array IGen) :
    reduce2 xs = Array.map (fun x => x.fst) (Array.filter (fun x => x.2 % 2 == 1)
      (xs.toList.foldl cntStep ∅).toArray) := by
  unfold reduce2
  rw [Array.forIn_pure_yield_eq_foldl]
  simp only [Id.run, pure, ← Array.foldl_toList]
  rfl

/-- membership in `reduce2`: the elements of odd multiplicity -/
theorem mem_reduce2 (xs : Array IGen) (y : IGen) : y ∈ reduce2 xs ↔ xs.toList.count y % 2 = 1 := by
  rw [reduce2_eq, Array.mem_map]
  have hc := fun z => cnt_fold xs.toList ∅ (fun _ => 0) (fun _ => by simp) z
  simp only [Nat.zero_add] at hc
  constructor
  · rintro ⟨⟨z, k⟩, hm, rfl⟩
    rw [Array.mem_filter, Std.HashMap.mem_toArray_iff_getElem?_eq_some, hc z] at hm
    obtain ⟨h1, h2⟩ := hm
    by_cases h0 : List.count z xs.toList = 0
    · simp [h0] at h1
    · simp only [h0, if_false, Option.some.injEq] at h1
      subst h1
      simpa using h2
  · intro h
    refine ⟨(y, xs.toList.count y), ?_, rfl⟩
    rw [Array.mem_filter, Std.HashMap.mem_toArray_iff_getElem?_eq_some, hc y]
    have : ¬ List.count y xs.toList = 0 := by omega
    rw [if_neg this]
    exact ⟨rfl, by simpa using h⟩

theorem reduce2_nodup (xs : Array IGen) : (reduce2 xs).toList.Nodup := by
  rw [reduce2_eq, Array.toList_map, Array.toList_filter, Std.HashMap.toList_toArray]
  have hd := Std.HashMap.distinct_keys_toList (m := xs.toList.foldl cntStep ∅)
  have hd' := hd.filter (fun x : IGen × Nat => x.2 % 2 == 1)
  rw [List.Nodup, List.pairwise_map]
  exact hd'.imp (fun {a b} h e => by rw [e] at h; simp at h)

/-! ### the index map -/

theorem idxOf_eq (tgt : Array IGen) :
    idxOf tgt = (List.range tgt.size).foldl (fun idx j => idx.insert tgt[j]! j) ∅ := by
  unfold idxOf
  rw [Std.Legacy.Range.forIn_eq_forIn_range']
  simp only [Std.Legacy.Range.size, Nat.sub_zero, Nat.add_sub_cancel, Nat.div_one]
  rw [← List.range_eq_range', List.forIn_pure_yield_eq_foldl]
  rfl

theorem idx_fold (tgt : Array IGen) (hnd : tgt.toList.Nodup) (k : Nat) (hk : k ≤ tgt.size) (y : IGen) (j : Nat) :
    ((List.range k).foldl (fun idx j => idx.insert tgt[j]! j) (∅ : Std.HashMap IGen Nat))[y]? = some j ↔
      j < k ∧ tgt[j]! = y := by
  induction k generalizing j with
  | zero => simp
  | succ k ih =>
    rw [List.range_succ, List.foldl_append, List.foldl_cons, List.foldl_nil, Std.HashMap.getElem?_insert]
    by_cases e : (tgt[k]! == y) = true
    · have e' : tgt[k]! = y := eq_of_beq e
      rw [if_pos e]
      constructor
      · intro h; cases h; exact ⟨by omega, e'⟩
      · rintro ⟨hj, hy⟩
        have : j = k := by
          rw [getElem!_pos tgt j (by omega), getElem!_pos tgt k (by omega)] at *
          have := (List.Nodup.getElem_inj_iff hnd (hi := by simpa using (by omega : j < tgt.size))
            (hj := by simpa using (by omega : k < tgt.size))).1 (by simpa using hy.trans e'.symm)
          exact this
        rw [this]
    · rw [if_neg e, ih (by omega)]
      constructor
      · rintro ⟨hj, hy⟩; exact ⟨by omega, hy⟩
      · rintro ⟨hj, hy⟩
        refine ⟨?_, hy⟩
        rcases Nat.lt_succ_iff_lt_or_eq.1 hj with h | h
        · exact h
        · subst h; rw [hy] at e; simp at e

/-- for a duplicate-free target list the index map sends a generator to its position -/
theorem idxOf_spec (tgt : Array IGen) (hnd : tgt.toList.Nodup) (y : IGen) (j : Nat) :
    (idxOf tgt)[y]? = some j ↔ j < tgt.size ∧ tgt[j]! = y := by
  rw [idxOf_eq]
  exact idx_fold tgt hnd tgt.size (Nat.le_refl _) y j

/-! ### the bit rows -/

theorem orFold_testBit (f : IGen → Nat) (l : List IGen) (acc j : Nat) :
    (l.foldl (fun acc y => acc ||| 1 <<< f y) acc).testBit j = (acc.testBit j || l.any (fun y => f y == j)) := by
  induction l generalizing acc with
  | nil => simp
  | cons y l ih =>
    rw [List.foldl_cons, ih, Nat.testBit_or, Nat.one_shiftLeft, Nat.testBit_two_pow, List.any_cons, Bool.or_assoc]
    congr 2

/-- a bit row of the differential: bit `j` is set iff the `j`-th target generator has odd multiplicity in `dI x`,
provided all generators of odd multiplicity are targets -/
theorem row_testBit (tgt : Array IGen) (hnd : tgt.toList.Nodup) (ys : Array IGen)
    (hcl : ∀ y ∈ reduce2 ys, y ∈ tgt) (j : Nat) :
    (Array.foldl (fun acc y => acc ||| 1 <<< ((idxOf tgt).get? y).getD 0) 0 (reduce2 ys)).testBit j = true ↔
      j < tgt.size ∧ ys.toList.count tgt[j]! % 2 = 1 := by
  rw [← Array.foldl_toList, orFold_testBit, Nat.zero_testBit, Bool.false_or, List.any_eq_true]
  constructor
  · rintro ⟨y, hy, e⟩
    have hy' : y ∈ reduce2 ys := Array.mem_toList_iff.1 hy
    obtain ⟨i, hi, rfl⟩ := Array.mem_iff_getElem.1 (hcl y hy')
    have := (idxOf_spec tgt hnd tgt[i] i).2 ⟨hi, getElem!_pos tgt i hi⟩
    rw [Std.HashMap.get?_eq_getElem?, this] at e
    simp only [Option.getD_some, beq_iff_eq] at e
    subst e
    rw [getElem!_pos tgt i hi]
    exact ⟨hi, (mem_reduce2 ys _).1 hy'⟩
  · rintro ⟨hj, hodd⟩
    refine ⟨tgt[j]!, Array.mem_toList_iff.2 ((mem_reduce2 ys _).2 hodd), ?_⟩
    rw [Std.HashMap.get?_eq_getElem?, (idxOf_spec tgt hnd _ j).2 ⟨hj, rfl⟩]
    simp

end Yuiv.KhiSpec
