import Yuiv.Proofs.C18InvPerm
/-
C18Inv — transport lemmas, part B: orientation reversal.

B1  `reverseAll l` (every crossing `[a,b,c,d] ↦ [c,d,a,b]`): the physical slot map is `rslot (i,j) = (i,(j+2)%4)`.
    On an `AllX` code the SAME entrance set `O` is an orientation of `reverseAll l` (every strand is reversed:
    the new entrance set is `fun h => !O (rslot h)`, which equals `O` on slots), and the signs are literally
    the same.
B2  `revComp K l` reverses the components whose labels lie in `K` (a union of components, `CompSet`): crossings
    whose under-strand belongs to `K` are rotated by two.  Slot map `cslot K l`, transported orientation
    `revOri K l O`; exactly the crossings between `K` and the rest flip their sign (`sgnAt_revComp`).

Both are instances of the slot isomorphisms of `C18InvPerm`.
-/
namespace Yuiv.C18
open Yuiv

/-! ### tables -/

theorem pass_rot : ∀ t : CType, ∀ j, j < 4 → (t.pass j + 2) % 4 = t.pass ((j + 2) % 4) := by decide

theorem pass_allX : ∀ t : CType, t.isResolved = false → ∀ j, j < 4 → t.pass j = (j + 2) % 4 := by decide

theorem rot2_rot2 (j : Nat) (hj : j < 4) : ((j + 2) % 4 + 2) % 4 = j := by omega

theorem rot2_lt (j : Nat) : (j + 2) % 4 < 4 := by omega

/-- the sign table at the other end of the over-strand: the opposite sign (`none` for resolved crossings) -/
theorem signAt_flip (t : CType) (o : Bool) :
    signAt t (if !o then 1 else 3) = (signAt t (if o then 1 else 3)).map Sign.flip := by
  cases t <;> cases o <;> rfl

/-! ### crossings rotated by two -/

/-- `[a,b,c,d] ↦ [c,d,a,b]` -/
def Crossing.rot (c : Crossing) : Crossing := ⟨c.ctype, c.e2, c.e3, c.e0, c.e1⟩

theorem Crossing.rot_edge (c : Crossing) (j : Nat) (hj : j < 4) : c.rot.edge j = c.edge ((j + 2) % 4) := by
  match j, hj with
  | 0, _ => rfl
  | 1, _ => rfl
  | 2, _ => rfl
  | 3, _ => rfl

theorem Crossing.rot_edges_perm (c : Crossing) : c.rot.edges.Perm c.edges := by
  show [c.e2, c.e3, c.e0, c.e1].Perm [c.e0, c.e1, c.e2, c.e3]
  have h1 : [c.e2, c.e3, c.e0, c.e1] = [c.e2, c.e3] ++ [c.e0, c.e1] := rfl
  have h2 : [c.e0, c.e1, c.e2, c.e3] = [c.e0, c.e1] ++ [c.e2, c.e3] := rfl
  rw [h1, h2]
  exact List.perm_append_comm

/-- a crossing-wise change that permutes the labels of every crossing preserves the multiset of labels -/
theorem allEdges_map_perm (f : Crossing → Crossing) (hf : ∀ c, (f c).edges.Perm c.edges) :
    ∀ l : Link, (allEdges (l.map f)).Perm (allEdges l)
  | [] => List.Perm.refl _
  | c :: r => by
    show ((f c).edges ++ allEdges (r.map f)).Perm (c.edges ++ allEdges r)
    exact (hf c).append (allEdges_map_perm f hf r)

/-! ### B1: reversing every component -/

/-- the other end of the strand through a genuine crossing -/
def rslot (h : Nat × Nat) : Nat × Nat := (h.1, (h.2 + 2) % 4)

theorem reverseAll_eq (l : Link) : reverseAll l = l.map Crossing.rot := rfl

theorem reverseAll_length (l : Link) : (reverseAll l).length = l.length := List.length_map _

theorem edgeAt_reverseAll (l : Link) (i j : Nat) (hj : j < 4) :
    edgeAt (reverseAll l) i j = edgeAt l i ((j + 2) % 4) := by
  unfold edgeAt
  rw [reverseAll_eq, List.getElem?_map]
  cases l[i]? with
  | none => rfl
  | some c => exact Crossing.rot_edge c j hj

theorem ctypeAt_reverseAll (l : Link) (i : Nat) : ctypeAt (reverseAll l) i = ctypeAt l i := by
  unfold ctypeAt
  rw [reverseAll_eq, List.getElem?_map]
  cases l[i]? with
  | none => rfl
  | some c => rfl

theorem valid_reverseAll {l : Link} (hv : Valid l) : Valid (reverseAll l) :=
  valid_of_perm (allEdges_map_perm _ Crossing.rot_edges_perm l) hv

theorem allX_reverseAll {l : Link} (hx : AllX l) : AllX (reverseAll l) := by
  intro c hc
  rw [reverseAll_eq, List.mem_map] at hc
  obtain ⟨c0, hc0, rfl⟩ := hc
  exact hx c0 hc0

theorem crossingNum_reverseAll (l : Link) : crossingNum (reverseAll l) = crossingNum l := by
  unfold crossingNum
  rw [reverseAll_eq, List.filter_map, List.length_map]
  rfl

theorem thru_reverseAll (l : Link) (h : Nat × Nat) : thru (reverseAll l) h = thru l h := by
  unfold thru; rw [ctypeAt_reverseAll]

/-- on an `AllX` code `thru` is the rotation by two -/
theorem thru_allX {l : Link} (hx : AllX l) (h : Nat × Nat) (hh : HE l h) : thru l h = rslot h := by
  unfold thru rslot
  rw [ctypeAt_eq l _ hh.1, pass_allX _ (hx _ (List.getElem_mem hh.1)) _ hh.2]

theorem rslot_rslot (h : Nat × Nat) (hj : h.2 < 4) : rslot (rslot h) = h := by
  show (h.1, ((h.2 + 2) % 4 + 2) % 4) = h
  rw [rot2_rot2 _ hj]

/-- `rslot` is a slot isomorphism `reverseAll l → l` (any crossing types) -/
theorem slotIso_reverseAll (l : Link) : SlotIso (reverseAll l) l rslot rslot where
  he := by
    intro h hh
    rw [HE, reverseAll_length] at hh
    exact ⟨hh.1, rot2_lt _⟩
  he_inv := by
    intro h hh
    rw [HE, reverseAll_length]
    exact ⟨hh.1, rot2_lt _⟩
  left := fun h hh => rslot_rslot h hh.2
  right := fun h hh => rslot_rslot h hh.2
  lab_eq := fun h hh => (edgeAt_reverseAll l h.1 h.2 hh.2).symm
  thru_eq := by
    intro h hh
    show (h.1, ((ctypeAt (reverseAll l) h.1).pass h.2 + 2) % 4) = (h.1, (ctypeAt l h.1).pass ((h.2 + 2) % 4))
    rw [ctypeAt_reverseAll, pass_rot _ _ hh.2]

/-- `partner` of the reversed code: conjugate by the rotation -/
theorem partner_reverseAll {l : Link} (hv : Valid l) (h : Nat × Nat) (hh : HE (reverseAll l) h) :
    partner (reverseAll l) h = rslot (partner l (rslot h)) := by
  have h1 := (slotIso_reverseAll l).partner_eq hv (valid_reverseAll hv) h hh
  rw [← h1, rslot_rslot _ (partner_spec _ (valid_reverseAll hv) h hh).1.2]

/-- reversing every strand: the SAME entrance set is an orientation of the reversed code -/
theorem orient_reverseAll {l : Link} (hv : Valid l) (hx : AllX l) {O : Nat × Nat → Bool} (hO : Orient l O) :
    Orient (reverseAll l) O := by
  have h1 := (slotIso_reverseAll l).orient hv (valid_reverseAll hv) (fun _ => true) (fun _ _ => rfl)
    (fun _ _ => rfl) hO
  refine Orient.congr (valid_reverseAll hv) ?_ h1
  intro s hs
  have hs' : HE l s := by rw [HE, reverseAll_length] at hs; exact hs
  show O s = !O (rslot s)
  rw [← thru_allX hx s hs', hO.thru_eq s hs', Bool.not_not]

theorem underIn_reverseAll {l : Link} {O : Nat × Nat → Bool} (hU : UnderIn l O) : UnderIn (reverseAll l) O := by
  intro i hi
  rw [reverseAll_length] at hi
  exact hU i hi

theorem determined_reverseAll {l : Link} (hv : Valid l) (hx : AllX l) (hD : Determined l) :
    Determined (reverseAll l) := by
  refine (slotIso_reverseAll l).determined hv (valid_reverseAll hv) ?_ hD
  intro i hi
  refine ⟨i, by rw [reverseAll_length]; exact hi, ?_⟩
  have hh : HE l (i, 0) := ⟨hi, by omega⟩
  rw [← thru_allX hx _ hh, ← thru_reverseAll]
  exact SConn.thru (SConn.refl _)

theorem sgnAt_reverseAll (l : Link) (O : Nat × Nat → Bool) (i : Nat) :
    sgnAt (reverseAll l) O i = sgnAt l O i := by
  unfold sgnAt; rw [ctypeAt_reverseAll]

/-- the signs of the reversed diagram for the same entrance set are literally the same -/
theorem signsOf_reverseAll (l : Link) (O : Nat × Nat → Bool) : signsOf (reverseAll l) O = signsOf l O := by
  unfold signsOf
  rw [reverseAll_length]
  exact filterMap_congr_mem _ _ _ (fun i _ => sgnAt_reverseAll l O i)

/-- B1 in one statement -/
theorem reverseAll_transport {l : Link} (hv : Valid l) (hx : AllX l) {O : Nat × Nat → Bool}
    (hO : Orient l O) (hU : UnderIn l O) :
    Valid (reverseAll l) ∧ AllX (reverseAll l) ∧ Orient (reverseAll l) O ∧ UnderIn (reverseAll l) O ∧
      signsOf (reverseAll l) O = signsOf l O ∧ crossingNum (reverseAll l) = crossingNum l :=
  ⟨valid_reverseAll hv, allX_reverseAll hx, orient_reverseAll hv hx hO, underIn_reverseAll hU,
    signsOf_reverseAll l O, crossingNum_reverseAll l⟩

/-! ### B2: reversing the components in `K` -/

/-- `K` (a set of labels) is a union of components: closed under passing through a crossing -/
def CompSet (l : Link) (K : Nat → Bool) : Prop :=
  ∀ i, i < l.length → ∀ j, j < 4 → K (lab l (thru l (i, j))) = K (lab l (i, j))

instance (l : Link) (K : Nat → Bool) : Decidable (CompSet l K) := by unfold CompSet; infer_instance

/-- crossings whose under-strand belongs to `K` are rotated by two; the others are unchanged (a PD code does
not record the direction of the over-strand) -/
def revComp (K : Nat → Bool) (l : Link) : Link := l.map (fun c => if K c.e0 then c.rot else c)

/-- slot of `revComp K l` ↦ slot of `l` (its own inverse) -/
def cslot (K : Nat → Bool) (l : Link) (h : Nat × Nat) : Nat × Nat :=
  if K (edgeAt l h.1 0) then (h.1, (h.2 + 2) % 4) else h

/-- the transported orientation: reversed on `K` -/
def revOri (K : Nat → Bool) (l : Link) (O : Nat × Nat → Bool) (h : Nat × Nat) : Bool :=
  if K (lab l (cslot K l h)) then !O (cslot K l h) else O (cslot K l h)

section RevComp
variable {K : Nat → Bool} {l : Link}

theorem revComp_length (K : Nat → Bool) (l : Link) : (revComp K l).length = l.length := List.length_map _

theorem revComp_getElem? (K : Nat → Bool) (l : Link) (i : Nat) :
    (revComp K l)[i]? = (l[i]?).map (fun c => if K c.e0 then c.rot else c) := by
  unfold revComp; rw [List.getElem?_map]

theorem ctypeAt_revComp (K : Nat → Bool) (l : Link) (i : Nat) : ctypeAt (revComp K l) i = ctypeAt l i := by
  unfold ctypeAt
  rw [revComp_getElem?]
  cases l[i]? with
  | none => rfl
  | some c =>
    show (if K c.e0 then c.rot else c).ctype = c.ctype
    cases K c.e0 <;> rfl

theorem edgeAt_revComp (K : Nat → Bool) (l : Link) (h : Nat × Nat) (hh : HE l h) :
    edgeAt (revComp K l) h.1 h.2 = lab l (cslot K l h) := by
  obtain ⟨i, j⟩ := h
  have hi : i < l.length := hh.1
  have hj : j < 4 := hh.2
  have hR : lab l (cslot K l (i, j)) = edgeAt l i (if K (edgeAt l i 0) then (j + 2) % 4 else j) := by
    unfold lab cslot
    cases K (edgeAt l i 0) <;> rfl
  have hL : edgeAt (revComp K l) i j = (if K (l[i]'hi).e0 then (l[i]'hi).rot else l[i]'hi).edge j := by
    unfold edgeAt
    rw [revComp_getElem?, List.getElem?_eq_getElem hi]
    rfl
  show edgeAt (revComp K l) i j = _
  rw [hR, hL, edgeAt_eq l i _ hi, edgeAt_eq l i 0 hi]
  generalize l[i]'hi = c
  show _ = c.edge (if K c.e0 then (j + 2) % 4 else j)
  cases K c.e0
  · rfl
  · exact Crossing.rot_edge _ _ hj

theorem cslot_he (K : Nat → Bool) (l : Link) (h : Nat × Nat) (hh : HE l h) : HE l (cslot K l h) := by
  unfold cslot
  cases K (edgeAt l h.1 0)
  · exact hh
  · exact ⟨hh.1, rot2_lt _⟩

theorem cslot_cslot (K : Nat → Bool) (l : Link) (h : Nat × Nat) (hh : HE l h) : cslot K l (cslot K l h) = h := by
  unfold cslot
  cases hk : K (edgeAt l h.1 0)
  · simp only [Bool.false_eq_true, if_false, hk]
  · simp only [if_true, hk]
    rw [rot2_rot2 _ hh.2]

theorem cslot_fst (K : Nat → Bool) (l : Link) (h : Nat × Nat) : (cslot K l h).1 = h.1 := by
  unfold cslot
  cases K (edgeAt l h.1 0) <;> rfl

theorem slotIso_revComp (K : Nat → Bool) (l : Link) : SlotIso (revComp K l) l (cslot K l) (cslot K l) where
  he := by
    intro h hh
    rw [HE, revComp_length] at hh
    exact cslot_he K l h hh
  he_inv := by
    intro h hh
    rw [HE, revComp_length]
    exact cslot_he K l h hh
  left := by
    intro h hh
    rw [HE, revComp_length] at hh
    exact cslot_cslot K l h hh
  right := fun h hh => cslot_cslot K l h hh
  lab_eq := by
    intro h hh
    rw [HE, revComp_length] at hh
    exact (edgeAt_revComp K l h hh).symm
  thru_eq := by
    intro h hh
    rw [HE, revComp_length] at hh
    unfold C18.thru
    rw [ctypeAt_revComp, cslot_fst]
    unfold cslot
    cases K (edgeAt l h.1 0)
    · rfl
    · show (h.1, ((ctypeAt l h.1).pass h.2 + 2) % 4) = (h.1, (ctypeAt l h.1).pass ((h.2 + 2) % 4))
      rw [pass_rot _ _ hh.2]

theorem thru_revComp (K : Nat → Bool) (l : Link) (h : Nat × Nat) (hh : HE (revComp K l) h) :
    cslot K l (thru (revComp K l) h) = thru l (cslot K l h) := (slotIso_revComp K l).thru_eq h hh

theorem valid_revComp (K : Nat → Bool) (hv : Valid l) : Valid (revComp K l) := by
  refine valid_of_perm (allEdges_map_perm _ ?_ l) hv
  intro c
  cases K c.e0
  · exact List.Perm.refl _
  · exact Crossing.rot_edges_perm c

theorem partner_revComp (K : Nat → Bool) (hv : Valid l) (h : Nat × Nat) (hh : HE (revComp K l) h) :
    cslot K l (partner (revComp K l) h) = partner l (cslot K l h) :=
  (slotIso_revComp K l).partner_eq hv (valid_revComp K hv) h hh

theorem allX_revComp (K : Nat → Bool) (hx : AllX l) : AllX (revComp K l) := by
  intro c hc
  unfold revComp at hc
  rw [List.mem_map] at hc
  obtain ⟨c0, hc0, rfl⟩ := hc
  have := hx c0 hc0
  cases K c0.e0
  · exact this
  · exact this

theorem crossingNum_revComp (K : Nat → Bool) (l : Link) : crossingNum (revComp K l) = crossingNum l := by
  unfold crossingNum revComp
  rw [List.filter_map, List.length_map]
  congr 1
  apply List.filter_congr
  intro c _
  show (!(if K c.e0 then c.rot else c).isResolved) = !c.isResolved
  cases K c.e0 <;> rfl

/-- the orientation reversed on `K` is an orientation of `revComp K l` (`ε h = K (label of h)` is constant
along `thru` by `CompSet` and along `partner` because partners carry the same label) -/
theorem revOri_orient (hv : Valid l) (hK : CompSet l K) {O : Nat × Nat → Bool} (hO : Orient l O) :
    Orient (revComp K l) (revOri K l O) := by
  have s := slotIso_revComp K l
  have hv' := valid_revComp K hv
  refine s.orient hv hv' (fun h => K (lab l (cslot K l h))) ?_ ?_ hO
  · intro h hh
    have h1 := s.he h hh
    show K (lab l (cslot K l (thru (revComp K l) h))) = K (lab l (cslot K l h))
    rw [s.thru_eq h hh]
    exact hK _ h1.1 _ h1.2
  · intro h hh
    have h1 := s.he h hh
    show K (lab l (cslot K l (partner (revComp K l) h))) = K (lab l (cslot K l h))
    rw [s.partner_eq hv hv' h hh, (partner_spec l hv _ h1).2.2.1]

theorem revOri_underIn (hx : AllX l) (hK : CompSet l K) {O : Nat × Nat → Bool} (hO : Orient l O)
    (hU : UnderIn l O) : UnderIn (revComp K l) (revOri K l O) := by
  intro i hi
  rw [revComp_length] at hi
  have hh : HE l (i, 0) := ⟨hi, by omega⟩
  have ht : thru l (i, 0) = (i, 2) := thru_allX hx _ hh
  unfold revOri cslot
  cases hk : K (edgeAt l i 0)
  · simp only [Bool.false_eq_true, if_false]
    have : K (lab l (i, 0)) = false := hk
    rw [this]
    exact hU i hi
  · simp only [if_true]
    show (if K (lab l (i, 2)) then !O (i, 2) else O (i, 2)) = true
    have h1 : K (lab l (i, 2)) = true := by
      rw [← ht, hK i hi 0 (by omega)]; exact hk
    rw [h1, ← ht, hO.thru_eq _ hh, hU i hi]
    rfl

theorem determined_revComp (hv : Valid l) (hx : AllX l) (hD : Determined l) : Determined (revComp K l) := by
  refine (slotIso_revComp K l).determined hv (valid_revComp K hv) ?_ hD
  intro i hi
  refine ⟨i, by rw [revComp_length]; exact hi, ?_⟩
  have hh : HE (revComp K l) (i, 0) := ⟨by rw [revComp_length]; exact hi, by omega⟩
  unfold cslot
  cases K (edgeAt l i 0)
  · exact SConn.refl _
  · show SConn (revComp K l) (i, 0) (i, 2)
    have := thru_allX (allX_revComp K hx) (i, 0) hh
    rw [show (i, 2) = rslot (i, 0) from rfl, ← this]
    exact SConn.thru (SConn.refl _)

/-- exactly the crossings between `K` and the other components flip their sign -/
theorem sgnAt_revComp (hx : AllX l) (hK : CompSet l K) {O : Nat × Nat → Bool} (hO : Orient l O)
    (i : Nat) (hi : i < l.length) :
    sgnAt (revComp K l) (revOri K l O) i =
      if (K (edgeAt l i 0) != K (edgeAt l i 1)) then (sgnAt l O i).map Sign.flip else sgnAt l O i := by
  have hh : HE l (i, 1) := ⟨hi, by omega⟩
  have ht : thru l (i, 1) = (i, 3) := thru_allX hx _ hh
  have h3 : K (lab l (i, 3)) = K (edgeAt l i 1) := by rw [← ht]; exact hK i hi 1 (by omega)
  have o3 : O (i, 3) = !O (i, 1) := by rw [← ht]; exact hO.thru_eq _ hh
  unfold sgnAt
  rw [ctypeAt_revComp]
  have key : revOri K l O (i, 1) = if (K (edgeAt l i 0) != K (edgeAt l i 1)) then !O (i, 1) else O (i, 1) := by
    unfold revOri cslot
    cases hk0 : K (edgeAt l i 0)
    · simp only [Bool.false_eq_true, if_false]
      show (if K (edgeAt l i 1) then !O (i, 1) else O (i, 1)) = _
      cases K (edgeAt l i 1) <;> rfl
    · simp only [if_true]
      show (if K (lab l (i, 3)) then !O (i, 3) else O (i, 3)) = _
      rw [h3, o3]
      cases K (edgeAt l i 1) <;> simp
  rw [key]
  cases (K (edgeAt l i 0) != K (edgeAt l i 1))
  · rfl
  · simp only [if_true]
    exact signAt_flip _ _

theorem signsOf_revComp (hx : AllX l) (hK : CompSet l K) {O : Nat × Nat → Bool} (hO : Orient l O) :
    signsOf (revComp K l) (revOri K l O) = (List.range l.length).filterMap (fun i =>
      if (K (edgeAt l i 0) != K (edgeAt l i 1)) then (sgnAt l O i).map Sign.flip else sgnAt l O i) := by
  unfold signsOf
  rw [revComp_length]
  exact filterMap_congr_mem _ _ _ (fun i hi => sgnAt_revComp hx hK hO i (List.mem_range.1 hi))

/-- B2 in one statement -/
theorem revComp_transport (hv : Valid l) (hx : AllX l) (hK : CompSet l K) {O : Nat × Nat → Bool}
    (hO : Orient l O) (hU : UnderIn l O) :
    Valid (revComp K l) ∧ AllX (revComp K l) ∧ Orient (revComp K l) (revOri K l O) ∧
      UnderIn (revComp K l) (revOri K l O) ∧ crossingNum (revComp K l) = crossingNum l ∧
      ∀ i, i < l.length → sgnAt (revComp K l) (revOri K l O) i =
        if (K (edgeAt l i 0) != K (edgeAt l i 1)) then (sgnAt l O i).map Sign.flip else sgnAt l O i :=
  ⟨valid_revComp K hv, allX_revComp K hx, revOri_orient hv hK hO, revOri_underIn hx hK hO hU,
    crossingNum_revComp K l, sgnAt_revComp hx hK hO⟩

end RevComp

/-! ### non-vacuity -/

/-- Hopf link, components (by labels) `{4,3}` and `{2,1}`; `K = {4,3}` -/
def exK : Nat → Bool := fun e => e == 4 || e == 3

example : Valid (fromPD [[4,1,3,2],[2,3,1,4]]) ∧ AllX (fromPD [[4,1,3,2],[2,3,1,4]]) ∧
    CompSet (fromPD [[4,1,3,2],[2,3,1,4]]) exK ∧ Orient (fromPD [[4,1,3,2],[2,3,1,4]]) exOri ∧
    UnderIn (fromPD [[4,1,3,2],[2,3,1,4]]) exOri ∧ DeterminedB (fromPD [[4,1,3,2],[2,3,1,4]]) := by decide

example : revComp exK (fromPD [[4,1,3,2],[2,3,1,4]]) = fromPD [[3,2,4,1],[2,3,1,4]] := by decide

/-- both crossings of the Hopf link are between the two components: both signs flip -/
example : signsOf (fromPD [[4,1,3,2],[2,3,1,4]]) exOri = [.neg, .neg] ∧
    signsOf (revComp exK (fromPD [[4,1,3,2],[2,3,1,4]])) (revOri exK (fromPD [[4,1,3,2],[2,3,1,4]]) exOri)
      = [.pos, .pos] ∧
    crossingSigns (revComp exK (fromPD [[4,1,3,2],[2,3,1,4]])) = .ok [.pos, .pos] := by decide

example : reverseAll (fromPD [[1,4,2,5],[3,6,4,1],[5,2,6,3]]) = fromPD [[2,5,1,4],[4,1,3,6],[6,3,5,2]] := by decide

example : Valid (fromPD [[1,4,2,5],[3,6,4,1],[5,2,6,3]]) ∧ AllX (fromPD [[1,4,2,5],[3,6,4,1],[5,2,6,3]]) ∧
    Orient (fromPD [[1,4,2,5],[3,6,4,1],[5,2,6,3]]) exOri ∧ UnderIn (fromPD [[1,4,2,5],[3,6,4,1],[5,2,6,3]]) exOri ∧
    Orient (reverseAll (fromPD [[1,4,2,5],[3,6,4,1],[5,2,6,3]])) exOri := by decide

end Yuiv.C18
