import Yuiv.Proofs.C06WalkSim
import Yuiv.Proofs.C06WalkSpec
import Yuiv.Proofs.C06WalkOrder
import Yuiv.Proofs.C06WalkSets
/-
C06Walk — assembly: the specification of `C06Canon.componentsOf` / `components` / `seifertCircles` and the driver's
`sets` flag (helper; property theorems in `Props/C06Walk.lean`).
-/
namespace Yuiv.C06Walk
open Yuiv Yuiv.KhRef Yuiv.C06Canon Yuiv.C04Inv Yuiv.C06Cycle Yuiv.Drv.C06

/-- the walk model on a valid diagram, any crossing types: it returns, and what it returns satisfies `WalkSpec` -/
theorem componentsOf_spec (L : Link) (hv : validK L = true) (ts : Array CT) (hts : ts.size = L.size) :
    ∃ paths, componentsOf L ts = .ok paths ∧ WalkSpec L (passPairs L ts) paths := by
  obtain ⟨cs, h1, h2⟩ := c18_components_spec L hv ts
  refine ⟨cs.map convPath, ?_, h2⟩
  rw [componentsOf_sim L (wf_of_validK L hv) ts hts, h1]

theorem components_spec (L : Link) (hv : validK L = true) :
    ∃ paths, components L = .ok paths ∧ WalkSpec L (passPairs L (L.map (·.ct))) paths :=
  componentsOf_spec L hv _ (by simp)

/-- Seifert circles / circles of any state -/
theorem stateCircles_spec (L : Link) (hv : validK L = true) (s : Nat) :
    ∃ paths, componentsOf L (resolvedTypes L s) = .ok paths ∧
      WalkSpec L (statePairs L s ++ (statePairs L s).map (fun p => (p.2, p.1))) paths ∧
      (∀ p ∈ paths, ∀ e ∈ p.edges, ∀ e', Conn (statePairs L s) e e' ↔ e' ∈ p.edges) := by
  obtain ⟨paths, h1, h2⟩ := componentsOf_spec L hv (resolvedTypes L s) (resolvedTypes_size L s)
  refine ⟨paths, h1, h2.resolved (wf_of_validK L hv), ?_⟩
  intro p hp e he e'
  rw [← conn_passPairs_resolved L (wf_of_validK L hv) s]
  exact h2.cls p hp e he e'

/-- THE `sets` FLAG: the sorted walk-model circles of a state are the reference's circle list -/
theorem sets_flag (L : Link) (hv : validK L = true) (s : Nat) (paths : List Path)
    (hp : componentsOf L (resolvedTypes L s) = .ok paths) :
    ((paths.map (fun p => sortNat p.edges)).toArray.qsort (fun x y => x.headD 0 < y.headD 0)).toList =
      (circles L (edgeLabels L) s).toList.map (·.toList) := by
  obtain ⟨paths', h1, h2, h3⟩ := stateCircles_spec L hv s
  rw [hp] at h1
  cases h1
  have hs := circles_sorted L (wf_of_validK L hv) s
  exact sets_of_specs (edgeLabels L) (statePairs L s) paths _ h2.cover h2.nodup (fun p hp => (h2.closed p hp).2) h3
    (circles_spec L (wf_of_validK L hv) s) hs.1 hs.2

end Yuiv.C06Walk
