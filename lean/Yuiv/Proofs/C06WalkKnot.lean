import Yuiv.Proofs.C06WalkSim
import Yuiv.Proofs.C18InvDefs
/-
C06WalkKnot — a valid diagram with a single component is `C18.Determined`: every slot is connected, by moves through
crossings (`thru`) and along edges (`partner`), to slot 0 of some crossing.

  * `sconn_of_conn`                  : label-level connectivity (`C18.Conn`, the relation of the verified component
                                       checker) lifts to slot-level connectivity (`C18.SConn`) on a valid code;
  * `determined_of_single_component` : `C18.components l = .ok [p]` ⇒ `Determined l`;
  * `toC18_toKh`                     : `toC18 (toKh l) (own types) = l`;
  * `determined_of_knot`             : the same for the walk model of the reference (`C06Canon.components (toKh l)`).
-/
namespace Yuiv.C06Walk
open Yuiv Yuiv.KhRef Yuiv.C06Canon

/-- slot-level connectivity from label-level connectivity -/
theorem sconn_of_conn (l : C18.Link) (hv : C18.Valid l) {x y : Nat} (h : C18.Conn l x y) :
    ∀ a b, C18.HE l a → C18.HE l b → C18.lab l a = x → C18.lab l b = y → C18.SConn l a b := by
  induction h with
  | refl =>
    intro a b ha hb hax hby
    rcases C18.same_label l hv a b ha hb (hby.trans hax.symm) with h | h
    · rw [h]; exact C18.SConn.refl a
    · rw [h]; exact C18.SConn.partner (C18.SConn.refl a)
  | @tail b' c' _ hj ih =>
    intro a b ha hb hax hby
    rw [C18.joined_iff] at hj
    obtain ⟨cr, hcr, j, hj4, h1, h2⟩ := hj
    obtain ⟨i, hi, rfl⟩ := List.getElem_of_mem hcr
    have hsb : C18.HE l (i, j) := ⟨hi, hj4⟩
    have hlab : C18.lab l (i, j) = b' := by
      show C18.edgeAt l i j = _
      rw [C18.edgeAt_eq l i j hi]; exact h1
    have s1 := ih a (i, j) ha hsb hax hlab
    have ht := (C18.thru_spec l (i, j) hsb).1
    have hlt : C18.lab l (C18.thru l (i, j)) = c' := by
      show C18.edgeAt l i ((C18.ctypeAt l i).pass j) = _
      rw [C18.edgeAt_eq l i _ hi, C18.ctypeAt_eq l i hi]; exact h2
    rcases C18.same_label l hv (C18.thru l (i, j)) b ht hb (hby.trans hlt.symm) with h | h
    · rw [h]; exact C18.SConn.thru s1
    · rw [h]; exact C18.SConn.partner (C18.SConn.thru s1)

theorem determined_of_single_component (l : C18.Link) (hv : C18.Valid l) (cs : List C18.Path)
    (hc : C18.components l = .ok cs) (h1 : cs.length = 1) : C18.Determined l := by
  obtain ⟨cs', hc', hchk⟩ := C18.components_check' l hv
  rw [hc] at hc'
  cases hc'
  obtain ⟨hcov, _, hcls⟩ := C18.checkComps_sound' l cs hchk
  obtain ⟨p, rfl⟩ := List.length_eq_one_iff.1 h1
  intro i hi j hj
  refine ⟨i, hi, ?_⟩
  have hm : ∀ j, j < 4 → C18.lab l (i, j) ∈ p.edges := by
    intro j hj
    have hin : C18.lab l (i, j) ∈ C18.allEdges l := by
      rw [← C18.slots_snd]
      exact List.mem_map.2 ⟨((i, j), C18.lab l (i, j)), (C18.mem_slots l (i, j) _).2 ⟨⟨hi, hj⟩, rfl⟩, rfl⟩
    obtain ⟨q, hq, he⟩ := (hcov _).1 hin
    rw [List.mem_singleton] at hq
    subst hq; exact he
  have hconn := ((hcls p List.mem_cons_self).2.2 _ (hm 0 (by omega)) _).2 (hm j hj)
  exact sconn_of_conn l hv hconn (i, 0) (i, j) ⟨hi, by omega⟩ ⟨hi, hj⟩ rfl rfl

theorem size_toKh (l : C18.Link) : (C18Bridge.toKh l).size = l.length := by
  simp [C18Bridge.toKh]

theorem ctC18_ctKh (t : C18.CType) : ctC18 (C18Bridge.ctKh t) = t := by cases t <;> rfl

/-- the translation back: the C18 link of `toKh l` with its own types is `l` -/
theorem toC18_toKh (l : C18.Link) : toC18 (C18Bridge.toKh l) ((C18Bridge.toKh l).map (·.ct)) = l := by
  apply List.ext_getElem
  · rw [length_toC18, size_toKh]
  · intro i h1 h2
    have hi : i < (C18Bridge.toKh l).size := by rw [size_toKh]; exact h2
    have hg := getElem?_toC18 (C18Bridge.toKh l) ((C18Bridge.toKh l).map (·.ct)) i hi
    rw [List.getElem?_eq_getElem h1] at hg
    rw [Option.some.inj hg]
    have e1 : (C18Bridge.toKh l)[i]! = C18Bridge.crossingKh l[i] := by
      simp [C18Bridge.toKh, h2]
    have e2 : ((C18Bridge.toKh l).map (·.ct))[i]! = C18Bridge.ctKh l[i].ctype := by
      simp [C18Bridge.toKh, h2, C18Bridge.crossingKh]
    rw [e1, e2, ctC18_ctKh]
    rfl

/-- a KNOT (the walk model of the reference finds one component) is `Determined` -/
theorem determined_of_knot (l : C18.Link) (hv : C18.Valid l) (comps : List Path)
    (hc : C06Canon.components (C18Bridge.toKh l) = .ok comps) (h1 : comps.length = 1) : C18.Determined l := by
  have hwf : ∀ c ∈ C18Bridge.toKh l, c.e.size = 4 := by
    intro c hc
    simp only [C18Bridge.toKh, List.mem_toArray, List.mem_map] at hc
    obtain ⟨a, _, rfl⟩ := hc
    rfl
  have hs := componentsOf_sim (C18Bridge.toKh l) hwf ((C18Bridge.toKh l).map (·.ct)) (by simp)
  rw [toC18_toKh] at hs
  unfold C06Canon.components at hc
  rw [hs] at hc
  cases e : C18.components l with
  | panic => rw [e] at hc; cases hc
  | err => rw [e] at hc; cases hc
  | ok cs =>
    rw [e] at hc
    have : cs.map convPath = comps := by injection hc
    refine determined_of_single_component l hv cs e ?_
    rw [← this, List.length_map] at h1
    exact h1

end Yuiv.C06Walk
