import Yuiv.Proofs.C15Poly
/-
C15 — the Euclidean-ring clauses over a *field* model (`Ratio`, `FF<p>`): helper lemmas.

`FieldModel E V φ` = `FieldRep E V φ` (Proofs/C15Poly: the operations of `E` compute a Mathlib field `K` on the
valid representatives `V` through `φ`, injective on `V`) plus what the field types of `yui` have in common in
their `EucRing`/`Ring` impls:  `%` is constantly zero, the Euclidean size used as loop fuel is `0`/`1`,
`normalizing_unit` is the inverse (`1` at zero), `is_unit = !is_zero`, `inv` is `None` exactly at zero.

Over such a model every clause of C15 about the generic `EucRing::{gcd, gcdx, lcm}`, `/`, `%`,
`Ring::normalized` is proved *literally in the model's own arithmetic* (equalities of representatives, obtained
from the equalities in `K` by injectivity), for all valid inputs.  The second half instantiates it for the
model `Q`/`ratOps` of `Ratio` (canonical fractions).  `Proofs/C15Fp.lean` does `FF<p>` for every prime `p`.
-/
namespace Yuiv.C15
open Yuiv

structure FieldModel {F K : Type} [Field K] (E : EucOps F) (V : F → Prop) (φ : F → K) : Prop where
  rep : FieldRep E V φ
  rem_eq : ∀ a b, E.rem a b = E.zero
  norm_eq : ∀ a, E.norm a = if E.isZero a then 0 else 1
  normUnit_zero : ∀ a, V a → φ a = 0 → φ (E.normUnit a) = 1
  normUnit_ne : ∀ a, V a → φ a ≠ 0 → φ (E.normUnit a) = (φ a)⁻¹
  isUnit_eq : ∀ a, E.isUnit a = !E.isZero a
  inv_zero : ∀ a, V a → φ a = 0 → E.inv a = none
  inv_ne : ∀ a, V a → φ a ≠ 0 → ∃ i, E.inv a = some i ∧ V i ∧ φ i = (φ a)⁻¹

namespace FieldModel
variable {F K : Type} [Field K] {E : EucOps F} {V : F → Prop} {φ : F → K} (M : FieldModel E V φ)
include M

theorem isZero_false (a : F) (ha : V a) : E.isZero a = false ↔ φ a ≠ 0 := by
  rw [← Bool.not_eq_true, M.rep.isZero_iff a ha]

theorem isZero_zero : E.isZero E.zero = true := (M.rep.isZero_iff _ M.rep.v_zero).2 M.rep.phi_zero

theorem isZero_one : E.isZero E.one = false :=
  (M.isZero_false _ M.rep.v_one).2 (by rw [M.rep.phi_one]; exact one_ne_zero)

/-- a valid element with `is_zero` is the zero representative -/
theorem eq_zero (a : F) (ha : V a) (h : E.isZero a = true) : a = E.zero :=
  M.rep.inj _ _ ha M.rep.v_zero (by rw [(M.rep.isZero_iff a ha).1 h, M.rep.phi_zero])

/-- a field model is a Euclidean representation (so the generic Euclid theorems of Proofs/C15Poly apply) -/
theorem eucRep : EucRep E V φ where
  inj := M.rep.inj
  v_zero := M.rep.v_zero
  psi_zero := M.rep.phi_zero
  v_one := M.rep.v_one
  psi_one := M.rep.phi_one
  isZero_iff := M.rep.isZero_iff
  isOne_imp := fun a ha h => (M.rep.isOne_iff a ha).1 h
  sub := M.rep.sub
  mul := M.rep.mul
  div_rem := by
    intro a b ha hb hb0
    have hd := M.rep.div a b ha hb hb0
    refine ⟨hd.1, by rw [M.rem_eq]; exact M.rep.v_zero, ?_, ?_⟩
    · rw [M.rem_eq, M.rep.phi_zero, hd.2, add_zero, div_mul_cancel₀ _ hb0]
    · rw [M.rem_eq, M.norm_eq, M.norm_eq, M.isZero_zero, (M.isZero_false b hb).2 hb0]; simp
  rem_of_dvd := by intro a b _ _ _ _; rw [M.rem_eq, M.rep.phi_zero]
  normUnit := fun a ha => ⟨(M.rep.normUnit a ha).1, isUnit_iff_ne_zero.2 (M.rep.normUnit a ha).2⟩

/-! ### `/`, `%` -/

/-- zero divisor: the Rust operators panic (`assert!(!rhs.is_zero())`) -/
theorem div_zero_panics (a b : F) (hb0 : E.isZero b = true) : E.divR a b = .panic ∧ E.remR a b = .panic := by
  unfold EucOps.divR EucOps.remR; simp [hb0]

/-- non-zero divisor: no panic, valid quotient, remainder `0`, `a = (a/b)·b + a%b` literally, and the quotient
is the field quotient -/
theorem div_spec (a b : F) (ha : V a) (hb : V b) (hb0 : E.isZero b = false) :
    E.divR a b = .ok (E.div a b) ∧ E.remR a b = .ok E.zero ∧ E.rem a b = E.zero ∧ V (E.div a b) ∧
    E.add (E.mul (E.div a b) b) (E.rem a b) = a ∧ E.mul (E.div a b) b = a ∧ φ (E.div a b) = φ a / φ b := by
  have hb0' := (M.isZero_false b hb).1 hb0
  have hd := M.rep.div a b ha hb hb0'
  have hm := M.rep.mul _ b hd.1 hb
  have hmul : E.mul (E.div a b) b = a :=
    M.rep.inj _ _ hm.1 ha (by rw [hm.2, hd.2, div_mul_cancel₀ _ hb0'])
  refine ⟨by unfold EucOps.divR; simp [hb0], by unfold EucOps.remR; simp [hb0, M.rem_eq], M.rem_eq a b, hd.1, ?_,
    hmul, hd.2⟩
  rw [M.rem_eq, hmul]
  have hadd := M.rep.add a E.zero ha M.rep.v_zero
  exact M.rep.inj _ _ hadd.1 ha (by rw [hadd.2, M.rep.phi_zero, add_zero])

/-! ### units, inverse -/

theorem units (a : F) (ha : V a) :
    (E.isUnit a = true ↔ E.inv a ≠ none) ∧
    (E.isZero a = true → E.inv a = none) ∧
    (E.isZero a = false → ∃ u, E.inv a = some u ∧ V u ∧ E.mul a u = E.one ∧ E.isZero u = false) ∧
    (∀ u, E.inv a = some u → V u ∧ E.mul a u = E.one) := by
  have key : E.isZero a = false → ∃ u, E.inv a = some u ∧ V u ∧ E.mul a u = E.one ∧ E.isZero u = false := by
    intro h0
    have h0' := (M.isZero_false a ha).1 h0
    obtain ⟨i, hi, hvi, he⟩ := M.inv_ne a ha h0'
    have hm := M.rep.mul a i ha hvi
    refine ⟨i, hi, hvi, M.rep.inj _ _ hm.1 M.rep.v_one ?_, (M.isZero_false i hvi).2 ?_⟩
    · rw [hm.2, he, M.rep.phi_one, mul_inv_cancel₀ h0']
    · rw [he]; exact inv_ne_zero h0'
  have hz : E.isZero a = true → E.inv a = none := fun h0 => M.inv_zero a ha ((M.rep.isZero_iff a ha).1 h0)
  refine ⟨?_, hz, key, ?_⟩
  · rw [M.isUnit_eq]
    cases h : E.isZero a
    · obtain ⟨u, hu, _⟩ := key h; simp [hu]
    · simp [hz h]
  · intro u hu
    cases h : E.isZero a
    · obtain ⟨u', hu', hv, he, _⟩ := key h
      rw [hu] at hu'; injection hu' with hu'; subst hu'; exact ⟨hv, he⟩
    · rw [hz h] at hu; cases hu

/-! ### normalisation -/

theorem normUnit_spec (a : F) (ha : V a) :
    V (E.normUnit a) ∧ E.isZero (E.normUnit a) = false ∧ E.isUnit (E.normUnit a) = true ∧
    (E.isZero a = true → E.normUnit a = E.one) ∧ (E.isZero a = false → E.mul a (E.normUnit a) = E.one) := by
  have hu := M.rep.normUnit a ha
  have hz : E.isZero (E.normUnit a) = false := (M.isZero_false _ hu.1).2 hu.2
  refine ⟨hu.1, hz, by rw [M.isUnit_eq, hz]; rfl, fun h0 => ?_, fun h0 => ?_⟩
  · refine M.rep.inj _ _ hu.1 M.rep.v_one ?_
    rw [M.normUnit_zero a ha ((M.rep.isZero_iff a ha).1 h0), M.rep.phi_one]
  · have h0' := (M.isZero_false a ha).1 h0
    have hm := M.rep.mul a _ ha hu.1
    refine M.rep.inj _ _ hm.1 M.rep.v_one ?_
    rw [hm.2, M.normUnit_ne a ha h0', M.rep.phi_one, mul_inv_cancel₀ h0']

/-- `normalized` maps every non-zero element to `1` and keeps `0` -/
theorem normalized_eq (a : F) (ha : V a) : E.normalized a = if E.isZero a then a else E.one := by
  obtain ⟨hv, _, _, h1, h2⟩ := M.normUnit_spec a ha
  unfold EucOps.normalized
  simp only
  cases h0 : E.isZero a
  · simp only [Bool.false_eq_true, if_false]
    split
    · rename_i hone
      have h0' := (M.isZero_false a ha).1 h0
      have e := (M.rep.isOne_iff _ hv).1 hone
      rw [M.normUnit_ne a ha h0', inv_eq_one] at e
      exact M.rep.inj _ _ ha M.rep.v_one (by rw [e, M.rep.phi_one])
    · exact h2 h0
  · simp only [if_true]
    rw [h1 h0, (M.rep.isOne_iff _ M.rep.v_one).2 M.rep.phi_one, if_pos rfl]

theorem normalized_valid (a : F) (ha : V a) : V (E.normalized a) := by
  rw [M.normalized_eq a ha]; split
  · exact ha
  · exact M.rep.v_one

theorem normalized_idem (a : F) (ha : V a) : E.normalized (E.normalized a) = E.normalized a := by
  rw [M.normalized_eq a ha]
  cases h0 : E.isZero a
  · simp only [Bool.false_eq_true, if_false]
    rw [M.normalized_eq _ M.rep.v_one, M.isZero_one]; rfl
  · simp only [if_true]; rw [M.normalized_eq a ha, h0]; rfl

/-- constant on associates: multiplying by a unit (any non-zero element) does not change the normal form -/
theorem normalized_assoc (a u : F) (ha : V a) (hu : V u) (hu0 : E.isZero u = false) :
    E.normalized (E.mul a u) = E.normalized a := by
  have hm := M.rep.mul a u ha hu
  rw [M.normalized_eq _ hm.1, M.normalized_eq a ha]
  have hu0' := (M.isZero_false u hu).1 hu0
  cases h0 : E.isZero a
  · have h0' := (M.isZero_false a ha).1 h0
    have : E.isZero (E.mul a u) = false := (M.isZero_false _ hm.1).2 (by rw [hm.2]; exact mul_ne_zero h0' hu0')
    rw [this]; simp
  · have h0' := (M.rep.isZero_iff a ha).1 h0
    have hz : E.isZero (E.mul a u) = true := (M.rep.isZero_iff _ hm.1).2 (by rw [hm.2, h0', zero_mul])
    rw [hz]; simp only [if_true]
    rw [M.eq_zero _ hm.1 hz, M.eq_zero a ha h0]

/-! ### gcd, gcdx, lcm: over a field both take an early return, the loops are never entered -/

theorem divides_eq (x y : F) : E.divides x y = !E.isZero x := by
  unfold EucOps.divides; rw [M.rem_eq, M.isZero_zero]; simp

/-- `gcd` is `1` (normalised, after fix F4) unless both arguments vanish -/
theorem gcd_eq (x y : F) (hx : V x) (hy : V y) :
    E.gcd x y = .ok (if E.isZero x && E.isZero y then E.zero else E.one) := by
  unfold EucOps.gcd
  rw [M.divides_eq, M.divides_eq, M.normalized_eq x hx, M.normalized_eq y hy]
  cases h1 : E.isZero x <;> cases h2 : E.isZero y <;> simp

/-- the Euclid loops need at most one step over a field: any fuel `≥ 1` suffices
(the code model runs them with fuel `norm y + 1 ≥ 1`) -/
theorem gcdLoop_total (fuel : Nat) (hf : 1 ≤ fuel) (x y : F) :
    E.gcdLoop fuel x y = some (if E.isZero y then x else y) := by
  obtain ⟨f, rfl⟩ : ∃ f, fuel = f + 1 := ⟨fuel - 1, by omega⟩
  unfold EucOps.gcdLoop
  cases h : E.isZero y
  · simp only [Bool.false_eq_true, if_false]
    unfold EucOps.gcdLoop
    rw [M.rem_eq, M.isZero_zero]; rfl
  · rfl

theorem gcdxLoop_total (fuel : Nat) (hf : 1 ≤ fuel) (x y s0 s1 t0 t1 : F) :
    E.gcdxLoop fuel x y s0 s1 t0 t1 = some (if E.isZero y then (x, s0, t0) else (y, s1, t1)) := by
  obtain ⟨f, rfl⟩ : ∃ f, fuel = f + 1 := ⟨fuel - 1, by omega⟩
  unfold EucOps.gcdxLoop
  cases h : E.isZero y
  · simp only [Bool.false_eq_true, if_false]
    unfold EucOps.gcdxLoop
    rw [M.rem_eq, M.isZero_zero]; rfl
  · rfl

/-- `gcdx` returns `(d, s, t)`, all valid, with `s·x + t·y = d` literally in the model's arithmetic, and `d` is
what `gcd` returns (hence normalised) -/
theorem gcdx_spec (x y : F) (hx : V x) (hy : V y) :
    ∃ d s t, E.gcdx x y = .ok (d, s, t) ∧ V d ∧ V s ∧ V t ∧
      E.add (E.mul s x) (E.mul t y) = d ∧ E.gcd x y = .ok d ∧
      d = (if E.isZero x && E.isZero y then E.zero else E.one) ∧ E.normalized d = d := by
  obtain ⟨d, s, t, e, hd, hs, ht, hb, hg⟩ := M.eucRep.gcdx_spec x y hx hy
  have m1 := M.rep.mul s x hs hx
  have m2 := M.rep.mul t y ht hy
  have ad := M.rep.add _ _ m1.1 m2.1
  have hd' : d = (if E.isZero x && E.isZero y then E.zero else E.one) := by
    have := M.gcd_eq x y hx hy
    rw [hg] at this; injection this
  refine ⟨d, s, t, e, hd, hs, ht, M.rep.inj _ _ ad.1 hd (by rw [ad.2, m1.2, m2.2, hb]), hg, hd', ?_⟩
  rw [M.normalized_eq d hd, hd']
  split
  · simp [M.isZero_zero]
  · simp [M.isZero_one]

/-- the gcd divides both arguments, every common divisor divides it (divisibility literally: `d·c = x`),
and it does not depend on the order of the arguments -/
theorem gcd_divides (x y : F) (hx : V x) (hy : V y) :
    ∃ d, E.gcd x y = .ok d ∧ E.gcd y x = .ok d ∧ V d ∧
      (∃ c, V c ∧ E.mul d c = x) ∧ (∃ c, V c ∧ E.mul d c = y) ∧
      (∀ c, V c → (∃ c', V c' ∧ E.mul c c' = x) → (∃ c', V c' ∧ E.mul c c' = y) → ∃ c', V c' ∧ E.mul c c' = d) := by
  have omul : ∀ z, V z → E.mul E.one z = z := by
    intro z hz
    have hm := M.rep.mul E.one z M.rep.v_one hz
    exact M.rep.inj _ _ hm.1 hz (by rw [hm.2, M.rep.phi_one, one_mul])
  have zmul : ∀ z, V z → E.mul E.zero z = E.zero := by
    intro z hz
    have hm := M.rep.mul E.zero z M.rep.v_zero hz
    exact M.rep.inj _ _ hm.1 M.rep.v_zero (by rw [hm.2, M.rep.phi_zero, zero_mul])
  refine ⟨_, M.gcd_eq x y hx hy, ?_, ?_⟩
  · rw [M.gcd_eq y x hy hx, Bool.and_comm]
  cases h1 : E.isZero x <;> cases h2 : E.isZero y <;>
    simp only [Bool.and_true, Bool.and_false, Bool.false_eq_true, if_false, if_true, Bool.and_self]
  case true.true =>
    have ex := M.eq_zero x hx h1
    have ey := M.eq_zero y hy h2
    refine ⟨M.rep.v_zero, ⟨E.zero, M.rep.v_zero, ?_⟩, ⟨E.zero, M.rep.v_zero, ?_⟩, ?_⟩
    · rw [ex]; exact zmul _ M.rep.v_zero
    · rw [ey]; exact zmul _ M.rep.v_zero
    · intro c hc h _; rw [ex] at h; exact h
  all_goals
    refine ⟨M.rep.v_one, ⟨x, hx, omul x hx⟩, ⟨y, hy, omul y hy⟩, ?_⟩
    intro c hc ⟨c1, hc1, e1⟩ ⟨c2, hc2, e2⟩
    have hc0 : E.isZero c = false := by
      cases hcz : E.isZero c
      · rfl
      · exfalso
        rw [M.eq_zero c hc hcz, zmul _ hc1] at e1
        rw [M.eq_zero c hc hcz, zmul _ hc2] at e2
        have hx1 : E.isZero x = true := by rw [← e1]; exact M.isZero_zero
        have hy1 : E.isZero y = true := by rw [← e2]; exact M.isZero_zero
        first
          | exact absurd (h1.symm.trans hx1) (by decide)
          | exact absurd (h2.symm.trans hy1) (by decide)
    obtain ⟨u, _, hvu, he, _⟩ := (M.units c hc).2.2.1 hc0
    exact ⟨u, hvu, he⟩

/-- `lcm` (not both arguments zero): `lcm·gcd` is an associate of `x·y` (literally: equal after multiplying by
a non-zero `u`), the lcm is normalised, it is `0` when an argument is `0` and `1` otherwise -/
theorem lcm_spec (x y : F) (hx : V x) (hy : V y) (hxy : (E.isZero x && E.isZero y) = false) :
    ∃ l g, E.lcm x y = .ok l ∧ E.gcd x y = .ok g ∧ V l ∧ V g ∧ g = E.one ∧
      (∃ u, V u ∧ E.isZero u = false ∧ E.mul (E.mul l g) u = E.mul x y) ∧
      E.normalized l = l ∧
      l = (if E.isZero x || E.isZero y then E.zero else E.one) := by
  have hg := M.gcd_eq x y hx hy
  rw [hxy] at hg
  simp only [Bool.false_eq_true, if_false] at hg
  have hd := M.rep.div y E.one hy M.rep.v_one (by rw [M.rep.phi_one]; exact one_ne_zero)
  have hm := M.rep.mul x _ hx hd.1
  have hxy' := M.rep.mul x y hx hy
  have hphi : φ (E.mul x (E.div y E.one)) = φ x * φ y := by rw [hm.2, hd.2, M.rep.phi_one, div_one]
  have hl : E.lcm x y = .ok (E.normalized (E.mul x (E.div y E.one))) := by
    unfold EucOps.lcm; rw [hg]; simp [M.isZero_one]
  have hval : E.normalized (E.mul x (E.div y E.one)) = (if E.isZero x || E.isZero y then E.zero else E.one) := by
    rw [M.normalized_eq _ hm.1]
    cases h1 : E.isZero x <;> cases h2 : E.isZero y
    · have : E.isZero (E.mul x (E.div y E.one)) = false :=
        (M.isZero_false _ hm.1).2 (by
          rw [hphi]; exact mul_ne_zero ((M.isZero_false x hx).1 h1) ((M.isZero_false y hy).1 h2))
      rw [this]; rfl
    all_goals
      have hz : E.isZero (E.mul x (E.div y E.one)) = true :=
        (M.rep.isZero_iff _ hm.1).2 (by
          rw [hphi]
          first
            | rw [(M.rep.isZero_iff x hx).1 h1, zero_mul]
            | rw [(M.rep.isZero_iff y hy).1 h2, mul_zero])
      rw [hz]; simp only [if_true, Bool.or_true, Bool.true_or]
      exact M.eq_zero _ hm.1 hz
  have hvl := M.normalized_valid _ hm.1
  refine ⟨_, _, hl, hg, hvl, M.rep.v_one, rfl, ?_, M.normalized_idem _ hm.1, hval⟩
  rw [hval]
  cases h : (E.isZero x || E.isZero y)
  · -- both non-zero: l = 1, u = x·y
    simp only [Bool.false_eq_true, if_false]
    have hm1 := M.rep.mul E.one E.one M.rep.v_one M.rep.v_one
    rw [Bool.or_eq_false_iff] at h
    have hne : φ (E.mul x y) ≠ 0 := by
      rw [hxy'.2]; exact mul_ne_zero ((M.isZero_false x hx).1 h.1) ((M.isZero_false y hy).1 h.2)
    have hm2 := M.rep.mul _ (E.mul x y) hm1.1 hxy'.1
    refine ⟨E.mul x y, hxy'.1, (M.isZero_false _ hxy'.1).2 hne, ?_⟩
    exact M.rep.inj _ _ hm2.1 hxy'.1 (by rw [hm2.2, hm1.2, M.rep.phi_one, mul_one, one_mul])
  · -- an argument is zero: l = 0 = x·y, u = 1
    simp only [if_true]
    have hm1 := M.rep.mul E.zero E.one M.rep.v_zero M.rep.v_one
    have hm2 := M.rep.mul _ E.one hm1.1 M.rep.v_one
    refine ⟨E.one, M.rep.v_one, M.isZero_one, ?_⟩
    refine M.rep.inj _ _ hm2.1 hxy'.1 ?_
    rw [hm2.2, hm1.2, M.rep.phi_zero, hxy'.2]
    rw [Bool.or_eq_true] at h
    rcases h with h | h
    · rw [(M.rep.isZero_iff x hx).1 h]; simp
    · rw [(M.rep.isZero_iff y hy).1 h]; simp

/-- `lcm(0, 0)`: the gcd is `0`, the division by it panics -/
theorem lcm_zero_zero (x y : F) (hx : V x) (hy : V y) (hxy : (E.isZero x && E.isZero y) = true) :
    E.lcm x y = .panic := by
  have hg := M.gcd_eq x y hx hy
  rw [hxy] at hg
  unfold EucOps.lcm; rw [hg]; simp [M.isZero_zero]

end FieldModel

/-! ## the model of `Ratio` -/

namespace Q

theorem inv_some_wf (x : Q) (h0 : x.num ≠ 0) : inv x = some (make x.den x.num) ∧ WF (make x.den x.num) := by
  refine ⟨by simp [inv, isZero, h0], make_wf _ _ h0⟩

theorem toRat_inv (x : Q) (hx : WF x) (h0 : x.num ≠ 0) : toRat (make x.den x.num) = (toRat x)⁻¹ := by
  rw [toRat_make _ _ h0]; unfold toRat; rw [inv_div]

theorem fieldModel : FieldModel ratOps WF toRat where
  rep := fieldRep
  rem_eq := fun _ _ => rfl
  norm_eq := fun _ => rfl
  normUnit_zero := by
    intro a ha h0
    have hn := (toRat_eq_zero ha).1 h0
    show toRat (normUnit a) = _
    have e : normUnit a = one := by simp [normUnit, inv, isZero, hn]
    rw [e]; simp [one, toRat]
  normUnit_ne := by
    intro a ha h0
    have hn : a.num ≠ 0 := fun h => h0 ((toRat_eq_zero ha).2 h)
    show toRat (normUnit a) = _
    have e : normUnit a = make a.den a.num := by simp [normUnit, inv, isZero, hn]
    rw [e, toRat_inv a ha hn]
  isUnit_eq := fun _ => rfl
  inv_zero := by
    intro a ha h0
    have hn := (toRat_eq_zero ha).1 h0
    show inv a = none
    simp [inv, isZero, hn]
  inv_ne := by
    intro a ha h0
    have hn : a.num ≠ 0 := fun h => h0 ((toRat_eq_zero ha).2 h)
    exact ⟨_, (inv_some_wf a hn).1, (inv_some_wf a hn).2, toRat_inv a ha hn⟩

theorem isZero_iff (x : Q) : ratOps.isZero x = true ↔ x.num = 0 := by
  show (x.num == 0) = true ↔ _; simp

theorem isZero_false_iff (x : Q) : ratOps.isZero x = false ↔ x.num ≠ 0 := by
  show (x.num == 0) = false ↔ _; simp

theorem ite_and {α : Type} (x y : Q) (u v : α) :
    (if (ratOps.isZero x && ratOps.isZero y) = true then u else v) = if x.num = 0 ∧ y.num = 0 then u else v := by
  simp [ratOps, isZero]

theorem ite_or {α : Type} (x y : Q) (u v : α) :
    (if (ratOps.isZero x || ratOps.isZero y) = true then u else v) = if x.num = 0 ∨ y.num = 0 then u else v := by
  simp [ratOps, isZero]

theorem and_false_iff (x y : Q) : (ratOps.isZero x && ratOps.isZero y) = false ↔ ¬(x.num = 0 ∧ y.num = 0) := by
  simp [ratOps, isZero]

theorem and_true_iff (x y : Q) : (ratOps.isZero x && ratOps.isZero y) = true ↔ (x.num = 0 ∧ y.num = 0) := by
  simp [ratOps, isZero]

end Q
end Yuiv.C15
