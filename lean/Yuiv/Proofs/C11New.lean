import Yuiv.Model.C11New
import Yuiv.Proofs.C11
/-
C11 — `MatrixStr::new` (model `matrixStrNew`, `Model/C11New.lean`) builds a well-formed structure from every CSC matrix
whose columns have strictly increasing, in-range row indices.  Core Lean only.

  1. `Str.pushAll` as a fold: what the four arrays contain after the loop (`pushAll_spec`)
  2. the triplet list of a valid CSC matrix, filtered to one internal row, has strictly increasing internal columns —
     for `Rows` (one entry per column block, blocks in increasing column order) and for `Cols` (one column block)
  3. `matrixStrNew_spec`: no panic, shape, `Str.WF`, and the exact content of `colsIn` / `isCand` / the weights
-/
namespace Yuiv.C11
open Yuiv Res
set_option linter.unusedSimpArgs false

/-- the CSC storage invariant (nalgebra-sparse `CscMatrix`): in every column the stored row indices are strictly
increasing and in range.  (`cols.size = ncols` is not needed: missing columns read as empty, surplus ones are ignored.) -/
def Csc.Valid (a : Csc) : Prop :=
  ∀ j, j < a.ncols → ((a.col j).map (·.1)).Pairwise (· < ·) ∧ ∀ e ∈ a.col j, e.1 < a.nrows

instance (a : Csc) : Decidable a.Valid := by unfold Csc.Valid; exact inferInstance

/-- the array sizes `vec![..; m]` / `vec![..; n]` -/
structure Str.Sized (s : Str) : Prop where
  ent : s.ent.size = s.nrows
  cnd : s.cnd.size = s.nrows
  rowW : s.rowW.size = s.nrows
  colW : s.colW.size = s.ncols

abbrev Tup := Nat × Nat × Nat × Bool

/-- columns pushed to `entries[i]`, in order -/
def entOf (es : List Tup) (i : Nat) : List Nat := (es.filter fun e => e.1 == i).map (·.2.1)
/-- columns inserted into `cands[i]`, in order -/
def cndOf (es : List Tup) (i : Nat) : List Nat := (es.filter fun e => e.1 == i && e.2.2.2).map (·.2.1)
/-- weight added to `row_wght[i]` -/
def rowWOf (es : List Tup) (i : Nat) : Nat := ((es.filter fun e => e.1 == i).map (·.2.2.1)).sum
/-- weight added to `col_wght[j]` -/
def colWOf (es : List Tup) (j : Nat) : Nat := ((es.filter fun e => e.2.1 == j).map (·.2.2.1)).sum

theorem getD_modify {α} (xs : Array α) (i k : Nat) (f : α → α) (d : α) :
    (xs.modify i f).getD k d = if i = k ∧ k < xs.size then f (xs.getD k d) else xs.getD k d := by
  simp only [Array.getD_eq_getD_getElem?, Array.getElem?_modify]
  by_cases h : i = k
  · subst h
    by_cases hk : i < xs.size
    · simp [hk]
    · simp [hk]
  · simp [h]

theorem Str.empty_sized (m n : Nat) : (Str.empty m n).Sized := by
  constructor <;> simp [Str.empty]

theorem push_spec (s : Str) (hs : s.Sized) (i j w : Nat) (c : Bool) (hi : i < s.nrows) (hj : j < s.ncols) :
    ∃ s', s.push i j w c = ok s' ∧ s'.Sized ∧ s'.nrows = s.nrows ∧ s'.ncols = s.ncols ∧
      (∀ k, s'.ent.getD k [] = s.ent.getD k [] ++ entOf [(i, j, w, c)] k) ∧
      (∀ k, s'.cnd.getD k [] = s.cnd.getD k [] ++ cndOf [(i, j, w, c)] k) ∧
      (∀ k, s'.rowW.getD k 0 = s.rowW.getD k 0 + rowWOf [(i, j, w, c)] k) ∧
      (∀ k, s'.colW.getD k 0 = s.colW.getD k 0 + colWOf [(i, j, w, c)] k) := by
  refine ⟨{ s with
      ent := s.ent.modify i (· ++ [j])
      rowW := s.rowW.modify i (· + w)
      colW := s.colW.modify j (· + w)
      cnd := if c then s.cnd.modify i (· ++ [j]) else s.cnd }, by simp [Str.push, hi, hj], ?_, rfl, rfl, ?_, ?_, ?_, ?_⟩
  · constructor
    · simp [hs.ent]
    · cases c <;> simp [hs.cnd]
    · simp [hs.rowW]
    · simp [hs.colW]
  · intro k
    simp only [getD_modify, hs.ent, entOf, List.filter_cons, List.filter_nil]
    by_cases h : i = k
    · subst h; simp [hi]
    · simp [h]
  · intro k
    cases c
    · simp [cndOf]
    · simp only [getD_modify, hs.cnd, cndOf, List.filter_cons, List.filter_nil, if_true]
      by_cases h : i = k
      · subst h; simp [hi]
      · simp [h]
  · intro k
    simp only [getD_modify, hs.rowW, rowWOf, List.filter_cons, List.filter_nil]
    by_cases h : i = k
    · subst h; simp [hi]
    · simp [h]
  · intro k
    simp only [getD_modify, hs.colW, colWOf, List.filter_cons, List.filter_nil]
    by_cases h : j = k
    · subst h; simp [hj]
    · simp [h]

theorem entOf_cons (e : Tup) (es : List Tup) (k : Nat) : entOf (e :: es) k = entOf [e] k ++ entOf es k := by
  simp only [entOf, List.filter_cons, List.filter_nil]; split <;> simp
theorem cndOf_cons (e : Tup) (es : List Tup) (k : Nat) : cndOf (e :: es) k = cndOf [e] k ++ cndOf es k := by
  simp only [cndOf, List.filter_cons, List.filter_nil]; split <;> simp
theorem rowWOf_cons (e : Tup) (es : List Tup) (k : Nat) : rowWOf (e :: es) k = rowWOf [e] k + rowWOf es k := by
  simp only [rowWOf, List.filter_cons, List.filter_nil]; split <;> simp
theorem colWOf_cons (e : Tup) (es : List Tup) (k : Nat) : colWOf (e :: es) k = colWOf [e] k + colWOf es k := by
  simp only [colWOf, List.filter_cons, List.filter_nil]; split <;> simp

/-- the loop of `MatrixStr::new` as a fold: with all indices in range it does not panic, keeps the shape, and appends
to every row exactly the columns of the tuples of that row, in order -/
theorem pushAll_spec (es : List Tup) : ∀ (s : Str), s.Sized → (∀ e ∈ es, e.1 < s.nrows ∧ e.2.1 < s.ncols) →
    ∃ s', s.pushAll es = ok s' ∧ s'.Sized ∧ s'.nrows = s.nrows ∧ s'.ncols = s.ncols ∧
      (∀ k, s'.ent.getD k [] = s.ent.getD k [] ++ entOf es k) ∧
      (∀ k, s'.cnd.getD k [] = s.cnd.getD k [] ++ cndOf es k) ∧
      (∀ k, s'.rowW.getD k 0 = s.rowW.getD k 0 + rowWOf es k) ∧
      (∀ k, s'.colW.getD k 0 = s.colW.getD k 0 + colWOf es k) := by
  induction es with
  | nil => intro s hs _; exact ⟨s, rfl, hs, rfl, rfl, by simp [entOf], by simp [cndOf], by simp [rowWOf], by simp [colWOf]⟩
  | cons e es ih =>
    intro s hs hr
    obtain ⟨i, j, w, c⟩ := e
    have hij := hr (i, j, w, c) (List.mem_cons_self ..)
    obtain ⟨s1, e1, hs1, hn1, hm1, a1, b1, c1, d1⟩ := push_spec s hs i j w c hij.1 hij.2
    obtain ⟨s2, e2, hs2, hn2, hm2, a2, b2, c2, d2⟩ := ih s1 hs1 (by
      intro e he; rw [hn1, hm1]; exact hr e (List.mem_cons_of_mem _ he))
    refine ⟨s2, ?_, hs2, hn2.trans hn1, hm2.trans hm1, ?_, ?_, ?_, ?_⟩
    · show (do let s ← s.push i j w c; s.pushAll es) = ok s2
      rw [e1]; exact e2
    · intro k; rw [a2, a1, entOf_cons (i, j, w, c) es k, List.append_assoc]
    · intro k; rw [b2, b1, cndOf_cons (i, j, w, c) es k, List.append_assoc]
    · intro k; rw [c2, c1, rowWOf_cons (i, j, w, c) es k, Nat.add_assoc]
    · intro k; rw [d2, d1, colWOf_cons (i, j, w, c) es k, Nat.add_assoc]

/-! ### the triplets of a valid CSC matrix -/

theorem swap_rows (i j : Nat) : PivType.rows.swap i j = (i, j) := rfl
theorem swap_cols (i j : Nat) : PivType.cols.swap i j = (j, i) := rfl

/-- the block of loop iterations coming from column `j` -/
def colBlock (a : Csc) (t : PivType) (c : Cond) (j : Nat) : List Tup :=
  (((a.col j).map fun e => (e.1, j, e.2)).filter fun e => !e.2.2.zero).map (exportEntry t c)

theorem exportEntries_eq (a : Csc) (t : PivType) (c : Cond) :
    exportEntries a t c = (List.range a.ncols).flatMap (colBlock a t c) := by
  simp only [exportEntries, Csc.iter, List.filter_flatMap, List.map_flatMap]; rfl

theorem mem_colBlock {a : Csc} {t : PivType} {c : Cond} {j : Nat} {x : Tup} (h : x ∈ colBlock a t c j) :
    ∃ e ∈ a.col j, e.2.zero = false ∧ x = exportEntry t c (e.1, j, e.2) := by
  simp only [colBlock, List.mem_map, List.mem_filter] at h
  obtain ⟨y, ⟨⟨e, he, rfl⟩, hz⟩, rfl⟩ := h
  exact ⟨e, he, by simpa using hz, rfl⟩

theorem entOf_flatMap (l : List Nat) (g : Nat → List Tup) (k : Nat) :
    entOf (l.flatMap g) k = l.flatMap fun j => entOf (g j) k := by
  simp only [entOf, List.filter_flatMap, List.map_flatMap]

/-- inside one column block the internal columns of the tuples of one internal row are strictly increasing -/
theorem entOf_colBlock_pairwise (a : Csc) (t : PivType) (c : Cond) (j k : Nat)
    (h : ((a.col j).map (·.1)).Pairwise (· < ·)) : (entOf (colBlock a t c j) k).Pairwise (· < ·) := by
  have h' : (a.col j).Pairwise (fun e e' => e.1 < e'.1) := List.pairwise_map.1 h
  simp only [entOf, colBlock, List.filter_map, List.map_map, List.pairwise_map]
  refine List.Pairwise.imp_of_mem ?_ ((h'.filter _).filter _)
  intro e e' he he' hlt
  simp only [List.mem_filter, Function.comp_apply] at he he'
  cases t
  · -- Rows: both entries lie in internal row `k` = their own row index, impossible for two of them
    have h1 := he.2; have h2 := he'.2
    simp [exportEntry, swap_rows] at h1 h2
    omega
  · simpa [exportEntry, swap_cols] using hlt

/-- in a valid CSC matrix the tuples of every internal row have strictly increasing internal columns -/
theorem entOf_exportEntries_pairwise (a : Csc) (ha : a.Valid) (t : PivType) (c : Cond) (k : Nat) :
    (entOf (exportEntries a t c) k).Pairwise (· < ·) := by
  rw [exportEntries_eq, entOf_flatMap, List.pairwise_flatMap]
  refine ⟨fun j hj => entOf_colBlock_pairwise a t c j k (ha j (List.mem_range.1 hj)).1, ?_⟩
  refine List.Pairwise.imp ?_ (List.pairwise_lt_range (n := a.ncols))
  intro j j' hlt x hx y hy
  simp only [entOf, List.mem_map, List.mem_filter] at hx hy
  obtain ⟨u, ⟨hu, huk⟩, rfl⟩ := hx
  obtain ⟨v, ⟨hv, hvk⟩, rfl⟩ := hy
  obtain ⟨e, _, _, rfl⟩ := mem_colBlock hu
  obtain ⟨e', _, _, rfl⟩ := mem_colBlock hv
  cases t
  · simpa [exportEntry, swap_rows] using hlt
  · -- Cols: both blocks would have to be the block of column `k`
    simp [exportEntry, swap_cols] at huk hvk
    omega

theorem cndOf_subset (es : List Tup) (k j : Nat) (h : j ∈ cndOf es k) : j ∈ entOf es k := by
  simp only [cndOf, entOf, List.mem_map, List.mem_filter] at h ⊢
  obtain ⟨e, ⟨he, hc⟩, rfl⟩ := h
  simp only [Bool.and_eq_true] at hc
  exact ⟨e, ⟨he, hc.1⟩, rfl⟩

theorem exportEntries_inrange (a : Csc) (ha : a.Valid) (t : PivType) (c : Cond) :
    ∀ e ∈ exportEntries a t c, e.1 < (t.shape a).1 ∧ e.2.1 < (t.shape a).2 := by
  intro x hx
  rw [exportEntries_eq, List.mem_flatMap] at hx
  obtain ⟨j, hj, hx⟩ := hx
  obtain ⟨e, he, _, rfl⟩ := mem_colBlock hx
  have hj' := List.mem_range.1 hj
  have hr := (ha j hj').2 e he
  cases t
  · exact ⟨hr, hj'⟩
  · exact ⟨hj', hr⟩

/-- `MatrixStr::new` on a valid CSC matrix: no panic (no index out of range), the shape, the exact content of the four
tables, and `Str.WF` -/
theorem matrixStrNew_spec (a : Csc) (ha : a.Valid) (t : PivType) (c : Cond) :
    ∃ s, matrixStrNew a t c = ok s ∧ s.WF ∧ s.Sized ∧ s.nrows = (t.shape a).1 ∧ s.ncols = (t.shape a).2 ∧
      (∀ i, colsIn s i = entOf (exportEntries a t c) i) ∧
      (∀ i j, isCand s i j = true ↔ j ∈ cndOf (exportEntries a t c) i) ∧
      (∀ i, s.rowW.getD i 0 = rowWOf (exportEntries a t c) i) ∧
      (∀ j, s.colW.getD j 0 = colWOf (exportEntries a t c) j) := by
  obtain ⟨s, e, hs, hn, hm, h1, h2, h3, h4⟩ :=
    pushAll_spec (exportEntries a t c) (Str.empty (t.shape a).1 (t.shape a).2) (Str.empty_sized _ _)
      (exportEntries_inrange a ha t c)
  have g1 : ∀ i, colsIn s i = entOf (exportEntries a t c) i := by
    intro i; rw [colsIn, h1]; simp [Str.empty, Array.getD_eq_getD_getElem?, Array.getElem?_replicate]; split <;> rfl
  have g2 : ∀ i j, isCand s i j = true ↔ j ∈ cndOf (exportEntries a t c) i := by
    intro i j
    have : s.cnd.getD i [] = cndOf (exportEntries a t c) i := by
      rw [h2]; simp [Str.empty, Array.getD_eq_getD_getElem?, Array.getElem?_replicate]; split <;> rfl
    rw [isCand, this]; simp
  refine ⟨s, e, ⟨?_, ?_⟩, hs, hn, hm, g1, g2, ?_, ?_⟩
  · intro i; rw [g1]; exact entOf_exportEntries_pairwise a ha t c i
  · intro i j h; rw [g1]; exact cndOf_subset _ _ _ ((g2 i j).1 h)
  · intro i; rw [h3]; simp [Str.empty, Array.getD_eq_getD_getElem?, Array.getElem?_replicate]; split <;> rfl
  · intro j; rw [h4]; simp [Str.empty, Array.getD_eq_getD_getElem?, Array.getElem?_replicate]; split <;> rfl

/-! ### the tables in terms of the matrix -/

/-- a stored non-zero value `r` at position `(i, j)` of the matrix (external orientation) -/
def Csc.Stored (a : Csc) (i j : Nat) (r : Scl) : Prop := j < a.ncols ∧ (i, r) ∈ a.col j ∧ r.zero = false

theorem mem_entOf_iff (a : Csc) (t : PivType) (c : Cond) (i j : Nat) :
    j ∈ entOf (exportEntries a t c) i ↔ ∃ r, a.Stored (t.swap i j).1 (t.swap i j).2 r := by
  rw [exportEntries_eq, entOf_flatMap, List.mem_flatMap]
  constructor
  · rintro ⟨j', hj', h⟩
    simp only [entOf, List.mem_map, List.mem_filter] at h
    obtain ⟨x, ⟨hx, hxi⟩, rfl⟩ := h
    obtain ⟨e, he, hz, rfl⟩ := mem_colBlock hx
    have hj'' := List.mem_range.1 hj'
    cases t
    · simp [exportEntry, swap_rows] at hxi ⊢; subst hxi; exact ⟨e.2, hj'', he, hz⟩
    · simp [exportEntry, swap_cols] at hxi ⊢; subst hxi; exact ⟨e.2, hj'', he, hz⟩
  · rintro ⟨r, hj, hmem, hz⟩
    cases t
    · refine ⟨j, List.mem_range.2 hj, ?_⟩
      simp only [entOf, List.mem_map, List.mem_filter, colBlock]
      exact ⟨exportEntry .rows c (i, j, r), ⟨⟨(i, j, r), ⟨⟨(i, r), hmem, rfl⟩, by simp [hz]⟩, rfl⟩,
        by simp [exportEntry, swap_rows]⟩, by simp [exportEntry, swap_rows]⟩
    · refine ⟨i, List.mem_range.2 hj, ?_⟩
      simp only [entOf, List.mem_map, List.mem_filter, colBlock]
      exact ⟨exportEntry .cols c (j, i, r), ⟨⟨(j, i, r), ⟨⟨(j, r), hmem, rfl⟩, by simp [hz]⟩, rfl⟩,
        by simp [exportEntry, swap_cols]⟩, by simp [exportEntry, swap_cols]⟩

theorem mem_cndOf_iff (a : Csc) (t : PivType) (c : Cond) (i j : Nat) :
    j ∈ cndOf (exportEntries a t c) i ↔ ∃ r, a.Stored (t.swap i j).1 (t.swap i j).2 r ∧ c.isCand r = true := by
  rw [exportEntries_eq]
  simp only [cndOf, List.filter_flatMap, List.map_flatMap, List.mem_flatMap]
  constructor
  · rintro ⟨j', hj', h⟩
    simp only [List.mem_map, List.mem_filter, Bool.and_eq_true] at h
    obtain ⟨x, ⟨hx, hxi, hxc⟩, rfl⟩ := h
    obtain ⟨e, he, hz, rfl⟩ := mem_colBlock hx
    have hj'' := List.mem_range.1 hj'
    cases t
    · simp [exportEntry, swap_rows] at hxi hxc ⊢; subst hxi; exact ⟨e.2, ⟨hj'', he, hz⟩, hxc⟩
    · simp [exportEntry, swap_cols] at hxi hxc ⊢; subst hxi; exact ⟨e.2, ⟨hj'', he, hz⟩, hxc⟩
  · rintro ⟨r, ⟨hj, hmem, hz⟩, hc⟩
    cases t
    · refine ⟨j, List.mem_range.2 hj, ?_⟩
      simp only [List.mem_map, List.mem_filter, colBlock, Bool.and_eq_true]
      exact ⟨exportEntry .rows c (i, j, r), ⟨⟨(i, j, r), ⟨⟨(i, r), hmem, rfl⟩, by simp [hz]⟩, rfl⟩,
        by simp [exportEntry, swap_rows], by simpa [exportEntry] using hc⟩, by simp [exportEntry, swap_rows]⟩
    · refine ⟨i, List.mem_range.2 hj, ?_⟩
      simp only [List.mem_map, List.mem_filter, colBlock, Bool.and_eq_true]
      exact ⟨exportEntry .cols c (j, i, r), ⟨⟨(j, i, r), ⟨⟨(j, r), hmem, rfl⟩, by simp [hz]⟩, rfl⟩,
        by simp [exportEntry, swap_cols], by simpa [exportEntry] using hc⟩, by simp [exportEntry, swap_cols]⟩

end Yuiv.C11
