import Yuiv.Gen.MiscFn
import Yuiv.Proofs.C06
/-
Helper lemmas for `Yuiv/Props/C06Gen.lean` (no property theorem here).

`Yuiv.GenMisc.*` is GENERATED from `/repo/yui-khovanov/src/misc.rs` (+ the closing `let`s of kh/ss.rs, khi/ssi.rs) by
`tools/rs2lean_fn.py fn:misc`.  The generated `div` counts in an `i32` (an `Int` with overflow check) and takes its fuel
as an argument; the hand model `C06.div` counts in `Nat` and fixes the fuel `|a| + 1`.
-/
namespace Yuiv.C06Gen
open Yuiv Res Yuiv.Rust Yuiv.GenMisc

def mapR {α β} (f : α → β) : Res α → Res β
  | .ok a => .ok (f a)
  | .panic => .panic
  | .err => .err

theorem mapR_ok {α β} (f : α → β) (a : α) : mapR f (ok a) = ok (f a) := rfl

/-- the generated loop (fuel `n`, counter `k` as an in-range `i32`) is the model's `divLoop` with the same fuel -/
theorem div_loop_eq (n : Nat) (c a : Int) (k : Nat) (hc : c ≠ 0) (hk : (k : Int) + n ≤ I32.MAX) :
    (misc.div_loop1 n c a (k : Int) >>= fun r => ok r.2) =
      (match C06.divLoop n a c k with
       | some k' => ok ((k' : Nat) : Int)
       | none => .err) := by
  induction n generalizing a k with
  | zero => rfl
  | succ n ih =>
    unfold misc.div_loop1 C06.divLoop
    have hr : RInt.rem a c = ok (a.tmod c) := by simp [RInt.rem, hc]
    have hd : RInt.div a c = ok (a.tdiv c) := by simp [RInt.div, hc]
    have hadd : I32.add (k : Int) 1 = ok (((k + 1 : Nat)) : Int) := by
      have h1 : I32.MIN ≤ (k : Int) + 1 := by unfold I32.MIN; omega
      have h2 : (k : Int) + 1 ≤ I32.MAX := by push_cast at hk ⊢; omega
      simp [I32.add, I32.chk, h1, h2]
    by_cases h : a.tmod c = 0
    · have := ih (a.tdiv c) (k + 1) (by push_cast at hk ⊢; omega)
      simp only [hr, bind_ok, h, RInt.is_zero, decide_true, if_true, hd, hadd, beq_self_eq_true]
      exact this
    · simp [hr, h, RInt.is_zero]

/-- the valuation is unique -/
theorem val_unique (a c : Int) (hc : 2 ≤ c.natAbs) (i j : Nat) (hi : c ^ i ∣ a) (hi' : ¬ c ^ (i + 1) ∣ a)
    (hj : c ^ j ∣ a) (hj' : ¬ c ^ (j + 1) ∣ a) : i = j := by
  rcases Nat.lt_trichotomy i j with h | h | h
  · exact absurd (Dvd.dvd.trans (pow_dvd_pow c (by omega)) hj) hi'
  · exact h
  · exact absurd (Dvd.dvd.trans (pow_dvd_pow c (by omega)) hi) hj'

/-- more fuel than `|a|` does not change the result of the model's loop -/
theorem divLoop_fuel (a c : Int) (hc : c ≠ 0) (ha : a ≠ 0) (f g : Nat) (hf : a.natAbs < f) (hg : a.natAbs < g) :
    C06.divLoop f a c 0 = C06.divLoop g a c 0 := by
  by_cases h1 : c.natAbs = 1
  · rw [C06.divLoop_unit f a c 0 h1, C06.divLoop_unit g a c 0 h1]
  · have h2 : 2 ≤ c.natAbs := by
      have : c.natAbs ≠ 0 := by simpa using hc
      omega
    obtain ⟨i, e1, d1, n1⟩ := C06.divLoop_spec a.natAbs f a c 0 (le_refl _) ha h2 hf
    obtain ⟨j, e2, d2, n2⟩ := C06.divLoop_spec a.natAbs g a c 0 (le_refl _) ha h2 hg
    rw [e1, e2, val_unique a c h2 i j d1 n1 d2 n2]

set_option linter.unusedSimpArgs false
/-- `misc::div`, for every sufficient fuel -/
theorem div_eq' (fuel : Nat) (a c : Int) (hf : a.natAbs < fuel) (hm : (fuel : Int) ≤ I32.MAX) :
    misc.div fuel a c = mapR (Option.map fun k : Nat => (k : Int)) (C06.div a c) := by
  unfold misc.div C06.div
  by_cases ha : a = 0
  · simp [ha, RInt.is_zero, mapR]
  · have ha' : (a == 0) = false := by simpa using ha
    simp only [RInt.is_zero, ha, decide_false, ha', Bool.false_eq_true, if_false]
    by_cases hc : c = 0
    · subst hc
      obtain ⟨n, rfl⟩ : ∃ n, fuel = n + 1 := ⟨fuel - 1, by omega⟩
      simp [misc.div_loop1, RInt.rem, mapR]
    · have hc' : (c == 0) = false := by simpa using hc
      simp only [hc', Bool.false_eq_true, if_false]
      have hl := div_loop_eq fuel c a 0 hc (by simpa using hm)
      rw [divLoop_fuel a c hc ha fuel (a.natAbs + 1) hf (by omega)] at hl
      cases hg : misc.div_loop1 fuel c a 0 with
      | ok r =>
        have hg' : misc.div_loop1 fuel c a ((0 : Nat) : Int) = ok r := hg
        rw [hg'] at hl
        cases hm' : C06.divLoop (a.natAbs + 1) a c 0 with
        | some k' => rw [hm'] at hl; simp at hl; simp [hl, mapR]
        | none => rw [hm'] at hl; simp at hl
      | panic =>
        have hg' : misc.div_loop1 fuel c a ((0 : Nat) : Int) = .panic := hg
        rw [hg'] at hl
        cases hm' : C06.divLoop (a.natAbs + 1) a c 0 <;> rw [hm'] at hl <;> simp at hl
      | err =>
        have hg' : misc.div_loop1 fuel c a ((0 : Nat) : Int) = .err := hg
        rw [hg'] at hl
        cases hm' : C06.divLoop (a.natAbs + 1) a c 0 with
        | some k' => rw [hm'] at hl; simp at hl
        | none => simp [mapR]

/-- minimum of an optional accumulator with the minimum of a list -/
def comb (m : Option Int) (ks : List Int) : Option Int :=
  match Iter.min ks with
  | none => m
  | some x => match m with
    | none => some x
    | some m => some (if m ≤ x then m else x)

theorem comb_none (ks : List Int) : comb none ks = Iter.min ks := by
  unfold comb; cases Iter.min ks <;> rfl

theorem comb_cons (m : Option Int) (k : Int) (ks : List Int) :
    comb m (k :: ks) = comb (match m with | none => some k | some m => some (if m ≤ k then m else k)) ks := by
  unfold comb
  simp only [Iter.min]
  cases hk : Iter.min ks <;> cases m <;> simp
  all_goals (repeat' split) <;> omega

def step (c : Int) (acc : Res (Option Nat)) (a : Int) : Res (Option Nat) :=
  match acc, C06.div a c with
  | .ok m, .ok (some k) => .ok (match m with | none => some k | some m => some (min m k))
  | .ok m, .ok none => .ok m
  | .ok _, .panic => .panic
  | .ok _, .err => .err
  | e, _ => e

theorem foldl_panic (c : Int) (l : List Int) : l.foldl (step c) .panic = .panic := by
  induction l with
  | nil => rfl
  | cons x xs ih => simpa [List.foldl, step] using ih
theorem foldl_err (c : Int) (l : List Int) : l.foldl (step c) .err = .err := by
  induction l with
  | nil => rfl
  | cons x xs ih => simpa [List.foldl, step] using ih

theorem fold_eq (fuel : Nat) (c : Int) (hm : (fuel : Int) ≤ I32.MAX) :
    ∀ (l : List (Nat × Int)) (m : Option Nat), (∀ x ∈ l, x.2.natAbs < fuel) →
      (Iter.filterMapM (misc.div_vec_closure1 fuel c) l >>= fun ks => ok (comb (m.map fun k : Nat => (k : Int)) ks)) =
        mapR (Option.map fun k : Nat => (k : Int)) ((l.map Prod.snd).foldl (step c) (.ok m)) := by
  intro l
  induction l with
  | nil => intro m _; simp [Iter.filterMapM, comb, Iter.min, mapR]
  | cons x xs ih =>
    intro m hx
    obtain ⟨i, a⟩ := x
    have ha : a.natAbs < fuel := hx (i, a) (by simp)
    have hxs : ∀ y ∈ xs, y.2.natAbs < fuel := fun y hy => hx y (by simp [hy])
    have hg : misc.div_vec_closure1 fuel c (i, a) = mapR (Option.map fun k : Nat => (k : Int)) (C06.div a c) := by
      unfold misc.div_vec_closure1; exact div_eq' fuel a c ha hm
    simp only [Iter.filterMapM, hg, List.map_cons, List.foldl_cons]
    cases hd : C06.div a c with
    | ok o =>
      cases o with
      | none =>
        have : step c (.ok m) a = .ok m := by simp [step, hd]
        rw [this, ← ih m hxs]
        cases Iter.filterMapM (misc.div_vec_closure1 fuel c) xs <;> simp [mapR]
      | some k =>
        have : step c (.ok m) a = .ok (match m with | none => some k | some m => some (min m k)) := by
          simp [step, hd]
        rw [this, ← ih _ hxs]
        cases hys : Iter.filterMapM (misc.div_vec_closure1 fuel c) xs with
        | ok ys =>
          simp only [mapR, Option.map_some, bind_ok, comb_cons]
          congr 2
          cases m with
          | none => rfl
          | some m' =>
            simp only [Option.map_some]
            congr 1
            by_cases hle : m' ≤ k
            · have : (m' : Int) ≤ (k : Int) := by exact_mod_cast hle
              simp [this, Nat.min_eq_left hle]
            · have h1 : ¬ (m' : Int) ≤ (k : Int) := by exact_mod_cast hle
              simp [h1, Nat.min_eq_right (Nat.le_of_not_le hle)]
        | panic => simp [mapR]
        | err => simp [mapR]
    | panic =>
      have : step c (.ok m) a = .panic := by simp [step, hd]
      simp [this, foldl_panic, mapR]
    | err =>
      have : step c (.ok m) a = .err := by simp [step, hd]
      simp [this, foldl_err, mapR]


end Yuiv.C06Gen
