import Yuiv.Model.C19
import Mathlib.Data.Matrix.Block
import Mathlib.LinearAlgebra.Matrix.Notation
import Mathlib.Algebra.CharP.Defs
import Mathlib.Algebra.CharP.Two
import Mathlib.Tactic.Ring
/- helper lemmas for C19 -/
namespace Yuiv.C19
open Matrix

/-- matrices over a ring of characteristic 2: `a + a = 0` -/
theorem mat_add_self {n : Nat} {R : Type} [CommRing R] [CharP R 2] (a : Matrix (Fin n) (Fin n) R) : a + a = 0 := by
  ext i j; simp [CharTwo.add_self_eq_zero]

theorem mat_add_eq_zero {n : Nat} {R : Type} [CommRing R] [CharP R 2] (a b : Matrix (Fin n) (Fin n) R) :
    a + b = 0 ↔ a = b := by
  constructor
  · intro h
    have : a + b + b = b := by rw [h, zero_add]
    rw [add_assoc, mat_add_self, add_zero] at this
    exact this
  · rintro rfl; exact mat_add_self a

end Yuiv.C19
