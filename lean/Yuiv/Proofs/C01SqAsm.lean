import Yuiv.Proofs.C01SqDefs
import Yuiv.Props.C01
import Mathlib.Tactic.Ring
/-
C01SqAsm — ASSEMBLY of `d ∘ d = 0` of the reference cube (unreduced theory) from the commutation of its faces.

  * `edgeList c p g k`     : the terms the cube edge `k` contributes to `d g` (signed, as generators);
  * `d_toList`             : `d g` is defined on a `cubeOK` cube and is the concatenation of the `edgeList`s;
  * `sqTerm c p g y k1 k2` : contribution of the path "flip `k1`, then flip `k2`" to the coefficient of `y` in `d (d g)`:
        [bit k1 of g.s clear ∧ bit k2 of g.s|2^k1 clear ∧ g.s|2^k1|2^k2 = y.s] · sign · sign · pathSum;
  * `chainSum_d_d`         : coefficient formula  `chainSum d (d g) y = Σ_{k1<n} Σ_{k2<n} sqTerm k1 k2`;
  * `sqTerm_antisymm`      : `sqTerm k1 k2 = − sqTerm k2 k1` (sign rule `edgeSign_anticomm` + `FaceComm`);
  * `sum_antisymm`         : an antisymmetric double sum over `l × l` vanishes;
  * `d_squared_zero_of_faces` : the driver's `dOfChain` of the chain `d g` is the zero chain.
-/
namespace Yuiv.C01Sq
open Yuiv Yuiv.KhRef
open Yuiv.C02Mirror (edgeTerms dStep dF coefT dCoef kTerm cubeOK coefOf)
open Yuiv.C06Cycle (termSum chainSum)
open Yuiv.C06Cycle.HModel (dList)

/-! ### sums over lists -/

theorem sum_map_zero {α : Type} (l : List α) : (l.map (fun _ => (0 : Int))).sum = 0 := by
  induction l with
  | nil => rfl
  | cons a l ih => rw [List.map_cons, List.sum_cons, ih]; rfl

theorem sum_map_add {α : Type} (l : List α) (f g : α → Int) :
    (l.map (fun a => f a + g a)).sum = (l.map f).sum + (l.map g).sum := by
  induction l with
  | nil => rfl
  | cons a l ih => simp only [List.map_cons, List.sum_cons, ih]; omega

theorem sum_map_neg {α : Type} (l : List α) (f : α → Int) :
    (l.map (fun a => - f a)).sum = - (l.map f).sum := by
  induction l with
  | nil => rfl
  | cons a l ih => simp only [List.map_cons, List.sum_cons, ih]; omega

theorem sum_mul_left {α : Type} (l : List α) (x : Int) (f : α → Int) :
    x * (l.map f).sum = (l.map (fun a => x * f a)).sum := by
  induction l with
  | nil => simp
  | cons a l ih => simp only [List.map_cons, List.sum_cons, ← ih, Int.mul_add]

/-- exchange of two finite sums -/
theorem sum_map_swap {α β : Type} (l1 : List α) (l2 : List β) (f : α → β → Int) :
    (l1.map (fun a => (l2.map (fun b => f a b)).sum)).sum = (l2.map (fun b => (l1.map (fun a => f a b)).sum)).sum := by
  induction l1 with
  | nil => simp only [List.map_nil, List.sum_nil]; exact (sum_map_zero l2).symm
  | cons a l1 ih => simp only [List.map_cons, List.sum_cons, ih, sum_map_add]

/-- an antisymmetric double sum over `l × l` vanishes -/
theorem sum_antisymm {α : Type} (l : List α) (f : α → α → Int) (h : ∀ a ∈ l, ∀ b ∈ l, f a b = - f b a) :
    (l.map (fun a => (l.map (fun b => f a b)).sum)).sum = 0 := by
  have h1 : (l.map (fun a => (l.map (fun b => f a b)).sum)).sum
      = (l.map (fun a => - (l.map (fun b => f b a)).sum)).sum := by
    congr 1
    apply List.map_congr_left
    intro a ha
    rw [← sum_map_neg]
    congr 1
    apply List.map_congr_left
    intro b hb
    exact h a ha b hb
  rw [sum_map_neg, ← sum_map_swap l l f] at h1
  omega

/-! ### `d g` as a list of terms -/

/-- the terms contributed to `d g` by the cube edge that flips bit `k` -/
def edgeList (c : Cube) (p : Params) (g : Gen) (k : Nat) : List Term :=
  if g.s.testBit k = false then
    ((edgeTerms p.h p.t c.circ[g.s]! c.circ[g.s ||| 1 <<< k]! g.mask).getD []).map
      (fun mt => ((⟨g.s ||| 1 <<< k, mt.1⟩ : Gen), edgeSign g.s k * mt.2))
  else []

theorem dStep_toList (c : Cube) (p : Params) (g : Gen) (out : Array Term) (k : Nat) (ts : Array Term)
    (h : dStep c p g out k = some ts) : ts.toList = out.toList ++ edgeList c p g k := by
  unfold dStep at h
  unfold edgeList
  cases hb : g.s.testBit k
  · simp only [hb, Bool.not_false, if_true] at h ⊢
    cases he : edgeTerms p.h p.t c.circ[g.s]! c.circ[g.s ||| 1 <<< k]! g.mask with
    | none => rw [he] at h; cases h
    | some tl =>
      rw [he] at h
      simp only [Option.some.injEq] at h
      subst h
      simp
  · simp only [hb, Bool.not_true, Bool.false_eq_true, if_false, Option.some.injEq] at h ⊢
    subst h
    simp

theorem foldlM_toList (c : Cube) (p : Params) (g : Gen) (is : List Nat) (acc ts : Array Term)
    (h : is.foldlM (dStep c p g) acc = some ts) : ts.toList = acc.toList ++ is.flatMap (edgeList c p g) := by
  induction is generalizing acc with
  | nil =>
    simp only [List.foldlM_nil] at h
    cases h
    simp
  | cons k is ih =>
    rw [List.foldlM_cons] at h
    cases hd : dStep c p g acc k with
    | none => rw [hd] at h; cases h
    | some a1 =>
      rw [hd] at h
      rw [ih a1 h, dStep_toList c p g acc k a1 hd, List.flatMap_cons, List.append_assoc]

/-- on a cube all of whose edges are merges or splits, `d g` is defined and is the concatenation of the edge lists -/
theorem d_toList (c : Cube) (p : Params) (hb : c.base = none) (hok : cubeOK c) (g : Gen) (hs : g.s < 2 ^ c.n) :
    ∃ ts, c.d p g = some ts ∧ ts.toList = (List.range' 0 c.n).flatMap (edgeList c p g) := by
  obtain ⟨ts, hd⟩ := (C02Mirror.d_coef c p g hb hs hok).1
  refine ⟨ts, hd, ?_⟩
  rw [C02Mirror.d_eq c p g hb] at hd
  have := foldlM_toList c p g (List.range' 0 c.n) #[] ts hd
  simpa using this

theorem mem_edgeList_s (c : Cube) (p : Params) (g : Gen) (k : Nat) (ga : Term) (h : ga ∈ edgeList c p g k) :
    ga.1.s = g.s ||| 1 <<< k := by
  unfold edgeList at h
  split at h
  · obtain ⟨mt, _, rfl⟩ := List.mem_map.1 h
    rfl
  · cases h

/-! ### coefficients -/

theorem termSum_toList (ts : Array Term) (y : Gen) : termSum y ts.toList = coefT ts y := by
  unfold termSum coefT
  have e : (fun t : Term => t.1 == y) = (fun x : Term => x.1.s == y.s && x.1.mask == y.mask) := by
    funext x
    obtain ⟨⟨s1, m1⟩, a⟩ := x
    obtain ⟨s2, m2⟩ := y
    rfl
  rw [e]

/-- coefficient of `y` in `d g'` (as used by the driver) = matrix entry `dCoef` -/
theorem termSum_dList (c : Cube) (p : Params) (g' y : Gen) : termSum y (dList c p g') = dCoef c p g' y := by
  unfold dList dCoef
  cases c.d p g' with
  | none => rfl
  | some ts => exact termSum_toList ts y

theorem chainSum_nil (D : Gen → List Term) (y : Gen) : chainSum D [] y = 0 := rfl

theorem chainSum_append (D : Gen → List Term) (z1 z2 : List (Gen × Int)) (y : Gen) :
    chainSum D (z1 ++ z2) y = chainSum D z1 y + chainSum D z2 y := by
  unfold chainSum
  rw [List.map_append, List.sum_append]

theorem chainSum_flatMap {α : Type} (D : Gen → List Term) (is : List α) (F : α → List (Gen × Int)) (y : Gen) :
    chainSum D (is.flatMap F) y = (is.map (fun k => chainSum D (F k) y)).sum := by
  induction is with
  | nil => rfl
  | cons k is ih => rw [List.flatMap_cons, chainSum_append, ih, List.map_cons, List.sum_cons]

/-- contribution of the path "flip bit `k1`, then flip bit `k2`" to the coefficient of `y` in `d (d g)` -/
def sqTerm (c : Cube) (p : Params) (g y : Gen) (k1 k2 : Nat) : Int :=
  if g.s.testBit k1 = false ∧ (g.s ||| 1 <<< k1).testBit k2 = false ∧ (g.s ||| 1 <<< k1) ||| 1 <<< k2 = y.s then
    edgeSign g.s k1 * edgeSign (g.s ||| 1 <<< k1) k2 *
      pathSum p.h p.t c.circ[g.s]! c.circ[g.s ||| 1 <<< k1]! c.circ[(g.s ||| 1 <<< k1) ||| 1 <<< k2]! g.mask y.mask
  else 0

/-- the part of `d (d g)` that passes through the cube edge `k1` -/
theorem chainSum_edgeList (c : Cube) (p : Params) (hb : c.base = none) (hok : cubeOK c) (g y : Gen)
    (hs : g.s < 2 ^ c.n) (k1 : Nat) (h1 : k1 < c.n) :
    chainSum (dList c p) (edgeList c p g k1) y = ((List.range' 0 c.n).map (fun k2 => sqTerm c p g y k1 k2)).sum := by
  obtain ⟨ys, ym⟩ := y
  unfold edgeList
  by_cases hbit : g.s.testBit k1 = false
  · rw [if_pos hbit]
    obtain ⟨tl, htl⟩ : ∃ tl, (edgeTerms p.h p.t c.circ[g.s]! c.circ[g.s ||| 1 <<< k1]! g.mask).getD [] = tl := ⟨_, rfl⟩
    rw [htl]
    have hs1 : g.s ||| 1 <<< k1 < 2 ^ c.n := C02Mirror.or_bit_lt _ _ _ hs h1
    have hterm : ∀ m', termSum ⟨ys, ym⟩ (dList c p ⟨g.s ||| 1 <<< k1, m'⟩)
        = ((List.range' 0 c.n).map (kTerm c p ⟨g.s ||| 1 <<< k1, m'⟩ ⟨ys, ym⟩)).sum := by
      intro m'
      rw [termSum_dList]
      exact (C02Mirror.d_coef c p ⟨_, m'⟩ hb hs1 hok).2 _
    unfold chainSum
    rw [List.map_map]
    have e : (tl.map ((fun ga : Gen × Int => ga.2 * termSum ⟨ys, ym⟩ (dList c p ga.1)) ∘
          (fun mt : Nat × Int => ((⟨g.s ||| 1 <<< k1, mt.1⟩ : Gen), edgeSign g.s k1 * mt.2)))).sum
        = (tl.map (fun mt => ((List.range' 0 c.n).map (fun k2 =>
            edgeSign g.s k1 * mt.2 * kTerm c p ⟨g.s ||| 1 <<< k1, mt.1⟩ ⟨ys, ym⟩ k2)).sum)).sum := by
      congr 1
      apply List.map_congr_left
      intro mt _
      simp only [Function.comp]
      rw [hterm, sum_mul_left]
    rw [e, sum_map_swap]
    congr 1
    apply List.map_congr_left
    intro k2 _
    unfold sqTerm pathSum
    rw [htl]
    by_cases hc : (g.s ||| 1 <<< k1).testBit k2 = false ∧ (g.s ||| 1 <<< k1) ||| 1 <<< k2 = ys
    · rw [if_pos ⟨hbit, hc.1, hc.2⟩, sum_mul_left]
      congr 1
      apply List.map_congr_left
      intro mt _
      rw [C02Mirror.kTerm_pos _ _ _ _ _ _ _ hc]
      ring
    · rw [if_neg (fun h => hc ⟨h.2.1, h.2.2⟩)]
      rw [← sum_map_zero tl]
      congr 1
      apply List.map_congr_left
      intro mt _
      rw [C02Mirror.kTerm_neg _ _ _ _ _ _ _ hc, Int.mul_zero]
  · rw [if_neg hbit, chainSum_nil, ← sum_map_zero (List.range' 0 c.n)]
    congr 1
    apply List.map_congr_left
    intro k2 _
    unfold sqTerm
    rw [if_neg (fun h => hbit h.1)]

/-- COEFFICIENT FORMULA: the coefficient of `y` in `d (d g)` is the double sum of the path contributions -/
theorem chainSum_d_d (c : Cube) (p : Params) (hb : c.base = none) (hok : cubeOK c) (g : Gen) (hs : g.s < 2 ^ c.n)
    (ts : Array Term) (hd : c.d p g = some ts) (y : Gen) :
    chainSum (dList c p) ts.toList y
      = ((List.range' 0 c.n).map (fun k1 => ((List.range' 0 c.n).map (fun k2 => sqTerm c p g y k1 k2)).sum)).sum := by
  obtain ⟨ts', hd', hl⟩ := d_toList c p hb hok g hs
  rw [hd] at hd'
  cases hd'
  rw [hl, chainSum_flatMap]
  congr 1
  apply List.map_congr_left
  intro k1 hk1
  have h1 : k1 < c.n := by
    simp only [List.mem_range'] at hk1
    omega
  exact chainSum_edgeList c p hb hok g y hs k1 h1

/-- the two ways around a face contribute opposite terms (and a "path" flipping the same bit twice contributes `0`) -/
theorem sqTerm_antisymm (c : Cube) (p : Params) (hF : FaceComm c p) (g y : Gen) (hs : g.s < 2 ^ c.n) (k1 k2 : Nat)
    (h1 : k1 < c.n) (h2 : k2 < c.n) : sqTerm c p g y k1 k2 = - sqTerm c p g y k2 k1 := by
  unfold sqTerm
  by_cases hk : k1 = k2
  · subst hk
    have hn : ¬ (g.s.testBit k1 = false ∧ (g.s ||| 1 <<< k1).testBit k1 = false ∧
        (g.s ||| 1 <<< k1) ||| 1 <<< k1 = y.s) := by
      rintro ⟨_, h, _⟩
      rw [testBit_or_bit] at h
      simp at h
    rw [if_neg hn]
    rfl
  · have e1 : (g.s ||| 1 <<< k1).testBit k2 = g.s.testBit k2 := by rw [testBit_or_bit]; simp [hk]
    have e2 : (g.s ||| 1 <<< k2).testBit k1 = g.s.testBit k1 := by rw [testBit_or_bit]; simp [Ne.symm hk]
    have e3 : (g.s ||| 1 <<< k2) ||| 1 <<< k1 = (g.s ||| 1 <<< k1) ||| 1 <<< k2 := by
      rw [Nat.or_assoc, Nat.or_comm (1 <<< k2), ← Nat.or_assoc]
    rw [e1, e2, e3]
    by_cases hc : g.s.testBit k1 = false ∧ g.s.testBit k2 = false ∧ (g.s ||| 1 <<< k1) ||| 1 <<< k2 = y.s
    · rw [if_pos hc, if_pos ⟨hc.2.1, hc.1, hc.2.2⟩, edgeSign_anticomm g.s k1 k2 hk hc.1 hc.2.1,
        hF g.s k1 k2 hs h1 h2 hk hc.1 hc.2.1]
      ring
    · rw [if_neg hc, if_neg (fun h => hc ⟨h.2.1, h.1, h.2.2⟩)]
      rfl

/-- ASSEMBLY: on a cube of the unreduced theory all of whose edges are merges/splits and all of whose faces commute,
`d g` is defined and the driver's evaluation of `d` on the chain `d g` is the zero chain, i.e. `d (d g) = 0`. -/
theorem d_squared_zero_of_faces (c : Cube) (p : Params) (hb : c.base = none) (hok : C02Mirror.cubeOK c)
    (hF : FaceComm c p) (g : Gen) (hs : g.s < 2 ^ c.n) :
    ∃ ts, c.d p g = some ts ∧ Yuiv.Drv.C06.dOfChain c p ts.toList = some [] := by
  obtain ⟨ts, hd, hl⟩ := d_toList c p hb hok g hs
  refine ⟨ts, hd, (C06Cycle.dOfChain_nil_iff c p ts.toList).2 ⟨?_, fun y => ?_⟩⟩
  · intro ga hm
    rw [hl] at hm
    obtain ⟨k, hk, hmk⟩ := List.mem_flatMap.1 hm
    have h1 : k < c.n := by
      simp only [List.mem_range'] at hk
      omega
    have hs1 : ga.1.s < 2 ^ c.n := by
      rw [mem_edgeList_s c p g k ga hmk]
      exact C02Mirror.or_bit_lt _ _ _ hs h1
    exact (C02Mirror.d_coef c p ga.1 hb hs1 hok).1
  · have := chainSum_d_d c p hb hok g hs ts hd y
    refine Eq.trans this ?_
    apply sum_antisymm
    intro k1 hk1 k2 hk2
    simp only [List.mem_range'] at hk1 hk2
    exact sqTerm_antisymm c p hF g y hs k1 k2 (by omega) (by omega)

end Yuiv.C01Sq
