import Yuiv.Gen.TriangFn
set_option linter.unusedSectionVars false
/-
Helper definitions and lemmas for `Yuiv/Props/C12Gen.lean` (no property theorem here).

`Yuiv.GenTriang.*` is GENERATED from `/repo/yui-matrix/src/sparse/triang.rs` by `tools/rs2lean_fn.py fn:triang`;
`Yuiv.C12.*` (`Yuiv/Model/C12.lean`) is the hand-written model, generic over `[Scal α]`.  Both use the same CSC
representation; the generated code keeps the index panics of `b[i]`, which the model totalises (`bget` / `bset`), so
the equalities hold for matrices whose stored row indices are in range (`RowsOk`, part of the CSC invariant).
-/
namespace Yuiv.C12Gen
open Yuiv Res Yuiv.Rust Yuiv.GenTriang Yuiv.C12

variable {α : Type} [Scal α]

/-- stored row indices are in range (CSC invariant) -/
def RowsOk (A : SpMat α) : Prop := ∀ j, ∀ e ∈ col A j, e.1 < A.nrows

/-- `t.is_upper()` -/
def up (t : TriangularType) : Bool := TriangularType.is_upper t

def mapR {β γ} (f : β → γ) : Res β → Res γ
  | .ok a => .ok (f a)
  | .panic => .panic
  | .err => .err

theorem mapR_ok {β γ} (f : β → γ) (a : β) : mapR f (ok a) = ok (f a) := rfl
theorem mapR_panic {β γ} (f : β → γ) : mapR f (.panic : Res β) = .panic := rfl
theorem mapR_err {β γ} (f : β → γ) : mapR f (.err : Res β) = .err := rfl
theorem assert_true : Res.assert true = ok () := rfl
theorem assert_false : Res.assert false = (.panic : Res Unit) := rfl
theorem pure_eq_ok {β} (a : β) : (pure a : Res β) = ok a := rfl
theorem bind_mapR {β γ δ} (f : β → γ) (x : Res β) (g : γ → Res δ) : (mapR f x >>= g) = (x >>= fun a => g (f a)) := by
  cases x <;> rfl

theorem colVec_rows {A : SpMat α} (h : RowsOk A) (j : Nat) : ∀ e ∈ colVec A j, e.1 < A.nrows :=
  fun e he => h j e (List.mem_filter.mp he).1

theorem enumFrom_eq (l : List α) : ∀ k, Csc.enumFrom k l = C12.enumFrom k l := by
  induction l with
  | nil => intro k; rfl
  | cons a l ih => intro k; simp [Csc.enumFrom, C12.enumFrom, ih]

theorem bset_size (b : Array α) (i : Nat) (v : α) : (bset b i v).size = b.size := by simp [bset]

theorem colStep_size (x : α) : ∀ (l : List (Nat × α)) (b : Array α), (colStep x b l).size = b.size := by
  intro l
  induction l with
  | nil => intro b; rfl
  | cons e l ih =>
    intro b
    unfold colStep
    rw [ih]
    split
    · rfl
    · exact bset_size _ _ _

theorem inner_step (x : α) (e : Nat × α) (b : Array α) (he : e.1 < b.size) :
    triang._solve_triangular__for2 x e b =
      ok (Ctl.next (if isZero e.2 then b else bset b e.1 (sub (bget b e.1) (mul e.2 x)))) := by
  unfold triang._solve_triangular__for2
  cases hz : isZero e.2
  · simp [Buf.get, Buf.set, he, hz]
  · simp [hz]

/-- the inner loop `for (i, a_ij) in a.col_vec(j).iter()` is `colStep` -/
theorem inner_eq (x : α) : ∀ (l : List (Nat × α)) (b : Array α), (∀ e ∈ l, e.1 < b.size) →
    Loop.forList l (triang._solve_triangular__for2 x) b = ok (colStep x b l, true) := by
  intro l
  induction l with
  | nil => intro b _; rfl
  | cons e l ih =>
    intro b h
    have he : e.1 < b.size := h e (List.mem_cons_self)
    unfold Loop.forList colStep
    rw [inner_step x e b he]
    simp only [bind_ok]
    refine ih _ (fun e' he' => ?_)
    have := h e' (List.mem_cons_of_mem _ he')
    split
    · exact this
    · rw [bset_size]; exact this

theorem outer_size (A : SpMat α) : ∀ (l : List (Nat × α)) (b : Array α) (es : List (Nat × α)) (b' : Array α)
    (es' : List (Nat × α)), outer A b es l = ok (b', es') → b'.size = b.size := by
  intro l
  induction l with
  | nil => intro b es b' es' h; unfold outer at h; cases h; rfl
  | cons ju l ih =>
    intro b es b' es' h
    unfold outer at h
    split at h
    · cases h
    · split at h
      · exact ih _ _ _ _ h
      · split at h
        · cases h
        · rw [ih _ _ _ _ h, colStep_size]

theorem outer_step (A : SpMat α) (ju : Nat × α) (b : Array α) (es : List (Nat × α))
    (h : ∀ e ∈ colVec A ju.1, e.1 < b.size) :
    triang._solve_triangular__for1 A ju (b, es) =
      if b.size ≤ ju.1 then Res.panic
      else if isZero (bget b ju.1) then ok (Ctl.next (b, es))
      else match inv ju.2 with
        | none => Res.panic
        | some ui => ok (Ctl.next (colStep (mul (bget b ju.1) ui) b (colVec A ju.1), es ++ [(ju.1, mul (bget b ju.1) ui)])) := by
  unfold triang._solve_triangular__for1
  by_cases hj : b.size ≤ ju.1
  · have : ¬ ju.1 < b.size := by omega
    simp [Buf.get, this, hj]
  · have hj' : ju.1 < b.size := by omega
    simp only [Buf.get, hj', if_true, bind_ok, hj, if_false]
    cases hz : isZero (bget b ju.1)
    · simp only [Bool.false_eq_true, if_false]
      cases hi : inv ju.2 with
      | none => rfl
      | some ui =>
        simp only [Opt.unwrap, bind_ok, SVec.iter, SM.col_vec, inner_eq _ _ _ h]
    · simp only [if_true]

/-- the outer loop `for (j, u) in itr` is `outer` -/
theorem outer_eq (A : SpMat α) : ∀ (l : List (Nat × α)) (b : Array α) (es : List (Nat × α)),
    (∀ j, ∀ e ∈ colVec A j, e.1 < b.size) →
    Loop.forList l (triang._solve_triangular__for1 A) (b, es) = mapR (fun p => (p, true)) (outer A b es l) := by
  intro l
  induction l with
  | nil => intro b es _; rfl
  | cons ju l ih =>
    intro b es h
    unfold Loop.forList outer
    rw [outer_step A ju b es (h ju.1)]
    by_cases hj : b.size ≤ ju.1
    · simp only [hj, if_true]; rfl
    · simp only [hj, if_false]
      cases hz : isZero (bget b ju.1)
      · simp only [Bool.false_eq_true, if_false]
        cases hi : inv ju.2 with
        | none => rfl
        | some ui =>
          simp only [bind_ok]
          exact ih _ _ (fun j e he => by rw [colStep_size]; exact h j e he)
      · simp only [if_true, bind_ok]
        exact ih _ _ h

theorem solveBuf_size (upper : Bool) (A : SpMat α) (diag : List α) (b b' : Array α) (es : List (Nat × α))
    (h : solveBuf upper A diag b = ok (b', es)) : b'.size = b.size := by
  unfold solveBuf at h
  cases ho : outer A b [] (if upper then (C12.enumFrom 0 diag).reverse else C12.enumFrom 0 diag) with
  | ok p =>
    obtain ⟨b1, es1⟩ := p
    have hs := outer_size A _ _ _ _ _ ho
    simp only [ho] at h
    by_cases c1 : (!(b1.all isZero)) = true
    · simp [c1] at h
    · by_cases c2 : (!((if upper then es1.reverse else es1).all fun e => decide (e.1 < A.ncols))) = true
      · simp only [c1, c2, if_true, if_false] at h
        cases h
      · simp only [c1, c2, if_false] at h
        cases h
        exact hs
  | panic => simp [ho] at h
  | err => simp [ho] at h

/-- the loop of `copy_into` is `copyInto` -/
theorem copy_loop_eq : ∀ (l : List (Nat × α)) (x : Array α), (∀ e ∈ l, e.1 < x.size) →
    triang.copy_into_loop1 l x = ok (copyInto x l) := by
  intro l
  induction l with
  | nil => intro x _; rfl
  | cons e l ih =>
    intro x h
    have he : e.1 < x.size := h e (List.mem_cons_self)
    unfold triang.copy_into_loop1 copyInto
    simp only [Buf.set, he, if_true, bind_ok]
    exact ih _ (fun e' he' => by rw [bset_size]; exact h e' (List.mem_cons_of_mem _ he'))

theorem copyInto_size : ∀ (l : List (Nat × α)) (x : Array α), (copyInto x l).size = x.size := by
  intro l
  induction l with
  | nil => intro x; rfl
  | cons e l ih => intro x; unfold copyInto; rw [ih, bset_size]

/-- a square matrix is what `is_triang` accepts -/
theorem isTriang_square {upper : Bool} {A : SpMat α} (h : isTriang upper A = true) : A.nrows = A.ncols := by
  unfold isTriang at h
  by_cases hs : A.nrows = A.ncols
  · exact hs
  · simp [hs] at h

theorem toDense_size (n : Nat) (v : List (Nat × α)) : (toDense n v).size = n := by
  unfold toDense
  rw [copyInto_size]
  simp [zeroBuf]

theorem idMat_rows (n : Nat) : RowsOk (idMat n : SpMat α) := by
  intro j e he
  unfold col idMat at he
  simp only [Array.getD_eq_getD_getElem?, List.getElem?_toArray, List.getElem?_map, List.getElem?_range] at he
  by_cases hj : j < n
  · simp [hj] at he
    rw [he]
    exact hj
  · simp [hj] at he

theorem transpose_rows (M : SpMat α) : RowsOk (transpose M) := by
  intro i e he
  unfold col transpose at he
  simp only [Array.getD_eq_getD_getElem?, List.getElem?_toArray, List.getElem?_map, List.getElem?_range] at he
  by_cases hi : i < M.nrows
  · simp [hi] at he
    obtain ⟨j, hj, a, b, _, hab⟩ := he
    show e.1 < M.ncols
    obtain ⟨_, rfl⟩ := hab
    exact hj
  · simp [hi] at he

theorem solveCols_length (upper : Bool) (A : SpMat α) (diag : List α) (Y : SpMat α) :
    ∀ (js : List Nat) (b b' : Array α) (cs : List (List (Nat × α))),
      solveCols upper A diag Y b js = ok (b', cs) → cs.length = js.length := by
  intro js
  induction js with
  | nil => intro b b' cs h; unfold solveCols at h; cases h; rfl
  | cons j js ih =>
    intro b b' cs h
    unfold solveCols at h
    cases hs : solveBuf upper A diag (copyInto b (colVec Y j)) with
    | ok p =>
      obtain ⟨b2, es⟩ := p
      simp only [hs] at h
      cases hc : solveCols upper A diag Y b2 js with
      | ok q =>
        obtain ⟨b3, rest⟩ := q
        simp only [hc] at h
        cases h
        simp [ih _ _ _ hc]
      | panic => simp [hc] at h
      | err => simp [hc] at h
    | panic => simp [hs] at h
    | err => simp [hs] at h

end Yuiv.C12Gen
