import Yuiv.Proofs.C15Q
/-
C15 — `FF<p>` for an arbitrary prime `p`: the model `ffOps p` (residues `0..p`, `inv` = the unique solution of
`a·x ≡ 1 (mod p)`, what `ff.rs` obtains from the integers' `gcdx(a, p)` reduced mod `p`) is a `FieldModel` over
`ZMod p`; so all the field-level Euclidean-ring lemmas of `Proofs/C15Q.lean` apply to it.
(The search `List.find?` in the model's `inv` succeeds because `ZMod p` is a field: `(a : ZMod p)⁻¹.val` is a
solution — `FF.inv_spec` in Proofs/C15Poly.)
-/
namespace Yuiv.C15
open Yuiv

namespace FF
variable (p : Nat) [hp : Fact p.Prime]

theorem cast_eq_zero_iff (a : Nat) (ha : a < p) : (a : ZMod p) = 0 ↔ a = 0 := by
  rw [ZMod.natCast_eq_zero_iff]
  exact ⟨fun h => Nat.eq_zero_of_dvd_of_lt h ha, fun h => by rw [h]; exact dvd_zero _⟩

theorem one_mod : 1 % p = 1 := Nat.mod_eq_of_lt hp.out.one_lt

theorem fieldModel : FieldModel (ffOps p) (fun a => a < p) (fun a => (a : ZMod p)) where
  rep := fieldRep p
  rem_eq := fun _ _ => rfl
  norm_eq := fun _ => rfl
  normUnit_zero := by
    intro a ha h0
    have : a = 0 := (cast_eq_zero_iff p a ha).1 h0
    subst this
    show ((FF.normUnit p 0 : ℕ) : ZMod p) = 1
    have : inv p 0 = none := by simp [inv]
    unfold FF.normUnit; rw [this]; simp
  normUnit_ne := by
    intro a ha h0
    obtain ⟨i, hi, _, he⟩ := inv_spec p a ha h0
    show ((FF.normUnit p a : ℕ) : ZMod p) = _
    unfold FF.normUnit; rw [hi]
    exact eq_inv_of_mul_eq_one_right he
  isUnit_eq := fun _ => rfl
  inv_zero := by
    intro a ha h0
    have : a = 0 := (cast_eq_zero_iff p a ha).1 h0
    subst this
    show inv p 0 = none
    simp [inv]
  inv_ne := by
    intro a ha h0
    obtain ⟨i, hi, hip, he⟩ := inv_spec p a ha h0
    exact ⟨i, hi, hip, eq_inv_of_mul_eq_one_right he⟩

omit hp in
theorem isZero_iff (a : Nat) : (ffOps p).isZero a = true ↔ a = 0 := by
  show (a == 0) = true ↔ _; simp

omit hp in
theorem isZero_false_iff (a : Nat) : (ffOps p).isZero a = false ↔ a ≠ 0 := by
  show (a == 0) = false ↔ _; simp

omit hp in
theorem ite_and {α : Type} (x y : Nat) (u v : α) :
    (if ((ffOps p).isZero x && (ffOps p).isZero y) = true then u else v) = if x = 0 ∧ y = 0 then u else v := by
  simp [ffOps]

omit hp in
theorem ite_or {α : Type} (x y : Nat) (u v : α) :
    (if ((ffOps p).isZero x || (ffOps p).isZero y) = true then u else v) = if x = 0 ∨ y = 0 then u else v := by
  simp [ffOps]

omit hp in
theorem and_false_iff (x y : Nat) : ((ffOps p).isZero x && (ffOps p).isZero y) = false ↔ ¬(x = 0 ∧ y = 0) := by
  simp [ffOps]

omit hp in
theorem and_true_iff (x y : Nat) : ((ffOps p).isZero x && (ffOps p).isZero y) = true ↔ (x = 0 ∧ y = 0) := by
  simp [ffOps]

theorem one_eq : (ffOps p).one = 1 := one_mod p

end FF
end Yuiv.C15
