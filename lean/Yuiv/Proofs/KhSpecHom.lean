import Yuiv.Proofs.KhSpecQ
import Yuiv.Proofs.C02MirrorAlg
/-
KhSpec — the reported ranks are the dimensions of `ker/im` (helper): for a family `G` closed under `d`, the group at an
interior position `j + 1` is the homology of `ℤ^{G[j]} --(dMat j)ᵀ--> ℤ^{G[j+1]} --(dMat (j+1))ᵀ--> ℤ^{G[j+2]}` in the
sense of `Proofs/C03Uct`, and at position `0` of `0 --> ℤ^{G[0]} --(dMat 0)ᵀ--> ℤ^{G[1]}`.
-/
namespace Yuiv.KhSpec
open Yuiv Yuiv.KhRef Matrix Yuiv.KhSnf Yuiv.C03Uct Yuiv.C03 Module

theorem equivDiag_nil_of_rows {m n : Nat} (hm : m = 0) (A : Matrix (Fin m) (Fin n) ℤ) : EquivDiag A [] := by
  subst hm
  exact ⟨by simp, 1, 1, by simp, by simp, by ext i; exact i.elim0⟩

theorem equivDiag_nil_of_cols {m n : Nat} (hn : n = 0) (A : Matrix (Fin m) (Fin n) ℤ) : EquivDiag A [] := by
  subst hn
  exact ⟨by simp, 1, 1, by simp, by simp, by ext i j; exact j.elim0⟩

variable {c : Cube} {p : Params} {G : Array (Array Gen)}

/-- the diagonal is a diagonal form of the transposed matrix, at every position (trivially beyond the last one) -/
theorem diagAt_equivDiag_T (H : Ctx c p) (F : Fam c p G) (hR : RowsOK G (dTab c p (gensByWeight c))) (i : Nat) :
    EquivDiag (dMat c p G i)ᵀ (diagAt c p G i) := by
  by_cases hi : i < c.n
  · exact Yuiv.C02Mirror.equivDiag_transpose _ _ (diagAt_equivDiag H F hR i hi)
  · rw [diagAt_nil F i (by omega)]
    apply equivDiag_nil_of_rows
    have : ¬ (i + 1 < G.size) := by rw [F.size]; omega
    rw [getElem!_neg G (i + 1) this]
    rfl

theorem dMat_mul_T (H : Ctx c p) (F : Fam c p G) (j : Nat) : (dMat c p G (j + 1))ᵀ * (dMat c p G j)ᵀ = 0 := by
  rw [← Matrix.transpose_mul, dMat_mul H F j, Matrix.transpose_zero]

/-- INTERIOR POSITIONS: over ℚ and over `𝔽_q` the reported rank is the dimension of `ker/im` of the complex tensored
with the field -/
theorem rank_is_homology (H : Ctx c p) (F : Fam c p G) (hR : RowsOK G (dTab c p (gensByWeight c))) (j : Nat)
    (hj : j < c.n) :
    ((homologyOf .Q G (dTab c p (gensByWeight c)))[j + 1]!).rank =
      finrank ℚ (Homology (toRat (dMat c p G j)ᵀ) (toRat (dMat c p G (j + 1))ᵀ)) ∧
    ∀ (q : ℕ) [Fact q.Prime], ((homologyOf (.Fp q) G (dTab c p (gensByWeight c)))[j + 1]!).rank =
      finrank (ZMod q) (Homology (redMod q (dMat c p G j)ᵀ) (redMod q (dMat c p G (j + 1))ᵀ)) := by
  have hA := diagAt_equivDiag_T H F hR j
  have hB := diagAt_equivDiag_T H F hR (j + 1)
  have hBA := dMat_mul_T H F j
  obtain ⟨_, _, g3, _, g5⟩ := groups_spec F hR (j + 1) (by omega)
  have hin : diagIn c p G (j + 1) = diagAt c p G j := by
    unfold diagIn; simp
  rw [hin] at g3 g5
  constructor
  · rw [g3, finrank_homology _ _ (toRat_mul_eq_zero _ _ hBA), rank_rat_of_equivDiag _ _ hA,
      rank_rat_of_equivDiag _ _ hB]
  · intro q hq
    rw [(g5 q hq.out.two_le).1, finrank_homology _ _ (redMod_mul_eq_zero q _ _ hBA),
      rank_zmod_of_equivDiag q _ _ hA, rank_zmod_of_equivDiag q _ _ hB]

/-- POSITION 0: the homology of `0 --> ℤ^{G[0]} --> ℤ^{G[1]}` -/
theorem rank_is_homology_zero (H : Ctx c p) (F : Fam c p G) (hR : RowsOK G (dTab c p (gensByWeight c))) :
    ((homologyOf .Q G (dTab c p (gensByWeight c)))[0]!).rank =
      finrank ℚ (Homology (toRat (0 : Matrix (Fin (G[0]!).size) (Fin 0) ℤ)) (toRat (dMat c p G 0)ᵀ)) ∧
    ∀ (q : ℕ) [Fact q.Prime], ((homologyOf (.Fp q) G (dTab c p (gensByWeight c)))[0]!).rank =
      finrank (ZMod q) (Homology (redMod q (0 : Matrix (Fin (G[0]!).size) (Fin 0) ℤ)) (redMod q (dMat c p G 0)ᵀ)) := by
  have hA : EquivDiag (0 : Matrix (Fin (G[0]!).size) (Fin 0) ℤ) [] := equivDiag_nil_of_cols rfl _
  have hB := diagAt_equivDiag_T H F hR 0
  have hBA : (dMat c p G 0)ᵀ * (0 : Matrix (Fin (G[0]!).size) (Fin 0) ℤ) = 0 := by simp
  obtain ⟨_, _, g3, _, g5⟩ := groups_spec F hR 0 (by omega)
  have hin : diagIn c p G 0 = [] := by unfold diagIn; simp
  rw [hin] at g3 g5
  constructor
  · rw [g3, finrank_homology _ _ (toRat_mul_eq_zero _ _ hBA), rank_rat_of_equivDiag _ _ hA,
      rank_rat_of_equivDiag _ _ hB]
  · intro q hq
    rw [(g5 q hq.out.two_le).1, finrank_homology _ _ (redMod_mul_eq_zero q _ _ hBA),
      rank_zmod_of_equivDiag q _ _ hA, rank_zmod_of_equivDiag q _ _ hB]

end Yuiv.KhSpec
