import Yuiv.Proofs.C11Term
/-
C11 — progress: in every state satisfying the invariant that still has work (a row to start or a task in
flight) some step is enabled and succeeds.  With `step_decreases` this means every maximal schedule ends,
after finitely many steps, in a state with no row left and no task in flight.
-/
namespace Yuiv.C11
open Yuiv Res Std

theorem setCandidate_ne_err (w : Worker) (j : Nat) : w.setCandidate j ≠ .err := by
  unfold Worker.setCandidate; split <;> intro h <;> cases h

theorem initLoop_ne_err (s : Str) (P : Pivs) (i : Nat) (js : List Nat) : ∀ w, initLoop s P i js w ≠ .err := by
  induction js with
  | nil => intro w h; cases h
  | cons j js ih =>
    intro w
    rw [initLoop]
    split
    · exact bind_ne_err (setOccupied_ne_err _ _) (fun w' => ih w')
    · split
      · exact bind_ne_err (setCandidate_ne_err _ _) (fun w' => ih w')
      · exact bind_ne_err (setOccupied_ne_err _ _) (fun w' => ih w')

theorem updateDiff_ne_err (N : List (Nat × Nat)) : ∀ w, updateDiff N w ≠ .err := by
  induction N with
  | nil => intro w h; cases h
  | cons p N ih =>
    intro w
    obtain ⟨i, j⟩ := p
    rw [updateDiff]
    split
    · exact bind_ne_err (setOccupied_ne_err _ _) (fun w' => ih w')
    · exact ih w

theorem ok_of_ne {α} {x : Res α} (h1 : x ≠ .err) (h2 : x ≠ .panic) : ∃ a, x = .ok a := by
  cases x with
  | ok a => exact ⟨a, rfl⟩
  | err => exact absurd rfl h1
  | panic => exact absurd rfl h2

theorem findWorker_head (w : Worker) (ws : List Worker) : findWorker (w :: ws) w.row = some w := by
  simp [findWorker]

theorem progress (s : Str) (hwf : s.WF) (st : State) (h : GInv s st) (hwork : st.todo ≠ [] ∨ st.ws ≠ []) :
    ∃ a st' o, step s st a = .ok (st', o) := by
  have key : ∀ a, step s st a ≠ .err → ∃ a st' o, step s st a = .ok (st', o) := by
    intro a hne
    obtain ⟨⟨st', o⟩, hok⟩ := ok_of_ne hne (step_good s hwf st h a).ne_panic
    exact ⟨a, st', o, hok⟩
  cases hws : st.ws with
  | cons w ws =>
    have hfw : findWorker st.ws w.row = some w := by rw [hws]; exact findWorker_head w ws
    cases hch : w.chosen with
    | none =>
      apply key (.search w.row none)
      rw [step, hfw]
      simp only [hch, Option.isSome_none, Bool.false_eq_true, if_false]
      exact bind_ne_err (traverse_ne_err _ _ _) (fun w' h' => by cases h')
    | some j =>
      apply key (.validate w.row)
      rw [step, hfw]
      simp only [hch]
      apply bind_ne_err (updateDiff_ne_err _ _)
      intro w'
      split
      · intro h'; cases h'
      · exact bind_ne_err (set_ne_err _ _ _) (fun S' h' => by cases h')
  | nil =>
    have htodo : st.todo ≠ [] := by
      rcases hwork with h1 | h1
      · exact h1
      · exact absurd hws h1
    cases htd : st.todo with
    | nil => exact absurd htd htodo
    | cons i is =>
      apply key (.start i st.S.length)
      rw [step]
      have hc : (st.todo.contains i && decide (st.S.length ≤ st.S.length) && (findWorker st.ws i).isNone) = true := by
        simp [htd, hws, findWorker]
      simp only [hc, if_true]
      unfold Worker.init
      exact bind_ne_err (initLoop_ne_err _ _ _ _ _) (fun w' h' => by cases h')

/-! ### `perm_for_indices` -/

theorem invFrom_notin : ∀ (l : List Nat) (pos j acc : Nat), j ∉ l → invFrom l pos j acc = acc := by
  intro l
  induction l with
  | nil => intro _ _ _ _; rfl
  | cons x xs ih =>
    intro pos j acc h
    simp only [List.mem_cons, not_or] at h
    rw [invFrom, ih _ _ _ h.2]
    have : ¬ x = j := fun e => h.1 e.symm
    simp [this]

theorem invFrom_getElem : ∀ (l : List Nat) (pos acc k : Nat) (hk : k < l.length), l.Nodup →
    invFrom l pos l[k] acc = pos + k := by
  intro l
  induction l with
  | nil => intro _ _ k hk; simp at hk
  | cons x xs ih =>
    intro pos acc k hk hnd
    have hnd' := List.nodup_cons.1 hnd
    cases k with
    | zero =>
      simp only [List.getElem_cons_zero, invFrom, beq_self_eq_true, if_true]
      rw [invFrom_notin _ _ _ _ hnd'.1]; rfl
    | succ k =>
      simp only [List.getElem_cons_succ, invFrom]
      have hk' : k < xs.length := by simpa using hk
      rw [ih (pos + 1) _ k hk' hnd'.2]
      omega

/-- `perm_for_indices(n, idx)` for distinct indices below `n`: no panic, and the permutation sends the
`k`-th given index to position `k` -/
theorem permVec_spec (n : Nat) (idx : List Nat) (hlt : ∀ i ∈ idx, i < n) (hnd : idx.Nodup) :
    ∃ vec, permVec n idx = .ok vec ∧ vec.Nodup ∧
      ∀ k (hk : k < idx.length), invAt vec idx[k] = k := by
  have hall : idx.all (· < n) = true := by simpa using hlt
  refine ⟨idx ++ (List.range n).filter (fun i => !idx.contains i), by simp [permVec, hall], ?_, ?_⟩
  · rw [List.nodup_append]
    refine ⟨hnd, List.nodup_range.sublist List.filter_sublist, ?_⟩
    intro a ha b hb e
    simp only [List.mem_filter, Bool.not_eq_true', List.contains_eq_mem, decide_eq_false_iff_not] at hb
    exact hb.2 (e ▸ ha)
  · intro k hk
    have hnd2 : (idx ++ (List.range n).filter (fun i => !idx.contains i)).Nodup := by
      rw [List.nodup_append]
      refine ⟨hnd, List.nodup_range.sublist List.filter_sublist, ?_⟩
      intro a ha b hb e
      simp only [List.mem_filter, Bool.not_eq_true', List.contains_eq_mem, decide_eq_false_iff_not] at hb
      exact hb.2 (e ▸ ha)
    have hk2 : k < (idx ++ (List.range n).filter (fun i => !idx.contains i)).length := by
      rw [List.length_append]; omega
    have hget : (idx ++ (List.range n).filter (fun i => !idx.contains i))[k] = idx[k] :=
      List.getElem_append_left hk
    unfold invAt
    rw [← hget, invFrom_getElem _ 0 0 k hk2 hnd2]
    omega

end Yuiv.C11
