import Yuiv.Proofs.C18BridgeDefs
import Yuiv.Proofs.C18InvOri
/-
C18Bridge — on every valid link the functional form `signsF` of the reference's `KhRef.crossingSigns`, run on
the translated link `toKh l`, returns the encoding of what the code model's `C18.crossingSigns l` returns.

Simulation: the reference's state `(sg : Array Int, passed : Array Nat)` and the code model's state
`(signs : List (Option Sign), passed : List Nat)` are related by `RR` (same signs through the encoding, same
SET of passed labels).  The two programs differ in three places, all harmless on valid codes:
  * the code model reports the start slot of a walk a second time (sign and label written twice);
  * on a free end the code model also reads a sign at the exit slot (never happens on valid codes);
  * the reference skips pass 2 if pass 1 has signed every crossing (then pass 2 cannot write a sign).
-/
namespace Yuiv.C18Bridge
open Yuiv Yuiv.KhRef
open Yuiv.C18 (Valid HE step lab thru partner iter RChain J sgnV)

/-! ### translation basics -/

theorem size_toKh (l : C18.Link) : (toKh l).size = l.length := by simp [toKh]

theorem getElem_toKh (l : C18.Link) (i : Nat) (hi : i < l.length) : (toKh l)[i]! = crossingKh l[i] := by
  unfold toKh
  rw [getElem!_pos _ _ (by simpa using hi)]
  simp

theorem ct_toKh (l : C18.Link) (i : Nat) (hi : i < l.length) : (toKh l)[i]!.ct = ctKh (C18.ctypeAt l i) := by
  rw [getElem_toKh l i hi, C18.ctypeAt_eq l i hi]; rfl

theorem edge_toKh (l : C18.Link) (i j : Nat) (hi : i < l.length) (hj : j < 4) :
    (toKh l)[i]!.e[j]! = C18.edgeAt l i j := by
  rw [getElem_toKh l i hi, C18.edgeAt_eq l i j hi]
  match j, hj with
  | 0, _ => rfl
  | 1, _ => rfl
  | 2, _ => rfl
  | 3, _ => rfl

theorem pass_ctKh (t : C18.CType) (j : Nat) : (ctKh t).pass j = t.pass j := by cases t <;> rfl
theorem isResolved_ctKh (t : C18.CType) : (ctKh t).isResolved = t.isResolved := by cases t <;> rfl

/-- encoding of an optional sign: `none ↦ 0` -/
def encO : Option C18.Sign → Int
  | none => 0
  | some s => encSign s

theorem encSign_ne (s : C18.Sign) : encSign s ≠ 0 := by cases s <;> decide

theorem slotSign_ctKh : ∀ t : C18.CType, ∀ j, j < 4 → slotSign (ctKh t) j = encO (C18.signAt t j) := by decide

theorem encO_eq_zero (o : Option C18.Sign) : (encO o == 0) = o.isNone := by
  cases o with
  | none => rfl
  | some s => simp [encO, encSign_ne]

/-! ### `partnerF` on a translated link is `pass_edge` -/

theorem slotsFrom_eq (l : List C18.Crossing) (pre : List C18.Crossing) :
    C18.slotsFrom l pre.length =
      ((List.range' pre.length l.length).flatMap (fun i' => (List.range 4).map (fun j' => (i', j')))).map
        (fun p => (p, C18.edgeAt (pre ++ l) p.1 p.2)) := by
  induction l generalizing pre with
  | nil => rfl
  | cons c cs ih =>
    have e : pre ++ c :: cs = (pre ++ [c]) ++ cs := by rw [List.append_assoc]; rfl
    have hl : (pre ++ [c]).length = pre.length + 1 := by simp
    have ih' := ih (pre ++ [c])
    rw [hl] at ih'
    rw [C18.slotsFrom, ih', List.length_cons, List.range'_succ, List.flatMap_cons, List.map_append, e]
    have hk : ∀ j, C18.edgeAt (pre ++ [c] ++ cs) pre.length j = c.edge j := by
      intro j
      unfold C18.edgeAt
      rw [← e, List.getElem?_append_right (Nat.le_refl _)]
      simp
    show _ = [((pre.length, 0), _), ((pre.length, 1), _), ((pre.length, 2), _), ((pre.length, 3), _)] ++ _
    simp only [hk]
    rfl

theorem slots_eq (l : C18.Link) :
    C18.slots l = (allSlots l.length).map (fun p => (p, C18.edgeAt l p.1 p.2)) := by
  have := slotsFrom_eq l []
  simpa [C18.slots, allSlots, List.range_eq_range'] using this

theorem mem_allSlots (n : Nat) (p : Nat × Nat) : p ∈ allSlots n ↔ p.1 < n ∧ p.2 < 4 := by
  unfold allSlots
  simp only [List.mem_flatMap, List.mem_range, List.mem_map]
  constructor
  · rintro ⟨i, hi, j, hj, rfl⟩; exact ⟨hi, hj⟩
  · rintro ⟨h1, h2⟩; exact ⟨p.1, h1, p.2, h2, rfl⟩

theorem find?_congr_mem {α} (p q : α → Bool) : ∀ (xs : List α), (∀ x ∈ xs, p x = q x) → xs.find? p = xs.find? q
  | [], _ => rfl
  | a :: r, h => by
    rw [List.find?_cons, List.find?_cons, h a List.mem_cons_self,
      find?_congr_mem p q r (fun x hx => h x (List.mem_cons_of_mem _ hx))]

theorem partnerF_toKh (l : C18.Link) (i k : Nat) (hi : i < l.length) (hk : k < 4) :
    partnerF (toKh l) i k = C18.passEdge l i k := by
  unfold partnerF C18.passEdge
  dsimp only
  rw [slots_eq, List.find?_map, Option.map_map, size_toKh, edge_toKh l i k hi hk]
  have hcongr : ∀ p ∈ allSlots l.length,
      ((toKh l)[p.1]!.e[p.2]! == C18.edgeAt l i k && !(p.1 == i && p.2 == k)) =
      ((fun (s : (Nat × Nat) × Nat) => s.2 == C18.edgeAt l i k && s.1 != (i, k)) ∘
        fun p => (p, C18.edgeAt l p.1 p.2)) p := by
    intro p hp
    obtain ⟨h1, h2⟩ := (mem_allSlots _ p).1 hp
    show _ = (C18.edgeAt l p.1 p.2 == C18.edgeAt l i k && p != (i, k))
    rw [edge_toKh l p.1 p.2 h1 h2]
    congr 1
  rw [find?_congr_mem _ _ _ hcongr]
  cases List.find? _ (allSlots l.length) <;> rfl

/-! ### one visit -/

/-- what one iteration of the reference's `while` loop does to `(sg, passed)` at the slot `p` -/
def khVisit (L : Link) (sk : Array Int × Array Nat) (p : Nat × Nat) : Array Int × Array Nat :=
  (if slotSign L[p.1]!.ct p.2 != 0 then sk.1.set! p.1 (slotSign L[p.1]!.ct p.2) else sk.1,
    sk.2.push (L[p.1]!.e[p.2]!))

/-- the simulation relation -/
structure RR (l : C18.Link) (sk : Array Int × Array Nat) (sc : List (Option C18.Sign) × List Nat) : Prop where
  sg : sk.1.toList = sc.1.map encO
  len : sc.1.length = l.length
  passed : ∀ e, e ∈ sk.2 ↔ e ∈ sc.2

theorem RR_visit (l : C18.Link) {sk sc} (h : RR l sk sc) (p : Nat × Nat) (hp : HE l p) :
    RR l (khVisit (toKh l) sk p) (C18.signsVisit l sc p) := by
  unfold khVisit C18.signsVisit
  rw [ct_toKh l p.1 hp.1, edge_toKh l p.1 p.2 hp.1 hp.2, slotSign_ctKh _ _ hp.2]
  cases hs : C18.signAt (C18.ctypeAt l p.1) p.2 with
  | none =>
    refine ⟨by simpa [encO] using h.sg, h.len, ?_⟩
    intro e
    simp only [Array.mem_push, List.mem_cons, h.passed]
    exact Or.comm
  | some s =>
    have hne : (encO (some s) != 0) = true := by simp [encO, encSign_ne]
    refine ⟨?_, by simpa using h.len, ?_⟩
    · simp only [hne, if_true]
      show (sk.1.setIfInBounds p.1 (encO (some s))).toList = _
      rw [Array.toList_setIfInBounds, h.sg, List.map_set]
    · intro e
      simp only [Array.mem_push, List.mem_cons, h.passed]
      exact Or.comm

theorem RR_fold (l : C18.Link) : ∀ (ps : List (Nat × Nat)) {sk sc}, RR l sk sc → (∀ p ∈ ps, HE l p) →
    RR l (ps.foldl (khVisit (toKh l)) sk) (ps.foldl (C18.signsVisit l) sc)
  | [], _, _, h, _ => h
  | p :: ps, _, _, h, hp =>
    RR_fold l ps (RR_visit l h p (hp p List.mem_cons_self)) (fun q hq => hp q (List.mem_cons_of_mem _ hq))

/-! ### one walk -/

theorem walk_sim (l : C18.Link) (hv : Valid l) (s : Nat × Nat) :
    ∀ (fuel : Nat) (cur : Nat × Nat) (acc path : List (Nat × Nat)) (sk : Array Int × Array Nat), HE l cur →
      C18.traverseLoop l s fuel cur acc = .ok path →
      ∃ w, path = acc.reverse ++ w ++ [s] ∧ (∀ p ∈ w, HE l p) ∧
        walkF (toKh l) s.1 s.2 fuel cur.1 cur.2 sk = (w.foldl (khVisit (toKh l)) sk, false) := by
  intro fuel
  induction fuel with
  | zero => intro cur acc path sk _ h; cases h
  | succ fuel ih =>
    intro cur acc path sk hc h
    have hk : HE l (cur.1, (C18.ctypeAt l cur.1).pass cur.2) := C18.ctypeAt_pass_lt l cur hc
    obtain ⟨next, hn, hnHE, _⟩ := C18.passEdge_valid' l hv _ hk
    unfold C18.traverseLoop at h
    simp only [hn] at h
    unfold walkF
    simp only [ct_toKh l cur.1 hc.1, pass_ctKh]
    rw [partnerF_toKh l cur.1 _ hc.1 hk.2, hn]
    obtain ⟨n1, n2⟩ := next
    by_cases hret : (n1, n2) = s
    · rw [if_pos hret] at h
      cases h
      refine ⟨[cur], by simp, ?_, ?_⟩
      · intro p hp; simp only [List.mem_cons, List.not_mem_nil, or_false] at hp; rw [hp]; exact hc
      · have e1 : n1 = s.1 := by rw [← hret]
        have e2 : n2 = s.2 := by rw [← hret]
        simp only [e1, e2, beq_self_eq_true, Bool.and_self, if_true, List.foldl_cons, List.foldl_nil]
        unfold khVisit
        simp only [ct_toKh l cur.1 hc.1]
    · rw [if_neg hret] at h
      obtain ⟨w, hw, hwHE, hwalk⟩ := ih (n1, n2) (cur :: acc) path
        (khVisit (toKh l) sk cur) hnHE h
      refine ⟨cur :: w, by rw [hw]; simp, ?_, ?_⟩
      · intro p hp
        rcases List.mem_cons.1 hp with rfl | hp
        · exact hc
        · exact hwHE p hp
      · have hne : (n1 == s.1 && n2 == s.2) = false := by
          cases h1 : (n1 == s.1 && n2 == s.2) with
          | false => rfl
          | true =>
            exfalso; apply hret
            simp only [Bool.and_eq_true, beq_iff_eq] at h1
            exact Prod.ext h1.1 h1.2
        simp only [hne, Bool.false_eq_true, if_false, List.foldl_cons]
        unfold khVisit at hwalk ⊢
        simp only [ct_toKh l cur.1 hc.1] at hwalk ⊢
        exact hwalk

/-! ### the second report of the start slot changes nothing -/

theorem set_same (xs : List (Option C18.Sign)) (i : Nat) (a : Option C18.Sign) (hi : i < xs.length)
    (h : xs.getD i none = a) : xs.set i a = xs := by
  rw [List.getD_eq_getElem?_getD, List.getElem?_eq_getElem hi] at h
  simp only [Option.getD_some] at h
  rw [← h]; exact List.set_getElem_self hi

/-- along one closed walk `v` of a valid code all sign writes agree with `sgnV l v` -/
theorem orbit_writes (l : C18.Link) (hv : Valid l) (s : Nat × Nat) (hs : HE l s) (v : List (Nat × Nat))
    (hc : RChain (step l) s v) (hret : step l (v.headD s) = s) (hall : ∀ h ∈ v, HE l h) :
    ∀ p ∈ v, ∀ a, C18.signAt (C18.ctypeAt l p.1) p.2 = some a → sgnV l v p.1 = some a := by
  have hsv : s ∈ v := hc.start_mem
  have vfwd : ∀ h ∈ v, step l h ∈ v := by
    intro h hh
    rcases hc.succ_mem h hh with e | e
    · rw [e, hret]; exact hsv
    · exact e
  have nothru : ∀ h ∈ v, thru l h ∉ v := by
    intro h hh hth
    have := C18.orbit_no_partner l hv s hs v hc (step l h) (thru l h) (vfwd h hh) hth
    exact this (C18.thru_partner_step l hv h (hall h hh)).symm
  intro p hp a hsg
  obtain ⟨_, hj, _, p31⟩ := C18.signAt_some_slot _ _ (hall p hp).2 a hsg
  have hpm : (p.1, p.2) ∈ v := hp
  unfold sgnV
  rcases hj with hj | hj
  · rw [hj] at hpm hsg
    rw [if_pos hpm]; exact hsg
  · rw [hj] at hpm hsg
    have hn : (p.1, 1) ∉ v := by
      have := nothru _ hpm
      unfold thru at this
      simp only [p31] at this
      exact this
    rw [if_neg hn, if_pos hpm]; exact hsg

/-! ### one step of the `for i0` loop -/

theorem step_sim (l : C18.Link) (hv : Valid l) (j0 i0 : Nat) (hs : HE l (i0, j0)) {sk sc} (h : RR l sk sc)
    (bad : Bool) :
    ∃ sc' sk', C18.signsStep l j0 sc i0 = .ok sc' ∧ stepF (toKh l) j0 (sk, bad) i0 = (sk', bad) ∧ RR l sk' sc' := by
  unfold C18.signsStep stepF
  rw [edge_toKh l i0 j0 hs.1 hs.2]
  by_cases hm : C18.edgeAt l i0 j0 ∈ sc.2
  · have h1 : sc.2.contains (C18.edgeAt l i0 j0) = true := by simp [hm]
    have h2 : (!sk.2.contains (C18.edgeAt l i0 j0)) = false := by simp [(h.passed _).2 hm]
    rw [if_pos h1]
    simp only [h2, Bool.false_eq_true, if_false]
    exact ⟨sc, sk, rfl, rfl, h⟩
  · have h1 : ¬ sc.2.contains (C18.edgeAt l i0 j0) = true := by simp [hm]
    have hm' : C18.edgeAt l i0 j0 ∉ sk.2 := fun hc => hm ((h.passed _).1 hc)
    have h2 : (!sk.2.contains (C18.edgeAt l i0 j0)) = true := by simp [hm']
    rw [if_neg h1]
    simp only [h2, if_true]
    obtain ⟨v, t1, t2, t3, t4, _⟩ :=
      C18.traverseLoop_valid l hv (i0, j0) hs (4 * l.length) (i0, j0) [] rfl (by simp) (by simp)
    have hall : ∀ h ∈ v, HE l h := RChain.all_mem (HE l) hs (fun x hx => C18.step_HE l hv x hx) t2
    have htr : C18.traverse l (i0, j0) = .ok (v.reverse ++ [(i0, j0)]) := t1
    obtain ⟨w, hw, hwHE, hwalk⟩ := walk_sim l hv (i0, j0) (4 * l.length) (i0, j0) [] _ sk hs t1
    have hwv : w = v.reverse := by
      have : v.reverse ++ [(i0, j0)] = w ++ [(i0, j0)] := by simpa using hw
      exact (List.append_cancel_right this).symm
    rw [htr, size_toKh, hwalk]
    simp only [Bool.or_false]
    refine ⟨_, _, rfl, rfl, ?_⟩
    rw [List.foldl_append, List.foldl_cons, List.foldl_nil, hwv]
    have hR := RR_fold l v.reverse h (fun p hp => hall p (List.mem_reverse.1 hp))
    -- the second report of the start slot
    have hg := orbit_writes l hv (i0, j0) hs v t2 t4 hall
    obtain ⟨f1, f2, _, f4⟩ := C18.foldVisit l (sgnV l v) v.reverse sc
      (fun p hp => hg p (List.mem_reverse.1 hp))
    have hsv : (i0, j0) ∈ v := t2.start_mem
    refine ⟨?_, ?_, ?_⟩
    · rw [hR.sg]
      congr 1
      unfold C18.signsVisit
      cases hsg : C18.signAt (C18.ctypeAt l (i0, j0).1) (i0, j0).2 with
      | none => rfl
      | some a =>
        simp only
        have hlt : i0 < (List.foldl (C18.signsVisit l) sc v.reverse).1.length := by rw [f1, h.len]; exact hs.1
        have := f4 (i0, j0) (List.mem_reverse.2 hsv) (by rw [h.len]; exact hs.1) (by rw [hsg]; rfl)
        rw [hg (i0, j0) hsv a hsg] at this
        exact (set_same _ _ _ hlt this).symm
    · have : (C18.signsVisit l (List.foldl (C18.signsVisit l) sc v.reverse) (i0, j0)).1.length
          = (List.foldl (C18.signsVisit l) sc v.reverse).1.length := by
        unfold C18.signsVisit
        cases C18.signAt (C18.ctypeAt l (i0, j0).1) (i0, j0).2 <;> simp
      rw [this]; exact hR.len
    · intro e
      have : (C18.signsVisit l (List.foldl (C18.signsVisit l) sc v.reverse) (i0, j0)).2
          = C18.edgeAt l i0 j0 :: (List.foldl (C18.signsVisit l) sc v.reverse).2 := by
        unfold C18.signsVisit
        cases C18.signAt (C18.ctypeAt l (i0, j0).1) (i0, j0).2 <;> rfl
      rw [this, List.mem_cons, hR.passed]
      constructor
      · intro he; exact Or.inr he
      · rintro (he | he)
        · rw [he, f2]
          apply List.mem_append_left
          simp only [List.map_reverse, List.reverse_reverse, List.mem_map]
          exact ⟨(i0, j0), hsv, rfl⟩
        · exact he

theorem fold_sim (l : C18.Link) (hv : Valid l) (j0 : Nat) (hj : j0 < 4) :
    ∀ (is : List Nat) {sk sc}, RR l sk sc → (∀ i ∈ is, i < l.length) → ∀ bad : Bool,
      ∃ sc' sk', is.foldlM (C18.signsStep l j0) sc = .ok sc' ∧
        is.foldl (stepF (toKh l) j0) (sk, bad) = (sk', bad) ∧ RR l sk' sc'
  | [], sk, sc, h, _, bad => ⟨sc, sk, rfl, rfl, h⟩
  | i :: is, sk, sc, h, hlt, bad => by
    obtain ⟨sc1, sk1, e1, e2, h1⟩ := step_sim l hv j0 i ⟨hlt i List.mem_cons_self, hj⟩ h bad
    obtain ⟨sc2, sk2, e3, e4, h2⟩ :=
      fold_sim l hv j0 hj is h1 (fun k hk => hlt k (List.mem_cons_of_mem _ hk)) bad
    refine ⟨sc2, sk2, ?_, ?_, h2⟩
    · rw [List.foldlM_cons, e1]; exact e3
    · rw [List.foldl_cons, e2]; exact e4

/-- one pass of the code model = the corresponding `for i0` loop of the reference -/
theorem pass_sim (l : C18.Link) (hv : Valid l) (j0 : Nat) (hj : j0 < 4) {sk sc} (h : RR l sk sc) :
    ∃ sc' sk', C18.signsPass l j0 sc = .ok sc' ∧
      (List.range (toKh l).size).foldl (stepF (toKh l) j0) (sk, false) = (sk', false) ∧ RR l sk' sc' := by
  rw [size_toKh]
  exact fold_sim l hv j0 hj (List.range l.length) h (fun i hi => List.mem_range.1 hi) false

theorem any_congr_mem {α} (p q : α → Bool) : ∀ (xs : List α), (∀ x ∈ xs, p x = q x) → xs.any p = xs.any q
  | [], _ => rfl
  | a :: r, h => by
    rw [List.any_cons, List.any_cons, h a List.mem_cons_self,
      any_congr_mem p q r (fun x hx => h x (List.mem_cons_of_mem _ hx))]

theorem need_sim (l : C18.Link) {sk sc} (h : RR l sk sc) :
    needF (toKh l) sk.1 = C18.signsIncomplete l sc.1 := by
  unfold needF C18.signsIncomplete
  rw [← Array.any_toList, Array.toList_range, size_toKh]
  apply any_congr_mem
  intro i hi
  have hi' := List.mem_range.1 hi
  rw [ct_toKh l i hi', isResolved_ctKh]
  congr 1
  have : sk.1[i]! = encO (sc.1.getD i none) := by
    have hlen : sk.1.size = l.length := by
      have := congrArg List.length h.sg
      simpa [h.len] using this
    rw [getElem!_pos _ _ (by rw [hlen]; exact hi'), ← Array.getElem_toList]
    simp only [h.sg, List.getElem_map, List.getD_eq_getElem?_getD,
      List.getElem?_eq_getElem (by rw [h.len]; exact hi' : i < sc.1.length), Option.getD_some]
  rw [this, encO_eq_zero]

/-! ### the final loop -/

theorem outF_gen (f : Nat → Option C18.Sign) (res : Nat → Bool) (h : ∀ i, (f i).isSome = !res i) :
    ∀ (is : List Nat) (out : Array Int),
      is.foldlM (fun out i => if res i then some out else if encO (f i) == 0 then none
        else some (out.push (encO (f i)))) out = some (out ++ ((is.filterMap f).map encSign).toArray)
  | [], out => by simp
  | i :: is, out => by
    rw [List.foldlM_cons]
    have hi := h i
    cases hr : res i with
    | true =>
      rw [hr] at hi
      have : f i = none := by cases hf : f i <;> simp [hf] at hi ⊢
      simp only [if_true, Option.bind_eq_bind, Option.bind_some]
      rw [outF_gen f res h is out, List.filterMap_cons, this]
    | false =>
      rw [hr] at hi
      obtain ⟨a, ha⟩ : ∃ a, f i = some a := by
        cases hf : f i with
        | none => simp [hf] at hi
        | some a => exact ⟨a, rfl⟩
      have hz : (encO (f i) == 0) = false := by rw [encO_eq_zero, ha]; rfl
      simp only [Bool.false_eq_true, if_false, hz, Option.bind_eq_bind, Option.bind_some]
      rw [outF_gen f res h is _, List.filterMap_cons, ha]
      simp [encO]

theorem filterMap_congr_mem' {α β} (f g : α → Option β) : ∀ (xs : List α), (∀ x ∈ xs, f x = g x) →
    xs.filterMap f = xs.filterMap g
  | [], _ => rfl
  | a :: r, h => by
    rw [List.filterMap_cons, List.filterMap_cons, h a List.mem_cons_self,
      filterMap_congr_mem' f g r (fun x hx => h x (List.mem_cons_of_mem _ hx))]

theorem foldlM_congr_mem {β} (f g : β → Nat → Option β) : ∀ (is : List Nat) (b : β),
    (∀ i ∈ is, ∀ b, f b i = g b i) → is.foldlM f b = is.foldlM g b
  | [], _, _ => rfl
  | i :: is, b, h => by
    rw [List.foldlM_cons, List.foldlM_cons, h i List.mem_cons_self b]
    cases g b i with
    | none => rfl
    | some b' => exact foldlM_congr_mem f g is b' (fun k hk => h k (List.mem_cons_of_mem _ hk))

/-- from the invariant of the code model's loop to the two results -/
theorem finish_sim (l : C18.Link) (sg : Array Int) (sc : List (Option C18.Sign) × List Nat)
    (V : List (Nat × Nat)) (hJ : J l sc V) (hsg : sg.toList = sc.1.map encO)
    (h1 : ∀ i, i < l.length → (C18.ctypeAt l i).isResolved = false → (i, 1) ∈ V ∨ (i, 3) ∈ V) :
    (sc.1.filterMap id).length = C18.crossingNum l ∧
    outF (toKh l) sg = some (((sc.1.filterMap id).map encSign).toArray) := by
  have hsome : ∀ i (hi : i < l.length), (sc.1.getD i none).isSome = !(l[i]).isResolved := by
    intro i hi
    rw [hJ.sg i hi]
    have hct : C18.ctypeAt l i = l[i].ctype := C18.ctypeAt_eq l i hi
    unfold sgnV
    cases hr : (C18.ctypeAt l i).isResolved with
    | true =>
      rw [C18.signAt_resolved _ hr 1 (by omega), C18.signAt_resolved _ hr 3 (by omega)]
      have : l[i].isResolved = true := by unfold C18.Crossing.isResolved; rw [← hct]; exact hr
      simp [this]
    | false =>
      obtain ⟨a, b, _⟩ := C18.signAt_unresolved _ hr
      have : l[i].isResolved = false := by unfold C18.Crossing.isResolved; rw [← hct]; exact hr
      rw [this]
      rcases h1 i hi hr with m | m
      · simp only [m, if_true]; simpa using a
      · by_cases m1 : (i, 1) ∈ V
        · simp only [m1, if_true]; simpa using a
        · simp only [m1, if_false, m, if_true]; simpa using b
  have hfm : sc.1.filterMap id = (List.range l.length).filterMap (fun i => sc.1.getD i none) := by
    have := C18.filterMap_getD sc.1 (fun i => sc.1.getD i none) 0 (by intro i _; rw [Nat.zero_add])
    rw [this, hJ.len, List.range_eq_range']
  constructor
  · rw [hfm, List.range_eq_range']
    apply C18.length_signs
    intro i hi
    rw [Nat.zero_add]; exact hsome i hi
  · unfold outF
    rw [size_toKh]
    -- replace the array reads by the code model's sign list
    let f : Nat → Option C18.Sign := fun i => if i < l.length then sc.1.getD i none else none
    let res : Nat → Bool := fun i => if h : i < l.length then (l[i]).isResolved else true
    have hfr : ∀ i, (f i).isSome = !res i := by
      intro i
      by_cases hi : i < l.length
      · simp only [f, res, hi, if_true, dif_pos]; exact hsome i hi
      · simp only [f, res, hi, if_false, dif_neg, not_false_eq_true]; rfl
    have hlen : sg.size = l.length := by
      have := congrArg List.length hsg
      simpa [hJ.len] using this
    rw [foldlM_congr_mem _ (fun out i => if res i then some out else if encO (f i) == 0 then none
        else some (out.push (encO (f i)))) (List.range l.length) #[]]
    · rw [outF_gen f res hfr, hfm]
      simp only [Array.empty_append]
      congr 3
      apply filterMap_congr_mem'
      intro i hi
      simp only [f, List.mem_range.1 hi, if_true]
    · intro i hi out
      have hi' := List.mem_range.1 hi
      have e1 : (toKh l)[i]!.ct.isResolved = res i := by
        rw [ct_toKh l i hi', isResolved_ctKh, C18.ctypeAt_eq l i hi']
        simp only [res, hi', dif_pos]; rfl
      have e2 : sg[i]! = encO (f i) := by
        rw [getElem!_pos _ _ (by rw [hlen]; exact hi'), ← Array.getElem_toList]
        simp only [hsg, List.getElem_map, f, hi', if_true, List.getD_eq_getElem?_getD,
          List.getElem?_eq_getElem (by rw [hJ.len]; exact hi' : i < sc.1.length), Option.getD_some]
      rw [e1, e2]

/-! ### the whole computation -/

theorem RR_init (l : C18.Link) :
    RR l (Array.replicate (toKh l).size 0, #[]) (List.replicate l.length none, []) where
  sg := by simp [size_toKh, encO]
  len := List.length_replicate
  passed := by intro e; simp

/-- unsigned-ness of pass 2 when pass 1 has signed everything -/
theorem signs_stable (l : C18.Link) (hv : Valid l) {sc1 sc2 : List (Option C18.Sign) × List Nat}
    {V1 V2 : List (Nat × Nat)} (J1 : J l sc1 V1) (J2 : J l sc2 V2) (m : ∀ h ∈ V1, h ∈ V2)
    (hinc : C18.signsIncomplete l sc1.1 = false) : sc2.1 = sc1.1 := by
  apply List.ext_getElem?
  intro i
  by_cases hi : i < l.length
  · have a1 := J1.sg i hi
    have a2 := J2.sg i hi
    have e : sgnV l V2 i = sgnV l V1 i := by
      cases hr : (C18.ctypeAt l i).isResolved with
      | true =>
        unfold sgnV
        rw [C18.signAt_resolved _ hr 1 (by omega), C18.signAt_resolved _ hr 3 (by omega)]
        simp
      | false =>
        have hne := C18.signsIncomplete_false l sc1.1 hinc i hi hr
        rw [a1] at hne
        obtain ⟨_, _, p13, p31⟩ := C18.signAt_unresolved _ hr
        unfold sgnV at hne ⊢
        by_cases b1 : (i, 1) ∈ V1
        · simp only [b1, m _ b1, if_true]
        · by_cases b3 : (i, 3) ∈ V1
          · have c3 := m _ b3
            have c1 : (i, 1) ∉ V2 := by
              have := J2.nothru hv _ c3
              unfold thru at this
              simp only [p31] at this
              exact this
            simp only [b1, b3, c1, c3, if_true, if_false]
          · simp [b1, b3] at hne
    have l1 : i < sc1.1.length := by rw [J1.len]; exact hi
    have l2 : i < sc2.1.length := by rw [J2.len]; exact hi
    rw [List.getD_eq_getElem?_getD, List.getElem?_eq_getElem l1, Option.getD_some] at a1
    rw [List.getD_eq_getElem?_getD, List.getElem?_eq_getElem l2, Option.getD_some] at a2
    rw [List.getElem?_eq_getElem l2, List.getElem?_eq_getElem l1, a1, a2, e]
  · rw [List.getElem?_eq_none (by rw [J2.len]; omega), List.getElem?_eq_none (by rw [J1.len]; omega)]

/-- THE BRIDGE for `crossing_signs`: on every valid link both programs return, and the reference's functional
form returns the encoding of the code model's result -/
theorem signsF_toKh (l : C18.Link) (hv : Valid l) :
    ∃ s, C18.crossingSigns l = .ok s ∧ signsF (toKh l) = some (s.map encSign).toArray := by
  -- pass 0
  obtain ⟨sc0, sk0, e0, k0, R0⟩ := pass_sim l hv 0 (by omega) (RR_init l)
  obtain ⟨st0, V0, e0', J0, _, c0, o0, _⟩ := C18.signsPass_J l hv 0 (by omega) _ [] (C18.J_init l)
  rw [e0] at e0'; cases e0'
  have hn0 := need_sim l R0
  have hsF : ∀ skF : Array Int × Array Nat, runF (toKh l) = (skF, false) →
      signsF (toKh l) = outF (toKh l) skF.1 := by
    intro skF h
    unfold signsF
    simp only [h, Bool.false_eq_true, if_false]
  have p0 : passF (toKh l) ((Array.replicate (toKh l).size 0, #[]), false) 0 = (sk0, false) := by
    unfold passF; simp only [beq_self_eq_true, Bool.true_or, if_true]; exact k0
  unfold C18.crossingSigns
  rw [e0, Res.bind_ok]
  cases hinc : C18.signsIncomplete l sc0.1 with
  | false =>
    have q : ∀ j0, j0 ≠ 0 → passF (toKh l) (sk0, false) j0 = (sk0, false) := by
      intro j0 hj
      unfold passF
      have : (j0 == 0) = false := by simpa using hj
      simp only [this, hn0, hinc, Bool.or_self, Bool.false_eq_true, if_false]
    have hrun : runF (toKh l) = (sk0, false) := by
      unfold runF
      simp only [List.foldl_cons, List.foldl_nil]
      rw [p0, q 1 (by omega), q 2 (by omega)]
    have h1 : ∀ i, i < l.length → (C18.ctypeAt l i).isResolved = false → (i, 1) ∈ V0 ∨ (i, 3) ∈ V0 := by
      intro i hi hr
      have := C18.signsIncomplete_false l sc0.1 hinc i hi hr
      rw [J0.sg i hi] at this
      unfold sgnV at this
      by_cases a : (i, 1) ∈ V0
      · exact Or.inl a
      · by_cases b : (i, 3) ∈ V0
        · exact Or.inr b
        · simp [a, b] at this
    obtain ⟨f1, f2⟩ := finish_sim l sk0.1 sc0 V0 J0 R0.sg h1
    refine ⟨sc0.1.filterMap id, ?_, ?_⟩
    · simp only [Bool.false_eq_true, if_false, Res.pure_eq, Res.bind_ok]
      rw [if_pos f1]
    · rw [hsF sk0 hrun]; exact f2
  | true =>
    obtain ⟨sc1, sk1, e1, k1, R1⟩ := pass_sim l hv 1 (by omega) R0
    obtain ⟨st1, V1, e1', J1, m1, c1, _, _⟩ := C18.signsPass_J l hv 1 (by omega) sc0 V0 J0
    rw [e1] at e1'; cases e1'
    obtain ⟨sc2, sk2, e2, k2, R2⟩ := pass_sim l hv 2 (by omega) R1
    obtain ⟨st2, V2, e2', J2, m2, _, _, _⟩ := C18.signsPass_J l hv 2 (by omega) sc1 V1 J1
    rw [e2] at e2'; cases e2'
    have p1 : passF (toKh l) (sk0, false) 1 = (sk1, false) := by
      unfold passF
      simp only [hn0, hinc, Bool.or_true, if_true]; exact k1
    have h1 : ∀ i, i < l.length → (C18.ctypeAt l i).isResolved = false → (i, 1) ∈ V2 ∨ (i, 3) ∈ V2 := by
      intro i hi hr
      have hh : HE l (i, 1) := ⟨hi, by omega⟩
      obtain ⟨_, _, p13, _⟩ := C18.signAt_unresolved _ hr
      have hth : thru l (i, 1) = (i, 3) := by unfold thru; simp only [p13]
      rcases J1.of_label hv _ hh (c1 i hi) with a | a
      · exact Or.inl (m2 _ a)
      · have := J1.thru_of_partner hv _ hh a
        rw [hth] at this
        exact Or.inr (m2 _ this)
    have hn1 := need_sim l R1
    -- the reference's state after its pass 2 (run or skipped) carries the signs of `sc2`
    have hfin : ∃ skF, passF (toKh l) (sk1, false) 2 = (skF, false) ∧ skF.1.toList = sc2.1.map encO := by
      cases hinc1 : C18.signsIncomplete l sc1.1 with
      | true =>
        refine ⟨sk2, ?_, R2.sg⟩
        unfold passF
        simp only [hn1, hinc1, Bool.or_true, if_true]; exact k2
      | false =>
        refine ⟨sk1, ?_, ?_⟩
        · unfold passF
          simp only [hn1, hinc1, Bool.or_false]
          rfl
        · rw [signs_stable l hv J1 J2 m2 hinc1]; exact R1.sg
    obtain ⟨skF, pF, hsgF⟩ := hfin
    have hrun : runF (toKh l) = (skF, false) := by
      unfold runF
      simp only [List.foldl_cons, List.foldl_nil]
      rw [p0, p1, pF]
    obtain ⟨f1, f2⟩ := finish_sim l skF.1 sc2 V2 J2 hsgF h1
    refine ⟨sc2.1.filterMap id, ?_, ?_⟩
    · simp only [if_true, e1, Res.bind_ok, e2, Res.pure_eq]
      rw [if_pos f1]
    · rw [hsF skF hrun]; exact f2

end Yuiv.C18Bridge
