import Yuiv.Proofs.C19CommCone
import Yuiv.Proofs.C19
/-
C19Comm — the matrices of `d` and `τ` over a commutative ring of characteristic 2 with respect to a duplicate-free list
of generators closed under `d` and `τ`, so that `Props/C19.cone_d_sq` applies: `τ·d = d·τ` and `d·d = 0` as matrices.
-/
namespace Yuiv.C19Comm
open Yuiv Yuiv.KhRef Yuiv.C19 Yuiv.C06Cycle Yuiv.C19Inv Matrix

variable {R : Type} [CommRing R]

/-- matrix of the differential over 𝔽₂ (column `j` = `d` of the `j`-th generator) -/
def dMat (R : Type) [CommRing R] (c : Cube) (p : Params) (gens : List Gen) :
    Matrix (Fin gens.length) (Fin gens.length) R :=
  fun i j => (((dK c p (gens.get j)).count (gens.get i) : Nat) : R)

/-- matrix of τ (column `j` = `τ` of the `j`-th generator) -/
def tauMat (R : Type) [CommRing R] (ic : ICube) (gens : List Gen) : Matrix (Fin gens.length) (Fin gens.length) R :=
  fun i j => ((([ic.tau (gens.get j)] : List Gen).count (gens.get i) : Nat) : R)

/-- summing a function against the multiplicities of a list of generators -/
theorem sum_count (gens : List Gen) (hnd : gens.Nodup) (L : List Gen) (hL : ∀ y ∈ L, y ∈ gens) (w : Gen → R) :
    ∑ k : Fin gens.length, ((L.count (gens.get k) : Nat) : R) * w (gens.get k) = (L.map w).sum := by
  induction L with
  | nil => simp
  | cons a L ih =>
    have ih' := ih (fun y hy => hL y (List.mem_cons_of_mem _ hy))
    obtain ⟨k0, hk0⟩ := List.mem_iff_get.1 (hL a (by simp))
    simp only [List.count_cons, Nat.cast_add, add_mul, Finset.sum_add_distrib, ih', List.map_cons, List.sum_cons]
    rw [add_comm]
    congr 1
    rw [Finset.sum_eq_single k0]
    · rw [hk0]; simp
    · intro b _ hb
      have : (a == gens.get b) = false := by
        rw [beq_eq_false_iff_ne, ← hk0]
        intro e
        exact hb ((hnd.get_inj_iff).1 e).symm
      rw [this]
      simp
    · intro h; exact absurd (Finset.mem_univ _) h

theorem sum_count_map (z : Gen) (f : Gen → Gen) (L : List Gen) :
    (L.map (fun y => ((([f y] : List Gen).count z : Nat) : R))).sum = (((L.map f).count z : Nat) : R) := by
  induction L with
  | nil => simp
  | cons a L ih =>
    rw [List.map_cons, List.sum_cons, ih, List.map_cons, List.count_singleton, List.count_cons, Nat.cast_add, add_comm]

theorem sum_count_flatMap (z : Gen) (f : Gen → List Gen) (L : List Gen) :
    (L.map (fun y => (((f y).count z : Nat) : R))).sum = (((L.flatMap f).count z : Nat) : R) := by
  rw [List.count_flatMap, Nat.cast_list_sum, List.map_map]
  rfl

theorem tauMat_mul_dMat (ic : ICube) (p : Params) (gens : List Gen) (hnd : gens.Nodup)
    (hd : ∀ g ∈ gens, ∀ y ∈ dK ic.cube p g, y ∈ gens) (i j : Fin gens.length) :
    (tauMat R ic gens * dMat R ic.cube p gens) i j =
      ((((dK ic.cube p (gens.get j)).map ic.tau).count (gens.get i) : Nat) : R) := by
  rw [Matrix.mul_apply]
  have := sum_count (R := R) gens hnd (dK ic.cube p (gens.get j)) (hd _ (List.get_mem _ _))
    (fun y => ((([ic.tau y] : List Gen).count (gens.get i) : Nat) : R))
  rw [sum_count_map] at this
  rw [← this]
  apply Finset.sum_congr rfl
  intro k _
  unfold tauMat dMat
  exact mul_comm _ _

theorem dMat_mul_tauMat (ic : ICube) (p : Params) (gens : List Gen) (hnd : gens.Nodup)
    (ht : ∀ g ∈ gens, ic.tau g ∈ gens) (i j : Fin gens.length) :
    (dMat R ic.cube p gens * tauMat R ic gens) i j =
      (((dK ic.cube p (ic.tau (gens.get j))).count (gens.get i) : Nat) : R) := by
  rw [Matrix.mul_apply]
  have := sum_count (R := R) gens hnd [ic.tau (gens.get j)]
    (by intro y hy; rw [List.mem_singleton.1 hy]; exact ht _ (List.get_mem _ _))
    (fun y => (((dK ic.cube p y).count (gens.get i) : Nat) : R))
  simp only [List.map_cons, List.map_nil, List.sum_cons, List.sum_nil, add_zero] at this
  rw [← this]
  apply Finset.sum_congr rfl
  intro k _
  unfold tauMat dMat
  exact mul_comm _ _

theorem dMat_mul_dMat (c : Cube) (p : Params) (gens : List Gen) (hnd : gens.Nodup)
    (hd : ∀ g ∈ gens, ∀ y ∈ dK c p g, y ∈ gens) (i j : Fin gens.length) :
    (dMat R c p gens * dMat R c p gens) i j =
      ((((dK c p (gens.get j)).flatMap (dK c p)).count (gens.get i) : Nat) : R) := by
  rw [Matrix.mul_apply]
  have := sum_count (R := R) gens hnd (dK c p (gens.get j)) (hd _ (List.get_mem _ _))
    (fun y => (((dK c p y).count (gens.get i) : Nat) : R))
  rw [sum_count_flatMap] at this
  rw [← this]
  apply Finset.sum_congr rfl
  intro k _
  unfold dMat
  exact mul_comm _ _

end Yuiv.C19Comm
