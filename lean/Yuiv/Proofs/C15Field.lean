import Yuiv.Proofs.C15
import Mathlib.Data.Int.GCD
/-
C15 — the field Q (model `Q`: canonical fractions): canonical form is preserved, inverse, normalisation,
and the generic gcd over a field.
-/
namespace Yuiv.C15
open Yuiv

namespace Q

/-- canonical form: positive denominator, lowest terms (what `Ratio::new` produces) -/
def WF (x : Q) : Prop := 0 < x.den ∧ Int.gcd x.num x.den = 1

theorem wf_zero : WF zero := ⟨by decide, by decide⟩
theorem wf_one : WF one := ⟨by decide, by decide⟩

theorem make_wf (n d : Int) (hd : d ≠ 0) : WF (make n d) := by
  unfold make
  by_cases hn : n = 0
  · simp [hn]; exact wf_zero
  · simp only [beq_iff_eq, hn, if_false]
    have hg : 0 < Int.gcd n d := Int.gcd_pos_of_ne_zero_left d hn
    have hgz : ((Int.gcd n d : Nat) : Int) ≠ 0 := by omega
    obtain ⟨s, hs, hds⟩ : ∃ s : Int, (s = 1 ∨ s = -1) ∧ (if d < 0 then (-1 : Int) else 1) = s := ⟨_, by split <;> simp, rfl⟩
    rw [hds]
    have hdpos : 0 < d * s := by
      rcases hs with rfl | rfl
      · split at hds <;> omega
      · split at hds <;> omega
    have h1 : ((Int.gcd n d : Nat) : Int) ∣ n * s := Dvd.dvd.mul_right (Int.gcd_dvd_left n d) s
    have h2 : ((Int.gcd n d : Nat) : Int) ∣ d * s := Dvd.dvd.mul_right (Int.gcd_dvd_right n d) s
    rw [Int.tdiv_eq_ediv_of_dvd h1, Int.tdiv_eq_ediv_of_dvd h2]
    have hgs : Int.gcd (n * s) (d * s) = Int.gcd n d := by
      rw [Int.gcd_mul_right]; rcases hs with rfl | rfl <;> simp
    constructor
    · exact Int.ediv_pos_of_pos_of_dvd hdpos (by omega) h2
    · rw [← hgs]
      exact Int.gcd_div_gcd_div_gcd (by rw [hgs]; exact hg)

theorem make_pos_self (a : Int) (ha : 0 < a) : make a a = one := by
  unfold make
  have h0 : (a == 0) = false := by simp; omega
  have hneg : ¬ a < 0 := by omega
  have hg : ((Int.gcd a a : Nat) : Int) = a := by
    rw [Int.gcd_self]; omega
  simp only [h0, hneg, if_false, mul_one, hg, Bool.false_eq_true]
  rw [Int.tdiv_self (by omega)]; rfl

theorem make_num_eq_zero (n d : Int) (h : (make n d).num = 0) : n = 0 := by
  unfold make at h
  by_cases hn : n = 0
  · exact hn
  · simp only [beq_iff_eq, hn, if_false] at h
    have hg : 0 < Int.gcd n d := Int.gcd_pos_of_ne_zero_left d hn
    obtain ⟨s, hs, hds⟩ : ∃ s : Int, (s = 1 ∨ s = -1) ∧ (if d < 0 then (-1 : Int) else 1) = s := ⟨_, by split <;> simp, rfl⟩
    rw [hds] at h
    have h1 : ((Int.gcd n d : Nat) : Int) ∣ n * s := Dvd.dvd.mul_right (Int.gcd_dvd_left n d) s
    rw [Int.tdiv_eq_ediv_of_dvd h1] at h
    have := Int.eq_mul_of_ediv_eq_right h1 h
    rcases hs with rfl | rfl <;> omega

theorem wf_num_zero (x : Q) (h : WF x) (h0 : x.num = 0) : x = zero := by
  obtain ⟨n, d⟩ := x
  simp only at h0; subst h0
  have := h.2; simp only [Int.gcd_zero_left] at this
  have hd := h.1; simp only at hd
  have : d = 1 := by omega
  subst this; rfl

/-- the inverse of a canonical non-zero `x` -/
theorem inv_eq (x : Q) (h : WF x) (h0 : x.num ≠ 0) :
    ∃ s : Int, (s = 1 ∨ s = -1) ∧ 0 < x.num * s ∧ inv x = some ⟨x.den * s, x.num * s⟩ := by
  unfold inv isZero make
  have hd : x.den ≠ 0 := by have := h.1; omega
  have hg : ((Int.gcd x.den x.num : Nat) : Int) = 1 := by rw [Int.gcd_comm, h.2]; rfl
  simp only [beq_iff_eq, h0, hd, if_false, hg, Int.tdiv_one, Bool.false_eq_true]
  by_cases hn : x.num < 0
  · exact ⟨-1, Or.inr rfl, by omega, by simp [hn]⟩
  · exact ⟨1, Or.inl rfl, by omega, by simp [hn]⟩

/-- `inv x = some u → x·u = 1` (canonical `x`) -/
theorem inv_mul (x : Q) (h : WF x) (u : Q) (hu : inv x = some u) : mul x u = one := by
  have h0 : x.num ≠ 0 := by
    intro h0; unfold inv isZero at hu; simp [h0] at hu
  obtain ⟨s, hs, hpos, e⟩ := inv_eq x h h0
  rw [e] at hu; injection hu with hu; subst hu
  unfold mul
  simp only
  have hd := h.1
  have : x.den * (x.num * s) = x.num * (x.den * s) := by ring
  rw [this]
  exact make_pos_self _ (by rw [← this]; exact Int.mul_pos hd hpos)

/-- `normalized x` is `1` for every non-zero canonical `x` (and `0` for `0`) -/
theorem normalized_eq (x : Q) (h : WF x) : ratOps.normalized x = if x.num = 0 then x else one := by
  unfold EucOps.normalized
  simp only [ratOps, normUnit]
  by_cases h0 : x.num = 0
  · have := wf_num_zero x h h0; subst this
    simp [inv, isZero, zero, isOne, one]
  · obtain ⟨s, hs, hpos, e⟩ := inv_eq x h h0
    simp only [e, h0, if_false]
    split
    · rename_i h1
      simp only [isOne, beq_iff_eq] at h1
      have hnd : x.den = x.num := by rcases hs with rfl | rfl <;> omega
      have hn1 : x.num = 1 := by
        have h2 := h.2; rw [hnd, Int.gcd_self] at h2
        have hd := h.1; omega
      obtain ⟨n, d⟩ := x
      simp only at hnd hn1; subst hnd; subst hn1; rfl
    · exact inv_mul x h _ e

theorem normalized_idem (x : Q) (h : WF x) : ratOps.normalized (ratOps.normalized x) = ratOps.normalized x := by
  rw [normalized_eq x h]
  split
  · rw [normalized_eq x h]; simp [*]
  · rw [normalized_eq one wf_one]; simp [one]

theorem mul_wf (x u : Q) (hx : WF x) (hu : WF u) : WF (mul x u) := by
  unfold mul
  exact make_wf _ _ (by have := hx.1; have := hu.1; exact Int.mul_ne_zero (by omega) (by omega))

/-- normalisation is constant on associates (multiplication by a non-zero `u`) -/
theorem normalized_assoc (x u : Q) (hx : WF x) (hu : WF u) (hu0 : u.num ≠ 0) :
    ratOps.normalized (ratOps.mul x u) = ratOps.normalized x := by
  show ratOps.normalized (mul x u) = _
  rw [normalized_eq _ (mul_wf x u hx hu), normalized_eq x hx]
  by_cases h0 : x.num = 0
  · have := wf_num_zero x hx h0; subst this
    have : mul zero u = zero := by unfold mul make zero; simp
    rw [this]
  · have : (mul x u).num ≠ 0 := by
      intro h; unfold mul at h
      have := make_num_eq_zero _ _ h
      rcases Int.mul_eq_zero.1 this with h | h <;> contradiction
    simp [this, h0]

/-- `is_unit a ↔ inv a ≠ none` -/
theorem isUnit_iff (x : Q) : isUnit x = true ↔ inv x ≠ none := by
  unfold isUnit inv; cases h : isZero x <;> simp

/-- over the field Q the generic gcd takes an early return: `1` unless both arguments vanish -/
theorem gcd_eq (x y : Q) (hx : WF x) (hy : WF y) :
    ratOps.gcd x y = .ok (if x.num = 0 ∧ y.num = 0 then zero else one) := by
  have nx := normalized_eq x hx
  have ny := normalized_eq y hy
  unfold EucOps.gcd EucOps.divides
  have ez : ∀ z, ratOps.isZero z = (z.num == 0) := fun _ => rfl
  have er : ∀ a b, ratOps.rem a b = zero := fun _ _ => rfl
  have e0 : ratOps.zero = zero := rfl
  rw [nx, ny]
  simp only [ez, er, e0]
  by_cases h1 : x.num = 0 <;> by_cases h2 : y.num = 0 <;> simp [h1, h2, zero]

end Q
end Yuiv.C15
