import Yuiv.Proofs.KhSnfDefs
/-
KhSnf — the arithmetic of `KhRef.chain` (turning a list of positive integers into a divisibility chain by gcd/lcm steps).

  * `chain_eq_fold` : the two nested `for` loops as a fold of `gcdStep` over `chainPairs` (the array size never changes);
  * `chain_size`, `chain_pos` : size and positivity are preserved;
  * `chain_dvd` (`chain_dvd'` without the positivity hypothesis, which is not needed) : the result is a divisibility
    chain. Invariant (`Chain.DvdBefore`, `Chain.DvdRow`): rows `< i` are finished (entry `i'` divides all later entries),
    the current row `i` is finished up to `j`.
Helpers live in the namespace `Yuiv.KhSnf.Chain`.
-/
namespace Yuiv.KhSnf
open Yuiv Yuiv.KhRef

/-- the sequence of index pairs processed by `chain` on an array of size `n`: (0,1),(0,2),…,(0,n−1),(1,2),… -/
def chainPairs (n : Nat) : List (Nat × Nat) :=
  (List.range n).flatMap (fun i => (List.range' (i+1) (n - (i+1))).map (fun j => (i, j)))

/-- one gcd/lcm step on a list -/
def gcdStep (d : List Int) (ij : Nat × Nat) : List Int :=
  let x := d.getD ij.1 0; let y := d.getD ij.2 0; let g : Int := Int.ofNat (Int.gcd x y)
  if g != 0 then (d.set ij.1 g).set ij.2 (x * y / g) else d

namespace Chain

/-- body of the inner loop of `chain` -/
def aStep (i : Nat) (d : Array Int) (j : Nat) : Array Int :=
  if (Int.ofNat (d[i]!.gcd d[j]!) != 0) = true then
    (d.set! i (Int.ofNat (d[i]!.gcd d[j]!))).set! j (d[i]! * d[j]! / Int.ofNat (d[i]!.gcd d[j]!))
  else d

/-- the inner loop of `chain` -/
def aInner (d : Array Int) (i : Nat) : Array Int :=
  (List.range' (i + 1) (d.size - (i + 1))).foldl (aStep i) d

theorem forIn_yield {α β} (l : List α) (b : β) (g : β → α → β) (f : α → β → Id (ForInStep β))
    (h : ∀ a b, f a b = pure (ForInStep.yield (g b a))) :
    (forIn l b f) = l.foldl g b := by
  induction l generalizing b with
  | nil => rfl
  | cons a l ih => simp [h, ih]

theorem chain_eq (d : Array Int) : chain d = (List.range' 0 d.size).foldl aInner d := by
  unfold chain
  simp only [Std.Legacy.Range.forIn_eq_forIn_range', Std.Legacy.Range.size, Nat.sub_zero, Nat.add_sub_cancel, Nat.div_one]
  rw [forIn_yield (g := aInner)]
  · rfl
  · intro i d
    rw [forIn_yield (g := aStep i)]
    · rfl
    · intro j d; unfold aStep; split <;> rfl

theorem aStep_size (i : Nat) (d : Array Int) (j : Nat) : (aStep i d j).size = d.size := by
  unfold aStep; split <;> simp

theorem getElem!_toList (d : Array Int) (i : Nat) : d[i]! = d.toList.getD i 0 := by
  simp only [List.getD_eq_getElem?_getD, Array.getElem?_toList]
  by_cases h : i < d.size
  · simp [h]
  · simp [h]

theorem aStep_toList (i : Nat) (d : Array Int) (j : Nat) : (aStep i d j).toList = gcdStep d.toList (i, j) := by
  unfold aStep gcdStep
  simp only [getElem!_toList]
  split <;> simp

theorem aStep_fold (i : Nat) (js : List Nat) (d : Array Int) :
    (js.foldl (aStep i) d).size = d.size ∧
      (js.foldl (aStep i) d).toList = (js.map (fun j => (i, j))).foldl gcdStep d.toList := by
  induction js generalizing d with
  | nil => exact ⟨rfl, rfl⟩
  | cons j js ih =>
    simp only [List.foldl_cons, List.map_cons]
    obtain ⟨h1, h2⟩ := ih (aStep i d j)
    rw [h1, h2, aStep_size, aStep_toList]
    exact ⟨rfl, rfl⟩

theorem aInner_fold (n : Nat) (is : List Nat) (d : Array Int) (hn : d.size = n) :
    (is.foldl aInner d).size = n ∧
      (is.foldl aInner d).toList =
        (is.flatMap (fun i => (List.range' (i+1) (n - (i+1))).map (fun j => (i, j)))).foldl gcdStep d.toList := by
  induction is generalizing d with
  | nil => exact ⟨hn, rfl⟩
  | cons i is ih =>
    simp only [List.foldl_cons, List.flatMap_cons, List.foldl_append]
    have h := aStep_fold i (List.range' (i + 1) (d.size - (i + 1))) d
    obtain ⟨h1, h2⟩ := ih (aInner d i) (by unfold aInner; rw [h.1, hn])
    rw [h1, h2]
    unfold aInner
    rw [h.2, hn]
    exact ⟨rfl, rfl⟩

/-! ### one gcd/lcm step -/

theorem gcdStep_length (d : List Int) (ij : Nat × Nat) : (gcdStep d ij).length = d.length := by
  unfold gcdStep; dsimp only; split <;> simp

/-- the entries after one step on the pair `i ≠ j` (also when the gcd is `0`, i.e. both entries are `0`) -/
theorem gcdStep_getD (d : List Int) (i j k : Nat) (hi : i < d.length) (hj : j < d.length) (hij : i ≠ j) :
    (gcdStep d (i, j)).getD k 0 =
      if k = j then d.getD i 0 * d.getD j 0 / Int.ofNat (Int.gcd (d.getD i 0) (d.getD j 0))
      else if k = i then Int.ofNat (Int.gcd (d.getD i 0) (d.getD j 0)) else d.getD k 0 := by
  unfold gcdStep
  dsimp only
  by_cases hg : Int.gcd (d.getD i 0) (d.getD j 0) = 0
  · have h0 := Int.gcd_eq_zero_iff.1 hg
    rw [hg]
    simp only [Int.ofNat_eq_natCast, Int.natCast_zero, bne_self_eq_false, Bool.false_eq_true, if_false, Int.ediv_zero]
    by_cases hkj : k = j
    · subst hkj; rw [if_pos rfl]; exact h0.2
    · by_cases hki : k = i
      · subst hki; rw [if_neg hkj, if_pos rfl]; exact h0.1
      · rw [if_neg hkj, if_neg hki]
  · have hg' : (Int.ofNat (Int.gcd (d.getD i 0) (d.getD j 0)) != 0) = true := by simpa using hg
    rw [if_pos hg']
    simp only [List.getD_eq_getElem?_getD, List.getElem?_set, List.length_set]
    by_cases hkj : k = j
    · subst hkj; simp [hj]
    · by_cases hki : k = i
      · subst hki; simp [hkj, hi, Ne.symm hkj]
      · simp [hkj, hki, Ne.symm hkj, Ne.symm hki]

/-- all entries positive (index form) -/
def Pos (d : List Int) : Prop := ∀ k, k < d.length → 0 < d.getD k 0

theorem pos_iff (d : List Int) : Pos d ↔ ∀ x ∈ d, 0 < x := by
  constructor
  · intro h x hx
    obtain ⟨k, hk, rfl⟩ := List.mem_iff_getElem.1 hx
    have := h k hk
    simpa [hk] using this
  · intro h k hk
    have := h d[k] (List.getElem_mem hk)
    simpa [hk] using this

theorem gcdStep_pos (d : List Int) (i j : Nat) (hi : i < d.length) (hj : j < d.length) (hij : i ≠ j) (hp : Pos d) :
    Pos (gcdStep d (i, j)) := by
  intro k hk
  rw [gcdStep_length] at hk
  rw [gcdStep_getD d i j k hi hj hij]
  have hx := hp i hi
  have hy := hp j hj
  have hg : 0 < Int.gcd (d.getD i 0) (d.getD j 0) := Int.gcd_pos_of_ne_zero_left _ (by omega)
  split
  · apply Int.ediv_pos_of_pos_of_dvd (Int.mul_pos hx hy) (by simp)
    exact Dvd.dvd.mul_right (Int.gcd_dvd_left _ _) _
  · split
    · simpa using hg
    · exact hp k hk

/-- the pairs of `chainPairs n` are `i < j < n` -/
theorem mem_chainPairs (n : Nat) (ij : Nat × Nat) (h : ij ∈ chainPairs n) : ij.1 < ij.2 ∧ ij.2 < n := by
  unfold chainPairs at h
  simp only [List.mem_flatMap, List.mem_range, List.mem_map, List.mem_range'_1] at h
  obtain ⟨i, hi, j, hj, rfl⟩ := h
  dsimp only
  omega

theorem fold_pos (n : Nat) (ps : List (Nat × Nat)) (hps : ∀ ij ∈ ps, ij.1 < ij.2 ∧ ij.2 < n) (d : List Int)
    (hn : d.length = n) (hp : Pos d) : Pos (ps.foldl gcdStep d) := by
  induction ps generalizing d with
  | nil => exact hp
  | cons ij ps ih =>
    rw [List.foldl_cons]
    have := hps ij List.mem_cons_self
    apply ih (fun x hx => hps x (List.mem_cons_of_mem _ hx))
    · rw [gcdStep_length, hn]
    · exact gcdStep_pos d ij.1 ij.2 (by omega) (by omega) (by omega) hp

/-! ### the divisibility invariant -/

/-- rows `< i` are finished: entry `i'` divides all later entries -/
def DvdBefore (n i : Nat) (d : List Int) : Prop :=
  ∀ i' j', i' < i → i' < j' → j' < n → d.getD i' 0 ∣ d.getD j' 0

/-- the current row `i` is finished up to `j` -/
def DvdRow (i j : Nat) (d : List Int) : Prop := ∀ j', i < j' → j' < j → d.getD i 0 ∣ d.getD j' 0

theorem gcdStep_inv (n i j : Nat) (d : List Int) (hn : d.length = n) (hij : i < j) (hj : j < n)
    (hB : DvdBefore n i d) (hR : DvdRow i j d) :
    DvdBefore n i (gcdStep d (i, j)) ∧ DvdRow i (j + 1) (gcdStep d (i, j)) := by
  have hgd := fun k => gcdStep_getD d i j k (by omega) (by omega) (by omega)
  have hgx : (Int.ofNat (Int.gcd (d.getD i 0) (d.getD j 0))) ∣ d.getD i 0 := Int.gcd_dvd_left _ _
  have hgy : (Int.ofNat (Int.gcd (d.getD i 0) (d.getD j 0))) ∣ d.getD j 0 := Int.gcd_dvd_right _ _
  have hl : d.getD i 0 * d.getD j 0 / Int.ofNat (Int.gcd (d.getD i 0) (d.getD j 0)) =
      d.getD i 0 * (d.getD j 0 / Int.ofNat (Int.gcd (d.getD i 0) (d.getD j 0))) := Int.mul_ediv_assoc _ hgy
  constructor
  · intro i' j' hi' hij' hj'
    rw [hgd i', hgd j', if_neg (by omega), if_neg (by omega)]
    split
    · rw [hl]; exact Dvd.dvd.mul_right (hB i' i hi' (by omega) (by omega)) _
    · split
      · exact Int.dvd_coe_gcd (hB i' i hi' (by omega) (by omega)) (hB i' j hi' (by omega) hj)
      · exact hB i' j' hi' hij' hj'
  · intro j' h1 h2
    rw [hgd i, hgd j', if_neg (by omega), if_pos rfl]
    split
    · rw [hl]; exact Dvd.dvd.mul_right hgx _
    · rw [if_neg (by omega)]
      exact Int.dvd_trans hgx (hR j' h1 (by omega))

theorem inner_inv (n i : Nat) : ∀ (m j0 : Nat) (d : List Int), d.length = n → i < j0 → j0 + m ≤ n →
    DvdBefore n i d → DvdRow i j0 d →
    (((List.range' j0 m).map (fun j => (i, j))).foldl gcdStep d).length = n ∧
      DvdBefore n i (((List.range' j0 m).map (fun j => (i, j))).foldl gcdStep d) ∧
      DvdRow i (j0 + m) (((List.range' j0 m).map (fun j => (i, j))).foldl gcdStep d) := by
  intro m
  induction m with
  | zero => intro j0 d hn _ _ hB hR; exact ⟨hn, hB, hR⟩
  | succ m ih =>
    intro j0 d hn hij hle hB hR
    rw [List.range'_succ, List.map_cons, List.foldl_cons]
    obtain ⟨h1, h2⟩ := gcdStep_inv n i j0 d hn hij (by omega) hB hR
    have := ih (j0 + 1) (gcdStep d (i, j0)) (by rw [gcdStep_length, hn]) (by omega) (by omega) h1 h2
    rwa [show j0 + 1 + m = j0 + (m + 1) by omega] at this

theorem outer_inv (n : Nat) : ∀ (m i0 : Nat) (d : List Int), d.length = n → i0 + m ≤ n → DvdBefore n i0 d →
    DvdBefore n (i0 + m) (((List.range' i0 m).flatMap
      (fun i => (List.range' (i+1) (n - (i+1))).map (fun j => (i, j)))).foldl gcdStep d) := by
  intro m
  induction m with
  | zero => intro i0 d _ _ hB; exact hB
  | succ m ih =>
    intro i0 d hn hle hB
    rw [List.range'_succ, List.flatMap_cons, List.foldl_append]
    obtain ⟨h1, h2, h3⟩ := inner_inv n i0 (n - (i0 + 1)) (i0 + 1) d hn (by omega) (by omega) hB
      (fun j' _ _ => by omega)
    rw [show i0 + 1 + (n - (i0 + 1)) = n by omega] at h3
    have hB' : DvdBefore n (i0 + 1) (((List.range' (i0 + 1) (n - (i0 + 1))).map (fun j => (i0, j))).foldl gcdStep d) := by
      intro i' j' hi' hij' hj'
      by_cases he : i' = i0
      · subst he; exact h3 j' hij' hj'
      · exact h2 i' j' (by omega) hij' hj'
    have := ih (i0 + 1) _ h1 (by omega) hB'
    rwa [show i0 + 1 + m = i0 + (m + 1) by omega] at this

end Chain
open Chain

theorem chain_eq_fold (d : Array Int) : (chain d).toList = (chainPairs d.size).foldl gcdStep d.toList := by
  rw [chain_eq, (aInner_fold d.size _ d rfl).2, chainPairs, List.range_eq_range']

theorem chain_size (d : Array Int) : (chain d).size = d.size := by
  rw [chain_eq, (aInner_fold d.size _ d rfl).1]

theorem chain_pos (d : Array Int) (h : ∀ x ∈ d.toList, 0 < x) : ∀ x ∈ (chain d).toList, 0 < x := by
  rw [chain_eq_fold, ← pos_iff]
  exact fold_pos d.size _ (mem_chainPairs d.size) _ (by simp) ((pos_iff _).2 h)

/-- the result is a divisibility chain (positivity is not needed: `gcd 0 0 = 0` leaves the entries unchanged) -/
theorem chain_dvd' (d : Array Int) :
    ∀ i j, i < j → j < d.size → (chain d).toList.getD i 0 ∣ (chain d).toList.getD j 0 := by
  intro i j hij hj
  rw [chain_eq_fold, chainPairs, List.range_eq_range']
  have := outer_inv d.size d.size 0 d.toList (by simp) (by omega) (fun i' j' h => by omega)
  exact this i j (by omega) hij hj

/-- the result is a divisibility chain -/
theorem chain_dvd (d : Array Int) (_h : ∀ x ∈ d.toList, 0 < x) :
    ∀ i j, i < j → j < d.size → (chain d).toList.getD i 0 ∣ (chain d).toList.getD j 0 :=
  chain_dvd' d

end Yuiv.KhSnf
