import Yuiv.Proofs.KhiSpecFam
import Yuiv.Proofs.C04InvSort
/-
KhiSpec — the bigraded branch of `khiHomology` (`khiTail2 … true …`): the collection of the quantum degrees, the loop over
the sorted degrees with its early exit (shown not to exit when `dI` preserves the quantum degree), the cells.
-/
namespace Yuiv.KhiSpec
open Yuiv Yuiv.KhRef Yuiv.C19

theorem cellsOf_append (h0 : Int) (q : Option Int) (hs : Array Nat) (cells : Array (Int × Option Int × Nat)) :
    cellsOf h0 q hs cells = cells ++ ((List.range hs.size).filterMap (fun (i : Nat) =>
      if hs[i]! ≠ 0 then some (h0 + (i : Int), q, hs[i]!) else none)).toArray := by
  unfold cellsOf
  rw [forIn_range_filterPush hs.size (fun (i : Nat) => if hs[i]! ≠ 0 then some (h0 + (i : Int), q, hs[i]!) else none)]
  · rfl
  · intro i a
    by_cases h : hs[i]! = 0
    · simp [h]
    · simp [h]

/-- the sorted list of quantum degrees -/
def qsSorted (c : Cube) (q0 : Int) (gens : Array (Array IGen)) : Array Int :=
  (qsOf c q0 gens).qsort (fun x1 x2 => decide (x1 < x2))

/-- the bigraded branch does not exit when no target leaves its quantum degree -/
theorem khiTail2_bigr (c : Cube) (q0 h0 : Int) (dI : IGen → Array IGen) (gens : Array (Array IGen))
    (hq : ∀ q ∈ qsSorted c q0 gens, ∀ gs ∈ gqOf c q0 q gens, ∀ x ∈ gs,
      ((reduce2 (dI x)).any fun y => c.qDeg q0 y.snd != q) = false) :
    khiTail2 c q0 h0 true dI gens = pure (Except.ok (IResult.mk
      ((qsSorted c q0 gens).foldl
        (fun cells q => cellsOf h0 (some q) (homoA dI (gqOf c q0 q gens)) cells) #[]))) := by
  unfold khiTail2 qsSorted
  simp only [Bool.not_true, Bool.false_eq_true, if_false]
  show ((pure (qsOf c q0 gens) : Id (Array Int)) >>= fun qs =>
    (forIn (m := Id) (qs.qsort fun x1 x2 => decide (x1 < x2)) ((none : Option Res), (#[] : Array (Int × Option Int × Nat))) _ >>=
      fun __s => _)) = _
  rw [pure_bind]
  rw [forIn_array_noexit (ρ := Res) _ _
    (fun cells q => cellsOf h0 (some q) (homoA dI (gqOf c q0 q gens)) cells) ?h]
  case h =>
    intro q hqm s
    show (forIn (m := Id) (gqOf c q0 q gens) ((none : Option Res), ()) _ >>= fun __s => _) = _
    rw [forIn_array_noexit (ρ := Res) (gqOf c q0 q gens) _ (fun u _ => u) ?h2]
    case h2 =>
      intro gs hgs s'
      rw [forIn_array_noexit (ρ := Res) gs _ (fun u _ => u) ?h3]
      case h3 =>
        intro x hx s''
        simp only [hq q hqm gs hgs x hx]
        rfl
      rfl
    rfl
  rfl

/-- the cells as a list -/
theorem bigr_cells (h0 : Int) (qs : List Int) (hsOf : Int → Array Nat) (cells : Array (Int × Option Int × Nat)) :
    qs.foldl (fun cells q => cellsOf h0 (some q) (hsOf q) cells) cells =
      cells ++ (qs.flatMap (fun q => (List.range (hsOf q).size).filterMap (fun (i : Nat) =>
        if (hsOf q)[i]! ≠ 0 then some (h0 + (i : Int), some q, (hsOf q)[i]!) else none))).toArray := by
  induction qs generalizing cells with
  | nil => simp
  | cons q qs ih =>
    rw [List.foldl_cons, ih, cellsOf_append, List.flatMap_cons]
    simp

/-! ### the quantum degrees -/

def pushNew (qs : Array Int) (v : Int) : Array Int := if (!qs.contains v) = true then qs.push v else qs

theorem pushNew_fold (L : List Int) (qs0 : Array Int) (h0 : qs0.toList.Nodup) :
    (L.foldl pushNew qs0).toList.Nodup ∧ ∀ q, q ∈ L.foldl pushNew qs0 ↔ q ∈ qs0 ∨ q ∈ L := by
  induction L generalizing qs0 with
  | nil => exact ⟨h0, fun q => by simp⟩
  | cons v L ih =>
    rw [List.foldl_cons]
    have hstep : (pushNew qs0 v).toList.Nodup ∧ ∀ q, q ∈ pushNew qs0 v ↔ q ∈ qs0 ∨ q = v := by
      unfold pushNew
      by_cases hc : qs0.contains v = true
      · have hm : v ∈ qs0 := Array.contains_iff_mem.1 hc
        simp only [hc, Bool.not_true, Bool.false_eq_true, if_false]
        refine ⟨h0, fun q => ⟨Or.inl, ?_⟩⟩
        rintro (h | rfl)
        · exact h
        · exact hm
      · have hm : v ∉ qs0 := fun h => hc (Array.contains_iff_mem.2 h)
        simp only [hc, Bool.not_false, if_true]
        refine ⟨?_, fun q => by simp⟩
        rw [Array.toList_push]
        apply List.Nodup.append h0 (List.nodup_singleton v)
        intro a ha hb
        rw [List.mem_singleton] at hb
        subst hb
        exact hm (Array.mem_toList_iff.1 ha)
    obtain ⟨h1, h2⟩ := ih (pushNew qs0 v) hstep.1
    refine ⟨h1, fun q => ?_⟩
    rw [h2 q, hstep.2 q, List.mem_cons]
    tauto

theorem qsInner_eq (c : Cube) (q0 : Int) (gs : Array IGen) (qs : Array Int) :
    qsInner c q0 gs qs = (gs.toList.map (fun x => c.qDeg q0 x.2)).foldl pushNew qs := by
  unfold qsInner
  have hb : (fun (x : IGen) (qs : Array Int) =>
      (if (!qs.contains (c.qDeg q0 x.2)) = true then pure (ForInStep.yield (qs.push (c.qDeg q0 x.2)))
        else pure (ForInStep.yield qs) : Id (ForInStep (Array Int)))) =
      fun x qs => pure (ForInStep.yield (pushNew qs (c.qDeg q0 x.2))) := by
    funext x qs
    unfold pushNew
    split <;> rfl
  rw [hb, Array.forIn_pure_yield_eq_foldl]
  simp only [Id.run, pure, ← Array.foldl_toList, List.foldl_map]

theorem qsOf_eq (c : Cube) (q0 : Int) (gens : Array (Array IGen)) :
    qsOf c q0 gens = (gens.toList.flatMap (fun gs => gs.toList.map (fun x => c.qDeg q0 x.2))).foldl pushNew #[] := by
  unfold qsOf
  rw [Array.forIn_pure_yield_eq_foldl]
  simp only [Id.run, pure, ← Array.foldl_toList]
  generalize (#[] : Array Int) = acc
  induction gens.toList generalizing acc with
  | nil => rfl
  | cons gs L ih =>
    rw [List.foldl_cons, List.flatMap_cons, List.foldl_append, ih, qsInner_eq]

/-- the quantum degrees collected by the model: each degree of a generator, once -/
theorem qsSorted_spec (c : Cube) (q0 : Int) (gens : Array (Array IGen)) :
    (qsSorted c q0 gens).toList.Nodup ∧
    ∀ q, q ∈ qsSorted c q0 gens ↔ ∃ gs ∈ gens, ∃ x ∈ gs, c.qDeg q0 x.2 = q := by
  have hp : (qsSorted c q0 gens).toList.Perm (qsOf c q0 gens).toList :=
    (C04Inv.qsort_perm _ _).toList
  obtain ⟨h1, h2⟩ := pushNew_fold (gens.toList.flatMap (fun gs => gs.toList.map (fun x => c.qDeg q0 x.2))) #[]
    (by simp)
  rw [← qsOf_eq] at h1 h2
  refine ⟨hp.nodup_iff.2 h1, fun q => ?_⟩
  rw [← Array.mem_toList_iff, hp.mem_iff, Array.mem_toList_iff, h2 q]
  simp only [Array.not_mem_empty, false_or, List.mem_flatMap, List.mem_map, Array.mem_toList_iff]

end Yuiv.KhiSpec
