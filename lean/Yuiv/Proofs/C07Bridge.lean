import Yuiv.Model.C07Calc
import Yuiv.Proofs.C07
import Yuiv.Proofs.C07Alg

/-
Bridge between the executable code model of `HomologyCalc::trans` (`Yuiv.C07.calcTrans`, Model/C07Calc.lean)
and the algebraic statements of Proofs/C07Alg.lean: the model returns `Trans::new(p, q)` where `p`, `q` are, entry
by entry, the matrices `pMat`, `qMat` for the literal ranges `r1..n`, `r1-t..r1`, `r2..n-r1`.
-/
set_option linter.unusedVariables false

namespace Yuiv.C07
open Matrix Yuiv

theorem idx_lt {i j r c : Nat} (hi : i < r) (hj : j < c) : i * c + j < r * c := by
  calc i * c + j < i * c + c := by omega
    _ = (i + 1) * c := by rw [Nat.add_mul, Nat.one_mul]
    _ ≤ r * c := Nat.mul_le_mul_right c hi

theorem Mat.get_ofFn (r c : Nat) (f : Nat → Nat → Int) (i j : Nat) :
    (Mat.ofFn r c f).get i j = if i < r ∧ j < c then f i j else 0 := by
  unfold Mat.get Mat.ofFn
  by_cases h : i < r ∧ j < c
  · have hlt := idx_lt h.1 h.2
    have hc : 0 < c := by omega
    simp only [h, and_self, if_true]
    rw [Array.getD_eq_getD_getElem?, Array.getElem?_ofFn]
    simp only [hlt, dite_true, Option.getD_some]
    have e1 : (i * c + j) / c = i := by
      rw [Nat.mul_comm, Nat.mul_add_div hc, Nat.div_eq_of_lt h.2, Nat.add_zero]
    have e2 : (i * c + j) % c = j := by
      rw [Nat.mul_comm, Nat.mul_add_mod, Nat.mod_eq_of_lt h.2]
    rw [e1, e2]
  · simp only [h, if_false]


@[simp] theorem Mat.ofFn_r (r c : Nat) (f : Nat → Nat → Int) : (Mat.ofFn r c f).r = r := rfl
@[simp] theorem Mat.ofFn_c (r c : Nat) (f : Nat → Nat → Int) : (Mat.ofFn r c f).c = c := rfl

theorem Mat.get_oob (A : Mat) (i j : Nat) (h : ¬ (i < A.r ∧ j < A.c)) : A.get i j = 0 := by
  unfold Mat.get; simp [h]

theorem Mat.rows_get (A : Mat) (lo hi i j : Nat) :
    (A.rows lo hi).get i j = if i < hi - lo then A.get (lo + i) j else 0 := by
  unfold Mat.rows
  rw [Mat.get_ofFn]
  by_cases hi' : i < hi - lo
  · by_cases hj : j < A.c
    · simp [hi', hj]
    · simp [hi', hj, Mat.get_oob A (lo + i) j (fun h => hj h.2)]
  · simp [hi']

theorem Mat.cols_get (A : Mat) (lo hi i j : Nat) :
    (A.cols lo hi).get i j = if j < hi - lo then A.get i (lo + j) else 0 := by
  unfold Mat.cols
  rw [Mat.get_ofFn]
  by_cases hj : j < hi - lo
  · by_cases hi' : i < A.r
    · simp [hi', hj]
    · simp [hi', hj, Mat.get_oob A i (lo + j) (fun h => hi' h.1)]
  · simp [hj]

theorem Mat.mul_get (A B : Mat) (i j : Nat) :
    (A.mul B).get i j = if i < A.r ∧ j < B.c then Mat.dot A B i j else 0 := by
  unfold Mat.mul; rw [Mat.get_ofFn]

theorem Mat.stack_get (A B : Mat) (i j : Nat) :
    (A.stack B).get i j =
      if i < A.r + B.r ∧ j < A.c then (if i < A.r then A.get i j else B.get (i - A.r) j) else 0 := by
  unfold Mat.stack; rw [Mat.get_ofFn]

theorem Mat.concat_get (A B : Mat) (i j : Nat) :
    (A.concat B).get i j =
      if i < A.r ∧ j < A.c + B.c then (if j < A.c then A.get i j else B.get i (j - A.c)) else 0 := by
  unfold Mat.concat; rw [Mat.get_ofFn]

@[simp] theorem Mat.rows_r (A : Mat) (lo hi : Nat) : (A.rows lo hi).r = hi - lo := rfl
@[simp] theorem Mat.rows_c (A : Mat) (lo hi : Nat) : (A.rows lo hi).c = A.c := rfl
@[simp] theorem Mat.cols_r (A : Mat) (lo hi : Nat) : (A.cols lo hi).r = A.r := rfl
@[simp] theorem Mat.cols_c (A : Mat) (lo hi : Nat) : (A.cols lo hi).c = hi - lo := rfl
@[simp] theorem Mat.mul_r (A B : Mat) : (A.mul B).r = A.r := rfl
@[simp] theorem Mat.mul_c (A B : Mat) : (A.mul B).c = B.c := rfl
@[simp] theorem Mat.stack_r (A B : Mat) : (A.stack B).r = A.r + B.r := rfl
@[simp] theorem Mat.stack_c (A B : Mat) : (A.stack B).c = A.c := rfl
@[simp] theorem Mat.concat_r (A B : Mat) : (A.concat B).r = A.r := rfl
@[simp] theorem Mat.concat_c (A B : Mat) : (A.concat B).c = A.c + B.c := rfl

/-- the matrix `p` which `HomologyCalc::trans` assembles -/
def pModel (P1 Q2i : Mat) (n r1 r2 t : Nat) : Mat :=
  ((Q2i.rows r2 (n - r1)).mul (P1.rows r1 n)).stack (P1.rows (r1 - t) r1)

/-- the matrix `q` which `HomologyCalc::trans` assembles -/
def qModel (P1i Q2 : Mat) (n r1 r2 t : Nat) : Mat :=
  ((P1i.cols r1 n).mul (Q2.cols r2 (n - r1))).concat (P1i.cols (r1 - t) r1)

/-- the code model `calcTrans` returns exactly `Trans::new(pModel, qModel)` (no panic) when the two SNF results
carry the transformation matrices of the right shapes and `t ≤ r1`, `r1 + r2 ≤ n` -/
theorem calcTrans_eq (s1 s2 : Snf) (P1 P1i Q2 Q2i : Mat) (n r1 r2 t : Nat)
    (hp : s1.p = some P1) (hpi : s1.pinv = some P1i) (hq : s2.q = some Q2) (hqi : s2.qinv = some Q2i)
    (hn : s1.result.r = n) (hr1 : s1.rank = r1) (hr2 : s2.rank = r2)
    (ht : (s1.factors.filter fun a => !isUnitZ a).length = t)
    (h12 : r1 + r2 ≤ n) (htr : t ≤ r1)
    (hP1 : P1.r = n ∧ P1.c = n) (hP1i : P1i.r = n ∧ P1i.c = n)
    (hQ2 : Q2.r = n - r1 ∧ Q2.c = n - r1) (hQ2i : Q2i.r = n - r1 ∧ Q2i.c = n - r1) :
    calcTrans s1 s2 = .ok ⟨n, (n - r1 - r2) + t, [pModel P1 Q2i n r1 r2 t], [qModel P1i Q2 n r1 r2 t]⟩ := by
  have e1 : r1 ≤ n := by omega
  have e2 : r2 ≤ n - r1 := by omega
  have e4 : r1 - (r1 - t) = t := by omega
  simp only [calcTrans, hp, hpi, hq, hqi, hn, hr1, hr2, ht, unwrap, subR, rowsR, colsR, stackR, concatR,
    Trans.mulMat, Trans.new, Trans.append, Trans.id, Res.assert, Res.bind_ok, Res.pure_eq]
  simp [hP1.1, hP1.2, hP1i.1, hP1i.2, hQ2.1, hQ2.2, hQ2i.1, hQ2i.2, e1, e2, e4, htr, pModel, qModel]


theorem pModel_get_free (P1 Q2i : Mat) (n r1 r2 t f j : Nat) (h12 : r1 + r2 ≤ n) (htr : t ≤ r1)
    (hP1 : P1.r = n ∧ P1.c = n) (hQ2i : Q2i.r = n - r1 ∧ Q2i.c = n - r1) (hf : f < n - r1 - r2) (hj : j < n) :
    (pModel P1 Q2i n r1 r2 t).get f j = ∑ k ∈ Finset.range (n - r1), Q2i.get (r2 + f) k * P1.get (r1 + k) j := by
  have h1 : f < n - r1 - r2 + (r1 - (r1 - t)) := by omega
  simp only [pModel, Mat.stack_get, Mat.mul_get, Mat.mul_r, Mat.mul_c, Mat.rows_r, Mat.rows_c, hP1.2, hf, hj, h1,
    and_self, if_true, dot_eq_sum, hQ2i.2]
  apply Finset.sum_congr rfl
  intro k hk
  have hk' : k < n - r1 := Finset.mem_range.mp hk
  simp only [Mat.rows_get, hf, hk', if_true]

theorem pModel_get_tor (P1 Q2i : Mat) (n r1 r2 t u j : Nat) (h12 : r1 + r2 ≤ n) (htr : t ≤ r1)
    (hP1 : P1.r = n ∧ P1.c = n) (hu : u < t) (hj : j < n) :
    (pModel P1 Q2i n r1 r2 t).get (n - r1 - r2 + u) j = P1.get (r1 - t + u) j := by
  have h1 : n - r1 - r2 + u < n - r1 - r2 + (r1 - (r1 - t)) := by omega
  have h2 : ¬ (n - r1 - r2 + u < n - r1 - r2) := by omega
  have h3 : u < r1 - (r1 - t) := by omega
  simp only [pModel, Mat.stack_get, Mat.mul_r, Mat.mul_c, Mat.rows_r, Mat.rows_c, hP1.2, hj, h1, h2,
    and_self, if_true, if_false, Mat.rows_get, Nat.add_sub_cancel_left, h3]

theorem qModel_get_free (P1i Q2 : Mat) (n r1 r2 t i f : Nat) (h12 : r1 + r2 ≤ n) (htr : t ≤ r1)
    (hP1i : P1i.r = n ∧ P1i.c = n) (hQ2 : Q2.r = n - r1 ∧ Q2.c = n - r1) (hf : f < n - r1 - r2) (hi : i < n) :
    (qModel P1i Q2 n r1 r2 t).get i f = ∑ k ∈ Finset.range (n - r1), P1i.get i (r1 + k) * Q2.get k (r2 + f) := by
  have h1 : f < n - r1 - r2 + (r1 - (r1 - t)) := by omega
  simp only [qModel, Mat.concat_get, Mat.mul_get, Mat.mul_r, Mat.mul_c, Mat.cols_r, Mat.cols_c, hP1i.1, hf, hi, h1,
    and_self, if_true, dot_eq_sum]
  apply Finset.sum_congr rfl
  intro k hk
  have hk' : k < n - r1 := Finset.mem_range.mp hk
  simp only [Mat.cols_get, hf, hk', if_true]

theorem qModel_get_tor (P1i Q2 : Mat) (n r1 r2 t i u : Nat) (h12 : r1 + r2 ≤ n) (htr : t ≤ r1)
    (hP1i : P1i.r = n ∧ P1i.c = n) (hu : u < t) (hi : i < n) :
    (qModel P1i Q2 n r1 r2 t).get i (n - r1 - r2 + u) = P1i.get i (r1 - t + u) := by
  have h1 : n - r1 - r2 + u < n - r1 - r2 + (r1 - (r1 - t)) := by omega
  have h2 : ¬ (n - r1 - r2 + u < n - r1 - r2) := by omega
  have h3 : u < r1 - (r1 - t) := by omega
  simp only [qModel, Mat.concat_get, Mat.mul_r, Mat.mul_c, Mat.cols_r, Mat.cols_c, hP1i.1, hi, h1, h2,
    and_self, if_true, if_false, Mat.cols_get, Nat.add_sub_cancel_left, h3]

/-- the model's `p` is the algebraic `pMat` for the literal ranges (rows re-indexed `Fin (r+t) ≃ Fin r ⊕ Fin t`) -/
theorem pModel_toM (P1 Q2i : Mat) (n r1 r2 t : Nat) (h12 : r1 + r2 ≤ n) (htr : t ≤ r1)
    (hP1 : P1.r = n ∧ P1.c = n) (hQ2i : Q2i.r = n - r1 ∧ Q2i.c = n - r1) :
    (pModel P1 Q2i n r1 r2 t).toM ((n - r1 - r2) + t) n =
      (pMat (P1.toM n n) (Q2i.toM (n - r1) (n - r1)) (rangeMap r1 (n - r1) n (by omega))
        (rangeMap (r1 - t) t n (by omega)) (rangeMap r2 (n - r1 - r2) (n - r1) (by omega))).submatrix
        finSumFinEquiv.symm id := by
  ext i j
  obtain ⟨s, rfl⟩ := finSumFinEquiv.surjective i
  rw [Matrix.submatrix_apply, Equiv.symm_apply_apply]
  cases s with
  | inl f =>
    simp only [Mat.toM, finSumFinEquiv_apply_left, Fin.val_castAdd, pMat, Matrix.fromRows_apply_inl, pFree,
      Matrix.mul_apply, Matrix.submatrix_apply, id, rangeMap]
    rw [pModel_get_free P1 Q2i n r1 r2 t f.val j.val h12 htr hP1 hQ2i f.isLt j.isLt,
      ← Fin.sum_univ_eq_sum_range (fun k => Q2i.get (r2 + f.val) k * P1.get (r1 + k) j.val)]
  | inr u =>
    simp only [Mat.toM, finSumFinEquiv_apply_right, Fin.val_natAdd, pMat, Matrix.fromRows_apply_inr, pTor,
      Matrix.submatrix_apply, id, rangeMap]
    rw [pModel_get_tor P1 Q2i n r1 r2 t u.val j.val h12 htr hP1 u.isLt j.isLt]

/-- the model's `q` is the algebraic `qMat` for the literal ranges -/
theorem qModel_toM (P1i Q2 : Mat) (n r1 r2 t : Nat) (h12 : r1 + r2 ≤ n) (htr : t ≤ r1)
    (hP1i : P1i.r = n ∧ P1i.c = n) (hQ2 : Q2.r = n - r1 ∧ Q2.c = n - r1) :
    (qModel P1i Q2 n r1 r2 t).toM n ((n - r1 - r2) + t) =
      (qMat (P1i.toM n n) (Q2.toM (n - r1) (n - r1)) (rangeMap r1 (n - r1) n (by omega))
        (rangeMap (r1 - t) t n (by omega)) (rangeMap r2 (n - r1 - r2) (n - r1) (by omega))).submatrix
        id finSumFinEquiv.symm := by
  ext i j
  obtain ⟨s, rfl⟩ := finSumFinEquiv.surjective j
  rw [Matrix.submatrix_apply, Equiv.symm_apply_apply]
  cases s with
  | inl f =>
    simp only [Mat.toM, finSumFinEquiv_apply_left, Fin.val_castAdd, qMat, Matrix.fromCols_apply_inl, qFree,
      Matrix.mul_apply, Matrix.submatrix_apply, id, rangeMap]
    rw [qModel_get_free P1i Q2 n r1 r2 t i.val f.val h12 htr hP1i hQ2 f.isLt i.isLt,
      ← Fin.sum_univ_eq_sum_range (fun k => P1i.get i.val (r1 + k) * Q2.get k (r2 + f.val))]
  | inr u =>
    simp only [Mat.toM, finSumFinEquiv_apply_right, Fin.val_natAdd, qMat, Matrix.fromCols_apply_inr, qTor,
      Matrix.submatrix_apply, id, rangeMap]
    rw [qModel_get_tor P1i Q2 n r1 r2 t i.val u.val h12 htr hP1i u.isLt i.isLt]

end Yuiv.C07
