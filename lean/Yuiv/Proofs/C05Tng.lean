import Yuiv.Model.C05Tng
import Yuiv.Model.C05Deloop
import Mathlib.Tactic.Ring
import Mathlib.Tactic.Linarith
/-
C05 (engine structure) — helper lemmas about the code model `Yuiv/Model/C05Tng.lean` of the structural
operations on tangles and cobordisms.  Property theorems are in `Yuiv/Props/C05Tng.lean`.
-/
namespace Yuiv.C05.Tng
open Yuiv Yuiv.C05

/-! ### genus bookkeeping -/

theorem genusFrom_ok (x1 x2 : Int) (b a g : Nat) (h : genusFrom x1 x2 b a = .ok g) :
    2 - 2 * (g : Int) - (b : Int) = x1 + x2 - (a : Int) := by
  unfold genusFrom at h
  simp only at h
  split at h
  · cases h
  · split at h
    · cases h
    · rename_i h1 h2
      have hg : g = ((2 - (x1 + x2 + (b : Int)) + (a : Int)) / 2).toNat := by
        injection h with h; exact h.symm
      simp at h2
      omega

theorem genusFrom_of_eq (x1 x2 : Int) (b a g : Nat) (h : 2 - 2 * (g : Int) - (b : Int) = x1 + x2 - (a : Int)) :
    genusFrom x1 x2 b a = .ok g := by
  unfold genusFrom
  have h0 : (2 - (x1 + x2 + (b : Int)) + (a : Int)) = 2 * (g : Int) := by omega
  simp only [h0]
  have h1 : ¬ (2 * (g : Int) < 0) := by omega
  have h2 : (2 * (g : Int)) % 2 = 0 := by omega
  have h3 : (2 * (g : Int) / 2).toNat = g := by omega
  simp [h1, h2]

/-! ### `CobComp::connect`, unfolded -/

theorem connect_spec (c d r : CobComp) (h : c.connect d = .ok r) :
    ∃ x1 x2 b, c.eulerNum = .ok x1 ∧ d.eulerNum = .ok x2 ∧ r.nbdr = .ok b
      ∧ Tng.connect c.src d.src = .ok r.src ∧ Tng.connect c.tgt d.tgt = .ok r.tgt
      ∧ genusFrom x1 x2 b (sharedEndpts c d) = .ok r.genus
      ∧ r.dots = (c.dots.1 + d.dots.1, c.dots.2 + d.dots.2) ∧ 0 < sharedEndpts c d := by
  unfold CobComp.connect at h
  split at h
  · cases h
  · split at h
    · rename_i x1 x2 hx1 hx2
      simp only at h
      split at h
      · cases h
      · rename_i ha
        split at h
        · rename_i src hsrc
          split at h
          · rename_i tgt htgt
            split at h
            · rename_i b hb
              split at h
              · rename_i g hg
                injection h with h
                subst h
                refine ⟨x1, x2, b, hx1, hx2, hb, hsrc, htgt, hg, rfl, ?_⟩
                simp at ha
                omega
              · cases h
              · cases h
            · cases h
            · cases h
          · cases h
          · cases h
        · cases h
        · cases h
    · cases h
    · cases h
    · cases h

theorem eulerNum_ok (c : CobComp) (x : Int) (h : c.eulerNum = .ok x) :
    ∃ b, c.nbdr = .ok b ∧ x = C05.eulerNum b c.genus := by
  unfold CobComp.eulerNum at h
  split at h
  · rename_i b hb
    injection h with h
    exact ⟨b, hb, h.symm⟩
  · cases h
  · cases h

theorem deg_of_nbdr (c : CobComp) (b : Nat) (h : c.nbdr = .ok b) :
    c.deg = .ok (C05.deg b c.endpts.length c.genus c.dots.1 c.dots.2)
    ∧ c.eulerNum = .ok (C05.eulerNum b c.genus) := by
  simp [CobComp.deg, CobComp.eulerNum, h]

/-! ### list surgery -/

theorem filter_eraseIdx_neg {α} (P : α → Bool) : ∀ (l : List α) (i : Nat) (p : α),
    l[i]? = some p → P p = false → (l.eraseIdx i).filter P = l.filter P
  | [], i, p, h, _ => by simp at h
  | a :: l, 0, p, h, hp => by
    simp at h; subst h; simp [hp]
  | a :: l, i + 1, p, h, hp => by
    simp at h
    simp [List.filter_cons, filter_eraseIdx_neg P l i p h hp]

theorem filter_eraseIdx_pos {α} (P : α → Bool) : ∀ (l : List α) (i : Nat) (p : α),
    l[i]? = some p → P p = true → ((l.eraseIdx i).filter P).length + 1 = (l.filter P).length
  | [], i, p, h, _ => by simp at h
  | a :: l, 0, p, h, hp => by
    simp at h; subst h; simp [hp]
  | a :: l, i + 1, p, h, hp => by
    simp at h
    have := filter_eraseIdx_pos P l i p h hp
    simp only [List.eraseIdx_cons_succ, List.filter_cons]
    split
    · simp only [List.length_cons]; omega
    · exact this

theorem flatMap_eraseIdx_nil {α β} (f : α → List β) : ∀ (l : List α) (i : Nat) (p : α),
    l[i]? = some p → f p = [] → (l.eraseIdx i).flatMap f = l.flatMap f
  | [], i, p, h, _ => by simp at h
  | a :: l, 0, p, h, hp => by
    simp at h; subst h; simp [hp]
  | a :: l, i + 1, p, h, hp => by
    simp at h
    simp [flatMap_eraseIdx_nil f l i p h hp]

/-! ### `cap_off` -/

theorem ends_of_closed (p : Path) (h : p.closed = true) : p.ends = none := by
  simp [Path.ends, h]

/-- removing a circle from a tangle: same arcs, same end points, one circle less -/
theorem eraseIdx_circle (t : Tng) (i : Nat) (p : Path) (h : t[i]? = some p) (hp : p.closed = true) :
    arcsOf (t.eraseIdx i) = arcsOf t ∧ circsOf (t.eraseIdx i) + 1 = circsOf t
    ∧ Tng.endpts (t.eraseIdx i) = Tng.endpts t := by
  refine ⟨?_, ?_, ?_⟩
  · exact filter_eraseIdx_neg _ t i p h (by simp [Path.isArc, hp])
  · exact filter_eraseIdx_pos _ t i p h hp
  · unfold Tng.endpts endsMulti
    rw [flatMap_eraseIdx_nil _ t i p h (by simp [ends_of_closed p hp])]

theorem nbdrOf_ok (src tgt : Tng) (b : Nat) (h : nbdrOf src tgt = .ok b) :
    ∃ n, (arcsOf src).length = (arcsOf tgt).length
      ∧ sideCircs ((arcsOf src).length + 1) (arcsOf src) (arcsOf tgt) = .ok n
      ∧ b = circsOf src + circsOf tgt + n := by
  unfold nbdrOf at h
  simp only at h
  split at h
  · cases h
  · rename_i hl
    split at h
    · rename_i n hn
      injection h with h
      exact ⟨n, by simpa using hl, hn, h.symm⟩
    · cases h
    · cases h

theorem nbdrOf_of (src tgt : Tng) (n : Nat) (hl : (arcsOf src).length = (arcsOf tgt).length)
    (hn : sideCircs ((arcsOf src).length + 1) (arcsOf src) (arcsOf tgt) = .ok n) :
    nbdrOf src tgt = .ok (circsOf src + circsOf tgt + n) := by
  have hne : ((arcsOf src).length != (arcsOf tgt).length) = false := by simp [hl]
  simp only [nbdrOf, hne, Bool.false_eq_true, if_false, hn]

/-- `CobComp::cap_off`: the capped component has one boundary circle less, everything else is unchanged -/
theorem capOff_spec (c c' : CobComp) (bt : Bottom) (i : Nat) (b : Nat)
    (h : c.capOff bt i = .ok c') (hb : c.nbdr = .ok b) :
    ∃ b', c'.nbdr = .ok b' ∧ b = b' + 1 ∧ c'.endpts.length = c.endpts.length
      ∧ c'.genus = c.genus ∧ c'.dots = c.dots := by
  unfold CobComp.capOff at h
  split at h
  · cases h
  · rename_i p hp
    split at h
    · rename_i hc
      injection h with h
      subst h
      obtain ⟨n, hl, hn, rfl⟩ := nbdrOf_ok _ _ _ hb
      cases bt
      · obtain ⟨h1, h2, h3⟩ := eraseIdx_circle c.src i p hp hc
        refine ⟨circsOf (c.src.eraseIdx i) + circsOf c.tgt + n, ?_, ?_, ?_, rfl, rfl⟩
        · show nbdrOf (c.src.eraseIdx i) c.tgt = _
          apply nbdrOf_of
          · rw [h1]; exact hl
          · rw [h1]; exact hn
        · omega
        · show (Tng.endpts (c.src.eraseIdx i)).length = _
          rw [h3]; rfl
      · obtain ⟨h1, h2, h3⟩ := eraseIdx_circle c.tgt i p hp hc
        refine ⟨circsOf c.src + circsOf (c.tgt.eraseIdx i) + n, ?_, ?_, rfl, rfl, rfl⟩
        · show nbdrOf c.src (c.tgt.eraseIdx i) = _
          apply nbdrOf_of
          · rw [h1]; exact hl
          · rw [h1]; exact hn
        · omega
    · cases h

/-- the model's `Dot` is the `Dot` of `Model/C05Deloop` -/
def Dot.toDeloop : Dot → Deloop.Dot
  | .none => .none
  | .X => .X
  | .Y => .Y

theorem addDot_dots (c : CobComp) (d : Dot) :
    (c.addDot d).dots = Deloop.addDot d.toDeloop c.dots ∧ (c.addDot d).src = c.src ∧ (c.addDot d).tgt = c.tgt
    ∧ (c.addDot d).genus = c.genus := by
  cases d <;> simp [CobComp.addDot, Deloop.addDot, Dot.toDeloop]

/-! ### `Path::connect` -/

theorem ends_some (p : Path) (a b : Nat) :
    p.ends = some (a, b) ↔ p.closed = false ∧ p.edges.head? = some a ∧ p.edges.getLast? = some b := by
  unfold Path.ends
  cases hc : p.closed <;> simp
  cases h1 : p.edges.head? <;> cases h2 : p.edges.getLast? <;> simp

theorem head?_tail_reverse (l : List Nat) (a b : Nat) (h1 : l.head? = some a) (h2 : l.getLast? = some b)
    (hl : l.tail ≠ []) : l.tail.reverse.head? = some b ∧ l.tail.getLast? = some b := by
  cases l with
  | nil => simp at h1
  | cons x t =>
    cases t with
    | nil => simp at hl
    | cons y r =>
      have h2' : (y :: r).getLast? = some b := by simpa [List.getLast?_cons_cons] using h2
      simp only [List.tail_cons, List.head?_reverse]; exact ⟨h2', h2'⟩

theorem single_of_tail_nil (l : List Nat) (a b : Nat) (h1 : l.head? = some a) (h2 : l.getLast? = some b)
    (hl : l.tail = []) : a = b ∧ l = [a] := by
  cases l with
  | nil => simp at h1
  | cons x t =>
    simp at hl; subst hl
    simp at h1 h2
    subst h1; subst h2; exact ⟨rfl, rfl⟩

theorem dropLast_ends (l : List Nat) (a b : Nat) (h1 : l.head? = some a) (h2 : l.getLast? = some b)
    (hl : l.dropLast ≠ []) : l.dropLast.head? = some a ∧ l.dropLast.reverse.getLast? = some a := by
  have : 1 < l.length := by
    cases l with
    | nil => simp at h1
    | cons x t => cases t with
      | nil => simp at hl
      | cons y r => simp
  simp [List.head?_dropLast, this, h1]

theorem single_of_dropLast_nil (l : List Nat) (a b : Nat) (h1 : l.head? = some a) (h2 : l.getLast? = some b)
    (hl : l.dropLast = []) : a = b ∧ l = [a] := by
  cases l with
  | nil => simp at h1
  | cons x t =>
    cases t with
    | nil => simp at h1 h2; subst h1; subst h2; exact ⟨rfl, rfl⟩
    | cons y r => simp at hl

/-- head and last of the glued edge list, branch by branch -/
theorem glue_ends (pe qe : List Nat) (e0 e1 f0 f1 : Nat)
    (hp0 : pe.head? = some e0) (hp1 : pe.getLast? = some e1)
    (hq0 : qe.head? = some f0) (hq1 : qe.getLast? = some f1)
    (L : List Nat) (h : glue pe qe e0 e1 f0 f1 = .ok L) :
    ∃ x y, L.head? = some x ∧ L.getLast? = some y ∧
      ((e1 = f0 ∧ x = e0 ∧ y = f1) ∨ (e1 ≠ f0 ∧ e1 = f1 ∧ x = e0 ∧ y = f0)
        ∨ (e1 ≠ f0 ∧ e1 ≠ f1 ∧ e0 = f0 ∧ x = f1 ∧ y = e1)
        ∨ (e1 ≠ f0 ∧ e1 ≠ f1 ∧ e0 ≠ f0 ∧ e0 = f1 ∧ x = f0 ∧ y = e1)) := by
  unfold glue at h
  by_cases c1 : e1 = f0
  · simp [c1] at h; subst h
    refine ⟨e0, f1, ?_, ?_, Or.inl ⟨c1, rfl, rfl⟩⟩
    · simp [List.head?_append, hp0]
    · by_cases ht : qe.tail = []
      · obtain ⟨hh, _⟩ := single_of_tail_nil qe f0 f1 hq0 hq1 ht
        simp [ht, hp1, c1, hh]
      · simp [List.getLast?_append, (head?_tail_reverse qe f0 f1 hq0 hq1 ht).2]
  · by_cases c2 : e1 = f1
    · simp [c1, c2] at h
      have c1' : ¬ f1 = f0 := by rw [← c2]; exact c1
      simp [c1'] at h
      subst h
      refine ⟨e0, f0, ?_, ?_, Or.inr (Or.inl ⟨c1, c2, rfl, rfl⟩)⟩
      · simp [List.head?_append, hp0]
      · by_cases ht : qe.dropLast = []
        · obtain ⟨hh, _⟩ := single_of_dropLast_nil qe f0 f1 hq0 hq1 ht
          exact absurd hh.symm c1'
        · simp [List.getLast?_append, (dropLast_ends qe f0 f1 hq0 hq1 ht).1]
    · by_cases c3 : e0 = f0
      · simp [c1, c2, c3] at h; subst h
        refine ⟨f1, e1, ?_, ?_, Or.inr (Or.inr (Or.inl ⟨c1, c2, c3, rfl, rfl⟩))⟩
        · by_cases ht : qe.tail = []
          · obtain ⟨hh, _⟩ := single_of_tail_nil qe f0 f1 hq0 hq1 ht
            simp [ht, hp0, c3, hh]
          · simp [List.head?_append, (head?_tail_reverse qe f0 f1 hq0 hq1 ht).1]
        · simp [List.getLast?_append, hp1]
      · by_cases c4 : e0 = f1
        · simp [c1, c2, c3, c4] at h
          have c3' : ¬ f1 = f0 := by rw [← c4]; exact c3
          simp [c3'] at h
          subst h
          refine ⟨f0, e1, ?_, ?_, Or.inr (Or.inr (Or.inr ⟨c1, c2, c3, c4, rfl, rfl⟩))⟩
          · by_cases ht : qe.dropLast = []
            · obtain ⟨hh, _⟩ := single_of_dropLast_nil qe f0 f1 hq0 hq1 ht
              exact absurd hh.symm c3'
            · simp [List.head?_append, (dropLast_ends qe f0 f1 hq0 hq1 ht).1]
          · simp [List.getLast?_append, hp1]
        · simp [c1, c2, c3, c4] at h


theorem isConnectable_iff (p q : Path) (e0 e1 f0 f1 : Nat) (hp : p.ends = some (e0, e1)) (hq : q.ends = some (f0, f1)) :
    isConnectable p q = true ↔ (e0 = f0 ∨ e0 = f1 ∨ e1 = f0 ∨ e1 = f1) := by
  simp [isConnectable, hp, hq, or_assoc]

theorem glue_isOk (pe qe : List Nat) (e0 e1 f0 f1 : Nat) (h : e0 = f0 ∨ e0 = f1 ∨ e1 = f0 ∨ e1 = f1) :
    ∃ L, glue pe qe e0 e1 f0 f1 = .ok L := by
  unfold glue
  by_cases c1 : e1 = f0
  · simp [c1]
  · by_cases c2 : e1 = f1
    · have : ¬ f1 = f0 := by rw [← c2]; exact c1
      simp [c2, this]
    · by_cases c3 : e0 = f0
      · simp [c1, c2, c3]
      · have c4 : e0 = f1 := by omega
        have : ¬ f1 = f0 := by rw [← c4]; exact c3
        simp [c1, c2, c4, this]

/-- `Path::connect` on two connectable arcs: the glued list, its two ends, and the closing test -/
theorem path_connect_spec (p q : Path) (e0 e1 f0 f1 : Nat) (hp : p.ends = some (e0, e1)) (hq : q.ends = some (f0, f1))
    (hc : isConnectable p q = true) :
    ∃ L x y, glue p.edges q.edges e0 e1 f0 f1 = .ok L ∧ L.head? = some x ∧ L.getLast? = some y ∧
      ((e1 = f0 ∧ x = e0 ∧ y = f1) ∨ (e1 ≠ f0 ∧ e1 = f1 ∧ x = e0 ∧ y = f0)
        ∨ (e1 ≠ f0 ∧ e1 ≠ f1 ∧ e0 = f0 ∧ x = f1 ∧ y = e1)
        ∨ (e1 ≠ f0 ∧ e1 ≠ f1 ∧ e0 ≠ f0 ∧ e0 = f1 ∧ x = f0 ∧ y = e1))
      ∧ p.connect q = .ok (if x = y then ⟨L.dropLast, true⟩ else ⟨L, false⟩) := by
  obtain ⟨_, hp0, hp1⟩ := (ends_some p e0 e1).1 hp
  obtain ⟨_, hq0, hq1⟩ := (ends_some q f0 f1).1 hq
  obtain ⟨L, hL⟩ := glue_isOk p.edges q.edges e0 e1 f0 f1 ((isConnectable_iff p q e0 e1 f0 f1 hp hq).1 hc)
  obtain ⟨x, y, hx, hy, hd⟩ := glue_ends p.edges q.edges e0 e1 f0 f1 hp0 hp1 hq0 hq1 L hL
  refine ⟨L, x, y, hL, hx, hy, hd, ?_⟩
  unfold Path.connect
  simp only [hc, Bool.not_true, Bool.false_eq_true, if_false, hp, hq, hL]
  unfold closeUp
  simp only [hx, hy]
  by_cases hxy : x = y <;> simp [hxy]

theorem cons_tail_of_head (l : List Nat) (a : Nat) (h : l.head? = some a) : l = a :: l.tail := by
  cases l with
  | nil => simp at h
  | cons x t => simp at h; simp [h]

theorem dropLast_snoc_of_last (l : List Nat) (b : Nat) (h : l.getLast? = some b) : l = l.dropLast ++ [b] := by
  have hne : l ≠ [] := by intro h0; simp [h0] at h
  have := List.dropLast_concat_getLast hne
  rw [List.getLast?_eq_some_getLast hne] at h
  injection h with h
  rw [h] at this
  exact this.symm

theorem zip_self_all (l : List Nat) : (List.zip l l).all (fun ef => ef.1 == ef.2) = true := by
  induction l with
  | nil => rfl
  | cons a t ih => simp [ih]

theorem unoriEq_arc_self (l : List Nat) : unoriEq ⟨l, false⟩ ⟨l, false⟩ = true := by
  simp [unoriEq]

theorem unoriEq_arc_reverse (l : List Nat) : unoriEq ⟨l, false⟩ ⟨l.reverse, false⟩ = true := by
  unfold unoriEq
  simp only [bne_self_eq_false, List.length_reverse, sumL, List.sum_reverse, Bool.or_self, Bool.false_eq_true,
    if_false, List.reverse_reverse]
  split
  · rfl
  · exact zip_self_all l


/-- proper arcs sharing exactly one end: both argument orders give arcs whose edge lists are equal or reversed -/
theorem path_connect_comm_edges (p q : Path) (e0 e1 f0 f1 : Nat) (hp : p.ends = some (e0, e1)) (hq : q.ends = some (f0, f1))
    (he : e0 ≠ e1) (hf : f0 ≠ f1) (hc : isConnectable p q = true)
    (hnb : ¬ ((e0 = f0 ∧ e1 = f1) ∨ (e0 = f1 ∧ e1 = f0))) :
    ∃ L L', p.connect q = .ok ⟨L, false⟩ ∧ q.connect p = .ok ⟨L', false⟩ ∧ (L' = L ∨ L' = L.reverse) := by
  have hc' : isConnectable q p = true := by
    rw [isConnectable_iff q p f0 f1 e0 e1 hq hp]
    have := (isConnectable_iff p q e0 e1 f0 f1 hp hq).1 hc
    omega
  obtain ⟨L, x, y, hL, hx, hy, hd, hr⟩ := path_connect_spec p q e0 e1 f0 f1 hp hq hc
  obtain ⟨L', x', y', hL', hx', hy', hd', hr'⟩ := path_connect_spec q p f0 f1 e0 e1 hq hp hc'
  obtain ⟨_, hp0, hp1⟩ := (ends_some p e0 e1).1 hp
  obtain ⟨_, hq0, hq1⟩ := (ends_some q f0 f1).1 hq
  have P0 := cons_tail_of_head p.edges e0 hp0
  have P1 := dropLast_snoc_of_last p.edges e1 hp1
  have Q0 := cons_tail_of_head q.edges f0 hq0
  have Q1 := dropLast_snoc_of_last q.edges f1 hq1
  have hxy : x ≠ y := by omega
  have hxy' : x' ≠ y' := by omega
  rw [if_neg hxy] at hr
  rw [if_neg hxy'] at hr'
  refine ⟨L, L', hr, hr', ?_⟩
  have hf' : ¬ f1 = f0 := fun h => hf h.symm
  have he' : ¬ e1 = e0 := fun h => he h.symm
  unfold glue at hL hL'
  rcases hd with ⟨c1, _, _⟩ | ⟨c1, c2, _, _⟩ | ⟨c1, c2, c3, _, _⟩ | ⟨c1, c2, c3, c4, _, _⟩
  · -- e1 = f0
    have a1 : ¬ f1 = e0 := by omega
    have a2 : ¬ f1 = e1 := by omega
    have a3 : ¬ f0 = e0 := by omega
    simp [c1] at hL
    simp [a1, a2, a3, c1, hf'] at hL'
    left
    rw [← hL, ← hL']
    conv_lhs => rw [Q0]
    conv_rhs => rw [P1]
    simp [c1]
  · -- e1 = f1
    have a1 : ¬ f1 = e0 := by omega
    simp [c1, c2] at hL
    have b1 : ¬ f1 = f0 := by omega
    simp [b1] at hL
    simp [a1, c2] at hL'
    right
    rw [← hL, ← hL']
    simp only [List.reverse_append, List.reverse_reverse]
    conv_lhs => rw [Q1]
    conv_rhs => rw [P1]
    simp [c2]
  · -- e0 = f0
    have a1 : ¬ f1 = e0 := by omega
    have a2 : ¬ f1 = e1 := by omega
    simp [c1, c2, c3] at hL
    simp [a1, a2, c3, hf'] at hL'
    right
    rw [← hL, ← hL']
    simp only [List.reverse_append, List.reverse_reverse]
    conv_lhs => rw [Q0]
    conv_rhs => rw [P0]
    simp [c3]
  · -- e0 = f1
    simp [c1, c2, c3, c4] at hL
    have b1 : ¬ f1 = f0 := by omega
    simp [b1] at hL
    simp [c4] at hL'
    left
    rw [← hL, ← hL']
    conv_lhs => rw [Q1]
    conv_rhs => rw [P0]
    simp [c4]


theorem glue_length (pe qe : List Nat) (e0 e1 f0 f1 : Nat) (hq : qe ≠ []) (L : List Nat)
    (h : glue pe qe e0 e1 f0 f1 = .ok L) : L.length + 1 = pe.length + qe.length := by
  have : 1 ≤ qe.length := by
    cases qe with
    | nil => exact absurd rfl hq
    | cons a t => simp
  unfold glue at h
  split at h
  · injection h with h; subst h; simp; omega
  · split at h
    · injection h with h; subst h; simp; omega
    · split at h
      · injection h with h; subst h; simp; omega
      · split at h
        · injection h with h; subst h; simp; omega
        · cases h

theorem deg_connect_additive_aux (c d r : CobComp) (h : c.connect d = .ok r)
    (hE : r.endpts.length + 2 * sharedEndpts c d = c.endpts.length + d.endpts.length)
    (hc : c.endpts.length % 2 = 0) (hd : d.endpts.length % 2 = 0) :
    ∃ x y, c.deg = .ok x ∧ d.deg = .ok y ∧ r.deg = .ok (x + y) := by
  obtain ⟨x1, x2, b, hx1, hx2, hb, _, _, hg, hdots, _⟩ := connect_spec c d r h
  obtain ⟨b1, hb1, rfl⟩ := eulerNum_ok c x1 hx1
  obtain ⟨b2, hb2, rfl⟩ := eulerNum_ok d x2 hx2
  refine ⟨_, _, (deg_of_nbdr c b1 hb1).1, (deg_of_nbdr d b2 hb2).1, ?_⟩
  rw [(deg_of_nbdr r b hb).1]
  have := genusFrom_ok _ _ _ _ _ hg
  congr 1
  simp only [C05.deg, C05.eulerNum, hdots] at this ⊢
  push_cast
  omega

/-- unfolding of `Cob::stack_comps` -/
theorem stackComps_spec (bot top : List CobComp) (r : CobComp) (h : stackComps bot top = .ok r) :
    ∃ x0 x1 b, sumRes CobComp.eulerNum bot = .ok x0 ∧ sumRes CobComp.eulerNum top = .ok x1
      ∧ foldConnect (bot.map (·.src)) [] = .ok r.src ∧ foldConnect (top.map (·.tgt)) [] = .ok r.tgt
      ∧ r.nbdr = .ok b ∧ genusFrom x0 x1 b (tgtArcs bot) = .ok r.genus ∧ r.dots = sumDots (bot ++ top)
      ∧ bot ≠ [] ∧ top ≠ [] := by
  unfold stackComps at h
  split at h
  · cases h
  · rename_i hne
    split at h
    · rename_i x0 x1 hx0 hx1
      simp only at h
      split at h
      · rename_i src tgt hsrc htgt
        split at h
        · rename_i c hc
          split at h
          · rename_i b hb
            split at h
            · rename_i g hg
              injection h with h
              subst h
              unfold CobComp.new at hc
              split at hc
              · injection hc with hc
                subst hc
                refine ⟨x0, x1, b, hx0, hx1, hsrc, htgt, hb, hg, rfl, ?_, ?_⟩
                · intro h0; simp [h0] at hne
                · intro h0; simp [h0] at hne
              · cases hc
            · cases h
            · cases h
          · cases h
          · cases h
        · cases h
        · cases h
      · cases h
      · cases h
      · cases h
    · cases h
    · cases h
    · cases h


/-- `Σ #endpts/2` over components -/
def halfEnds (l : List CobComp) : Nat := (l.map (fun c => c.endpts.length / 2)).sum
/-- total number of dots -/
def totalDots (l : List CobComp) : Nat := (l.map CobComp.ndots).sum

theorem sumRes_cons_ok {α} (f : α → Res Int) (a : α) (l : List α) (X : Int) (h : sumRes f (a :: l) = .ok X) :
    ∃ x y, f a = .ok x ∧ sumRes f l = .ok y ∧ X = x + y := by
  unfold sumRes at h
  split at h
  · rename_i x y hx hy
    injection h with h
    exact ⟨x, y, hx, hy, h.symm⟩
  · cases h
  · cases h
  · cases h

theorem sumRes_cons_of {α} (f : α → Res Int) (a : α) (l : List α) (x y : Int) (hx : f a = .ok x)
    (hy : sumRes f l = .ok y) : sumRes f (a :: l) = .ok (x + y) := by
  simp [sumRes, hx, hy]

theorem sumRes_deg : ∀ (l : List CobComp) (X : Int), sumRes CobComp.eulerNum l = .ok X →
    sumRes CobComp.deg l = .ok (X - (halfEnds l : Int) - 2 * (totalDots l : Int))
  | [], X, h => by
    simp [sumRes] at h
    subst h
    simp [sumRes, halfEnds, totalDots]
  | a :: l, X, h => by
    obtain ⟨x, y, hx, hy, rfl⟩ := sumRes_cons_ok _ a l X h
    obtain ⟨b, hb, rfl⟩ := eulerNum_ok a x hx
    rw [sumRes_cons_of _ a l _ _ (deg_of_nbdr a b hb).1 (sumRes_deg l y hy)]
    congr 1
    simp only [C05.deg, halfEnds, totalDots, List.map_cons, List.sum_cons, CobComp.ndots]
    push_cast
    ring

theorem sumDots_foldl (l : List CobComp) : ∀ acc : Nat × Nat,
    (l.foldl (fun r c => (r.1 + c.dots.1, r.2 + c.dots.2)) acc).1
      + (l.foldl (fun r c => (r.1 + c.dots.1, r.2 + c.dots.2)) acc).2 = acc.1 + acc.2 + totalDots l := by
  induction l with
  | nil => intro acc; simp [totalDots]
  | cons a t ih =>
    intro acc
    simp only [List.foldl_cons]
    rw [ih]
    simp [totalDots, CobComp.ndots]
    omega

theorem sumDots_total (l : List CobComp) : (sumDots l).1 + (sumDots l).2 = totalDots l := by
  have := sumDots_foldl l (0, 0)
  simpa [sumDots] using this

theorem totalDots_append (a b : List CobComp) : totalDots (a ++ b) = totalDots a + totalDots b := by
  simp [totalDots]

theorem deg_stack_additive_aux (bot top : List CobComp) (r : CobComp) (h : stackComps bot top = .ok r)
    (hE : r.endpts.length / 2 + tgtArcs bot = halfEnds bot + halfEnds top) :
    ∃ x y, Cob.deg bot = .ok x ∧ Cob.deg top = .ok y ∧ r.deg = .ok (x + y) := by
  obtain ⟨x0, x1, b, hx0, hx1, _, _, hb, hg, hdots, _, _⟩ := stackComps_spec bot top r h
  refine ⟨_, _, sumRes_deg bot x0 hx0, sumRes_deg top x1 hx1, ?_⟩
  rw [(deg_of_nbdr r b hb).1]
  have hgen := genusFrom_ok _ _ _ _ _ hg
  have hd := sumDots_total (bot ++ top)
  rw [← hdots, totalDots_append] at hd
  congr 1
  simp only [C05.deg, C05.eulerNum] at hgen ⊢
  push_cast
  have hE' : ((r.endpts.length / 2 : Nat) : Int) + (tgtArcs bot : Int) = (halfEnds bot : Int) + (halfEnds top : Int) := by
    exact_mod_cast hE
  have hd' : ((r.dots.1 : Nat) : Int) + (r.dots.2 : Int) = (totalDots bot : Int) + (totalDots top : Int) := by
    exact_mod_cast hd
  linarith


theorem setEq_self (l : List Nat) : setEq l l = true := by
  simp [setEq]

/-- boundary count of a cylinder over connectable arcs / over circles -/
theorem nbdrOf_arc (s t : Path) (hs : s.closed = false) (ht : t.closed = false) (h : isConnectable t s = true) :
    nbdrOf [s] [t] = .ok 1 := by
  simp [nbdrOf, arcsOf, circsOf, Path.isArc, hs, ht, sideCircs, walk, h]

theorem nbdrOf_circ (s t : Path) (hs : s.closed = true) (ht : t.closed = true) :
    nbdrOf [s] [t] = .ok 2 := by
  simp [nbdrOf, arcsOf, circsOf, Path.isArc, hs, ht, sideCircs]

theorem foldConnect_single (s : Path) : foldConnect [[s]] [] = .ok [s] := by
  cases hs : s.closed <;>
    simp [foldConnect, Tng.connect, connectLoop, Tng.appendArc, sortComps, sortBy, insertBy, hs]

/-- stacking two cylinders over arcs: `([s] → [t])` then `([t] → [u])` gives `([s] → [u])`, genus and dots add -/
theorem stackComps_cyl_arc (s t u : Path) (g g' : Nat) (d d' : Nat × Nat)
    (hs : s.closed = false) (ht : t.closed = false) (hu : u.closed = false)
    (hst : isConnectable t s = true) (htu : isConnectable u t = true) (hsu : isConnectable u s = true)
    (hE : setEq (Tng.endpts [s]) (Tng.endpts [u]) = true) :
    stackComps [⟨[s], [t], g, d⟩] [⟨[t], [u], g', d'⟩] = .ok ⟨[s], [u], g + g', (d.1 + d'.1, d.2 + d'.2)⟩ := by
  have h1 := nbdrOf_arc s t hs ht hst
  have h2 := nbdrOf_arc t u ht hu htu
  have h3 := nbdrOf_arc s u hs hu hsu
  have hgen : genusFrom (C05.eulerNum 1 g) (C05.eulerNum 1 g') 1 1 = .ok (g + g') := by
    apply genusFrom_of_eq; simp [C05.eulerNum]; ring
  simp [stackComps, sumRes, CobComp.eulerNum, CobComp.nbdr, h1, h2, h3, foldConnect_single, CobComp.new, hE,
    tgtArcs, arcsOf, Path.isArc, ht, sumDots, hgen]

theorem stackComps_cyl_circ (s t u : Path) (g g' : Nat) (d d' : Nat × Nat)
    (hs : s.closed = true) (ht : t.closed = true) (hu : u.closed = true) :
    stackComps [⟨[s], [t], g, d⟩] [⟨[t], [u], g', d'⟩] = .ok ⟨[s], [u], g + g', (d.1 + d'.1, d.2 + d'.2)⟩ := by
  have h1 := nbdrOf_circ s t hs ht
  have h2 := nbdrOf_circ t u ht hu
  have h3 := nbdrOf_circ s u hs hu
  have hE : setEq (Tng.endpts [s]) (Tng.endpts [u]) = true := by
    simp [Tng.endpts, endsMulti, ends_of_closed, hs, hu, dedup, setEq]
  have hgen : genusFrom (C05.eulerNum 2 g) (C05.eulerNum 2 g') 2 0 = .ok (g + g') := by
    apply genusFrom_of_eq; simp [C05.eulerNum]; ring
  simp [stackComps, sumRes, CobComp.eulerNum, CobComp.nbdr, h1, h2, h3, foldConnect_single, CobComp.new, hE,
    tgtArcs, arcsOf, Path.isArc, ht, sumDots, hgen]


theorem isConnectable_symm (p q : Path) : isConnectable p q = isConnectable q p := by
  unfold isConnectable
  cases hp : p.ends with
  | none => cases hq : q.ends <;> rfl
  | some a =>
    cases hq : q.ends with
    | none => rfl
    | some b =>
      obtain ⟨a0, a1⟩ := a
      obtain ⟨b0, b1⟩ := b
      simp only []
      rw [Bool.eq_iff_iff]
      simp only [Bool.or_eq_true, beq_iff_eq]
      constructor <;> intro h <;> omega

theorem isConnectable_self (p q : Path) (h : isConnectable p q = true) :
    isConnectable p p = true ∧ isConnectable q q = true := by
  unfold isConnectable at h ⊢
  cases hp : p.ends with
  | none => simp [hp] at h
  | some a =>
    cases hq : q.ends with
    | none => simp [hp, hq] at h
    | some b => obtain ⟨a0, a1⟩ := a; obtain ⟨b0, b1⟩ := b; simp

/-! ### sums over components, `Cob::cap_off` -/

theorem sumRes_cons_congr {α} (f : α → Res Int) (a : α) (l l' : List α) (h : sumRes f l = sumRes f l') :
    sumRes f (a :: l) = sumRes f (a :: l') := by
  simp only [sumRes, h]

theorem sumRes_swap {α} (f : α → Res Int) (a b : α) (l : List α) :
    sumRes f (a :: b :: l) = sumRes f (b :: a :: l) := by
  simp only [sumRes]
  cases f a <;> cases f b <;> cases sumRes f l <;> simp [Int.add_left_comm]

theorem sumRes_insertBy {α} (f : α → Res Int) (lt : α → α → Bool) (a : α) : ∀ l : List α,
    sumRes f (insertBy lt a l) = sumRes f (a :: l)
  | [] => rfl
  | b :: l => by
    unfold insertBy
    split
    · rw [sumRes_cons_congr f b _ _ (sumRes_insertBy f lt a l), sumRes_swap]
    · rfl

theorem sumRes_sortBy {α} (f : α → Res Int) (lt : α → α → Bool) : ∀ l : List α,
    sumRes f (sortBy lt l) = sumRes f l
  | [] => rfl
  | a :: l => by
    show sumRes f (insertBy lt a (sortBy lt l)) = _
    rw [sumRes_insertBy, sumRes_cons_congr f a _ _ (sumRes_sortBy f lt l)]

theorem sumRes_get {α} (f : α → Res Int) : ∀ (l : List α) (i : Nat) (a : α) (D : Int),
    sumRes f l = .ok D → l[i]? = some a → ∃ x, f a = .ok x
  | [], i, a, D, _, h => by simp at h
  | b :: l, 0, a, D, hD, h => by
    simp at h; subst h
    obtain ⟨x, _, hx, _, _⟩ := sumRes_cons_ok f b l D hD
    exact ⟨x, hx⟩
  | b :: l, i + 1, a, D, hD, h => by
    simp at h
    obtain ⟨_, y, _, hy, _⟩ := sumRes_cons_ok f b l D hD
    exact sumRes_get f l i a y hy h

theorem sumRes_set {α} (f : α → Res Int) : ∀ (l : List α) (i : Nat) (a a' : α) (D x x' : Int),
    sumRes f l = .ok D → l[i]? = some a → f a = .ok x → f a' = .ok x' →
    sumRes f (l.set i a') = .ok (D - x + x')
  | [], i, a, a', D, x, x', _, h, _, _ => by simp at h
  | b :: l, 0, a, a', D, x, x', hD, h, hx, hx' => by
    simp at h; subst h
    obtain ⟨x0, y, hx0, hy, rfl⟩ := sumRes_cons_ok f b l D hD
    rw [hx] at hx0; injection hx0 with hx0; subst hx0
    rw [List.set_cons_zero, sumRes_cons_of f a' l x' y hx' hy]
    congr 1; omega
  | b :: l, i + 1, a, a', D, x, x', hD, h, hx, hx' => by
    simp at h
    obtain ⟨x0, y, hx0, hy, rfl⟩ := sumRes_cons_ok f b l D hD
    rw [List.set_cons_succ, sumRes_cons_of f b _ x0 _ hx0 (sumRes_set f l i a a' y x x' hy h hx hx')]
    congr 1; omega

theorem sumRes_erase {α} (f : α → Res Int) : ∀ (l : List α) (i : Nat) (a : α) (D x : Int),
    sumRes f l = .ok D → l[i]? = some a → f a = .ok x → sumRes f (l.eraseIdx i) = .ok (D - x)
  | [], i, a, D, x, _, h, _ => by simp at h
  | b :: l, 0, a, D, x, hD, h, hx => by
    simp at h; subst h
    obtain ⟨x0, y, hx0, hy, rfl⟩ := sumRes_cons_ok f b l D hD
    rw [hx] at hx0; injection hx0 with hx0; subst hx0
    rw [List.eraseIdx_cons_zero, hy]
    congr 1; omega
  | b :: l, i + 1, a, D, x, hD, h, hx => by
    simp at h
    obtain ⟨x0, y, hx0, hy, rfl⟩ := sumRes_cons_ok f b l D hD
    rw [List.eraseIdx_cons_succ, sumRes_cons_of f b _ x0 _ hx0 (sumRes_erase f l i a y x hy h hx)]
    congr 1; omega

theorem unit_deg (c : CobComp) (h : c.isUnitCob = true) : c.deg = .ok 0 := by
  unfold CobComp.isUnitCob C05.isUnitCob at h
  simp only [Bool.and_eq_true, Bool.or_eq_true, beq_iff_eq] at h
  obtain ⟨⟨hc, hg⟩, hd⟩ := h
  unfold CobComp.isClosed at hc
  simp only [Bool.and_eq_true, List.isEmpty_iff] at hc
  obtain ⟨hs, ht⟩ := hc
  have hn : c.nbdr = .ok 0 := by
    simp [CobComp.nbdr, nbdrOf, hs, ht, arcsOf, circsOf, sideCircs]
  rw [(deg_of_nbdr c 0 hn).1]
  congr 1
  have hE : c.endpts.length = 0 := by simp [CobComp.endpts, hs, Tng.endpts, endsMulti, dedup]
  simp only [C05.deg, C05.eulerNum, hE, hg]
  rcases hd with ⟨h1, h2⟩ | ⟨h1, h2⟩ <;> simp [h1, h2]

theorem findComp_some (k : Cob) (bt : Bottom) (c : Path) (i p : Nat) (comp : CobComp)
    (h : Cob.findComp k bt c = some (i, comp, p)) : k[i]? = some comp := by
  unfold Cob.findComp at h
  split at h
  · cases h
  · rename_i j hj
    split at h
    · cases h
    · rename_i comp' hc
      split at h
      · cases h
      · injection h with h
        injection h with h1 h2
        injection h2 with h2 h3
        subst h1; subst h2
        exact hc


end Yuiv.C05.Tng
