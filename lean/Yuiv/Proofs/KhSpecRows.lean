import Yuiv.Proofs.KhSpecDefs
import Yuiv.Proofs.C04InvSort
import Yuiv.Proofs.C04InvModel
/-
KhSpec — the sparse rows that `KhRef.homologyOf` builds (`KhSnf.rowsAt`), entry by entry (helper, no property theorem).

  * `rval_normalizeRow` : `normalizeRow` preserves the value at every column (only `qsort_perm` is used, not sortedness);
  * `rowsAt_size`, `rowsAt_congr`;
  * `rowsAt_entry`      : `rval (rowsAt gens d i)[a]! b = coefT (d gens[i]![a]!) gens[i+1]![b]!` when the target list is
                          duplicate-free and contains every target (hash-map invariant `idxK_get`);
  * `sum_by_target`     : regrouping a sum over terms by target.
-/
namespace Yuiv.KhSpec
open Yuiv Yuiv.KhRef Yuiv.KhSnf

def nstep (out : Row) (cv : Nat × Int) : Row :=
  if out.size > 0 && out[out.size - 1]!.1 == cv.1 then
    (if out[out.size - 1]!.2 + cv.2 != 0 then out.pop.push (cv.1, out[out.size - 1]!.2 + cv.2) else out.pop)
  else if cv.2 != 0 then out.push (cv.1, cv.2) else out

theorem normalizeRow_eq (r : Array (Nat × Int)) :
    normalizeRow r = (r.qsort (fun a b => a.1 < b.1)).toList.foldl nstep #[] := by
  unfold normalizeRow
  simp only [← Array.forIn_toList]
  show Id.run (forIn _ _ _ >>= fun s => pure s) = _
  rw [bind_pure]
  show Id.run (forIn _ _ _) = _
  rw [C04Inv.id_forIn_yield (g := fun x s => nstep s x)]
  intro x s
  unfold nstep
  split <;> split <;> rfl

theorem rval_push (out : Row) (x : Nat × Int) (c : Nat) :
    rval (out.push x) c = rval out c + (if x.1 == c then x.2 else 0) := by
  unfold rval
  rw [Array.toList_push, List.filter_append, List.map_append, List.sum_append]
  by_cases h : x.1 == c <;> simp [h]

theorem pop_push_last (out : Row) (h : out.size > 0) : out.pop.push out[out.size - 1]! = out := by
  rw [getElem!_pos out (out.size - 1) (by omega)]
  apply Array.ext
  · simp; omega
  · intro i h1 h2
    simp only [Array.getElem_push, Array.size_pop]
    split
    · simp
    · have : i = out.size - 1 := by omega
      subst this; rfl

theorem rval_nstep (out : Row) (cv : Nat × Int) (c : Nat) :
    rval (nstep out cv) c = rval out c + (if cv.1 == c then cv.2 else 0) := by
  unfold nstep
  split
  · rename_i h
    simp only [Bool.and_eq_true, decide_eq_true_eq, beq_iff_eq] at h
    obtain ⟨h0, h1⟩ := h
    have hp := pop_push_last out h0
    have hr : rval out c = rval out.pop c + (if out[out.size - 1]!.1 == c then out[out.size - 1]!.2 else 0) := by
      conv_lhs => rw [← hp]
      rw [rval_push]
    rw [hr, h1]
    split
    · rw [rval_push]
      by_cases hc : cv.1 == c <;> simp [hc] ; omega
    · rename_i h2
      simp only [bne_iff_ne, ne_eq, not_not] at h2
      by_cases hc : cv.1 == c <;> simp [hc] ; omega
  · split
    · rw [rval_push]
    · rename_i h2
      simp only [bne_iff_ne, ne_eq, not_not] at h2
      simp [h2]

theorem rval_foldl_nstep (l : List (Nat × Int)) (out : Row) (c : Nat) :
    rval (l.foldl nstep out) c = rval out c + ((l.filter (fun x => x.1 == c)).map (fun x => x.2)).sum := by
  induction l generalizing out with
  | nil => simp
  | cons x l ih =>
    rw [List.foldl_cons, ih, rval_nstep, List.filter_cons]
    by_cases hc : x.1 == c <;> simp [hc] ; omega

theorem rval_normalizeRow (r : Array (Nat × Int)) (c : Nat) :
    rval (normalizeRow r) c = ((r.toList.filter (fun x => x.1 == c)).map (fun x => x.2)).sum := by
  rw [normalizeRow_eq, rval_foldl_nstep]
  have hp : (r.qsort (fun a b => a.1 < b.1)).toList.Perm r.toList := (C04Inv.qsort_perm r _).toList
  have : rval #[] c = 0 := by simp [rval]
  rw [this, Int.zero_add]
  exact ((hp.filter _).map _).sum_eq

/-- the index map of `rowsAt` after the first `k` rounds -/
def idxK (tgt : Array Gen) (k : Nat) : Std.HashMap Gen Nat :=
  (List.range k).foldl (fun m j => m.insert tgt[j]! j) ∅

theorem idx_loop (tgt : Array Gen) :
    (forIn (m := Id) (List.range' 0 tgt.size) (∅ : Std.HashMap Gen Nat)
      (fun j s => pure (ForInStep.yield (s.insert tgt[j]! j))) >>= fun s => pure s).run = idxK tgt tgt.size := by
  rw [bind_pure]
  show Id.run (forIn _ _ _) = _
  rw [C04Inv.id_forIn_yield (g := fun j s => s.insert tgt[j]! j), ← List.range_eq_range']
  · rfl
  · intro _ _; rfl

theorem rowsAt_eq (gens : Array (Array Gen)) (d : Gen → Array Term) (i : Nat) :
    rowsAt gens d i = (gens[i]!).map (fun g => normalizeRow ((d g).map
      (fun t => (((idxK (gens[i + 1]!) (gens[i + 1]!).size).get? t.1).getD 0, t.2)))) := by
  unfold rowsAt
  simp only [Std.Legacy.Range.forIn_eq_forIn_range', Std.Legacy.Range.size, Nat.sub_zero, Nat.add_sub_cancel, Nat.div_one]
  have h := idx_loop (gens[i + 1]!)
  simp only [h]

theorem rowsAt_size (gens : Array (Array Gen)) (d : Gen → Array Term) (i : Nat) :
    (rowsAt gens d i).size = (gens[i]!).size := by
  rw [rowsAt_eq, Array.size_map]

theorem rowsAt_congr (gens : Array (Array Gen)) (d d' : Gen → Array Term) (i : Nat)
    (h : ∀ g ∈ (gens[i]!).toList, d g = d' g) : rowsAt gens d i = rowsAt gens d' i := by
  rw [rowsAt_eq, rowsAt_eq]
  apply Array.map_congr_left
  intro g hg
  rw [h g (Array.mem_toList_iff.mpr hg)]

theorem idxK_succ (tgt : Array Gen) (k : Nat) : idxK tgt (k + 1) = (idxK tgt k).insert tgt[k]! k := by
  unfold idxK
  rw [List.range_succ, List.foldl_append]; rfl

theorem getElem!_inj {tgt : Array Gen} (hnd : tgt.toList.Nodup) {a b : Nat} (ha : a < tgt.size) (hb : b < tgt.size)
    (h : tgt[a]! = tgt[b]!) : a = b := by
  rw [getElem!_pos tgt a ha, getElem!_pos tgt b hb, ← Array.getElem_toList, ← Array.getElem_toList] at h
  exact (List.Nodup.getElem_inj_iff hnd).mp h

theorem idxK_get (tgt : Array Gen) (hnd : tgt.toList.Nodup) (k : Nat) (hk : k ≤ tgt.size) (j : Nat) (hj : j < k) :
    (idxK tgt k).get? tgt[j]! = some j := by
  induction k with
  | zero => omega
  | succ k ih =>
    rw [idxK_succ, Std.HashMap.get?_insert]
    by_cases hjk : j = k
    · subst hjk; simp
    · have hne : ¬ (tgt[k]! = tgt[j]!) := fun h => hjk (getElem!_inj hnd (by omega) (by omega) h).symm
      simp only [beq_iff_eq, hne, if_false]
      exact ih (by omega) (by omega)

theorem col_eq (tgt : Array Gen) (hnd : tgt.toList.Nodup) (y : Gen) (hy : y ∈ tgt.toList) (b : Nat) (hb : b < tgt.size) :
    (((idxK tgt tgt.size).get? y).getD 0 == b) = (y.s == tgt[b]!.s && y.mask == tgt[b]!.mask) := by
  obtain ⟨j, hj, rfl⟩ := List.mem_iff_getElem.mp hy
  have hj' : j < tgt.size := by simpa using hj
  rw [Array.getElem_toList, ← getElem!_pos tgt j hj', idxK_get tgt hnd _ (Nat.le_refl _) j hj', Option.getD_some]
  rw [Bool.eq_iff_iff]
  simp only [beq_iff_eq, Bool.and_eq_true]
  constructor
  · rintro rfl; exact ⟨rfl, rfl⟩
  · rintro ⟨h1, h2⟩
    apply getElem!_inj hnd hj' hb
    generalize tgt[j]! = x at h1 h2
    generalize tgt[b]! = z at h1 h2
    cases x; cases z; simp_all

theorem rowsAt_entry (gens : Array (Array Gen)) (d : Gen → Array Term) (i : Nat)
    (hnd : ((gens[i + 1]!).toList).Nodup)
    (htgt : ∀ g ∈ (gens[i]!).toList, ∀ t ∈ (d g).toList, t.1 ∈ (gens[i + 1]!).toList)
    (a b : Nat) (ha : a < (gens[i]!).size) (hb : b < (gens[i + 1]!).size) :
    rval (rowsAt gens d i)[a]! b = C02Mirror.coefT (d (gens[i]!)[a]!) (gens[i + 1]!)[b]! := by
  rw [rowsAt_eq, getElem!_pos _ a (by rw [Array.size_map]; exact ha), Array.getElem_map, rval_normalizeRow,
    ← getElem!_pos (gens[i]!) a ha]
  unfold C02Mirror.coefT
  rw [Array.toList_map, List.filter_map, List.map_map]
  have hg : (gens[i]!)[a]! ∈ (gens[i]!).toList := by
    rw [getElem!_pos (gens[i]!) a ha]; simp
  congr 1
  have : (fun x : Nat × Int => x.2) ∘ (fun t : Term => (((idxK (gens[i + 1]!) (gens[i + 1]!).size).get? t.1).getD 0, t.2))
      = fun t => t.2 := rfl
  rw [this]
  congr 1
  apply List.filter_congr
  intro t ht
  exact col_eq _ hnd t.1 (htgt _ hg t ht) b hb

theorem coefT_sum_single (l : List Gen) (hnd : l.Nodup) (y : Gen) (hy : y ∈ l) (a : Int) (F : Gen → Int) :
    (l.map (fun g => (if (y.s == g.s && y.mask == g.mask) then a else 0) * F g)).sum = a * F y := by
  induction l with
  | nil => simp at hy
  | cons x l ih =>
    rw [List.nodup_cons] at hnd
    rw [List.map_cons, List.sum_cons]
    by_cases hxy : y = x
    · subst hxy
      have : (l.map (fun g => (if (y.s == g.s && y.mask == g.mask) then a else 0) * F g)).sum = 0 := by
        apply List.sum_eq_zero
        intro v hv
        obtain ⟨g, hg, rfl⟩ := List.mem_map.mp hv
        have : ¬ ((y.s == g.s && y.mask == g.mask) = true) := by
          intro h
          simp only [beq_iff_eq, Bool.and_eq_true] at h
          apply hnd.1
          have : y = g := by cases y; cases g; simp_all
          rw [this]; exact hg
        simp [this]
      rw [this]; simp
    · have hyl : y ∈ l := by
        rcases List.mem_cons.mp hy with h | h
        · exact absurd h hxy
        · exact h
      rw [ih hnd.2 hyl]
      have : ¬ ((y.s == x.s && y.mask == x.mask) = true) := by
        intro h
        simp only [beq_iff_eq, Bool.and_eq_true] at h
        apply hxy
        cases y; cases x; simp_all
      simp [this]

theorem sum_by_target_list (ts : List Term) (l : List Gen) (hnd : l.Nodup)
    (hmem : ∀ t ∈ ts, t.1 ∈ l) (F : Gen → Int) :
    (ts.map (fun t => t.2 * F t.1)).sum =
      (l.map (fun g => C02Mirror.coefT ts.toArray g * F g)).sum := by
  induction ts with
  | nil => simp [C02Mirror.coefT]
  | cons t ts ih =>
    rw [List.map_cons, List.sum_cons, ih (fun t ht => hmem t (List.mem_cons_of_mem _ ht)),
      ← coefT_sum_single l hnd t.1 (hmem t List.mem_cons_self) t.2 F, ← List.sum_map_add]
    congr 1
    apply List.map_congr_left
    intro g _
    unfold C02Mirror.coefT
    simp only [List.filter_cons]
    split <;> simp [Int.add_mul]

theorem sum_by_target (ts : Array Term) (tgt : Array Gen) (hnd : tgt.toList.Nodup)
    (hmem : ∀ t ∈ ts.toList, t.1 ∈ tgt.toList) (F : Gen → Int) :
    (ts.toList.map (fun t => t.2 * F t.1)).sum =
      ((List.range tgt.size).map (fun b => C02Mirror.coefT ts tgt[b]! * F tgt[b]!)).sum := by
  rw [sum_by_target_list ts.toList tgt.toList hnd hmem F]
  congr 1
  apply List.ext_getElem
  · simp
  · intro n h1 h2
    simp only [List.length_map, List.length_range] at h2
    simp [getElem!_pos tgt n h2]

end Yuiv.KhSpec
