import Mathlib.LinearAlgebra.Matrix.Rank
import Mathlib.LinearAlgebra.Dimension.RankNullity
/-
C03Uct, part 2 — over a field the homology of `K^l --A--> K^n --B--> K^k` (`B * A = 0`), i.e. the quotient
`ker B / im A`, has dimension `n - rank A - rank B`.  This justifies calling `n - rk A - rk B` "the dimension of
the homology" in the counting statements.
-/
namespace Yuiv.C03Uct
open Matrix Module

/-- the homology `ker B / im A` of a two-step complex of matrices over `K` (as a `K`-module) -/
abbrev Homology {K : Type*} [Field K] {l n k : ℕ} (A : Matrix (Fin n) (Fin l) K) (B : Matrix (Fin k) (Fin n) K) :=
  (LinearMap.ker B.mulVecLin) ⧸ (LinearMap.range A.mulVecLin).comap (LinearMap.ker B.mulVecLin).subtype

theorem range_le_ker_of_mul_eq_zero {K : Type*} [Field K] {l n k : ℕ} (A : Matrix (Fin n) (Fin l) K)
    (B : Matrix (Fin k) (Fin n) K) (h : B * A = 0) :
    LinearMap.range A.mulVecLin ≤ LinearMap.ker B.mulVecLin := by
  rw [LinearMap.range_le_ker_iff, ← Matrix.mulVecLin_mul, h]
  ext v : 1
  simp

theorem finrank_ker_mulVecLin {K : Type*} [Field K] {n k : ℕ} (B : Matrix (Fin k) (Fin n) K) :
    finrank K (LinearMap.ker B.mulVecLin) = n - B.rank := by
  have h := LinearMap.finrank_range_add_finrank_ker B.mulVecLin
  rw [Module.finrank_fintype_fun_eq_card, Fintype.card_fin] at h
  unfold Matrix.rank
  omega

/-- `dim_K (ker B / im A) = n - rank A - rank B` -/
theorem finrank_homology {K : Type*} [Field K] {l n k : ℕ} (A : Matrix (Fin n) (Fin l) K)
    (B : Matrix (Fin k) (Fin n) K) (h : B * A = 0) :
    finrank K (Homology A B) = n - A.rank - B.rank := by
  have hle := range_le_ker_of_mul_eq_zero A B h
  have h1 := Submodule.finrank_quotient_add_finrank
    ((LinearMap.range A.mulVecLin).comap (LinearMap.ker B.mulVecLin).subtype)
  have h2 : finrank K ((LinearMap.range A.mulVecLin).comap (LinearMap.ker B.mulVecLin).subtype) = A.rank :=
    (Submodule.comapSubtypeEquivOfLe hle).finrank_eq
  have h3 := finrank_ker_mulVecLin B
  rw [h2, h3] at h1
  change finrank K (Homology A B) + A.rank = n - B.rank at h1
  generalize finrank K (Homology A B) = x at h1 ⊢
  omega

end Yuiv.C03Uct
