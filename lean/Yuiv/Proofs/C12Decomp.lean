import Yuiv.Proofs.C12UF
import Yuiv.Proofs.C12Group
import Yuiv.Proofs.C12Check

/-
C12 — the code model `dirSumDecomp` (decomp.rs `dir_sum_decomp`) always produces an output the verified
checkers accept.  Helper lemmas for `Yuiv/Props/C12Decomp.lean`.

Plan:  `groupCols_grouping` (union-find closure ⇒ abstract `Grouping` of the non-empty columns),
`permLayout` (`perm_for_indices` on the flattened groups), `decompBy_eq`/`Setup.decompBy_ok` (no panic, blocks
= `blocksOf`), `Setup.entry_eq` (entry of A = entry of the block-diagonal sum at the permuted position),
`Setup.checkDecomp_ok`, `connectedBlk_complete` (completeness of the sweep connectivity check),
`conn_core` / `Setup.block_connected` / `whole_connected` (each group is connected when no zero is stored).
-/
namespace Yuiv.C12
open Yuiv
set_option linter.unusedSectionVars false
set_option linter.unusedSimpArgs false
set_option linter.unusedVariables false

section part0
/-- sum of the lengths of the first `k` lists -/
def offAt (L : List (List Nat)) (k : Nat) : Nat := ((L.take k).map List.length).sum

theorem pa_offsets_append (L : List (List Nat)) (x : List Nat) :
    offsets (L ++ [x]) = offsets L ++ [(offsets L).getLastD 0 + x.length] := by
  simp [offsets, List.foldl_append]

theorem offAt_succ (L : List (List Nat)) (k : Nat) (hk : k < L.length) :
    offAt L (k + 1) = offAt L k + L[k].length := by
  unfold offAt
  rw [List.take_succ_eq_append_getElem hk]
  simp only [List.map_append, List.sum_append, List.map_cons, List.map_nil, List.sum_cons,
    List.sum_nil, Nat.add_zero]

theorem offAt_length (L : List (List Nat)) : offAt L L.length = L.flatten.length := by
  simp [offAt, List.length_flatten]

theorem offAt_mono (L : List (List Nat)) (k k' : Nat) (h : k ≤ k') : offAt L k ≤ offAt L k' := by
  induction k' with
  | zero =>
    have : k = 0 := by omega
    subst this; exact Nat.le_refl _
  | succ m ih =>
    by_cases hkm : k = m + 1
    · subst hkm; exact Nat.le_refl _
    · have h1 := ih (by omega)
      by_cases hm : m < L.length
      · rw [offAt_succ L m hm]; omega
      · have e1 : offAt L (m + 1) = offAt L m := by
          unfold offAt
          rw [List.take_of_length_le (by omega), List.take_of_length_le (by omega)]
        omega

theorem pa_offAt_append_le (L : List (List Nat)) (x : List Nat) (k : Nat) (hk : k ≤ L.length) :
    offAt (L ++ [x]) k = offAt L k := by
  unfold offAt
  rw [List.take_append_of_le_length hk]

theorem pa_offsets_joint (L : List (List Nat)) :
    (offsets L).length = L.length + 1 ∧ ∀ k, k ≤ L.length → (offsets L)[k]? = some (offAt L k) := by
  induction L using List.reverseRecOn with
  | nil =>
    refine ⟨by simp [offsets], ?_⟩
    intro k hk
    have : k = 0 := by simpa using hk
    subst this
    simp [offsets, offAt]
  | append_singleton L x ih =>
    obtain ⟨hlen, hget⟩ := ih
    rw [pa_offsets_append]
    refine ⟨by simp [hlen], ?_⟩
    intro k hk
    by_cases hkL : k ≤ L.length
    · rw [List.getElem?_append_left (by omega), hget k hkL, pa_offAt_append_le L x k hkL]
    · have hk' : k = L.length + 1 := by simp at hk; omega
      subst hk'
      rw [List.getElem?_append_right (by omega)]
      have hlast : (offsets L).getLastD 0 = offAt L L.length := by
        have h1 := hget L.length (Nat.le_refl _)
        rw [List.getLastD_eq_getLast?, List.getLast?_eq_getElem?, hlen]
        simp [h1]
      have e2 : offAt (L ++ [x]) (L.length + 1) = offAt L L.length + x.length := by
        have := offAt_succ (L ++ [x]) L.length (by simp)
        rw [this, pa_offAt_append_le L x L.length (Nat.le_refl _)]
        simp
      rw [hlast, e2]
      simp [hlen]

theorem offsets_getD (L : List (List Nat)) (k : Nat) (hk : k ≤ L.length) :
    (offsets L).toArray.getD k 0 = offAt L k := by
  obtain ⟨hlen, hget⟩ := pa_offsets_joint L
  have h1 := hget k hk
  have hk' : k < (offsets L).length := by omega
  rw [List.getElem?_eq_getElem hk'] at h1
  simp [Array.getD, hk']
  simpa using h1

theorem flatten_getElem? (L : List (List Nat)) (k t : Nat) (hk : k < L.length) (ht : t < L[k].length) :
    L.flatten[offAt L k + t]? = some (L[k][t]) := by
  induction L generalizing k with
  | nil => simp at hk
  | cons a L ih =>
    cases k with
    | zero =>
      simp only [List.getElem_cons_zero] at ht
      simp [offAt, List.getElem?_append_left ht]
    | succ k =>
      simp only [List.getElem_cons_succ] at ht
      have hk' : k < L.length := by simpa using hk
      have e : offAt (a :: L) (k + 1) = a.length + offAt L k := by simp [offAt]
      rw [e, List.flatten_cons, List.getElem?_append_right (by omega)]
      have : a.length + offAt L k + t - a.length = offAt L k + t := by omega
      rw [this, ih k hk' ht]
      simp

theorem pa_fold (vs : List Nat) : ∀ (s : Nat) (a : Array Nat), vs.Nodup → (∀ i ∈ vs, i < a.size) →
    ((enumFrom s vs).foldl (fun (inv : Array Nat) e => inv.setIfInBounds e.2 e.1) a).size = a.size ∧
    (∀ k (hk : k < vs.length),
      ((enumFrom s vs).foldl (fun (inv : Array Nat) e => inv.setIfInBounds e.2 e.1) a).getD vs[k] 0 = s + k) ∧
    (∀ i, i ∉ vs →
      ((enumFrom s vs).foldl (fun (inv : Array Nat) e => inv.setIfInBounds e.2 e.1) a).getD i 0 = a.getD i 0) := by
  induction vs with
  | nil =>
    intro s a _ _
    simp [enumFrom]
  | cons v vs ih =>
    intro s a hnd hlt
    have hv : v ∉ vs := (List.nodup_cons.mp hnd).1
    have hnd' : vs.Nodup := (List.nodup_cons.mp hnd).2
    have hva : v < a.size := hlt v (by simp)
    obtain ⟨h1, h2, h3⟩ := ih (s + 1) (a.setIfInBounds v s) hnd'
      (by intro i hi; simpa using hlt i (by simp [hi]))
    simp only [enumFrom, List.foldl_cons]
    refine ⟨by simpa using h1, ?_, ?_⟩
    · intro k hk
      cases k with
      | zero =>
        simp only [List.getElem_cons_zero]
        rw [h3 v hv]
        simp [hva]
      | succ k =>
        simp only [List.getElem_cons_succ]
        rw [h2 k (by simpa using hk)]
        omega
    · intro i hi
      have hiv : i ≠ v := by intro h; exact hi (by simp [h])
      have hivs : i ∉ vs := by intro h; exact hi (by simp [h])
      rw [h3 i hivs]
      simp [Ne.symm hiv]

theorem pa_vec_perm (n : Nat) (idx : List Nat) (hnd : idx.Nodup) (hlt : ∀ i ∈ idx, i < n) :
    (idx ++ (List.range n).filter fun i => !idx.contains i).Perm (List.range n) := by
  have h1 : idx.Perm ((List.range n).filter fun i => idx.contains i) := by
    rw [List.perm_ext_iff_of_nodup hnd (List.nodup_range.filter _)]
    intro a
    simp only [List.mem_filter, List.mem_range, List.contains_iff_mem]
    constructor
    · intro h; exact ⟨hlt a h, h⟩
    · intro h; exact h.2
  exact (List.Perm.append_right _ h1).trans (List.filter_append_perm _ _)

theorem permForIndices_spec (n : Nat) (idx : List Nat) (hnd : idx.Nodup) (hlt : ∀ i ∈ idx, i < n) :
    ∃ inv, permForIndices n idx = .ok inv ∧ inv.size = n ∧
      (∀ k (hk : k < idx.length), inv.getD idx[k] 0 = k) ∧
      (∀ i, i < n → i ∉ idx → idx.length ≤ inv.getD i 0) ∧
      (∀ i, i < n → inv.getD i 0 < n) ∧
      (∀ i i', i < n → i' < n → inv.getD i 0 = inv.getD i' 0 → i = i') ∧
      permOk inv n = true := by
  have hperm := pa_vec_perm n idx hnd hlt
  generalize hvec : (idx ++ (List.range n).filter fun i => !idx.contains i) = vec at hperm
  have hvnd : vec.Nodup := hperm.nodup_iff.mpr List.nodup_range
  have hvlen : vec.length = n := by simpa using hperm.length_eq
  have hvmem : ∀ i, i ∈ vec ↔ i < n := by
    intro i; rw [hperm.mem_iff]; simp
  obtain ⟨hsz, hk, _⟩ := pa_fold vec 0 (Array.replicate n 0) hvnd
    (by intro i hi; simpa using (hvmem i).mp hi)
  generalize hinv : (enumFrom 0 vec).foldl (fun (inv : Array Nat) e => inv.setIfInBounds e.2 e.1)
    (Array.replicate n 0) = inv at hsz hk
  have hall : (idx.all fun i => decide (i < n)) = true := by
    simp only [List.all_eq_true, decide_eq_true_eq]; exact hlt
  have hres : permForIndices n idx = .ok inv := by
    unfold permForIndices
    simp only [hall, hvec, hinv, hvlen]
    simp
  have hkey : ∀ i, i < n → ∃ k, ∃ hk : k < vec.length, vec[k] = i ∧ inv.getD i 0 = k := by
    intro i hi
    obtain ⟨k, hk', e⟩ := List.getElem_of_mem ((hvmem i).mpr hi)
    refine ⟨k, hk', e, ?_⟩
    have := hk k hk'
    rw [e] at this
    simpa using this
  have hsize : inv.size = n := by simpa using hsz
  have h3 : ∀ k (hk : k < idx.length), inv.getD idx[k] 0 = k := by
    intro k hk'
    have hkv : k < vec.length := by rw [← hvec]; simp; omega
    have := hk k hkv
    have e : vec[k] = idx[k] := by
      subst hvec; exact List.getElem_append_left hk'
    rw [e] at this
    simpa using this
  have h4 : ∀ i, i < n → i ∉ idx → idx.length ≤ inv.getD i 0 := by
    intro i hi hni
    obtain ⟨k, hk', e, e2⟩ := hkey i hi
    rw [e2]
    by_contra hc
    have hc' : k < idx.length := by omega
    apply hni
    have e' : vec[k] = idx[k] := by
      subst hvec; exact List.getElem_append_left hc'
    rw [← e, e']
    exact List.getElem_mem _
  have h5 : ∀ i, i < n → inv.getD i 0 < n := by
    intro i hi
    obtain ⟨k, hk', e, e2⟩ := hkey i hi
    omega
  have h6 : ∀ i i', i < n → i' < n → inv.getD i 0 = inv.getD i' 0 → i = i' := by
    intro i i' hi hi' he
    obtain ⟨k, hk1, e, e2⟩ := hkey i hi
    obtain ⟨k', hk1', e', e2'⟩ := hkey i' hi'
    have : k = k' := by omega
    subst this
    rw [← e, ← e']
  refine ⟨inv, hres, hsize, h3, h4, h5, h6, ?_⟩
  unfold permOk
  simp only [Bool.and_eq_true, beq_iff_eq, List.all_eq_true, List.mem_range, decide_eq_true_eq,
    Bool.or_eq_true, bne_iff_ne, ne_eq]
  refine ⟨⟨hsize, h5⟩, ?_⟩
  intro i hi i' hi'
  by_cases he : i = i'
  · exact Or.inl he
  · exact Or.inr (fun h => he (h6 i i' hi hi' h))
end part0

section part1
theorem pb_set_mono (s : Array Bool) (i v : Nat) (h : s.getD v false = true) :
    (s.setIfInBounds i true).getD v false = true := by
  by_cases hv : i = v
  · subst hv
    by_cases hi : i < s.size
    · simp [Array.getD_eq_getD_getElem?, hi]
    · simp [Array.getD_eq_getD_getElem?, hi] at h
  · simpa [Array.getD_eq_getD_getElem?, Array.getElem?_setIfInBounds_ne hv] using h

theorem pb_set_same (s : Array Bool) (i : Nat) (hi : i < s.size) :
    (s.setIfInBounds i true).getD i false = true := by
  simp [Array.getD_eq_getD_getElem?, hi]

/-- one step of the fold of `sweep` -/
def pb_step (h : Nat) (s : Array Bool) (e : Nat × Nat) : Array Bool :=
  if s.getD e.1 false || s.getD (h + e.2) false then
    (s.setIfInBounds e.1 true).setIfInBounds (h + e.2) true else s

theorem pb_sweep_eq (h : Nat) (es : List (Nat × Nat)) (s : Array Bool) :
    sweep h es s = es.foldl (pb_step h) s := rfl

theorem pb_step_size (h : Nat) (s : Array Bool) (e : Nat × Nat) : (pb_step h s e).size = s.size := by
  unfold pb_step; split <;> simp

theorem pb_step_mono (h : Nat) (s : Array Bool) (e : Nat × Nat) (v : Nat) (hv : s.getD v false = true) :
    (pb_step h s e).getD v false = true := by
  unfold pb_step; split
  · exact pb_set_mono _ _ _ (pb_set_mono _ _ _ hv)
  · exact hv

theorem pb_step_both (h : Nat) (s : Array Bool) (e : Nat × Nat) (h1 : e.1 < s.size) (h2 : h + e.2 < s.size)
    (hm : s.getD e.1 false = true ∨ s.getD (h + e.2) false = true) :
    (pb_step h s e).getD e.1 false = true ∧ (pb_step h s e).getD (h + e.2) false = true := by
  have hc : (s.getD e.1 false || s.getD (h + e.2) false) = true := by
    rcases hm with hm | hm <;> simp [hm]
  unfold pb_step
  rw [if_pos hc]
  exact ⟨pb_set_mono _ _ _ (pb_set_same _ _ h1), pb_set_same _ _ (by simpa using h2)⟩

theorem pb_sweep_size (h : Nat) (es : List (Nat × Nat)) (s : Array Bool) : (sweep h es s).size = s.size := by
  rw [pb_sweep_eq]
  induction es generalizing s with
  | nil => rfl
  | cons e es ih => rw [List.foldl_cons, ih, pb_step_size]

theorem pb_sweep_mono (h : Nat) (es : List (Nat × Nat)) (s : Array Bool) (v : Nat)
    (hv : s.getD v false = true) : (sweep h es s).getD v false = true := by
  rw [pb_sweep_eq]
  induction es generalizing s with
  | nil => exact hv
  | cons e es ih => rw [List.foldl_cons]; exact ih _ (pb_step_mono h s e v hv)

theorem pb_sweeps_size (h : Nat) (es : List (Nat × Nat)) (k : Nat) (s : Array Bool) :
    (sweeps h es k s).size = s.size := by
  induction k generalizing s with
  | zero => rfl
  | succ k ih => rw [sweeps, ih, pb_sweep_size]

theorem pb_sweeps_mono (h : Nat) (es : List (Nat × Nat)) (k : Nat) (s : Array Bool) (v : Nat)
    (hv : s.getD v false = true) : (sweeps h es k s).getD v false = true := by
  induction k generalizing s with
  | zero => exact hv
  | succ k ih => rw [sweeps]; exact ih _ (pb_sweep_mono h es s v hv)

theorem pb_sweep_edge (h : Nat) (es : List (Nat × Nat)) (s : Array Bool) (e : Nat × Nat) (he : e ∈ es)
    (h1 : e.1 < s.size) (h2 : h + e.2 < s.size)
    (hm : s.getD e.1 false = true ∨ s.getD (h + e.2) false = true) :
    (sweep h es s).getD e.1 false = true ∧ (sweep h es s).getD (h + e.2) false = true := by
  rw [pb_sweep_eq]
  induction es generalizing s with
  | nil => cases he
  | cons e' es ih =>
    rw [List.foldl_cons]
    rcases List.mem_cons.1 he with rfl | he'
    · obtain ⟨a, b⟩ := pb_step_both h s e h1 h2 hm
      rw [← pb_sweep_eq]
      exact ⟨pb_sweep_mono _ _ _ _ a, pb_sweep_mono _ _ _ _ b⟩
    · apply ih _ he'
      · rw [pb_step_size]; exact h1
      · rw [pb_step_size]; exact h2
      · exact hm.imp (pb_step_mono h s e' _) (pb_step_mono h s e' _)

/-- number of marked vertices below `n` -/
def pb_cnt (n : Nat) (s : Array Bool) : Nat :=
  ((Finset.range n).filter (fun v => s.getD v false = true)).card

theorem pb_cnt_le (n : Nat) (s : Array Bool) : pb_cnt n s ≤ n := by
  unfold pb_cnt
  simpa using Finset.card_filter_le (Finset.range n) (fun v => s.getD v false = true)

theorem pb_cnt_full (n : Nat) (s : Array Bool) (hc : n ≤ pb_cnt n s) (v : Nat) (hv : v < n) :
    s.getD v false = true := by
  have h1 : ((Finset.range n).filter (fun v => s.getD v false = true)).card = (Finset.range n).card := by
    have := pb_cnt_le n s
    unfold pb_cnt at hc this
    rw [Finset.card_range]; omega
  have h2 := Finset.eq_of_subset_of_card_le (Finset.filter_subset _ _) (le_of_eq h1.symm)
  have h3 : v ∈ (Finset.range n).filter (fun v => s.getD v false = true) := by
    rw [h2]; simpa using hv
  exact (Finset.mem_filter.1 h3).2

theorem pb_cnt_lt (n : Nat) (s s' : Array Bool) (hmono : ∀ v, s.getD v false = true → s'.getD v false = true)
    (v : Nat) (hv : v < n) (hv' : s'.getD v false = true) (hnv : ¬ s.getD v false = true) :
    pb_cnt n s < pb_cnt n s' := by
  unfold pb_cnt
  apply Finset.card_lt_card
  rw [Finset.ssubset_iff_of_subset]
  · exact ⟨v, Finset.mem_filter.2 ⟨by simpa using hv, hv'⟩, fun hh => hnv (Finset.mem_filter.1 hh).2⟩
  · intro w hw
    obtain ⟨a, b⟩ := Finset.mem_filter.1 hw
    exact Finset.mem_filter.2 ⟨a, hmono w b⟩

theorem pb_mem_nzEdges {α : Type} [Scal α] (B : SpMat α) (j : Nat) (hj : j < B.ncols) (e : Nat × α)
    (he : e ∈ col B j) (hz : isZero e.2 = false) : (e.1, j) ∈ nzEdges B := by
  unfold nzEdges
  refine List.mem_flatMap.2 ⟨j, List.mem_range.2 hj, List.mem_filterMap.2 ⟨e, he, ?_⟩⟩
  simp [hz]

theorem pb_main {α : Type} [Scal α] (B : SpMat α)
    (hrows : ∀ j, j < B.ncols → ∀ e ∈ col B j, e.1 < B.nrows)
    (H : ∀ P : Nat → Prop, P 0 →
      (∀ j, j < B.ncols → ∀ e ∈ col B j, isZero e.2 = false → (P e.1 ↔ P (B.nrows + j))) →
      ∀ v, v < B.nrows + B.ncols → P v)
    (k : Nat) (s : Array Bool) (hs : s.size = B.nrows + B.ncols) (h0 : s.getD 0 false = true)
    (hk : B.nrows + B.ncols ≤ pb_cnt (B.nrows + B.ncols) s + k) :
    ∀ v, v < B.nrows + B.ncols → (sweeps B.nrows (nzEdges B) k s).getD v false = true := by
  induction k generalizing s with
  | zero => exact fun v hv => pb_cnt_full _ s (by simpa using hk) v hv
  | succ k ih =>
    intro v hv
    rw [sweeps]
    by_cases hcl : ∀ e ∈ nzEdges B, (s.getD e.1 false = true ↔ s.getD (B.nrows + e.2) false = true)
    · have := H (fun v => s.getD v false = true) h0
        (fun j hj e he hz => hcl (e.1, j) (pb_mem_nzEdges B j hj e he hz)) v hv
      exact pb_sweeps_mono _ _ _ _ _ (pb_sweep_mono _ _ _ _ this)
    · push Not at hcl
      obtain ⟨e, he, hne⟩ := hcl
      obtain ⟨h1, a, h2, _⟩ := mem_nzEdges he
      have hb1 : e.1 < s.size := by rw [hs]; have := hrows e.2 h1 _ h2; simp at this; omega
      have hb2 : B.nrows + e.2 < s.size := by rw [hs]; omega
      have hlt : pb_cnt (B.nrows + B.ncols) s <
          pb_cnt (B.nrows + B.ncols) (sweep B.nrows (nzEdges B) s) := by
        rcases hne with ⟨hm, hnm⟩ | ⟨hnm, hm⟩
        · exact pb_cnt_lt _ _ _ (pb_sweep_mono _ _ _) (B.nrows + e.2) (by omega)
            (pb_sweep_edge _ _ _ e he hb1 hb2 (Or.inl hm)).2 hnm
        · exact pb_cnt_lt _ _ _ (pb_sweep_mono _ _ _) e.1 (by omega)
            (pb_sweep_edge _ _ _ e he hb1 hb2 (Or.inr hm)).1 hnm
      exact ih _ (by rw [pb_sweep_size, hs]) (pb_sweep_mono _ _ _ _ h0) (by omega) v hv

theorem connectedBlk_complete {α : Type} [Scal α] (B : SpMat α)
    (hrows : ∀ j, j < B.ncols → ∀ e ∈ col B j, e.1 < B.nrows) (hn : 0 < B.nrows + B.ncols)
    (H : ∀ P : Nat → Prop, P 0 →
      (∀ j, j < B.ncols → ∀ e ∈ col B j, isZero e.2 = false → (P e.1 ↔ P (B.nrows + j))) →
      ∀ v, v < B.nrows + B.ncols → P v) :
    connectedBlk B = true := by
  unfold connectedBlk
  simp only [List.all_eq_true, List.mem_range]
  have h0 : ((Array.replicate (B.nrows + B.ncols) false).setIfInBounds 0 true).getD 0 false = true :=
    pb_set_same _ _ (by simpa using hn)
  apply pb_main B hrows H _ _ (by simp) h0
  have : 0 < pb_cnt (B.nrows + B.ncols) ((Array.replicate (B.nrows + B.ncols) false).setIfInBounds 0 true) := by
    unfold pb_cnt
    exact Finset.card_pos.2 ⟨0, Finset.mem_filter.2 ⟨by simpa using hn, h0⟩⟩
  omega
end part1

section part2
open Yuiv Relation UF

section grouping
variable {α : Type} [Scal α]

/-- CSC storage invariant of the input: stored row indices in range and strictly increasing per column -/
structure WFC (A : SpMat α) : Prop where
  rows : ∀ j, ∀ e ∈ col A j, e.1 < A.nrows
  sorted : ∀ j, (rowIdx A j).Pairwise (· < ·)

/-- two columns store a common row index -/
def Share (A : SpMat α) (a b : Nat) : Prop :=
  a < A.ncols ∧ b < A.ncols ∧ ∃ i, i ∈ rowIdx A a ∧ i ∈ rowIdx A b

/-- what `group_cols` delivers -/
structure Grouping (A : SpMat α) (cols : List (List Nat)) : Prop where
  nodup : cols.flatten.Nodup
  lt : ∀ g ∈ cols, ∀ j ∈ g, j < A.ncols
  ne : ∀ g ∈ cols, g ≠ []
  colne : ∀ g ∈ cols, ∀ j ∈ g, col A j ≠ []
  cover : ∀ j, j < A.ncols → col A j ≠ [] → ∃ g ∈ cols, j ∈ g
  sep : ∀ g ∈ cols, ∀ j ∈ g, ∀ j', Share A j j' → j' ∈ g
  conn : ∀ g ∈ cols, ∀ j ∈ g, ∀ j' ∈ g, EqvGen (Share A) j j'

theorem mem_allPairs (l x y : Nat) (hxy : x < y) (hy : y < l) : (x, y) ∈ allPairs l := by
  unfold allPairs
  refine List.mem_flatMap.2 ⟨x, List.mem_range.2 (by omega), List.mem_map.2 ⟨y - (x + 1), List.mem_range.2 (by omega), ?_⟩⟩
  simp only [Prod.mk.injEq, true_and]; omega

theorem lt_of_mem_allPairs (l : Nat) (e : Nat × Nat) (he : e ∈ allPairs l) : e.1 < l ∧ e.2 < l := by
  unfold allPairs at he
  obtain ⟨i, hi, hd⟩ := List.mem_flatMap.1 he
  obtain ⟨d, hd', rfl⟩ := List.mem_map.1 hd
  have := List.mem_range.1 hi
  have := List.mem_range.1 hd'
  constructor <;> simp only <;> omega

theorem eqvGen_map {β γ : Type} {R : β → β → Prop} {S : γ → γ → Prop} (f : β → γ)
    (h : ∀ a b, R a b → S (f a) (f b)) {x y : β} (hxy : EqvGen R x y) : EqvGen S (f x) (f y) := by
  induction hxy with
  | rel a b hab => exact EqvGen.rel _ _ (h a b hab)
  | refl a => exact EqvGen.refl _
  | symm a b _ ih => exact EqvGen.symm _ _ ih
  | trans a b c _ _ ih1 ih2 => exact EqvGen.trans _ _ _ ih1 ih2

theorem classesOf_mem (n : Nat) (rt : Nat → Nat) (g : List Nat) (hg : g ∈ classesOf n rt) :
    g ≠ [] ∧ ∃ r, g = (List.range n).filter fun i => rt i == r := by
  unfold classesOf at hg
  obtain ⟨r, _, hr⟩ := List.mem_filterMap.1 hg
  simp only at hr
  split at hr
  · cases hr
  · rename_i hne
    cases hr
    exact ⟨by intro h; rw [h] at hne; exact hne rfl, r, rfl⟩

theorem classesOf_cover (n : Nat) (rt : Nat → Nat) (x : Nat) (hx : x < n) (hr : rt x < n) :
    ((List.range n).filter fun i => rt i == rt x) ∈ classesOf n rt := by
  unfold classesOf
  refine List.mem_filterMap.2 ⟨rt x, List.mem_range.2 hr, ?_⟩
  simp only
  rw [if_neg]
  intro h
  have : x ∈ (List.range n).filter fun i => rt i == rt x :=
    List.mem_filter.2 ⟨List.mem_range.2 hx, by simp⟩
  rw [List.isEmpty_iff.1 h] at this
  cases this

theorem classesOf_nodup (n : Nat) (rt : Nat → Nat) : (classesOf n rt).flatten.Nodup := by
  rw [List.nodup_flatten]
  constructor
  · intro g hg
    obtain ⟨_, r, rfl⟩ := classesOf_mem n rt g hg
    exact List.Nodup.filter _ List.nodup_range
  · unfold classesOf
    rw [List.pairwise_filterMap]
    refine List.Pairwise.imp ?_ (List.nodup_range (n := n))
    intro a b hab g hg g' hg'
    simp only at hg hg'
    split at hg
    · cases hg
    · split at hg'
      · cases hg'
      · cases hg; cases hg'
        intro x hx hx'
        have h1 := (List.mem_filter.1 hx).2
        have h2 := (List.mem_filter.1 hx').2
        simp only [beq_iff_eq] at h1 h2
        exact hab (h1.symm.trans h2)

theorem nz_getD (A : SpMat α) (x : Nat)
    (hx : x < ((List.range A.ncols).filter fun j => !(col A j).isEmpty).length) :
    ((List.range A.ncols).filter fun j => !(col A j).isEmpty).toArray.getD x 0 =
      ((List.range A.ncols).filter fun j => !(col A j).isEmpty)[x] := by
  simp [hx]

theorem mem_nz (A : SpMat α) (j : Nat) :
    j ∈ ((List.range A.ncols).filter fun j => !(col A j).isEmpty) ↔ j < A.ncols ∧ col A j ≠ [] := by
  simp [List.mem_filter]

theorem groupCols_grouping (A : SpMat α) (hA : WFC A) : ∃ cols, groupCols A = .ok cols ∧ Grouping A cols := by
  obtain ⟨u, hu, hrep⟩ := groupCols_closure A
  obtain ⟨rt, hrt, hgrp⟩ := hrep.group_eq
  unfold groupCols groupColsWith
  generalize hnz : ((List.range A.ncols).filter fun j => !(col A j).isEmpty) = nz at *
  have hmem : ∀ j, j ∈ nz ↔ j < A.ncols ∧ col A j ≠ [] := by rw [← hnz]; exact mem_nz A
  have hnd : nz.Nodup := by rw [← hnz]; exact List.Nodup.filter _ List.nodup_range
  have hget : ∀ x, x < nz.length → nz.toArray.getD x 0 = nz[x]! := by
    intro x hx; simp [hx]
  simp only
  split
  · rename_i h0
    have h0' : nz = [] := List.eq_nil_of_length_eq_zero (by simpa using h0)
    refine ⟨[], rfl, ⟨by simp, by simp, by simp, by simp, ?_, by simp, by simp⟩⟩
    intro j hj hc
    have := (hmem j).2 ⟨hj, hc⟩
    rw [h0'] at this; cases this
  · rw [hu]
    simp only
    rw [hgrp]
    simp only
    refine ⟨_, rfl, ?_⟩
    have hf : ∀ x, x < nz.length → nz.toArray.getD x 0 ∈ nz := by
      intro x hx; simp [hx]
    have hfinj : ∀ x y, x < nz.length → y < nz.length → nz.toArray.getD x 0 = nz.toArray.getD y 0 → x = y := by
      intro x y hx hy hxy
      have e1 : nz.toArray.getD x 0 = nz[x] := by simp [hx]
      have e2 : nz.toArray.getD y 0 = nz[y] := by simp [hy]
      rw [e1, e2] at hxy
      exact (List.Nodup.getElem_inj_iff hnd).1 hxy
    have hfsurj : ∀ j, j ∈ nz → ∃ x, x < nz.length ∧ nz.toArray.getD x 0 = j := by
      intro j hj
      obtain ⟨x, hx, rfl⟩ := List.mem_iff_getElem.1 hj
      exact ⟨x, hx, by simp [hx]⟩
    have hrtlt : ∀ x, x < nz.length → rt x < nz.length := fun x hx => (hrep.root_min x hx _ (hrt x hx).2).1
    have hrel : ∀ x y, x < nz.length → y < nz.length → (rt x = rt y ↔ EqvGen _ x y) :=
      fun x y hx hy => hrep.rel x y hx hy _ _ (hrt x hx).2 (hrt y hy).2
    have hshare : ∀ x y, x < nz.length → y < nz.length →
        (∃ i, i ∈ rowIdx A (nz.toArray.getD x 0) ∧ i ∈ rowIdx A (nz.toArray.getD y 0)) → rt x = rt y := by
      intro x y hx hy hi
      have h1 : intersects (rowIdx A (nz.toArray.getD x 0)) (rowIdx A (nz.toArray.getD y 0)) = true :=
        (intersects_iff _ _ (hA.sorted _) (hA.sorted _)).2 hi
      have h2 : intersects (rowIdx A (nz.toArray.getD y 0)) (rowIdx A (nz.toArray.getD x 0)) = true := by
        obtain ⟨i, a, b⟩ := hi
        exact (intersects_iff _ _ (hA.sorted _) (hA.sorted _)).2 ⟨i, b, a⟩
      rcases Nat.lt_trichotomy x y with hlt | heq | hgt
      · exact (hrel x y hx hy).2 (EqvGen.rel _ _ ⟨mem_allPairs _ _ _ hlt hy, h1⟩)
      · rw [heq]
      · exact (hrel x y hx hy).2 (EqvGen.symm _ _ (EqvGen.rel _ _ ⟨mem_allPairs _ _ _ hgt hx, h2⟩))
    -- members of a mapped class
    have hcls : ∀ g, g ∈ (classesOf nz.length rt).map (fun lst => lst.map fun i => nz.toArray.getD i 0) →
        ∃ r, g ≠ [] ∧ ∀ j, j ∈ g ↔ ∃ x, x < nz.length ∧ rt x = r ∧ nz.toArray.getD x 0 = j := by
      intro g hg
      obtain ⟨g0, hg0, rfl⟩ := List.mem_map.1 hg
      obtain ⟨hne, r, rfl⟩ := classesOf_mem _ _ _ hg0
      refine ⟨r, by simpa using hne, fun j => ?_⟩
      simp only [List.mem_map, List.mem_filter, List.mem_range, beq_iff_eq]
      constructor
      · rintro ⟨x, ⟨a, b⟩, c⟩; exact ⟨x, a, b, c⟩
      · rintro ⟨x, a, b, c⟩; exact ⟨x, ⟨a, b⟩, c⟩
    refine ⟨?_, ?_, ?_, ?_, ?_, ?_, ?_⟩
    · rw [← List.map_flatten]
      refine List.Nodup.map_on ?_ (classesOf_nodup _ _)
      intro x hx y hy hxy
      obtain ⟨g, hg, hxg⟩ := List.mem_flatten.1 hx
      obtain ⟨g', hg', hyg⟩ := List.mem_flatten.1 hy
      obtain ⟨_, r, rfl⟩ := classesOf_mem _ _ _ hg
      obtain ⟨_, r', rfl⟩ := classesOf_mem _ _ _ hg'
      exact hfinj x y (List.mem_range.1 (List.mem_filter.1 hxg).1) (List.mem_range.1 (List.mem_filter.1 hyg).1) hxy
    · intro g hg j hj
      obtain ⟨r, _, hm⟩ := hcls g hg
      obtain ⟨x, hx, _, rfl⟩ := (hm j).1 hj
      exact ((hmem _).1 (hf x hx)).1
    · intro g hg
      obtain ⟨r, hne, _⟩ := hcls g hg
      exact hne
    · intro g hg j hj
      obtain ⟨r, _, hm⟩ := hcls g hg
      obtain ⟨x, hx, _, rfl⟩ := (hm j).1 hj
      exact ((hmem _).1 (hf x hx)).2
    · intro j hj hc
      obtain ⟨x, hx, rfl⟩ := hfsurj j ((hmem j).2 ⟨hj, hc⟩)
      refine ⟨_, List.mem_map.2 ⟨_, classesOf_cover _ rt x hx (hrtlt x hx), rfl⟩, ?_⟩
      exact List.mem_map.2 ⟨x, List.mem_filter.2 ⟨List.mem_range.2 hx, by simp⟩, rfl⟩
    · intro g hg j hj j' hsh
      obtain ⟨r, _, hm⟩ := hcls g hg
      obtain ⟨x, hx, hrx, rfl⟩ := (hm j).1 hj
      obtain ⟨_, hj', i, hi1, hi2⟩ := hsh
      have hc' : col A j' ≠ [] := by
        intro h0
        unfold rowIdx at hi2
        rw [h0] at hi2
        cases hi2
      obtain ⟨y, hy, rfl⟩ := hfsurj j' ((hmem j').2 ⟨hj', hc'⟩)
      exact (hm _).2 ⟨y, hy, by rw [← hshare x y hx hy ⟨i, hi1, hi2⟩]; exact hrx, rfl⟩
    · intro g hg j hj j' hj'
      obtain ⟨r, _, hm⟩ := hcls g hg
      obtain ⟨x, hx, hrx, rfl⟩ := (hm j).1 hj
      obtain ⟨y, hy, hry, rfl⟩ := (hm j').1 hj'
      have hxy := (hrel x y hx hy).1 (hrx.trans hry.symm)
      refine eqvGen_map (fun i => nz.toArray.getD i 0) ?_ hxy
      intro a b ⟨hab, hint⟩
      obtain ⟨ha, hb⟩ := lt_of_mem_allPairs _ _ hab
      exact ⟨((hmem _).1 (hf a ha)).1, ((hmem _).1 (hf b hb)).1,
        (intersects_iff _ _ (hA.sorted _) (hA.sorted _)).1 hint⟩

end grouping
end part2

section part3
open Yuiv Relation UF

section layout
variable {α : Type} [Scal α]

theorem mem_rowIdx (A : SpMat α) (j i : Nat) : i ∈ rowIdx A j ↔ ∃ v, (i, v) ∈ col A j := by
  unfold rowIdx; simp

theorem mem_rowsIn (A : SpMat α) (g : List Nat) (i : Nat) :
    i ∈ rowsIn A g ↔ i < A.nrows ∧ ∃ j ∈ g, i ∈ rowIdx A j := by
  unfold rowsIn
  simp [List.mem_filter]

theorem rowsIn_nodup (A : SpMat α) (g : List Nat) : (rowsIn A g).Nodup :=
  List.Nodup.filter _ List.nodup_range

theorem flatten_index_unique (L : List (List Nat)) (h : L.flatten.Nodup) (k k' : Nat) (g g' : List Nat)
    (hk : L[k]? = some g) (hk' : L[k']? = some g') (x : Nat) (hx : x ∈ g) (hx' : x ∈ g') : k = k' := by
  induction L generalizing k k' with
  | nil => simp at hk
  | cons a L ih =>
    rw [List.flatten_cons, List.nodup_append] at h
    obtain ⟨_, h2, h3⟩ := h
    cases k with
    | zero =>
      cases k' with
      | zero => rfl
      | succ k' =>
        simp only [List.getElem?_cons_zero, Option.some.injEq] at hk
        simp only [List.getElem?_cons_succ] at hk'
        subst hk
        exact absurd rfl (h3 x hx x (List.mem_flatten.2 ⟨g', List.mem_of_getElem? hk', hx'⟩))
    | succ k =>
      cases k' with
      | zero =>
        simp only [List.getElem?_cons_zero, Option.some.injEq] at hk'
        simp only [List.getElem?_cons_succ] at hk
        subst hk'
        exact absurd rfl (h3 x hx' x (List.mem_flatten.2 ⟨g, List.mem_of_getElem? hk, hx⟩))
      | succ k' =>
        simp only [List.getElem?_cons_succ] at hk hk'
        rw [ih h2 k k' hk hk']

theorem rows_nodup (A : SpMat α) (cols : List (List Nat)) (hG : Grouping A cols) :
    (cols.map (rowsIn A)).flatten.Nodup := by
  rw [List.nodup_flatten]
  constructor
  · intro r hr
    obtain ⟨g, _, rfl⟩ := List.mem_map.1 hr
    exact rowsIn_nodup A g
  · rw [List.pairwise_map]
    have hp := (List.nodup_flatten.1 hG.nodup).2
    refine List.Pairwise.imp_of_mem ?_ hp
    intro g g' hg hg' hd i hi hi'
    obtain ⟨_, j, hj, hij⟩ := (mem_rowsIn A g i).1 hi
    obtain ⟨_, j', hj', hij'⟩ := (mem_rowsIn A g' i).1 hi'
    have : j' ∈ g := hG.sep g hg j hj j' ⟨hG.lt g hg j hj, hG.lt g' hg' j' hj', i, hij, hij'⟩
    exact hd this hj'

theorem findGroup_aux (L : List (List Nat)) (s k : Nat) (g : List Nat) (i : Nat) (hk : L[k]? = some g) (hi : i ∈ g)
    (hb : ∀ k' g', k' < k → L[k']? = some g' → i ∉ g') :
    (enumFrom s L).findSome? (fun e => if e.2.contains i then some e.1 else none) = some (s + k) := by
  induction L generalizing s k with
  | nil => simp at hk
  | cons a L ih =>
    cases k with
    | zero =>
      simp only [List.getElem?_cons_zero, Option.some.injEq] at hk
      subst hk
      simp [enumFrom, List.findSome?_cons, hi]
    | succ k =>
      simp only [List.getElem?_cons_succ] at hk
      have ha : i ∉ a := hb 0 a (by omega) (by simp)
      have := ih (s + 1) k hk (fun k' g' hk' hg' => hb (k' + 1) g' (by omega) (by simpa using hg'))
      have hc : a.contains i = false := by simpa using ha
      simp only [enumFrom, List.findSome?_cons, hc, Bool.false_eq_true, if_false]
      rw [this]; congr 1; omega

theorem findGroup_eq (L : List (List Nat)) (h : L.flatten.Nodup) (k : Nat) (g : List Nat) (hk : L[k]? = some g)
    (i : Nat) (hi : i ∈ g) : findGroup L i = some k := by
  unfold findGroup
  rw [findGroup_aux L 0 k g i hk hi]
  · simp
  · intro k' g' hlt hk' hi'
    have := flatten_index_unique L h k k' g g' hk hk' i hi hi'
    omega

/-- what `perm_for_indices` delivers for the flattened groups -/
structure PermLayout (L : List (List Nat)) (n : Nat) (p : Array Nat) : Prop where
  ok : permOk p n = true
  lt : ∀ i, i < n → p.getD i 0 < n
  inj : ∀ i i', i < n → i' < n → p.getD i 0 = p.getD i' 0 → i = i'
  pos : ∀ k g t x, L[k]? = some g → g[t]? = some x → p.getD x 0 = offAt L k + t
  out : ∀ i, i < n → i ∉ L.flatten → offAt L L.length ≤ p.getD i 0

theorem permLayout (L : List (List Nat)) (n : Nat) (hnd : L.flatten.Nodup) (hlt : ∀ i ∈ L.flatten, i < n) :
    ∃ p, permForIndices n L.flatten = .ok p ∧ PermLayout L n p := by
  obtain ⟨p, h1, _, h3, h4, h5, h6, h7⟩ := permForIndices_spec n L.flatten hnd hlt
  refine ⟨p, h1, h7, h5, h6, ?_, ?_⟩
  · intro k g t x hk ht
    obtain ⟨hk', rfl⟩ := List.getElem?_eq_some_iff.1 hk
    obtain ⟨ht', rfl⟩ := List.getElem?_eq_some_iff.1 ht
    obtain ⟨hm, hm'⟩ := List.getElem?_eq_some_iff.1 (flatten_getElem? L k t hk' ht')
    rw [← hm']
    exact h3 _ hm
  · intro i hi hni
    rw [offAt_length]
    exact h4 i hi hni

/-! ### block-diagonal entry -/

def rOff (bl : List (SpMat α)) (k : Nat) : Nat := ((bl.take k).map (·.nrows)).sum
def cOff (bl : List (SpMat α)) (k : Nat) : Nat := ((bl.take k).map (·.ncols)).sum

theorem rOff_succ (b : SpMat α) (bs : List (SpMat α)) (k : Nat) : rOff (b :: bs) (k + 1) = b.nrows + rOff bs k := by
  simp [rOff]
theorem cOff_succ (b : SpMat α) (bs : List (SpMat α)) (k : Nat) : cOff (b :: bs) (k + 1) = b.ncols + cOff bs k := by
  simp [cOff]

theorem bdEntry_at (bl : List (SpMat α)) (k : Nat) (B : SpMat α) (hk : bl[k]? = some B) (x y : Nat)
    (hx1 : rOff bl k ≤ x) (hx2 : x < rOff bl k + B.nrows) (hy1 : cOff bl k ≤ y) (hy2 : y < cOff bl k + B.ncols) :
    bdEntry bl x y = entry B (x - rOff bl k) (y - cOff bl k) := by
  induction bl generalizing k x y with
  | nil => simp at hk
  | cons b bs ih =>
    cases k with
    | zero =>
      simp only [List.getElem?_cons_zero, Option.some.injEq] at hk
      subst hk
      simp only [rOff, cOff, List.take_zero, List.map_nil, List.sum_nil, Nat.zero_add, Nat.sub_zero] at *
      unfold bdEntry
      rw [if_pos ⟨hx2, hy2⟩]
    | succ k =>
      simp only [List.getElem?_cons_succ] at hk
      rw [rOff_succ] at hx1 hx2 ⊢
      rw [cOff_succ] at hy1 hy2 ⊢
      unfold bdEntry
      rw [if_neg (by omega), if_pos (by omega), ih k hk _ _ (by omega) (by omega) (by omega) (by omega)]
      congr 1 <;> omega

theorem bdEntry_zero (bl : List (SpMat α)) (x y : Nat)
    (h : ∀ k B, bl[k]? = some B →
      ¬ (rOff bl k ≤ x ∧ x < rOff bl k + B.nrows ∧ cOff bl k ≤ y ∧ y < cOff bl k + B.ncols)) :
    bdEntry bl x y = zero := by
  induction bl generalizing x y with
  | nil => rfl
  | cons b bs ih =>
    unfold bdEntry
    have h0 := h 0 b (by simp)
    simp only [rOff, cOff, List.take_zero, List.map_nil, List.sum_nil, Nat.zero_add, Nat.zero_le, true_and] at h0
    rw [if_neg (by omega)]
    split
    · rename_i hc
      apply ih
      intro k B hk hcon
      apply h (k + 1) B (by simpa using hk)
      rw [rOff_succ, cOff_succ]
      omega
    · rfl

end layout
end part3

section part4
open Yuiv Relation UF

section decompby
variable {α : Type} [Scal α]

def trips (A : SpMat α) : List (Nat × Nat × α) :=
  (List.range A.ncols).flatMap fun j => (col A j).map fun e => (e.1, j, e.2)

def placeF (rows : List (List Nat)) (ro co p q : Array Nat) (t : Nat × Nat × α) : Nat × Nat × Nat × α :=
  ((findGroup rows t.1).getD 0, p.getD t.1 0 - ro.getD ((findGroup rows t.1).getD 0) 0,
    q.getD t.2.1 0 - co.getD ((findGroup rows t.1).getD 0) 0, t.2.2)

def blockOf (pl : List (Nat × Nat × Nat × α)) (ro co : Array Nat) (k : Nat) : SpMat α :=
  ⟨ro.getD (k + 1) 0 - ro.getD k 0, co.getD (k + 1) 0 - co.getD k 0,
    ((List.range (co.getD (k + 1) 0 - co.getD k 0)).map fun j' =>
      (List.range (ro.getD (k + 1) 0 - ro.getD k 0)).filterMap fun i' =>
        if (pl.filter fun t => t.1 == k && t.2.1 == i' && t.2.2.1 == j' && !isZero t.2.2.2).isEmpty then none
        else some (i', lsum ((pl.filter fun t => t.1 == k && t.2.1 == i' && t.2.2.1 == j' && !isZero t.2.2.2).map
          fun t => t.2.2.2))).toArray⟩

theorem decompBy_eq (A : SpMat α) (rows cols : List (List Nat)) (p q : Array Nat) (hlen : rows.length = cols.length)
    (H : ∀ t ∈ trips A, ∃ k, findGroup rows t.1 = some k ∧
      (offsets rows).toArray.getD k 0 ≤ p.getD t.1 0 ∧ (offsets cols).toArray.getD k 0 ≤ q.getD t.2.1 0 ∧
      p.getD t.1 0 - (offsets rows).toArray.getD k 0 < (offsets rows).toArray.getD (k + 1) 0 - (offsets rows).toArray.getD k 0 ∧
      q.getD t.2.1 0 - (offsets cols).toArray.getD k 0 < (offsets cols).toArray.getD (k + 1) 0 - (offsets cols).toArray.getD k 0) :
    decompBy A rows cols p q = .ok ((List.range rows.length).map
      (blockOf ((trips A).map (placeF rows (offsets rows).toArray (offsets cols).toArray p q))
        (offsets rows).toArray (offsets cols).toArray)) := by
  unfold decompBy
  rw [if_neg (by simp [hlen])]
  simp only
  rw [mapMRes_ok (g := placeF rows (offsets rows).toArray (offsets cols).toArray p q)]
  · rfl
  · intro t ht
    obtain ⟨k, h1, h2, h3, h4, h5⟩ := H t ht
    simp only [h1, placeF, Option.getD_some]
    rw [if_neg (by simp only [Bool.or_eq_true, decide_eq_true_eq]; omega)]
    split
    · rfl
    · rw [if_neg (by simp only [Bool.or_eq_true, decide_eq_true_eq]; omega)]

end decompby
end part4

section part5
open Yuiv Relation UF

section blocks
variable {α : Type} [Scal α]

def selK (k i' j' : Nat) (t : Nat × Nat × Nat × α) : Bool :=
  t.1 == k && t.2.1 == i' && t.2.2.1 == j' && !isZero t.2.2.2

theorem getD_map_range {β : Type} (w : Nat) (f : Nat → List β) (s : Nat) (hs : s < w) :
    ((List.range w).map f).toArray.getD s [] = f s := by
  simp [hs]

theorem blockOf_col (pl : List (Nat × Nat × Nat × α)) (ro co : Array Nat) (k s : Nat)
    (hs : s < co.getD (k + 1) 0 - co.getD k 0) :
    col (blockOf pl ro co k) s = (List.range (ro.getD (k + 1) 0 - ro.getD k 0)).filterMap fun i' =>
      if (pl.filter (selK k i' s)).isEmpty then none
      else some (i', lsum ((pl.filter (selK k i' s)).map fun t => t.2.2.2)) := by
  unfold col blockOf
  exact getD_map_range _ _ s hs

theorem blockOf_rows (pl : List (Nat × Nat × Nat × α)) (ro co : Array Nat) (k s : Nat)
    (hs : s < co.getD (k + 1) 0 - co.getD k 0) (e : Nat × α) (he : e ∈ col (blockOf pl ro co k) s) :
    e.1 < ro.getD (k + 1) 0 - ro.getD k 0 := by
  rw [blockOf_col pl ro co k s hs] at he
  obtain ⟨i', hi', h⟩ := List.mem_filterMap.1 he
  split at h
  · cases h
  · cases h; exact List.mem_range.1 hi'

theorem blockOf_mem (pl : List (Nat × Nat × Nat × α)) (ro co : Array Nat) (k t s : Nat)
    (ht : t < ro.getD (k + 1) 0 - ro.getD k 0) (hs : s < co.getD (k + 1) 0 - co.getD k 0)
    (hne : pl.filter (selK k t s) ≠ []) :
    (t, lsum ((pl.filter (selK k t s)).map fun x => x.2.2.2)) ∈ col (blockOf pl ro co k) s := by
  rw [blockOf_col pl ro co k s hs]
  refine List.mem_filterMap.2 ⟨t, List.mem_range.2 ht, ?_⟩
  rw [if_neg (by simpa [List.isEmpty_iff] using hne)]

end blocks

section blocksR
variable {R : Type} [CommRing R] [Scal R] [LawfulScal R]
open LawfulScal

theorem colSum_filterMap_range (G : Nat → Option (Nat × R)) (hG : ∀ i e, G i = some e → e.1 = i) (h t : Nat) :
    colSum ((List.range h).filterMap G) t = if t < h then ((G t).map (·.2)).getD 0 else 0 := by
  induction h with
  | zero => simp [colSum_nil]
  | succ h ih =>
    rw [List.range_succ, List.filterMap_append, colSum_append, ih]
    cases hg : G h with
    | none =>
      simp only [List.filterMap_cons, hg, List.filterMap_nil, colSum_nil, add_zero]
      by_cases h1 : t < h
      · simp [h1, Nat.lt_succ_of_lt h1]
      · by_cases h2 : t = h
        · subst h2; simp [hg]
        · simp [h1, show ¬ t < h + 1 by omega]
    | some e =>
      have he := hG h e hg
      simp only [List.filterMap_cons, hg, List.filterMap_nil, colSum_cons, colSum_nil, add_zero]
      by_cases h1 : t < h
      · simp [h1, Nat.lt_succ_of_lt h1, he, show h ≠ t by omega]
      · by_cases h2 : t = h
        · subst h2; simp [hg, he]
        · simp [h1, show ¬ t < h + 1 by omega, he, show h ≠ t by omega]

theorem entry_blockOf (pl : List (Nat × Nat × Nat × R)) (ro co : Array Nat) (k t s : Nat)
    (ht : t < ro.getD (k + 1) 0 - ro.getD k 0) (hs : s < co.getD (k + 1) 0 - co.getD k 0) :
    entry (blockOf pl ro co k) t s = ((pl.filter (selK k t s)).map fun x => x.2.2.2).sum := by
  unfold entry
  rw [blockOf_col pl ro co k s hs, colSum_filterMap_range _ _ _ t, if_pos ht]
  · split
    · rename_i h0
      rw [List.isEmpty_iff.1 h0]; simp
    · simp [lsum_eq]
  · intro i e h
    split at h
    · cases h
    · cases h; rfl

theorem sum_filter_nz {β : Type} (l : List β) (C : β → Bool) (val : β → R) :
    ((l.filter fun x => C x && !isZero (val x)).map val).sum = ((l.filter C).map val).sum := by
  induction l with
  | nil => rfl
  | cons x l ih =>
    by_cases hc : C x = true
    · by_cases hz : isZero (val x) = true
      · rw [List.filter_cons_of_neg (by simp [hz]), List.filter_cons_of_pos hc, ih, List.map_cons, List.sum_cons,
          (isZero_iff _).1 hz, zero_add]
      · rw [List.filter_cons_of_pos (by simpa [hc] using hz), List.filter_cons_of_pos hc, List.map_cons, List.map_cons,
          List.sum_cons, List.sum_cons, ih]
    · rw [List.filter_cons_of_neg (by simp [hc]), List.filter_cons_of_neg hc, ih]

theorem trips_sum_aux (A : SpMat R) (i j n : Nat) :
    ((((List.range n).flatMap fun j => (col A j).map fun e => (e.1, j, e.2)).filter
      fun x => x.1 == i && x.2.1 == j).map (·.2.2)).sum = if j < n then entry A i j else 0 := by
  induction n with
  | zero => simp
  | succ n ih =>
    rw [List.range_succ, List.flatMap_append, List.filter_append, List.map_append, List.sum_append, ih]
    simp only [List.flatMap_cons, List.flatMap_nil, List.append_nil, List.filter_map, List.map_map]
    by_cases h2 : j = n
    · subst h2
      rw [if_neg (by omega), if_pos (by omega), zero_add]
      unfold entry colSum
      rw [lsum_eq]
      congr 1
      have : (List.filter ((fun x : Nat × Nat × R => x.1 == i && x.2.1 == j) ∘ fun e : Nat × R => (e.1, j, e.2)) (col A j)) =
          List.filter (fun e => e.1 == i) (col A j) := by
        apply List.filter_congr
        intro e _
        simp
      rw [this]
      apply List.map_congr_left
      intro e _; rfl
    · have : (List.filter ((fun x : Nat × Nat × R => x.1 == i && x.2.1 == j) ∘ fun e : Nat × R => (e.1, n, e.2)) (col A n)) = [] := by
        rw [List.filter_eq_nil_iff]
        intro e _
        simp [Ne.symm h2]
      rw [this]
      by_cases h1 : j < n
      · simp [h1, Nat.lt_succ_of_lt h1]
      · simp [h1, show ¬ j < n + 1 by omega]

theorem trips_sum (A : SpMat R) (i j : Nat) (hj : j < A.ncols) :
    (((trips A).filter fun x => x.1 == i && x.2.1 == j).map (·.2.2)).sum = entry A i j := by
  unfold trips
  rw [trips_sum_aux, if_pos hj]

end blocksR
end part5

section part6
open Yuiv Relation UF

section setup
variable {R : Type} [Scal R]

/-- the situation of the second branch of `dir_sum_decomp` -/
structure Setup (A : SpMat R) (cols : List (List Nat)) (p q : Array Nat) : Prop where
  wf : WFC A
  grp : Grouping A cols
  pl : PermLayout (cols.map (rowsIn A)) A.nrows p
  ql : PermLayout cols A.ncols q

def roA (A : SpMat R) (cols : List (List Nat)) : Array Nat := (offsets (cols.map (rowsIn A))).toArray
def coA (cols : List (List Nat)) : Array Nat := (offsets cols).toArray
def plOf (A : SpMat R) (cols : List (List Nat)) (p q : Array Nat) : List (Nat × Nat × Nat × R) :=
  (trips A).map (placeF (cols.map (rowsIn A)) (roA A cols) (coA cols) p q)
def blocksOf (A : SpMat R) (cols : List (List Nat)) (p q : Array Nat) : List (SpMat R) :=
  (List.range (cols.map (rowsIn A)).length).map (blockOf (plOf A cols p q) (roA A cols) (coA cols))

/-- row `i` is the `t`-th row and column `j` the `s`-th column of group `k` -/
def Pos (A : SpMat R) (cols : List (List Nat)) (k t s i j : Nat) : Prop :=
  ∃ g, cols[k]? = some g ∧ g[s]? = some j ∧ (rowsIn A g)[t]? = some i

variable {A : SpMat R} {cols : List (List Nat)} {p q : Array Nat}

theorem grp_offsets (g : List Nat) (k : Nat) (hk : cols[k]? = some g) :
    (roA A cols).getD k 0 = offAt (cols.map (rowsIn A)) k ∧
    (roA A cols).getD (k + 1) 0 = offAt (cols.map (rowsIn A)) k + (rowsIn A g).length ∧
    (coA cols).getD k 0 = offAt cols k ∧ (coA cols).getD (k + 1) 0 = offAt cols k + g.length := by
  obtain ⟨hk', rfl⟩ := List.getElem?_eq_some_iff.1 hk
  have hk2 : k < (cols.map (rowsIn A)).length := by simpa using hk'
  unfold roA coA
  rw [offsets_getD _ k (by omega), offsets_getD _ (k + 1) (by omega), offsets_getD _ k (by omega),
    offsets_getD _ (k + 1) (by omega), offAt_succ _ k hk2, offAt_succ _ k hk']
  simp

theorem Setup.pos_facts (S : Setup A cols p q) {k t s i j : Nat} (h : Pos A cols k t s i j) :
    findGroup (cols.map (rowsIn A)) i = some k ∧
    p.getD i 0 = (roA A cols).getD k 0 + t ∧ q.getD j 0 = (coA cols).getD k 0 + s ∧
    t < (roA A cols).getD (k + 1) 0 - (roA A cols).getD k 0 ∧
    s < (coA cols).getD (k + 1) 0 - (coA cols).getD k 0 ∧ i < A.nrows ∧ j < A.ncols := by
  obtain ⟨g, hk, hs, ht⟩ := h
  obtain ⟨o1, o2, o3, o4⟩ := grp_offsets (A := A) g k hk
  have hrk : (cols.map (rowsIn A))[k]? = some (rowsIn A g) := by simp [hk]
  have hi : i ∈ rowsIn A g := List.mem_of_getElem? ht
  have hj : j ∈ g := List.mem_of_getElem? hs
  have hg : g ∈ cols := List.mem_of_getElem? hk
  refine ⟨findGroup_eq _ (rows_nodup A cols S.grp) k _ hrk i hi, ?_, ?_, ?_, ?_, ((mem_rowsIn A g i).1 hi).1,
    S.grp.lt g hg j hj⟩
  · rw [o1]; exact S.pl.pos k _ t i hrk ht
  · rw [o3]; exact S.ql.pos k g s j hk hs
  · have := (List.getElem?_eq_some_iff.1 ht).1
    omega
  · have := (List.getElem?_eq_some_iff.1 hs).1
    omega

theorem Setup.stored_pos (S : Setup A cols p q) (j : Nat) (hj : j < A.ncols) (e : Nat × R) (he : e ∈ col A j) :
    ∃ k t s, Pos A cols k t s e.1 j := by
  obtain ⟨g, hg, hjg⟩ := S.grp.cover j hj (by intro h; rw [h] at he; cases he)
  obtain ⟨k, hk⟩ := List.getElem?_of_mem hg
  obtain ⟨s, hs⟩ := List.getElem?_of_mem hjg
  have hi : e.1 ∈ rowsIn A g :=
    (mem_rowsIn A g e.1).2 ⟨S.wf.rows j e he, j, hjg, (mem_rowIdx A j e.1).2 ⟨e.2, he⟩⟩
  obtain ⟨t, ht⟩ := List.getElem?_of_mem hi
  exact ⟨k, t, s, g, hk, hs, ht⟩

theorem mem_trips (A : SpMat R) (x : Nat × Nat × R) :
    x ∈ trips A ↔ x.2.1 < A.ncols ∧ (x.1, x.2.2) ∈ col A x.2.1 := by
  unfold trips
  simp only [List.mem_flatMap, List.mem_range, List.mem_map]
  constructor
  · rintro ⟨j, hj, e, he, rfl⟩; exact ⟨hj, he⟩
  · rintro ⟨hj, he⟩; exact ⟨x.2.1, hj, (x.1, x.2.2), he, rfl⟩

theorem Setup.decompBy_ok (S : Setup A cols p q) :
    decompBy A (cols.map (rowsIn A)) cols p q = .ok (blocksOf A cols p q) := by
  rw [decompBy_eq A _ cols p q (by simp)]
  · rfl
  · intro x hx
    obtain ⟨hj, he⟩ := (mem_trips A x).1 hx
    obtain ⟨k, t, s, hpos⟩ := S.stored_pos _ hj _ he
    have hpos' : Pos A cols k t s x.1 x.2.1 := hpos
    obtain ⟨f1, f2, f3, f4, f5, _, _⟩ := S.pos_facts hpos'
    refine ⟨k, f1, ?_, ?_, ?_, ?_⟩
    · change (roA A cols).getD k 0 ≤ _; omega
    · change (coA cols).getD k 0 ≤ _; omega
    · change p.getD x.1 0 - (roA A cols).getD k 0 < (roA A cols).getD (k + 1) 0 - (roA A cols).getD k 0
      omega
    · change q.getD x.2.1 0 - (coA cols).getD k 0 < (coA cols).getD (k + 1) 0 - (coA cols).getD k 0
      omega

end setup
end part6

section part7
open Yuiv Relation UF

section setup2
variable {R : Type} [CommRing R] [Scal R] [LawfulScal R]
open LawfulScal
variable {A : SpMat R} {cols : List (List Nat)} {p q : Array Nat}

theorem Setup.placeF_eq (S : Setup A cols p q) (x : Nat × Nat × R) (hx : x ∈ trips A) :
    ∃ k t s, Pos A cols k t s x.1 x.2.1 ∧
      placeF (cols.map (rowsIn A)) (roA A cols) (coA cols) p q x = (k, t, s, x.2.2) := by
  obtain ⟨hj, he⟩ := (mem_trips A x).1 hx
  obtain ⟨k, t, s, hpos⟩ := S.stored_pos _ hj _ he
  have hpos' : Pos A cols k t s x.1 x.2.1 := hpos
  obtain ⟨f1, f2, f3, f4, f5, _, _⟩ := S.pos_facts hpos'
  refine ⟨k, t, s, hpos', ?_⟩
  unfold placeF
  rw [f1, Option.getD_some, f2, f3, Nat.add_sub_cancel_left, Nat.add_sub_cancel_left]

theorem Setup.pos_unique (S : Setup A cols p q) {k t s k' t' s' i j : Nat}
    (h : Pos A cols k t s i j) (h' : Pos A cols k' t' s' i j) : k = k' ∧ t = t' ∧ s = s' := by
  obtain ⟨f1, f2, f3, _⟩ := S.pos_facts h
  obtain ⟨g1, g2, g3, _⟩ := S.pos_facts h'
  have : k = k' := by rw [f1] at g1; exact Option.some.inj g1
  subst this
  exact ⟨rfl, by omega, by omega⟩

theorem Setup.pos_inj (S : Setup A cols p q) {k t s i j i' j' : Nat}
    (h : Pos A cols k t s i j) (h' : Pos A cols k t s i' j') : i = i' ∧ j = j' := by
  obtain ⟨_, f2, f3, _, _, f6, f7⟩ := S.pos_facts h
  obtain ⟨_, g2, g3, _, _, g6, g7⟩ := S.pos_facts h'
  exact ⟨S.pl.inj i i' f6 g6 (by omega), S.ql.inj j j' f7 g7 (by omega)⟩

theorem Setup.entry_block (S : Setup A cols p q) {k t s i j : Nat} (h : Pos A cols k t s i j) :
    entry (blockOf (plOf A cols p q) (roA A cols) (coA cols) k) t s = entry A i j := by
  obtain ⟨_, _, _, f4, f5, _, hj⟩ := S.pos_facts h
  rw [entry_blockOf _ _ _ k t s f4 f5]
  unfold plOf
  rw [List.filter_map, List.map_map]
  have hv : ((fun x : Nat × Nat × Nat × R => x.2.2.2) ∘ placeF (cols.map (rowsIn A)) (roA A cols) (coA cols) p q) =
      fun x => x.2.2 := rfl
  rw [hv, ← trips_sum A i j hj,
    ← sum_filter_nz (β := Nat × Nat × R) (trips A) (fun x => x.1 == i && x.2.1 == j) (fun x => x.2.2)]
  congr 2
  apply List.filter_congr
  intro x hx
  obtain ⟨k', t', s', hp', e⟩ := S.placeF_eq x hx
  simp only [Function.comp, e, selK]
  congr 1
  rw [Bool.eq_iff_iff]
  simp only [Bool.and_eq_true, beq_iff_eq]
  constructor
  · rintro ⟨⟨rfl, rfl⟩, rfl⟩; exact S.pos_inj hp' h
  · rintro ⟨h1, h2⟩
    rw [h1, h2] at hp'
    obtain ⟨a, b, c⟩ := S.pos_unique hp' h; exact ⟨⟨a, b⟩, c⟩

theorem blocksOf_getElem? (k : Nat) (g : List Nat) (hk : cols[k]? = some g) :
    (blocksOf A cols p q)[k]? = some (blockOf (plOf A cols p q) (roA A cols) (coA cols) k) := by
  have hk' := (List.getElem?_eq_some_iff.1 hk).1
  unfold blocksOf
  simp [hk']

theorem blocksOf_getElem?_inv (k : Nat) (B : SpMat R) (h : (blocksOf A cols p q)[k]? = some B) :
    ∃ g, cols[k]? = some g ∧ B = blockOf (plOf A cols p q) (roA A cols) (coA cols) k := by
  have hk := (List.getElem?_eq_some_iff.1 h).1
  have hk' : k < cols.length := by simpa [blocksOf] using hk
  refine ⟨cols[k], by simp [hk'], ?_⟩
  rw [blocksOf_getElem? k cols[k] (by simp [hk'])] at h
  exact (Option.some.inj h).symm

theorem blockOf_shape (k : Nat) (g : List Nat) (hk : cols[k]? = some g) :
    (blockOf (plOf A cols p q) (roA A cols) (coA cols) k).nrows = (rowsIn A g).length ∧
    (blockOf (plOf A cols p q) (roA A cols) (coA cols) k).ncols = g.length := by
  obtain ⟨o1, o2, o3, o4⟩ := grp_offsets (A := A) g k hk
  unfold blockOf
  simp only
  omega

theorem blocksOf_nrows : (blocksOf A cols p q).map (·.nrows) = (cols.map (rowsIn A)).map List.length := by
  apply List.ext_getElem?
  intro k
  by_cases hk : k < cols.length
  · have h1 := blocksOf_getElem? (A := A) (p := p) (q := q) k cols[k] (List.getElem?_eq_getElem hk)
    rw [List.getElem?_map, h1]
    simp [hk, (blockOf_shape (A := A) (p := p) (q := q) k cols[k] (List.getElem?_eq_getElem hk)).1]
  · simp [blocksOf, hk]

theorem blocksOf_ncols : (blocksOf A cols p q).map (·.ncols) = cols.map List.length := by
  apply List.ext_getElem?
  intro k
  by_cases hk : k < cols.length
  · have h1 := blocksOf_getElem? (A := A) (p := p) (q := q) k cols[k] (List.getElem?_eq_getElem hk)
    rw [List.getElem?_map, h1]
    simp [hk, (blockOf_shape (A := A) (p := p) (q := q) k cols[k] (List.getElem?_eq_getElem hk)).2]
  · simp [blocksOf, hk]

theorem rOff_blocksOf (k : Nat) : rOff (blocksOf A cols p q) k = offAt (cols.map (rowsIn A)) k := by
  unfold rOff offAt
  rw [List.map_take, List.map_take, blocksOf_nrows]

theorem cOff_blocksOf (k : Nat) : cOff (blocksOf A cols p q) k = offAt cols k := by
  unfold cOff offAt
  rw [List.map_take, List.map_take, blocksOf_ncols]

end setup2
end part7

section part8
open Yuiv Relation UF

section check
variable {R : Type} [CommRing R] [Scal R] [LawfulScal R]
open LawfulScal
variable {A : SpMat R} {cols : List (List Nat)} {p q : Array Nat}

theorem foldl_add_eq_sum (l : List Nat) : l.foldl (· + ·) 0 = l.sum := by
  have : ∀ (a : Nat), l.foldl (· + ·) a = a + l.sum := by
    induction l with
    | nil => simp
    | cons x l ih => intro a; simp [ih, Nat.add_assoc]
  simpa using this 0

theorem nodup_length_le (l : List Nat) (n : Nat) (hnd : l.Nodup) (hlt : ∀ i ∈ l, i < n) : l.length ≤ n := by
  have h := (List.subperm_of_subset hnd (l₂ := List.range n) (fun i hi => List.mem_range.2 (hlt i hi))).length_le
  simpa using h

theorem offAt_succ' (L : List (List Nat)) (k : Nat) (g : List Nat) (hk : L[k]? = some g) :
    offAt L (k + 1) = offAt L k + g.length := by
  obtain ⟨hk', rfl⟩ := List.getElem?_eq_some_iff.1 hk
  exact offAt_succ L k hk'

theorem Setup.entry_eq (S : Setup A cols p q) (i j : Nat) (hi : i < A.nrows) (hj : j < A.ncols) :
    entry A i j = bdEntry (blocksOf A cols p q) (p.getD i 0) (q.getD j 0) := by
  by_cases hc : ∃ g ∈ cols, j ∈ g
  · obtain ⟨g, hg, hjg⟩ := hc
    obtain ⟨k, hk⟩ := List.getElem?_of_mem hg
    obtain ⟨s, hs⟩ := List.getElem?_of_mem hjg
    obtain ⟨o1, o2, o3, o4⟩ := grp_offsets (A := A) g k hk
    have blk := blocksOf_getElem? (A := A) (p := p) (q := q) k g hk
    obtain ⟨sh1, sh2⟩ := blockOf_shape (A := A) (p := p) (q := q) k g hk
    have hrk : (cols.map (rowsIn A))[k]? = some (rowsIn A g) := by simp [hk]
    have hq : q.getD j 0 = offAt cols k + s := S.ql.pos k g s j hk hs
    have hsl : s < g.length := (List.getElem?_eq_some_iff.1 hs).1
    by_cases hr : i ∈ rowsIn A g
    · obtain ⟨t, ht⟩ := List.getElem?_of_mem hr
      have hpos : Pos A cols k t s i j := ⟨g, hk, hs, ht⟩
      obtain ⟨_, f2, f3, f4, f5, _, _⟩ := S.pos_facts hpos
      rw [bdEntry_at _ k _ blk (p.getD i 0) (q.getD j 0) (by rw [rOff_blocksOf]; omega)
        (by rw [rOff_blocksOf, sh1]; omega) (by rw [cOff_blocksOf]; omega) (by rw [cOff_blocksOf, sh2]; omega),
        rOff_blocksOf, cOff_blocksOf]
      have e1 : p.getD i 0 - offAt (cols.map (rowsIn A)) k = t := by omega
      have e2 : q.getD j 0 - offAt cols k = s := by omega
      rw [e1, e2]
      exact (S.entry_block hpos).symm
    · have h0 : entry A i j = 0 := by
        unfold entry
        apply colSum_not_mem
        intro hmem
        exact hr ((mem_rowsIn A g i).2 ⟨hi, j, hjg, hmem⟩)
      rw [h0, bdEntry_zero, zero_eq]
      rintro k' B hk' ⟨h1, h2, h3, h4⟩
      obtain ⟨g', hk'g, rfl⟩ := blocksOf_getElem?_inv k' B hk'
      obtain ⟨sh1', sh2'⟩ := blockOf_shape (A := A) (p := p) (q := q) k' g' hk'g
      rw [rOff_blocksOf] at h1 h2
      rw [cOff_blocksOf] at h3 h4
      rw [sh1'] at h2
      rw [sh2'] at h4
      rcases Nat.lt_trichotomy k' k with hlt | heq | hgt
      · have m := offAt_mono cols (k' + 1) k (by omega)
        rw [offAt_succ' cols k' g' hk'g] at m
        omega
      · subst heq
        rw [hk] at hk'g
        cases hk'g
        have ht' : p.getD i 0 - offAt (cols.map (rowsIn A)) k' < (rowsIn A g).length := by omega
        have hpos := S.pl.pos k' (rowsIn A g) _ _ hrk (List.getElem?_eq_getElem ht')
        have hmem : (rowsIn A g)[p.getD i 0 - offAt (cols.map (rowsIn A)) k'] ∈ rowsIn A g := List.getElem_mem ht'
        have := S.pl.inj _ i ((mem_rowsIn A g _).1 hmem).1 hi (by omega)
        rw [this] at hmem
        exact hr hmem
      · have m := offAt_mono cols (k + 1) k' (by omega)
        rw [offAt_succ' cols k g hk] at m
        omega
  · have hcol : col A j = [] := by
      by_contra hne
      obtain ⟨g, hg, hjg⟩ := S.grp.cover j hj hne
      exact hc ⟨g, hg, hjg⟩
    have h0 : entry A i j = 0 := by
      unfold entry; rw [hcol]; exact colSum_nil i
    rw [h0, bdEntry_zero, zero_eq]
    rintro k' B hk' ⟨h1, h2, h3, h4⟩
    obtain ⟨g', hk'g, rfl⟩ := blocksOf_getElem?_inv k' B hk'
    obtain ⟨sh1', sh2'⟩ := blockOf_shape (A := A) (p := p) (q := q) k' g' hk'g
    rw [cOff_blocksOf, sh2'] at h4
    have hout := S.ql.out j hj (by
      intro hmem
      obtain ⟨g, hg, hjg⟩ := List.mem_flatten.1 hmem
      exact hc ⟨g, hg, hjg⟩)
    have m := offAt_mono cols (k' + 1) cols.length (by have := (List.getElem?_eq_some_iff.1 hk'g).1; omega)
    rw [offAt_succ' cols k' g' hk'g] at m
    omega

theorem Setup.checkDecomp_ok (S : Setup A cols p q) : checkDecomp A p q (blocksOf A cols p q) = true := by
  unfold checkDecomp
  simp only [Bool.and_eq_true, List.all_eq_true, List.mem_range, decide_eq_true_eq]
  refine ⟨⟨⟨⟨S.pl.ok, S.ql.ok⟩, ?_⟩, ?_⟩, ?_⟩
  · rw [foldl_add_eq_sum, blocksOf_nrows, ← List.length_flatten]
    apply nodup_length_le _ _ (rows_nodup A cols S.grp)
    intro i hi
    obtain ⟨r, hr, hir⟩ := List.mem_flatten.1 hi
    obtain ⟨g, _, rfl⟩ := List.mem_map.1 hr
    exact ((mem_rowsIn A g i).1 hir).1
  · rw [foldl_add_eq_sum, blocksOf_ncols, ← List.length_flatten]
    apply nodup_length_le _ _ S.grp.nodup
    intro j hj
    obtain ⟨g, hg, hjg⟩ := List.mem_flatten.1 hj
    exact S.grp.lt g hg j hjg
  · intro i hi j hj
    rw [← S.entry_eq i j hi hj, isZero_iff, sub_eq, sub_self]

end check
end part8

section part9
open Yuiv Relation UF

section topα
variable {R : Type} [Scal R]

/-- the second branch of `dir_sum_decomp` as a function of the grouping -/
theorem setup_exists (A : SpMat R) (hA : WFC A) (cols : List (List Nat)) (hG : Grouping A cols) :
    ∃ p q, permForIndices A.nrows (cols.map (rowsIn A)).flatten = .ok p ∧
      permForIndices A.ncols cols.flatten = .ok q ∧ Setup A cols p q := by
  obtain ⟨p, hp, hpl⟩ := permLayout (cols.map (rowsIn A)) A.nrows (rows_nodup A cols hG) (by
    intro i hi
    obtain ⟨r, hr, hir⟩ := List.mem_flatten.1 hi
    obtain ⟨g, _, rfl⟩ := List.mem_map.1 hr
    exact ((mem_rowsIn A g i).1 hir).1)
  obtain ⟨q, hq, hql⟩ := permLayout cols A.ncols hG.nodup (by
    intro j hj
    obtain ⟨g, hg, hjg⟩ := List.mem_flatten.1 hj
    exact hG.lt g hg j hjg)
  exact ⟨p, q, hp, hq, hA, hG, hpl, hql⟩

/-- no panic, any scalar type (the control flow does not depend on the scalar operations being lawful) -/
theorem dirSumDecomp_noPanic (A : SpMat R) (hA : WFC A) : ∃ o, dirSumDecomp A = .ok o := by
  obtain ⟨cols, hgc, hG⟩ := groupCols_grouping A hA
  obtain ⟨p, q, hp, hq, S⟩ := setup_exists A hA cols hG
  unfold dirSumDecomp
  rw [hgc]
  simp only
  split
  · exact ⟨_, rfl⟩
  · rw [hp, hq]
    simp only
    rw [S.decompBy_ok]
    exact ⟨_, rfl⟩

end topα

section top
variable {R : Type} [CommRing R] [Scal R] [LawfulScal R]
open LawfulScal

theorem permOk_range (n : Nat) : permOk (Array.range n) n = true := by
  unfold permOk
  simp only [Bool.and_eq_true, List.all_eq_true, List.mem_range, decide_eq_true_eq, Bool.or_eq_true,
    beq_iff_eq, bne_iff_ne, Array.size_range]
  have hg : ∀ i, i < n → (Array.range n).getD i 0 = i := by
    intro i hi; simp [hi]
  refine ⟨⟨trivial, fun i hi => by rw [hg i hi]; exact hi⟩, fun i hi i' hi' => ?_⟩
  rw [hg i hi, hg i' hi']
  omega

theorem checkDecomp_trivial (A : SpMat R) :
    checkDecomp A (Array.range A.nrows) (Array.range A.ncols) [A] = true := by
  unfold checkDecomp
  simp only [Bool.and_eq_true, List.all_eq_true, List.mem_range, decide_eq_true_eq]
  refine ⟨⟨⟨⟨permOk_range _, permOk_range _⟩, by simp⟩, by simp⟩, ?_⟩
  intro i hi j hj
  have h1 : (Array.range A.nrows).getD i 0 = i := by simp [hi]
  have h2 : (Array.range A.ncols).getD j 0 = j := by simp [hj]
  rw [h1, h2]
  unfold bdEntry
  rw [if_pos ⟨hi, hj⟩, isZero_iff, sub_eq, sub_self]

theorem dirSumDecomp_spec (A : SpMat R) (hA : WFC A) :
    ∃ o, dirSumDecomp A = .ok o ∧ checkDecomp A o.p o.q o.blocks = true := by
  obtain ⟨cols, hgc, hG⟩ := groupCols_grouping A hA
  obtain ⟨p, q, hp, hq, S⟩ := setup_exists A hA cols hG
  unfold dirSumDecomp
  rw [hgc]
  simp only
  split
  · exact ⟨_, rfl, checkDecomp_trivial A⟩
  · rw [hp, hq]
    simp only
    rw [S.decompBy_ok]
    exact ⟨_, rfl, S.checkDecomp_ok⟩

end top
end part9

section part10
open Yuiv Relation UF

section conn
variable {R : Type} [CommRing R] [Scal R] [LawfulScal R]
open LawfulScal

/-- no explicit zero is stored -/
def NoZero (A : SpMat R) : Prop := ∀ j, ∀ e ∈ col A j, isZero e.2 = false

theorem colSum_unique (l : List (Nat × R)) (h : (l.map (·.1)).Pairwise (· < ·)) (e : Nat × R) (he : e ∈ l) :
    colSum l e.1 = e.2 := by
  induction l with
  | nil => cases he
  | cons x l ih =>
    rw [List.map_cons, List.pairwise_cons] at h
    rw [colSum_cons]
    rcases List.mem_cons.1 he with rfl | he'
    · rw [if_pos rfl, colSum_not_mem, add_zero]
      intro hm
      exact absurd (h.1 _ hm) (Nat.lt_irrefl _)
    · have : x.1 < e.1 := h.1 _ (List.mem_map.2 ⟨e, he', rfl⟩)
      rw [if_neg (by omega), zero_add, ih h.2 he']

theorem entry_unique (A : SpMat R) (hA : WFC A) (j : Nat) (e : Nat × R) (he : e ∈ col A j) : entry A e.1 j = e.2 :=
  colSum_unique _ (hA.sorted j) e he

theorem share_symm (A : SpMat R) {a b : Nat} (h : Share A a b) : Share A b a := by
  obtain ⟨h1, h2, i, h3, h4⟩ := h
  exact ⟨h2, h1, i, h4, h3⟩

/-- abstract connectivity: a block whose rows/columns are the rows/columns of one group, carrying every stored
entry of the group as a non-zero entry, passes the connectivity check -/
theorem conn_core (A : SpMat R) (cols : List (List Nat)) (hG : Grouping A cols) (g : List Nat) (hg : g ∈ cols)
    (B : SpMat R) (rowv colv : Nat → Nat)
    (hBrows : ∀ s, s < B.ncols → ∀ e ∈ col B s, e.1 < B.nrows)
    (hsr : ∀ v, v < B.nrows → ∃ i ∈ rowsIn A g, rowv i = v)
    (hsc : ∀ v, v < B.ncols → ∃ j ∈ g, colv j = v)
    (hedge : ∀ j ∈ g, ∀ e ∈ col A j, colv j < B.ncols ∧ ∃ a, (rowv e.1, a) ∈ col B (colv j) ∧ isZero a = false) :
    connectedBlk B = true := by
  -- some column with a stored entry
  obtain ⟨j0, hj0⟩ := List.exists_mem_of_ne_nil g (hG.ne g hg)
  obtain ⟨e0, he0⟩ := List.exists_mem_of_ne_nil _ (hG.colne g hg j0 hj0)
  obtain ⟨hc0, a0, ha0, _⟩ := hedge j0 hj0 e0 he0
  have hr0 : 0 < B.nrows := by have := hBrows _ hc0 _ ha0; simp only at this; omega
  apply connectedBlk_complete B hBrows (by omega)
  intro P hP0 hPe
  -- a stored entry links its row vertex with its column vertex
  have hlink : ∀ j ∈ g, ∀ i, i ∈ rowIdx A j → (P (rowv i) ↔ P (B.nrows + colv j)) := by
    intro j hj i hi
    obtain ⟨v, hv⟩ := (mem_rowIdx A j i).1 hi
    obtain ⟨hc, a, ha, hz⟩ := hedge j hj (i, v) hv
    exact hPe _ hc _ ha hz
  -- all columns of the group are on the same side
  have hT : ∀ a b, EqvGen (Share A) a b →
      ((a ∈ g ↔ b ∈ g) ∧ (a ∈ g → (P (B.nrows + colv a) ↔ P (B.nrows + colv b)))) := by
    intro a b hab
    induction hab with
    | rel a b h =>
      have hab : a ∈ g → b ∈ g := fun ha => hG.sep g hg a ha b h
      have hba : b ∈ g → a ∈ g := fun hb => hG.sep g hg b hb a (share_symm A h)
      refine ⟨⟨hab, hba⟩, fun ha => ?_⟩
      obtain ⟨_, _, i, hi1, hi2⟩ := h
      exact (hlink a ha i hi1).symm.trans (hlink b (hab ha) i hi2)
    | refl a => exact ⟨Iff.rfl, fun _ => Iff.rfl⟩
    | symm a b _ ih => exact ⟨ih.1.symm, fun hb => (ih.2 (ih.1.2 hb)).symm⟩
    | trans a b c _ _ ih1 ih2 => exact ⟨ih1.1.trans ih2.1, fun ha => (ih1.2 ha).trans (ih2.2 (ih1.1.1 ha))⟩
  -- vertex 0 is a row vertex
  obtain ⟨i0, hi0, hv0⟩ := hsr 0 hr0
  obtain ⟨_, j1, hj1, hij1⟩ := (mem_rowsIn A g i0).1 hi0
  have hQ1 : P (B.nrows + colv j1) := (hlink j1 hj1 i0 hij1).1 (by rw [hv0]; exact hP0)
  have hQ : ∀ j ∈ g, P (B.nrows + colv j) := fun j hj => ((hT j1 j (hG.conn g hg j1 hj1 j hj)).2 hj1).1 hQ1
  intro v hv
  by_cases hvr : v < B.nrows
  · obtain ⟨i, hi, rfl⟩ := hsr v hvr
    obtain ⟨_, j, hj, hij⟩ := (mem_rowsIn A g i).1 hi
    exact (hlink j hj i hij).2 (hQ j hj)
  · obtain ⟨j, hj, hcj⟩ := hsc (v - B.nrows) (by omega)
    have : v = B.nrows + colv j := by omega
    rw [this]
    exact hQ j hj

end conn
end part10

section part11
open Yuiv Relation UF

section conn2
variable {R : Type} [CommRing R] [Scal R] [LawfulScal R]
open LawfulScal
variable {A : SpMat R} {cols : List (List Nat)} {p q : Array Nat}

theorem Setup.block_connected (S : Setup A cols p q) (hnz : NoZero A) (k : Nat) (g : List Nat)
    (hk : cols[k]? = some g) :
    connectedBlk (blockOf (plOf A cols p q) (roA A cols) (coA cols) k) = true := by
  obtain ⟨o1, o2, o3, o4⟩ := grp_offsets (A := A) g k hk
  obtain ⟨sh1, sh2⟩ := blockOf_shape (A := A) (p := p) (q := q) k g hk
  have hrk : (cols.map (rowsIn A))[k]? = some (rowsIn A g) := by simp [hk]
  have hg : g ∈ cols := List.mem_of_getElem? hk
  apply conn_core A cols S.grp g hg _ (fun i => p.getD i 0 - (roA A cols).getD k 0)
    (fun j => q.getD j 0 - (coA cols).getD k 0)
  · intro s hs e he
    exact blockOf_rows _ _ _ k s hs e he
  · intro v hv
    rw [sh1] at hv
    refine ⟨(rowsIn A g)[v], List.getElem_mem hv, ?_⟩
    have := S.pl.pos k _ v _ hrk (List.getElem?_eq_getElem hv)
    omega
  · intro v hv
    rw [sh2] at hv
    refine ⟨g[v], List.getElem_mem hv, ?_⟩
    have := S.ql.pos k _ v _ hk (List.getElem?_eq_getElem hv)
    omega
  · intro j hj e he
    obtain ⟨s, hs⟩ := List.getElem?_of_mem hj
    have hjn : j < A.ncols := S.grp.lt g hg j hj
    have hi : e.1 ∈ rowsIn A g :=
      (mem_rowsIn A g e.1).2 ⟨S.wf.rows j e he, j, hj, (mem_rowIdx A j e.1).2 ⟨e.2, he⟩⟩
    obtain ⟨t, ht⟩ := List.getElem?_of_mem hi
    have hpos : Pos A cols k t s e.1 j := ⟨g, hk, hs, ht⟩
    obtain ⟨_, f2, f3, f4, f5, _, _⟩ := S.pos_facts hpos
    have e1 : p.getD e.1 0 - (roA A cols).getD k 0 = t := by omega
    have e2 : q.getD j 0 - (coA cols).getD k 0 = s := by omega
    simp only [e1, e2]
    refine ⟨f5, _, blockOf_mem _ _ _ k t s f4 f5 ?_, ?_⟩
    · have hx : (e.1, j, e.2) ∈ trips A := (mem_trips A _).2 ⟨hjn, he⟩
      obtain ⟨k', t', s', hp', epl⟩ := S.placeF_eq _ hx
      obtain ⟨rfl, rfl, rfl⟩ := S.pos_unique hp' hpos
      apply List.ne_nil_of_mem (a := (k', t', s', e.2))
      refine List.mem_filter.2 ⟨?_, ?_⟩
      · unfold plOf
        exact List.mem_map.2 ⟨_, hx, epl⟩
      · simp [selK, hnz j e he]
    · rw [lsum_eq, ← entry_blockOf _ _ _ k t s f4 f5, S.entry_block hpos, entry_unique A S.wf j e he]
      exact hnz j e he

theorem whole_connected (hA : WFC A) (hnz : NoZero A) (g : List Nat) (hG : Grouping A [g])
    (h1 : (rowsIn A g).length = A.nrows) (h2 : g.length = A.ncols) : connectedBlk A = true := by
  have hgnd : g.Nodup := by simpa using hG.nodup
  apply conn_core A [g] hG g (by simp) A id id
  · intro s _ e he
    exact hA.rows s e he
  · intro v hv
    refine ⟨v, ?_, rfl⟩
    unfold rowsIn at h1 ⊢
    have := (List.length_filter_eq_length_iff (l := List.range A.nrows)).1 (by rw [h1]; simp)
    exact List.mem_filter.2 ⟨List.mem_range.2 hv, this v (List.mem_range.2 hv)⟩
  · intro v hv
    refine ⟨v, ?_, rfl⟩
    have hsub : g ⊆ List.range A.ncols := fun j hj => List.mem_range.2 (hG.lt g (by simp) j hj)
    have hperm := (List.subperm_of_subset hgnd hsub).perm_of_length_le (by simp [h2])
    exact hperm.mem_iff.2 (List.mem_range.2 hv)
  · intro j hj e he
    exact ⟨hG.lt g (by simp) j hj, e.2, he, hnz j e he⟩

theorem dirSumDecomp_conn (A : SpMat R) (hA : WFC A) (hnz : NoZero A) :
    ∃ o, dirSumDecomp A = .ok o ∧ ∀ B ∈ o.blocks, connectedBlk B = true := by
  obtain ⟨cols, hgc, hG⟩ := groupCols_grouping A hA
  obtain ⟨p, q, hp, hq, S⟩ := setup_exists A hA cols hG
  unfold dirSumDecomp
  rw [hgc]
  simp only
  split
  · rename_i h
    refine ⟨_, rfl, ?_⟩
    simp only [Bool.and_eq_true, beq_iff_eq] at h
    obtain ⟨⟨⟨_, hc1⟩, hr⟩, hc⟩ := h
    obtain ⟨g, rfl⟩ := List.length_eq_one_iff.1 hc1
    simp only [List.map_cons, List.map_nil, List.headD_cons] at hr hc
    intro B hB
    simp only [List.mem_singleton] at hB
    subst hB
    exact whole_connected hA hnz g hG hr hc
  · rw [hp, hq]
    simp only
    rw [S.decompBy_ok]
    refine ⟨_, rfl, ?_⟩
    intro B hB
    obtain ⟨k, hk⟩ := List.getElem?_of_mem hB
    obtain ⟨g, hkg, rfl⟩ := blocksOf_getElem?_inv k B hk
    exact S.block_connected hnz k g hkg

end conn2
end part11

end Yuiv.C12
