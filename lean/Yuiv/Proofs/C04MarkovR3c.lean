import Yuiv.Proofs.C04MarkovR3b
import Yuiv.Proofs.C04MarkovFar
/-
C04Markov (helper, no property theorem here): the braid relation in braid form, all letters positive:
`closure n (w₁ ++ [i, i+1, i] ++ w₂)` versus `closure n (w₁ ++ [i+1, i, i+1] ++ w₂)`.
-/
open Yuiv.KhRef Yuiv.C04
namespace Yuiv.C04Inv
open Relation
open Yuiv.C18 (closureStep closurePD closure connRename hasFreeLoop CInv PD flatPD fromPD4)
open Yuiv.C18Bridge (toKh crossingKh)

variable {R : Type} [CommRing R]

/-- forward form of one step of the closure loop -/
theorem step_at {c : Nat} {bot : List Nat} {pd : PD} (s : Int) (i u v : Nat) (hs0 : s ≠ 0) (hs : s.natAbs - 1 = i)
    (hu : bot[i]? = some u) (hv : bot[i + 1]? = some v) :
    closureStep (c, bot, pd) s = .ok (c + 2, (bot.set i c).set (i + 1) (c + 1), pd ++ [stepX s u v c]) := by
  have h0 : s.natAbs ≠ 0 := by omega
  unfold closureStep stepX
  simp only [if_neg h0, hs, hu, hv]

/-- the relabelling between the two sides of the braid relation: `c+2 ↦ c+3`, `c+3 ↦ c+5`, `c+4 ↦ c+2`, `c+5 ↦ c+4` -/
def tau (c z : Nat) : Nat :=
  if z = c + 2 then c + 3 else if z = c + 3 then c + 5 else if z = c + 4 then c + 2 else if z = c + 5 then c + 4 else z

theorem tau_inj (c : Nat) : Function.Injective (tau c) := by
  intro u v h
  unfold tau at h
  repeat' split at h
  all_goals omega

theorem tau_lt (c z : Nat) (h : z < c + 2) : tau c z = z := by
  unfold tau
  rw [if_neg (by omega), if_neg (by omega), if_neg (by omega), if_neg (by omega)]

theorem tau_ge (c z : Nat) (h : c + 6 ≤ z) : tau c z = z + 0 := by
  unfold tau
  rw [if_neg (by omega), if_neg (by omega), if_neg (by omega), if_neg (by omega)]; rfl

theorem tau_vals (c : Nat) : tau c (c + 2) = c + 3 ∧ tau c (c + 3) = c + 5 ∧ tau c (c + 4) = c + 2 ∧ tau c (c + 5) = c + 4 := by
  unfold tau
  refine ⟨by simp, ?_, ?_, ?_⟩
  · rw [if_neg (by omega), if_pos rfl]
  · rw [if_neg (by omega), if_neg (by omega), if_pos rfl]
  · rw [if_neg (by omega), if_neg (by omega), if_neg (by omega), if_pos rfl]

/-- `tau c z` is one of the inner labels `c, c+1, c+3` of the right triple only for `z = c, c+1, c+2` -/
theorem tau_inner (c z : Nat) (h : tau c z = c ∨ tau c z = c + 1 ∨ tau c z = c + 3) : z = c ∨ z = c + 1 ∨ z = c + 2 := by
  unfold tau at h
  repeat' split at h
  all_goals omega

theorem rawLinkP_perm3 (A B : PD) (u v w : F4) (ps : List (Nat × Nat)) :
    (rawLinkP (A ++ [u, v, w] ++ B) ps).toList.Perm (pdX u :: pdX v :: pdX w :: (rawLinkP (A ++ B) ps).toList) := by
  simp only [rawLinkP, pdLink, List.map_append, List.map_cons, List.map_nil, List.append_assoc, List.cons_append,
    List.nil_append]
  exact List.perm_middle.trans (List.Perm.cons _ (List.perm_middle.trans (List.Perm.cons _ List.perm_middle)))

theorem foldlM3_ok {α β : Type} (f : β → α → Res β) (a b c : α) (st q1 q2 m : β) (h1 : f st a = .ok q1)
    (h2 : f q1 b = .ok q2) (h3 : f q2 c = .ok m) : [a, b, c].foldlM f st = .ok m := by
  simp only [List.foldlM_cons, List.foldlM_nil, h1, h2, h3, bind, Res.bind, pure]

theorem stepX_pos (s : Int) (hs : s > 0) (u v c : Nat) : stepX s u v c = (u, c, c + 1, v) := by
  unfold stepX; rw [if_pos hs]

/-- the bottom row after the letters `p+1, p+2, p+1` -/
def botL (bot : List Nat) (p c : Nat) : List Nat :=
  (((((bot.set p c).set (p + 1) (c + 1)).set (p + 1) (c + 2)).set (p + 2) (c + 3)).set p (c + 4)).set (p + 1) (c + 5)
/-- the bottom row after the letters `p+2, p+1, p+2` -/
def botR (bot : List Nat) (p c : Nat) : List Nat :=
  (((((bot.set (p + 1) c).set (p + 2) (c + 1)).set p (c + 2)).set (p + 1) (c + 3)).set (p + 1) (c + 4)).set (p + 2) (c + 5)

theorem botR_eq (bot : List Nat) (p c : Nat) (hlt : ∀ z ∈ bot, z < c) : botR bot p c = (botL bot p c).map (tau c) := by
  obtain ⟨v1, v2, v3, v4⟩ := tau_vals c
  unfold botR botL
  apply List.ext_getElem (by simp)
  intro k h1 h2
  have hk : k < bot.length := by simpa using h1
  simp only [List.getElem_set, List.getElem_map]
  by_cases k2 : p + 2 = k
  · subst k2
    rw [if_pos rfl, if_neg (by omega), if_neg (by omega), if_pos rfl, v2]
  · by_cases k1 : p + 1 = k
    · subst k1
      rw [if_neg (by omega), if_pos rfl, if_pos rfl, v4]
    · by_cases k0 : p = k
      · subst k0
        rw [if_neg (by omega), if_neg (by omega), if_neg (by omega), if_pos rfl, if_neg (by omega), if_pos rfl, v3]
      · rw [if_neg k2, if_neg k1, if_neg k1, if_neg k0, if_neg k2, if_neg k1, if_neg k1, if_neg k0, if_neg k2,
          if_neg k1, if_neg k1, if_neg k0, tau_lt c _ (by have := hlt _ (List.getElem_mem hk); omega)]

/-- the three steps of each side, computed forwards -/
theorem triple_steps {c : Nat} {bot : List Nat} {pd1 : PD} (p : Nat) {a0 a1 a2 : Nat}
    (h0 : bot[p]? = some a0) (h1 : bot[p + 1]? = some a1) (h2 : bot[p + 2]? = some a2) :
    [((p + 1 : Nat) : Int), ((p + 2 : Nat) : Int), ((p + 1 : Nat) : Int)].foldlM closureStep (c, bot, pd1)
        = .ok (c + 6, botL bot p c, pd1 ++ [(a0, c, c + 1, a1), (c + 1, c + 2, c + 3, a2), (c, c + 4, c + 5, c + 2)]) ∧
    [((p + 2 : Nat) : Int), ((p + 1 : Nat) : Int), ((p + 2 : Nat) : Int)].foldlM closureStep (c, bot, pd1)
        = .ok (c + 6, botR bot p c, pd1 ++ [(a1, c, c + 1, a2), (a0, c + 2, c + 3, c), (c + 3, c + 4, c + 5, c + 1)]) := by
  have l0 : p < bot.length := by
    rcases Nat.lt_or_ge p bot.length with h | h
    · exact h
    · rw [List.getElem?_eq_none h] at h0; cases h0
  have l1 : p + 1 < bot.length := by
    rcases Nat.lt_or_ge (p + 1) bot.length with h | h
    · exact h
    · rw [List.getElem?_eq_none h] at h1; cases h1
  have l2 : p + 2 < bot.length := by
    rcases Nat.lt_or_ge (p + 2) bot.length with h | h
    · exact h
    · rw [List.getElem?_eq_none h] at h2; cases h2
  have pa : ((p + 1 : Nat) : Int) > 0 := by omega
  have pb : ((p + 2 : Nat) : Int) > 0 := by omega
  have na : ((p + 1 : Nat) : Int).natAbs - 1 = p := by omega
  have nb : ((p + 2 : Nat) : Int).natAbs - 1 = p + 1 := by omega
  constructor
  · have s1 := step_at (c := c) (bot := bot) (pd := pd1) ((p + 1 : Nat) : Int) p a0 a1 (by omega) na h0 h1
    have s2 := step_at (c := c + 2) (bot := (bot.set p c).set (p + 1) (c + 1)) (pd := pd1 ++ [stepX ((p + 1 : Nat) : Int) a0 a1 c])
      ((p + 2 : Nat) : Int) (p + 1) (c + 1) a2 (by omega) nb
      (by rw [List.getElem?_set_self (by simpa using l1)])
      (by rw [List.getElem?_set_ne (by omega), List.getElem?_set_ne (by omega)]; exact h2)
    have s3 := step_at (c := c + 2 + 2)
      (bot := (((bot.set p c).set (p + 1) (c + 1)).set (p + 1) (c + 2)).set (p + 1 + 1) (c + 2 + 1))
      (pd := pd1 ++ [stepX ((p + 1 : Nat) : Int) a0 a1 c] ++ [stepX ((p + 2 : Nat) : Int) (c + 1) a2 (c + 2)])
      ((p + 1 : Nat) : Int) p c (c + 2) (by omega) na
      (by rw [List.getElem?_set_ne (by omega), List.getElem?_set_ne (by omega), List.getElem?_set_ne (by omega),
            List.getElem?_set_self l0])
      (by rw [List.getElem?_set_ne (by omega), List.getElem?_set_self (by simpa using l1)])
    rw [foldlM3_ok _ _ _ _ _ _ _ _ s1 s2 s3, stepX_pos _ pa, stepX_pos _ pb, stepX_pos _ pa]
    simp [botL, List.append_assoc]
  · have s1 := step_at (c := c) (bot := bot) (pd := pd1) ((p + 2 : Nat) : Int) (p + 1) a1 a2 (by omega) nb h1 h2
    have s2 := step_at (c := c + 2) (bot := (bot.set (p + 1) c).set (p + 1 + 1) (c + 1))
      (pd := pd1 ++ [stepX ((p + 2 : Nat) : Int) a1 a2 c])
      ((p + 1 : Nat) : Int) p a0 c (by omega) na
      (by rw [List.getElem?_set_ne (by omega), List.getElem?_set_ne (by omega)]; exact h0)
      (by rw [List.getElem?_set_ne (by omega), List.getElem?_set_self l1])
    have s3 := step_at (c := c + 2 + 2)
      (bot := (((bot.set (p + 1) c).set (p + 1 + 1) (c + 1)).set p (c + 2)).set (p + 1) (c + 2 + 1))
      (pd := pd1 ++ [stepX ((p + 2 : Nat) : Int) a1 a2 c] ++ [stepX ((p + 1 : Nat) : Int) a0 c (c + 2)])
      ((p + 2 : Nat) : Int) (p + 1) (c + 3) (c + 1) (by omega) nb
      (by rw [List.getElem?_set_self (by simpa using l1)])
      (by rw [List.getElem?_set_ne (by omega), List.getElem?_set_ne (by omega),
            List.getElem?_set_self (by simpa using l2)])
    rw [foldlM3_ok _ _ _ _ _ _ _ _ s1 s2 s3, stepX_pos _ pb, stepX_pos _ pa, stepX_pos _ pb]
    simp [botR, List.append_assoc]

/-- if the first two letters `p+1, p+2` can be processed, the three positions `p, p+1, p+2` exist -/
theorem triple_range {c : Nat} {bot : List Nat} {pd1 : PD} (p : Nat) (rest : List Int) (m : Nat × List Nat × PD)
    (h : (((p + 1 : Nat) : Int) :: ((p + 2 : Nat) : Int) :: rest).foldlM closureStep (c, bot, pd1) = .ok m) :
    p + 2 < bot.length := by
  simp only [List.foldlM_cons] at h
  cases hq : closureStep (c, bot, pd1) ((p + 1 : Nat) : Int) with
  | panic => rw [hq] at h; cases h
  | err => rw [hq] at h; cases h
  | ok q =>
    rw [hq] at h
    simp only [bind, Res.bind] at h
    obtain ⟨_, _, _, _, _, _, _, rfl⟩ := step_explicit hq
    cases hq2 : closureStep (c + 2, (bot.set (((p + 1 : Nat) : Int).natAbs - 1) c).set (((p + 1 : Nat) : Int).natAbs - 1 + 1) (c + 1),
        pd1 ++ [stepX ((p + 1 : Nat) : Int) _ _ c]) ((p + 2 : Nat) : Int) with
    | panic => rw [hq2] at h; cases h
    | err => rw [hq2] at h; cases h
    | ok q2 =>
      obtain ⟨_, _, _, _, hb, _⟩ := step_explicit hq2
      have : ((p + 2 : Nat) : Int).natAbs - 1 + 1 = p + 2 := by omega
      rw [this] at hb
      simpa using hb

/-- BRAID RELATION, all letters positive, state-sum level (for `1 + x·y + x² = 0`) -/
theorem r3_pos_stateSum (x y : R) (hxy : 1 + x * y + x ^ 2 = 0) (n p : Nat) (w1 w2 : List Int) (l l' : C18.Link)
    (h : closure n (w1 ++ [((p + 1 : Nat) : Int), ((p + 2 : Nat) : Int), ((p + 1 : Nat) : Int)] ++ w2) = .ok l)
    (h' : closure n (w1 ++ [((p + 2 : Nat) : Int), ((p + 1 : Nat) : Int), ((p + 2 : Nat) : Int)] ++ w2) = .ok l') :
    stateSum x y (toKh l') = stateSum x y (toKh l) := by
  obtain ⟨stO, hfO, _, hsO, _⟩ := closure_stateSum x y n _ l h
  obtain ⟨stN, hfN, _, hsN, _⟩ := closure_stateSum x y n _ l' h'
  rw [List.append_assoc] at hfO hfN
  obtain ⟨st1, hf1, hrO⟩ := (foldlM_append_ok _ _ _ _ _).1 hfO
  obtain ⟨st1', hf1', hrN⟩ := (foldlM_append_ok _ _ _ _ _).1 hfN
  have e1 : st1' = st1 := by rw [hf1] at hf1'; exact (Res.ok.inj hf1').symm
  subst e1
  have hI1 := C18.cinv_foldl n w1 _ st1' (C18.cinv_init n) hf1
  have hIO := C18.cinv_foldl n _ _ stO (C18.cinv_init n) hfO
  obtain ⟨hnd, hlt, hpdlt, _⟩ := cinv_facts hI1
  obtain ⟨c, bot, pd1⟩ := st1'
  simp only at hlt hpdlt
  have hp2 : p + 2 < bot.length := triple_range p _ stO hrO
  obtain ⟨tL, tR⟩ := triple_steps (c := c) (bot := bot) (pd1 := pd1) p
    (List.getElem?_eq_getElem (by omega : p < bot.length)) (List.getElem?_eq_getElem (by omega : p + 1 < bot.length))
    (List.getElem?_eq_getElem hp2)
  obtain ⟨mL, hmL, hf2O⟩ := (foldlM_append_ok _ [_, _, _] w2 _ _).1 hrO
  obtain ⟨mR, hmR, hf2N⟩ := (foldlM_append_ok _ [_, _, _] w2 _ _).1 hrN
  rw [tL] at hmL; rw [tR] at hmR
  cases hmL; cases hmR
  generalize ha0 : bot[p] = a0 at *
  generalize ha1 : bot[p + 1] = a1 at *
  generalize ha2 : bot[p + 2] = a2 at *
  have h0c : a0 < c := hlt _ (ha0 ▸ List.getElem_mem _)
  have h1c : a1 < c := hlt _ (ha1 ▸ List.getElem_mem _)
  have h2c : a2 < c := hlt _ (ha2 ▸ List.getElem_mem _)
  obtain ⟨v1, v2, v3, v4⟩ := tau_vals c
  -- the rest of the word
  obtain ⟨pd2, hpd, hsim⟩ := gsim_fold (tau c) 0 (c + 6) (tau_ge c) w2 _ stO (by simp only; omega) hf2O
  have hN := hsim (pd1 ++ [(a1, c, c + 1, a2), (a0, c + 2, c + 3, c), (c + 3, c + 4, c + 5, c + 1)])
  simp only [Nat.add_zero] at hN
  rw [← botR_eq bot p c hlt] at hN
  rw [hN] at hf2N
  cases hf2N
  obtain ⟨cO, botO, pdO⟩ := stO
  simp only at hpd hsO hsN hIO ⊢
  subst hpd
  -- `c, c+1, c+2` are used up by the three crossings
  have hnc : n ≤ c := hI1.le
  have hused : ∀ z, z = c ∨ z = c + 1 ∨ z = c + 2 → z ∉ flatPD pd2 ∧ z ∉ botO := by
    intro z hz
    have hcnt := hIO.cnt z
    simp only at hcnt
    rw [C18.flatPD_append, C18.flatPD_append, List.count_append, List.count_append,
      if_neg (by omega : ¬ z < n)] at hcnt
    have h3 : 2 ≤ List.count z (flatPD [(a0, c, c + 1, a1), (c + 1, c + 2, c + 3, a2), (c, c + 4, c + 5, c + 2)]) := by
      rcases hz with rfl | rfl | rfl <;> simp [flatPD, List.count_cons] <;> omega
    have : List.count z (flatPD pd2) = 0 ∧ List.count z botO = 0 := by
      split at hcnt <;> omega
    exact ⟨List.count_eq_zero.1 this.1, List.count_eq_zero.1 this.2⟩
  have hlenO : botO.length = n := hIO.len
  have hzip : (botO.zipIdx).map (pmap (tau c)) = (botO.map (tau c)).zipIdx := by
    rw [List.zipIdx_map]
    apply List.map_congr_left
    intro q hq
    have : q.2 < c + 2 := by
      have := (List.mem_zipIdx (x := q.1) (i := q.2) (k := 0) hq).2.1
      omega
    simp only [pmap, Prod.map, id, tau_lt c _ this]
  have hρ : ∀ k, rho9 a0 a1 a2 (c + 2) (c + 4) (c + 5) c (c + 1) (c + 3) k
      = [a0, a1, a2, c + 2, c + 4, c + 5, c, c + 1, c + 3].getD k 0 := fun _ => rfl
  have hl : TripLabels (rho9 a0 a1 a2 (c + 2) (c + 4) (c + 5) c (c + 1) (c + 3))
      (rawLinkP (pd1 ++ pd2.map (map4 (tau c))) (botO.map (tau c)).zipIdx) := by
    constructor
    · intro u hu v hv
      simp only [all9, inn3, List.mem_cons, List.mem_nil_iff, or_false] at hu hv
      rcases hu with rfl | rfl | rfl | rfl | rfl | rfl | rfl | rfl | rfl <;> rcases hv with rfl | rfl | rfl <;>
        simp [rho9] <;> omega
    · intro v hv
      have key : ∀ z, z ∈ labelSet (rawLinkP (pd1 ++ pd2.map (map4 (tau c))) (botO.map (tau c)).zipIdx) →
          z ≠ c ∧ z ≠ c + 1 ∧ z ≠ c + 3 := by
        intro z hz
        rw [mem_labelSet_rawLinkP, C18.flatPD_append, List.mem_append, flatPD_map4] at hz
        rcases hz with (hz | hz) | ⟨q, hq, hz⟩
        · have := hpdlt z hz; omega
        · obtain ⟨z', hz', rfl⟩ := List.mem_map.1 hz
          refine ⟨fun e => ?_, fun e => ?_, fun e => ?_⟩
          · exact (hused z' (tau_inner c z' (Or.inl e))).1 hz'
          · exact (hused z' (tau_inner c z' (Or.inr (Or.inl e)))).1 hz'
          · exact (hused z' (tau_inner c z' (Or.inr (Or.inr e)))).1 hz'
        · rw [List.zipIdx_map, List.mem_map] at hq
          obtain ⟨q', hq', rfl⟩ := hq
          have hq2 : q'.2 < n := by
            have := (List.mem_zipIdx (x := q'.1) (i := q'.2) (k := 0) hq').2.1
            omega
          have hq1 : q'.1 ∈ botO := by
            have := (List.mem_zipIdx (x := q'.1) (i := q'.2) (k := 0) hq').2.2
            rw [this]; exact List.getElem_mem _
          rcases hz with rfl | rfl
          · simp only [Prod.map]
            refine ⟨fun e => ?_, fun e => ?_, fun e => ?_⟩
            · exact (hused _ (tau_inner c _ (Or.inl e))).2 hq1
            · exact (hused _ (tau_inner c _ (Or.inr (Or.inl e)))).2 hq1
            · exact (hused _ (tau_inner c _ (Or.inr (Or.inr e)))).2 hq1
          · simp only [Prod.map, id]; omega
      simp only [inn3, List.mem_cons, List.mem_nil_iff, or_false] at hv
      intro hmem
      have := key _ hmem
      rcases hv with rfl | rfl | rfl <;> simp [rho9] at this
  have hold := stateSum_renumber x y (rawLinkP (pd1 ++ [(a0, c, c + 1, a1), (c + 1, c + 2, c + 3, a2),
    (c, c + 4, c + 5, c + 2)] ++ pd2) botO.zipIdx) (tau_inj c).injOn (WF_rawLinkP _ _)
  rw [hsN, hsO, ← hold, renumber_rawLinkP, hzip]
  have hpdm : (pd1 ++ [(a0, c, c + 1, a1), (c + 1, c + 2, c + 3, a2), (c, c + 4, c + 5, c + 2)] ++ pd2).map (map4 (tau c))
      = pd1 ++ [map4 (rho9 a0 a1 a2 (c + 2) (c + 4) (c + 5) c (c + 1) (c + 3)) (0, 6, 7, 1),
          map4 (rho9 a0 a1 a2 (c + 2) (c + 4) (c + 5) c (c + 1) (c + 3)) (7, 8, 5, 2),
          map4 (rho9 a0 a1 a2 (c + 2) (c + 4) (c + 5) c (c + 1) (c + 3)) (6, 3, 4, 8)] ++ pd2.map (map4 (tau c)) := by
    simp only [List.map_append, List.map_cons, List.map_nil]
    rw [map4_fix _ pd1 (fun z hz => tau_lt c z (by have := hpdlt z hz; omega))]
    simp only [map4, hρ, tau_lt c a0 (by omega), tau_lt c a1 (by omega), tau_lt c a2 (by omega), tau_lt c c (by omega),
      tau_lt c (c + 1) (by omega), v1, v2, v3, v4]
    rfl
  rw [hpdm]
  refine (trip_eq x y hxy (WF_rawLinkP _ _) hl (rawLinkP_perm3 _ _ _ _ _ _) ?_).symm
  exact rawLinkP_perm3 pd1 (pd2.map (map4 (tau c))) _ _ _ _

end Yuiv.C04Inv
