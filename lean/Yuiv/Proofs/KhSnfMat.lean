import Yuiv.Proofs.KhSnfDefs
import Mathlib.LinearAlgebra.Matrix.Permutation
import Mathlib.LinearAlgebra.Matrix.NonsingularInverse
import Mathlib.Data.Fintype.Sum
import Mathlib.Tactic.LinearCombination
/-
KhSnfMat — the matrix-theoretic layer for the verification of the reference's elimination algorithm
(all matrices over ℤ; `Reach A B` : `B = P·A·Q` with unimodular `P`, `Q`; `EquivDiag A d` : `A` reaches the
rectangular diagonal matrix with diagonal `d`).

  * `Reach.refl`, `Reach.trans`, `box_congr`, `equivDiag_of_reach`;
  * `reach_rowOps`, `reach_colOps` : simultaneous row (column) operations with one source row (column);
  * `reach_submatrix` : permuting rows and columns;
  * `equivDiag_of_genDiag` : a generalised diagonal matrix (at most one non-zero entry per row and column) is
    equivalent to the diagonal matrix of its entries;
  * `equivDiag_signs`, `equivDiag_perm` : changing signs of / permuting the diagonal;
  * `equivDiag_gcd_pair` : the Bézout step `diag(x, y) ~ diag(gcd x y, x·y / gcd x y)` on two diagonal entries.
-/
namespace Yuiv.KhSnf
open Matrix Yuiv.C03Uct

theorem Reach.refl {m n} (A : Matrix (Fin m) (Fin n) ℤ) : Reach A A :=
  ⟨1, 1, by simp, by simp, by simp⟩

theorem Reach.trans {m n} {A B C : Matrix (Fin m) (Fin n) ℤ} (h1 : Reach A B) (h2 : Reach B C) :
    Reach A C := by
  obtain ⟨P, Q, hP, hQ, rfl⟩ := h1
  obtain ⟨P', Q', hP', hQ', rfl⟩ := h2
  refine ⟨P' * P, Q * Q', ?_, ?_, ?_⟩
  · rw [det_mul]; exact hP'.mul hP
  · rw [det_mul]; exact hQ.mul hQ'
  · simp only [Matrix.mul_assoc]

theorem box_congr {m n : ℕ} {F G : ℕ → ℕ → ℤ} (h : ∀ i j, i < m → j < n → F i j = G i j) :
    box m n F = box m n G := by
  ext i j
  exact h _ _ i.2 j.2

theorem equivDiag_of_reach {m n} {A B : Matrix (Fin m) (Fin n) ℤ} {d : List ℤ} (h : Reach A B)
    (hB : EquivDiag B d) : EquivDiag A d := by
  obtain ⟨P, Q, hP, hQ, rfl⟩ := h
  obtain ⟨hl, P', Q', hP', hQ', h⟩ := hB
  refine ⟨hl, P' * P, Q * Q', ?_, ?_, ?_⟩
  · rw [det_mul]; exact hP'.mul hP
  · rw [det_mul]; exact hQ.mul hQ'
  · rw [← h]; simp only [Matrix.mul_assoc]

/-- `EquivDiag A d` is `Reach A (rectDiag d)` plus the length bound -/
theorem equivDiag_iff_reach {m n} {A : Matrix (Fin m) (Fin n) ℤ} {d : List ℤ} :
    EquivDiag A d ↔ d.length ≤ min m n ∧ Reach A (rectDiag m n (fun k => d.getD k 0)) := Iff.rfl

/-- the matrix with the single non-zero column `s`, carrying `q` -/
private def colMat (m : ℕ) (s : ℕ) (q : ℕ → ℤ) : Matrix (Fin m) (Fin m) ℤ :=
  fun i k => if k.val = s then q i.val else 0

private theorem colMat_mul {m n : ℕ} (s : ℕ) (hs : s < m) (q : ℕ → ℤ) (A : Matrix (Fin m) (Fin n) ℤ)
    (i : Fin m) (c : Fin n) : (colMat m s q * A) i c = q i.val * A ⟨s, hs⟩ c := by
  rw [Matrix.mul_apply, Finset.sum_eq_single ⟨s, hs⟩]
  · simp [colMat]
  · intro b _ hb
    have : b.val ≠ s := fun h => hb (Fin.ext h)
    simp [colMat, this]
  · simp

private theorem colMat_sq {m : ℕ} (s : ℕ) (hs : s < m) (q q' : ℕ → ℤ) (hq : q' s = 0) :
    colMat m s q * colMat m s q' = 0 := by
  ext i k
  rw [colMat_mul s hs]
  simp [colMat, hq]

private theorem isUnit_det_one_add_colMat {m : ℕ} (s : ℕ) (hs : s < m) (q : ℕ → ℤ) (hq : q s = 0) :
    IsUnit (1 + colMat m s q).det := by
  apply Matrix.isUnit_det_of_right_inverse (B := 1 - colMat m s q)
  rw [Matrix.add_mul, Matrix.mul_sub, Matrix.mul_sub, colMat_sq s hs q q hq]
  simp

/-- simultaneous row operations with one source row `s`: row i += q i * row s -/
theorem reach_rowOps (m n : ℕ) (F : ℕ → ℕ → ℤ) (s : ℕ) (hs : s < m) (q : ℕ → ℤ) (hq : q s = 0) :
    Reach (box m n F) (box m n (fun i c => F i c + q i * F s c)) := by
  refine ⟨1 + colMat m s q, 1, isUnit_det_one_add_colMat s hs q hq, by simp, ?_⟩
  ext i c
  rw [Matrix.mul_one, Matrix.add_mul, Matrix.one_mul, Matrix.add_apply, colMat_mul s hs]
  rfl

/-- simultaneous column operations with one source column `s`: column c += q c * column s -/
theorem reach_colOps (m n : ℕ) (F : ℕ → ℕ → ℤ) (s : ℕ) (hs : s < n) (q : ℕ → ℤ) (hq : q s = 0) :
    Reach (box m n F) (box m n (fun i c => F i c + q c * F i s)) := by
  refine ⟨1, (1 + colMat n s q)ᵀ, by simp, ?_, ?_⟩
  · rw [det_transpose]; exact isUnit_det_one_add_colMat s hs q hq
  · apply Matrix.transpose_injective
    rw [Matrix.one_mul, Matrix.transpose_mul, Matrix.transpose_transpose]
    ext c i
    rw [Matrix.add_mul, Matrix.one_mul, Matrix.add_apply, colMat_mul s hs]
    rfl


/-- permuting rows and columns -/
theorem reach_submatrix {m n} (A : Matrix (Fin m) (Fin n) ℤ) (σ : Equiv.Perm (Fin m))
    (τ : Equiv.Perm (Fin n)) : Reach A (A.submatrix σ τ) := by
  refine ⟨σ.permMatrix ℤ, (τ⁻¹).permMatrix ℤ, ?_, ?_, ?_⟩
  · rw [det_permutation]; exact Units.isUnit _
  · rw [det_permutation]; exact Units.isUnit _
  · rw [PEquiv.toMatrix_toPEquiv_mul, PEquiv.mul_toMatrix_toPEquiv]
    ext i j
    simp [Equiv.Perm.inv_def]

/-- an injective partial enumeration extends to a permutation -/
private theorem exists_perm_extend (m r : ℕ) (p : ℕ → ℕ) (hp : ∀ t, t < r → p t < m)
    (inj : ∀ t t', t < r → t' < r → p t = p t' → t = t') :
    r ≤ m ∧ ∃ σ : Equiv.Perm (Fin m), ∀ (t : ℕ) (_ : t < r) (htm : t < m), (σ ⟨t, htm⟩).val = p t := by
  have hrm : r ≤ m := by
    have := Fintype.card_le_of_injective (fun t : Fin r => (⟨p t.val, hp _ t.2⟩ : Fin m))
      (fun a b hab => Fin.ext (inj _ _ a.2 b.2 (Fin.mk.inj_iff.mp hab)))
    simpa using this
  refine ⟨hrm, ?_⟩
  let f : Fin m → Fin m := fun x => if h : x.val < r then ⟨p x.val, hp _ h⟩ else x
  obtain ⟨g, hg⟩ := Finset.exists_equiv_extend_of_card_eq (α := Fin m) (β := Fin m)
    (t := Finset.univ) (s := Finset.univ.filter (fun x => x.val < r)) (f := f)
    Finset.card_univ.symm (Finset.subset_univ _) (by
      intro a ha b hb hab
      have ha' : a.val < r := by simpa using ha
      have hb' : b.val < r := by simpa using hb
      simp only [f, dif_pos ha', dif_pos hb'] at hab
      exact Fin.ext (inj _ _ ha' hb' (Fin.mk.inj_iff.mp hab)))
  refine ⟨g.trans (Equiv.subtypeUnivEquiv (fun x => Finset.mem_univ x)), ?_⟩
  intro t ht htm
  have := hg ⟨t, htm⟩ (by simpa using ht)
  simp only [Equiv.trans_apply, Equiv.subtypeUnivEquiv_apply, this, f, dif_pos ht]

private theorem getD_ge (l : List ℤ) (k : ℕ) (h : l.length ≤ k) : l.getD k 0 = 0 := by simp [h]
private theorem getD_lt (l : List ℤ) (k : ℕ) (h : k < l.length) : l.getD k 0 = l[k] := by simp [h]

private theorem getD_map_range (r : ℕ) (e : ℕ → ℤ) (k : ℕ) :
    ((List.range r).map e).getD k 0 = if k < r then e k else 0 := by
  split
  · rename_i h
    rw [getD_lt _ _ (by simpa using h)]
    simp
  · rename_i h
    rw [getD_ge _ _ (by simpa using h)]

/-- a GENERALISED DIAGONAL matrix: its non-zero entries are `e t` at the positions `(pr t, pc t)`, `t < r`, no two
in one row or column -/
theorem equivDiag_of_genDiag (m n : ℕ) (F : ℕ → ℕ → ℤ) (r : ℕ) (pr pc : ℕ → ℕ) (e : ℕ → ℤ)
    (hpr : ∀ t, t < r → pr t < m) (hpc : ∀ t, t < r → pc t < n)
    (injr : ∀ t t', t < r → t' < r → pr t = pr t' → t = t')
    (injc : ∀ t t', t < r → t' < r → pc t = pc t' → t = t')
    (hval : ∀ t, t < r → F (pr t) (pc t) = e t)
    (hzero : ∀ i j, i < m → j < n → (¬ ∃ t, t < r ∧ pr t = i ∧ pc t = j) → F i j = 0) :
    EquivDiag (box m n F) ((List.range r).map e) := by
  obtain ⟨hrm, σ, hσ⟩ := exists_perm_extend m r pr hpr injr
  obtain ⟨hrn, τ, hτ⟩ := exists_perm_extend n r pc hpc injc
  refine equivDiag_of_reach (reach_submatrix _ σ τ) ?_
  have key : (box m n F).submatrix σ τ
      = rectDiag m n (fun k => ((List.range r).map e).getD k 0) := by
    ext i j
    simp only [submatrix_apply, box, rectDiag_apply, getD_map_range]
    have hσi : ∀ t, t < r → pr t = (σ i).val → t = i.val := by
      intro t ht h
      have h1 : σ ⟨t, lt_of_lt_of_le ht hrm⟩ = σ i := Fin.ext ((hσ t ht _).trans h)
      exact congrArg Fin.val (σ.injective h1)
    have hτj : ∀ t, t < r → pc t = (τ j).val → t = j.val := by
      intro t ht h
      have h1 : τ ⟨t, lt_of_lt_of_le ht hrn⟩ = τ j := Fin.ext ((hτ t ht _).trans h)
      exact congrArg Fin.val (τ.injective h1)
    by_cases hij : i.val = j.val
    · rw [if_pos hij]
      by_cases hir : i.val < r
      · have h1 : (σ i).val = pr i.val := hσ i.val hir i.2
        have h2 : (τ j).val = pc i.val := by
          have := hτ j.val (hij ▸ hir) j.2
          rw [hij]; exact this
        rw [if_pos hir, h1, h2, hval _ hir]
      · rw [if_neg hir]
        refine hzero _ _ (σ i).2 (τ j).2 ?_
        rintro ⟨t, ht, h1, h2⟩
        exact hir (hσi t ht h1 ▸ ht)
    · rw [if_neg hij]
      refine hzero _ _ (σ i).2 (τ j).2 ?_
      rintro ⟨t, ht, h1, h2⟩
      exact hij ((hσi t ht h1).symm.trans (hτj t ht h2))
  rw [key]
  exact EquivDiag.rectDiag m n _ (by simp; omega)

/-- changing signs of diagonal entries -/
theorem equivDiag_signs {m n} {A : Matrix (Fin m) (Fin n) ℤ} {d d' : List ℤ} (h : EquivDiag A d)
    (hl : d'.length = d.length)
    (hs : ∀ k, k < d.length → d'.getD k 0 = d.getD k 0 ∨ d'.getD k 0 = - d.getD k 0) :
    EquivDiag A d' := by
  obtain ⟨hlen, P, Q, hP, hQ, hD⟩ := h
  let s : Fin m → ℤ := fun k => if d'.getD k.val 0 = d.getD k.val 0 then 1 else -1
  have hss : ∀ k, s k * s k = 1 := by
    intro k; simp only [s]; split <;> simp
  have hsd : ∀ k : Fin m, d'.getD k.val 0 = s k * d.getD k.val 0 := by
    intro k
    simp only [s]
    split
    · rename_i h; rw [h, one_mul]
    · rename_i h
      by_cases hk : k.val < d.length
      · rcases hs _ hk with h' | h'
        · exact absurd h' h
        · rw [h']; ring
      · exact absurd (by rw [getD_ge _ _ (by omega), getD_ge _ _ (by omega)]) h
  refine ⟨hl ▸ hlen, diagonal s * P, Q, ?_, hQ, ?_⟩
  · rw [det_mul]
    refine IsUnit.mul ?_ hP
    apply Matrix.isUnit_det_of_right_inverse (B := diagonal s)
    rw [diagonal_mul_diagonal]
    simp only [hss, diagonal_one]
  · rw [Matrix.mul_assoc, Matrix.mul_assoc, ← Matrix.mul_assoc P, hD]
    ext i j
    rw [diagonal_mul]
    simp only [rectDiag_apply]
    split
    · exact (hsd i).symm
    · simp


/-- a permutation of a list is a re-enumeration of its positions -/
private theorem perm_positions {d d' : List ℤ} (hp : d.Perm d') :
    ∃ π : ℕ → ℕ, (∀ t, t < d.length → π t < d.length) ∧
      (∀ t t', t < d.length → t' < d.length → π t = π t' → t = t') ∧
      ∀ t, t < d.length → d'.getD t 0 = d.getD (π t) 0 := by
  induction hp with
  | nil => exact ⟨id, by simp⟩
  | cons x _ ih =>
    obtain ⟨π, h1, h2, h3⟩ := ih
    refine ⟨fun t => match t with | 0 => 0 | t + 1 => π t + 1, ?_, ?_, ?_⟩
    · intro t ht
      cases t with
      | zero => simp
      | succ t => simpa using h1 t (by simpa using ht)
    · intro t t' ht ht' h
      cases t <;> cases t' <;> simp at h ht ht' ⊢
      exact h2 _ _ ht ht' h
    · intro t ht
      cases t with
      | zero => simp
      | succ t => simpa using h3 t (by simpa using ht)
  | swap x y l =>
    refine ⟨fun t => if t = 0 then 1 else if t = 1 then 0 else t, ?_, ?_, ?_⟩
    · intro t ht
      simp only [List.length_cons] at ht ⊢
      split_ifs <;> omega
    · intro t t' _ _ h
      simp only at h
      split_ifs at h <;> omega
    · intro t ht
      match t with
      | 0 => simp
      | 1 => simp
      | t + 2 => simp
  | trans p1 p2 ih1 ih2 =>
    obtain ⟨π, h1, h2, h3⟩ := ih1
    obtain ⟨ρ, k1, k2, k3⟩ := ih2
    have hl := p1.length_eq
    refine ⟨fun t => π (ρ t), ?_, ?_, ?_⟩
    · intro t ht
      exact h1 _ (hl ▸ k1 t (hl ▸ ht))
    · intro t t' ht ht' h
      exact k2 _ _ (hl ▸ ht) (hl ▸ ht') (h2 _ _ (hl ▸ k1 t (hl ▸ ht)) (hl ▸ k1 t' (hl ▸ ht')) h)
    · intro t ht
      rw [k3 t (hl ▸ ht), h3 _ (hl ▸ k1 t (hl ▸ ht))]

private theorem map_range_getD (d : List ℤ) : (List.range d.length).map (fun t => d.getD t 0) = d := by
  apply List.ext_getElem (by simp)
  intro i h1 h2
  simp only [List.getElem_map, List.getElem_range]
  exact getD_lt _ _ h2

/-- permuting the diagonal -/
theorem equivDiag_perm {m n} {A : Matrix (Fin m) (Fin n) ℤ} {d d' : List ℤ} (h : EquivDiag A d)
    (hp : d.Perm d') : EquivDiag A d' := by
  obtain ⟨hlen, hreach⟩ := h
  refine equivDiag_of_reach hreach ?_
  obtain ⟨π, h1, h2, h3⟩ := perm_positions hp
  have hsurj : ∀ i, i < d.length → ∃ t, t < d.length ∧ π t = i := by
    intro i hi
    have hinj : Function.Injective (fun t : Fin d.length => (⟨π t.val, h1 _ t.2⟩ : Fin d.length)) :=
      fun a b hab => Fin.ext (h2 _ _ a.2 b.2 (Fin.mk.inj_iff.mp hab))
    obtain ⟨t, ht⟩ := (Finite.injective_iff_surjective.mp hinj) ⟨i, hi⟩
    exact ⟨t.val, t.2, Fin.mk.inj_iff.mp ht⟩
  have key := equivDiag_of_genDiag m n (fun i j => if i = j then d.getD i 0 else 0) d.length π π
    (fun t => d'.getD t 0) (fun t ht => by have := h1 t ht; omega) (fun t ht => by have := h1 t ht; omega)
    h2 h2 (fun t ht => by simpa using (h3 t ht).symm) (by
      intro i j _ _ hne
      by_cases hij : i = j
      · subst hij
        rw [if_pos rfl]
        by_cases hi : i < d.length
        · obtain ⟨t, ht, rfl⟩ := hsurj i hi
          exact absurd ⟨t, ht, rfl, rfl⟩ hne
        · exact getD_ge _ _ (by omega)
      · rw [if_neg hij])
  rw [hp.length_eq, map_range_getD] at key
  exact key


set_option linter.unusedSimpArgs false

/-- the identity matrix with the `2 × 2` block `[[a, b], [c, d]]` put on the rows/columns `i`, `j` -/
private def emb2 (m : ℕ) (i j : ℕ) (a b c d : ℤ) : Matrix (Fin m) (Fin m) ℤ := fun k l =>
  if k.val = i then (if l.val = i then a else if l.val = j then b else 0)
  else if k.val = j then (if l.val = i then c else if l.val = j then d else 0)
  else if k = l then 1 else 0

private theorem emb2_mul_apply {m n : ℕ} (i j : ℕ) (hi : i < m) (hj : j < m) (hij : i ≠ j) (a b c d : ℤ)
    (M : Matrix (Fin m) (Fin n) ℤ) (k : Fin m) (l : Fin n) :
    (emb2 m i j a b c d * M) k l =
      if k.val = i then a * M ⟨i, hi⟩ l + b * M ⟨j, hj⟩ l
      else if k.val = j then c * M ⟨i, hi⟩ l + d * M ⟨j, hj⟩ l else M k l := by
  rw [Matrix.mul_apply]
  have hne : (⟨i, hi⟩ : Fin m) ≠ ⟨j, hj⟩ := fun h => hij (Fin.mk.inj_iff.mp h)
  by_cases hki : k.val = i
  · rw [if_pos hki, Fintype.sum_eq_add _ _ hne]
    · simp [emb2, hki, hij.symm]
    · rintro x ⟨hx1, hx2⟩
      have h1 : x.val ≠ i := fun h => hx1 (Fin.ext h)
      have h2 : x.val ≠ j := fun h => hx2 (Fin.ext h)
      simp [emb2, hki, h1, h2]
  · rw [if_neg hki]
    by_cases hkj : k.val = j
    · rw [if_pos hkj, Fintype.sum_eq_add _ _ hne]
      · simp [emb2, hki, hkj, hij.symm]
      · rintro x ⟨hx1, hx2⟩
        have h1 : x.val ≠ i := fun h => hx1 (Fin.ext h)
        have h2 : x.val ≠ j := fun h => hx2 (Fin.ext h)
        simp [emb2, hki, hkj, h1, h2]
    · rw [if_neg hkj, Finset.sum_eq_single k]
      · simp [emb2, hki, hkj]
      · intro x _ hx
        simp [emb2, hki, hkj, hx.symm]
      · simp

private theorem mul_emb2_apply {m n : ℕ} (i j : ℕ) (hi : i < n) (hj : j < n) (hij : i ≠ j) (a b c d : ℤ)
    (M : Matrix (Fin m) (Fin n) ℤ) (k : Fin m) (l : Fin n) :
    (M * emb2 n i j a b c d) k l =
      if l.val = i then M k ⟨i, hi⟩ * a + M k ⟨j, hj⟩ * c
      else if l.val = j then M k ⟨i, hi⟩ * b + M k ⟨j, hj⟩ * d else M k l := by
  rw [Matrix.mul_apply]
  have hne : (⟨i, hi⟩ : Fin n) ≠ ⟨j, hj⟩ := fun h => hij (Fin.mk.inj_iff.mp h)
  by_cases hli : l.val = i
  · rw [if_pos hli, Fintype.sum_eq_add _ _ hne]
    · simp [emb2, hli, hij.symm]
    · rintro x ⟨hx1, hx2⟩
      have h1 : x.val ≠ i := fun h => hx1 (Fin.ext h)
      have h2 : x.val ≠ j := fun h => hx2 (Fin.ext h)
      have h3 : x ≠ l := fun h => h1 (h ▸ hli)
      simp [emb2, h1, h2, h3]
  · rw [if_neg hli]
    by_cases hlj : l.val = j
    · rw [if_pos hlj, Fintype.sum_eq_add _ _ hne]
      · simp [emb2, hli, hlj, hij.symm]
      · rintro x ⟨hx1, hx2⟩
        have h1 : x.val ≠ i := fun h => hx1 (Fin.ext h)
        have h2 : x.val ≠ j := fun h => hx2 (Fin.ext h)
        have h3 : x ≠ l := fun h => h2 (h ▸ hlj)
        simp [emb2, h1, h2, h3]
    · rw [if_neg hlj, Finset.sum_eq_single l]
      · simp [emb2, hli, hlj]
      · intro x _ hx
        simp [emb2, hli, hlj, hx]
      · simp

private theorem emb2_mul_emb2 {m : ℕ} (i j : ℕ) (hi : i < m) (hj : j < m) (hij : i ≠ j)
    (a b c d a' b' c' d' : ℤ) (h11 : a * a' + b * c' = 1) (h12 : a * b' + b * d' = 0)
    (h21 : c * a' + d * c' = 0) (h22 : c * b' + d * d' = 1) :
    emb2 m i j a b c d * emb2 m i j a' b' c' d' = 1 := by
  ext k l
  rw [emb2_mul_apply i j hi hj hij, Matrix.one_apply]
  by_cases hki : k.val = i
  · by_cases hli : l.val = i
    · have : k = l := Fin.ext (hki.trans hli.symm)
      simp [emb2, hki, hli, hij, hij.symm, this, h11]
    · have hkl : k ≠ l := fun h => hli (h ▸ hki)
      by_cases hlj : l.val = j
      · simp [emb2, hki, hli, hlj, hij, hij.symm, hkl, h12]
      · simp [emb2, hki, hli, hlj, hij, hij.symm, hkl]
  · by_cases hkj : k.val = j
    · by_cases hli : l.val = i
      · have hkl : k ≠ l := fun h => hki (h ▸ hli)
        simp [emb2, hki, hkj, hli, hij, hij.symm, hkl, h21]
      · by_cases hlj : l.val = j
        · have : k = l := Fin.ext (hkj.trans hlj.symm)
          simp [emb2, hkj, hlj, hij, hij.symm, this, h22]
        · have hkl : k ≠ l := fun h => hlj (h ▸ hkj)
          simp [emb2, hki, hkj, hli, hlj, hij, hij.symm, hkl]
    · simp [emb2, hki, hkj]


/-- the Bézout step on a diagonal matrix -/
private theorem gcd_core (m n i j : ℕ) (hij : i < j) (hjm : j < m) (hjn : j < n) (δ : ℕ → ℤ)
    (u v x' y' g : ℤ) (hx : δ i = x' * g) (hy : δ j = y' * g) (hb : u * x' + v * y' = 1) :
    emb2 m i j u v (-y') x' * rectDiag m n δ * emb2 n i j 1 (-(v * y')) 1 (u * x') =
      rectDiag m n (fun k => if k = j then x' * y' * g else if k = i then g else δ k) := by
  have hne : i ≠ j := by omega
  ext k l
  rw [mul_emb2_apply i j (by omega) hjn hne, emb2_mul_apply i j (by omega) hjm hne,
    emb2_mul_apply i j (by omega) hjm hne, emb2_mul_apply i j (by omega) hjm hne]
  simp only [rectDiag_apply]
  by_cases hki : k.val = i
  · by_cases hli : l.val = i
    · simp [hki, hli, hne, hne.symm, hx, hy]
      linear_combination g * hb
    · by_cases hlj : l.val = j
      · simp [hki, hli, hlj, hne, hne.symm, hx, hy]
        ring
      · simp [hki, hli, hlj, hne, hne.symm, Ne.symm hli, Ne.symm hlj]
  · by_cases hkj : k.val = j
    · by_cases hli : l.val = i
      · simp [hki, hkj, hli, hne, hne.symm, hx, hy]
        ring
      · by_cases hlj : l.val = j
        · simp [hki, hkj, hli, hlj, hne, hne.symm, hx, hy]
          linear_combination (x' * y' * g) * hb
        · simp [hki, hkj, hli, hlj, hne, hne.symm, Ne.symm hli, Ne.symm hlj]
    · by_cases hli : l.val = i
      · simp [hki, hkj, hli, hne, hne.symm]
      · by_cases hlj : l.val = j
        · simp [hki, hkj, hli, hlj, hne, hne.symm]
        · simp [hki, hkj, hli, hlj, hne, hne.symm]


private theorem gcd_arith (x y : ℤ) (hg : Int.gcd x y ≠ 0) : ∃ u v x' y' : ℤ,
    x = x' * (Int.gcd x y : ℤ) ∧ y = y' * (Int.gcd x y : ℤ) ∧ u * x' + v * y' = 1 ∧
    x * y / (Int.gcd x y : ℤ) = x' * y' * (Int.gcd x y : ℤ) := by
  have hbez := Int.gcd_eq_gcd_ab x y
  have hgx : (Int.gcd x y : ℤ) ∣ x := Int.gcd_dvd_left ..
  have hgy : (Int.gcd x y : ℤ) ∣ y := Int.gcd_dvd_right ..
  have hg0 : (Int.gcd x y : ℤ) ≠ 0 := by exact_mod_cast hg
  generalize (Int.gcd x y : ℤ) = g at *
  have hx : x = x / g * g := (Int.ediv_mul_cancel hgx).symm
  have hy : y = y / g * g := (Int.ediv_mul_cancel hgy).symm
  refine ⟨Int.gcdA x y, Int.gcdB x y, x / g, y / g, hx, hy, ?_, ?_⟩
  · apply mul_right_cancel₀ hg0
    linear_combination (-Int.gcdA x y) * hx + (-Int.gcdB x y) * hy - hbez
  · apply Int.ediv_eq_of_eq_mul_left hg0
    linear_combination y * hx + (x / g * g) * hy

private theorem getD_set_set (d : List ℤ) (i j : ℕ) (hij : i < j) (hj : j < d.length) (a b : ℤ) (k : ℕ) :
    ((d.set i a).set j b).getD k 0 = if k = j then b else if k = i then a else d.getD k 0 := by
  have hi : i < d.length := by omega
  by_cases hkj : k = j
  · subst hkj
    simp [List.getElem?_set, hj]
  · rw [if_neg hkj]
    by_cases hki : k = i
    · subst hki
      simp [List.getElem?_set, hi, Ne.symm hkj]
    · simp [List.getElem?_set, Ne.symm hkj, Ne.symm hki, hki]

/-- the gcd/lcm step on two diagonal entries (Bézout): `diag(x, y) ~ diag(gcd x y, x*y / gcd x y)` -/
theorem equivDiag_gcd_pair {m n} {A : Matrix (Fin m) (Fin n) ℤ} {d : List ℤ} (h : EquivDiag A d)
    (i j : ℕ) (hij : i < j) (hj : j < d.length)
    (hg : Int.gcd (d.getD i 0) (d.getD j 0) ≠ 0) :
    EquivDiag A ((d.set i (Int.gcd (d.getD i 0) (d.getD j 0) : ℤ)).set j
      (d.getD i 0 * d.getD j 0 / (Int.gcd (d.getD i 0) (d.getD j 0) : ℤ))) := by
  obtain ⟨hlen, hreach⟩ := h
  refine equivDiag_of_reach hreach ?_
  obtain ⟨u, v, x', y', hx, hy, hb, hz⟩ := gcd_arith _ _ hg
  have hne : i ≠ j := by omega
  have core := gcd_core m n i j hij (by omega) (by omega) (fun k => d.getD k 0) u v x' y' _ hx hy hb
  refine ⟨by simpa using hlen, emb2 m i j u v (-y') x', emb2 n i j 1 (-(v * y')) 1 (u * x'), ?_, ?_, ?_⟩
  · exact Matrix.isUnit_det_of_right_inverse
      (emb2_mul_emb2 i j (by omega) (by omega) hne u v (-y') x' x' (-v) y' u hb (by ring) (by ring)
        (by linear_combination hb))
  · exact Matrix.isUnit_det_of_right_inverse
      (emb2_mul_emb2 i j (by omega) (by omega) hne 1 (-(v * y')) 1 (u * x') (u * x') (v * y') (-1) 1
        (by linear_combination hb) (by ring) (by ring) (by linear_combination hb))
  · rw [core]
    congr 1
    ext k
    rw [getD_set_set d i j hij hj, hz]

end Yuiv.KhSnf
