import Yuiv.Proofs.C12

namespace Yuiv.C12
open Yuiv
set_option linter.unusedSectionVars false
set_option linter.unusedSimpArgs false

section
variable {R : Type} [CommRing R] [Scal R] [LawfulScal R]
open LawfulScal
variable {upper : Bool} {A : SpMat R} {n : Nat} {u v : Nat → R}

/-! ### `solve_triangular_vec`, `inv_triangular` -/

theorem solveVec_correct (hA : UnitTriang upper A n u v) (vec : List (Nat × R))
    (hrows : ∀ e ∈ vec, e.1 < n) (hnd : (vec.map (·.1)).Nodup) :
    ∃ es, solveVec upper A n vec = .ok es ∧ (∀ e ∈ es, e.1 < n) ∧ ∀ i, axAt A n es i = colSum vec i := by
  have hb : (toDense n vec).size = n := by simp [toDense, size_copyInto, zeroBuf]
  obtain ⟨es, h1, h2, h3⟩ := solveBuf_spec hA (toDense n vec) hb
  refine ⟨es, ?_, h2, fun i => ?_⟩
  · unfold solveVec
    rw [hA.nrows, hA.isTriang, h1]; simp
  · rw [h3 i]
    unfold toDense
    rw [bget_copyInto _ _ (fun e he => by simp only [zeroBuf, Array.size_replicate]; exact hrows e (List.mem_of_mem_filter he))
      (hnd.sublist ((List.filter_sublist).map _)), colSum_filter_nz]
    split
    · rfl
    · rename_i h
      rw [bget_zeroBuf, ← colSum_filter_nz, colSum_not_mem _ _ h]

theorem col_idMat (n j : Nat) (hj : j < n) : col (idMat n : SpMat R) j = [(j, one)] := by
  simp [col, idMat, hj]

theorem col_idMat_ge (n j : Nat) (hj : ¬ j < n) : col (idMat n : SpMat R) j = [] := by
  simp [col, idMat, hj]

theorem wfy_idMat (n : Nat) : WFY (idMat n : SpMat R) n := by
  refine ⟨rfl, by simp [idMat], fun j e he => ?_, fun j => ?_⟩
  · by_cases hj : j < n
    · rw [col_idMat n j hj] at he; simp at he; subst he; exact hj
    · rw [col_idMat_ge n j hj] at he; simp at he
  · by_cases hj : j < n
    · rw [col_idMat n j hj]; simp
    · rw [col_idMat_ge n j hj]; simp

theorem toMatrix_idMat (n : Nat) : toMatrix (idMat n : SpMat R) n n = 1 := by
  ext i j
  simp only [toMatrix, entry]
  rw [col_idMat n j j.2, colSum_cons, colSum_nil, Matrix.one_apply]
  by_cases h : i = j
  · subst h; simp [one_eq]
  · have : ¬ (j : Nat) = (i : Nat) := fun hh => h (Fin.ext hh.symm)
    simp [h, this]

/-- `inv_triangular` returns a right inverse -/
theorem invTriangular_correct (hA : UnitTriang upper A n u v) :
    ∃ Z, invTriangular upper A = .ok Z ∧ Z.nrows = n ∧ Z.ncols = n ∧ toMatrix A n n * toMatrix Z n n = 1 := by
  obtain ⟨Z, h1, h2, h3, _, h5⟩ := solve_correct hA (wfy_idMat n)
  refine ⟨Z, by unfold invTriangular; rw [hA.nrows]; exact h1, h2, h3, ?_⟩
  have : (idMat n : SpMat R).ncols = n := rfl
  rw [this] at h5
  rw [h5, toMatrix_idMat]

/-! ### transposition and `solve_triangular_left` -/

/-- entries of column `j` whose row is `i`, re-tagged with `j` -/
def tag (i j : Nat) (c : List (Nat × R)) : List (Nat × R) :=
  c.filterMap fun e => if e.1 == i then some (j, e.2) else none

def tcol (A : SpMat R) (i : Nat) : List (Nat × R) := (List.range A.ncols).flatMap fun j => tag i j (col A j)

theorem col_transpose (A : SpMat R) (i : Nat) (hi : i < A.nrows) : col (transpose A) i = tcol A i := by
  simp [col, transpose, hi, tcol, tag]

theorem col_transpose_ge (A : SpMat R) (i : Nat) (hi : ¬ i < A.nrows) : col (transpose A) i = [] := by
  simp [col, transpose, hi]

theorem tag_eq (i j : Nat) (c : List (Nat × R)) : tag i j c = (c.filter fun e => e.1 == i).map fun e => (j, e.2) := by
  unfold tag
  induction c with
  | nil => rfl
  | cons e c ih => by_cases h : e.1 = i <;> simp_all [List.filterMap_cons, List.filter_cons]

theorem mem_tag {i j : Nat} {c : List (Nat × R)} {e : Nat × R} (h : e ∈ tag i j c) : e.1 = j ∧ (i, e.2) ∈ c := by
  rw [tag_eq] at h
  obtain ⟨e', he', rfl⟩ := List.mem_map.1 h
  have := List.mem_filter.1 he'
  have h1 : e'.1 = i := by simpa using this.2
  exact ⟨rfl, by rw [← h1]; exact this.1⟩

theorem colSum_tag (i j k : Nat) (c : List (Nat × R)) : colSum (tag i j c) k = if j = k then colSum c i else 0 := by
  rw [tag_eq]
  induction c with
  | nil => simp [colSum_nil]
  | cons e c ih =>
    by_cases h : e.1 = i
    · have : (e.1 == i) = true := by simpa using h
      rw [List.filter_cons_of_pos (p := fun e : Nat × R => e.1 == i) this, List.map_cons, colSum_cons, ih, colSum_cons]
      by_cases hjk : j = k <;> simp [hjk, h]
    · have : ¬ (e.1 == i) = true := by simpa using h
      rw [List.filter_cons_of_neg (p := fun e : Nat × R => e.1 == i) this, ih, colSum_cons]
      simp [h]

theorem colSum_flatMap {β : Type} (l : List β) (f : β → List (Nat × R)) (k : Nat) :
    colSum (l.flatMap f) k = (l.map fun x => colSum (f x) k).sum := by
  induction l with
  | nil => simp [colSum_nil]
  | cons x l ih => rw [List.flatMap_cons, colSum_append, ih]; simp

theorem sum_range_ite (f : Nat → R) (n k : Nat) :
    ((List.range n).map fun j => if j = k then f j else 0).sum = if k < n then f k else 0 := by
  induction n with
  | zero => simp
  | succ n ih =>
    rw [List.range_succ, List.map_append, List.sum_append, ih]
    by_cases h1 : k < n
    · have : n ≠ k := by omega
      simp [h1, this, Nat.lt_succ_of_lt h1]
    · by_cases h2 : n = k
      · subst h2; simp
      · have : ¬ k < n + 1 := by omega
        simp [h1, h2, this]

theorem entry_transpose (A : SpMat R) (k i : Nat) (hi : i < A.nrows) :
    entry (transpose A) k i = if k < A.ncols then entry A i k else 0 := by
  unfold entry
  rw [col_transpose A i hi, tcol, colSum_flatMap]
  simp only [colSum_tag]
  exact sum_range_ite (fun j => colSum (col A j) i) A.ncols k

theorem filter_tag (i j k : Nat) (c : List (Nat × R)) :
    (tag i j c).filter (fun e => e.1 == k) = if j = k then tag i j c else [] := by
  by_cases h : j = k
  · rw [if_pos h, List.filter_eq_self]
    intro e he; simpa [h] using (mem_tag he).1
  · rw [if_neg h, List.filter_eq_nil_iff]
    intro e he; rw [(mem_tag he).1]; simpa using h

theorem flatMap_ite_range (l : List (Nat × R)) (n k : Nat) :
    ((List.range n).flatMap fun j => if j = k then l else []) = if k < n then l else [] := by
  induction n with
  | zero => simp
  | succ n ih =>
    rw [List.range_succ, List.flatMap_append, ih]
    by_cases h1 : k < n
    · have : n ≠ k := by omega
      simp [h1, this, Nat.lt_succ_of_lt h1]
    · by_cases h2 : n = k
      · subst h2; simp
      · have : ¬ k < n + 1 := by omega
        simp [h1, h2, this]

theorem UnitTriang.transpose (hA : UnitTriang upper A n u v) : UnitTriang (!upper) (transpose A) n u v := by
  have hnr : (C12.transpose A).nrows = n := hA.ncols
  have hnc : (C12.transpose A).ncols = n := hA.nrows
  refine ⟨⟨by simp [C12.transpose], fun i e he => ?_⟩, hnr, hnc, fun i hi e he hz => ?_, fun i hi => ?_, hA.unit⟩
  · by_cases hi : i < A.nrows
    · rw [col_transpose A i hi, tcol] at he
      obtain ⟨j, hj, hej⟩ := List.mem_flatMap.1 he
      rw [hnr, (mem_tag hej).1, ← hA.ncols]; exact List.mem_range.1 hj
    · rw [col_transpose_ge A i hi] at he; simp at he
  · rw [col_transpose A i (by rw [hA.nrows]; exact hi), tcol] at he
    obtain ⟨j, hj, hej⟩ := List.mem_flatMap.1 he
    have hjn : j < n := by rw [← hA.ncols]; exact List.mem_range.1 hj
    obtain ⟨h1, h2⟩ := mem_tag hej
    have := hA.tri j hjn (i, e.2) h2 hz
    rw [h1]
    cases upper <;> simpa using this
  · rw [col_transpose A i (by rw [hA.nrows]; exact hi), tcol, List.filter_flatMap]
    simp only [filter_tag]
    have : ∀ j, (if j = i then tag i j (col A j) else []) = if j = i then [(i, u i)] else [] := by
      intro j
      by_cases h : j = i
      · subst h; simp [tag_eq, hA.diag j hi]
      · simp [h]
    simp only [this]
    rw [flatMap_ite_range, hA.ncols, if_pos hi]

/-- CSC well-formedness of a right-hand side of the LEFT solve (`k × n`) -/
structure WFYL (Y : SpMat R) (n : Nat) : Prop where
  ncols : Y.ncols = n
  rows : ∀ j, ∀ e ∈ col Y j, e.1 < Y.nrows
  nodup : ∀ j, ((col Y j).map (·.1)).Nodup

theorem length_filter_le_one (c : List (Nat × R)) (i : Nat) (h : (c.map (·.1)).Nodup) :
    (c.filter fun e => e.1 == i).length ≤ 1 := by
  induction c with
  | nil => simp
  | cons e c ih =>
    rw [List.map_cons, List.nodup_cons] at h
    by_cases he : e.1 = i
    · have h0 : c.filter (fun e => e.1 == i) = [] := by
        rw [List.filter_eq_nil_iff]
        intro e' he' hh
        have : e'.1 = i := by simpa using hh
        exact h.1 (List.mem_map.2 ⟨e', he', by rw [this, he]⟩)
      have : (e.1 == i) = true := by simpa using he
      rw [List.filter_cons_of_pos (p := fun e : Nat × R => e.1 == i) this, h0]; simp
    · have : ¬ (e.1 == i) = true := by simpa using he
      rw [List.filter_cons_of_neg (p := fun e : Nat × R => e.1 == i) this]; exact ih h.2

theorem nodup_tags (f : Nat → List (Nat × R)) (hf : ∀ j, ∀ e ∈ f j, e.1 = j) (hl : ∀ j, (f j).length ≤ 1)
    (l : List Nat) (hnd : l.Nodup) : ((l.flatMap f).map (·.1)).Nodup := by
  induction l with
  | nil => simp
  | cons x l ih =>
    rw [List.nodup_cons] at hnd
    rw [List.flatMap_cons, List.map_append, List.nodup_append]
    refine ⟨?_, ih hnd.2, ?_⟩
    · have := hl x
      match hfx : f x with
      | [] => simp
      | [a] => simp
      | a :: b :: t => rw [hfx] at this; simp at this
    · intro a ha b hb hab
      obtain ⟨e, he, rfl⟩ := List.mem_map.1 ha
      obtain ⟨e', he', rfl⟩ := List.mem_map.1 hb
      obtain ⟨j, hj, hej⟩ := List.mem_flatMap.1 he'
      rw [hf x e he, hf j e' hej] at hab
      exact hnd.1 (hab ▸ hj)

theorem WFYL.transpose {Y : SpMat R} (hY : WFYL Y n) : WFY (transpose Y) n := by
  refine ⟨hY.ncols, by simp [C12.transpose], fun i e he => ?_, fun i => ?_⟩
  · by_cases hi : i < Y.nrows
    · rw [col_transpose Y i hi, tcol] at he
      obtain ⟨j, hj, hej⟩ := List.mem_flatMap.1 he
      rw [(mem_tag hej).1, ← hY.ncols]; exact List.mem_range.1 hj
    · rw [col_transpose_ge Y i hi] at he; simp at he
  · by_cases hi : i < Y.nrows
    · rw [col_transpose Y i hi, tcol]
      apply nodup_tags
      · intro j e he; exact (mem_tag he).1
      · intro j; rw [tag_eq, List.length_map]; exact length_filter_le_one _ _ (hY.nodup j)
      · exact List.nodup_range
    · rw [col_transpose_ge Y i hi]; simp

/-- **X·A = Y.** `solve_triangular_left(t, a, y)` returns (no panic) a `k × n` matrix `X` with `X·A = Y`. -/
theorem solveLeft_correct (hA : UnitTriang upper A n u v) {Y : SpMat R} (hY : WFYL Y n) :
    ∃ X, solveLeft upper A Y = .ok X ∧ X.nrows = Y.nrows ∧ X.ncols = n ∧
      toMatrix X Y.nrows n * toMatrix A n n = toMatrix Y Y.nrows n := by
  obtain ⟨X', h1, h2, h3, h4, h5⟩ := solve_correct hA.transpose hY.transpose
  have hk : (transpose Y).ncols = Y.nrows := rfl
  rw [hk] at h3 h5
  refine ⟨transpose X', by unfold solveLeft; rw [h1], h3, h2, ?_⟩
  ext i j
  have := congrFun (congrFun h5 j) i
  rw [Matrix.mul_apply] at this ⊢
  simp only [toMatrix] at this ⊢
  rw [entry_transpose Y j i i.2, hY.ncols, if_pos j.2] at this
  rw [← this]
  apply Finset.sum_congr rfl
  intro l _
  rw [entry_transpose A j l (by rw [hA.nrows]; exact l.2), hA.ncols, if_pos j.2,
    entry_transpose X' i l (by rw [h2]; exact l.2), h3, if_pos i.2, mul_comm]

end
end Yuiv.C12
