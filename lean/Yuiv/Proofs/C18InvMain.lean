import Yuiv.Proofs.C18InvOri
/-
C18Inv — consequences of the orientation theorem that do not involve a second diagram.
-/
namespace Yuiv.C18
open Yuiv

/-- on a `Determined` code (every component passes under somewhere) the signs are those of THE orientation
consistent with the under-strands -/
theorem crossingSigns_determined' (l : Link) (hv : Valid l) (O : Nat × Nat → Bool) (hO : Orient l O)
    (hU : UnderIn l O) (hD : Determined l) : crossingSigns l = .ok (signsOf l O) := by
  obtain ⟨O', hO', hU', h⟩ := crossingSigns_orient' l hv O hO hU
  rw [h]
  congr 1
  apply signsOf_congr
  intro i hi
  exact orient_unique hv hD hO hU hO' hU' (i, 1) ⟨hi, by omega⟩

/-- the orientation returned by the orientation theorem agrees with the given one on every component that
contains an under-strand end -/
theorem orient_agree_under {l : Link} (hv : Valid l) {O O' : Nat × Nat → Bool} (hO : Orient l O) (hU : UnderIn l O)
    (hO' : Orient l O') (hU' : UnderIn l O') (i : Nat) (hi : i < l.length) (h : Nat × Nat)
    (hc : SConn l (i, 0) h) : O' h = O h :=
  orient_agree hv hO hO' hc ⟨hi, by omega⟩ (by rw [hU i hi, hU' i hi])

theorem writhe_of_signs (l : Link) (s : List Sign) (h : crossingSigns l = .ok s) :
    signedCrossingNums l = .ok (s.count .pos, s.count .neg) ∧ writhe l = .ok (writheOf s) := by
  constructor
  · simp only [signedCrossingNums, h, Res.bind_ok, Res.pure_eq]
  · simp only [writhe, signedCrossingNums, h, Res.bind_ok, Res.pure_eq, writheOf]

end Yuiv.C18
