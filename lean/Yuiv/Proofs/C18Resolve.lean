import Yuiv.Proofs.C18
/-
C18 — part 5: `resolved_by` with a state of the right length returns a crossingless diagram on the same edges,
and the `k`-th unresolved crossing is smoothed according to the `k`-th bit.
-/
namespace Yuiv.C18
open Yuiv

/-- the smoothing of one crossing prescribed by a bit (resolved crossings are left alone) -/
def smooth (c : Crossing) (b : Bool) : Crossing :=
  match c.ctype.resolve b with
  | some t => { c with ctype := t }
  | none => c

/-- spec of `resolved_by`: walk along the crossings, consuming one bit per unresolved crossing -/
def smoothAll : Link → List Bool → Link
  | [], _ => []
  | c :: cs, [] => c :: cs
  | c :: cs, b :: bs => if c.isResolved then c :: smoothAll cs (b :: bs) else smooth c b :: smoothAll cs bs

/-- spec of `resolve_first` : smooth the first unresolved crossing -/
def smoothFirst : Link → Bool → Link
  | [], _ => []
  | c :: cs, b => if c.isResolved then c :: smoothFirst cs b else smooth c b :: cs

theorem crossingNum_cons (c : Crossing) (cs : Link) :
    crossingNum (c :: cs) = (if c.isResolved then 0 else 1) + crossingNum cs := by
  unfold crossingNum
  rw [List.filter_cons]
  cases c.isResolved <;> simp <;> omega

theorem resolve_unresolved (c : Crossing) (b : Bool) (h : c.isResolved = false) :
    c.resolve b = .ok (smooth c b) ∧ (smooth c b).isResolved = true ∧ (smooth c b).edges = c.edges := by
  obtain ⟨t, e0, e1, e2, e3⟩ := c
  cases t <;> cases b <;> first | exact ⟨rfl, rfl, rfl⟩ | cases h

theorem resolveFirst_spec (l : Link) (b : Bool) (h : 0 < crossingNum l) :
    resolveFirst l b = .ok (smoothFirst l b) ∧ crossingNum (smoothFirst l b) + 1 = crossingNum l := by
  induction l with
  | nil => simp [crossingNum] at h
  | cons c cs ih =>
    rw [crossingNum_cons] at h ⊢
    unfold resolveFirst smoothFirst
    cases hc : c.isResolved with
    | true =>
      rw [hc] at h
      simp only [if_true, Nat.zero_add] at h ⊢
      obtain ⟨h1, h2⟩ := ih h
      rw [h1]
      refine ⟨rfl, ?_⟩
      rw [crossingNum_cons, hc]; simpa using h2
    | false =>
      obtain ⟨h1, h2, _⟩ := resolve_unresolved c b hc
      simp only [Bool.false_eq_true, if_false]
      rw [h1]
      refine ⟨rfl, ?_⟩
      rw [crossingNum_cons, h2]; simp; omega

theorem smoothAll_nil (l : Link) : smoothAll l [] = l := by
  cases l <;> rfl

theorem smoothAll_first (l : Link) (b : Bool) (bs : List Bool) :
    smoothAll (smoothFirst l b) bs = smoothAll l (b :: bs) := by
  induction l with
  | nil => rfl
  | cons c cs ih =>
    unfold smoothFirst
    cases hc : c.isResolved with
    | true =>
      simp only [if_true]
      cases bs with
      | nil => simp only [smoothAll, hc, if_true]; rw [← ih, smoothAll_nil]
      | cons b' bs' => simp only [smoothAll, hc, if_true, ih]
    | false =>
      simp only [Bool.false_eq_true, if_false]
      have h2 := (resolve_unresolved c b hc).2.1
      cases bs with
      | nil => simp only [smoothAll, hc, Bool.false_eq_true, if_false, smoothAll_nil]
      | cons b' bs' => simp only [smoothAll, h2, hc, if_true, Bool.false_eq_true, if_false]

theorem foldlM_resolveFirst (s : List Bool) (l : Link) (h : s.length = crossingNum l) :
    s.foldlM resolveFirst l = .ok (smoothAll l s) ∧ crossingNum (smoothAll l s) = 0 := by
  induction s generalizing l with
  | nil =>
    rw [smoothAll_nil]
    exact ⟨rfl, by simpa using h.symm⟩
  | cons b bs ih =>
    simp only [List.length_cons] at h
    obtain ⟨h1, h2⟩ := resolveFirst_spec l b (by omega)
    simp only [List.foldlM_cons, h1]
    have := ih (smoothFirst l b) (by omega)
    rw [smoothAll_first] at this
    exact this

theorem smoothAll_edges (l : Link) (s : List Bool) :
    (smoothAll l s).map Crossing.edges = l.map Crossing.edges := by
  induction l generalizing s with
  | nil => cases s <;> rfl
  | cons c cs ih =>
    cases s with
    | nil => rfl
    | cons b bs =>
      unfold smoothAll
      cases hc : c.isResolved with
      | true => simp only [if_true, List.map_cons, ih]
      | false =>
        simp only [Bool.false_eq_true, if_false, List.map_cons, ih]
        rw [(resolve_unresolved c b hc).2.2]

end Yuiv.C18
