import Yuiv.Proofs.KhiSpecMain
import Yuiv.Proofs.KhiSpecGens
/-
KhiSpec — the closure (c) of `khiGensOk` holds whenever `khiInstanceOk` does: the targets of `Cube.d` on a generator of
weight `w` are generators of weight `w + 1`, and τ maps generators of weight `w` to generators of weight `w`.
-/
namespace Yuiv.KhiSpec
open Yuiv Yuiv.KhRef Yuiv.C19 Yuiv.C06Cycle Yuiv.C19Inv Yuiv.C19Comm Yuiv.C19Cone

theorem filter_len_toggle (l : List Nat) (hnd : l.Nodup) (k : Nat) (hk : k ∈ l) (p q : Nat → Bool)
    (hpk : p k = false) (hqk : q k = true) (hother : ∀ i, i ≠ k → q i = p i) :
    (l.filter q).length = (l.filter p).length + 1 := by
  induction l with
  | nil => cases hk
  | cons a l ih =>
    have hnd' := List.nodup_cons.1 hnd
    by_cases e : a = k
    · subst e
      have : l.filter q = l.filter p := by
        apply List.filter_congr
        intro i hi
        exact hother i (fun e => hnd'.1 (e ▸ hi))
      simp [hpk, hqk, this]
    · have hk' : k ∈ l := by
        rcases List.mem_cons.1 hk with h | h
        · exact absurd h.symm e
        · exact h
      have := ih hnd'.2 hk'
      rw [List.filter_cons, List.filter_cons, hother a e]
      split <;> simp [this]

theorem popcount_or_bit (s k n : Nat) (hk : k < n) (hb : s.testBit k = false) :
    popcount (s ||| 1 <<< k) n = popcount s n + 1 := by
  unfold popcount
  apply filter_len_toggle _ List.nodup_range k (List.mem_range.2 hk) _ _ hb
  · simp [Nat.testBit_or, Nat.one_shiftLeft]
  · intro i hi
    rw [Nat.testBit_or, Nat.one_shiftLeft, Nat.testBit_two_pow]
    have : ¬ k = i := fun e => hi e.symm
    simp [this]

theorem setBit_lt' (M q r : Nat) (b : Bool) (hM : M < 2 ^ r) (hq : q < r) (hr : r ≤ 64) : setBit M q b < 2 ^ r := by
  have hM64 : M < 2 ^ 64 := Nat.lt_of_lt_of_le hM (Nat.pow_le_pow_right (by omega) hr)
  apply Nat.lt_pow_two_of_testBit
  intro j hj
  rw [setBit_testBit M q b j hM64 (by omega), if_neg (by omega)]
  exact testBit_false_of_lt M r j hM hj

theorem carry_lt' (cs cs' : Array (Array Nat)) (x : Nat) (hinj : ArrInj cs) (hinj' : ArrInj cs') (h64 : cs'.size ≤ 64) :
    carry cs cs' x < 2 ^ cs'.size := by
  apply Nat.lt_pow_two_of_testBit
  intro j hj
  cases h : (carry cs cs' x).testBit j
  · rfl
  · have := ((carry_testBit cs cs' x j hinj hinj' h64).1 h).1
    omega

theorem edgeCore_mask (cs cs' : Array (Array Nat)) (hinj : ArrInj cs) (hinj' : ArrInj cs') (h64 : cs'.size ≤ 64)
    (p : Params) (x s' : Nat) (ts : List Term) (h : edgeCore cs cs' p x s' = some ts) :
    ∀ t ∈ ts, t.1.mask < 2 ^ cs'.size := by
  have hc := carry_lt' cs cs' x hinj hinj' h64
  unfold edgeCore at h
  simp only at h
  intro t ht
  split at h
  · rename_i h1
    simp only [Bool.and_eq_true, beq_iff_eq] at h1
    have hb0 : (bornOf cs cs')[0]! < cs'.size :=
      ((mem_bornOf cs cs' _).1 (by rw [toList_eq_of_size1 _ h1.2]; simp)).1
    simp only [Option.some.injEq] at h
    subst h
    obtain ⟨ya, _, e⟩ := List.mem_filterMap.1 ht
    split at e
    · simp only [Option.some.injEq] at e; subst e
      exact setBit_lt' _ _ _ _ hc hb0 h64
    · cases e
  · split at h
    · rename_i _ h2
      simp only [Bool.and_eq_true, beq_iff_eq] at h2
      have hb0 : (bornOf cs cs')[0]! < cs'.size :=
        ((mem_bornOf cs cs' _).1 (by rw [toList_eq_of_size2 _ h2.2]; simp)).1
      have hb1 : (bornOf cs cs')[1]! < cs'.size :=
        ((mem_bornOf cs cs' _).1 (by rw [toList_eq_of_size2 _ h2.2]; simp)).1
      simp only [Option.some.injEq] at h
      subst h
      obtain ⟨ya, _, e⟩ := List.mem_filterMap.1 ht
      split at e
      · simp only [Option.some.injEq] at e; subst e
        exact setBit_lt' _ _ _ _ (setBit_lt' _ _ _ _ hc hb0 h64) hb1 h64
      · cases e
    · cases h

/-- the targets of `d g`: one more crossing resolved, a labelling of the new circles, base circle kept -/
theorem dK_target (F : Array Nat → Array Nat) (ic : ICube) (hwf : icubeWf' F ic = true) (p : Params) (g : Gen)
    (hs : g.s < 2 ^ ic.cube.n) (y : Gen) (hy : y ∈ dK ic.cube p g) :
    y.s < 2 ^ ic.cube.n ∧ popcount y.s ic.cube.n = popcount g.s ic.cube.n + 1 ∧
    y.mask < 2 ^ (ic.cube.circ[y.s]!).size ∧ baseKeep ic.cube y = true := by
  rw [dK_eq] at hy
  unfold dList at hy
  rw [dRaw_eq] at hy
  by_cases hall : allEdges ic.cube p g = true
  · rw [if_pos hall] at hy
    simp only [Option.map_some, Option.getD_some] at hy
    unfold oddSupp at hy
    obtain ⟨t, ht, rfl⟩ := List.mem_map.1 hy
    have ht' := (List.mem_filter.1 ht).1
    obtain ⟨htr, hkeep⟩ := List.mem_filter.1 ht'
    unfold rawTerms at htr
    obtain ⟨k, hk, htk⟩ := List.mem_flatMap.1 htr
    have hk' := List.mem_range.1 hk
    split at htk
    · cases htk
    · rename_i hbit
      have hbit' : g.s.testBit k = false := by simpa using hbit
      cases he : edgeTerms ic.cube p g k with
      | none => rw [he] at htk; cases htk
      | some ts =>
        rw [he] at htk
        have hst := edgeTerms_state ic.cube p g k ts he t htk
        have hs' := or_bit_lt g.s k ic.cube.n hs hk'
        rw [edgeTerms_eq_core] at he
        cases hc : edgeCore (ic.cube.circ[g.s]!) (ic.cube.circ[g.s ||| 1 <<< k]!) p g.mask (g.s ||| 1 <<< k) with
        | none => rw [hc] at he; cases he
        | some ts0 =>
          rw [hc] at he
          simp only [Option.map_some, Option.some.injEq] at he
          subst he
          obtain ⟨t0, ht0, rfl⟩ := List.mem_map.1 htk
          have v := wf'_spec F ic hwf g.s hs
          have v' := wf'_spec F ic hwf _ hs'
          have hm := edgeCore_mask _ _ v.inj v'.inj v'.le64 p _ _ ts0 hc t0 ht0
          simp only at hst hkeep ⊢
          rw [hst]
          exact ⟨hs', popcount_or_bit _ _ _ hk' hbit', hm, hkeep⟩
  · rw [if_neg hall] at hy
    simp [oddSupp] at hy

theorem mem_cgens (ic : ICube) (i : Nat) (hi : i < ic.cube.n + 2) (b : Bool) (g : Gen) :
    (b, g) ∈ cgens ic i ↔ (b = false ∧ i ≤ ic.cube.n ∧ g ∈ (kgensOf ic.cube)[i]!) ∨
      (b = true ∧ 1 ≤ i ∧ g ∈ (kgensOf ic.cube)[i - 1]!) := by
  unfold cgens
  rw [getElem!_pos _ i (by rw [coneGens_size]; exact hi)]
  simp only [coneGens, Array.getElem_map, Array.getElem_range, Array.mem_append]
  constructor
  · rintro (h | h)
    · split at h
      · rename_i hle
        obtain ⟨g', hg', e⟩ := Array.mem_map.1 h
        cases e
        exact Or.inl ⟨rfl, hle, hg'⟩
      · exact absurd h (Array.not_mem_empty _)
    · split at h
      · rename_i hge
        obtain ⟨g', hg', e⟩ := Array.mem_map.1 h
        cases e
        exact Or.inr ⟨rfl, hge, hg'⟩
      · exact absurd h (Array.not_mem_empty _)
  · rintro (⟨rfl, hle, hg⟩ | ⟨rfl, hge, hg⟩)
    · left
      rw [if_pos hle]
      exact Array.mem_map.2 ⟨g, hg, rfl⟩
    · right
      rw [if_pos hge]
      exact Array.mem_map.2 ⟨g, hg, rfl⟩

/-- THE CLOSURE (c) HOLDS FOR EVERY INSTANCE PASSING `khiInstanceOk` -/
theorem closed_of_instanceOk (l : InvLink) (p : Params) (ic : ICube) (hic : mkICube l p = some ic)
    (hok : khiInstanceOk l p = true) :
    ∀ i : Nat, i < ic.cube.n + 2 → ∀ x ∈ cgens ic i, ∀ y ∈ dI ic p x, y ∈ cgens ic (i + 1) := by
  obtain ⟨_, _, _, _, ic', hic', _, hwf'⟩ := khi_instance_ok_meaning l p hok
  rw [hic] at hic'
  cases hic'
  obtain ⟨ic', hic', _, _, H⟩ := khi_instance_ok_sound l p hok
  rw [hic] at hic'
  cases hic'
  intro i hi x hx y hy
  obtain ⟨b, g⟩ := x
  obtain ⟨by', y⟩ := y
  have key : ∀ (w : Nat) (g y : Gen), g ∈ (kgensOf ic.cube)[w]! → y ∈ dK ic.cube p g → y ∈ (kgensOf ic.cube)[w + 1]! := by
    intro w g y hg hy
    obtain ⟨h1, h2, _, _⟩ := (mem_kgensOf ic.cube w g).1 hg
    obtain ⟨a1, a2, a3, a4⟩ := dK_target _ ic hwf' p g h1 y hy
    exact (mem_kgensOf ic.cube (w + 1) y).2 ⟨a1, by rw [a2, h2], a3, a4⟩
  have hle : ∀ (w : Nat) (g y : Gen), g ∈ (kgensOf ic.cube)[w]! → y ∈ dK ic.cube p g → w + 1 ≤ ic.cube.n := by
    intro w g y hg hy
    obtain ⟨h1, h2, _, _⟩ := (mem_kgensOf ic.cube w g).1 hg
    obtain ⟨_, a2, _, _⟩ := dK_target _ ic hwf' p g h1 y hy
    have := popcount_le y.s ic.cube.n
    omega
  rcases (mem_cgens ic i hi b g).1 hx with ⟨rfl, hin, hg⟩ | ⟨rfl, hi1, hg⟩
  · -- `B g`
    simp only [dI, List.mem_append, List.mem_map, List.mem_cons, List.not_mem_nil, or_false] at hy
    rcases hy with ⟨y', hy', e⟩ | e | e
    · cases e
      have hw := hle i g y hg hy'
      exact (mem_cgens ic (i + 1) (by omega) false y).2 (Or.inl ⟨rfl, hw, key i g y hg hy'⟩)
    · cases e
      exact (mem_cgens ic (i + 1) (by omega) true g).2 (Or.inr ⟨rfl, by omega, by simpa using hg⟩)
    · cases e
      obtain ⟨h1, h2, h3, h4⟩ := (mem_kgensOf ic.cube i g).1 hg
      obtain ⟨⟨t1, t2, t3, _⟩, ⟨t4, _⟩, _⟩ := H g h1 h3 h4
      refine (mem_cgens ic (i + 1) (by omega) true _).2 (Or.inr ⟨rfl, by omega, ?_⟩)
      simp only [Nat.add_sub_cancel]
      exact (mem_kgensOf ic.cube i _).2 ⟨t1, by rw [t4, h2], t2, t3⟩
  · -- `Q g`
    simp only [dI, List.mem_map] at hy
    obtain ⟨y', hy', e⟩ := hy
    cases e
    have hw := hle (i - 1) g y hg hy'
    refine (mem_cgens ic (i + 1) (by omega) true y).2 (Or.inr ⟨rfl, by omega, ?_⟩)
    have := key (i - 1) g y hg hy'
    rw [show i - 1 + 1 = i by omega] at this
    simpa using this

end Yuiv.KhiSpec
