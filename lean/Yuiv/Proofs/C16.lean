import Yuiv.Model.C16
import Mathlib.Algebra.Ring.Defs
import Mathlib.Algebra.Group.Basic
import Mathlib.Tactic.Ring
import Mathlib.Tactic.Abel
import Mathlib.Data.List.Nodup
/-
Spec definitions and helper lemmas for C16 (linear combinations and polynomials).

The central tool is `lsum g l = Σ_{(x,r) ∈ l} g x r` for a map `g : X → R → A` into a commutative monoid that is
additive in the coefficient (`Additive g`).  Every `Lc` operation is characterised by what it does to all such
"linear functionals"; coefficients, evaluation and (later) the map to a monoid algebra are instances.
-/
set_option linter.unusedSectionVars false
set_option linter.unusedSimpArgs false
set_option linter.unusedVariables false

namespace Yuiv.C16

section LcProofs
variable {X R A : Type} [DecidableEq X] [DecidableEq R] [CommRing R] [AddCommMonoid A]

/-- the invariant of `Lc`: keys pairwise distinct, no stored zero coefficient -/
def WF (l : List (X × R)) : Prop := (l.map Prod.fst).Nodup ∧ ∀ p ∈ l, p.2 ≠ 0

/-- `Σ_{(x,r) ∈ l} g x r` -/
def lsum (g : X → R → A) : List (X × R) → A
  | [] => 0
  | p :: t => g p.1 p.2 + lsum g t

/-- `g` is additive in the coefficient -/
structure Additive (g : X → R → A) : Prop where
  zero : ∀ x, g x 0 = 0
  add : ∀ x r s, g x (r + s) = g x r + g x s

@[simp] theorem lsum_nil (g : X → R → A) : lsum g [] = 0 := rfl
@[simp] theorem lsum_cons (g : X → R → A) (p : X × R) (t : List (X × R)) :
    lsum g (p :: t) = g p.1 p.2 + lsum g t := rfl

theorem lsum_append (g : X → R → A) (l m : List (X × R)) : lsum g (l ++ m) = lsum g l + lsum g m := by
  induction l with
  | nil => simp
  | cons p t ih => simp [ih, add_assoc]

theorem lsum_upd {g : X → R → A} (hg : Additive g) (l : List (X × R)) (x : X) (r : R) :
    lsum g (upd l x r) = lsum g l + g x r := by
  induction l with
  | nil => simp [upd]
  | cons p t ih =>
    obtain ⟨y, v⟩ := p
    unfold upd
    by_cases h : y = x
    · subst h; simp [hg.add]; abel
    · simp [h, ih, add_assoc]

theorem lsum_addPair {g : X → R → A} (hg : Additive g) (l : List (X × R)) (p : X × R) :
    lsum g (addPair l p) = lsum g l + g p.1 p.2 := by
  unfold addPair
  by_cases h : p.2 = 0
  · simp [h, hg.zero]
  · simp [h, lsum_upd hg]

theorem lsum_clean {g : X → R → A} (hg : Additive g) (l : List (X × R)) :
    lsum g (clean l) = lsum g l := by
  induction l with
  | nil => rfl
  | cons p t ih =>
    unfold clean at *
    by_cases h : p.2 = 0
    · simp [List.filter_cons, h, ih, hg.zero]
    · simp [List.filter_cons, h, ih]

theorem lsum_foldl_addPair {g : X → R → A} (hg : Additive g) (it l : List (X × R)) :
    lsum g (it.foldl addPair l) = lsum g l + lsum g it := by
  induction it generalizing l with
  | nil => simp
  | cons p t ih => simp [ih, lsum_addPair hg, add_assoc]

theorem lsum_fromIter {g : X → R → A} (hg : Additive g) (it : List (X × R)) :
    lsum g (fromIter it) = lsum g it := by
  simp [fromIter, lsum_clean hg, lsum_foldl_addPair hg]

theorem lsum_addAssign {g : X → R → A} (hg : Additive g) (a b : List (X × R)) :
    lsum g (addAssign a b) = lsum g a + lsum g b := by
  simp [addAssign, lsum_clean hg, lsum_foldl_addPair hg]

theorem lsum_map_coeff (g : X → R → A) (f : R → R) (a : List (X × R)) :
    lsum g (a.map (fun p => (p.1, f p.2))) = lsum (fun x r => g x (f r)) a := by
  induction a with
  | nil => rfl
  | cons p t ih => simp [ih]

theorem lsum_subAssign {g : X → R → A} (hg : Additive g) (a b : List (X × R)) :
    lsum g (subAssign a b) = lsum g a + lsum (fun x r => g x (-r)) b := by
  unfold subAssign
  rw [lsum_clean hg]
  induction b generalizing a with
  | nil => simp
  | cons p t ih => simp [ih, lsum_addPair hg, add_assoc]

theorem lsum_neg {g : X → R → A} (hg : Additive g) (a : List (X × R)) :
    lsum g (neg a) = lsum (fun x r => g x (-r)) a := by
  simp [neg, lsum_fromIter hg, lsum_map_coeff]

theorem lsum_smul {g : X → R → A} (hg : Additive g) (a : List (X × R)) (r : R) :
    lsum g (smul a r) = lsum (fun x v => g x (v * r)) a := by
  unfold smul
  by_cases h : r = 1
  · subst h; simp
  · simp only [h, if_false, lsum_clean hg]
    exact lsum_map_coeff g (· * r) a

/-! ### keys, the invariant -/

def keys (l : List (X × R)) : List X := l.map Prod.fst

theorem keys_upd (l : List (X × R)) (x : X) (r : R) :
    keys (upd l x r) = if x ∈ keys l then keys l else keys l ++ [x] := by
  induction l with
  | nil => simp [upd, keys]
  | cons p t ih =>
    obtain ⟨y, v⟩ := p
    unfold upd
    by_cases h : y = x
    · subst h; simp [keys]
    · have h' : ¬ x = y := fun e => h e.symm
      simp only [h, if_false]
      simp only [keys, List.map_cons, List.mem_cons, h', false_or] at ih ⊢
      rw [ih]
      split <;> simp [*]

theorem nodup_upd {l : List (X × R)} (h : (keys l).Nodup) (x : X) (r : R) : (keys (upd l x r)).Nodup := by
  rw [keys_upd]
  split
  · exact h
  · rename_i hx
    rw [List.nodup_append]
    refine ⟨h, by simp, ?_⟩
    intro a ha b hb
    simp at hb; subst hb
    intro e; subst e; exact hx ha

theorem nodup_addPair {l : List (X × R)} (h : (keys l).Nodup) (p : X × R) : (keys (addPair l p)).Nodup := by
  unfold addPair; split
  · exact h
  · exact nodup_upd h _ _

theorem nodup_foldl_addPair (it : List (X × R)) {l : List (X × R)} (h : (keys l).Nodup) :
    (keys (it.foldl addPair l)).Nodup := by
  induction it generalizing l with
  | nil => exact h
  | cons p t ih => exact ih (nodup_addPair h p)

theorem nodup_clean {l : List (X × R)} (h : (keys l).Nodup) : (keys (clean l)).Nodup := by
  unfold clean keys
  exact List.Nodup.sublist (List.Sublist.map _ List.filter_sublist) h

theorem clean_ne_zero (l : List (X × R)) : ∀ p ∈ clean l, p.2 ≠ 0 := by
  intro p hp
  unfold clean at hp
  simpa using (List.mem_filter.mp hp).2

theorem wf_clean {l : List (X × R)} (h : (keys l).Nodup) : WF (clean l) :=
  ⟨nodup_clean h, clean_ne_zero l⟩

theorem wf_nil : WF ([] : List (X × R)) := ⟨by simp, by simp⟩

theorem wf_fromIter (it : List (X × R)) : WF (fromIter it) :=
  wf_clean (nodup_foldl_addPair it (l := []) (by simp [keys]))

theorem wf_addAssign {a : List (X × R)} (ha : (keys a).Nodup) (b : List (X × R)) : WF (addAssign a b) :=
  wf_clean (nodup_foldl_addPair b ha)

theorem subAssign_eq (a b : List (X × R)) :
    subAssign a b = clean ((b.map (fun p => (p.1, -p.2))).foldl addPair a) := by
  simp [subAssign, List.foldl_map]

theorem wf_subAssign {a : List (X × R)} (ha : (keys a).Nodup) (b : List (X × R)) : WF (subAssign a b) := by
  rw [subAssign_eq]; exact wf_clean (nodup_foldl_addPair _ ha)

theorem keys_map_coeff (f : R → R) (a : List (X × R)) : keys (a.map (fun p => (p.1, f p.2))) = keys a := by
  simp [keys, List.map_map, Function.comp_def]

theorem wf_smul {a : List (X × R)} (ha : WF a) (r : R) : WF (smul a r) := by
  unfold smul; split
  · exact ha
  · exact wf_clean (by rw [keys_map_coeff (fun v => v * r)]; exact ha.1)

theorem wf_neg (a : List (X × R)) : WF (neg a) := wf_fromIter _

/-! ### coefficients as a linear functional -/

/-- the functional "coefficient at `y`" -/
def delta (y : X) : X → R → R := fun x r => if x = y then r else 0

theorem delta_additive (y : X) : Additive (delta (R := R) y) :=
  ⟨fun x => by simp [delta], fun x r s => by by_cases h : x = y <;> simp [delta, h]⟩

theorem lsum_delta_of_not_mem {l : List (X × R)} {y : X} (h : y ∉ keys l) : lsum (delta y) l = 0 := by
  induction l with
  | nil => rfl
  | cons p t ih =>
    simp only [keys, List.map_cons, List.mem_cons, not_or] at h
    have : ¬ p.1 = y := fun e => h.1 e.symm
    simp [delta, this]
    exact ih h.2

theorem coeff_eq_lsum {l : List (X × R)} (h : (keys l).Nodup) (y : X) : coeff l y = lsum (delta y) l := by
  induction l with
  | nil => rfl
  | cons p t ih =>
    obtain ⟨k, v⟩ := p
    simp only [keys, List.map_cons, List.nodup_cons] at h
    unfold coeff
    by_cases e : k = y
    · subst e; simp [delta, lsum_delta_of_not_mem (l := t) h.1]
    · simp [e, delta]; exact ih h.2

theorem coeff_of_not_mem {l : List (X × R)} {y : X} (h : y ∉ keys l) : coeff l y = 0 := by
  induction l with
  | nil => rfl
  | cons p t ih =>
    obtain ⟨k, v⟩ := p
    simp only [keys, List.map_cons, List.mem_cons, not_or] at h
    have : ¬ k = y := fun e => h.1 e.symm
    simp [coeff, this]; exact ih h.2

theorem coeff_of_mem {l : List (X × R)} (h : (keys l).Nodup) {p : X × R} (hp : p ∈ l) : coeff l p.1 = p.2 := by
  induction l with
  | nil => cases hp
  | cons q t ih =>
    obtain ⟨k, v⟩ := q
    simp only [keys, List.map_cons, List.nodup_cons] at h
    rcases List.mem_cons.mp hp with e | hm
    · subst e; simp [coeff]
    · have : k ≠ p.1 := by
        intro e; apply h.1; rw [e]; exact List.mem_map.mpr ⟨p, hm, rfl⟩
      simp [coeff, this]; exact ih h.2 hm

theorem mem_of_coeff_ne_zero {l : List (X × R)} {y : X} (h : coeff l y ≠ 0) : (y, coeff l y) ∈ l := by
  induction l with
  | nil => exact absurd rfl h
  | cons q t ih =>
    obtain ⟨k, v⟩ := q
    unfold coeff at h ⊢
    by_cases e : k = y
    · subst e; simp
    · simp only [e, if_false] at h ⊢
      exact List.mem_cons_of_mem _ (ih h)

/-- under the invariant, the stored terms are exactly the non-zero values of the coefficient function -/
theorem mem_iff_coeff {l : List (X × R)} (h : WF l) (p : X × R) : p ∈ l ↔ p.2 ≠ 0 ∧ coeff l p.1 = p.2 := by
  constructor
  · intro hp; exact ⟨h.2 p hp, coeff_of_mem h.1 hp⟩
  · rintro ⟨h0, hc⟩
    have := mem_of_coeff_ne_zero (l := l) (y := p.1) (by rw [hc]; exact h0)
    rw [hc] at this; exact this

theorem mem_keys_iff {l : List (X × R)} (h : WF l) (x : X) : x ∈ keys l ↔ coeff l x ≠ 0 := by
  constructor
  · intro hx
    obtain ⟨p, hp, rfl⟩ := List.mem_map.mp hx
    rw [coeff_of_mem h.1 hp]; exact h.2 p hp
  · intro hx
    exact List.mem_map.mpr ⟨_, mem_of_coeff_ne_zero hx, rfl⟩

theorem nodup_of_wf {l : List (X × R)} (h : WF l) : l.Nodup := List.Nodup.of_map _ h.1

/-- two well-formed term lists with the same coefficient function are permutations of each other -/
theorem perm_of_coeff_eq {a b : List (X × R)} (ha : WF a) (hb : WF b)
    (h : ∀ x, coeff a x = coeff b x) : a.Perm b := by
  rw [List.perm_ext_iff_of_nodup (nodup_of_wf ha) (nodup_of_wf hb)]
  intro p
  rw [mem_iff_coeff ha, mem_iff_coeff hb, h]

theorem lsum_perm (g : X → R → A) {a b : List (X × R)} (h : a.Perm b) : lsum g a = lsum g b := by
  induction h with
  | nil => rfl
  | cons x _ ih => simp [ih]
  | swap x y l => simp; rw [← add_assoc, ← add_assoc, add_comm (g y.1 y.2)]
  | trans _ _ ih1 ih2 => exact ih1.trans ih2

theorem coeff_perm {a b : List (X × R)} (ha : (keys a).Nodup) (h : a.Perm b) (x : X) : coeff a x = coeff b x := by
  have hb : (keys b).Nodup := (List.Perm.nodup_iff (List.Perm.map _ h)).mp ha
  rw [coeff_eq_lsum ha, coeff_eq_lsum hb, lsum_perm _ h]

/-! ### coefficients of the operations -/

theorem coeff_fromIter (it : List (X × R)) (y : X) : coeff (fromIter it) y = lsum (delta y) it := by
  rw [coeff_eq_lsum (wf_fromIter it).1, lsum_fromIter (delta_additive y)]

theorem coeff_addAssign {a b : List (X × R)} (ha : (keys a).Nodup) (hb : (keys b).Nodup) (y : X) :
    coeff (addAssign a b) y = coeff a y + coeff b y := by
  rw [coeff_eq_lsum (wf_addAssign ha b).1, lsum_addAssign (delta_additive y), coeff_eq_lsum ha, coeff_eq_lsum hb]

theorem lsum_delta_neg (y : X) (b : List (X × R)) :
    lsum (fun x r => delta y x (-r)) b = - lsum (delta y) b := by
  induction b with
  | nil => simp
  | cons p t ih =>
    simp only [lsum_cons, ih]
    by_cases e : p.1 = y <;> simp [delta, e]
    abel

theorem coeff_subAssign {a b : List (X × R)} (ha : (keys a).Nodup) (hb : (keys b).Nodup) (y : X) :
    coeff (subAssign a b) y = coeff a y - coeff b y := by
  rw [coeff_eq_lsum (wf_subAssign ha b).1, lsum_subAssign (delta_additive y), coeff_eq_lsum ha,
    coeff_eq_lsum hb, lsum_delta_neg]; ring

theorem coeff_neg {a : List (X × R)} (ha : (keys a).Nodup) (y : X) : coeff (neg a) y = - coeff a y := by
  rw [coeff_eq_lsum (wf_neg a).1, lsum_neg (delta_additive y), coeff_eq_lsum ha, lsum_delta_neg]

theorem lsum_delta_mul (y : X) (c : R) (b : List (X × R)) :
    lsum (fun x r => delta y x (r * c)) b = lsum (delta y) b * c := by
  induction b with
  | nil => simp
  | cons p t ih =>
    simp only [lsum_cons, ih]
    by_cases e : p.1 = y <;> simp [delta, e]
    ring

theorem coeff_smul {a : List (X × R)} (ha : WF a) (c : R) (y : X) : coeff (smul a c) y = coeff a y * c := by
  rw [coeff_eq_lsum (wf_smul ha c).1, lsum_smul (delta_additive y), coeff_eq_lsum ha.1, lsum_delta_mul]


end LcProofs
end Yuiv.C16
