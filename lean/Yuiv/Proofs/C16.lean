import Yuiv.Model.C16
import Mathlib.Algebra.Ring.Defs
import Mathlib.Algebra.Group.Basic
import Mathlib.Tactic.Ring
import Mathlib.Tactic.Abel
import Mathlib.Data.List.Nodup
import Mathlib.Data.List.Perm.Subperm
/-
Spec definitions and helper lemmas for C16 (linear combinations and polynomials).

The central tool is `lsum g l = Σ_{(x,r) ∈ l} g x r` for a map `g : X → R → A` into a commutative monoid that is
additive in the coefficient (`Additive g`).  Every `Lc` operation is characterised by what it does to all such
"linear functionals"; coefficients, evaluation and (later) the map to a monoid algebra are instances.
-/
set_option linter.unusedSectionVars false
set_option linter.unusedSimpArgs false
set_option linter.unusedVariables false

namespace Yuiv.C16

section LcProofs
variable {X R A : Type} [DecidableEq X] [DecidableEq R] [CommRing R] [AddCommMonoid A]

/-- the invariant of `Lc`: keys pairwise distinct, no stored zero coefficient -/
def WF (l : List (X × R)) : Prop := (l.map Prod.fst).Nodup ∧ ∀ p ∈ l, p.2 ≠ 0

/-- `Σ_{(x,r) ∈ l} g x r` -/
def lsum (g : X → R → A) : List (X × R) → A
  | [] => 0
  | p :: t => g p.1 p.2 + lsum g t

/-- `g` is additive in the coefficient -/
structure Additive (g : X → R → A) : Prop where
  zero : ∀ x, g x 0 = 0
  add : ∀ x r s, g x (r + s) = g x r + g x s

@[simp] theorem lsum_nil (g : X → R → A) : lsum g [] = 0 := rfl
@[simp] theorem lsum_cons (g : X → R → A) (p : X × R) (t : List (X × R)) :
    lsum g (p :: t) = g p.1 p.2 + lsum g t := rfl

theorem lsum_append (g : X → R → A) (l m : List (X × R)) : lsum g (l ++ m) = lsum g l + lsum g m := by
  induction l with
  | nil => simp
  | cons p t ih => simp [ih, add_assoc]

theorem lsum_upd {g : X → R → A} (hg : Additive g) (l : List (X × R)) (x : X) (r : R) :
    lsum g (upd l x r) = lsum g l + g x r := by
  induction l with
  | nil => simp [upd]
  | cons p t ih =>
    obtain ⟨y, v⟩ := p
    unfold upd
    by_cases h : y = x
    · subst h; simp [hg.add]; abel
    · simp [h, ih, add_assoc]

theorem lsum_addPair {g : X → R → A} (hg : Additive g) (l : List (X × R)) (p : X × R) :
    lsum g (addPair l p) = lsum g l + g p.1 p.2 := by
  unfold addPair
  by_cases h : p.2 = 0
  · simp [h, hg.zero]
  · simp [h, lsum_upd hg]

theorem lsum_clean {g : X → R → A} (hg : Additive g) (l : List (X × R)) :
    lsum g (clean l) = lsum g l := by
  induction l with
  | nil => rfl
  | cons p t ih =>
    unfold clean at *
    by_cases h : p.2 = 0
    · simp [List.filter_cons, h, ih, hg.zero]
    · simp [List.filter_cons, h, ih]

theorem lsum_foldl_addPair {g : X → R → A} (hg : Additive g) (it l : List (X × R)) :
    lsum g (it.foldl addPair l) = lsum g l + lsum g it := by
  induction it generalizing l with
  | nil => simp
  | cons p t ih => simp [ih, lsum_addPair hg, add_assoc]

theorem lsum_fromIter {g : X → R → A} (hg : Additive g) (it : List (X × R)) :
    lsum g (fromIter it) = lsum g it := by
  simp [fromIter, lsum_clean hg, lsum_foldl_addPair hg]

theorem lsum_addAssign {g : X → R → A} (hg : Additive g) (a b : List (X × R)) :
    lsum g (addAssign a b) = lsum g a + lsum g b := by
  simp [addAssign, lsum_clean hg, lsum_foldl_addPair hg]

theorem lsum_map_coeff (g : X → R → A) (f : R → R) (a : List (X × R)) :
    lsum g (a.map (fun p => (p.1, f p.2))) = lsum (fun x r => g x (f r)) a := by
  induction a with
  | nil => rfl
  | cons p t ih => simp [ih]

theorem lsum_subAssign {g : X → R → A} (hg : Additive g) (a b : List (X × R)) :
    lsum g (subAssign a b) = lsum g a + lsum (fun x r => g x (-r)) b := by
  unfold subAssign
  rw [lsum_clean hg]
  induction b generalizing a with
  | nil => simp
  | cons p t ih => simp [ih, lsum_addPair hg, add_assoc]

theorem lsum_neg {g : X → R → A} (hg : Additive g) (a : List (X × R)) :
    lsum g (neg a) = lsum (fun x r => g x (-r)) a := by
  simp [neg, lsum_fromIter hg, lsum_map_coeff]

theorem lsum_smul {g : X → R → A} (hg : Additive g) (a : List (X × R)) (r : R) :
    lsum g (smul a r) = lsum (fun x v => g x (v * r)) a := by
  unfold smul
  by_cases h : r = 1
  · subst h; simp
  · simp only [h, if_false, lsum_clean hg]
    exact lsum_map_coeff g (· * r) a

/-! ### keys, the invariant -/

def keys (l : List (X × R)) : List X := l.map Prod.fst

theorem keys_upd (l : List (X × R)) (x : X) (r : R) :
    keys (upd l x r) = if x ∈ keys l then keys l else keys l ++ [x] := by
  induction l with
  | nil => simp [upd, keys]
  | cons p t ih =>
    obtain ⟨y, v⟩ := p
    unfold upd
    by_cases h : y = x
    · subst h; simp [keys]
    · have h' : ¬ x = y := fun e => h e.symm
      simp only [h, if_false]
      simp only [keys, List.map_cons, List.mem_cons, h', false_or] at ih ⊢
      rw [ih]
      split <;> simp [*]

theorem nodup_upd {l : List (X × R)} (h : (keys l).Nodup) (x : X) (r : R) : (keys (upd l x r)).Nodup := by
  rw [keys_upd]
  split
  · exact h
  · rename_i hx
    rw [List.nodup_append]
    refine ⟨h, by simp, ?_⟩
    intro a ha b hb
    simp at hb; subst hb
    intro e; subst e; exact hx ha

theorem nodup_addPair {l : List (X × R)} (h : (keys l).Nodup) (p : X × R) : (keys (addPair l p)).Nodup := by
  unfold addPair; split
  · exact h
  · exact nodup_upd h _ _

theorem nodup_foldl_addPair (it : List (X × R)) {l : List (X × R)} (h : (keys l).Nodup) :
    (keys (it.foldl addPair l)).Nodup := by
  induction it generalizing l with
  | nil => exact h
  | cons p t ih => exact ih (nodup_addPair h p)

theorem nodup_clean {l : List (X × R)} (h : (keys l).Nodup) : (keys (clean l)).Nodup := by
  unfold clean keys
  exact List.Nodup.sublist (List.Sublist.map _ List.filter_sublist) h

theorem clean_ne_zero (l : List (X × R)) : ∀ p ∈ clean l, p.2 ≠ 0 := by
  intro p hp
  unfold clean at hp
  simpa using (List.mem_filter.mp hp).2

theorem wf_clean {l : List (X × R)} (h : (keys l).Nodup) : WF (clean l) :=
  ⟨nodup_clean h, clean_ne_zero l⟩

theorem wf_nil : WF ([] : List (X × R)) := ⟨by simp, by simp⟩

theorem wf_fromIter (it : List (X × R)) : WF (fromIter it) :=
  wf_clean (nodup_foldl_addPair it (l := []) (by simp [keys]))

theorem wf_addAssign {a : List (X × R)} (ha : (keys a).Nodup) (b : List (X × R)) : WF (addAssign a b) :=
  wf_clean (nodup_foldl_addPair b ha)

theorem subAssign_eq (a b : List (X × R)) :
    subAssign a b = clean ((b.map (fun p => (p.1, -p.2))).foldl addPair a) := by
  simp [subAssign, List.foldl_map]

theorem wf_subAssign {a : List (X × R)} (ha : (keys a).Nodup) (b : List (X × R)) : WF (subAssign a b) := by
  rw [subAssign_eq]; exact wf_clean (nodup_foldl_addPair _ ha)

theorem keys_map_coeff (f : R → R) (a : List (X × R)) : keys (a.map (fun p => (p.1, f p.2))) = keys a := by
  simp [keys, List.map_map, Function.comp_def]

theorem wf_smul {a : List (X × R)} (ha : WF a) (r : R) : WF (smul a r) := by
  unfold smul; split
  · exact ha
  · exact wf_clean (by rw [keys_map_coeff (fun v => v * r)]; exact ha.1)

theorem wf_neg (a : List (X × R)) : WF (neg a) := wf_fromIter _

/-! ### coefficients as a linear functional -/

/-- the functional "coefficient at `y`" -/
def delta (y : X) : X → R → R := fun x r => if x = y then r else 0

theorem delta_additive (y : X) : Additive (delta (R := R) y) :=
  ⟨fun x => by simp [delta], fun x r s => by by_cases h : x = y <;> simp [delta, h]⟩

theorem lsum_delta_of_not_mem {l : List (X × R)} {y : X} (h : y ∉ keys l) : lsum (delta y) l = 0 := by
  induction l with
  | nil => rfl
  | cons p t ih =>
    simp only [keys, List.map_cons, List.mem_cons, not_or] at h
    have : ¬ p.1 = y := fun e => h.1 e.symm
    simp [delta, this]
    exact ih h.2

theorem coeff_eq_lsum {l : List (X × R)} (h : (keys l).Nodup) (y : X) : coeff l y = lsum (delta y) l := by
  induction l with
  | nil => rfl
  | cons p t ih =>
    obtain ⟨k, v⟩ := p
    simp only [keys, List.map_cons, List.nodup_cons] at h
    unfold coeff
    by_cases e : k = y
    · subst e; simp [delta, lsum_delta_of_not_mem (l := t) h.1]
    · simp [e, delta]; exact ih h.2

theorem coeff_of_not_mem {l : List (X × R)} {y : X} (h : y ∉ keys l) : coeff l y = 0 := by
  induction l with
  | nil => rfl
  | cons p t ih =>
    obtain ⟨k, v⟩ := p
    simp only [keys, List.map_cons, List.mem_cons, not_or] at h
    have : ¬ k = y := fun e => h.1 e.symm
    simp [coeff, this]; exact ih h.2

theorem coeff_of_mem {l : List (X × R)} (h : (keys l).Nodup) {p : X × R} (hp : p ∈ l) : coeff l p.1 = p.2 := by
  induction l with
  | nil => cases hp
  | cons q t ih =>
    obtain ⟨k, v⟩ := q
    simp only [keys, List.map_cons, List.nodup_cons] at h
    rcases List.mem_cons.mp hp with e | hm
    · subst e; simp [coeff]
    · have : k ≠ p.1 := by
        intro e; apply h.1; rw [e]; exact List.mem_map.mpr ⟨p, hm, rfl⟩
      simp [coeff, this]; exact ih h.2 hm

theorem mem_of_coeff_ne_zero {l : List (X × R)} {y : X} (h : coeff l y ≠ 0) : (y, coeff l y) ∈ l := by
  induction l with
  | nil => exact absurd rfl h
  | cons q t ih =>
    obtain ⟨k, v⟩ := q
    unfold coeff at h ⊢
    by_cases e : k = y
    · subst e; simp
    · simp only [e, if_false] at h ⊢
      exact List.mem_cons_of_mem _ (ih h)

/-- under the invariant, the stored terms are exactly the non-zero values of the coefficient function -/
theorem mem_iff_coeff {l : List (X × R)} (h : WF l) (p : X × R) : p ∈ l ↔ p.2 ≠ 0 ∧ coeff l p.1 = p.2 := by
  constructor
  · intro hp; exact ⟨h.2 p hp, coeff_of_mem h.1 hp⟩
  · rintro ⟨h0, hc⟩
    have := mem_of_coeff_ne_zero (l := l) (y := p.1) (by rw [hc]; exact h0)
    rw [hc] at this; exact this

theorem mem_keys_iff {l : List (X × R)} (h : WF l) (x : X) : x ∈ keys l ↔ coeff l x ≠ 0 := by
  constructor
  · intro hx
    obtain ⟨p, hp, rfl⟩ := List.mem_map.mp hx
    rw [coeff_of_mem h.1 hp]; exact h.2 p hp
  · intro hx
    exact List.mem_map.mpr ⟨_, mem_of_coeff_ne_zero hx, rfl⟩

theorem nodup_of_wf {l : List (X × R)} (h : WF l) : l.Nodup := List.Nodup.of_map _ h.1

/-- two well-formed term lists with the same coefficient function are permutations of each other -/
theorem perm_of_coeff_eq {a b : List (X × R)} (ha : WF a) (hb : WF b)
    (h : ∀ x, coeff a x = coeff b x) : a.Perm b := by
  rw [List.perm_ext_iff_of_nodup (nodup_of_wf ha) (nodup_of_wf hb)]
  intro p
  rw [mem_iff_coeff ha, mem_iff_coeff hb, h]

theorem lsum_perm (g : X → R → A) {a b : List (X × R)} (h : a.Perm b) : lsum g a = lsum g b := by
  induction h with
  | nil => rfl
  | cons x _ ih => simp [ih]
  | swap x y l => simp; rw [← add_assoc, ← add_assoc, add_comm (g y.1 y.2)]
  | trans _ _ ih1 ih2 => exact ih1.trans ih2

theorem coeff_perm {a b : List (X × R)} (ha : (keys a).Nodup) (h : a.Perm b) (x : X) : coeff a x = coeff b x := by
  have hb : (keys b).Nodup := (List.Perm.nodup_iff (List.Perm.map _ h)).mp ha
  rw [coeff_eq_lsum ha, coeff_eq_lsum hb, lsum_perm _ h]

theorem perm_of_lsum_eq {a b : List (X × R)} (ha : WF a) (hb : WF b)
    (h : ∀ y, lsum (delta y) a = lsum (delta y) b) : a.Perm b :=
  perm_of_coeff_eq ha hb (fun y => by rw [coeff_eq_lsum ha.1, coeff_eq_lsum hb.1, h])

/-! ### coefficients of the operations -/

theorem coeff_fromIter (it : List (X × R)) (y : X) : coeff (fromIter it) y = lsum (delta y) it := by
  rw [coeff_eq_lsum (wf_fromIter it).1, lsum_fromIter (delta_additive y)]

theorem coeff_addAssign {a b : List (X × R)} (ha : (keys a).Nodup) (hb : (keys b).Nodup) (y : X) :
    coeff (addAssign a b) y = coeff a y + coeff b y := by
  rw [coeff_eq_lsum (wf_addAssign ha b).1, lsum_addAssign (delta_additive y), coeff_eq_lsum ha, coeff_eq_lsum hb]

theorem lsum_delta_neg (y : X) (b : List (X × R)) :
    lsum (fun x r => delta y x (-r)) b = - lsum (delta y) b := by
  induction b with
  | nil => simp
  | cons p t ih =>
    simp only [lsum_cons, ih]
    by_cases e : p.1 = y <;> simp [delta, e]
    abel

theorem coeff_subAssign {a b : List (X × R)} (ha : (keys a).Nodup) (hb : (keys b).Nodup) (y : X) :
    coeff (subAssign a b) y = coeff a y - coeff b y := by
  rw [coeff_eq_lsum (wf_subAssign ha b).1, lsum_subAssign (delta_additive y), coeff_eq_lsum ha,
    coeff_eq_lsum hb, lsum_delta_neg]; ring

theorem coeff_neg {a : List (X × R)} (ha : (keys a).Nodup) (y : X) : coeff (neg a) y = - coeff a y := by
  rw [coeff_eq_lsum (wf_neg a).1, lsum_neg (delta_additive y), coeff_eq_lsum ha, lsum_delta_neg]

theorem lsum_delta_mul (y : X) (c : R) (b : List (X × R)) :
    lsum (fun x r => delta y x (r * c)) b = lsum (delta y) b * c := by
  induction b with
  | nil => simp
  | cons p t ih =>
    simp only [lsum_cons, ih]
    by_cases e : p.1 = y <;> simp [delta, e]
    ring

theorem coeff_smul {a : List (X × R)} (ha : WF a) (c : R) (y : X) : coeff (smul a c) y = coeff a y * c := by
  rw [coeff_eq_lsum (wf_smul ha c).1, lsum_smul (delta_additive y), coeff_eq_lsum ha.1, lsum_delta_mul]


/-! ### generic sums -/

theorem lsum_congr {g g' : X → R → A} {l : List (X × R)} (h : ∀ p ∈ l, g p.1 p.2 = g' p.1 p.2) :
    lsum g l = lsum g' l := by
  induction l with
  | nil => rfl
  | cons p t ih =>
    simp only [lsum_cons]
    rw [h p (by simp), ih (fun q hq => h q (List.mem_cons_of_mem _ hq))]

theorem lsum_add_fun (g1 g2 : X → R → A) (l : List (X × R)) :
    lsum (fun x r => g1 x r + g2 x r) l = lsum g1 l + lsum g2 l := by
  induction l with
  | nil => simp
  | cons p t ih => simp only [lsum_cons, ih]; abel

theorem lsum_zero_fun (l : List (X × R)) : lsum (fun _ _ => (0 : A)) l = 0 := by
  induction l with
  | nil => rfl
  | cons p t ih => simp [ih]

theorem lsum_comm {Y : Type} [DecidableEq Y] (h : X → R → Y → R → A) (a : List (X × R)) (b : List (Y × R)) :
    lsum (fun x r => lsum (fun y s => h x r y s) b) a = lsum (fun y s => lsum (fun x r => h x r y s) a) b := by
  induction a with
  | nil => simp [lsum_zero_fun]
  | cons p t ih => simp only [lsum_cons, ih, lsum_add_fun]

theorem lsum_map_pair {Y : Type} [DecidableEq Y] (g : X → R → A) (fx : Y → X) (fr : R → R) (b : List (Y × R)) :
    lsum g (b.map (fun q => (fx q.1, fr q.2))) = lsum (fun y s => g (fx y) (fr s)) b := by
  induction b with
  | nil => rfl
  | cons p t ih => simp [ih]

theorem lsum_pairs (g : X → R → A) (f : X → X → X) (a b : List (X × R)) :
    lsum g (pairs f a b) = lsum (fun x r => lsum (fun y s => g (f x y) (r * s)) b) a := by
  induction a with
  | nil => rfl
  | cons p t ih =>
    unfold pairs at *
    simp only [List.flatMap_cons, lsum_append, ih, lsum_cons]
    congr 1
    exact lsum_map_pair g (fun y => f p.1 y) (fun s => p.2 * s) b

theorem lsum_combine {g : X → R → A} (hg : Additive g) (f : X → X → X) (a b : List (X × R)) :
    lsum g (combine f a b) = lsum (fun x r => lsum (fun y s => g (f x y) (r * s)) b) a := by
  rw [combine, lsum_fromIter hg, lsum_pairs]

theorem wf_combine (f : X → X → X) (a b : List (X × R)) : WF (combine f a b) := wf_fromIter _

/-- a linear functional of a (bi)linear expression in the coefficient is linear -/
theorem additive_inner {Y : Type} [DecidableEq Y] {g : X → R → A} (hg : Additive g) (f : X → Y → X) (b : List (Y × R)) :
    Additive (fun x r => lsum (fun y s => g (f x y) (r * s)) b) := by
  constructor
  · intro x; simp [hg.zero, lsum_zero_fun]
  · intro x r s
    rw [← lsum_add_fun]
    apply lsum_congr; intro p _; simp [add_mul, hg.add]

theorem additive_left {g : X → R → A} (hg : Additive g) (f : X → X) (c : R) :
    Additive (fun x r => g (f x) (c * r)) :=
  ⟨fun x => by simp [hg.zero], fun x r s => by simp [mul_add, hg.add]⟩

theorem additive_right {g : X → R → A} (hg : Additive g) (f : X → X) (c : R) :
    Additive (fun x r => g (f x) (r * c)) :=
  ⟨fun x => by simp [hg.zero], fun x r s => by simp [add_mul, hg.add]⟩

theorem additive_neg {g : X → R → A} (hg : Additive g) : Additive (fun x r => g x (-r)) :=
  ⟨fun x => by simp [hg.zero], fun x r s => by rw [neg_add, hg.add]⟩

end LcProofs

/-! ## polynomials: the monomials form a commutative monoid -/
section PolyProofs
variable {M R A : Type} [DecidableEq M] [CommMonoid M] [DecidableEq R] [CommRing R] [AddCommMonoid A]

theorem lsum_mul {g : M → R → A} (hg : Additive g) (a b : List (M × R)) :
    lsum g (mul a b) = lsum (fun x r => lsum (fun y s => g (x * y) (r * s)) b) a :=
  lsum_combine hg _ a b

theorem wf_mul (a b : List (M × R)) : WF (mul a b) := wf_combine _ a b

theorem lsum_mul_comm {g : M → R → A} (hg : Additive g) (a b : List (M × R)) :
    lsum g (mul a b) = lsum g (mul b a) := by
  rw [lsum_mul hg, lsum_mul hg, lsum_comm]
  apply lsum_congr; intro p _; apply lsum_congr; intro q _
  rw [mul_comm q.1, mul_comm q.2]

theorem lsum_mul_assoc {g : M → R → A} (hg : Additive g) (a b c : List (M × R)) :
    lsum g (mul (mul a b) c) = lsum g (mul a (mul b c)) := by
  rw [lsum_mul hg, lsum_mul (additive_inner hg (fun x y => x * y) c), lsum_mul hg]
  apply lsum_congr; intro p _
  rw [lsum_mul (additive_left hg (fun y => p.1 * y) p.2)]
  apply lsum_congr; intro q _
  apply lsum_congr; intro t _
  simp only [mul_assoc]

theorem lsum_mul_add {g : M → R → A} (hg : Additive g) (a b c : List (M × R)) :
    lsum g (mul a (addAssign b c)) = lsum g (mul a b) + lsum g (mul a c) := by
  rw [lsum_mul hg, lsum_mul hg, lsum_mul hg, ← lsum_add_fun]
  apply lsum_congr; intro p _
  exact lsum_addAssign (additive_left hg (fun y => p.1 * y) p.2) b c

theorem lsum_add_mul {g : M → R → A} (hg : Additive g) (a b c : List (M × R)) :
    lsum g (mul (addAssign a b) c) = lsum g (mul a c) + lsum g (mul b c) := by
  rw [lsum_mul hg, lsum_mul hg, lsum_mul hg]
  exact lsum_addAssign (additive_inner hg (fun x y => x * y) c) a b

theorem lsum_mul_one {g : M → R → A} (hg : Additive g) (a : List (M × R)) :
    lsum g (mul a (fromConst 1)) = lsum g a := by
  rw [lsum_mul hg]
  apply lsum_congr; intro p _
  rw [fromConst, lsum_fromIter (additive_left hg (fun y => p.1 * y) p.2)]
  simp

/-! ### the special cases of `*=` -/

theorem isConst_cases {b : List (M × R)} (hb : WF b) (hc : isConst b = true) :
    b = [] ∨ ∃ c, c ≠ 0 ∧ b = [((1 : M), c)] := by
  match b, hb, hc with
  | [], _, _ => exact Or.inl rfl
  | [p], hb, hc =>
    right
    refine ⟨p.2, hb.2 p (by simp), ?_⟩
    simp [isConst] at hc
    cases p; simp_all
  | p :: q :: t, hb, hc =>
    exfalso
    simp [isConst] at hc
    have := hb.1
    simp [hc.1, hc.2.1] at this

theorem lsum_smul_const {g : M → R → A} (hg : Additive g) (a : List (M × R)) (c : R) :
    lsum g (smul a c) = lsum g (mul a (fromConst c)) := by
  rw [lsum_smul hg, lsum_mul hg]
  apply lsum_congr; intro p _
  rw [fromConst, lsum_fromIter (additive_left hg (fun y => p.1 * y) p.2)]
  simp

theorem lsum_fromConst_zero (g : M → R → A) : lsum g (fromConst (0 : R) : List (M × R)) = 0 := by
  simp [fromConst, fromIter, addPair, clean]

theorem fromConst_of_ne {c : R} (hc : c ≠ 0) : (fromConst c : List (M × R)) = [((1 : M), c)] := by
  simp [fromConst, fromIter, addPair, clean, hc, upd]

theorem fromConst_zero : (fromConst (0 : R) : List (M × R)) = [] := by
  simp [fromConst, fromIter, addPair, clean]

/-- a well-formed constant polynomial is `from_const` of its constant term -/
theorem eq_fromConst_of_isConst {b : List (M × R)} (hb : WF b) (hc : isConst b = true) :
    b = fromConst (constTerm b) := by
  rcases isConst_cases hb hc with rfl | ⟨c, hc0, rfl⟩
  · simp [constTerm, coeff, fromConst_zero]
  · simp [constTerm, coeff, fromConst_of_ne hc0]

/-- in the zero ring every linear functional vanishes -/
theorem lsum_eq_zero_of_subsingleton {g : M → R → A} (hg : Additive g) (h01 : (0 : R) = 1)
    (a : List (M × R)) : lsum g a = 0 := by
  have all0 : ∀ r : R, r = 0 := fun r => by rw [← mul_one r, ← h01, mul_zero]
  induction a with
  | nil => rfl
  | cons p t ih => simp [ih, all0 p.2, hg.zero]

theorem lsum_mulAssign {g : M → R → A} (hg : Additive g) {a b : List (M × R)} (ha : WF a) (hb : WF b) :
    lsum g (mulAssign a b) = lsum g (mul a b) := by
  unfold mulAssign
  by_cases h1 : isOne b = true
  · rw [if_pos h1]
    simp only [isOne, Bool.and_eq_true, decide_eq_true_eq] at h1
    have hb' := eq_fromConst_of_isConst hb h1.1
    rw [hb', h1.2, lsum_mul_one hg]
  · rw [if_neg h1]
    by_cases h2 : isConst b = true
    · rw [if_pos h2]
      have hb' := eq_fromConst_of_isConst hb h2
      rw [lsum_smul_const hg]; rw [← hb']
    · rw [if_neg h2]
      by_cases h3 : isConst a = true
      · rw [if_pos h3]
        have ha' := eq_fromConst_of_isConst ha h3
        rw [lsum_smul_const hg, ← ha', lsum_mul_comm hg]
      · rw [if_neg h3]

theorem wf_mulAssign {a b : List (M × R)} (ha : WF a) (hb : WF b) : WF (mulAssign a b) := by
  unfold mulAssign
  split
  · exact ha
  · split
    · exact wf_smul ha _
    · split
      · exact wf_smul hb _
      · exact wf_mul a b

/-! ### evaluation -/

theorem foldl_add_eq (l : List R) (acc : R) : l.foldl (· + ·) acc = acc + l.foldl (· + ·) 0 := by
  induction l generalizing acc with
  | nil => simp
  | cons x t ih => simp only [List.foldl_cons]; rw [ih (acc + x), ih (0 + x)]; ring

theorem evalWith_eq_lsum (me : M → R) (a : List (M × R)) : evalWith me a = lsum (fun x r => r * me x) a := by
  unfold evalWith sumR
  induction a with
  | nil => rfl
  | cons p t ih => simp only [List.map_cons, List.foldl_cons, lsum_cons]; rw [foldl_add_eq, ih]; ring

theorem evalFun_additive (me : M → R) : Additive (fun x (r : R) => r * me x) :=
  ⟨fun x => by simp, fun x r s => by ring⟩

theorem lsum_mul_left (c : R) (g : M → R → R) (l : List (M × R)) : lsum (fun x r => c * g x r) l = c * lsum g l := by
  induction l with
  | nil => simp
  | cons p t ih => simp only [lsum_cons, ih]; ring

theorem lsum_mul_right (c : R) (g : M → R → R) (l : List (M × R)) : lsum (fun x r => g x r * c) l = lsum g l * c := by
  induction l with
  | nil => simp
  | cons p t ih => simp only [lsum_cons, ih]; ring

theorem evalWith_mul (me : M → R) (hme : ∀ x y, me (x * y) = me x * me y) (a b : List (M × R)) :
    evalWith me (mul a b) = evalWith me a * evalWith me b := by
  rw [evalWith_eq_lsum, evalWith_eq_lsum, evalWith_eq_lsum, lsum_mul (evalFun_additive me), ← lsum_mul_right]
  apply lsum_congr; intro p _
  rw [← lsum_mul_left]
  apply lsum_congr; intro q _
  simp only [hme]; ring

theorem powNat_add (x : R) (m n : Nat) : powNat x (m + n) = powNat x m * powNat x n := by
  induction n with
  | zero => simp [powNat]
  | succ k ih => rw [← Nat.add_assoc]; simp only [powNat, ih]; ring

end PolyProofs
/-! ### equality, `is_zero`, `nterms`, lead term -/
section Semantics
variable {X R : Type} [DecidableEq X] [DecidableEq R] [CommRing R]

theorem lookup?_of_mem {b : List (X × R)} (h : (keys b).Nodup) {p : X × R} (hp : p ∈ b) :
    lookup? b p.1 = some p.2 := by
  induction b with
  | nil => cases hp
  | cons q t ih =>
    obtain ⟨k, v⟩ := q
    simp only [keys, List.map_cons, List.nodup_cons] at h
    rcases List.mem_cons.mp hp with e | hm
    · subst e; simp [lookup?]
    · have : k ≠ p.1 := by
        intro e; apply h.1; rw [e]; exact List.mem_map.mpr ⟨p, hm, rfl⟩
      simp [lookup?, this]; exact ih h.2 hm

theorem mem_of_lookup? {b : List (X × R)} {k : X} {v : R} (h : lookup? b k = some v) : (k, v) ∈ b := by
  induction b with
  | nil => simp [lookup?] at h
  | cons q t ih =>
    obtain ⟨k', v'⟩ := q
    unfold lookup? at h
    by_cases e : k' = k
    · subst e; simp at h; subst h; simp
    · simp only [e, if_false] at h; exact List.mem_cons_of_mem _ (ih h)

/-- `==` on well-formed values is equality of the denoted coefficient functions -/
theorem eqv_iff {a b : List (X × R)} (ha : WF a) (hb : WF b) :
    eqv a b = true ↔ ∀ x, coeff a x = coeff b x := by
  constructor
  · intro h
    simp only [eqv, Bool.and_eq_true, beq_iff_eq, List.all_eq_true] at h
    obtain ⟨hl, hall⟩ := h
    have hsub : a ⊆ b := fun p hp => by
      have := mem_of_lookup? (hall p hp); simpa using this
    have hp : a.Perm b :=
      (List.subperm_of_subset (nodup_of_wf ha) hsub).perm_of_length_le (le_of_eq hl.symm)
    exact coeff_perm ha.1 hp
  · intro h
    have hp := perm_of_coeff_eq ha hb h
    simp only [eqv, Bool.and_eq_true, beq_iff_eq, List.all_eq_true]
    exact ⟨hp.length_eq, fun p hpa => lookup?_of_mem hb.1 (hp.subset hpa)⟩

theorem isZero_iff {a : List (X × R)} (ha : WF a) : isZero a = true ↔ ∀ x, coeff a x = 0 := by
  cases a with
  | nil => simp [isZero, coeff]
  | cons p t =>
    simp only [isZero, List.isEmpty_cons, Bool.false_eq_true, false_iff]
    intro h
    have := coeff_of_mem ha.1 (p := p) (by simp)
    exact ha.2 p (by simp) (by rw [← this, h])

/-- `nterms` is the length of a duplicate-free enumeration of the support -/
theorem nterms_eq (a : List (X × R)) : nterms a = (keys a).length := by simp [nterms, keys]

end Semantics

section Lead
variable {M R : Type} [DecidableEq M] [One M] [DecidableEq R] [CommRing R]

/-- the laws of a total order given by a three-way comparison, on the monomials satisfying `P` -/
structure OrdLaws (P : M → Prop) (cmp : M → M → Ordering) : Prop where
  eq_iff : ∀ x y, P x → P y → (cmp x y = .eq ↔ x = y)
  swap : ∀ x y, P x → P y → cmp y x = (cmp x y).swap
  trans : ∀ x y z, P x → P y → P z → cmp x y ≠ .gt → cmp y z ≠ .gt → cmp x z ≠ .gt

theorem OrdLaws.refl {P : M → Prop} {cmp : M → M → Ordering} (h : OrdLaws P cmp) {x : M} (hx : P x) :
    cmp x x = .eq := (h.eq_iff x x hx hx).mpr rfl

def step (cmp : M → M → Ordering) (acc q : M × R) : M × R := if cmp acc.1 q.1 = .gt then acc else q

theorem foldl_step_spec {P : M → Prop} {cmp : M → M → Ordering} (h : OrdLaws P cmp)
    (t : List (M × R)) (p : M × R) (hP : ∀ q ∈ p :: t, P q.1) :
    let r := t.foldl (step cmp) p
    r ∈ p :: t ∧ ∀ q ∈ p :: t, cmp q.1 r.1 ≠ .gt := by
  induction t generalizing p with
  | nil =>
    simp only [List.foldl_nil, List.mem_singleton, forall_eq, true_and]
    rw [h.refl (hP p (by simp))]; simp
  | cons q t ih =>
    have hp : P p.1 := hP p (by simp)
    have hq : P q.1 := hP q (by simp)
    have hstep : step cmp p q = p ∨ step cmp p q = q := by unfold step; split <;> simp
    have hP' : ∀ s ∈ step cmp p q :: t, P s.1 := by
      intro s hs
      rcases List.mem_cons.mp hs with e | hm
      · rcases hstep with e' | e' <;> (rw [e, e']; assumption)
      · exact hP s (by simp [hm])
    obtain ⟨hmem, hmax⟩ := ih (step cmp p q) hP'
    have hr : P ((t.foldl (step cmp) (step cmp p q)).1) := hP' _ hmem
    simp only [List.foldl_cons]
    refine ⟨?_, ?_⟩
    · rcases List.mem_cons.mp hmem with e | hm
      · rw [e]; rcases hstep with e' | e' <;> rw [e'] <;> simp
      · simp [hm]
    · intro s hs
      have hmid := hmax (step cmp p q) (by simp)
      rcases List.mem_cons.mp hs with e | hs
      · subst e
        refine h.trans _ _ _ hp (hP' _ (by simp)) hr ?_ hmid
        unfold step; split
        · rw [h.refl hp]; simp
        · assumption
      · rcases List.mem_cons.mp hs with e | hs
        · subst e
          refine h.trans _ _ _ hq (hP' _ (by simp)) hr ?_ hmid
          unfold step; split
          · rename_i hgt; rw [h.swap _ _ hp hq, hgt]; simp [Ordering.swap]
          · rw [h.refl hq]; simp
        · exact hmax s (by simp [hs])

/-- `lead_term` of a non-zero polynomial is a stored term whose monomial is maximal -/
theorem leadTerm_spec {P : M → Prop} {cmp : M → M → Ordering} (h : OrdLaws P cmp)
    {a : List (M × R)} (hP : ∀ q ∈ a, P q.1) (hne : a ≠ []) :
    leadTerm cmp a ∈ a ∧ ∀ q ∈ a, cmp q.1 (leadTerm cmp a).1 ≠ .gt := by
  cases a with
  | nil => exact absurd rfl hne
  | cons p t =>
    simp only [leadTerm, maxBy, Option.getD_some]
    exact foldl_step_spec h t p hP

/-- a maximal stored term is unique under the invariant, so `lead_term` does not depend on the iteration order -/
theorem leadTerm_unique {P : M → Prop} {cmp : M → M → Ordering} (h : OrdLaws P cmp)
    {a : List (M × R)} (ha : WF a) (hP : ∀ q ∈ a, P q.1) {r : M × R} (hr : r ∈ a)
    (hmax : ∀ q ∈ a, cmp q.1 r.1 ≠ .gt) : leadTerm cmp a = r := by
  have hne : a ≠ [] := by intro e; subst e; cases hr
  obtain ⟨hm, hx⟩ := leadTerm_spec h hP hne
  have h1 := hmax _ hm
  have h2 := hx _ hr
  have hk : (leadTerm cmp a).1 = r.1 := by
    apply (h.eq_iff _ _ (hP _ hm) (hP _ hr)).mp
    rw [h.swap _ _ (hP _ hm) (hP _ hr)] at h2
    cases hc : cmp (leadTerm cmp a).1 r.1 <;> simp_all [Ordering.swap]
  have e1 := coeff_of_mem ha.1 hm
  have e2 := coeff_of_mem ha.1 hr
  rw [hk] at e1
  exact Prod.ext hk (by rw [← e1, e2])

theorem leadTerm_perm {P : M → Prop} {cmp : M → M → Ordering} (h : OrdLaws P cmp)
    {a b : List (M × R)} (ha : WF a) (hP : ∀ q ∈ a, P q.1) (hab : a.Perm b) :
    leadTerm cmp a = leadTerm cmp b := by
  by_cases hne : a = []
  · subst hne; rw [List.Perm.nil_eq hab]
  · have hb : b ≠ [] := fun e => hne (by subst e; exact List.Perm.eq_nil hab)
    have hPb : ∀ q ∈ b, P q.1 := fun q hq => hP q (hab.symm.subset hq)
    obtain ⟨hm, hx⟩ := leadTerm_spec h hPb hb
    exact leadTerm_unique h ha hP (hab.symm.subset hm) (fun q hq => hx q (hab.subset hq))

end Lead

/-! ### transport along an injective map of generators (used for `MultiVar`: raw monomials vs. well-formed ones) -/
section KeyMap
variable {X Y R : Type} [DecidableEq X] [DecidableEq Y] [DecidableEq R] [CommRing R]

/-- rename the generators -/
def mapK (φ : X → Y) (l : List (X × R)) : List (Y × R) := l.map (fun p => (φ p.1, p.2))

theorem mapK_nil (φ : X → Y) : mapK φ ([] : List (X × R)) = [] := rfl
theorem mapK_cons (φ : X → Y) (p : X × R) (t : List (X × R)) : mapK φ (p :: t) = (φ p.1, p.2) :: mapK φ t := rfl

theorem upd_mapK {φ : X → Y} (hφ : Function.Injective φ) (l : List (X × R)) (x : X) (r : R) :
    upd (mapK φ l) (φ x) r = mapK φ (upd l x r) := by
  induction l with
  | nil => rfl
  | cons p t ih =>
    obtain ⟨y, v⟩ := p
    simp only [mapK_cons, upd]
    by_cases h : y = x
    · subst h; simp [mapK_cons]
    · have : ¬ φ y = φ x := fun e => h (hφ e)
      simp [h, this, mapK_cons, ih]

theorem addPair_mapK {φ : X → Y} (hφ : Function.Injective φ) (l : List (X × R)) (p : X × R) :
    addPair (mapK φ l) (φ p.1, p.2) = mapK φ (addPair l p) := by
  unfold addPair
  by_cases h : p.2 = 0
  · simp [h]
  · simp [h, upd_mapK hφ]

theorem clean_mapK (φ : X → Y) (l : List (X × R)) : clean (mapK φ l) = mapK φ (clean l) := by
  induction l with
  | nil => rfl
  | cons p t ih =>
    unfold clean at *
    by_cases h : p.2 = 0
    · simp [mapK_cons, List.filter_cons, h, ih]
    · simp [mapK_cons, List.filter_cons, h, ih]

theorem foldl_addPair_mapK {φ : X → Y} (hφ : Function.Injective φ) (it l : List (X × R)) :
    (mapK φ it).foldl addPair (mapK φ l) = mapK φ (it.foldl addPair l) := by
  induction it generalizing l with
  | nil => rfl
  | cons p t ih => simp only [mapK_cons, List.foldl_cons]; rw [addPair_mapK hφ, ih]

theorem fromIter_mapK {φ : X → Y} (hφ : Function.Injective φ) (it : List (X × R)) :
    fromIter (mapK φ it) = mapK φ (fromIter it) := by
  unfold fromIter
  rw [← clean_mapK, ← foldl_addPair_mapK hφ]; rfl

theorem addAssign_mapK {φ : X → Y} (hφ : Function.Injective φ) (a b : List (X × R)) :
    addAssign (mapK φ a) (mapK φ b) = mapK φ (addAssign a b) := by
  unfold addAssign
  rw [← clean_mapK, ← foldl_addPair_mapK hφ]

theorem mapK_map_coeff (φ : X → Y) (f : R → R) (a : List (X × R)) :
    mapK φ (a.map (fun p => (p.1, f p.2))) = (mapK φ a).map (fun p => (p.1, f p.2)) := by
  simp [mapK, List.map_map, Function.comp_def]

theorem subAssign_mapK {φ : X → Y} (hφ : Function.Injective φ) (a b : List (X × R)) :
    subAssign (mapK φ a) (mapK φ b) = mapK φ (subAssign a b) := by
  rw [subAssign_eq, subAssign_eq, ← clean_mapK, ← foldl_addPair_mapK hφ, mapK_map_coeff φ (fun v => -v)]

theorem smul_mapK (φ : X → Y) (a : List (X × R)) (r : R) : smul (mapK φ a) r = mapK φ (smul a r) := by
  unfold smul
  split
  · rfl
  · rw [← clean_mapK, mapK_map_coeff φ (fun v => v * r)]

theorem neg_mapK {φ : X → Y} (hφ : Function.Injective φ) (a : List (X × R)) :
    neg (mapK φ a) = mapK φ (neg a) := by
  unfold neg
  rw [← fromIter_mapK hφ, mapK_map_coeff φ (fun v => -v)]

theorem coeff_mapK {φ : X → Y} (hφ : Function.Injective φ) (l : List (X × R)) (x : X) :
    coeff (mapK φ l) (φ x) = coeff l x := by
  induction l with
  | nil => rfl
  | cons p t ih =>
    obtain ⟨y, v⟩ := p
    simp only [mapK_cons, coeff]
    by_cases h : y = x
    · subst h; simp
    · have : ¬ φ y = φ x := fun e => h (hφ e)
      simp [h, this, ih]

theorem pairs_mapK (φ : X → Y) (f : X → X → X) (f' : Y → Y → Y) (hf : ∀ x y, φ (f x y) = f' (φ x) (φ y))
    (a b : List (X × R)) : pairs f' (mapK φ a) (mapK φ b) = mapK φ (pairs f a b) := by
  unfold pairs mapK
  simp [List.flatMap_map, List.map_flatMap, List.map_map, Function.comp_def, hf]

theorem combine_mapK {φ : X → Y} (hφ : Function.Injective φ) (f : X → X → X) (f' : Y → Y → Y)
    (hf : ∀ x y, φ (f x y) = f' (φ x) (φ y)) (a b : List (X × R)) :
    combine f' (mapK φ a) (mapK φ b) = mapK φ (combine f a b) := by
  unfold combine
  rw [pairs_mapK φ f f' hf, fromIter_mapK hφ]

theorem wf_mapK {φ : X → Y} (hφ : Function.Injective φ) {a : List (X × R)} (ha : WF a) : WF (mapK φ a) := by
  constructor
  · have : (mapK φ a).map Prod.fst = (a.map Prod.fst).map φ := by
      simp [mapK, List.map_map, Function.comp_def]
    rw [this]; exact List.Nodup.map hφ ha.1
  · intro p hp
    obtain ⟨q, hq, rfl⟩ := List.mem_map.mp hp
    exact ha.2 q hq

end KeyMap

section KeyMapPoly
variable {M N R : Type} [DecidableEq M] [DecidableEq N] [Mul M] [One M] [Mul N] [One N]
  [DecidableEq R] [CommRing R]

theorem mul_mapK {φ : M → N} (hφ : Function.Injective φ) (hmul : ∀ x y, φ (x * y) = φ x * φ y)
    (a b : List (M × R)) : mul (mapK φ a) (mapK φ b) = mapK φ (mul a b) :=
  combine_mapK hφ _ _ hmul a b

theorem isConst_mapK {φ : M → N} (hφ : Function.Injective φ) (h1 : φ 1 = 1) (a : List (M × R)) :
    isConst (mapK φ a) = isConst a := by
  induction a with
  | nil => rfl
  | cons p t ih =>
    unfold isConst at *
    simp only [mapK_cons, List.all_cons, ih]
    congr 1
    have : (φ p.1 = 1) ↔ (p.1 = 1) := ⟨fun e => hφ (by rw [e, h1]), fun e => by rw [e, h1]⟩
    simp [this]

theorem constTerm_mapK {φ : M → N} (hφ : Function.Injective φ) (h1 : φ 1 = 1) (a : List (M × R)) :
    constTerm (mapK φ a) = constTerm a := by
  unfold constTerm; rw [← h1, coeff_mapK hφ]

theorem mulAssign_mapK {φ : M → N} (hφ : Function.Injective φ) (h1 : φ 1 = 1)
    (hmul : ∀ x y, φ (x * y) = φ x * φ y) (a b : List (M × R)) :
    mulAssign (mapK φ a) (mapK φ b) = mapK φ (mulAssign a b) := by
  unfold mulAssign isOne
  simp only [isConst_mapK hφ h1, constTerm_mapK hφ h1, smul_mapK, mul_mapK hφ hmul]
  split
  · rfl
  · split
    · rfl
    · split <;> rfl

end KeyMapPoly

/-! ### `HPoly`: the denoted polynomial `coeff · X^deg` as a coefficient function -/
section HPolyProofs
variable {R : Type} [DecidableEq R] [CommRing R]

def hval (a : HPoly R) (n : Nat) : R := if a.deg = n then a.coeff else 0

theorem hval_zero_of_coeff {a : HPoly R} (h : a.coeff = 0) (n : Nat) : hval a n = 0 := by
  simp [hval, h]

theorem hpoly_eqv_iff_val (a b : HPoly R) : a.eqv b = true ↔ ∀ n, hval a n = hval b n := by
  unfold HPoly.eqv
  by_cases h0 : a.coeff = 0 ∧ b.coeff = 0
  · simp only [h0, and_self, if_true, true_iff]
    intro n; rw [hval_zero_of_coeff h0.1, hval_zero_of_coeff h0.2]
  · rw [if_neg h0]
    simp only [Bool.and_eq_true, beq_iff_eq, decide_eq_true_eq]
    constructor
    · rintro ⟨hd, hc⟩ n; simp [hval, hd, hc]
    · intro h
      by_cases ha : a.coeff = 0
      · have hb : b.coeff ≠ 0 := fun e => h0 ⟨ha, e⟩
        have := h b.deg
        simp [hval, ha] at this
        exact absurd this.symm hb
      · have h1 := h a.deg
        simp only [hval, if_true] at h1
        by_cases hd : b.deg = a.deg
        · simp only [hd, if_true] at h1; exact ⟨hd.symm, h1⟩
        · simp only [hd, if_false] at h1; exact absurd h1 ha

theorem hpoly_add_val {a b c : HPoly R} (h : a.add b = Res.ok c) (n : Nat) :
    hval c n = hval a n + hval b n := by
  unfold HPoly.add HPoly.isZero at h
  by_cases ha : a.coeff = 0
  · simp only [ha, decide_true, if_true, Res.ok.injEq] at h
    subst h; simp [hval_zero_of_coeff ha]
  · by_cases hb : b.coeff = 0
    · simp only [ha, hb, decide_false, decide_true, if_true, Res.ok.injEq] at h
      have h' : a = c := by simpa using h
      subst h'; simp [hval_zero_of_coeff hb]
    · by_cases hd : a.deg = b.deg
      · simp only [ha, hb, hd, decide_false, if_true, Res.ok.injEq] at h
        have h' : (⟨b.deg, a.coeff + b.coeff⟩ : HPoly R) = c := by simpa using h
        subst h'
        by_cases hn : b.deg = n <;> simp [hval, hd, hn]
      · simp [ha, hb, hd] at h

theorem hpoly_add_panic_iff (a b : HPoly R) :
    a.add b = Res.panic ↔ a.coeff ≠ 0 ∧ b.coeff ≠ 0 ∧ a.deg ≠ b.deg := by
  unfold HPoly.add HPoly.isZero
  by_cases ha : a.coeff = 0
  · simp [ha]
  · by_cases hb : b.coeff = 0
    · simp [ha, hb]
    · by_cases hd : a.deg = b.deg <;> simp [ha, hb, hd]

end HPolyProofs

end Yuiv.C16
