import Yuiv.Proofs.C02MirrorState
namespace Yuiv.C02Mirror
open Yuiv Yuiv.KhRef Yuiv.C04Inv

/-! ### parity signs -/

def negPow (e : Nat) : Int := if e % 2 = 0 then 1 else -1

theorem negPow_add (a b : Nat) : negPow (a + b) = negPow a * negPow b := by
  unfold negPow
  rcases Nat.mod_two_eq_zero_or_one a with ha | ha <;> rcases Nat.mod_two_eq_zero_or_one b with hb | hb
  · have : (a + b) % 2 = 0 := by omega
    simp [ha, hb, this]
  · have : (a + b) % 2 = 1 := by omega
    simp [ha, hb, this]
  · have : (a + b) % 2 = 1 := by omega
    simp [ha, hb, this]
  · have : (a + b) % 2 = 0 := by omega
    simp [ha, hb, this]

theorem negPow_sq (a : Nat) : negPow a * negPow a = 1 := by
  unfold negPow; split <;> rfl

theorem negPow_unit (a : Nat) : negPow a = 1 ∨ negPow a = -1 := by
  unfold negPow; split
  · exact Or.inl rfl
  · exact Or.inr rfl

theorem edgeSign_negPow (s k : Nat) : edgeSign s k = negPow (popcount s k) := edgeSign_eq s k

/-- sum of the positions of the 1-bits of `s` below `n` -/
def posSum (n s : Nat) : Nat := ((List.range n).filter (fun i => s.testBit i)).sum

/-- the diagonal sign `σ(s) = (−1)^{sum of the positions of the 1-bits of s}` -/
def sigma (n s : Nat) : Int := negPow (posSum n s)

theorem posSum_or (n s k : Nat) (hk : k < n) (hs : s.testBit k = false) :
    posSum n (s ||| 1 <<< k) = posSum n s + k := by
  induction n with
  | zero => omega
  | succ n ih =>
    unfold posSum at ih ⊢
    rw [List.range_succ, List.filter_append, List.filter_append, List.sum_append, List.sum_append]
    by_cases h : k = n
    · subst h
      have e : (List.range k).filter (fun i => (s ||| 1 <<< k).testBit i) = (List.range k).filter (fun i => s.testBit i) := by
        apply List.filter_congr
        intro i hi
        have : i < k := List.mem_range.mp hi
        rw [testBit_or_bit]
        have : ¬ k = i := by omega
        simp [this]
      rw [e]
      have e1 : (s ||| 1 <<< k).testBit k = true := by rw [testBit_or_bit]; simp
      simp only [List.filter_cons, e1, hs, List.filter_nil, if_true, Bool.false_eq_true, if_false, List.sum_cons, List.sum_nil]
      omega
    · rw [ih (by omega)]
      have e1 : (s ||| 1 <<< k).testBit n = s.testBit n := by rw [testBit_or_bit]; simp [h]
      simp only [List.filter_cons, e1, List.filter_nil]
      omega

theorem sigma_edge (n s k : Nat) (hk : k < n) (hs : s.testBit k = false) :
    sigma n s * sigma n (s ||| 1 <<< k) = negPow k := by
  unfold sigma
  rw [posSum_or n s k hk hs, negPow_add, ← Int.mul_assoc, negPow_sq, Int.one_mul]

/-! ### complementary states -/

theorem testBit_compl (n s i : Nat) (hs : s < 2 ^ n) : (compl n s).testBit i = (decide (i < n) && !s.testBit i) :=
  testBit_flipMask n s i hs

theorem compl_compl (n s : Nat) (hs : s < 2 ^ n) : compl n (compl n s) = s := flipMask_flipMask n s hs

theorem popcount_compl_le (n s k : Nat) (hs : s < 2 ^ n) (hk : k ≤ n) :
    popcount (compl n s) k + popcount s k = k := by
  unfold popcount
  have e : (List.range k).filter (fun i => (compl n s).testBit i) = (List.range k).filter (fun i => !s.testBit i) := by
    apply List.filter_congr
    intro i hi
    have : i < k := List.mem_range.mp hi
    rw [testBit_compl n s i hs]
    have : i < n := by omega
    simp [this]
  rw [e]
  have := List.length_eq_length_filter_add (l := List.range k) (fun i => s.testBit i)
  simp only [List.length_range] at this
  omega

theorem or_bit_lt (n s k : Nat) (hs : s < 2 ^ n) (hk : k < n) : s ||| 1 <<< k < 2 ^ n := by
  rw [Nat.one_shiftLeft]
  exact Nat.or_lt_two_pow hs (Nat.pow_lt_pow_right (by omega) hk)

/-- an edge `s → s ∪ {k}` of the cube, read in the complementary states, is the edge `s̄' → s̄' ∪ {k} = s̄` -/
theorem compl_edge (n s k : Nat) (hs : s < 2 ^ n) (hk : k < n) (hb : s.testBit k = false) :
    (compl n (s ||| 1 <<< k)).testBit k = false ∧ compl n (s ||| 1 <<< k) ||| 1 <<< k = compl n s := by
  have hs' := or_bit_lt n s k hs hk
  constructor
  · rw [testBit_compl _ _ _ hs', testBit_or_bit]; simp
  · apply Nat.eq_of_testBit_eq
    intro j
    rw [testBit_or_bit, testBit_compl _ _ _ hs', testBit_compl _ _ _ hs, testBit_or_bit]
    by_cases hj : k = j
    · subst hj; simp [hb, hk]
    · simp [hj]

/-- conversely -/
theorem compl_edge_conv (n s s' k : Nat) (hs : s < 2 ^ n) (hs' : s' < 2 ^ n) (hk : k < n)
    (hb : (compl n s').testBit k = false) (he : compl n s' ||| 1 <<< k = compl n s) :
    s.testBit k = false ∧ s ||| 1 <<< k = s' := by
  have h := compl_edge n (compl n s') k (compl_lt n s') hk hb
  rw [he, compl_compl n s hs, compl_compl n s' hs'] at h
  exact h


/-! ### the two cubes -/

theorem mkCube_n (l : Link) (p : Params) : (mkCube l p).n = crossingNum l := rfl

theorem mkCube_base (l : Link) (p : Params) (hp : p.reduced = false) : (mkCube l p).base = none := by
  simp [mkCube, hp]

theorem mkCube_circ (l : Link) (p : Params) (s : Nat) (hs : s < 2 ^ crossingNum l) :
    (mkCube l p).circ[s]! = circles l (edgeLabels l) s := by
  show ((Array.range (2 ^ crossingNum l)).map (fun s => circles l (edgeLabels l) s))[s]! = _
  rw [getElem!_pos _ _ (by simpa using hs)]
  simp [Array.getElem_range]

/-- STATE CORRESPONDENCE at the level of the cubes: vertex `s̄` of the mirror cube carries the circles of vertex `s` -/
theorem cube_mirror_circ (l : Link) (p : Params) (s : Nat) (hs : s < 2 ^ crossingNum l) :
    (mkCube (mirror l) p).circ[compl (crossingNum l) s]! = (mkCube l p).circ[s]! := by
  rw [mkCube_circ _ _ _ (by rw [crossingNum_mirror]; exact compl_lt _ _), mkCube_circ _ _ _ hs, edgeLabels_mirror,
    circles_mirror l _ s hs]

theorem cube_mirror_circ' (l : Link) (p : Params) (t : Nat) (ht : t < 2 ^ crossingNum l) :
    (mkCube (mirror l) p).circ[t]! = (mkCube l p).circ[compl (crossingNum l) t]! := by
  have := cube_mirror_circ l p (compl (crossingNum l) t) (compl_lt _ _)
  rwa [compl_compl _ _ ht] at this

theorem cube_pair (l : Link) (p : Params) (hL : (edgeLabels l).size ≤ 64) (s s' : Nat) (hs : s < 2 ^ crossingNum l)
    (hs' : s' < 2 ^ crossingNum l) : Pair (mkCube l p).circ[s]! (mkCube l p).circ[s']! := by
  rw [mkCube_circ _ _ _ hs, mkCube_circ _ _ _ hs', circles_eq, circles_eq, circOut_eq, circOut_eq]
  exact ⟨circF_nodup _ _ (edgeLabels_nodup l), circF_nodup _ _ (edgeLabels_nodup l),
    Nat.le_trans (circF_size_le _ _) hL, Nat.le_trans (circF_size_le _ _) hL⟩

/-! ### coefficients of the differential -/

/-- coefficient of the generator `g'` in a list of terms -/
def coefT (ts : Array Term) (g' : Gen) : Int :=
  ((ts.toList.filter (fun x => x.1.s == g'.s && x.1.mask == g'.mask)).map (fun x => x.2)).sum

/-- the matrix entry of `Cube.d`: coefficient of `g'` in `d g` (`0` if `d g` is undefined) -/
def dCoef (c : Cube) (p : Params) (g g' : Gen) : Int :=
  match c.d p g with
  | some ts => coefT ts g'
  | none => 0

def edgeCoef (h t : Int) (cs cs' : Circ) (m m' : Nat) : Int :=
  match edgeTerms h t cs cs' m with
  | some ts => coefOf ts m'
  | none => 0

/-- contribution of the cube edge `k` to the coefficient of `g'` in `d g` -/
def kTerm (c : Cube) (p : Params) (g g' : Gen) (k : Nat) : Int :=
  if g.s.testBit k = false ∧ g.s ||| 1 <<< k = g'.s then
    edgeSign g.s k * edgeCoef p.h p.t c.circ[g.s]! c.circ[g.s ||| 1 <<< k]! g.mask g'.mask
  else 0

/-- every edge of the cube is a merge or a split (what `Cube.d` checks; fails e.g. for non-planar codes) -/
def cubeOK (c : Cube) : Prop :=
  ∀ s, s < 2 ^ c.n → ∀ k, k < c.n → s.testBit k = false → edgeOK c.circ[s]! c.circ[s ||| 1 <<< k]! = true

theorem coefT_append (a b : Array Term) (g' : Gen) : coefT (a ++ b) g' = coefT a g' + coefT b g' := by
  unfold coefT
  rw [Array.toList_append, List.filter_append, List.map_append, List.sum_append]

theorem coefT_map (tl : List (Nat × Int)) (s1 : Nat) (sign : Int) (g' : Gen) :
    coefT (tl.map (fun mt => ((⟨s1, mt.1⟩ : Gen), sign * mt.2))).toArray g'
      = if s1 = g'.s then sign * coefOf tl g'.mask else 0 := by
  unfold coefT coefOf
  induction tl with
  | nil => simp
  | cons x tl ih =>
    simp only [List.map_cons, List.filter_cons] at ih ⊢
    by_cases h1 : s1 = g'.s
    · simp only [h1, beq_self_eq_true, Bool.true_and, if_true] at ih ⊢
      by_cases h2 : x.1 = g'.mask
      · simp only [h2, beq_self_eq_true, if_true, List.map_cons, List.sum_cons, ih, Int.mul_add]
      · have : (x.1 == g'.mask) = false := beq_false_of_ne h2
        simp only [this, Bool.false_eq_true, if_false, ih]
    · have : (s1 == g'.s) = false := beq_false_of_ne h1
      simp only [this, Bool.false_and, Bool.false_eq_true, if_false, h1] at ih ⊢
      exact ih

theorem dStep_coef (c : Cube) (p : Params) (g : Gen) (out : Array Term) (k : Nat)
    (hok : g.s.testBit k = false → edgeOK c.circ[g.s]! c.circ[g.s ||| 1 <<< k]! = true) :
    ∃ ts, dStep c p g out k = some ts ∧ ∀ g', coefT ts g' = coefT out g' + kTerm c p g g' k := by
  unfold dStep kTerm edgeCoef
  cases hb : g.s.testBit k
  · have h1 := edgeTerms_isSome p.h p.t c.circ[g.s]! c.circ[g.s ||| 1 <<< k]! g.mask
    rw [hok hb] at h1
    obtain ⟨tl, htl⟩ := Option.isSome_iff_exists.1 h1
    simp only [Bool.not_false, if_true, htl]
    refine ⟨_, rfl, fun g' => ?_⟩
    rw [coefT_append, coefT_map]
    by_cases h2 : g.s ||| 1 <<< k = g'.s
    · simp [h2]
    · simp [h2]
  · refine ⟨out, by simp, fun g' => by simp⟩

theorem dF_coef (c : Cube) (p : Params) (g : Gen) (is : List Nat)
    (hok : ∀ k ∈ is, g.s.testBit k = false → edgeOK c.circ[g.s]! c.circ[g.s ||| 1 <<< k]! = true) (acc : Array Term) :
    ∃ ts, is.foldlM (dStep c p g) acc = some ts ∧
      ∀ g', coefT ts g' = coefT acc g' + (is.map (kTerm c p g g')).sum := by
  induction is generalizing acc with
  | nil => exact ⟨acc, rfl, fun g' => by simp⟩
  | cons k is ih =>
    obtain ⟨t1, e1, c1⟩ := dStep_coef c p g acc k (hok k (by simp))
    obtain ⟨t2, e2, c2⟩ := ih (fun k hk => hok k (by simp [hk])) t1
    refine ⟨t2, ?_, fun g' => ?_⟩
    · rw [List.foldlM_cons, e1]; exact e2
    · rw [c2 g', c1 g', List.map_cons, List.sum_cons, Int.add_assoc]

/-- on a cube all of whose edges are merges or splits, `d g` is defined and its coefficients are the sums of the
edge contributions -/
theorem d_coef (c : Cube) (p : Params) (g : Gen) (hb : c.base = none) (hs : g.s < 2 ^ c.n) (hok : cubeOK c) :
    (∃ ts, c.d p g = some ts) ∧ ∀ g', dCoef c p g g' = ((List.range' 0 c.n).map (kTerm c p g g')).sum := by
  obtain ⟨ts, e, hc⟩ := dF_coef c p g (List.range' 0 c.n)
    (fun k hk hbit => hok g.s hs k (by simp [List.mem_range'] at hk; omega) hbit) #[]
  have hd : c.d p g = some ts := by rw [d_eq c p g hb]; exact e
  refine ⟨⟨ts, hd⟩, fun g' => ?_⟩
  unfold dCoef
  rw [hd]
  simp only []
  rw [hc g']
  simp [coefT]


/-! ### duality -/

/-- the dual generator: complementary state, labels `1 ↔ X` swapped on every circle -/
def dualGen (c : Cube) (g : Gen) : Gen := ⟨compl c.n g.s, flipMask (c.circ[g.s]!).size g.mask⟩

/-- `g` is a generator of the (unreduced) cube -/
def IsGen (c : Cube) (g : Gen) : Prop := g.s < 2 ^ c.n ∧ g.mask < 2 ^ (c.circ[g.s]!).size

theorem edgeCoef_transpose {cs cs' : Circ} (hP : Pair cs cs') (t : Int) (m m' : Nat) (hm : m < 2 ^ cs.size)
    (hm' : m' < 2 ^ cs'.size) :
    edgeCoef 0 t cs' cs (flipMask cs'.size m') (flipMask cs.size m) = edgeCoef 0 t cs cs' m m' := by
  unfold edgeCoef
  rcases edge_transpose hP t m m' hm hm' with ⟨_, e1, e2⟩ | ⟨ts, ts', e1, e2, e3⟩
  · rw [e1, e2]
  · rw [e1, e2]; exact e3.symm

theorem sign_dual (n s k : Nat) (hs : s < 2 ^ n) (hk : k < n) (hb : s.testBit k = false) :
    edgeSign (compl n (s ||| 1 <<< k)) k = sigma n s * sigma n (s ||| 1 <<< k) * edgeSign s k := by
  rw [sigma_edge n s k hk hb, edgeSign_negPow, edgeSign_negPow]
  have h1 := popcount_compl_le n (s ||| 1 <<< k) k (or_bit_lt n s k hs hk) (Nat.le_of_lt hk)
  rw [popcount_or_le s k k (Nat.le_refl k)] at h1
  have h2 : negPow k = negPow (popcount (compl n (s ||| 1 <<< k)) k) * negPow (popcount s k) := by
    rw [← negPow_add, h1]
  rw [h2, Int.mul_assoc, negPow_sq, Int.mul_one]

theorem kTerm_pos (c : Cube) (p : Params) (s m s' m' k : Nat) (h : s.testBit k = false ∧ s ||| 1 <<< k = s') :
    kTerm c p ⟨s, m⟩ ⟨s', m'⟩ k = edgeSign s k * edgeCoef p.h p.t c.circ[s]! c.circ[s ||| 1 <<< k]! m m' := by
  unfold kTerm; exact if_pos h

theorem kTerm_neg (c : Cube) (p : Params) (s m s' m' k : Nat) (h : ¬ (s.testBit k = false ∧ s ||| 1 <<< k = s')) :
    kTerm c p ⟨s, m⟩ ⟨s', m'⟩ k = 0 := by
  unfold kTerm; exact if_neg h

/-- EDGE CONTRIBUTIONS ARE TRANSPOSED, up to the coboundary sign `σ(s)·σ(s')` -/
theorem kTerm_dual (l : Link) (p : Params) (hh : p.h = 0) (hL : (edgeLabels l).size ≤ 64) (g g' : Gen)
    (hg : IsGen (mkCube l p) g) (hg' : IsGen (mkCube l p) g') (k : Nat) (hk : k < crossingNum l) :
    kTerm (mkCube (mirror l) p) p (dualGen (mkCube l p) g') (dualGen (mkCube l p) g) k
      = sigma (crossingNum l) g.s * sigma (crossingNum l) g'.s * kTerm (mkCube l p) p g g' k := by
  obtain ⟨s, m⟩ := g
  obtain ⟨s', m'⟩ := g'
  obtain ⟨hs, hm⟩ := hg
  obtain ⟨hs', hm'⟩ := hg'
  simp only [mkCube_n] at hs hs' hm hm'
  show kTerm (mkCube (mirror l) p) p ⟨compl (crossingNum l) s', flipMask ((mkCube l p).circ[s']!).size m'⟩
      ⟨compl (crossingNum l) s, flipMask ((mkCube l p).circ[s]!).size m⟩ k
    = sigma (crossingNum l) s * sigma (crossingNum l) s' * kTerm (mkCube l p) p ⟨s, m⟩ ⟨s', m'⟩ k
  by_cases hc : s.testBit k = false ∧ s ||| 1 <<< k = s'
  · obtain ⟨hb, rfl⟩ := hc
    obtain ⟨c1, c2⟩ := compl_edge _ s k hs hk hb
    rw [kTerm_pos _ _ _ _ _ _ _ ⟨c1, c2⟩, kTerm_pos _ _ _ _ _ _ _ ⟨hb, rfl⟩, c2, cube_mirror_circ l p _ hs',
      cube_mirror_circ l p _ hs, hh,
      edgeCoef_transpose (cube_pair l p hL _ _ hs hs') p.t m m' hm hm', sign_dual _ s k hs hk hb, Int.mul_assoc]
  · rw [kTerm_neg _ _ _ _ _ _ _ hc, Int.mul_zero, kTerm_neg]
    intro ⟨c1, c2⟩
    exact hc (compl_edge_conv _ s s' k hs hs' hk c1 c2)

theorem cubeOK_mirror (l : Link) (p : Params) (hok : cubeOK (mkCube l p)) : cubeOK (mkCube (mirror l) p) := by
  intro t ht k hk hb
  have hn : (mkCube (mirror l) p).n = crossingNum l := crossingNum_mirror l
  rw [hn] at ht hk
  have ht' := or_bit_lt _ t k ht hk
  obtain ⟨c1, c2⟩ := compl_edge _ t k ht hk hb
  rw [cube_mirror_circ' l p _ ht, cube_mirror_circ' l p _ ht', edgeOK_symm, ← c2]
  exact hok _ (compl_lt _ _) k hk c1

theorem isGen_dual (l : Link) (p : Params) (g : Gen) (hg : IsGen (mkCube l p) g) :
    IsGen (mkCube (mirror l) p) (dualGen (mkCube l p) g) := by
  obtain ⟨hs, _⟩ := hg
  refine ⟨?_, ?_⟩
  · show compl _ _ < 2 ^ crossingNum (mirror l)
    rw [crossingNum_mirror]; exact compl_lt _ _
  · show flipMask _ _ < 2 ^ ((mkCube (mirror l) p).circ[compl (crossingNum l) g.s]!).size
    rw [cube_mirror_circ l p _ hs]
    exact flipMask_lt _ _

/-- CHAIN-LEVEL DUALITY, assembled: the matrix of the differential of the mirror cube, in the dual basis, is the
transpose of the matrix of the differential of the cube conjugated by the diagonal sign matrix `σ` -/
theorem dCoef_dual (l : Link) (p : Params) (hh : p.h = 0) (hr : p.reduced = false) (hL : (edgeLabels l).size ≤ 64)
    (hok : cubeOK (mkCube l p)) (g g' : Gen) (hg : IsGen (mkCube l p) g) (hg' : IsGen (mkCube l p) g') :
    dCoef (mkCube (mirror l) p) p (dualGen (mkCube l p) g') (dualGen (mkCube l p) g)
      = sigma (crossingNum l) g.s * sigma (crossingNum l) g'.s * dCoef (mkCube l p) p g g' := by
  have h1 := (d_coef (mkCube l p) p g (mkCube_base l p hr) hg.1 hok).2 g'
  have h2 := (d_coef (mkCube (mirror l) p) p _ (mkCube_base _ p hr) (isGen_dual l p g' hg').1
    (cubeOK_mirror l p hok)).2 (dualGen (mkCube l p) g)
  rw [h1, h2, ← List.sum_map_mul_left]
  congr 1
  have hn : (mkCube (mirror l) p).n = (mkCube l p).n := crossingNum_mirror l
  rw [hn]
  apply List.map_congr_left
  intro k hk
  have hk' : k < crossingNum l := by
    simp only [List.mem_range', mkCube_n] at hk
    omega
  exact kTerm_dual l p hh hL g g' hg hg' k hk'

end Yuiv.C02Mirror
