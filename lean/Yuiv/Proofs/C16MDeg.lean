import Yuiv.Proofs.C16Ord
/-
`MultiDeg` (C16): the invariant "keys strictly increasing, no zero exponent", its preservation, the denotation
`mdGet : ℕ → I`, and the monomial orders as comparisons in `Pi.Lex`.
-/
set_option linter.unusedSectionVars false
set_option linter.unusedSimpArgs false
set_option linter.unusedVariables false

namespace Yuiv.C16

section MD
variable {I : Type} [AddCommMonoid I] [LinearOrder I] [IsOrderedCancelAddMonoid I]

def mdKeys (l : List (Nat × I)) : List Nat := l.map Prod.fst

/-- the entry list of a `BTreeMap`: strictly increasing keys -/
def MDSorted (l : List (Nat × I)) : Prop := (mdKeys l).Pairwise (· < ·)

/-- invariant of `MultiDeg`: sorted and no stored zero exponent -/
def MDWF (l : List (Nat × I)) : Prop := MDSorted l ∧ ∀ p ∈ l, p.2 ≠ 0

theorem mdSorted_nil : MDSorted ([] : List (Nat × I)) := by simp [MDSorted, mdKeys]

theorem mdSorted_cons {p : Nat × I} {t : List (Nat × I)} :
    MDSorted (p :: t) ↔ (∀ k ∈ mdKeys t, p.1 < k) ∧ MDSorted t := by
  simp [MDSorted, mdKeys, List.pairwise_cons]

theorem mdSorted_nodup {l : List (Nat × I)} (h : MDSorted l) : (mdKeys l).Nodup :=
  List.Pairwise.imp (fun h => Nat.ne_of_lt h) h

theorem mdGet_of_not_mem {l : List (Nat × I)} {i : Nat} (h : i ∉ mdKeys l) : mdGet l i = 0 := by
  induction l with
  | nil => rfl
  | cons p t ih =>
    obtain ⟨k, e⟩ := p
    simp only [mdKeys, List.map_cons, List.mem_cons, not_or] at h
    have : ¬ k = i := fun e => h.1 e.symm
    simp [mdGet, this]; exact ih h.2

theorem mdGet_of_mem {l : List (Nat × I)} (h : (mdKeys l).Nodup) {p : Nat × I} (hp : p ∈ l) : mdGet l p.1 = p.2 := by
  induction l with
  | nil => cases hp
  | cons q t ih =>
    obtain ⟨k, v⟩ := q
    simp only [mdKeys, List.map_cons, List.nodup_cons] at h
    rcases List.mem_cons.mp hp with e | hm
    · subst e; simp [mdGet]
    · have : k ≠ p.1 := by
        intro e; apply h.1; rw [e]; exact List.mem_map.mpr ⟨p, hm, rfl⟩
      simp [mdGet, this]; exact ih h.2 hm

theorem mem_keys_mdUpd (op : I → I → I) (l : List (Nat × I)) (i : Nat) (d : I) (x : Nat) :
    x ∈ mdKeys (mdUpd op l i d) ↔ x = i ∨ x ∈ mdKeys l := by
  induction l with
  | nil => simp [mdUpd, mdKeys]
  | cons p t ih =>
    obtain ⟨k, e⟩ := p
    unfold mdUpd
    split
    · simp [mdKeys]
    · split
      · rename_i h; subst h; simp [mdKeys]
      · simp only [mdKeys, List.map_cons, List.mem_cons] at ih ⊢
        rw [ih]; tauto

theorem mdSorted_mdUpd (op : I → I → I) {l : List (Nat × I)} (h : MDSorted l) (i : Nat) (d : I) :
    MDSorted (mdUpd op l i d) := by
  induction l with
  | nil => simp [mdUpd, MDSorted, mdKeys]
  | cons p t ih =>
    obtain ⟨k, e⟩ := p
    rw [mdSorted_cons] at h
    unfold mdUpd
    split
    · rename_i hik
      rw [mdSorted_cons]
      refine ⟨?_, mdSorted_cons.mpr h⟩
      intro x hx
      simp only [mdKeys, List.map_cons, List.mem_cons] at hx
      rcases hx with e | hx
      · subst e; exact hik
      · exact lt_trans hik (h.1 x hx)
    · split
      · exact mdSorted_cons.mpr h
      · rename_i h1 h2
        rw [mdSorted_cons]
        refine ⟨?_, ih h.2⟩
        intro x hx
        rcases (mem_keys_mdUpd op t i d x).mp hx with e | hx
        · subst e; exact lt_of_le_of_ne (not_lt.mp h1) (fun e => h2 e.symm)
        · exact h.1 x hx

theorem mdGet_mdUpd (op : I → I → I) {l : List (Nat × I)} (h : MDSorted l) (i : Nat) (d : I) (j : Nat) :
    mdGet (mdUpd op l i d) j = if i = j then op (mdGet l i) d else mdGet l j := by
  induction l with
  | nil => simp [mdUpd, mdGet]
  | cons p t ih =>
    obtain ⟨k, e⟩ := p
    rw [mdSorted_cons] at h
    unfold mdUpd
    split
    · rename_i hik
      have hne : ¬ k = i := fun e => by subst e; exact lt_irrefl _ hik
      have hnot : i ∉ mdKeys t := fun hm => lt_irrefl _ (lt_trans hik (h.1 i hm))
      by_cases hij : i = j
      · subst hij; simp [mdGet, hne, mdGet_of_not_mem hnot]
      · simp [mdGet, hij]
    · split
      · rename_i _ hik; subst hik
        by_cases hij : i = j
        · subst hij; simp [mdGet]
        · simp [mdGet, hij]
      · rename_i h1 h2
        have hne : ¬ k = i := fun e => h2 e.symm
        by_cases hkj : k = j
        · subst hkj
          have : ¬ i = k := h2
          simp [mdGet, this]
        · simp only [mdGet, hkj, if_false, hne]
          exact ih h.2

theorem mdGet_filter {l : List (Nat × I)} (h : (mdKeys l).Nodup) (j : Nat) :
    mdGet (mdReduce l) j = mdGet l j := by
  induction l with
  | nil => rfl
  | cons p t ih =>
    obtain ⟨k, e⟩ := p
    simp only [mdKeys, List.map_cons, List.nodup_cons] at h
    unfold mdReduce at *
    by_cases he : e = 0
    · subst he
      simp only [List.filter_cons, decide_true, Bool.not_true, Bool.false_eq_true, if_false]
      rw [ih h.2]
      by_cases hkj : k = j
      · subst hkj; simp [mdGet, mdGet_of_not_mem (l := t) h.1]
      · simp [mdGet, hkj]
    · simp only [List.filter_cons, he, decide_false, Bool.not_false, if_true]
      by_cases hkj : k = j
      · simp [mdGet, hkj]
      · simp [mdGet, hkj]; exact ih h.2

theorem mdSorted_reduce {l : List (Nat × I)} (h : MDSorted l) : MDSorted (mdReduce l) := by
  unfold MDSorted mdKeys mdReduce
  exact List.Pairwise.sublist (List.Sublist.map _ List.filter_sublist) h

theorem mdWF_reduce {l : List (Nat × I)} (h : MDSorted l) : MDWF (mdReduce l) := by
  refine ⟨mdSorted_reduce h, ?_⟩
  intro p hp
  unfold mdReduce at hp
  simpa using (List.mem_filter.mp hp).2

theorem mdSorted_foldl_upd (op : I → I → I) (b : List (Nat × I)) {a : List (Nat × I)} (h : MDSorted a) :
    MDSorted (b.foldl (fun acc p => mdUpd op acc p.1 p.2) a) := by
  induction b generalizing a with
  | nil => exact h
  | cons p t ih => exact ih (mdSorted_mdUpd op h _ _)

/-- the product of monomials is again a well-formed multi-degree -/
theorem mdWF_mdAdd {a : List (Nat × I)} (ha : MDSorted a) (b : List (Nat × I)) : MDWF (mdAdd a b) :=
  mdWF_reduce (mdSorted_foldl_upd _ b ha)

theorem mdGet_foldl_add {a : List (Nat × I)} (ha : MDSorted a) {b : List (Nat × I)} (hb : (mdKeys b).Nodup)
    (j : Nat) :
    mdGet (b.foldl (fun acc p => mdUpd (· + ·) acc p.1 p.2) a) j = mdGet a j + mdGet b j := by
  induction b generalizing a with
  | nil => simp [mdGet]
  | cons p t ih =>
    obtain ⟨k, e⟩ := p
    simp only [mdKeys, List.map_cons, List.nodup_cons] at hb
    simp only [List.foldl_cons]
    rw [ih (mdSorted_mdUpd _ ha _ _) hb.2, mdGet_mdUpd _ ha]
    by_cases hkj : k = j
    · subst hkj; simp [mdGet, mdGet_of_not_mem (l := t) hb.1]
    · simp [mdGet, hkj]

/-- exponents add under multiplication of monomials -/
theorem mdGet_mdAdd {a b : List (Nat × I)} (ha : MDSorted a) (hb : MDSorted b) (j : Nat) :
    mdGet (mdAdd a b) j = mdGet a j + mdGet b j := by
  unfold mdAdd
  rw [mdGet_filter (mdSorted_nodup (mdSorted_foldl_upd _ b ha)), mdGet_foldl_add ha (mdSorted_nodup hb)]

/-- a well-formed multi-degree is determined by its exponent function -/
theorem md_ext {a b : List (Nat × I)} (ha : MDWF a) (hb : MDWF b) (h : ∀ i, mdGet a i = mdGet b i) : a = b := by
  induction a generalizing b with
  | nil =>
    cases b with
    | nil => rfl
    | cons q t =>
      exfalso
      have := h q.1
      simp [mdGet] at this
      exact hb.2 q (by simp) this.symm
  | cons p t ih =>
    cases b with
    | nil =>
      exfalso
      have := h p.1
      simp [mdGet] at this
      exact ha.2 p (by simp) this
    | cons q u =>
      obtain ⟨k, e⟩ := p
      obtain ⟨k', e'⟩ := q
      have hsa := mdSorted_cons.mp ha.1
      have hsb := mdSorted_cons.mp hb.1
      have hka : k ∉ mdKeys t := fun hm => lt_irrefl _ (hsa.1 k hm)
      have hkb : k' ∉ mdKeys u := fun hm => lt_irrefl _ (hsb.1 k' hm)
      have hkk : k = k' := by
        rcases lt_trichotomy k k' with hlt | heq | hgt
        · exfalso
          have h1 := h k
          have hnb : k ∉ mdKeys ((k', e') :: u) := by
            simp only [mdKeys, List.map_cons, List.mem_cons, not_or]
            exact ⟨ne_of_lt hlt, fun hm => lt_irrefl _ (lt_trans hlt (hsb.1 k hm))⟩
          rw [mdGet_of_not_mem hnb] at h1
          simp [mdGet] at h1
          exact ha.2 (k, e) (by simp) h1
        · exact heq
        · exfalso
          have h1 := h k'
          have hna : k' ∉ mdKeys ((k, e) :: t) := by
            simp only [mdKeys, List.map_cons, List.mem_cons, not_or]
            exact ⟨ne_of_lt hgt, fun hm => lt_irrefl _ (lt_trans hgt (hsa.1 k' hm))⟩
          rw [mdGet_of_not_mem hna] at h1
          simp [mdGet] at h1
          exact hb.2 (k', e') (by simp) h1.symm
      subst hkk
      have hee : e = e' := by have := h k; simpa [mdGet] using this
      subst hee
      have ht : t = u := by
        apply ih ⟨hsa.2, fun p hp => ha.2 p (List.mem_cons_of_mem _ hp)⟩
          ⟨hsb.2, fun p hp => hb.2 p (List.mem_cons_of_mem _ hp)⟩
        intro i
        by_cases hik : k = i
        · subst hik; rw [mdGet_of_not_mem hka, mdGet_of_not_mem hkb]
        · have := h i; simpa [mdGet, hik] using this
      rw [ht]

/-! ### total degree -/

theorem foldl_total_acc (l : List (Nat × I)) (acc : I) :
    l.foldl (fun res p => res + p.2) acc = acc + mdTotal l := by
  unfold mdTotal
  induction l generalizing acc with
  | nil => simp
  | cons p t ih => simp only [List.foldl_cons]; rw [ih (acc + p.2), ih (0 + p.2)]; simp [add_assoc]

theorem mdTotal_cons (p : Nat × I) (t : List (Nat × I)) : mdTotal (p :: t) = p.2 + mdTotal t := by
  conv_lhs => unfold mdTotal
  simp only [List.foldl_cons]; rw [foldl_total_acc]; simp

theorem mdTotal_mdUpd (l : List (Nat × I)) (i : Nat) (d : I) :
    mdTotal (mdUpd (· + ·) l i d) = mdTotal l + d := by
  induction l with
  | nil => simp [mdUpd, mdTotal_cons, mdTotal]
  | cons p t ih =>
    obtain ⟨k, e⟩ := p
    unfold mdUpd
    split
    · simp only [mdTotal_cons, zero_add]; abel
    · split
      · simp only [mdTotal_cons]; abel
      · simp only [mdTotal_cons, ih]; abel

theorem mdTotal_reduce (l : List (Nat × I)) : mdTotal (mdReduce l) = mdTotal l := by
  induction l with
  | nil => rfl
  | cons p t ih =>
    unfold mdReduce at *
    by_cases h : p.2 = 0
    · simp [List.filter_cons, h, ih, mdTotal_cons]
    · simp [List.filter_cons, h, ih, mdTotal_cons]

theorem mdTotal_mdAdd (a b : List (Nat × I)) : mdTotal (mdAdd a b) = mdTotal a + mdTotal b := by
  unfold mdAdd
  rw [mdTotal_reduce]
  induction b generalizing a with
  | nil => simp [mdTotal]
  | cons p t ih => simp only [List.foldl_cons, ih, mdTotal_mdUpd, mdTotal_cons]; abel

/-! ### `cmp_lex` is the comparison in `Pi.Lex` -/

theorem foldl_min_le (t : List (Nat × I)) (m : Nat) :
    t.foldl (fun m q => Nat.min m q.1) m ≤ m ∧ ∀ q ∈ t, t.foldl (fun m q => Nat.min m q.1) m ≤ q.1 := by
  induction t generalizing m with
  | nil => simp
  | cons p t ih =>
    simp only [List.foldl_cons]
    obtain ⟨h1, h2⟩ := ih (Nat.min m p.1)
    refine ⟨le_trans h1 (Nat.min_le_left _ _), ?_⟩
    intro q hq
    rcases List.mem_cons.mp hq with e | hm
    · subst e; exact le_trans h1 (Nat.min_le_right _ _)
    · exact h2 q hm

theorem le_foldl_max (t : List (Nat × I)) (m : Nat) :
    m ≤ t.foldl (fun m q => Nat.max m q.1) m ∧ ∀ q ∈ t, q.1 ≤ t.foldl (fun m q => Nat.max m q.1) m := by
  induction t generalizing m with
  | nil => simp
  | cons p t ih =>
    simp only [List.foldl_cons]
    obtain ⟨h1, h2⟩ := ih (Nat.max m p.1)
    refine ⟨le_trans (Nat.le_max_left _ _) h1, ?_⟩
    intro q hq
    rcases List.mem_cons.mp hq with e | hm
    · subst e; exact le_trans (Nat.le_max_right _ _) h1
    · exact h2 q hm

theorem mdMinIndex_le (a : List (Nat × I)) : ∀ q ∈ a, (mdMinIndex a).getD 0 ≤ q.1 := by
  cases a with
  | nil => simp
  | cons p t =>
    intro q hq
    simp only [mdMinIndex, Option.getD_some]
    rcases List.mem_cons.mp hq with e | hm
    · subst e; exact (foldl_min_le t q.1).1
    · exact (foldl_min_le t p.1).2 q hm

theorem le_mdMaxIndex (a : List (Nat × I)) : ∀ q ∈ a, q.1 ≤ (mdMaxIndex a).getD 0 := by
  cases a with
  | nil => simp
  | cons p t =>
    intro q hq
    simp only [mdMaxIndex, Option.getD_some]
    rcases List.mem_cons.mp hq with e | hm
    · subst e; exact (le_foldl_max t q.1).1
    · exact (le_foldl_max t p.1).2 q hm

theorem mdGet_eq_zero_of_lt_min (a : List (Nat × I)) {i : Nat} (h : i < (mdMinIndex a).getD 0) : mdGet a i = 0 := by
  apply mdGet_of_not_mem
  intro hm
  obtain ⟨q, hq, rfl⟩ := List.mem_map.mp hm
  exact absurd (mdMinIndex_le a q hq) (not_le.mpr h)

theorem mdGet_eq_zero_of_gt_max (a : List (Nat × I)) {i : Nat} (h : (mdMaxIndex a).getD 0 < i) : mdGet a i = 0 := by
  apply mdGet_of_not_mem
  intro hm
  obtain ⟨q, hq, rfl⟩ := List.mem_map.mp hm
  exact absurd (le_mdMaxIndex a q hq) (not_le.mpr h)

/-- the fold of `cmp_lex` over a list of indices -/
def lexFold (f g : Nat → I) (l : List Nat) : Ordering :=
  l.foldl (fun res i => res.then (cmpI (f i) (g i))) .eq

theorem foldl_then_init (f g : Nat → I) (l : List Nat) (c : Ordering) :
    l.foldl (fun res i => res.then (cmpI (f i) (g i))) c = c.then (lexFold f g l) := by
  unfold lexFold
  induction l generalizing c with
  | nil => cases c <;> rfl
  | cons i t ih =>
    simp only [List.foldl_cons]
    rw [ih, ih (Ordering.eq.then _)]
    cases c <;> simp [Ordering.then]

theorem lexFold_cons (f g : Nat → I) (i : Nat) (l : List Nat) :
    lexFold f g (i :: l) = (cmpI (f i) (g i)).then (lexFold f g l) := by
  conv_lhs => unfold lexFold
  simp only [List.foldl_cons]
  rw [foldl_then_init]; simp [Ordering.then]

theorem lexFold_range_lt (f g : Nat → I) (n i0 : Nat) :
    lexFold f g (List.range' i0 n) = .lt ↔
      ∃ i, i0 ≤ i ∧ i < i0 + n ∧ (∀ j, i0 ≤ j → j < i → f j = g j) ∧ f i < g i := by
  induction n generalizing i0 with
  | zero =>
    simp only [List.range'_zero, lexFold, List.foldl_nil, reduceCtorEq, false_iff]
    rintro ⟨i, h1, h2, _⟩; omega
  | succ n ih =>
    rw [List.range'_succ, lexFold_cons]
    rcases lt_trichotomy (f i0) (g i0) with h | h | h
    · rw [cmpI_lt.mpr h]
      simp only [Ordering.then, true_iff]
      exact ⟨i0, le_refl _, by omega, fun j h1 h2 => by omega, h⟩
    · rw [cmpI_eq.mpr h]
      simp only [Ordering.then]
      rw [ih (i0 + 1)]
      constructor
      · rintro ⟨i, h1, h2, h3, h4⟩
        refine ⟨i, by omega, by omega, ?_, h4⟩
        intro j hj1 hj2
        by_cases e : j = i0
        · subst e; exact h
        · exact h3 j (by omega) hj2
      · rintro ⟨i, h1, h2, h3, h4⟩
        have : i ≠ i0 := by intro e; subst e; rw [h] at h4; exact lt_irrefl _ h4
        exact ⟨i, by omega, by omega, fun j hj1 hj2 => h3 j (by omega) hj2, h4⟩
    · rw [cmpI_gt.mpr h]
      simp only [Ordering.then, reduceCtorEq, false_iff]
      rintro ⟨i, h1, h2, h3, h4⟩
      by_cases e : i = i0
      · subst e; exact lt_asymm h h4
      · have := h3 i0 (le_refl _) (by omega); rw [this] at h; exact lt_irrefl _ h

theorem lexFold_range_eq (f g : Nat → I) (n i0 : Nat) :
    lexFold f g (List.range' i0 n) = .eq ↔ ∀ i, i0 ≤ i → i < i0 + n → f i = g i := by
  induction n generalizing i0 with
  | zero => simp [lexFold]; intro i h1 h2; omega
  | succ n ih =>
    rw [List.range'_succ, lexFold_cons]
    rcases lt_trichotomy (f i0) (g i0) with h | h | h
    · rw [cmpI_lt.mpr h]
      simp only [Ordering.then, reduceCtorEq, false_iff]
      intro hh; have := hh i0 (le_refl _) (by omega); rw [this] at h; exact lt_irrefl _ h
    · rw [cmpI_eq.mpr h]
      simp only [Ordering.then]
      rw [ih (i0 + 1)]
      constructor
      · intro hh i h1 h2
        by_cases e : i = i0
        · subst e; exact h
        · exact hh i (by omega) (by omega)
      · intro hh i h1 h2; exact hh i (by omega) (by omega)
    · rw [cmpI_gt.mpr h]
      simp only [Ordering.then, reduceCtorEq, false_iff]
      intro hh; have := hh i0 (le_refl _) (by omega); rw [this] at h; exact lt_irrefl _ h

/-- `cmp_lex` compares the exponent functions in the lexicographic order of `ℕ → I` (index 0 most significant) -/
theorem mdCmpLex_eq (a b : List (Nat × I)) :
    mdCmpLex a b = cmpK (toLex (mdGet a)) (toLex (mdGet b)) := by
  have houtL : ∀ i, i < Nat.min ((mdMinIndex a).getD 0) ((mdMinIndex b).getD 0) → mdGet a i = mdGet b i := by
    intro i hi
    rw [mdGet_eq_zero_of_lt_min a (lt_of_lt_of_le hi (Nat.min_le_left _ _)),
      mdGet_eq_zero_of_lt_min b (lt_of_lt_of_le hi (Nat.min_le_right _ _))]
  have houtR : ∀ i, Nat.max ((mdMaxIndex a).getD 0) ((mdMaxIndex b).getD 0) < i → mdGet a i = mdGet b i := by
    intro i hi
    rw [mdGet_eq_zero_of_gt_max a (lt_of_le_of_lt (Nat.le_max_left _ _) hi),
      mdGet_eq_zero_of_gt_max b (lt_of_le_of_lt (Nat.le_max_right _ _) hi)]
  show lexFold (mdGet a) (mdGet b) (List.range' _ _) = _
  generalize Nat.min ((mdMinIndex a).getD 0) ((mdMinIndex b).getD 0) = i0 at *
  generalize Nat.max ((mdMaxIndex a).getD 0) ((mdMaxIndex b).getD 0) = i1 at *
  apply ordering_ext
  · rw [lexFold_range_lt, cmpK_lt]
    show _ ↔ ∃ i, (∀ j, j < i → mdGet a j = mdGet b j) ∧ mdGet a i < mdGet b i
    constructor
    · rintro ⟨i, h1, h2, h3, h4⟩
      refine ⟨i, fun j hj => ?_, h4⟩
      by_cases hj0 : j < i0
      · exact houtL j hj0
      · exact h3 j (by omega) hj
    · rintro ⟨i, h3, h4⟩
      have hi0 : i0 ≤ i := by
        by_contra hc; rw [houtL i (by omega)] at h4; exact lt_irrefl _ h4
      have hi1 : i ≤ i1 := by
        by_contra hc; rw [houtR i (by omega)] at h4; exact lt_irrefl _ h4
      exact ⟨i, hi0, by omega, fun j _ hj => h3 j hj, h4⟩
  · rw [lexFold_range_eq, cmpK_eq]
    constructor
    · intro h
      congr 1; funext i
      by_cases hi0 : i < i0
      · exact houtL i hi0
      · by_cases hi1 : i1 < i
        · exact houtR i hi1
        · exact h i (by omega) (by omega)
    · intro h i _ _
      have := toLex.injective h
      rw [this]

theorem mdCmpGrlex_eq (a b : List (Nat × I)) :
    mdCmpGrlex a b = cmpK (toLex (mdTotal a, toLex (mdGet a))) (toLex (mdTotal b, toLex (mdGet b))) := by
  unfold mdCmpGrlex
  rw [mdCmpLex_eq, cmpK_then_lex]

theorem md_ordLaws_lex : OrdLaws (MDWF (I := I)) mdCmpLex :=
  ordLaws_of_key _ (fun a => toLex (mdGet a)) _
    (fun x y hx hy h => md_ext hx hy (fun i => congrFun (toLex.injective h) i))
    (fun x y _ _ => mdCmpLex_eq x y)

theorem md_ordLaws_grlex : OrdLaws (MDWF (I := I)) mdCmpGrlex :=
  ordLaws_of_key _ (fun a => toLex (mdTotal a, toLex (mdGet a))) _
    (fun x y hx hy h => by
      have h1 := toLex.injective h; simp only [Prod.mk.injEq] at h1
      exact md_ext hx hy (fun i => congrFun (toLex.injective h1.2) i))
    (fun x y _ _ => mdCmpGrlex_eq x y)

theorem cmpI_pilex_add (f g h : Nat → I) :
    cmpK (toLex (fun i => f i + h i)) (toLex (fun i => g i + h i)) = cmpK (toLex f) (toLex g) := by
  apply ordering_ext
  · rw [cmpK_lt, cmpK_lt]
    show (∃ i, (∀ j, j < i → f j + h j = g j + h j) ∧ f i + h i < g i + h i) ↔
      ∃ i, (∀ j, j < i → f j = g j) ∧ f i < g i
    simp only [add_left_inj, add_lt_add_iff_right]
  · rw [cmpK_eq, cmpK_eq]
    constructor
    · intro e
      have := toLex.injective e
      congr 1; funext i
      exact add_right_cancel (congrFun this i)
    · intro e
      have := toLex.injective e
      rw [this]

/-- compatibility of `cmp_lex` with multiplication of monomials -/
theorem mdCmpLex_mdAdd {a b c : List (Nat × I)} (ha : MDSorted a) (hb : MDSorted b) (hc : MDSorted c) :
    mdCmpLex (mdAdd a c) (mdAdd b c) = mdCmpLex a b := by
  rw [mdCmpLex_eq, mdCmpLex_eq]
  have e1 : mdGet (mdAdd a c) = fun i => mdGet a i + mdGet c i := funext (mdGet_mdAdd ha hc)
  have e2 : mdGet (mdAdd b c) = fun i => mdGet b i + mdGet c i := funext (mdGet_mdAdd hb hc)
  rw [e1, e2, cmpI_pilex_add]

theorem mdCmpGrlex_mdAdd {a b c : List (Nat × I)} (ha : MDSorted a) (hb : MDSorted b) (hc : MDSorted c) :
    mdCmpGrlex (mdAdd a c) (mdAdd b c) = mdCmpGrlex a b := by
  unfold mdCmpGrlex
  rw [mdCmpLex_mdAdd ha hb hc, mdTotal_mdAdd, mdTotal_mdAdd, cmpI_add_right]

/-! ### constructors -/

theorem mdInsert_eq_mdUpd (l : List (Nat × I)) (i : Nat) (v : I) :
    mdInsert l i v = mdUpd (fun _ d => d) l i v := by
  induction l with
  | nil => rfl
  | cons p t ih =>
    obtain ⟨k, e⟩ := p
    unfold mdInsert mdUpd
    split
    · rfl
    · split
      · rfl
      · rw [ih]

theorem mdUpd_ne_zero (op : I → I → I) {l : List (Nat × I)} (h : ∀ p ∈ l, p.2 ≠ 0) (i : Nat) (d : I)
    (hop : ∀ e, op e d ≠ 0) : ∀ p ∈ mdUpd op l i d, p.2 ≠ 0 := by
  induction l with
  | nil => intro p hp; simp [mdUpd] at hp; subst hp; exact hop 0
  | cons q t ih =>
    obtain ⟨k, e⟩ := q
    unfold mdUpd
    split
    · intro p hp
      rcases List.mem_cons.mp hp with e' | hm
      · subst e'; exact hop 0
      · exact h p hm
    · split
      · intro p hp
        rcases List.mem_cons.mp hp with e' | hm
        · subst e'; exact hop e
        · exact h p (List.mem_cons_of_mem _ hm)
      · intro p hp
        rcases List.mem_cons.mp hp with e' | hm
        · subst e'; exact h _ (by simp)
        · exact ih (fun p hp => h p (List.mem_cons_of_mem _ hp)) p hm

/-- `MultiDeg::from_iter` (and hence `From<[I; N]>`, `MultiVar::from_iter`) establishes the invariant -/
theorem mdWF_fromIter (it : List (Nat × I)) : MDWF (mdFromIter it) := by
  unfold mdFromIter
  have key : ∀ (l : List (Nat × I)) (acc : List (Nat × I)), (∀ p ∈ l, p.2 ≠ 0) → MDWF acc →
      MDWF (l.foldl (fun acc p => mdInsert acc p.1 p.2) acc) := by
    intro l
    induction l with
    | nil => intro acc _ h; exact h
    | cons p t ih =>
      intro acc hl hacc
      simp only [List.foldl_cons]
      apply ih _ (fun q hq => hl q (List.mem_cons_of_mem _ hq))
      rw [mdInsert_eq_mdUpd]
      exact ⟨mdSorted_mdUpd _ hacc.1 _ _, mdUpd_ne_zero _ hacc.2 _ _ (fun _ => hl p (by simp))⟩
  apply key
  · intro p hp; simpa using (List.mem_filter.mp hp).2
  · exact ⟨mdSorted_nil, by simp⟩

/-! ### well-formed multivariate monomials form a commutative monoid -/

/-- `MultiVar` values satisfying the invariant of `MultiDeg` -/
def WMVar (I : Type) [AddCommMonoid I] [LinearOrder I] [IsOrderedCancelAddMonoid I] :=
  { m : MVar I // MDWF m.d }

instance : DecidableEq (WMVar I) := fun a b => decidable_of_iff (a.1 = b.1) Subtype.ext_iff.symm

theorem WMVar.ext' {a b : WMVar I} (h : ∀ i, mdGet a.1.d i = mdGet b.1.d i) : a = b := by
  apply Subtype.ext
  have := md_ext a.2 b.2 h
  cases ha : a.1; cases hb : b.1; simp_all

instance : Mul (WMVar I) := ⟨fun a b => ⟨a.1 * b.1, mdWF_mdAdd a.2.1 b.1.d⟩⟩
instance : One (WMVar I) := ⟨⟨1, ⟨mdSorted_nil, by intro p hp; cases hp⟩⟩⟩

theorem WMVar.get_mul (a b : WMVar I) (i : Nat) :
    mdGet (a * b).1.d i = mdGet a.1.d i + mdGet b.1.d i := mdGet_mdAdd a.2.1 b.2.1 i

theorem WMVar.get_one (i : Nat) : mdGet (1 : WMVar I).1.d i = 0 := rfl

/-- forget the invariant -/
def WMVar.val (a : WMVar I) : MVar I := a.1
theorem WMVar.val_injective : Function.Injective (WMVar.val (I := I)) := fun a b h => Subtype.ext h
theorem WMVar.val_mul (a b : WMVar I) : (a * b).val = a.val * b.val := rfl
theorem WMVar.val_one : (1 : WMVar I).val = 1 := rfl
theorem WMVar.val_wf (a : WMVar I) : MDWF a.val.d := a.2

instance : CommMonoid (WMVar I) where
  mul_assoc a b c := WMVar.ext' (fun i => by simp only [WMVar.get_mul, add_assoc])
  one_mul a := WMVar.ext' (fun i => by simp only [WMVar.get_mul, WMVar.get_one, zero_add])
  mul_one a := WMVar.ext' (fun i => by simp only [WMVar.get_mul, WMVar.get_one, add_zero])
  mul_comm a b := WMVar.ext' (fun i => by simp only [WMVar.get_mul, add_comm])

end MD

/-! ### `isize`-only and `usize`-only operations -/

theorem mdWF_mdNeg {a : List (Nat × Int)} (ha : MDWF a) : MDWF (mdNeg a) := by
  constructor
  · have : mdKeys (mdNeg a) = mdKeys a := by simp [mdNeg, mdKeys, List.map_map, Function.comp_def]
    unfold MDSorted; rw [this]; exact ha.1
  · intro p hp
    obtain ⟨q, hq, rfl⟩ := List.mem_map.mp hp
    simpa using ha.2 q hq

theorem mdGet_mdNeg (a : List (Nat × Int)) (j : Nat) : mdGet (mdNeg a) j = - mdGet a j := by
  induction a with
  | nil => simp [mdNeg, mdGet]
  | cons p t ih =>
    unfold mdNeg at *
    by_cases h : p.1 = j <;> simp [mdGet, h, ih]

theorem mdWF_mdSubInt {a : List (Nat × Int)} (ha : MDSorted a) (b : List (Nat × Int)) : MDWF (mdSubInt a b) :=
  mdWF_reduce (mdSorted_foldl_upd _ b ha)

theorem mdGet_mdSubInt {a b : List (Nat × Int)} (ha : MDSorted a) (hb : MDSorted b) (j : Nat) :
    mdGet (mdSubInt a b) j = mdGet a j - mdGet b j := by
  unfold mdSubInt
  rw [mdGet_filter (mdSorted_nodup (mdSorted_foldl_upd _ b ha))]
  have hbn := mdSorted_nodup hb
  clear hb
  induction b generalizing a with
  | nil => simp [mdGet]
  | cons p t ih =>
    obtain ⟨k, e⟩ := p
    simp only [mdKeys, List.map_cons, List.nodup_cons] at hbn
    simp only [List.foldl_cons]
    rw [ih (mdSorted_mdUpd _ ha _ _) hbn.2, mdGet_mdUpd _ ha]
    by_cases hkj : k = j
    · subst hkj; simp [mdGet, mdGet_of_not_mem (l := t) hbn.1]
    · simp [mdGet, hkj]


/-! ### `usize` subtraction: panics exactly on underflow -/

theorem mdUpdSubNat_eq {l : List (Nat × Nat)} (h : MDSorted l) (i d : Nat) :
    mdUpdSubNat l i d =
      if d ≤ mdGet l i then Res.ok (mdUpd (fun e d => e - d) l i d) else Res.panic := by
  induction l with
  | nil => simp [mdUpdSubNat, mdGet, mdUpd]
  | cons p t ih =>
    obtain ⟨k, e⟩ := p
    rw [mdSorted_cons] at h
    unfold mdUpdSubNat mdUpd
    split
    · rename_i hik
      have hne : ¬ k = i := fun e => by subst e; exact lt_irrefl _ hik
      have hnot : i ∉ mdKeys t := fun hm => lt_irrefl _ (lt_trans hik (h.1 i hm))
      simp [mdGet, hne, mdGet_of_not_mem hnot]
    · split
      · rename_i _ hik; subst hik; simp [mdGet]
      · rename_i h1 h2
        have hne : ¬ k = i := fun e => h2 e.symm
        rw [ih h.2]
        simp only [mdGet, hne, if_false]
        split <;> rfl

def subStep (acc : Res (List (Nat × Nat))) (p : Nat × Nat) : Res (List (Nat × Nat)) :=
  Res.bind acc (fun l => mdUpdSubNat l p.1 p.2)

theorem foldl_subStep_panic (b : List (Nat × Nat)) : b.foldl subStep Res.panic = Res.panic := by
  induction b with
  | nil => rfl
  | cons p t ih => simpa [List.foldl_cons, subStep, Res.bind] using ih

theorem foldl_subStep_ok {a : List (Nat × Nat)} (ha : MDSorted a) {b : List (Nat × Nat)}
    (hb : (mdKeys b).Nodup) (hle : ∀ j, mdGet b j ≤ mdGet a j) :
    ∃ c, b.foldl subStep (Res.ok a) = Res.ok c ∧ MDSorted c ∧ ∀ j, mdGet c j = mdGet a j - mdGet b j := by
  induction b generalizing a with
  | nil => exact ⟨a, rfl, ha, fun j => by simp [mdGet]⟩
  | cons p t ih =>
    obtain ⟨k, e⟩ := p
    simp only [mdKeys, List.map_cons, List.nodup_cons] at hb
    have hk : e ≤ mdGet a k := by have := hle k; simpa [mdGet] using this
    simp only [List.foldl_cons, subStep, Res.bind]
    rw [mdUpdSubNat_eq ha, if_pos hk]
    have ha' := mdSorted_mdUpd (fun e d => e - d) ha k e
    have hget := mdGet_mdUpd (fun e d => e - d) ha k e
    have hle' : ∀ j, mdGet t j ≤ mdGet (mdUpd (fun e d => e - d) a k e) j := by
      intro j
      rw [hget]
      by_cases hkj : k = j
      · subst hkj; simp [mdGet_of_not_mem (l := t) hb.1]
      · have := hle j; simp only [mdGet, hkj, if_false] at this; simpa [hkj] using this
    obtain ⟨c, hc, hs, hg⟩ := ih ha' hb.2 hle'
    refine ⟨c, hc, hs, fun j => ?_⟩
    rw [hg j, hget]
    by_cases hkj : k = j
    · subst hkj; simp [mdGet, mdGet_of_not_mem (l := t) hb.1]
    · simp [mdGet, hkj]

theorem foldl_subStep_underflow {a : List (Nat × Nat)} (ha : MDSorted a) {b : List (Nat × Nat)}
    (hb : (mdKeys b).Nodup) (hlt : ∃ j, mdGet a j < mdGet b j) :
    b.foldl subStep (Res.ok a) = Res.panic := by
  induction b generalizing a with
  | nil => obtain ⟨j, hj⟩ := hlt; simp [mdGet] at hj
  | cons p t ih =>
    obtain ⟨k, e⟩ := p
    simp only [mdKeys, List.map_cons, List.nodup_cons] at hb
    simp only [List.foldl_cons, subStep, Res.bind]
    rw [mdUpdSubNat_eq ha]
    by_cases hk : e ≤ mdGet a k
    · rw [if_pos hk]
      apply ih (mdSorted_mdUpd _ ha k e) hb.2
      obtain ⟨j, hj⟩ := hlt
      have hkj : ¬ k = j := by
        intro e'; subst e'; simp [mdGet] at hj; omega
      refine ⟨j, ?_⟩
      rw [mdGet_mdUpd _ ha]
      simpa [mdGet, hkj] using hj
    · rw [if_neg hk]; exact foldl_subStep_panic t

theorem mdSubNat_eq (a b : List (Nat × Nat)) :
    mdSubNat a b = Res.bind (b.foldl subStep (Res.ok a)) (fun l => Res.ok (mdReduce l)) := rfl

/-- `MultiDeg<usize>` subtraction succeeds iff no exponent underflows; the result satisfies the invariant and
subtracts exponents -/
theorem mdSubNat_ok {a b : List (Nat × Nat)} (ha : MDSorted a) (hb : MDSorted b)
    (hle : ∀ j, mdGet b j ≤ mdGet a j) :
    ∃ c, mdSubNat a b = Res.ok c ∧ MDWF c ∧ ∀ j, mdGet c j = mdGet a j - mdGet b j := by
  obtain ⟨c, hc, hs, hg⟩ := foldl_subStep_ok ha (mdSorted_nodup hb) hle
  refine ⟨mdReduce c, by rw [mdSubNat_eq, hc]; rfl, mdWF_reduce hs, fun j => ?_⟩
  rw [mdGet_filter (mdSorted_nodup hs), hg]

theorem mdSubNat_panic {a b : List (Nat × Nat)} (ha : MDSorted a) (hb : MDSorted b)
    (hlt : ∃ j, mdGet a j < mdGet b j) : mdSubNat a b = Res.panic := by
  rw [mdSubNat_eq, foldl_subStep_underflow ha (mdSorted_nodup hb) hlt]; rfl

end Yuiv.C16
