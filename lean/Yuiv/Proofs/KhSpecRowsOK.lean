import Yuiv.Proofs.KhSpecHom
/-
KhSpec — the sparse rows that `homologyOf` builds for a family closed under `d` are well-formed, GIVEN that
`normalizeRow` produces well-formed rows (`NormOK`; proved in `Proofs/KhSpecSort.lean` from the sortedness of `qsort`).
-/
namespace Yuiv.KhSpec
open Yuiv Yuiv.KhRef Matrix Yuiv.KhSnf

/-- `normalizeRow` returns a well-formed row when all columns are in range -/
def NormOK : Prop := ∀ (n : Nat) (r : Array (Nat × Int)), (∀ x ∈ r.toList, x.1 < n) → RowOK n (normalizeRow r)

variable {c : Cube} {p : Params} {G : Array (Array Gen)}

theorem rowsOK_of_fam (hN : NormOK) (F : Fam c p G) : RowsOK G (dTab c p (gensByWeight c)) := by
  intro j _ r hr
  rw [rowsAt_eq] at hr
  simp only [Array.toList_map, List.mem_map] at hr
  obtain ⟨g, hg, rfl⟩ := hr
  apply hN
  intro x hx
  simp only [Array.toList_map, List.mem_map] at hx
  obtain ⟨t, ht, rfl⟩ := hx
  have hmem := F.tgt j g hg t ht
  obtain ⟨jj, hjj, e⟩ := List.mem_iff_getElem.mp hmem
  have hjj' : jj < (G[j + 1]!).size := by simpa using hjj
  have e' : (G[j + 1]!)[jj]! = t.1 := by
    rw [getElem!_pos _ jj hjj']; simpa using e
  show ((idxK (G[j + 1]!) (G[j + 1]!).size).get? t.1).getD 0 < _
  rw [← e', idxK_get _ (F.nd (j + 1)) _ (Nat.le_refl _) jj hjj']
  exact hjj'

end Yuiv.KhSpec
