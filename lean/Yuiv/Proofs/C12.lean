import Yuiv.Model.C12Rings
import Mathlib.Tactic.Ring
import Mathlib.Tactic.Linarith
import Mathlib.Algebra.BigOperators.Group.Finset.Basic
import Mathlib.Algebra.BigOperators.Ring.Finset
import Mathlib.Data.Matrix.Mul
import Mathlib.Data.Fintype.BigOperators

namespace Yuiv.C12
open Yuiv
set_option linter.unusedSectionVars false
set_option linter.unusedSimpArgs false

class LawfulScal (R : Type) [CommRing R] [Scal R] : Prop where
  zero_eq : (Scal.zero : R) = 0
  one_eq : (Scal.one : R) = 1
  add_eq : ∀ a b : R, Scal.add a b = a + b
  sub_eq : ∀ a b : R, Scal.sub a b = a - b
  mul_eq : ∀ a b : R, Scal.mul a b = a * b
  neg_eq : ∀ a : R, Scal.neg a = -a
  isZero_iff : ∀ a : R, Scal.isZero a = true ↔ a = 0
  inv_mul : ∀ a b : R, Scal.inv a = some b → a * b = 1

section
variable {R : Type} [CommRing R] [Scal R] [LawfulScal R]
open LawfulScal

theorem isZero_false_iff (a : R) : isZero a = false ↔ a ≠ 0 := by
  constructor
  · intro h h0; rw [(isZero_iff a).2 h0] at h; cases h
  · intro h; cases hz : isZero a
    · rfl
    · exact absurd ((isZero_iff a).1 hz) h

theorem lsum_eq (l : List R) : lsum l = l.sum := by
  induction l with
  | nil => simp [lsum, zero_eq]
  | cons a l ih => simp [lsum, add_eq, ih]

theorem colSum_nil (k : Nat) : colSum ([] : List (Nat × R)) k = 0 := by
  simp [colSum, lsum, zero_eq]

theorem colSum_cons (e : Nat × R) (l : List (Nat × R)) (k : Nat) :
    colSum (e :: l) k = (if e.1 = k then e.2 else 0) + colSum l k := by
  unfold colSum
  by_cases h : e.1 = k
  · simp [h, lsum, add_eq]
  · have : (e.1 == k) = false := by simpa using h
    simp [this, h]

theorem colSum_append (l₁ l₂ : List (Nat × R)) (k : Nat) :
    colSum (l₁ ++ l₂) k = colSum l₁ k + colSum l₂ k := by
  induction l₁ with
  | nil => simp [colSum_nil]
  | cons e l ih => simp [colSum_cons, ih, add_assoc]

theorem colSum_reverse (l : List (Nat × R)) (k : Nat) : colSum l.reverse k = colSum l k := by
  induction l with
  | nil => rfl
  | cons e l ih => simp [colSum_append, colSum_cons, colSum_nil, ih, add_comm]

theorem colSum_filter_nz (l : List (Nat × R)) (k : Nat) :
    colSum (l.filter fun e => !isZero e.2) k = colSum l k := by
  induction l with
  | nil => rfl
  | cons e l ih =>
    by_cases hz : isZero e.2 = true
    · have h0 : e.2 = 0 := (isZero_iff _).1 hz
      rw [List.filter_cons_of_neg (by simp [hz]), ih, colSum_cons, h0]; simp
    · rw [List.filter_cons_of_pos (by simpa using hz), colSum_cons, colSum_cons, ih]

theorem bget_bset (b : Array R) (i k : Nat) (v : R) :
    bget (bset b i v) k = if i = k ∧ i < b.size then v else bget b k := by
  unfold bget bset
  by_cases h : i = k
  · subst h
    by_cases hi : i < b.size
    · simp [hi, Array.getD_eq_getD_getElem?]
    · simp [hi, Array.getD_eq_getD_getElem?]
  · simp [h, Array.getD_eq_getD_getElem?, Array.getElem?_setIfInBounds_ne h]

theorem size_bset (b : Array R) (i : Nat) (v : R) : (bset b i v).size = b.size := by
  simp [bset]


/-! ### the inner loop -/

theorem size_colStep (x : R) (b : Array R) (c : List (Nat × R)) : (colStep x b c).size = b.size := by
  induction c generalizing b with
  | nil => rfl
  | cons e c ih =>
    unfold colStep
    split
    · exact ih b
    · rw [ih, size_bset]

theorem bget_colStep (x : R) (b : Array R) (c : List (Nat × R)) (hc : ∀ e ∈ c, e.1 < b.size) (k : Nat) :
    bget (colStep x b c) k = bget b k - colSum c k * x := by
  induction c generalizing b with
  | nil => simp [colStep, colSum_nil]
  | cons e c ih =>
    have he : e.1 < b.size := hc e (by simp)
    unfold colStep
    by_cases hz : isZero e.2 = true
    · have h0 : e.2 = 0 := (isZero_iff _).1 hz
      rw [if_pos hz, ih b (fun e' h' => hc e' (by simp [h'])), colSum_cons, h0]; simp
    · rw [if_neg hz, ih _ (fun e' h' => by rw [size_bset]; exact hc e' (by simp [h'])), bget_bset, colSum_cons]
      by_cases hk : e.1 = k
      · subst hk; simp [he, sub_eq, mul_eq]; ring
      · simp [hk]

/-! ### the outer loop: `A·x_partial + b` is invariant -/

/-- rows of stored entries are in range and the column array has the right size -/
structure WF (A : SpMat R) : Prop where
  size : A.cols.size = A.ncols
  rows : ∀ j, ∀ e ∈ col A j, e.1 < A.nrows

theorem colVec_rows {A : SpMat R} (h : WF A) (j : Nat) : ∀ e ∈ colVec A j, e.1 < A.nrows := by
  intro e he
  exact h.rows j e (List.mem_of_mem_filter he)

theorem entry_colVec (A : SpMat R) (i j : Nat) : colSum (colVec A j) i = entry A i j := by
  unfold colVec entry; exact colSum_filter_nz _ _

/-- `(A·x)_i` for the partial solution stored in `es` -/
def axAt (A : SpMat R) (n : Nat) (es : List (Nat × R)) (i : Nat) : R :=
  ∑ j ∈ Finset.range n, entry A i j * colSum es j

theorem axAt_push (A : SpMat R) (n : Nat) (es : List (Nat × R)) (j : Nat) (x : R) (hj : j < n) (i : Nat) :
    axAt A n (es ++ [(j, x)]) i = axAt A n es i + entry A i j * x := by
  unfold axAt
  have : ∀ j' ∈ Finset.range n, entry A i j' * colSum (es ++ [(j, x)]) j' =
      entry A i j' * colSum es j' + (if j = j' then entry A i j' * x else 0) := by
    intro j' _
    rw [colSum_append, colSum_cons, colSum_nil]
    by_cases h : j = j' <;> simp [h, mul_add]
  rw [Finset.sum_congr rfl this, Finset.sum_add_distrib, Finset.sum_ite_eq]
  simp [hj]

theorem outer_invariant (A : SpMat R) (hA : WF A) (n : Nat) (hn : A.nrows = n)
    (js : List (Nat × R)) (hjs : ∀ ju ∈ js, ju.1 < n) (b : Array R) (hb : b.size = n)
    (es : List (Nat × R)) (b' : Array R) (es' : List (Nat × R))
    (h : outer A b es js = .ok (b', es')) :
    b'.size = n ∧ ∀ i, axAt A n es' i + bget b' i = axAt A n es i + bget b i := by
  induction js generalizing b es with
  | nil =>
    simp only [outer, Res.ok.injEq, Prod.mk.injEq] at h
    obtain ⟨rfl, rfl⟩ := h
    exact ⟨hb, fun _ => rfl⟩
  | cons ju js ih =>
    have hj : ju.1 < n := hjs ju (by simp)
    have hjs' : ∀ ju' ∈ js, ju'.1 < n := fun ju' h' => hjs ju' (by simp [h'])
    unfold outer at h
    rw [if_neg (by omega)] at h
    by_cases hz : isZero (bget b ju.1) = true
    · rw [if_pos hz] at h
      exact ih hjs' b hb es h
    · rw [if_neg hz] at h
      cases hi : inv ju.2 with
      | none => rw [hi] at h; cases h
      | some ui =>
        rw [hi] at h
        simp only at h
        obtain ⟨hs, hinv⟩ := ih hjs' _ (by rw [size_colStep, hb]) _ h
        refine ⟨hs, fun i => ?_⟩
        rw [hinv i, axAt_push A n es ju.1 _ hj, bget_colStep _ _ _ (fun e he => by rw [hb, ← hn]; exact colVec_rows hA _ e he),
          entry_colVec]
        ring


theorem outer_index (A : SpMat R) (n : Nat) (js : List (Nat × R)) (hjs : ∀ ju ∈ js, ju.1 < n)
    (b : Array R) (es : List (Nat × R)) (hes : ∀ e ∈ es, e.1 < n) (b' : Array R) (es' : List (Nat × R))
    (h : outer A b es js = .ok (b', es')) : ∀ e ∈ es', e.1 < n := by
  induction js generalizing b es with
  | nil =>
    simp only [outer, Res.ok.injEq, Prod.mk.injEq] at h
    obtain ⟨-, rfl⟩ := h; exact hes
  | cons ju js ih =>
    have hj : ju.1 < n := hjs ju (by simp)
    have hjs' : ∀ ju' ∈ js, ju'.1 < n := fun ju' h' => hjs ju' (by simp [h'])
    unfold outer at h
    split at h
    · cases h
    · split at h
      · exact ih hjs' b es hes h
      · split at h
        · cases h
        · refine ih hjs' _ _ ?_ h
          intro e he
          rcases List.mem_append.1 he with he | he
          · exact hes e he
          · simp at he; subst he; exact hj

/-! ### triangular matrices with unit diagonal: the buffer returns to zero -/

/-- `A` is an `n×n` triangular matrix: every stored NON-ZERO entry is on the right side (stored zeros may be
anywhere), every column stores exactly one diagonal entry `u j`, and `u j` is a unit (`inv` finds `v j`). -/
structure UnitTriang (upper : Bool) (A : SpMat R) (n : Nat) (u v : Nat → R) : Prop where
  wf : WF A
  nrows : A.nrows = n
  ncols : A.ncols = n
  tri : ∀ j < n, ∀ e ∈ col A j, isZero e.2 = false → (if upper then e.1 ≤ j else j ≤ e.1)
  diag : ∀ j < n, (col A j).filter (fun e => e.1 == j) = [(j, u j)]
  unit : ∀ j < n, inv (u j) = some (v j)

theorem colSum_eq_zero (l : List (Nat × R)) (k : Nat) (h : ∀ e ∈ l, e.1 = k → e.2 = 0) : colSum l k = 0 := by
  induction l with
  | nil => exact colSum_nil k
  | cons e l ih =>
    rw [colSum_cons, ih (fun e' h' => h e' (by simp [h']))]
    by_cases hk : e.1 = k
    · simp [hk, h e (by simp) hk]
    · simp [hk]

variable {upper : Bool} {A : SpMat R} {n : Nat} {u v : Nat → R}

theorem UnitTriang.entry_diag (hA : UnitTriang upper A n u v) (j : Nat) (hj : j < n) : entry A j j = u j := by
  unfold entry colSum
  rw [hA.diag j hj]; simp [lsum, add_eq, zero_eq]

theorem UnitTriang.entry_upper (hA : UnitTriang true A n u v) (k j : Nat) (hj : j < n) (hk : j < k) : entry A k j = 0 := by
  apply colSum_eq_zero
  intro e he hek
  by_contra hne
  have := hA.tri j hj e he ((isZero_false_iff _).2 hne)
  simp at this; omega

theorem UnitTriang.entry_lower (hA : UnitTriang false A n u v) (k j : Nat) (hj : j < n) (hk : k < j) : entry A k j = 0 := by
  apply colSum_eq_zero
  intro e he hek
  by_contra hne
  have := hA.tri j hj e he ((isZero_false_iff _).2 hne)
  simp at this; omega

theorem UnitTriang.unit_mul (hA : UnitTriang upper A n u v) (j : Nat) (hj : j < n) : u j * v j = 1 :=
  inv_mul _ _ (hA.unit j hj)

theorem outer_upper (hA : UnitTriang true A n u v) (m : Nat) (hm : m ≤ n) (b : Array R) (hb : b.size = n)
    (es : List (Nat × R)) (hz : ∀ k, m ≤ k → k < n → bget b k = 0) :
    ∃ b' es', outer A b es (((List.range m).reverse).map (fun j => (j, u j))) = .ok (b', es') ∧
      ∀ k, k < n → bget b' k = 0 := by
  induction m generalizing b es with
  | zero => exact ⟨b, es, by simp [outer], fun k hk => hz k (Nat.zero_le _) hk⟩
  | succ m ih =>
    have hmn : m < n := hm
    rw [List.range_succ, List.reverse_append, List.reverse_singleton, List.singleton_append, List.map_cons]
    unfold outer
    rw [if_neg (by simp only []; omega)]
    by_cases hzm : isZero (bget b m) = true
    · rw [if_pos hzm]
      refine ih (by omega) b hb es (fun k hk hkn => ?_)
      rcases Nat.eq_or_lt_of_le hk with rfl | hlt
      · exact (isZero_iff _).1 hzm
      · exact hz k hlt hkn
    · rw [if_neg hzm]
      simp only [hA.unit m hmn]
      refine ih (by omega) _ (by rw [size_colStep, hb]) _ (fun k hk hkn => ?_)
      rw [bget_colStep _ _ _ (fun e he => by rw [hb, ← hA.nrows]; exact colVec_rows hA.wf _ e he), entry_colVec, mul_eq]
      rcases Nat.eq_or_lt_of_le hk with rfl | hlt
      · rw [hA.entry_diag m hmn]
        have := hA.unit_mul m hmn
        calc bget b m - u m * (bget b m * v m) = bget b m - bget b m * (u m * v m) := by ring
          _ = 0 := by rw [this]; ring
      · rw [hz k hlt hkn, hA.entry_upper k m hmn hlt]; ring

theorem outer_lower (hA : UnitTriang false A n u v) (d m : Nat) (hm : m + d = n) (b : Array R) (hb : b.size = n)
    (es : List (Nat × R)) (hz : ∀ k, k < m → bget b k = 0) :
    ∃ b' es', outer A b es ((List.range' m d).map (fun j => (j, u j))) = .ok (b', es') ∧
      ∀ k, k < n → bget b' k = 0 := by
  induction d generalizing m b es with
  | zero => exact ⟨b, es, by simp [outer], fun k hk => hz k (by omega)⟩
  | succ d ih =>
    have hmn : m < n := by omega
    rw [List.range'_succ, List.map_cons]
    unfold outer
    rw [if_neg (by simp only []; omega)]
    by_cases hzm : isZero (bget b m) = true
    · rw [if_pos hzm]
      refine ih (m + 1) (by omega) b hb es (fun k hk => ?_)
      rcases Nat.eq_or_lt_of_le (Nat.le_of_lt_succ hk) with rfl | hlt
      · exact (isZero_iff _).1 hzm
      · exact hz k hlt
    · rw [if_neg hzm]
      simp only [hA.unit m hmn]
      refine ih (m + 1) (by omega) _ (by rw [size_colStep, hb]) _ (fun k hk => ?_)
      rw [bget_colStep _ _ _ (fun e he => by rw [hb, ← hA.nrows]; exact colVec_rows hA.wf _ e he), entry_colVec, mul_eq]
      rcases Nat.eq_or_lt_of_le (Nat.le_of_lt_succ hk) with rfl | hlt
      · rw [hA.entry_diag k hmn]
        have := hA.unit_mul k hmn
        calc bget b k - u k * (bget b k * v k) = bget b k - bget b k * (u k * v k) := by ring
          _ = 0 := by rw [this]; ring
      · rw [hz k hlt, hA.entry_lower k m hmn hlt]; ring


/-! ### `_solve_triangular` -/

theorem filterMap_diag (l : List (Nat × R)) (j : Nat) :
    l.filterMap (fun e => if e.1 == j then some e.2 else none) = (l.filter (fun e => e.1 == j)).map (·.2) := by
  induction l with
  | nil => rfl
  | cons e l ih =>
    by_cases h : e.1 = j <;> simp_all [List.filterMap_cons, List.filter_cons]

theorem flatMap_singleton {β γ : Type} (f : β → List γ) (g : β → γ) (l : List β) (h : ∀ x ∈ l, f x = [g x]) :
    l.flatMap f = l.map g := by
  induction l with
  | nil => rfl
  | cons x l ih =>
    rw [List.flatMap_cons, h x (by simp), ih (fun y hy => h y (by simp [hy]))]; rfl

theorem UnitTriang.collectDiag_eq (hA : UnitTriang upper A n u v) : collectDiag A = (List.range n).map u := by
  unfold collectDiag
  rw [hA.ncols]
  apply flatMap_singleton
  intro j hj
  rw [filterMap_diag, hA.diag j (List.mem_range.1 hj)]; rfl

theorem enumFrom_range' (u : Nat → R) (k m : Nat) :
    enumFrom k ((List.range' k m).map u) = (List.range' k m).map (fun j => (j, u j)) := by
  induction m generalizing k with
  | zero => rfl
  | succ m ih => rw [List.range'_succ, List.map_cons, List.map_cons, enumFrom, ih]

theorem bget_eq_getElem (b : Array R) (i : Nat) (h : i < b.size) : bget b i = b[i] := by
  simp [bget, Array.getD_eq_getD_getElem?, h]

theorem bget_zeroBuf (n i : Nat) : bget (zeroBuf n : Array R) i = 0 := by
  unfold bget zeroBuf
  by_cases h : i < n
  · simp [Array.getD_eq_getD_getElem?, h, zero_eq]
  · simp [Array.getD_eq_getD_getElem?, h, zero_eq]

theorem eq_zeroBuf (b : Array R) (n : Nat) (hb : b.size = n) (h : ∀ k, k < n → bget b k = 0) : b = zeroBuf n := by
  apply Array.ext
  · simp [zeroBuf, hb]
  · intro i h1 h2
    rw [← bget_eq_getElem b i h1, h i (by omega)]
    simp [zeroBuf, zero_eq]

theorem axAt_nil (A : SpMat R) (n i : Nat) : axAt A n [] i = 0 := by
  simp [axAt, colSum_nil]

theorem axAt_reverse (A : SpMat R) (n : Nat) (es : List (Nat × R)) (i : Nat) : axAt A n es.reverse i = axAt A n es i := by
  simp [axAt, colSum_reverse]

/-- **`_solve_triangular` on a unit-triangular matrix**: no panic, the scratch buffer is all-zero at exit, the
returned entries have indices `< n` and satisfy `A·x = b` (for ANY content `b` of the buffer at entry). -/
theorem solveBuf_spec (hA : UnitTriang upper A n u v) (b : Array R) (hb : b.size = n) :
    ∃ es, solveBuf upper A (collectDiag A) b = .ok (zeroBuf n, es) ∧ (∀ e ∈ es, e.1 < n) ∧
      ∀ i, axAt A n es i = bget b i := by
  have hen : enumFrom 0 (collectDiag A) = (List.range n).map (fun j => (j, u j)) := by
    rw [hA.collectDiag_eq, List.range_eq_range', enumFrom_range']
  have hjs : ∀ ju ∈ (if upper then ((List.range n).map (fun j => (j, u j))).reverse else (List.range n).map (fun j => (j, u j))), ju.1 < n := by
    intro ju h
    have h' : ju ∈ (List.range n).map (fun j => (j, u j)) := by
      cases upper
      · simpa using h
      · simpa using h
    obtain ⟨j, hj, rfl⟩ := List.mem_map.1 h'; exact List.mem_range.1 hj
  have hout : ∃ b' es', outer A b [] (if upper then ((List.range n).map (fun j => (j, u j))).reverse
      else (List.range n).map (fun j => (j, u j))) = .ok (b', es') ∧ ∀ k, k < n → bget b' k = 0 := by
    cases upper with
    | true =>
      obtain ⟨b', es', ho, hz⟩ := outer_upper hA n (Nat.le_refl n) b hb [] (fun k h1 h2 => by omega)
      exact ⟨b', es', by simpa [List.map_reverse] using ho, hz⟩
    | false =>
      obtain ⟨b', es', ho, hz⟩ := outer_lower hA n 0 (by omega) b hb [] (fun k h => by omega)
      exact ⟨b', es', by simpa [List.range_eq_range'] using ho, hz⟩
  obtain ⟨b', es', ho, hz⟩ := hout
  obtain ⟨hs, hinv⟩ := outer_invariant A hA.wf n hA.nrows _ hjs b hb [] b' es' ho
  have hidx := outer_index A n _ hjs b [] (by simp) b' es' ho
  have hb' : b' = zeroBuf n := eq_zeroBuf b' n hs hz
  have hall : b'.all isZero = true := by
    rw [Array.all_eq_true]; intro i hi
    rw [← bget_eq_getElem b' i hi, hz i (by omega)]; exact (isZero_iff _).2 rfl
  have hidx' : ∀ e ∈ (if upper then es'.reverse else es'), e.1 < n := by
    intro e he
    cases upper
    · exact hidx e (by simpa using he)
    · exact hidx e (by simpa using he)
  have hall2 : ((if upper then es'.reverse else es').all fun e => decide (e.1 < A.ncols)) = true := by
    rw [List.all_eq_true]; intro e he; rw [hA.ncols]; simpa using hidx' e he
  refine ⟨if upper then es'.reverse else es', ?_, hidx', fun i => ?_⟩
  · unfold solveBuf
    rw [hen]
    simp only []
    rw [ho]
    subst hb'
    simp only [hall, hall2, Bool.not_true, Bool.false_eq_true, if_false]
  · have h1 := hinv i
    rw [axAt_nil, zero_add, hb', bget_zeroBuf, add_zero] at h1
    rw [← h1]
    cases upper
    · rfl
    · exact axAt_reverse A n es' i

/-! ### right-hand sides, column loop, schedules -/

theorem size_copyInto (b : Array R) (l : List (Nat × R)) : (copyInto b l).size = b.size := by
  induction l generalizing b with
  | nil => rfl
  | cons e l ih => unfold copyInto; rw [ih, size_bset]

theorem colSum_not_mem (l : List (Nat × R)) (k : Nat) (h : k ∉ l.map (·.1)) : colSum l k = 0 := by
  apply colSum_eq_zero
  intro e he hk
  exact absurd (List.mem_map.2 ⟨e, he, hk⟩) h

theorem bget_copyInto (l : List (Nat × R)) (b : Array R) (hl : ∀ e ∈ l, e.1 < b.size)
    (hnd : (l.map (·.1)).Nodup) (k : Nat) :
    bget (copyInto b l) k = if k ∈ l.map (·.1) then colSum l k else bget b k := by
  induction l generalizing b with
  | nil => simp [copyInto]
  | cons e l ih =>
    have he : e.1 < b.size := hl e (by simp)
    rw [List.map_cons, List.nodup_cons] at hnd
    unfold copyInto
    rw [ih _ (fun e' h' => by rw [size_bset]; exact hl e' (by simp [h'])) hnd.2, bget_bset, colSum_cons]
    by_cases hk : k ∈ l.map (·.1)
    · have hne : e.1 ≠ k := fun h => hnd.1 (h ▸ hk)
      simp [hk, hne]
    · by_cases hek : e.1 = k
      · subst hek; simp [hk, he, colSum_not_mem l _ hk]
      · have : ¬ (k = e.1) := fun h => hek h.symm
        simp [hk, hek, this]

/-- the stored pattern of a right-hand side: row indices in range, no row stored twice in a column (CSC) -/
structure WFY (Y : SpMat R) (n : Nat) : Prop where
  nrows : Y.nrows = n
  size : Y.cols.size = Y.ncols
  rows : ∀ j, ∀ e ∈ col Y j, e.1 < n
  nodup : ∀ j, ((col Y j).map (·.1)).Nodup

theorem bget_copyInto_zero {Y : SpMat R} (hY : WFY Y n) (j i : Nat) :
    bget (copyInto (zeroBuf n) (colVec Y j)) i = entry Y i j := by
  rw [bget_copyInto]
  · rw [entry_colVec]
    split
    · rfl
    · rename_i h
      rw [bget_zeroBuf, ← entry_colVec, colSum_not_mem _ _ h]
  · intro e he; simp only [zeroBuf, Array.size_replicate]; exact hY.rows j e (List.mem_of_mem_filter he)
  · exact (hY.nodup j).sublist ((List.filter_sublist).map _)

/-- the result a FRESH (all-zero) buffer gives for column `j` of `Y` -/
def freshCol (upper : Bool) (A Y : SpMat R) (n j : Nat) : List (Nat × R) :=
  match solveBuf upper A (collectDiag A) (copyInto (zeroBuf n) (colVec Y j)) with
  | .ok (_, es) => es
  | _ => []

theorem freshCol_spec (hA : UnitTriang upper A n u v) {Y : SpMat R} (hY : WFY Y n) (j : Nat) :
    solveBuf upper A (collectDiag A) (copyInto (zeroBuf n) (colVec Y j)) = .ok (zeroBuf n, freshCol upper A Y n j) ∧
    (∀ e ∈ freshCol upper A Y n j, e.1 < n) ∧ ∀ i, axAt A n (freshCol upper A Y n j) i = entry Y i j := by
  obtain ⟨es, h1, h2, h3⟩ := solveBuf_spec hA (copyInto (zeroBuf n) (colVec Y j)) (by simp [size_copyInto, zeroBuf])
  have : freshCol upper A Y n j = es := by unfold freshCol; rw [h1]
  rw [this]
  exact ⟨h1, h2, fun i => by rw [h3 i, bget_copyInto_zero hY]⟩

/-- one worker, any list of columns: every column gets the fresh-buffer result and the buffer is zero again -/
theorem solveCols_spec (hA : UnitTriang upper A n u v) {Y : SpMat R} (hY : WFY Y n) (js : List Nat) :
    solveCols upper A (collectDiag A) Y (zeroBuf n) js = .ok (zeroBuf n, js.map (freshCol upper A Y n)) := by
  induction js with
  | nil => rfl
  | cons j js ih =>
    unfold solveCols
    rw [(freshCol_spec hA hY j).1]
    simp only [ih, List.map_cons]

/-- any assignment of columns to worker buffers -/
theorem runSched_spec (hA : UnitTriang upper A n u v) {Y : SpMat R} (hY : WFY Y n)
    (evs : List (Nat × Nat)) (bufs : Nat → Array R) (hb : ∀ w, bufs w = zeroBuf n) :
    runSched upper A (collectDiag A) Y bufs evs = .ok (evs.map fun wj => (wj.2, freshCol upper A Y n wj.2)) := by
  induction evs generalizing bufs with
  | nil => rfl
  | cons wj evs ih =>
    unfold runSched
    rw [hb wj.1, (freshCol_spec hA hY wj.2).1]
    simp only
    rw [ih _ (fun w => by by_cases h : w = wj.1 <;> simp [h, hb])]
    rfl

/-! ### `solve_triangular` as a matrix equation -/

def toMatrix (A : SpMat R) (m n : Nat) : Matrix (Fin m) (Fin n) R := fun i j => entry A i j

theorem UnitTriang.isTriang (hA : UnitTriang upper A n u v) : isTriang upper A = true := by
  unfold C12.isTriang
  rw [hA.nrows, hA.ncols]
  simp only [bne_self_eq_false, Bool.false_eq_true, if_false, List.all_eq_true, List.mem_range]
  intro j hj e he
  by_cases hz : isZero e.2 = true
  · simp [hz]
  · have := hA.tri j hj e he (by simpa using hz)
    cases upper <;> simp_all

theorem solve_eq (hA : UnitTriang upper A n u v) {Y : SpMat R} (hY : WFY Y n) :
    solve upper A Y = .ok ⟨n, Y.ncols, ((List.range Y.ncols).map (freshCol upper A Y n)).toArray⟩ := by
  unfold solve
  rw [hA.nrows, hY.nrows, hA.isTriang, solveCols_spec hA hY]
  simp

theorem col_mk (m k : Nat) (f : Nat → List (Nat × R)) (j : Nat) (hj : j < k) :
    col (⟨m, k, ((List.range k).map f).toArray⟩ : SpMat R) j = f j := by
  simp [col, hj]

theorem solve_correct (hA : UnitTriang upper A n u v) {Y : SpMat R} (hY : WFY Y n) :
    ∃ X, solve upper A Y = .ok X ∧ X.nrows = n ∧ X.ncols = Y.ncols ∧ (∀ j, ∀ e ∈ col X j, e.1 < n) ∧
      toMatrix A n n * toMatrix X n Y.ncols = toMatrix Y n Y.ncols := by
  refine ⟨_, solve_eq hA hY, rfl, rfl, ?_, ?_⟩
  · intro j e he
    by_cases hj : j < Y.ncols
    · rw [col_mk _ _ _ _ hj] at he
      exact (freshCol_spec hA hY j).2.1 e he
    · simp [col, hj] at he
  · ext i j
    rw [Matrix.mul_apply]
    simp only [toMatrix]
    rw [Fin.sum_univ_eq_sum_range (fun l => entry A i l * entry _ l j) n]
    have := (freshCol_spec hA hY j).2.2 i
    unfold axAt at this
    rw [← this]
    apply Finset.sum_congr rfl
    intro l _
    unfold entry
    rw [col_mk _ _ _ _ j.2]

end
end Yuiv.C12
