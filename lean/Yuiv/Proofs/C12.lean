import Yuiv.Model.C12Rings
import Mathlib.Tactic.Ring
import Mathlib.Tactic.Linarith
namespace Yuiv.C12
end Yuiv.C12
