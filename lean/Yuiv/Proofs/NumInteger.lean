import Yuiv.Model.NumInteger
import Yuiv.Model.RustRing
import Yuiv.Model.RustI32
import Yuiv.Model.C14
import Yuiv.Model.C15
import Mathlib.Tactic.Ring
import Mathlib.Tactic.Linarith
import Mathlib.Data.Nat.GCD.Basic
import Mathlib.Data.Int.GCD

/-
Helper lemmas for `Yuiv/Props/NumInteger.lean`: correctness of the hand model `Yuiv/Model/NumInteger.lean` of
num-integer 0.1.47's `gcd` (Stein), `lcm` / `gcd_lcm`, `extended_gcd`, `extended_gcd_lcm` for the signed machine
integers, and the bridge to the primitives the C14 / C15 code models and the translator prelude use for them
(`RInt.gcd`, `RInt.lcm`, `C14.intGcd`, `C14.intLcm`, `C15.zGcd`, `C15.zLcm`, `I32.gcdx`, `C14.FF.gcdx`).
-/
namespace Yuiv.NumInteger
open Yuiv Res

theorem tzNat_spec : ∀ (f n : Nat), n ≠ 0 → n ≤ f → ∃ o, n = 2 ^ tzNat f n * o ∧ o % 2 = 1
  | 0, n, h0, hf => by omega
  | f + 1, n, h0, hf => by
    unfold tzNat
    by_cases h : n ≠ 0 ∧ n % 2 = 0
    · rw [if_pos h]
      obtain ⟨o, ho, hodd⟩ := tzNat_spec f (n / 2) (by omega) (by omega)
      refine ⟨o, ?_, hodd⟩
      rw [Nat.pow_succ, Nat.mul_assoc, Nat.mul_comm 2 o, ← Nat.mul_assoc, ← ho]
      omega
    · rw [if_neg h]
      exact ⟨n, by simp, by omega⟩

theorem tzNat_pow : ∀ (k f : Nat), 2 ^ k ≤ f → tzNat f (2 ^ k) = k
  | 0, f, hf => by
    cases f with
    | zero => simp at hf
    | succ f => simp [tzNat]
  | k + 1, f, hf => by
    cases f with
    | zero => have := Nat.two_pow_pos (k+1); omega
    | succ f =>
      unfold tzNat
      have hp : 0 < 2 ^ k := Nat.two_pow_pos k
      have h2 : 2 ^ (k + 1) = 2 * 2 ^ k := by rw [Nat.pow_succ, Nat.mul_comm]
      rw [if_pos ⟨by omega, by omega⟩]
      have : 2 ^ (k + 1) / 2 = 2 ^ k := by omega
      rw [this, tzNat_pow k f (by omega)]

theorem coprime_pow_two_odd (k o : Nat) (ho : o % 2 = 1) : Nat.Coprime (2 ^ k) o := by
  apply Nat.Coprime.pow_left
  show Nat.gcd 2 o = 1
  rw [Nat.gcd_rec, ho]; rfl

theorem gcd_strip (t o b : Nat) (hb : b % 2 = 1) : Nat.gcd (2 ^ t * o) b = Nat.gcd o b :=
  Nat.Coprime.gcd_mul_left_cancel o (coprime_pow_two_odd t b hb)


theorem trailingZeros_cast (w d : Nat) (hd : d ≠ 0) : trailingZeros w (d : Int) = tzNat d d := by
  unfold trailingZeros
  rw [if_neg (by omega), Int.natAbs_natCast]

theorem shiftRight_cast (t o : Nat) : ((2 ^ t * o : Nat) : Int) >>> t = (o : Int) := by
  rw [Int.shiftRight_eq_div_pow]
  have : (2 ^ t * o : Nat) / 2 ^ t = o := Nat.mul_div_cancel_left o (Nat.two_pow_pos t)
  rw [← Int.natCast_ediv, this]

/-- one subtract-and-shift step preserves the gcd and halves the bound -/
theorem step_lemma (w a x y : Nat) (hx : x % 2 = 1) (hy : y % 2 = 1) (hlt : y < x) (hxa : x < 2 ^ a) :
    ∃ o : Nat, (((x : Int) - (y : Int)) >>> trailingZeros w ((x : Int) - (y : Int))) = (o : Int) ∧
      o % 2 = 1 ∧ o < 2 ^ (a - 1) ∧ Nat.gcd o y = Nat.gcd x y := by
  have hc : (x : Int) - (y : Int) = ((x - y : Nat) : Int) := by omega
  have hd : x - y ≠ 0 := by omega
  rw [hc, trailingZeros_cast w _ hd]
  obtain ⟨o, ho, hodd⟩ := tzNat_spec (x - y) (x - y) hd (Nat.le_refl _)
  generalize tzNat (x - y) (x - y) = t at ho
  refine ⟨o, ?_, hodd, ?_, ?_⟩
  · rw [ho, shiftRight_cast]
  · cases t with
    | zero => simp at ho; omega
    | succ t =>
      have h2 : 2 ^ (t + 1) * o = 2 * (2 ^ t * o) := by rw [Nat.pow_succ]; ring
      have hp : 0 < 2 ^ t := Nat.two_pow_pos t
      have : o ≤ 2 ^ t * o := Nat.le_mul_of_pos_left o hp
      cases a with
      | zero => simp at hxa; omega
      | succ a =>
        rw [Nat.pow_succ] at hxa
        simp only [Nat.add_sub_cancel]
        omega
  · rw [← gcd_strip t o y hy, ← ho, Nat.gcd_sub_self_left (Nat.le_of_lt hlt)]

theorem steinLoop_nat (w : Nat) : ∀ (fuel a b x y : Nat), x % 2 = 1 → y % 2 = 1 → x < 2 ^ a → y < 2 ^ b →
    a + b ≤ fuel → steinLoop w fuel (x : Int) (y : Int) = ok ((Nat.gcd x y : Nat) : Int)
  | 0, a, b, x, y, hx, hy, hxa, hyb, hf => by
    have : a = 0 := by omega
    subst this; simp at hxa; omega
  | fuel + 1, a, b, x, y, hx, hy, hxa, hyb, hf => by
    have ha : 1 ≤ a := by
      cases a with
      | zero => simp at hxa; omega
      | succ a => omega
    have hb : 1 ≤ b := by
      cases b with
      | zero => simp at hyb; omega
      | succ b => omega
    unfold steinLoop
    by_cases hxy : (x : Int) = (y : Int)
    · rw [if_pos hxy]
      have : x = y := by omega
      subst this; simp
    · rw [if_neg hxy]
      by_cases hgt : (x : Int) > (y : Int)
      · rw [if_pos hgt]
        obtain ⟨o, ho, hodd, hlt, hg⟩ := step_lemma w a x y hx hy (by omega) hxa
        simp only [ho]
        rw [steinLoop_nat w fuel (a - 1) b o y hodd hy hlt hyb (by omega), hg]
      · rw [if_neg hgt]
        obtain ⟨o, ho, hodd, hlt, hg⟩ := step_lemma w b y x hy hx (by omega) hyb
        simp only [ho]
        rw [steinLoop_nat w fuel a (b - 1) x o hx hodd hxa hlt (by omega), Nat.gcd_comm x o, hg, Nat.gcd_comm]


theorem gcd_two_parts (ta tb oa ob : Nat) (ha : oa % 2 = 1) (hb : ob % 2 = 1) :
    Nat.gcd (2 ^ ta * oa) (2 ^ tb * ob) = 2 ^ (min ta tb) * Nat.gcd oa ob := by
  rcases Nat.le_total ta tb with h | h
  · obtain ⟨d, rfl⟩ := Nat.exists_eq_add_of_le h
    rw [Nat.min_eq_left h, Nat.pow_add, Nat.mul_assoc, Nat.gcd_mul_left, Nat.gcd_comm oa, gcd_strip d ob oa ha, Nat.gcd_comm]
  · obtain ⟨d, rfl⟩ := Nat.exists_eq_add_of_le h
    rw [Nat.min_eq_right h, Nat.pow_add, Nat.mul_assoc, Nat.gcd_mul_left, gcd_strip d oa ob hb]

theorem natAbs_decomp (w : Nat) (m : Int) (h0 : m ≠ 0) :
    ∃ o, m.natAbs = 2 ^ trailingZeros w m * o ∧ o % 2 = 1 := by
  unfold trailingZeros
  rw [if_neg h0]
  exact tzNat_spec _ _ (by omega) (Nat.le_refl _)

theorem gcd_decomp (w : Nat) (m n : Int) (hm : m ≠ 0) (hn : n ≠ 0) :
    ∃ om on, om % 2 = 1 ∧ on % 2 = 1 ∧ m.natAbs = 2 ^ trailingZeros w m * om ∧
      n.natAbs = 2 ^ trailingZeros w n * on ∧ Int.gcd m n = 2 ^ shiftOf w m n * Nat.gcd om on := by
  obtain ⟨om, h1, h2⟩ := natAbs_decomp w m hm
  obtain ⟨on, h3, h4⟩ := natAbs_decomp w n hn
  refine ⟨om, on, h2, h4, h1, h3, ?_⟩
  show Nat.gcd m.natAbs n.natAbs = _
  rw [h1, h3, gcd_two_parts _ _ _ _ h2 h4]; rfl

theorem abs_shift (w : Nat) (m : Int) (h0 : m ≠ 0) (o : Nat) (ho : m.natAbs = 2 ^ trailingZeros w m * o) :
    ((m.natAbs : Nat) : Int) >>> trailingZeros w ((m.natAbs : Nat) : Int) = (o : Int) := by
  have : trailingZeros w ((m.natAbs : Nat) : Int) = trailingZeros w m := by
    unfold trailingZeros
    rw [if_neg (by omega), if_neg h0, Int.natAbs_natCast]
  rw [this, ho, shiftRight_cast]

theorem wrap_id (w : Nat) (hw : 1 ≤ w) (x : Int) (h0 : 0 ≤ x) (h1 : x < 2 ^ (w - 1)) : wrap w x = x := by
  unfold wrap
  have h2 : (2 : Int) ^ w = 2 * 2 ^ (w - 1) := by
    obtain ⟨k, rfl⟩ := Nat.exists_eq_add_of_le hw
    rw [Nat.add_sub_cancel_left, Int.pow_add]; norm_num
  rw [h2, Int.emod_eq_of_lt (by omega) (by omega)]; omega

theorem wrap_min (w : Nat) (hw : 1 ≤ w) : wrap w (2 ^ (w - 1)) = minValue w := by
  unfold wrap minValue
  have h2 : (2 : Int) ^ w = 2 * 2 ^ (w - 1) := by
    obtain ⟨k, rfl⟩ := Nat.exists_eq_add_of_le hw
    rw [Nat.add_sub_cancel_left, Int.pow_add]; norm_num
  rw [h2, show (2:Int) ^ (w - 1) + 2 ^ (w - 1) = 2 * 2 ^ (w - 1) by ring, Int.emod_self]; omega

theorem absChk_ok (w : Nat) (x : Int) (h : x ≠ minValue w) : absChk w x = ok ((x.natAbs : Nat) : Int) := by
  unfold absChk
  rw [if_neg h]
  congr 1
  split <;> omega


theorem pow_cast (k : Nat) : ((2 : Int) ^ k) = ((2 ^ k : Nat) : Int) := by push_cast; rfl

theorem minValue_eq (w : Nat) : minValue w = -((2 ^ (w - 1) : Nat) : Int) := by
  unfold minValue; rw [pow_cast]

theorem inRange_iff (w : Nat) (z : Int) :
    inRange w z ↔ (-((2 ^ (w - 1) : Nat) : Int) ≤ z ∧ z < ((2 ^ (w - 1) : Nat) : Int)) := by
  unfold inRange; rw [pow_cast]

theorem wrap_id' (w : Nat) (hw : 1 ≤ w) (x : Nat) (h1 : x < 2 ^ (w - 1)) : wrap w (x : Int) = (x : Int) :=
  wrap_id w hw _ (by omega) (by rw [pow_cast]; omega)

theorem absChk_spec (w : Nat) (z : Int) (hz : inRange w z) :
    absChk w z = if z.natAbs = 2 ^ (w - 1) then panic else ok ((z.natAbs : Nat) : Int) := by
  rw [inRange_iff] at hz
  by_cases h : z = minValue w
  · unfold absChk
    rw [if_pos h, if_pos]
    rw [minValue_eq] at h; omega
  · rw [absChk_ok w z h, if_neg]
    rw [minValue_eq] at h
    generalize 2 ^ (w - 1) = P at *
    omega

theorem orZero_spec (w : Nat) (m n : Int) (hm : inRange w m) (hn : inRange w n) (hz : m = 0 ∨ n = 0) :
    inRange w (orZero m n) ∧ (orZero m n).natAbs = Int.gcd m n := by
  unfold orZero
  by_cases h : m = 0
  · subst h; simp [hn]
  · have : n = 0 := by tauto
    subst this; simp [h, hm]

theorem min_tz (w : Nat) (m : Int) (h : m = minValue w) (o : Nat)
    (ho : m.natAbs = 2 ^ trailingZeros w m * o) : trailingZeros w m = w - 1 ∧ o = 1 := by
  have hP := Nat.two_pow_pos (w - 1)
  have hn : m.natAbs = 2 ^ (w - 1) := by
    rw [minValue_eq] at h; omega
  have ht : trailingZeros w m = w - 1 := by
    unfold trailingZeros
    rw [if_neg (by omega), hn, tzNat_pow _ _ (Nat.le_refl _)]
  refine ⟨ht, ?_⟩
  rw [ht, hn] at ho
  have h1 : 2 ^ (w - 1) * 1 = 2 ^ (w - 1) * o := by rw [Nat.mul_one]; exact ho
  have := Nat.eq_of_mul_eq_mul_left hP h1
  omega

/-- (N1) `gcd` of the `w`-bit signed type on ALL representable operands -/
theorem gcd_spec (w fuel : Nat) (m n : Int) (hw : 1 ≤ w) (hm : inRange w m) (hn : inRange w n)
    (hf : 2 * w ≤ fuel) :
    gcd w fuel m n = if Int.gcd m n = 2 ^ (w - 1) then panic else ok ((Int.gcd m n : Nat) : Int) := by
  unfold gcd
  by_cases hz : m = 0 ∨ n = 0
  · rw [if_pos hz]
    obtain ⟨h1, h2⟩ := orZero_spec w m n hm hn hz
    rw [absChk_spec w _ h1, h2]
  · rw [if_neg hz]
    have hm0 : m ≠ 0 := by tauto
    have hn0 : n ≠ 0 := by tauto
    obtain ⟨om, on, hom, hon, hma, hna, hg⟩ := gcd_decomp w m n hm0 hn0
    have hP := Nat.two_pow_pos (w - 1)
    by_cases hmin : m = minValue w ∨ n = minValue w
    · rw [if_pos hmin, Int.shiftLeft_eq, Int.one_mul]
      have hs : shiftOf w m n ≤ w - 1 ∧ Nat.gcd om on = 1 := by
        rcases hmin with h | h
        · obtain ⟨h1, h2⟩ := min_tz w m h om hma
          subst h2
          exact ⟨by unfold shiftOf; omega, Nat.gcd_one_left _⟩
        · obtain ⟨h1, h2⟩ := min_tz w n h on hna
          subst h2
          exact ⟨by unfold shiftOf; omega, Nat.gcd_one_right _⟩
      rw [hs.2, Nat.mul_one] at hg
      rw [hg]
      generalize shiftOf w m n = s at hs ⊢
      by_cases hsw : s = w - 1
      · subst hsw
        rw [wrap_min w hw, if_pos rfl]
        unfold absChk; rw [if_pos rfl]
      · have hlt : 2 ^ s < 2 ^ (w - 1) := Nat.pow_lt_pow_right (by decide) (by omega)
        have hne : ((2 ^ s : Nat) : Int) ≠ minValue w := by
          rw [minValue_eq]
          have := Nat.two_pow_pos s
          generalize 2 ^ s = S at *
          generalize 2 ^ (w - 1) = P at *
          omega
        rw [pow_cast s, wrap_id' w hw _ hlt, if_neg (by omega), absChk_ok w _ hne, Int.natAbs_natCast]
    · rw [if_neg hmin]
      have hmm : m ≠ minValue w := by tauto
      have hnm : n ≠ minValue w := by tauto
      have hmb : m.natAbs < 2 ^ (w - 1) := by
        rw [inRange_iff] at hm; rw [minValue_eq] at hmm; generalize 2 ^ (w - 1) = P at *; omega
      have hnb : n.natAbs < 2 ^ (w - 1) := by
        rw [inRange_iff] at hn; rw [minValue_eq] at hnm; generalize 2 ^ (w - 1) = P at *; omega
      have hob : om < 2 ^ (w - 1) := by
        have := Nat.le_mul_of_pos_left om (Nat.two_pow_pos (trailingZeros w m)); omega
      have hnb' : on < 2 ^ (w - 1) := by
        have := Nat.le_mul_of_pos_left on (Nat.two_pow_pos (trailingZeros w n)); omega
      rw [absChk_ok w m hmm, absChk_ok w n hnm]
      simp only [Res.bind_ok]
      rw [abs_shift w m hm0 om hma, abs_shift w n hn0 on hna,
        steinLoop_nat w fuel (w - 1) (w - 1) om on hom hon hob hnb' (by omega)]
      simp only [Res.bind_ok]
      have hle : Int.gcd m n ≤ m.natAbs := Nat.gcd_le_left _ (by omega)
      rw [if_neg (by omega), Int.shiftLeft_eq]
      have : ((Nat.gcd om on : Nat) : Int) * 2 ^ shiftOf w m n = ((Int.gcd m n : Nat) : Int) := by
        rw [hg]; push_cast; ring
      rw [this, wrap_id' w hw _ (by omega)]


/-! ## `extended_gcd` -/

theorem xgcd_step (a b : Int) (h : b ≠ 0) : (a - a.tdiv b * b).natAbs < b.natAbs := by
  have h2 : a - a.tdiv b * b = a.tmod b := by rw [Int.tmod_def, Int.mul_comm]
  rw [h2, Int.natAbs_tmod]; exact Nat.mod_lt _ (by omega)

theorem xgcdLoop_spec (m n : Int) : ∀ (fuel : Nat) (r s t : Int × Int), r.1.natAbs < fuel →
    r.1 = s.1 * m + t.1 * n → r.2 = s.2 * m + t.2 * n →
    ∃ r' s' t', xgcdLoop fuel r s t = ok (r', s', t') ∧ r'.1 = 0 ∧ r'.2 = s'.2 * m + t'.2 * n ∧
      Int.gcd r'.1 r'.2 = Int.gcd r.1 r.2
  | 0, r, s, t, hf, _, _ => by omega
  | fuel + 1, r, s, t, hf, h1, h2 => by
    unfold xgcdLoop
    by_cases h0 : r.1 = 0
    · rw [if_pos h0]
      exact ⟨r, s, t, rfl, h0, h2, rfl⟩
    · rw [if_neg h0]
      have hlt := xgcd_step r.2 r.1 h0
      simp only
      generalize r.2.tdiv r.1 = q at hlt ⊢
      obtain ⟨r', s', t', he, hz, hb, hg⟩ := xgcdLoop_spec m n fuel
        (r.2 - q * r.1, r.1) (s.2 - q * s.1, s.1) (t.2 - q * t.1, t.1)
        (by simp only; omega) (by simp only; rw [h2, h1]; ring) (by simp only; exact h1)
      refine ⟨r', s', t', he, hz, hb, ?_⟩
      rw [hg]
      simp only
      rw [Int.gcd_sub_mul_right_left, Int.gcd_comm]

/-- (N3) `extended_gcd` on ALL integers -/
theorem extendedGcd_spec (fuel : Nat) (m n : Int) (hf : n.natAbs + 1 ≤ fuel) :
    ∃ g x y, extendedGcd fuel m n = ok (g, x, y) ∧ m * x + n * y = g ∧ g = ((Int.gcd m n : Nat) : Int) := by
  obtain ⟨r', s', t', he, hz, hb, hg⟩ := xgcdLoop_spec m n fuel (n, m) (0, 1) (1, 0)
    (by simp only; omega) (by simp) (by simp)
  unfold extendedGcd
  rw [he]
  simp only [Res.bind_ok]
  rw [hz, Int.gcd_zero_left] at hg
  simp only at hg
  rw [Int.gcd_comm n m] at hg
  by_cases h : r'.2 ≥ 0
  · rw [if_pos h]
    exact ⟨_, _, _, rfl, by rw [hb]; ring, by omega⟩
  · rw [if_neg h]
    exact ⟨_, _, _, rfl, by rw [hb]; ring, by omega⟩


/-! ## `lcm`, `gcd_lcm`, `extended_gcd_lcm` -/

/-- the value the code computes, `|m * (n / gcd)|`, is the least common multiple -/
theorem lcm_value (m n : Int) : (m * n.tdiv ((Int.gcd m n : Nat) : Int)).natAbs = Int.lcm m n := by
  rw [Int.natAbs_mul, Int.natAbs_tdiv, Int.natAbs_natCast]
  show _ = Nat.lcm m.natAbs n.natAbs
  unfold Nat.lcm
  rw [Nat.mul_div_assoc _ (Nat.gcd_dvd_right _ _)]; rfl

theorem chk_abs (w : Nat) (p : Int) :
    (chk w p >>= fun p => absChk w p)
      = if p.natAbs < 2 ^ (w - 1) then ok ((p.natAbs : Nat) : Int) else panic := by
  unfold chk
  rw [pow_cast]
  have hP := Nat.two_pow_pos (w - 1)
  by_cases h : p.natAbs < 2 ^ (w - 1)
  · rw [if_pos h, if_pos (by omega)]
    simp only [Res.bind_ok]
    exact absChk_ok w p (by rw [minValue_eq]; omega)
  · rw [if_neg h]
    by_cases h2 : -((2 ^ (w - 1) : Nat) : Int) ≤ p ∧ p < ((2 ^ (w - 1) : Nat) : Int)
    · rw [if_pos h2]
      simp only [Res.bind_ok]
      unfold absChk
      rw [if_pos (by rw [minValue_eq]; omega)]
    · rw [if_neg h2]; rfl

/-- (N2) `gcd_lcm` of the `w`-bit signed type on ALL representable operands -/
theorem gcdLcm_spec (w fuel : Nat) (m n : Int) (hw : 1 ≤ w) (hm : inRange w m) (hn : inRange w n)
    (hf : 2 * w ≤ fuel) :
    gcdLcm w fuel m n = if Int.gcd m n = 2 ^ (w - 1) ∨ 2 ^ (w - 1) ≤ Int.lcm m n then panic
      else ok (((Int.gcd m n : Nat) : Int), ((Int.lcm m n : Nat) : Int)) := by
  unfold gcdLcm
  have hP := Nat.two_pow_pos (w - 1)
  by_cases h0 : m = 0 ∧ n = 0
  · rw [if_pos h0]
    obtain ⟨rfl, rfl⟩ := h0
    rw [if_neg (by simp; omega)]; simp
  · rw [if_neg h0, gcd_spec w fuel m n hw hm hn hf]
    by_cases hg : Int.gcd m n = 2 ^ (w - 1)
    · rw [if_pos hg, if_pos (Or.inl hg)]; rfl
    · rw [if_neg hg]
      simp only [Res.bind_ok]
      have := chk_abs w (m * n.tdiv ((Int.gcd m n : Nat) : Int))
      rw [lcm_value] at this
      by_cases hl : Int.lcm m n < 2 ^ (w - 1)
      · rw [if_pos hl] at this
        rw [if_neg (by omega)]
        generalize chk w (m * n.tdiv ((Int.gcd m n : Nat) : Int)) = c at this ⊢
        cases c with
        | ok a => simp only [Res.bind_ok] at this ⊢; rw [this]; rfl
        | panic => simp at this
        | err => simp at this
      · rw [if_neg hl] at this
        rw [if_pos (Or.inr (by omega))]
        generalize chk w (m * n.tdiv ((Int.gcd m n : Nat) : Int)) = c at this ⊢
        cases c with
        | ok a => simp only [Res.bind_ok] at this ⊢; rw [this]; rfl
        | panic => rfl
        | err => simp at this

theorem lcm_spec (w fuel : Nat) (m n : Int) (hw : 1 ≤ w) (hm : inRange w m) (hn : inRange w n)
    (hf : 2 * w ≤ fuel) :
    lcm w fuel m n = if Int.gcd m n = 2 ^ (w - 1) ∨ 2 ^ (w - 1) ≤ Int.lcm m n then panic
      else ok ((Int.lcm m n : Nat) : Int) := by
  unfold lcm
  rw [gcdLcm_spec w fuel m n hw hm hn hf]
  split <;> rfl


/-- the loop of `extended_gcd_lcm`'s tail: same value computation as `gcd_lcm` -/
theorem extendedGcdLcm_spec (w fuel : Nat) (m n : Int) (hf : n.natAbs + 1 ≤ fuel) :
    ∃ x y, extendedGcd fuel m n = ok (((Int.gcd m n : Nat) : Int), x, y) ∧
      m * x + n * y = ((Int.gcd m n : Nat) : Int) ∧
      extendedGcdLcm w fuel m n = if Int.lcm m n < 2 ^ (w - 1)
        then ok ((((Int.gcd m n : Nat) : Int), x, y), ((Int.lcm m n : Nat) : Int)) else panic := by
  obtain ⟨g, x, y, he, hb, hg⟩ := extendedGcd_spec fuel m n hf
  subst hg
  refine ⟨x, y, he, hb, ?_⟩
  unfold extendedGcdLcm
  rw [he]
  simp only [Res.bind_ok]
  have hP := Nat.two_pow_pos (w - 1)
  by_cases h0 : ((Int.gcd m n : Nat) : Int) = 0
  · rw [if_pos h0]
    have hg0 : Int.gcd m n = 0 := by omega
    have hl : Int.lcm m n = 0 := by
      rw [Int.gcd_eq_zero_iff] at hg0
      obtain ⟨rfl, rfl⟩ := hg0; rfl
    rw [hl, if_pos hP]; rfl
  · rw [if_neg h0]
    have := chk_abs w (m * n.tdiv ((Int.gcd m n : Nat) : Int))
    rw [lcm_value] at this
    by_cases hl : Int.lcm m n < 2 ^ (w - 1)
    · rw [if_pos hl] at this ⊢
      generalize chk w (m * n.tdiv ((Int.gcd m n : Nat) : Int)) = c at this ⊢
      cases c with
      | ok a => simp only [Res.bind_ok] at this ⊢; rw [this]; rfl
      | panic => simp at this
      | err => simp at this
    · rw [if_neg hl] at this ⊢
      generalize chk w (m * n.tdiv ((Int.gcd m n : Nat) : Int)) = c at this ⊢
      cases c with
      | ok a => simp only [Res.bind_ok] at this ⊢; rw [this]; rfl
      | panic => rfl
      | err => simp at this

/-! ## bridge to the primitives of the code models -/

theorem i32_xgcdLoop_eq : ∀ (fuel : Nat) (r s t : Int × Int),
    Yuiv.Rust.I32.xgcdLoop fuel r s t = xgcdLoop fuel r s t
  | 0, _, _, _ => rfl
  | fuel + 1, r, s, t => by
    unfold Yuiv.Rust.I32.xgcdLoop xgcdLoop
    by_cases h : r.1 = 0
    · simp [h]
    · simp only [beq_iff_eq, h, if_false]
      exact i32_xgcdLoop_eq fuel _ _ _

theorem c14_xgcdLoop_eq : ∀ (fuel : Nat) (r s t : Int × Int),
    Yuiv.C14.FF.xgcdLoop fuel r s t = xgcdLoop fuel r s t
  | 0, _, _, _ => rfl
  | fuel + 1, r, s, t => by
    unfold Yuiv.C14.FF.xgcdLoop xgcdLoop
    by_cases h : r.1 = 0
    · simp [h]
    · simp only [beq_iff_eq, h, if_false]
      exact c14_xgcdLoop_eq fuel _ _ _

theorem i32_gcdx_eq (x y : Int) : Yuiv.Rust.I32.gcdx x y = extendedGcd (y.natAbs + 2) x y := by
  unfold Yuiv.Rust.I32.gcdx extendedGcd
  rw [i32_xgcdLoop_eq]

theorem c14_gcdx_eq (x y : Int) : Yuiv.C14.FF.gcdx x y = extendedGcd (y.natAbs + 2) x y := by
  unfold Yuiv.C14.FF.gcdx extendedGcd
  rw [c14_xgcdLoop_eq]

end Yuiv.NumInteger
