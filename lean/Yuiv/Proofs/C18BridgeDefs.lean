import Yuiv.Model.KhRef
import Yuiv.Model.C18
/-
C18Bridge — shared definitions for the bridge between the reference `Yuiv.KhRef` (Array based, imperative
`Id.run do` code, used by the C01–C06/C19 specifications) and the code model `Yuiv.C18` (List based).

* `toKh`      : the obvious translation `C18.Link → KhRef.Link`;
* `encSigns`  : the obvious encoding of `C18.crossingSigns` results (`Res (List Sign)`) as `Option (Array Int)`;
* `partnerF`, `walkF`, `stepF`, `needF`, `passF`, `runF`, `outF`, `signsF` : a loop-free functional form of
  `KhRef.partner` / `KhRef.crossingSigns` (proved equal to them, for ALL inputs, in `Proofs/C18BridgeModel.lean`).
Core Lean only.
-/
namespace Yuiv.C18Bridge
open Yuiv Yuiv.KhRef

/-! ### translation -/

def ctKh : C18.CType → CT
  | .X => .X
  | .Xm => .Xm
  | .V => .V
  | .H => .H

def crossingKh (c : C18.Crossing) : Crossing := ⟨ctKh c.ctype, #[c.e0, c.e1, c.e2, c.e3]⟩

/-- the obvious map from the C18 code model's links to the reference's links -/
def toKh (l : C18.Link) : Link := (l.map crossingKh).toArray

def encSign : C18.Sign → Int
  | .pos => 1
  | .neg => -1

/-- `ok signs ↦ some (±1 array)`, `panic`/`err ↦ none` -/
def encSigns : Res (List C18.Sign) → Option (Array Int)
  | .ok s => some (s.map encSign).toArray
  | _ => none

/-! ### functional form of `KhRef.partner` and `KhRef.crossingSigns` -/

/-- all slots `(i', j')` in the iteration order of the two nested loops of `partner` -/
def allSlots (n : Nat) : List (Nat × Nat) := (List.range n).flatMap (fun i' => (List.range 4).map (fun j' => (i', j')))

/-- `KhRef.partner` -/
def partnerF (l : Link) (i k : Nat) : Option (Nat × Nat) :=
  (allSlots l.size).find? (fun p => l[p.1]!.e[p.2]! == l[i]!.e[k]! && !(p.1 == i && p.2 == k))

/-- the `while go do` loop of `crossingSigns` started at `(i0, j0)`; `fuel = 4·n − steps`; state `(sg, passed)`;
the Boolean result is `true` iff the step bound was hit (`bad := true`) -/
def walkF (l : Link) (i0 j0 : Nat) : Nat → Nat → Nat → Array Int × Array Nat → (Array Int × Array Nat) × Bool
  | 0, _, _, st => (st, true)
  | fuel + 1, i, j, st =>
    let c := l[i]!
    let passed := st.2.push (c.e[j]!)
    let sg := if slotSign c.ct j != 0 then st.1.set! i (slotSign c.ct j) else st.1
    let k := c.ct.pass j
    match partnerF l i k with
    | none => ((sg, passed.push (c.e[k]!)), false)
    | some (i', j') =>
      if i' == i0 && j' == j0 then ((sg, passed), false)
      else walkF l i0 j0 fuel i' j' (sg, passed)

/-- body of `for i0 in [0:n]`; state `((sg, passed), bad)` -/
def stepF (l : Link) (j0 : Nat) (st : (Array Int × Array Nat) × Bool) (i0 : Nat) : (Array Int × Array Nat) × Bool :=
  if !st.1.2.contains (l[i0]!.e[j0]!) then
    let r := walkF l i0 j0 (4 * l.size) i0 j0 st.1
    (r.1, st.2 || r.2)
  else st

/-- some unresolved crossing is still unsigned -/
def needF (l : Link) (sg : Array Int) : Bool :=
  (Array.range l.size).any (fun i => !l[i]!.ct.isResolved && sg[i]! == 0)

/-- body of `for j0 in [0, 1, 2]` -/
def passF (l : Link) (st : (Array Int × Array Nat) × Bool) (j0 : Nat) : (Array Int × Array Nat) × Bool :=
  if j0 == 0 || needF l st.1.1 then (List.range l.size).foldl (stepF l j0) st else st

def runF (l : Link) : (Array Int × Array Nat) × Bool :=
  [0, 1, 2].foldl (passF l) ((Array.replicate l.size 0, #[]), false)

/-- the final loop (with its early `return none`) -/
def outF (l : Link) (sg : Array Int) : Option (Array Int) :=
  (List.range l.size).foldlM (fun out i =>
    if l[i]!.ct.isResolved then some out else if sg[i]! == 0 then none else some (out.push sg[i]!)) #[]

/-- `KhRef.crossingSigns` -/
def signsF (l : Link) : Option (Array Int) :=
  let r := runF l
  if r.2 then none else outF l r.1.1

/-! ### crossing reordering / renumbering on the reference's links -/

def permuteK (p : List Nat) (l : Link) : Link := (p.filterMap (fun i => l[i]?)).toArray
def renumberK (f : Nat → Nat) (l : Link) : Link := l.map (fun c => ⟨c.ct, c.e.map f⟩)

end Yuiv.C18Bridge
