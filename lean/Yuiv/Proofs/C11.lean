import Yuiv.Model.C11
/-
C11 — spec definitions and helper lemmas for the parallel pivot search (core Lean only).

Layers:
  1. graph facts on pivot lists: `Acyclic`, `closed_stable`, `commit_acyclic`, `snoc_top_acyclic`
  2. primitive specs of the `RowWorker` operations (`setOccupied`, `setCandidate`, `enqueue`)
  3. the worker invariant `WInv` and its preservation by `init`, `traverse`, `update_diff`
  4. the global invariant `GInv` and its preservation by every step
-/
namespace Yuiv.C11
open Yuiv Res Std

/-! ### `Good`: a `Res` that is not a panic and whose value (if any) satisfies `Q` -/

def Good {α} (r : Res α) (Q : α → Prop) : Prop :=
  match r with
  | .ok a => Q a
  | .err => True
  | .panic => False

theorem Good.ok_iff {α} {a : α} {Q : α → Prop} : Good (Res.ok a) Q ↔ Q a := Iff.rfl

theorem Good.bind {α β} {x : Res α} {f : α → Res β} {Q : α → Prop} {R : β → Prop}
    (hx : Good x Q) (hf : ∀ a, Q a → Good (f a) R) : Good (x >>= f) R := by
  cases x with
  | ok a => exact hf a hx
  | err => trivial
  | panic => exact hx

theorem Good.mono {α} {x : Res α} {Q R : α → Prop} (hx : Good x Q) (h : ∀ a, Q a → R a) : Good x R := by
  cases x with
  | ok a => exact h a hx
  | err => trivial
  | panic => exact hx

theorem Good.of_ok {α} {x : Res α} {Q : α → Prop} {a : α} (hx : Good x Q) (h : x = .ok a) : Q a := by
  subst h; exact hx

theorem Good.ne_panic {α} {x : Res α} {Q : α → Prop} (hx : Good x Q) : x ≠ .panic := by
  intro h; subst h; exact hx

/-! ### well-formed structure -/

/-- what `MatrixStr::new` guarantees for a sparse matrix iterated in CSC order: the columns of every row are
strictly increasing (hence distinct) and candidate columns are entries of the row -/
def Str.WF (s : Str) : Prop :=
  (∀ i, (colsIn s i).Pairwise (· < ·)) ∧ (∀ i j, isCand s i j = true → j ∈ colsIn s i)

theorem Str.WF.nodup {s : Str} (h : s.WF) (i : Nat) : (colsIn s i).Nodup :=
  (h.1 i).imp (fun h => Nat.ne_of_lt h)

/-! ### pivot lists -/

theorem rowFor_some_mem {S : Pivs} {j i : Nat} (h : rowFor S j = some i) : (i, j) ∈ S := by
  unfold rowFor at h
  split at h
  · rename_i p hp
    have h1 := List.mem_of_find?_eq_some hp
    have h2 := List.find?_some hp
    simp at h2 h
    subst h2 h
    exact h1
  · simp at h

theorem hasCol_iff {S : Pivs} {j : Nat} : hasCol S j = true ↔ j ∈ S.map (·.2) := by
  unfold hasCol rowFor
  constructor
  · intro h
    split at h
    · rename_i p hp
      have h1 := List.mem_of_find?_eq_some hp
      have h2 := List.find?_some hp
      simp at h2
      exact List.mem_map.2 ⟨p, h1, h2⟩
    · simp at h
  · intro h
    obtain ⟨p, hp, rfl⟩ := List.mem_map.1 h
    split
    · simp
    · rename_i hn
      have := List.find?_eq_none.1 hn p hp
      simp at this

theorem hasCol_false_iff {S : Pivs} {j : Nat} : hasCol S j = false ↔ j ∉ S.map (·.2) := by
  rw [← hasCol_iff]; simp

theorem hasCol_of_rowFor {S : Pivs} {j i : Nat} (h : rowFor S j = some i) : hasCol S j = true := by
  unfold hasCol; rw [h]; rfl

theorem rowFor_of_hasCol {S : Pivs} {j : Nat} (h : hasCol S j = true) : ∃ i, rowFor S j = some i := by
  unfold hasCol at h
  cases hr : rowFor S j with
  | none => rw [hr] at h; simp at h
  | some i => exact ⟨i, rfl⟩

theorem rowFor_of_mem {S : Pivs} (hnd : (S.map (·.2)).Nodup) {i j : Nat} (h : (i, j) ∈ S) :
    rowFor S j = some i := by
  induction S with
  | nil => simp at h
  | cons p S ih =>
    simp only [List.map_cons, List.nodup_cons] at hnd
    unfold rowFor
    rw [List.find?_cons]
    by_cases hp : p.2 = j
    · simp [hp]
      rcases List.mem_cons.1 h with h | h
      · rw [← h]
      · exfalso; apply hnd.1; rw [hp]; exact List.mem_map.2 ⟨(i, j), h, rfl⟩
    · have : (p.2 == j) = false := by simp [hp]
      simp only [this]
      rcases List.mem_cons.1 h with h | h
      · exfalso; apply hp; rw [← h]
      · exact ih hnd.2 h

theorem rowFor_append_left {P Q : Pivs} {j i : Nat} (h : rowFor P j = some i) : rowFor (P ++ Q) j = some i := by
  unfold rowFor at *
  rw [List.find?_append]
  cases hf : List.find? (fun p => p.2 == j) P with
  | none => rw [hf] at h; simp at h
  | some p => rw [hf] at h; simpa using h

theorem hasCol_append {P Q : Pivs} {j : Nat} : hasCol (P ++ Q) j = (hasCol P j || hasCol Q j) := by
  rw [Bool.eq_iff_iff]
  simp [hasCol_iff, List.map_append, List.mem_append]

theorem hasRow_iff {S : Pivs} {i : Nat} : hasRow S i = true ↔ i ∈ S.map (·.1) := by
  unfold hasRow
  simp [List.any_eq_true, List.mem_map]

/-- the invariant on the shared table -/
def Acyclic (s : Str) (S : Pivs) : Prop :=
  ∃ rk : Nat → Nat, ∀ p ∈ S, ∀ q ∈ S, p.2 ≠ q.2 → q.2 ∈ colsIn s p.1 → rk q.2 < rk p.2

structure PInv (s : Str) (S : Pivs) : Prop where
  rows : (S.map (·.1)).Nodup
  cols : (S.map (·.2)).Nodup
  cand : ∀ p ∈ S, isCand s p.1 p.2 = true
  acyc : Acyclic s S

/-- a bound above all ranks of pivot columns -/
theorem rank_bound (rk : Nat → Nat) (S : Pivs) : ∃ N, ∀ p ∈ S, rk p.2 < N := by
  induction S with
  | nil => exact ⟨0, by simp⟩
  | cons a S ih =>
    obtain ⟨N, hN⟩ := ih
    refine ⟨N + rk a.2 + 1, ?_⟩
    intro p hp
    rcases List.mem_cons.1 hp with h | h
    · subst h; omega
    · have := hN p h; omega

/-- a mark set closed under the snapshot's pivot rows stays closed under any extension of the table
none of whose new pivot columns is marked (this is the `update_diff` / `should_retry` test) -/
theorem closed_stable_core (s : Str) (P N : Pivs) (M : Nat → Prop)
    (hM : ∀ p ∈ P, M p.2 → ∀ j2 ∈ colsIn s p.1, M j2)
    (hval : ∀ p ∈ N, ¬ M p.2) :
    ∀ p ∈ P ++ N, M p.2 → ∀ j2 ∈ colsIn s p.1, M j2 := by
  intro p hp hm
  rcases List.mem_append.1 hp with h | h
  · exact hM p h hm
  · exact absurd hm (hval p h)

/-- committing `(i, js)` keeps the table acyclic when `M` contains the columns of row `i`, is closed under
the pivot rows, and no pivot row reached (`M`) contains `js` -/
theorem commit_acyclic_core (s : Str) (S : Pivs) (i js : Nat) (M : Nat → Prop) [DecidablePred M]
    (hA : Acyclic s S)
    (hfree : js ∉ S.map (·.2))
    (hrow : ∀ j ∈ colsIn s i, M j)
    (hM : ∀ p ∈ S, M p.2 → ∀ j2 ∈ colsIn s p.1, M j2)
    (hcand : ∀ p ∈ S, M p.2 → js ∉ colsIn s p.1) :
    Acyclic s (S ++ [(i, js)]) := by
  obtain ⟨rk, hrk⟩ := hA
  obtain ⟨N, hN⟩ := rank_bound rk S
  refine ⟨fun j => if j = js then N else if M j then rk j else rk j + N + 1, ?_⟩
  intro p hp q hq hne hE
  have hcol : ∀ p ∈ S, p.2 ≠ js := fun p hp h => hfree (List.mem_map.2 ⟨p, hp, h⟩)
  rcases List.mem_append.1 hp with hp | hp
  · have hp2 := hcol p hp
    rcases List.mem_append.1 hq with hq | hq
    · have hq2 := hcol q hq
      simp only [hp2, hq2, if_false]
      by_cases hmp : M p.2
      · have hmq := hM p hp hmp q.2 hE
        simp only [hmp, hmq, if_true]
        exact hrk p hp q hq hne hE
      · simp only [hmp, if_false]
        have h1 := hN q hq
        by_cases hmq : M q.2
        · simp only [hmq, if_true]; omega
        · simp only [hmq, if_false]
          have := hrk p hp q hq hne hE; omega
    · simp only [List.mem_singleton] at hq
      subst hq
      simp only [hp2, if_false, if_true]
      by_cases hmp : M p.2
      · exact absurd hE (hcand p hp hmp)
      · simp only [hmp, if_false]; omega
  · simp only [List.mem_singleton] at hp
    subst hp
    rcases List.mem_append.1 hq with hq | hq
    · have hq2 := hcol q hq
      have hmq := hrow q.2 hE
      simp only [hq2, if_false, if_true, hmq]
      exact hN q hq
    · simp only [List.mem_singleton] at hq
      subst hq
      exact absurd rfl hne

/-- a new pivot whose column occurs in no existing pivot row (the test of `find_fl_col_pivots`) -/
theorem snoc_top_acyclic (s : Str) (S : Pivs) (i js : Nat)
    (hA : Acyclic s S) (hfree : js ∉ S.map (·.2)) (hocc : ∀ p ∈ S, js ∉ colsIn s p.1) :
    Acyclic s (S ++ [(i, js)]) := by
  obtain ⟨rk, hrk⟩ := hA
  obtain ⟨N, hN⟩ := rank_bound rk S
  refine ⟨fun j => if j = js then N else rk j, ?_⟩
  intro p hp q hq hne hE
  have hcol : ∀ p ∈ S, p.2 ≠ js := fun p hp h => hfree (List.mem_map.2 ⟨p, hp, h⟩)
  rcases List.mem_append.1 hp with hp | hp
  · have hp2 := hcol p hp
    rcases List.mem_append.1 hq with hq | hq
    · have hq2 := hcol q hq
      simp only [hp2, hq2, if_false]
      exact hrk p hp q hq hne hE
    · simp only [List.mem_singleton] at hq
      subst hq
      exact absurd hE (hocc p hp)
  · simp only [List.mem_singleton] at hp
    subst hp
    rcases List.mem_append.1 hq with hq | hq
    · have hq2 := hcol q hq
      simp only [hq2, if_false, if_true]
      exact hN q hq
    · simp only [List.mem_singleton] at hq
      subst hq
      exact absurd rfl hne

end Yuiv.C11
