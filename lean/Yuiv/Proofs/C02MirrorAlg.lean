import Yuiv.Model.KhRef
import Yuiv.Proofs.C03Uct
import Mathlib.LinearAlgebra.Matrix.NonsingularInverse
/-
C02Mirror, part A (helper; property theorems are in `Props/C02Mirror.lean`).

(a) TABLE ADJOINTNESS.  `prodCoef h t x₁ x₂ y` / `coprodCoef h t x y₁ y₂` are the coefficients the tables
    `KhRef.prod` / `KhRef.coprod` assign (sum over the table rows with that target).  Under the pairing
    ⟨1, X⟩ = ⟨X, 1⟩ = 1, ⟨1, 1⟩ = ⟨X, X⟩ = 0 — i.e. "swap the labels" `y ↦ !y` — multiplication and
    comultiplication are adjoint when `h = 0` (any `t`):
        prodCoef 0 t x₁ x₂ y = coprodCoef 0 t (!y) (!x₁) (!x₂).
    For `h ≠ 0` this fails (`prodCoef h t X X X = h`, `coprodCoef h t 1 1 1 = −h`).

(b) LINEAR ALGEBRA of the dual complex: `EquivDiag A d → EquivDiag Aᵀ d`, invariance of `EquivDiag` under
    multiplication by unimodular matrices and under re-enumeration of the bases, and the resulting cell rule.
-/
namespace Yuiv.C02Mirror
open Yuiv Yuiv.KhRef

/-! ### (a) the tables -/

/-- coefficient of the basis element `y` in `x₁ · x₂` according to the table `KhRef.prod` -/
def prodCoef (h t : Int) (x1 x2 y : Bool) : Int :=
  (((prod h t x1 x2).filter (fun r => r.1 == y)).map (fun r => r.2)).sum

/-- coefficient of `y₁ ⊗ y₂` in `Δ x` according to the table `KhRef.coprod` -/
def coprodCoef (h t : Int) (x y1 y2 : Bool) : Int :=
  (((coprod h t x).filter (fun r => r.1 == y1 && r.2.1 == y2)).map (fun r => r.2.2)).sum

theorem prod_coprod_adjoint' (t : Int) (x1 x2 y : Bool) :
    prodCoef 0 t x1 x2 y = coprodCoef 0 t (!y) (!x1) (!x2) := by
  cases x1 <;> cases x2 <;> cases y <;> simp [prodCoef, coprodCoef, prod, coprod]

/-- for `h ≠ 0` the tables are NOT adjoint under the label swap -/
theorem prod_coprod_not_adjoint (h t : Int) (hh : h ≠ 0) :
    prodCoef h t true true true ≠ coprodCoef h t false false false := by
  simp [prodCoef, coprodCoef, prod, coprod]
  omega

/-! ### (b) diagonal forms of the transpose -/

open Matrix Yuiv.C03 Yuiv.C03Uct

theorem rectDiag_transpose (m n : ℕ) (d : ℕ → ℤ) : (rectDiag m n d)ᵀ = rectDiag n m d := by
  ext i j
  simp only [transpose_apply, rectDiag_apply]
  by_cases h : j.val = i.val
  · simp [h]
  · have h' : ¬ i.val = j.val := fun e => h e.symm
    simp [h, h']

/-- transpose the unimodular factors: a diagonal form of `A` is a diagonal form of `Aᵀ` -/
theorem equivDiag_transpose {m n : ℕ} (A : Matrix (Fin m) (Fin n) ℤ) (d : List ℤ) (h : EquivDiag A d) :
    EquivDiag Aᵀ d := by
  obtain ⟨hlen, P, Q, hP, hQ, hD⟩ := h
  refine ⟨by rw [Nat.min_comm]; exact hlen, Qᵀ, Pᵀ, by rw [det_transpose]; exact hQ,
    by rw [det_transpose]; exact hP, ?_⟩
  rw [← rectDiag_transpose, ← hD, transpose_mul, transpose_mul, Matrix.mul_assoc]

/-- diagonal forms are invariant under multiplication with unimodular matrices on both sides -/
theorem equivDiag_mul_unimodular {m n : ℕ} (A : Matrix (Fin m) (Fin n) ℤ) (d : List ℤ)
    (U : Matrix (Fin m) (Fin m) ℤ) (V : Matrix (Fin n) (Fin n) ℤ) (hU : IsUnit U.det) (hV : IsUnit V.det)
    (h : EquivDiag A d) : EquivDiag (U * A * V) d := by
  obtain ⟨hlen, P, Q, hP, hQ, hD⟩ := h
  refine ⟨hlen, P * U⁻¹, V⁻¹ * Q, ?_, ?_, ?_⟩
  · rw [det_mul]; exact hP.mul (by rw [det_nonsing_inv]; exact (Ring.inverse_unit hU.unit ▸ (hU.unit⁻¹).isUnit))
  · rw [det_mul]; exact (by rw [det_nonsing_inv]; exact (Ring.inverse_unit hV.unit ▸ (hV.unit⁻¹).isUnit) : IsUnit (V⁻¹).det).mul hQ
  · rw [← hD]
    calc P * U⁻¹ * (U * A * V) * (V⁻¹ * Q)
        = P * (U⁻¹ * U) * A * (V * V⁻¹) * Q := by simp only [Matrix.mul_assoc]
      _ = P * A * Q := by rw [nonsing_inv_mul U hU, mul_nonsing_inv V hV, Matrix.mul_one, Matrix.mul_one]

/-- a diagonal matrix with entries `±1` is unimodular -/
theorem isUnit_det_diagonal_sign {n : ℕ} (σ : Fin n → ℤ) (hσ : ∀ i, σ i = 1 ∨ σ i = -1) :
    IsUnit (Matrix.diagonal σ).det := by
  rw [det_diagonal]
  apply IsUnit.prod_univ_iff.mpr
  intro i
  rcases hσ i with h | h <;> rw [h]
  · exact isUnit_one
  · exact isUnit_one.neg

/-- diagonal forms do not depend on the enumeration of the two bases -/
theorem equivDiag_reindex {m n : ℕ} (A : Matrix (Fin m) (Fin n) ℤ) (d : List ℤ)
    (σ : Fin m ≃ Fin m) (τ : Fin n ≃ Fin n) (h : EquivDiag A d) : EquivDiag (A.submatrix σ τ) d := by
  obtain ⟨hlen, P, Q, hP, hQ, hD⟩ := h
  have hPi : P * P⁻¹ = 1 := mul_nonsing_inv P hP
  have hQi : Q⁻¹ * Q = 1 := nonsing_inv_mul Q hQ
  refine ⟨hlen, P.submatrix id σ, Q.submatrix τ id, ?_, ?_, ?_⟩
  · apply Matrix.isUnit_det_of_right_inverse (B := P⁻¹.submatrix σ id)
    rw [submatrix_mul_equiv, hPi]
    simp
  · apply Matrix.isUnit_det_of_left_inverse (B := Q⁻¹.submatrix id τ)
    rw [submatrix_mul_equiv, hQi]
    simp
  · rw [submatrix_mul_equiv, submatrix_mul_equiv, hD]
    simp

/-- the free rank of the reported cell is symmetric in the two diagonals -/
theorem cellOf_rank_symm (n : ℕ) (dA dB : List ℤ) : (cellOf n dB dA).rank = (cellOf n dA dB).rank := by
  simp only [cellOf]
  omega

end Yuiv.C02Mirror
