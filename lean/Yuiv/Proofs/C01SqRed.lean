import Yuiv.Proofs.C01SqMain
import Yuiv.Proofs.C06CycleD

/-
C01SqRed — `d ∘ d = 0` of the reference cube in the REDUCED theory for `t = 0` (helper; the property theorem is restated
in `Props/C01Sq.lean`).

In the reduced theory `Cube.d` computes the terms of the unreduced differential (`C06Cycle.dRaw`, which reads only
`c.n`, `c.circ`) and keeps a term `(y, a)` iff the circle of the state `y.s` through the base edge `e` is labelled `X`
(`C06Cycle.baseKeep`).  For `t = 0` the span of these generators is a SUBCOMPLEX of the unreduced complex
(`X·1 = X`, `X·X = hX`, `ΔX = X⊗X`; the rows with coefficient `t = 0` are dropped by the test `a != 0` of `Cube.d`):

  * `prod_keep`, `coprod_keep`  : the rows of `prod h 0`, `coprod h 0` with non-zero coefficient;
  * `edge_keep`  (KEY LEMMA, one edge, merge and split): circle lists `cs → cs'` satisfying `CirclesSpec` for the same
    labels, at most 64 circles, `e` a label: if the circle of `cs` through `e` is labelled `X` in `m`, so is the circle
    of `cs'` through `e` in every term of `C02Mirror.edgeTerms h 0 cs cs' m` (common circle: the label is carried over,
    `carry_keep`; born circle: then the circle of `e` in `cs` is gone, `gone_of_born`);
  * `edgeTerms_bridge`          : `C06Cycle.edgeTerms` = signed `C02Mirror.edgeTerms`;
  * `dRaw_keep`  (`dRaw` level) : every term of `dRaw c p g` keeps the base (and lives at a vertex `< 2^n`);
  * `d_reduced_eq`              : on a generator with `baseKeep` the reduced `Cube.d` is the `Cube.d` of the cube
    `{ c with base := none }`;
  * `d_squared_zero_reduced_of` : general cube (`RedHyp`: base edge a label, `CirclesSpec` + `Pair` at every vertex);
  * `redHyp_mkCube`, `d_squared_zero_reduced` : the cube of a valid diagram (the base edge
    `(l[0]).e.foldl min (l[0]).e[0]!` is a label of the first crossing, `foldl_min_mem`).
-/
namespace Yuiv.C01Sq
open Yuiv Yuiv.KhRef Yuiv.C04Inv
open Yuiv.C06Cycle (CirclesSpec circleIdx circleIdx_of_mem baseKeep dRaw cube_d_eq validK)
open Yuiv.C02Mirror (Circ ix Pair cubeOK)

/-! ### the structure constants at `t = 0` -/

theorem prod_keep (h : Int) (x0 x1 : Bool) (hx : x0 = true ∨ x1 = true) (ya : Bool × Int)
    (hm : ya ∈ prod h 0 x0 x1) (ha : ya.2 ≠ 0) : ya.1 = true := by
  cases x0 <;> cases x1 <;>
    simp only [prod, List.mem_cons, List.not_mem_nil, or_false] at hm
  · simp at hx
  · subst hm; rfl
  · subst hm; rfl
  · rcases hm with rfl | rfl
    · rfl
    · exact absurd rfl ha

theorem coprod_keep (h : Int) (yya : Bool × Bool × Int) (hm : yya ∈ coprod h 0 true) (ha : yya.2.2 ≠ 0) :
    yya.1 = true ∧ yya.2.1 = true := by
  simp only [coprod, List.mem_cons, List.not_mem_nil, or_false] at hm
  rcases hm with rfl | rfl
  · exact ⟨rfl, rfl⟩
  · exact absurd rfl ha

/-! ### the circle through the base edge -/

section circ
variable {labels : Array Nat} {P P' : List (Nat × Nat)} {cs cs' : Circ} {e : Nat}

theorem circleIdx_spec (h : CirclesSpec labels P cs) (he : e ∈ labels) :
    circleIdx cs e < cs.size ∧ e ∈ cs[circleIdx cs e]! := by
  obtain ⟨i, hi, hx⟩ := h.cover e he
  rw [circleIdx_of_mem h hi hx]
  exact ⟨hi, hx⟩

theorem findIdx_circle (h : CirclesSpec labels P cs) (he : e ∈ labels) :
    cs.findIdx? (fun c => c.contains e) = some (circleIdx cs e) := by
  have := (circleIdx_spec h he).1
  unfold circleIdx at this ⊢
  cases hf : cs.findIdx? (fun c => c.contains e) with
  | none => rw [hf] at this; simp at this
  | some k => rfl

/-- a common circle at the position of the base circle of `cs'` is the base circle of `cs` -/
theorem common_idx (h : CirclesSpec labels P cs) (h' : CirclesSpec labels P' cs') (he : e ∈ labels)
    (i' : Nat) (hi' : i' < cs.size) (hc : cs[i']! ∈ cs') (hix : ix cs' cs[i']! = circleIdx cs' e) :
    i' = circleIdx cs e := by
  have h2 := (C02Mirror.ix_spec cs' cs[i']! hc).2
  rw [hix] at h2
  have hej := (circleIdx_spec h' he).2
  rw [h2] at hej
  exact (circleIdx_of_mem h hi' hej).symm

/-- if the base circle of `cs'` is born, the base circle of `cs` is gone -/
theorem gone_of_born (h : CirclesSpec labels P cs) (h' : CirclesSpec labels P' cs') (he : e ∈ labels)
    (hb : circleIdx cs' e ∈ C02Mirror.goneOf cs' cs) : circleIdx cs e ∈ C02Mirror.goneOf cs cs' := by
  obtain ⟨hi, hei⟩ := circleIdx_spec h he
  refine (C02Mirror.mem_goneOf cs cs' _).2 ⟨hi, fun hc => ?_⟩
  obtain ⟨k1, k2⟩ := C02Mirror.ix_spec cs' _ hc
  rw [← k2] at hei
  have := circleIdx_of_mem h' k1 hei
  have hn := ((C02Mirror.mem_goneOf cs' cs _).1 hb).2
  rw [this, k2] at hn
  exact hn (C02Mirror.getElem!_mem cs _ hi)

/-- the label `X` of the base circle is carried over when that circle is common -/
theorem carry_keep (hP : Pair cs cs') (h : CirclesSpec labels P cs) (h' : CirclesSpec labels P' cs')
    (he : e ∈ labels) (m : Nat) (hm : m.testBit (circleIdx cs e) = true)
    (hnb : circleIdx cs' e ∉ C02Mirror.goneOf cs' cs) :
    (C02Mirror.carry cs cs' m).testBit (circleIdx cs' e) = true := by
  rcases C02Mirror.pos_cases hP _ (circleIdx_spec h' he).1 with ⟨i', hi', hc, hix⟩ | hb
  · have := common_idx h h' he i' hi' hc hix
    subst this
    rw [← hix, C02Mirror.carry_at hP m _ hi' hc]
    exact hm
  · exact absurd hb hnb

/-- KEY LEMMA (one edge, `t = 0`): if the circle of `cs` through `e` is labelled `X` in `m`, then in every term of the
edge map `cs → cs'` (merge or split) the circle of `cs'` through `e` is labelled `X` -/
theorem edge_keep (hP : Pair cs cs') (h : CirclesSpec labels P cs) (h' : CirclesSpec labels P' cs')
    (he : e ∈ labels) (hh : Int) (m : Nat) (hm : m.testBit (circleIdx cs e) = true) (ts : List (Nat × Int))
    (hts : C02Mirror.edgeTerms hh 0 cs cs' m = some ts) :
    ∀ x ∈ ts, x.1.testBit (circleIdx cs' e) = true := by
  have hM := (C02Mirror.carry_spec cs cs' m hP.nd hP.le').1
  have h64 := hP.le'
  have hok : C02Mirror.edgeOK cs cs' = true := by
    rw [← C02Mirror.edgeTerms_isSome hh 0 cs cs' m, hts]; rfl
  unfold C02Mirror.edgeOK at hok
  rw [Bool.or_eq_true, Bool.and_eq_true, Bool.and_eq_true, beq_iff_eq, beq_iff_eq, beq_iff_eq, beq_iff_eq] at hok
  rcases hok with ⟨sG, sB⟩ | ⟨sG, sB⟩
  · obtain ⟨g0, g1, hG⟩ : ∃ g0 g1, C02Mirror.goneOf cs cs' = #[g0, g1] := ⟨_, _, C02Mirror.arr_two _ sG⟩
    obtain ⟨b, hB⟩ : ∃ b, C02Mirror.goneOf cs' cs = #[b] := ⟨_, C02Mirror.arr_one _ sB⟩
    have hbm : b ∈ C02Mirror.goneOf cs' cs := by rw [hB]; simp
    have hb := ((C02Mirror.mem_goneOf cs' cs b).1 hbm).1
    rw [edgeTerms_merge hh 0 m hG hB] at hts
    injection hts with hts
    subst hts
    intro x hx
    obtain ⟨ya, hya, hxe⟩ := List.mem_filterMap.1 hx
    by_cases hne : ya.2 = 0
    · simp [hne] at hxe
    · have hne' : (ya.2 != 0) = true := by simp [hne]
      rw [if_pos hne'] at hxe
      injection hxe with hxe
      subst hxe
      show (setBit _ _ _).testBit _ = true
      rw [C02Mirror.testBit_setBit _ _ _ _ hM (by omega)]
      by_cases hjb : circleIdx cs' e = b
      · rw [if_pos hjb]
        have hgone := gone_of_born h h' he (by rw [hjb]; exact hbm)
        rw [hG] at hgone
        have hor : circleIdx cs e = g0 ∨ circleIdx cs e = g1 := by simpa using hgone
        apply prod_keep hh _ _ ?_ ya hya hne
        rcases hor with e1 | e1
        · left; rw [← e1]; exact hm
        · right; rw [← e1]; exact hm
      · rw [if_neg hjb]
        apply carry_keep hP h h' he m hm
        intro hmem
        rw [hB] at hmem
        exact hjb (by simpa using hmem)
  · obtain ⟨g0, hG⟩ : ∃ g0, C02Mirror.goneOf cs cs' = #[g0] := ⟨_, C02Mirror.arr_one _ sG⟩
    obtain ⟨b0, b1, hB⟩ : ∃ b0 b1, C02Mirror.goneOf cs' cs = #[b0, b1] := ⟨_, _, C02Mirror.arr_two _ sB⟩
    have hb0 := ((C02Mirror.mem_goneOf cs' cs b0).1 (by rw [hB]; simp)).1
    have hb1 := ((C02Mirror.mem_goneOf cs' cs b1).1 (by rw [hB]; simp)).1
    rw [edgeTerms_split hh 0 m hG hB] at hts
    injection hts with hts
    subst hts
    intro x hx
    obtain ⟨ya, hya, hxe⟩ := List.mem_filterMap.1 hx
    by_cases hne : ya.2.2 = 0
    · simp [hne] at hxe
    · have hne' : (ya.2.2 != 0) = true := by simp [hne]
      rw [if_pos hne'] at hxe
      injection hxe with hxe
      subst hxe
      show (setBit (setBit _ _ _) _ _).testBit _ = true
      rw [C02Mirror.testBit_setBit _ _ _ _ (C02Mirror.setBit_lt _ _ _ hM (by omega)) (by omega),
        C02Mirror.testBit_setBit _ _ _ _ hM (by omega)]
      by_cases hjb : circleIdx cs' e = b1 ∨ circleIdx cs' e = b0
      · have hgone := gone_of_born h h' he (by rw [hB]; rcases hjb with e1 | e1 <;> simp [e1])
        rw [hG] at hgone
        have e1 : circleIdx cs e = g0 := by simpa using hgone
        rw [e1] at hm
        rw [hm] at hya
        obtain ⟨y1, y2⟩ := coprod_keep hh ya hya hne
        rcases hjb with e2 | e2
        · rw [if_pos e2]; exact y2
        · by_cases e3 : circleIdx cs' e = b1
          · rw [if_pos e3]; exact y2
          · rw [if_neg e3, if_pos e2]; exact y1
      · rw [if_neg (fun e1 => hjb (Or.inl e1)), if_neg (fun e1 => hjb (Or.inr e1))]
        apply carry_keep hP h h' he m hm
        intro hmem
        rw [hB] at hmem
        have : circleIdx cs' e = b0 ∨ circleIdx cs' e = b1 := by simpa using hmem
        exact hjb this.symm

end circ
/-! ### the cube -/

theorem carry_eq' (cs cs' : Circ) (m : Nat) : C06Cycle.carry cs cs' m = C02Mirror.carry cs cs' m := by
  unfold C06Cycle.carry C02Mirror.carry
  rw [List.range_eq_range']

/-- the edge terms of the loop-free form of `Cube.d` are the signed mask-level edge terms -/
theorem edgeTerms_bridge (c : Cube) (p : Params) (g : Gen) (k : Nat) :
    C06Cycle.edgeTerms c p g k =
      (C02Mirror.edgeTerms p.h p.t c.circ[g.s]! c.circ[g.s ||| 1 <<< k]! g.mask).map
        (fun ts => ts.map (fun mt => ((⟨g.s ||| 1 <<< k, mt.1⟩ : Gen), edgeSign g.s k * mt.2))) := by
  have eg : ∀ cs cs', C06Cycle.goneOf cs cs' = C02Mirror.goneOf cs cs' := fun _ _ => rfl
  have eb : ∀ cs cs', C06Cycle.bornOf cs cs' = C02Mirror.goneOf cs' cs := fun _ _ => rfl
  unfold C06Cycle.edgeTerms C02Mirror.edgeTerms
  simp only [eg, eb, carry_eq']
  split
  · rw [Option.map_some, List.map_filterMap]
    congr 1
    apply List.filterMap_congr
    intro x _
    split <;> rfl
  · split
    · rw [Option.map_some, List.map_filterMap]
      congr 1
      apply List.filterMap_congr
      intro x _
      split <;> rfl
    · rfl

theorem dRaw_mem_aux (c : Cube) (p : Params) (g : Gen) (is : List Nat) (acc out : List Term)
    (h : is.foldlM (fun out k => if g.s.testBit k then some out
      else (C06Cycle.edgeTerms c p g k).map (fun ts => out ++ ts)) acc = some out) :
    ∀ x ∈ out, x ∈ acc ∨ ∃ k ∈ is, g.s.testBit k = false ∧ ∃ ts, C06Cycle.edgeTerms c p g k = some ts ∧ x ∈ ts := by
  induction is generalizing acc with
  | nil =>
    simp only [List.foldlM_nil] at h
    cases h
    intro x hx
    exact Or.inl hx
  | cons k is ih =>
    rw [List.foldlM_cons] at h
    intro x hx
    cases hb : g.s.testBit k with
    | false =>
      simp only [hb, Bool.false_eq_true, if_false] at h
      cases he : C06Cycle.edgeTerms c p g k with
      | none => rw [he] at h; cases h
      | some ts =>
        rw [he] at h
        rcases ih (acc ++ ts) h x hx with h1 | ⟨k', hk', h2⟩
        · rcases List.mem_append.1 h1 with h1 | h1
          · exact Or.inl h1
          · exact Or.inr ⟨k, List.mem_cons_self, hb, ts, he, h1⟩
        · exact Or.inr ⟨k', List.mem_cons_of_mem _ hk', h2⟩
    | true =>
      simp only [hb, if_true] at h
      rcases ih acc h x hx with h1 | ⟨k', hk', h2⟩
      · exact Or.inl h1
      · exact Or.inr ⟨k', List.mem_cons_of_mem _ hk', h2⟩

/-- what the proof uses of a cube of the reduced theory -/
structure RedHyp (c : Cube) (labels : Array Nat) (e : Nat) : Prop where
  base : c.base = some e
  mem : e ∈ labels
  spec : ∀ s, s < 2 ^ c.n → ∃ P, CirclesSpec labels P c.circ[s]!
  pair : ∀ s s', s < 2 ^ c.n → s' < 2 ^ c.n → Pair c.circ[s]! c.circ[s']!

section cube
variable {c : Cube} {labels : Array Nat} {e : Nat}

theorem baseKeep_eq (H : RedHyp c labels e) (y : Gen) (hs : y.s < 2 ^ c.n) :
    baseKeep c y = y.mask.testBit (circleIdx c.circ[y.s]! e) := by
  obtain ⟨P, hP⟩ := H.spec y.s hs
  unfold baseKeep Cube.baseCircle
  simp only [H.base, findIdx_circle hP H.mem]

/-- `dRaw`-LEVEL STATEMENT: with `t = 0`, every term of the unfiltered `d g` of a generator `g` whose base circle is
labelled `X` again has its base circle labelled `X` (and lives at a vertex of the cube) -/
theorem dRaw_keep (H : RedHyp c labels e) (p : Params) (ht : p.t = 0) (g : Gen) (hs : g.s < 2 ^ c.n)
    (hg : baseKeep c g = true) (out : List Term) (hd : dRaw c p g = some out) :
    ∀ x ∈ out, x.1.s < 2 ^ c.n ∧ baseKeep c x.1 = true := by
  intro x hx
  unfold dRaw at hd
  rcases dRaw_mem_aux c p g _ [] out hd x hx with h | ⟨k, hk, hbit, ts, hts, hxt⟩
  · cases h
  · have hk' : k < c.n := List.mem_range.1 hk
    rw [edgeTerms_bridge] at hts
    cases hm : C02Mirror.edgeTerms p.h p.t c.circ[g.s]! c.circ[g.s ||| 1 <<< k]! g.mask with
    | none => rw [hm] at hts; cases hts
    | some tl =>
      rw [hm, Option.map_some] at hts
      injection hts with hts
      subst hts
      obtain ⟨mt, hmt, rfl⟩ := List.mem_map.1 hxt
      have hs' := C02Mirror.or_bit_lt _ g.s k hs hk'
      refine ⟨hs', ?_⟩
      rw [baseKeep_eq H _ hs']
      rw [baseKeep_eq H g hs] at hg
      obtain ⟨P, hP⟩ := H.spec g.s hs
      obtain ⟨P', hP'⟩ := H.spec _ hs'
      rw [ht] at hm
      exact edge_keep (H.pair _ _ hs hs') hP hP' H.mem p.h g.mask hg tl hm mt hmt

theorem d_of_base_none (c : Cube) (hb : c.base = none) (p : Params) (g : Gen) :
    c.d p g = (dRaw c p g).map List.toArray := by
  rw [cube_d_eq]
  simp only [hb]

/-- on a generator with base circle `X` the reduced differential is the unreduced one -/
theorem d_reduced_eq (H : RedHyp c labels e) (p : Params) (ht : p.t = 0) (g : Gen) (hs : g.s < 2 ^ c.n)
    (hg : baseKeep c g = true) : c.d p g = ({ c with base := none } : Cube).d p g := by
  rw [d_of_base_none { c with base := none } rfl, cube_d_eq c p g]
  show _ = (dRaw c p g).map List.toArray
  cases hd : dRaw c p g with
  | none => rfl
  | some out =>
    simp only [Option.map_some, H.base]
    congr 2
    exact List.filter_eq_self.2 (fun x hx => (dRaw_keep H p ht g hs hg out hd x hx).2)

/-- `d ∘ d = 0` of the reduced theory (`t = 0`) from the unreduced statement -/
theorem d_squared_zero_reduced_of (H : RedHyp c labels e) (p : Params) (ht : p.t = 0) (hok : cubeOK c)
    (hF : FaceComm c p) (g : Gen) (hs : g.s < 2 ^ c.n) (hg : baseKeep c g = true) :
    ∃ ts, c.d p g = some ts ∧ Yuiv.Drv.C06.dOfChain c p ts.toList = some [] := by
  have hok0 : cubeOK ({ c with base := none } : Cube) := hok
  have hF0 : FaceComm ({ c with base := none } : Cube) p := hF
  obtain ⟨ts, hd0, hz0⟩ := d_squared_zero_of_faces { c with base := none } p rfl hok0 hF0 g hs
  have hd : c.d p g = some ts := by rw [d_reduced_eq H p ht g hs hg]; exact hd0
  refine ⟨ts, hd, ?_⟩
  rw [d_of_base_none _ rfl] at hd0
  change (dRaw c p g).map List.toArray = some ts at hd0
  cases hr : dRaw c p g with
  | none => rw [hr] at hd0; cases hd0
  | some out =>
    rw [hr, Option.map_some] at hd0
    injection hd0 with hd0
    subst hd0
    have hkeep := dRaw_keep H p ht g hs hg out hr
    rw [C06Cycle.dOfChain_nil_iff] at hz0 ⊢
    obtain ⟨h1, h2⟩ := hz0
    have heq : ∀ ga ∈ out.toArray.toList, c.d p ga.1 = ({ c with base := none } : Cube).d p ga.1 :=
      fun ga hm => d_reduced_eq H p ht ga.1 (hkeep ga (by simpa using hm)).1 (hkeep ga (by simpa using hm)).2
    refine ⟨fun ga hm => by rw [heq ga hm]; exact h1 ga hm, fun y => ?_⟩
    rw [← h2 y]
    apply C06Cycle.chainSum_congr
    intro ga hm
    simp only [heq ga hm]

end cube

/-! ### the cube of a diagram -/

theorem foldl_min_mem (xs : List Nat) (a : Nat) : xs.foldl min a = a ∨ xs.foldl min a ∈ xs := by
  induction xs generalizing a with
  | nil => left; rfl
  | cons x xs ih =>
    rw [List.foldl_cons]
    rcases ih (min a x) with h | h
    · rw [h]
      rcases Nat.le_total a x with h1 | h1
      · left; exact Nat.min_eq_left h1
      · right; rw [Nat.min_eq_right h1]; exact List.mem_cons_self
    · right; exact List.mem_cons_of_mem _ h

theorem redHyp_mkCube (l : Link) (hv : validK l = true) (hL : (edgeLabels l).size ≤ 64) (p : Params) (e : Nat)
    (hb : (mkCube l p).base = some e) : RedHyp (mkCube l p) (edgeLabels l) e := by
  have hwf := C06Cycle.wf_of_validK l hv
  refine ⟨hb, ?_, ?_, ?_⟩
  · change (if p.reduced = true then
        (if h : 0 < l.size then some ((l[0]).e.foldl min (l[0]).e[0]!) else none) else none) = some e at hb
    split at hb
    · split at hb
      · rename_i h0
        injection hb with hb
        subst hb
        have hmem : l[0] ∈ l := Array.getElem_mem h0
        have h4 : (l[0]).e.size = 4 := hwf _ hmem
        rw [mem_edgeLabels]
        refine ⟨l[0], hmem, ?_⟩
        rw [← Array.foldl_toList]
        rcases foldl_min_mem (l[0]).e.toList (l[0]).e[0]! with h | h
        · rw [h, getElem!_pos _ 0 (by omega)]
          exact Array.getElem_mem _
        · exact Array.mem_toList_iff.1 h
      · cases hb
    · cases hb
  · intro s hs
    refine ⟨statePairs l s, ?_⟩
    rw [C02Mirror.mkCube_circ l p s hs]
    exact C06Cycle.circles_spec l hwf s
  · intro s s' hs hs'
    exact C02Mirror.cube_pair l p hL s s' hs hs'

/-- REDUCED THEORY, `t = 0`: `d ∘ d = 0` on the generators whose base circle is labelled `X` -/
theorem d_squared_zero_reduced (l : Link) (hv : C06Cycle.validK l = true) (hL : (edgeLabels l).size ≤ 64)
    (p : Params) (hr : p.reduced = true) (ht : p.t = 0) (hok : C02Mirror.cubeOK (mkCube l p))
    (g : Gen) (hs : g.s < 2 ^ crossingNum l) (hg : C06Cycle.baseKeep (mkCube l p) g = true) :
    ∃ ts, (mkCube l p).d p g = some ts ∧ Yuiv.Drv.C06.dOfChain (mkCube l p) p ts.toList = some [] := by
  have _ := hr
  cases hb : (mkCube l p).base with
  | none => exact d_squared_zero_of_faces (mkCube l p) p hb hok (faceComm_mkCube l hv hL p hok) g hs
  | some e =>
    exact d_squared_zero_reduced_of (redHyp_mkCube l hv hL p e hb) p ht hok (faceComm_mkCube l hv hL p hok) g hs hg

end Yuiv.C01Sq
