import Yuiv.Proofs.C18BridgeModel
import Yuiv.Proofs.C18BridgeSim
import Yuiv.Proofs.C18InvMain
import Yuiv.Proofs.C18InvPerm
import Yuiv.Proofs.C18InvBraid2
/-
C18Bridge — `KhRef.crossingSigns` on translated links = encoding of `C18.crossingSigns`, and the transfer of the
C18 / C18Inv sign theorems to the reference.
-/
namespace Yuiv.C18Bridge
open Yuiv Yuiv.KhRef
open Yuiv.C18 (Valid)

/-- THE BRIDGE: for every valid link the reference's `crossingSigns` of the translated link is the encoding of
the code model's `crossing_signs` (both return) -/
theorem khSigns_eq (l : C18.Link) (hv : Valid l) :
    ∃ s, C18.crossingSigns l = .ok s ∧ KhRef.crossingSigns (toKh l) = some (s.map encSign).toArray := by
  obtain ⟨s, h1, h2⟩ := signsF_toKh l hv
  exact ⟨s, h1, by rw [crossingSigns_eq, h2]⟩

theorem khSigns_enc (l : C18.Link) (hv : Valid l) :
    KhRef.crossingSigns (toKh l) = encSigns (C18.crossingSigns l) := by
  obtain ⟨s, h1, h2⟩ := khSigns_eq l hv
  rw [h2, h1]; rfl

/-! ### the translation commutes with the operations -/

theorem toKh_permute (p : List Nat) (l : C18.Link) : toKh (C18.permute p l) = permuteK p (toKh l) := by
  unfold toKh C18.permute permuteK
  congr 1
  rw [List.map_filterMap]
  apply filterMap_congr_mem'
  intro i _
  simp only [List.getElem?_toArray, List.getElem?_map]

theorem ctKh_mirror (t : C18.CType) : ctKh t.mirror = (ctKh t).mirror := by cases t <;> rfl

theorem toKh_mirror (l : C18.Link) : toKh (C18.mirror l) = KhRef.mirror (toKh l) := by
  unfold toKh C18.mirror KhRef.mirror
  rw [List.map_map, List.map_toArray, List.map_map]
  congr 2
  funext c
  simp only [Function.comp, crossingKh, C18.Crossing.mirror, ctKh_mirror]

theorem toKh_renumber (f : Nat → Nat) (l : C18.Link) : toKh (C18.renumber f l) = renumberK f (toKh l) := by
  unfold toKh C18.renumber renumberK
  rw [List.map_map, List.map_toArray, List.map_map]
  congr 2
  funext c
  simp [Function.comp, crossingKh, C18.Crossing.convertEdges]

theorem allEdges_mirror (l : C18.Link) : C18.allEdges (C18.mirror l) = C18.allEdges l := by
  unfold C18.allEdges C18.mirror
  rw [List.flatMap_map]
  rfl

theorem valid_mirror (l : C18.Link) (hv : Valid l) : Valid (C18.mirror l) := by
  unfold C18.Valid; rw [allEdges_mirror]; exact hv

theorem allEdges_renumber (f : Nat → Nat) (l : C18.Link) :
    C18.allEdges (C18.renumber f l) = (C18.allEdges l).map f := by
  unfold C18.allEdges C18.renumber
  rw [List.flatMap_map, List.map_flatMap]
  rfl

theorem valid_renumber (f : Nat → Nat) (hf : C18.Inj f) (l : C18.Link) (hv : Valid l) :
    Valid (C18.renumber f l) := by
  unfold C18.Valid
  rw [allEdges_renumber]
  intro e he
  obtain ⟨x, hx, rfl⟩ := List.mem_map.1 he
  have : ((C18.allEdges l).map f).count (f x) = (C18.allEdges l).count x := by
    rw [List.count_eq_countP, List.countP_map, List.count_eq_countP]
    apply List.countP_congr
    intro y _
    simp only [Function.comp, beq_iff_eq]
    exact ⟨fun h => hf _ _ h, fun h => by rw [h]⟩
  rw [this]; exact hv x hx

/-! ### signs of the reference, counted -/

/-- number of positive / negative entries, as `khHomology` and `jones` count them -/
def nPosK (sg : Array Int) : Nat := (sg.filter (· > 0)).size
def nNegK (sg : Array Int) : Nat := (sg.filter (· < 0)).size

theorem nPos_enc (s : List C18.Sign) : nPosK (s.map encSign).toArray = s.count .pos := by
  unfold nPosK
  rw [← Array.length_toList, Array.toList_filter]
  induction s with
  | nil => rfl
  | cons a r ih =>
    cases a
    · simpa [encSign, List.count_cons] using ih
    · simpa [encSign, List.count_cons] using ih

theorem nNeg_enc (s : List C18.Sign) : nNegK (s.map encSign).toArray = s.count .neg := by
  unfold nNegK
  rw [← Array.length_toList, Array.toList_filter]
  induction s with
  | nil => rfl
  | cons a r ih =>
    cases a
    · simpa [encSign, List.count_cons] using ih
    · simpa [encSign, List.count_cons] using ih

theorem encSign_flip (s : C18.Sign) : encSign s.flip = -encSign s := by cases s <;> rfl

end Yuiv.C18Bridge
