import Yuiv.Proofs.C02MirrorDual
/-
C02Mirror, part F (helper): degrees of the dual generators, the matrices of the differentials, and the cell rule.
-/
namespace Yuiv.C02Mirror
open Yuiv Yuiv.KhRef Yuiv.C04Inv Matrix Yuiv.C03 Yuiv.C03Uct

/-! ### degrees -/

theorem popcount_compl (n s : Nat) (hs : s < 2 ^ n) : popcount (compl n s) n + popcount s n = n :=
  popcount_compl_le n s n hs (Nat.le_refl n)

/-- homological degree: `i ↦ −i` (with `n₊ ↔ n₋`, `n₊ + n₋ = n`) -/
theorem hDeg_dual (n s nPos nNeg : Nat) (hs : s < 2 ^ n) (hn : nPos + nNeg = n) :
    -(nPos : Int) + (popcount (compl n s) n : Int) = -(-(nNeg : Int) + (popcount s n : Int)) := by
  have := popcount_compl n s hs
  omega

theorem dualGen_s (c : Cube) (g : Gen) : (dualGen c g).s = compl c.n g.s := rfl
theorem dualGen_mask (c : Cube) (g : Gen) : (dualGen c g).mask = flipMask (c.circ[g.s]!).size g.mask := rfl

/-- quantum degree: `j ↦ −j` when the two shifts satisfy `q0 + q0' + n = 0` (e.g. `q0 = n₊ − 2n₋`, `q0' = n₋ − 2n₊`) -/
theorem qDeg_dual (l : Link) (p : Params) (g : Gen) (hg : IsGen (mkCube l p) g) (q0 q0' : Int)
    (hq : q0 + q0' + (crossingNum l : Int) = 0) :
    (mkCube (mirror l) p).qDeg q0' (dualGen (mkCube l p) g) = -((mkCube l p).qDeg q0 g) := by
  obtain ⟨hs, hm⟩ := hg
  unfold Cube.qDeg
  simp only [dualGen_s, dualGen_mask, mkCube_n] at hs hm ⊢
  rw [crossingNum_mirror, cube_mirror_circ l p _ hs]
  have h1 := popcount_compl (crossingNum l) g.s hs
  have h2 := popcount_compl ((mkCube l p).circ[g.s]!).size g.mask hm
  unfold compl at h2
  unfold flipMask
  omega

theorem dualGen_dualGen (l : Link) (p : Params) (g : Gen) (hg : IsGen (mkCube l p) g) :
    dualGen (mkCube (mirror l) p) (dualGen (mkCube l p) g) = g := by
  obtain ⟨hs, hm⟩ := hg
  obtain ⟨s, m⟩ := g
  simp only [mkCube_n] at hs hm
  unfold dualGen
  simp only [mkCube_n, crossingNum_mirror, cube_mirror_circ l p _ hs]
  rw [compl_compl _ _ hs, flipMask_flipMask _ _ hm]

/-! ### matrices -/

/-- the matrix of `Cube.d` from the generators `src` to the generators `tgt` (rows = targets) -/
def dMatrix (c : Cube) (p : Params) {a b : ℕ} (src : Fin a → Gen) (tgt : Fin b → Gen) : Matrix (Fin b) (Fin a) ℤ :=
  Matrix.of fun j i => dCoef c p (src i) (tgt j)

/-- ASSEMBLED MATRIX STATEMENT: in the dual bases the differential of the mirror cube is
`D_src · (differential of the cube)ᵀ · D_tgt` with `D` the diagonal `±1` matrices of the signs `σ` -/
theorem dMatrix_dual (l : Link) (p : Params) (hh : p.h = 0) (hr : p.reduced = false) (hL : (edgeLabels l).size ≤ 64)
    (hok : cubeOK (mkCube l p)) {a b : ℕ} (src : Fin a → Gen) (tgt : Fin b → Gen)
    (hsrc : ∀ i, IsGen (mkCube l p) (src i)) (htgt : ∀ j, IsGen (mkCube l p) (tgt j)) :
    dMatrix (mkCube (mirror l) p) p (fun j => dualGen (mkCube l p) (tgt j)) (fun i => dualGen (mkCube l p) (src i))
      = Matrix.diagonal (fun i => sigma (crossingNum l) (src i).s) * (dMatrix (mkCube l p) p src tgt)ᵀ
          * Matrix.diagonal (fun j => sigma (crossingNum l) (tgt j).s) := by
  ext i j
  rw [Matrix.mul_diagonal, Matrix.diagonal_mul]
  simp only [dMatrix, Matrix.of_apply, Matrix.transpose_apply]
  rw [dCoef_dual l p hh hr hL hok (src i) (tgt j) (hsrc i) (htgt j)]
  ring

theorem sigma_unit (n s : Nat) : sigma n s = 1 ∨ sigma n s = -1 := negPow_unit _

/-- FROM DUALITY TO DIAGONAL FORMS: a diagonal form of a differential of the cube is a diagonal form of the
corresponding (transposed) differential of the mirror cube -/
theorem equivDiag_mirror (l : Link) (p : Params) (hh : p.h = 0) (hr : p.reduced = false)
    (hL : (edgeLabels l).size ≤ 64) (hok : cubeOK (mkCube l p)) {a b : ℕ} (src : Fin a → Gen) (tgt : Fin b → Gen)
    (hsrc : ∀ i, IsGen (mkCube l p) (src i)) (htgt : ∀ j, IsGen (mkCube l p) (tgt j)) (d : List ℤ)
    (hd : EquivDiag (dMatrix (mkCube l p) p src tgt) d) :
    EquivDiag (dMatrix (mkCube (mirror l) p) p (fun j => dualGen (mkCube l p) (tgt j))
      (fun i => dualGen (mkCube l p) (src i))) d := by
  rw [dMatrix_dual l p hh hr hL hok src tgt hsrc htgt]
  exact equivDiag_mul_unimodular _ d _ _ (isUnit_det_diagonal_sign _ (fun i => sigma_unit _ _))
    (isUnit_det_diagonal_sign _ (fun j => sigma_unit _ _)) (equivDiag_transpose _ d hd)

end Yuiv.C02Mirror
