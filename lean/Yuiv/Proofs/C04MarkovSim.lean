import Yuiv.Props.C04Reid
/-
C04Markov (helper, no property theorem here): shared infrastructure for the Markov moves on braid closures.
  * `gsim_fold` : the closure loop commutes with every relabelling `φ` that acts as a shift `z ↦ z + δ` on the labels
    `≥ c` that are still to be created;
  * `JInv n w n' w'` : "whenever both closures exist, the reference's own sign computations succeed on both and the
    `jones` (and `chiChain`) coefficient lists are literally equal" — a symmetric relation, transitive through every
    word whose closure exists;
  * `jinv_of_stateSum` : `JInv` from equality of the state sums at `x = −q`, `y = q + q⁻¹`, equal exponent sums and equal
    lengths.
-/
open Yuiv.KhRef Yuiv.C04
namespace Yuiv.C04Inv
open Relation
open Yuiv.C18 (closureStep closurePD closure connRename hasFreeLoop CInv PD flatPD fromPD4)
open Yuiv.C18Bridge (toKh crossingKh)

variable {R : Type} [CommRing R]

/-! ### the closure loop under a relabelling -/

theorem gsim_step (φ : Nat → Nat) (δ c : Nat) (hφ : ∀ z, c ≤ z → φ z = z + δ) (st st' : Nat × List Nat × PD) (s : Int)
    (hn : c ≤ st.1) (h : closureStep st s = .ok st') :
    c ≤ st'.1 ∧ ∃ xnew, st'.2.2 = st.2.2 ++ [xnew] ∧ ∀ P, closureStep (st.1 + δ, st.2.1.map φ, P) s
      = .ok (st'.1 + δ, st'.2.1.map φ, P ++ [map4 φ xnew]) := by
  obtain ⟨a', b', hs0, ha', hb', rfl⟩ := C18.closureStep_ok h
  refine ⟨by simp only; omega, _, rfl, ?_⟩
  intro P
  have g1 := hφ st.1 hn
  have g2 := hφ (st.1 + 1) (by omega)
  have e1 : st.1 + δ + 1 = st.1 + 1 + δ := by omega
  simp only [closureStep, hs0, if_false, List.getElem?_map, ha', hb', Option.map, List.map_set, g1, g2]
  rw [e1]
  refine congrArg Res.ok (Prod.ext (by simp only; omega) (Prod.ext rfl ?_))
  simp only
  congr 1
  split <;> simp [map4, g1, g2]

theorem gsim_fold (φ : Nat → Nat) (δ c : Nat) (hφ : ∀ z, c ≤ z → φ z = z + δ) (w : List Int)
    (st st' : Nat × List Nat × PD) (hn : c ≤ st.1) (h : w.foldlM closureStep st = .ok st') :
    ∃ pd2, st'.2.2 = st.2.2 ++ pd2 ∧ ∀ P, w.foldlM closureStep (st.1 + δ, st.2.1.map φ, P)
      = .ok (st'.1 + δ, st'.2.1.map φ, P ++ pd2.map (map4 φ)) := by
  induction w generalizing st with
  | nil =>
    simp only [List.foldlM_nil, pure] at h; cases h
    exact ⟨[], by simp, fun P => by simp [List.foldlM_nil, pure]⟩
  | cons s w ih =>
    simp only [List.foldlM_cons] at h
    cases hs : closureStep st s with
    | panic => rw [hs] at h; cases h
    | err => rw [hs] at h; cases h
    | ok st1 =>
      rw [hs] at h
      obtain ⟨hn1, xnew, hx, hstep⟩ := gsim_step φ δ c hφ st st1 s hn hs
      obtain ⟨pd2, hpd, hfold⟩ := ih st1 hn1 h
      refine ⟨xnew :: pd2, by rw [hpd, hx]; simp, fun P => ?_⟩
      simp only [List.foldlM_cons, hstep P, bind, Res.bind]
      rw [hfold]
      simp

/-! ### the relation "same Jones polynomial with the reference's own signs" -/

/-- whenever both closures exist: both sign computations succeed and the coefficient lists agree literally -/
def JInv (n : Nat) (w : List Int) (n' : Nat) (w' : List Int) : Prop :=
  ∀ l l', closure n w = .ok l → closure n' w' = .ok l' →
    ∃ sg sg', KhRef.crossingSigns (toKh l) = some sg ∧ KhRef.crossingSigns (toKh l') = some sg' ∧
      jones (toKh l') sg' = jones (toKh l) sg ∧ chiChain (toKh l') sg' = chiChain (toKh l) sg

theorem JInv.refl (n : Nat) (w : List Int) : JInv n w n w := by
  intro l l' h h'
  rw [h] at h'; cases h'
  obtain ⟨sg, h1, _⟩ := C18Bridge.khref_writhe_closure n w l h
  exact ⟨sg, sg, h1, h1, rfl, rfl⟩

theorem JInv.symm {n n' : Nat} {w w' : List Int} (h : JInv n w n' w') : JInv n' w' n w := by
  intro l' l hl' hl
  obtain ⟨sg, sg', h1, h2, h3, h4⟩ := h l l' hl hl'
  exact ⟨sg', sg, h2, h1, h3.symm, h4.symm⟩

/-- transitivity through a word whose closure exists -/
theorem JInv.trans {n n' n'' : Nat} {w w' w'' : List Int} (h1 : JInv n w n' w') (h2 : JInv n' w' n'' w'')
    (hex : ∃ l', closure n' w' = .ok l') : JInv n w n'' w'' := by
  intro l l'' hl hl''
  obtain ⟨l', hl'⟩ := hex
  obtain ⟨sg, sg', a1, a2, a3, a4⟩ := h1 l l' hl hl'
  obtain ⟨sg'2, sg'', b1, b2, b3, b4⟩ := h2 l' l'' hl' hl''
  rw [a2] at b1; cases b1
  exact ⟨sg, sg'', a1, b2, b3.trans a3, b4.trans a4⟩

/-- from equality of the state sums at `x = −q`, `y = q + q⁻¹` (every commutative ring, every invertible `q`), equal
exponent sums and equal lengths -/
theorem jinv_of_stateSum (n : Nat) (w w' : List Int) (hexp : C18.expSum w' = C18.expSum w)
    (hlen : w'.length = w.length)
    (hS : ∀ l l', closure n w = .ok l → closure n w' = .ok l' →
      ∀ (q qinv : LaurentPolynomial Int), q * qinv = 1 →
        stateSum (-q) (q + qinv) (toKh l') = stateSum (-q) (q + qinv) (toKh l)) :
    JInv n w n w' := by
  intro l l' h h'
  obtain ⟨sg, h1, h2, h3⟩ := C18Bridge.khref_writhe_closure n w l h
  obtain ⟨sg', h1', h2', h3'⟩ := C18Bridge.khref_writhe_closure n w' l' h'
  rw [hexp] at h2'; rw [hlen] at h3'
  unfold C18Bridge.nPosK C18Bridge.nNegK at *
  have hj : jones (toKh l') sg' = jones (toKh l) sg := by
    open LaurentPolynomial in
    refine canon_eq_of_eval _ _ (canon_jones _ _) (canon_jones _ _) ?_
    show LP.eval _ _ _ _ = LP.eval _ _ _ _
    rw [eval_jones _ _ T_unit, eval_jones _ _ T_unit, evalJones_stateSum, evalJones_stateSum,
      hS l l' h h' _ _ T_unit]
    have e1 : (Array.filter (fun x => decide (x > 0)) sg').size = (Array.filter (fun x => decide (x > 0)) sg).size := by
      omega
    have e2 : (Array.filter (fun x => decide (x < 0)) sg').size = (Array.filter (fun x => decide (x < 0)) sg).size := by
      omega
    rw [e1, e2]
  exact ⟨sg, sg', h1, h1', hj, by rw [chiChain_eq_jones_literal, chiChain_eq_jones_literal, hj]⟩

end Yuiv.C04Inv
