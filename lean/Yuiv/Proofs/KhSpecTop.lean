import Yuiv.Proofs.KhSpecMain
/-
KhSpec — the END-TO-END statement for the unbigraded computation (helper; property theorems in `Props/KhSpec.lean`).
`diagAt c p i` = the diagonal read off the Smith invariants of the differential `weight i → weight i+1`.
-/
namespace Yuiv.KhSpec
open Yuiv Yuiv.KhRef Matrix Yuiv.KhSnf Yuiv.C03Uct Yuiv.C03
open Yuiv.C02Mirror (cubeOK Pair dCoef coefT)

/-- the diagonal of the differential out of weight `i` of the family `G` as computed by the reference (`[]` for `i ≥ n`) -/
def diagAt (c : Cube) (p : Params) (G : Array (Array Gen)) (i : Nat) : List ℤ :=
  diagOf (invAt G (dTab c p (gensByWeight c)) i)

/-- the diagonal of the differential into weight `i` -/
def diagIn (c : Cube) (p : Params) (G : Array (Array Gen)) (i : Nat) : List ℤ :=
  if i = 0 then [] else diagAt c p G (i - 1)

section
variable {c : Cube} {p : Params} {G : Array (Array Gen)}

theorem diagAt_nil (F : Fam c p G) (i : Nat) (hi : c.n ≤ i) : diagAt c p G i = [] := by
  unfold diagAt invAt
  rw [F.size, if_neg (by omega)]
  rfl

/-- the computed diagonal is a diagonal form of the matrix of `Cube.d` -/
theorem diagAt_equivDiag (H : Ctx c p) (F : Fam c p G) (hR : RowsOK G (dTab c p (gensByWeight c))) (i : Nat)
    (hi : i < c.n) : EquivDiag (dMat c p G i) (diagAt c p G i) := by
  apply equivDiag_dMat H F
  have hlt : i + 1 < G.size := by rw [F.size]; omega
  unfold diagAt invAt
  rw [if_pos hlt]
  exact equivDiag_smith _ _ (hR i hlt)

theorem inPrev_eq (i : Nat) :
    (if i == 0 then ((0, #[]) : Nat × Array Int) else invAt G (dTab c p (gensByWeight c)) (i - 1)) =
      (if i = 0 then (0, #[]) else invAt G (dTab c p (gensByWeight c)) (i - 1)) := by
  by_cases h : i = 0 <;> simp [h]

theorem diagIn_eq (i : Nat) :
    diagIn c p G i = diagOf (if i = 0 then (0, #[]) else invAt G (dTab c p (gensByWeight c)) (i - 1)) := by
  unfold diagIn diagAt
  by_cases h : i = 0
  · simp [h, diagOf]
  · simp [h]

/-- WHAT `homologyOf` REPORTS on the table of the cube, position by position -/
theorem groups_spec (F : Fam c p G) (hR : RowsOK G (dTab c p (gensByWeight c))) (i : Nat) (hi : i ≤ c.n) :
    ((homologyOf .Z G (dTab c p (gensByWeight c)))[i]!).rank =
        (cellOf (G[i]!).size (diagIn c p G i) (diagAt c p G i)).rank ∧
    ((homologyOf .Z G (dTab c p (gensByWeight c)))[i]!).tors.toList =
        (cellOf (G[i]!).size (diagIn c p G i) (diagAt c p G i)).tors ∧
    ((homologyOf .Q G (dTab c p (gensByWeight c)))[i]!).rank =
        (G[i]!).size - nz (diagIn c p G i) - nz (diagAt c p G i) ∧
    ((homologyOf .Q G (dTab c p (gensByWeight c)))[i]!).tors = #[] ∧
    ∀ q, 2 ≤ q →
      ((homologyOf (.Fp q) G (dTab c p (gensByWeight c)))[i]!).rank =
        (G[i]!).size - ndiv (q : ℤ) (diagIn c p G i) - ndiv (q : ℤ) (diagAt c p G i) ∧
      ((homologyOf (.Fp q) G (dTab c p (gensByWeight c)))[i]!).tors = #[] := by
  have hlt : i < G.size := by rw [F.size]; omega
  have hout := invAt_ok G (dTab c p (gensByWeight c)) hR i
  have hin : InvOK (if i = 0 then ((0, #[]) : Nat × Array Int) else
      invAt G (dTab c p (gensByWeight c)) (i - 1)) := by
    split
    · exact invOK_zero
    · exact invAt_ok _ _ hR _
  rw [diagIn_eq]
  unfold diagAt
  refine ⟨?_, ?_, ?_, ?_, ?_⟩
  · rw [homologyOf_getElem .Z _ _ i hlt]
    show _ - rankOver .Z _ - rankOver .Z _ = _
    rw [inPrev_eq]
    unfold cellOf
    simp only [rankOver]
    rw [nz_diagOf hin, nz_diagOf hout]
    omega
  · rw [homologyOf_getElem .Z _ _ i hlt]
    show (if i == 0 then ((0, #[]) : Nat × Array Int) else _).2.toList = _
    rw [inPrev_eq]
    unfold cellOf
    simp only
    rw [torsOf_diagOf hin]
  · rw [homologyOf_getElem .Q _ _ i hlt]
    show _ - rankOver .Q _ - rankOver .Q _ = _
    rw [inPrev_eq]
    simp only [rankOver]
    rw [nz_diagOf hin, nz_diagOf hout]
    omega
  · rw [homologyOf_getElem .Q _ _ i hlt]; rfl
  · intro q hq
    rw [homologyOf_getElem (.Fp q) _ _ i hlt]
    refine ⟨?_, rfl⟩
    show _ - rankOver (.Fp q) _ - rankOver (.Fp q) _ = _
    rw [inPrev_eq, ndiv_diagOf hin q hq, ndiv_diagOf hout q hq]
    omega

end

end Yuiv.KhSpec
