import Yuiv.Proofs.KhSpecRowsOK
import Yuiv.Proofs.KhSpecSort
import Yuiv.Proofs.KhSpecRed
import Yuiv.Proofs.KhSpecRedQ
import Yuiv.Proofs.KhSpecHom
import Yuiv.Proofs.C18BridgeCube
import Yuiv.Proofs.C04InvCanon
/-
C04Euler (helper; property theorems in `Props/C04Euler.lean`) — the Euler–Poincaré principle for the reference
computation `KhRef.khHomology`.

  1. `altSum`, `euler_telescope`          : Σ_{i ≤ N} (−1)^i (n_i − r_{i−1} − r_i) = Σ_{i ≤ N} (−1)^i n_i  (r_{−1} = r_N = 0);
  2. `euler_poincare_matrices/_homology`  : the same for matrices `D_i` over a field with `D_i · D_{i+1} = 0`;
  3. `euler_fam`                          : for every family `G` of generators closed under `Cube.d`, the ranks `homologyOf`
                                            reports (ℤ, ℚ, 𝔽_q) have the alternating sum of the sizes `|G_i|`;
  4. `size_gbw`, `size_gensQ`             : `|G_i|` = chain rank `chainRankH` / `chainRank` of `Proofs/C18BridgeCube`;
  5. `cellRank`, `chiHom` and their values on the cell lists `khHomology` returns;
  6. `coeffAt_chiChain`                   : the coefficients of `C04.chiChain` are the alternating sums of the chain ranks.
-/
namespace Yuiv.C04Euler
open Yuiv Yuiv.KhRef Matrix Yuiv.KhSnf Yuiv.C03Uct Yuiv.C03 Yuiv.KhSpec Module

/-! ### 1. telescoping -/

/-- `Σ_{i ≤ N} (−1)^i f i` -/
def altSum (N : Nat) (f : Nat → Int) : Int := ∑ i ∈ Finset.range (N + 1), (-1) ^ i * f i

theorem altSum_succ (N : Nat) (f : Nat → Int) : altSum (N + 1) f = altSum N f + (-1) ^ (N + 1) * f (N + 1) := by
  unfold altSum
  rw [Finset.sum_range_succ]

theorem altSum_zero (f : Nat → Int) : altSum 0 f = f 0 := by
  unfold altSum
  simp

theorem altSum_congr (N : Nat) (f g : Nat → Int) (h : ∀ i, i ≤ N → f i = g i) : altSum N f = altSum N g := by
  unfold altSum
  apply Finset.sum_congr rfl
  intro i hi
  rw [h i (by have := Finset.mem_range.mp hi; omega)]

theorem altSum_sub (N : Nat) (f g : Nat → Int) : altSum N (fun i => f i - g i) = altSum N f - altSum N g := by
  unfold altSum
  rw [← Finset.sum_sub_distrib]
  apply Finset.sum_congr rfl
  intro i _
  ring

theorem altSum_mul_left (N : Nat) (a : Int) (f : Nat → Int) : altSum N (fun i => a * f i) = a * altSum N f := by
  unfold altSum
  rw [Finset.mul_sum]
  apply Finset.sum_congr rfl
  intro i _
  ring

/-- the rank of the incoming differential: `r (i − 1)`, and `0` at position `0` -/
def rIn (r : Nat → Nat) (i : Nat) : Nat := if i = 0 then 0 else r (i - 1)

/-- the ranks telescope -/
theorem altSum_ranks (r : Nat → Nat) (N : Nat) :
    altSum N (fun i => (rIn r i : Int) + (r i : Int)) = (-1) ^ N * (r N : Int) := by
  induction N with
  | zero => rw [altSum_zero]; simp [rIn]
  | succ N ih =>
    rw [altSum_succ, ih]
    simp only [rIn, Nat.add_sub_cancel, if_neg (Nat.succ_ne_zero N)]
    ring

/-- EULER–POINCARÉ, arithmetic form: if the last outgoing rank vanishes and `r_{i−1} + r_i ≤ n_i` (so that the truncated
subtractions are exact), the alternating sum of `n_i − r_{i−1} − r_i` is the alternating sum of the `n_i` -/
theorem euler_telescope (N : Nat) (n r : Nat → Nat) (hr : r N = 0) (hle : ∀ i, i ≤ N → rIn r i + r i ≤ n i) :
    altSum N (fun i => ((n i - rIn r i - r i : Nat) : Int)) = altSum N (fun i => (n i : Int)) := by
  have h1 : altSum N (fun i => ((n i - rIn r i - r i : Nat) : Int)) =
      altSum N (fun i => (n i : Int) - ((rIn r i : Int) + (r i : Int))) := by
    apply altSum_congr
    intro i hi
    have := hle i hi
    omega
  rw [h1, altSum_sub, altSum_ranks, hr]
  simp

/-! ### 2. matrices over a field -/

section field
variable {K : Type*} [Field K]

/-- EULER–POINCARÉ for a finite complex of matrices `K^{n 0} → K^{n 1} → … → K^{n N} → 0` (`D i` : rows = sources, as
`KhSpec.dMat`), `D i * D (i + 1) = 0`: the alternating sum of `n_i − rank D_{i−1} − rank D_i` is that of the `n_i` -/
theorem euler_poincare_matrices (N : Nat) (n : Nat → Nat) (D : ∀ i, Matrix (Fin (n i)) (Fin (n (i + 1))) K)
    (hDD : ∀ i, D i * D (i + 1) = 0) (hN : n (N + 1) = 0) :
    altSum N (fun i => ((n i - rIn (fun i => (D i).rank) i - (D i).rank : Nat) : Int)) =
      altSum N (fun i => (n i : Int)) := by
  apply euler_telescope N n (fun i => (D i).rank)
  · have := (D N).rank_le_card_width
    rw [Fintype.card_fin] at this
    show (D N).rank = 0
    omega
  · intro i _
    cases i with
    | zero =>
      have := (D 0).rank_le_card_height
      rw [Fintype.card_fin] at this
      simpa [rIn] using this
    | succ k =>
      have := rank_add_rank_le_card_of_mul_eq_zero (hDD k)
      rw [Fintype.card_fin] at this
      simpa [rIn] using this

/-- the dimensions of the homology spaces of the complex, in the convention of `KhSpec.khHomology_ranks_are_homology`:
position `0` is `ker (D 0)ᵀ`, position `j + 1` is `ker (D (j+1))ᵀ / im (D j)ᵀ` (matrices acting on column vectors) -/
noncomputable def hdim (n : Nat → Nat) (D : ∀ i, Matrix (Fin (n i)) (Fin (n (i + 1))) K) : Nat → Nat
  | 0 => finrank K (Homology (0 : Matrix (Fin (n 0)) (Fin 0) K) (D 0)ᵀ)
  | j + 1 => finrank K (Homology (D j)ᵀ (D (j + 1))ᵀ)

theorem hdim_eq (n : Nat → Nat) (D : ∀ i, Matrix (Fin (n i)) (Fin (n (i + 1))) K) (hDD : ∀ i, D i * D (i + 1) = 0)
    (i : Nat) : hdim n D i = n i - rIn (fun i => (D i).rank) i - (D i).rank := by
  cases i with
  | zero =>
    show finrank K (Homology (0 : Matrix (Fin (n 0)) (Fin 0) K) (D 0)ᵀ) = _
    rw [finrank_homology _ _ (by simp), Matrix.rank_transpose, Matrix.rank_zero]
    simp [rIn]
  | succ j =>
    show finrank K (Homology (D j)ᵀ (D (j + 1))ᵀ) = _
    rw [finrank_homology _ _ (by rw [← Matrix.transpose_mul, hDD j, Matrix.transpose_zero]), Matrix.rank_transpose,
      Matrix.rank_transpose]
    simp [rIn]

/-- EULER–POINCARÉ: the alternating sum of the dimensions of the homology spaces is the alternating sum of the dimensions
of the chain spaces -/
theorem euler_poincare_homology (N : Nat) (n : Nat → Nat) (D : ∀ i, Matrix (Fin (n i)) (Fin (n (i + 1))) K)
    (hDD : ∀ i, D i * D (i + 1) = 0) (hN : n (N + 1) = 0) :
    altSum N (fun i => (hdim n D i : Int)) = altSum N (fun i => (n i : Int)) := by
  rw [← euler_poincare_matrices N n D hDD hN]
  apply altSum_congr
  intro i _
  rw [hdim_eq n D hDD i]

end field

/-! ### 3. the ranks `homologyOf` reports for a family of generators closed under `d` -/

/-- coefficient modes the specification covers: ℤ, ℚ, and `𝔽_q` with `2 ≤ q` -/
def CoeffOK : Coeff → Prop
  | .Fp q => 2 ≤ q
  | _ => True

/-- the rank the reference reads off a diagonal, by coefficient mode -/
def rankFn : Coeff → List ℤ → Nat
  | .Fp q => ndiv (q : ℤ)
  | _ => nz

theorem nz_le_length (d : List ℤ) : nz d ≤ d.length := List.length_filter_le _ _

theorem rankFn_le_nz (k : Coeff) (d : List ℤ) : rankFn k d ≤ nz d := by
  cases k with
  | Fp q => have := nz_eq_ndiv_add_tdiv (q : ℤ) d; show ndiv _ _ ≤ _; omega
  | Z => exact Nat.le_refl _
  | Q => exact Nat.le_refl _

theorem rankFn_nil (k : Coeff) : rankFn k [] = 0 := by
  cases k <;> rfl

section fam
variable {c : Cube} {p : Params} {G : Array (Array Gen)}

theorem rank_spec (F : Fam c p G) (hR : RowsOK G (dTab c p (gensByWeight c))) (k : Coeff) (hk : CoeffOK k) (i : Nat)
    (hi : i ≤ c.n) :
    ((homologyOf k G (dTab c p (gensByWeight c)))[i]!).rank =
      (G[i]!).size - rIn (fun i => rankFn k (diagAt c p G i)) i - rankFn k (diagAt c p G i) := by
  obtain ⟨g1, _, g3, _, g5⟩ := groups_spec F hR i hi
  have hin : ∀ f : List ℤ → Nat, f [] = 0 → f (diagIn c p G i) = rIn (fun i => f (diagAt c p G i)) i := by
    intro f hf
    unfold diagIn rIn
    split
    · exact hf
    · rfl
  cases k with
  | Z => rw [g1]; show _ - nz _ - nz _ = _; rw [hin nz rfl]; rfl
  | Q => rw [g3, hin nz rfl]; rfl
  | Fp q => rw [(g5 q hk).1, hin (ndiv (q : ℤ)) rfl]; rfl

theorem nz_pair_le (H : Ctx c p) (F : Fam c p G) (hR : RowsOK G (dTab c p (gensByWeight c))) (k : Nat) :
    nz (diagAt c p G k) + nz (diagAt c p G (k + 1)) ≤ (G[k + 1]!).size :=
  nz_add_nz_le _ _ (dMat_mul_T H F k) _ _ (diagAt_equivDiag_T H F hR k) (diagAt_equivDiag_T H F hR (k + 1))

theorem nz_zero_le (H : Ctx c p) (F : Fam c p G) (hR : RowsOK G (dTab c p (gensByWeight c))) :
    nz (diagAt c p G 0) ≤ (G[0]!).size := by
  have h1 := (diagAt_equivDiag_T H F hR 0).1
  have h2 := nz_le_length (diagAt c p G 0)
  omega

/-- EULER–POINCARÉ for the reference's table: the alternating sum of the reported ranks (ℤ: free rank; ℚ, `𝔽_q`: dimension)
is the alternating sum of the numbers of generators -/
theorem euler_fam (H : Ctx c p) (F : Fam c p G) (hR : RowsOK G (dTab c p (gensByWeight c))) (k : Coeff) (hk : CoeffOK k) :
    altSum c.n (fun i => (((homologyOf k G (dTab c p (gensByWeight c)))[i]!).rank : Int)) =
      altSum c.n (fun i => ((G[i]!).size : Int)) := by
  rw [← euler_telescope c.n (fun i => (G[i]!).size) (fun i => rankFn k (diagAt c p G i))]
  · apply altSum_congr
    intro i hi
    rw [rank_spec F hR k hk i hi]
  · show rankFn k (diagAt c p G c.n) = 0
    rw [diagAt_nil F c.n (Nat.le_refl _), rankFn_nil]
  · intro i _
    cases i with
    | zero =>
      have h1 := nz_zero_le H F hR
      have h2 := rankFn_le_nz k (diagAt c p G 0)
      simp only [rIn, if_true]
      omega
    | succ j =>
      have h1 := nz_pair_le H F hR j
      have h2 := rankFn_le_nz k (diagAt c p G j)
      have h3 := rankFn_le_nz k (diagAt c p G (j + 1))
      simp only [rIn, Nat.add_sub_cancel, if_neg (Nat.succ_ne_zero j)]
      omega

end fam

/-! ### 4. sizes of the generator lists = chain ranks -/

open Yuiv.C18Bridge (chainRank chainRankH)

theorem gbwPre_zero_getElem (c : Cube) (w : Nat) : (gbwPre c 0)[w]! = #[] := by
  show ((Array.replicate (c.n + 1) (#[] : Array Gen))[w]!) = #[]
  by_cases hw : w < c.n + 1
  · rw [getElem!_pos _ w (by simpa using hw)]
    simp
  · rw [getElem!_neg _ w (by simpa using hw)]
    rfl

/-- the number of generators with property `P` listed at weight `w` after the states `0 … m − 1` -/
theorem size_filter_gbwPre (c : Cube) (P : Gen → Bool) (w : Nat) (m : Nat) :
    (((gbwPre c m)[w]!).filter P).size =
      ∑ s ∈ Finset.range m, if popcount s c.n = w then ((c.gensAt s).filter P).size else 0 := by
  induction m with
  | zero => rw [gbwPre_zero_getElem]; simp
  | succ m ih =>
    have hp : popcount m c.n < (gbwPre c m).size := by
      have := popcount_le m c.n
      rw [(gbwInv c m).size]
      omega
    rw [gbwPre_succ, Finset.sum_range_succ, ← ih]
    unfold gbwStep
    rw [getElem!_set! _ _ _ _ hp]
    by_cases hw : popcount m c.n = w
    · rw [if_pos hw, if_pos hw, Array.filter_append Array.size_append, Array.size_append, hw]
    · rw [if_neg hw, if_neg hw, Nat.add_zero]

theorem size_filter_const {α : Type} (a : Array α) (b : Bool) :
    (a.filter (fun _ => b)).size = if b = true then a.size else 0 := by
  cases b <;> simp

theorem size_filter_and_const {α : Type} (a : Array α) (b : Bool) (P : α → Bool) :
    (a.filter (fun g => b && P g)).size = if b = true then (a.filter P).size else 0 := by
  cases b <;> simp

/-- the number of generators of weight `w` is the rank of the chain group in homological degree `−n₋ + w` -/
theorem size_gbw (l : Link) (p : Params) (nNeg : Nat) (w : Nat) :
    ((gensByWeight (mkCube l p))[w]!).size = chainRankH l p nNeg (-(nNeg : Int) + (w : Int)) := by
  have h := size_filter_gbwPre (mkCube l p) (fun _ => true) w (2 ^ (mkCube l p).n)
  rw [← gensByWeight_eq] at h
  have e : ∀ a : Array Gen, (a.filter (fun _ => true)).size = a.size := fun a => by simp
  simp only [e] at h
  rw [h]
  unfold chainRankH
  apply Finset.sum_congr rfl
  intro s _
  rw [size_filter_const]
  simp

/-- the number of generators of weight `w` and quantum degree `j` is the rank of the chain group in bidegree
`(−n₋ + w, j)` -/
theorem size_gensQ (l : Link) (p : Params) (nPos nNeg : Nat) (w : Nat) (j : Int) :
    ((gensQ (mkCube l p) ((nPos : Int) - 2 * nNeg + (if p.reduced then 1 else 0)) (gensByWeight (mkCube l p)) j)[w]!).size =
      chainRank l p nPos nNeg (-(nNeg : Int) + (w : Int)) j := by
  rw [gensQ_getElem]
  have h := size_filter_gbwPre (mkCube l p)
    (fun g => decide ((mkCube l p).qDeg ((nPos : Int) - 2 * nNeg + (if p.reduced then 1 else 0)) g = j)) w
    (2 ^ (mkCube l p).n)
  rw [← gensByWeight_eq] at h
  have e : (fun g => (mkCube l p).qDeg ((nPos : Int) - 2 * nNeg + (if p.reduced then 1 else 0)) g == j) =
      (fun g => decide ((mkCube l p).qDeg ((nPos : Int) - 2 * nNeg + (if p.reduced then 1 else 0)) g = j)) := rfl
  rw [e, h]
  unfold chainRank
  apply Finset.sum_congr rfl
  intro s _
  rw [size_filter_and_const]
  simp

/-- the chain rank in bidegree `(−n₋ + w, j)` as a sum over the states of weight `w` -/
theorem chainRank_slice (l : Link) (p : Params) (nPos nNeg : Nat) (w : Nat) (j : Int) :
    chainRank l p nPos nNeg (-(nNeg : Int) + (w : Int)) j =
      ∑ s ∈ Finset.range (2 ^ (mkCube l p).n), if popcount s (mkCube l p).n = w then
        (((mkCube l p).gensAt s).filter (fun g =>
          decide ((mkCube l p).qDeg ((nPos : Int) - 2 * nNeg + (if p.reduced then 1 else 0)) g = j))).size else 0 := by
  unfold chainRank
  apply Finset.sum_congr rfl
  intro s _
  rw [size_filter_and_const]
  simp

/-! ### 5. reading dimensions off a cell list -/

/-- the dimension in bidegree `(i, j)` read off a cell list (`j = none`: the unbigraded computation): the sum of the
reported ranks of the cells in that bidegree — `0` if there is no such cell -/
def cellRank (cells : List (Int × Option Int × Group)) (i : Int) (j : Option Int) : Nat :=
  (cells.map (fun a => if a.1 = i ∧ a.2.1 = j then a.2.2.rank else 0)).sum

/-- `(−1)^x` for an integer `x`, as `C04.chiChain` computes it -/
def sgn (x : Int) : Int := if x % 2 == 0 then 1 else -1

/-- the graded Euler characteristic `Σ (−1)^i q^j rank H^{i,j}` of a bigraded cell list, as a coefficient list -/
def chiHom (cells : List (Int × Option Int × Group)) : C04.LP :=
  cells.foldl (fun acc a => match a.2.1 with
    | some j => C04.LP.addTerm j (sgn a.1 * (a.2.2.rank : Int)) acc
    | none => acc) []

theorem sgn_succ (x : Int) : sgn (x + 1) = -sgn x := by
  unfold sgn
  have h : x % 2 = 0 ∨ x % 2 = 1 := by omega
  rcases h with h | h
  · have h' : (x + 1) % 2 = 1 := by omega
    simp [h, h']
  · have h' : (x + 1) % 2 = 0 := by omega
    simp [h, h']

theorem sgn_add_nat (x : Int) (i : Nat) : sgn (x + (i : Int)) = sgn x * (-1) ^ i := by
  induction i with
  | zero => simp
  | succ i ih =>
    have e : x + ((i + 1 : Nat) : Int) = (x + (i : Int)) + 1 := by push_cast; ring
    rw [e, sgn_succ, ih, pow_succ]
    ring

theorem sgn_mul_self (x : Int) : sgn x * sgn x = 1 := by
  unfold sgn
  split <;> rfl

section sums
variable {M : Type} [AddCommMonoid M]

theorem sum_map_filterMap {α β : Type} (f : α → Option β) (g : β → M) (L : List α) :
    ((L.filterMap f).map g).sum = (L.map (fun x => match f x with | some b => g b | none => 0)).sum := by
  induction L with
  | nil => rfl
  | cons x L ih =>
    rw [List.filterMap_cons, List.map_cons, List.sum_cons]
    cases h : f x with
    | none => simp only [ih, zero_add]
    | some b => simp only [List.map_cons, List.sum_cons, ih]

theorem sum_map_range (n : Nat) (f : Nat → M) : ((List.range n).map f).sum = ∑ i ∈ Finset.range n, f i := by
  induction n with
  | zero => rfl
  | succ n ih => rw [List.range_succ, List.map_append, List.sum_append, ih, Finset.sum_range_succ]; simp

theorem sum_map_flatMap {α β : Type} (F : α → List β) (g : β → M) (qs : List α) :
    ((qs.flatMap F).map g).sum = (qs.map (fun q => ((F q).map g).sum)).sum := by
  induction qs with
  | nil => rfl
  | cons q qs ih => rw [List.flatMap_cons, List.map_append, List.sum_append, ih]; rfl

theorem sum_map_single {α : Type} [DecidableEq α] (qs : List α) (hnd : qs.Nodup) (k : α) (f : α → M) :
    (qs.map (fun q => if q = k then f q else 0)).sum = if k ∈ qs then f k else 0 := by
  induction qs with
  | nil => rfl
  | cons q qs ih =>
    rw [List.nodup_cons] at hnd
    rw [List.map_cons, List.sum_cons, ih hnd.2]
    by_cases h : q = k
    · subst h
      simp [hnd.1]
    · have h' : ¬ k = q := fun e => h e.symm
      simp [h, h']

/-- summing over the cells of one table = summing over its positions, for summands vanishing on rank `0` -/
theorem sum_cellsUn (φ : Int × Option Int × Group → M) (hφ : ∀ x j g, g.rank = 0 → φ (x, j, g) = 0)
    (h0 : Int) (j : Option Int) (hs : Array Group) :
    ((cellsUn h0 j hs).map φ).sum = ∑ i ∈ Finset.range hs.size, φ (h0 + (i : Int), j, hs[i]!) := by
  unfold cellsUn
  rw [sum_map_filterMap, sum_map_range]
  apply Finset.sum_congr rfl
  intro i _
  split
  · rename_i b hb
    split at hb
    · injection hb with hb; rw [← hb]
    · exact absurd hb (by simp)
  · rename_i hb
    split at hb
    · exact absurd hb (by simp)
    · rename_i hc
      rw [hφ]
      simp only [Bool.or_eq_true, bne_iff_ne, ne_eq, not_or, not_not] at hc
      exact hc.1

end sums

/-- every cell of `cellsUn h0 j hs` sits at a position of the table -/
theorem mem_cellsUn (h0 : Int) (j : Option Int) (hs : Array Group) (a : Int × Option Int × Group)
    (ha : a ∈ cellsUn h0 j hs) : a.2.1 = j ∧ ∃ i : Nat, i < hs.size ∧ a.1 = h0 + (i : Int) ∧ a.2.2 = hs[i]! := by
  unfold cellsUn at ha
  rw [List.mem_filterMap] at ha
  obtain ⟨i, hi, h⟩ := ha
  split at h
  · simp only [Option.some.injEq] at h
    subst h
    exact ⟨rfl, i, by simpa using hi, rfl, rfl⟩
  · simp at h

/-- UNBIGRADED: the dimension read off `cellsUn h0 none hs` at `h0 + i` is the rank at position `i` -/
theorem cellRank_cellsUn (h0 : Int) (j : Option Int) (hs : Array Group) (i : Nat) (hi : i < hs.size) :
    cellRank (cellsUn h0 j hs) (h0 + (i : Int)) j = (hs[i]!).rank := by
  unfold cellRank
  rw [sum_cellsUn _ (by intro x j g h; simp [h])]
  simp only [add_right_inj, Nat.cast_inj, and_true]
  rw [Finset.sum_ite_eq' (Finset.range hs.size) i (fun k => (hs[k]!).rank), if_pos (Finset.mem_range.mpr hi)]

/-- BIGRADED: the dimension read off the cell list `qs.flatMap (fun q => cellsUn h0 (some q) (T q))` in bidegree
`(h0 + i, j)` is the rank at position `i` of the table of the slice `j` -/
theorem cellRank_bigraded (qs : List Int) (hnd : qs.Nodup) (h0 : Int) (T : Int → Array Group) (N : Nat)
    (hT : ∀ q, (T q).size = N + 1) (hz : ∀ q, q ∉ qs → ∀ i : Nat, ((T q)[i]!).rank = 0) (i : Nat) (hi : i ≤ N) (j : Int) :
    cellRank (qs.flatMap (fun q => cellsUn h0 (some q) (T q))) (h0 + (i : Int)) (some j) = ((T j)[i]!).rank := by
  unfold cellRank
  rw [sum_map_flatMap]
  have e : ∀ q, ((cellsUn h0 (some q) (T q)).map
      (fun a => if a.1 = h0 + (i : Int) ∧ a.2.1 = some j then a.2.2.rank else 0)).sum =
      if q = j then ((T q)[i]!).rank else 0 := by
    intro q
    rw [sum_cellsUn _ (by intro x j g h; simp [h])]
    by_cases hq : q = j
    · simp only [hq, add_right_inj, Nat.cast_inj, and_true, if_true]
      rw [Finset.sum_ite_eq' (Finset.range (T j).size) i (fun k => ((T j)[k]!).rank),
        if_pos (Finset.mem_range.mpr (by rw [hT]; omega))]
    · simp [hq]
  simp only [e]
  rw [sum_map_single qs hnd j (fun q : Int => ((T q)[i]!).rank)]
  split
  · rfl
  · rename_i h
    exact (hz j h i).symm

/-! ### 6. coefficients -/

open Yuiv.C04 Yuiv.C04Inv LaurentPolynomial in
theorem coeffAt_addTerm (e c : Int) (a : LP) (k : Int) :
    coeffAt (LP.addTerm e c a) k = coeffAt a k + (if e = k then c else 0) := by
  rw [← ev_coeff, ev_addTerm, AddMonoidAlgebra.coeff_add, Finsupp.add_apply, ev_coeff, zpow_T]
  have : ((c : ℤ) : ℤ[T;T⁻¹]) = C c := by simp
  rw [this, ← single_eq_C_mul_T, AddMonoidAlgebra.coeff_single, Finsupp.single_apply]

open Yuiv.C04 Yuiv.C04Inv in
theorem coeffAt_foldl {α : Type} (G : LP → α → LP) (δ : α → Int) (k : Int)
    (hG : ∀ acc x, coeffAt (G acc x) k = coeffAt acc k + δ x) (xs : List α) (acc : LP) :
    coeffAt (xs.foldl G acc) k = coeffAt acc k + (xs.map δ).sum := by
  induction xs generalizing acc with
  | nil => simp
  | cons x xs ih => rw [List.foldl_cons, ih, hG, List.map_cons, List.sum_cons]; ring

theorem sum_map_ite_const {α : Type} (P : α → Bool) (a : Int) (L : List α) :
    (L.map (fun g => if P g = true then a else 0)).sum = a * ((L.filter P).length : Int) := by
  induction L with
  | nil => simp
  | cons x L ih =>
    rw [List.map_cons, List.sum_cons, ih, List.filter_cons]
    cases P x <;> first | (simp; done) | (simp; ring)

open Yuiv.C04 Yuiv.C04Inv in
/-- the coefficient of `q^k` in `chiChain` : the signed count of the generators of quantum degree `k` -/
theorem coeffAt_chiChain (l : Link) (signs : Array Int) (k : Int) :
    coeffAt (chiChain l signs) k =
      ∑ s ∈ Finset.range (2 ^ (mkCube l ⟨0, 0, false⟩).n),
        sgn (h0Of signs + (popcount s (mkCube l ⟨0, 0, false⟩).n : Int)) *
          ((((mkCube l ⟨0, 0, false⟩).gensAt s).filter (fun g =>
            decide ((mkCube l ⟨0, 0, false⟩).qDeg (q0Of signs ⟨0, 0, false⟩) g = k))).size : Int) := by
  unfold chiChain
  dsimp only
  rw [coeffAt_foldl _ (fun s => sgn (h0Of signs + (popcount s (mkCube l ⟨0, 0, false⟩).n : Int)) *
          ((((mkCube l ⟨0, 0, false⟩).gensAt s).filter (fun g =>
            decide ((mkCube l ⟨0, 0, false⟩).qDeg (q0Of signs ⟨0, 0, false⟩) g = k))).size : Int)) k, sum_map_range]
  · show (0 : Int) + _ = _
    rw [zero_add]
  · intro acc s
    rw [← Array.foldl_toList, coeffAt_foldl _ (fun g => if decide ((mkCube l ⟨0, 0, false⟩).qDeg (q0Of signs ⟨0, 0, false⟩) g = k) = true
        then sgn (h0Of signs + (popcount s (mkCube l ⟨0, 0, false⟩).n : Int)) else 0) k]
    · rw [sum_map_ite_const, ← Array.toList_filter, Array.length_toList]
    · intro acc g
      rw [coeffAt_addTerm]
      simp only [decide_eq_true_eq]
      have e : q0Of signs ⟨0, 0, false⟩ = ((signs.filter (· > 0)).size : Int) - 2 * ((signs.filter (· < 0)).size : Int) := by
        unfold q0Of nPosOf nNegOf; simp
      rw [e]
      rfl

/-- exchanging the sums: the signed count over all states = the alternating sum over the weights of the chain ranks -/
theorem sum_weights (n : Nat) (N : Nat) (h0 : Int) (pc : Nat → Nat) (hpc : ∀ s, pc s ≤ n) (cnt : Nat → Nat) :
    ∑ i ∈ Finset.range (n + 1), sgn (h0 + (i : Int)) *
        ((∑ s ∈ Finset.range N, if pc s = i then cnt s else 0 : Nat) : Int) =
      ∑ s ∈ Finset.range N, sgn (h0 + (pc s : Int)) * (cnt s : Int) := by
  simp only [Nat.cast_sum, Finset.mul_sum]
  rw [Finset.sum_comm]
  apply Finset.sum_congr rfl
  intro s _
  rw [Finset.sum_eq_single (pc s)]
  · simp
  · intro i _ hi
    simp [Ne.symm hi]
  · intro h
    exact absurd (Finset.mem_range.mpr (by have := hpc s; omega)) h

open Yuiv.C04 Yuiv.C04Inv in
theorem canon_chiHom (cells : List (Int × Option Int × Group)) : Canon (chiHom cells) := by
  unfold chiHom
  refine canon_foldl _ ?_ _ [] trivial
  intro acc a h
  split
  · exact canon_addTerm _ _ _ h
  · exact h

open Yuiv.C04 Yuiv.C04Inv in
/-- the coefficient of `q^k` in the graded Euler characteristic of the bigraded cell list -/
theorem coeffAt_chiHom_bigraded (qs : List Int) (hnd : qs.Nodup) (h0 : Int) (T : Int → Array Group) (N : Nat)
    (hT : ∀ q, (T q).size = N + 1) (hz : ∀ q, q ∉ qs → ∀ i : Nat, ((T q)[i]!).rank = 0) (k : Int) :
    coeffAt (chiHom (qs.flatMap (fun q => cellsUn h0 (some q) (T q)))) k =
      ∑ i ∈ Finset.range (N + 1), sgn (h0 + (i : Int)) * (((T k)[i]!).rank : Int) := by
  unfold chiHom
  rw [coeffAt_foldl _ (fun a => match a.2.1 with
    | some j => if j = k then sgn a.1 * (a.2.2.rank : Int) else 0
    | none => 0) k]
  · show (0 : Int) + _ = _
    rw [zero_add, sum_map_flatMap]
    have e : ∀ q, ((cellsUn h0 (some q) (T q)).map (fun a => match a.2.1 with
        | some j => if j = k then sgn a.1 * (a.2.2.rank : Int) else 0
        | none => 0)).sum =
        if q = k then ∑ i ∈ Finset.range (N + 1), sgn (h0 + (i : Int)) * (((T q)[i]!).rank : Int) else 0 := by
      intro q
      rw [sum_cellsUn _ (by intro x j g h; cases j <;> simp [h]), hT]
      by_cases hq : q = k
      · simp [hq]
      · simp [hq]
    simp only [e]
    rw [sum_map_single qs hnd k (fun q : Int => ∑ i ∈ Finset.range (N + 1), sgn (h0 + (i : Int)) * (((T q)[i]!).rank : Int))]
    split
    · rfl
    · rename_i h
      symm
      apply Finset.sum_eq_zero
      intro i _
      rw [hz k h i]
      simp
  · intro acc a
    split
    · rw [coeffAt_addTerm]
    · simp

theorem sum_sgn (N : Nat) (h0 : Int) (f : Nat → Int) :
    ∑ i ∈ Finset.range (N + 1), sgn (h0 + (i : Int)) * f i = sgn h0 * altSum N f := by
  unfold altSum
  rw [Finset.mul_sum]
  apply Finset.sum_congr rfl
  intro i _
  rw [sgn_add_nat]
  ring

open Yuiv.C04 Yuiv.C04Inv in
/-- the coefficient of `q^k` in `chiChain` is the alternating sum over `i` of the chain ranks in bidegree `(−n₋ + i, k)` -/
theorem coeffAt_chiChain_chainRank (l : Link) (signs : Array Int) (k : Int) :
    coeffAt (chiChain l signs) k =
      sgn (h0Of signs) * altSum (crossingNum l) (fun i =>
        (chainRank l ⟨0, 0, false⟩ (nPosOf signs) (nNegOf signs) (h0Of signs + (i : Int)) k : Int)) := by
  rw [coeffAt_chiChain, ← sum_sgn]
  unfold h0Of
  simp only [chainRank_slice]
  exact (sum_weights (crossingNum l) (2 ^ crossingNum l) (-(nNegOf signs : Int))
    (fun s => popcount s (crossingNum l)) (fun s => popcount_le s _) _).symm

/-! ### 7. the cell lists of `khHomology` -/

section core
variable {c0 c : Cube} {p : Params}

theorem gensQ_empty (q0 : Int) (gens : Array (Array Gen)) (q : Int) (hq : q ∉ (qsOf c q0 gens).toList) (i : Nat) :
    ((gensQ c q0 gens q)[i]!).size = 0 := by
  rw [← Array.length_toList, List.length_eq_zero_iff, List.eq_nil_iff_forall_not_mem]
  intro g hg
  rw [mem_gensQ] at hg
  apply hq
  rw [mem_qsOf]
  by_cases hi : i < gens.size
  · refine ⟨gens[i]!, ?_, g, hg.1, hg.2⟩
    rw [getElem!_pos gens i hi]
    exact Array.getElem_mem_toList hi
  · rw [getElem!_neg gens i hi] at hg
    have e : (default : Array Gen) = #[] := rfl
    rw [e] at hg
    exact absurd hg.1 (by simp)

/-- the bigraded cell list, for a family of slices closed under the differential of `c0` (`c0 = c` in the unreduced
theory; `c0` = the unreduced cube in the reduced theory) -/
theorem bigraded_core (H : Ctx c0 p) (q0 h0 : Int) (F : ∀ q, Fam c0 p (gensQ c q0 (gensByWeight c) q)) (k : Coeff)
    (hk : CoeffOK k) :
    let T := fun q => homologyOf k (gensQ c q0 (gensByWeight c) q) (dTab c0 p (gensByWeight c0))
    let cells := (qsOf c q0 (gensByWeight c)).toList.flatMap (fun q => cellsUn h0 (some q) (T q))
    (∀ (i : Nat), i ≤ c0.n → ∀ j : Int, cellRank cells (h0 + (i : Int)) (some j) = ((T j)[i]!).rank) ∧
    (∀ j : Int, altSum c0.n (fun i => (cellRank cells (h0 + (i : Int)) (some j) : Int)) =
      altSum c0.n (fun i => (((gensQ c q0 (gensByWeight c) j)[i]!).size : Int))) ∧
    (∀ j : Int, C04Inv.coeffAt (chiHom cells) j =
      sgn h0 * altSum c0.n (fun i => (((gensQ c q0 (gensByWeight c) j)[i]!).size : Int))) := by
  intro T cells
  have hR := fun q => rowsOK_of_fam normalizeRow_rowOK (F q)
  have hT : ∀ q, (T q).size = c0.n + 1 := fun q => by
    show (homologyOf _ _ _).size = _
    rw [homologyOf_size, (F q).size]
  have hz : ∀ q, q ∉ (qsOf c q0 (gensByWeight c)).toList → ∀ i : Nat, ((T q)[i]!).rank = 0 := by
    intro q hq i
    by_cases hi : i ≤ c0.n
    · show ((homologyOf _ _ _)[i]!).rank = 0
      rw [rank_spec (F q) (hR q) k hk i hi, gensQ_empty q0 _ q hq i]
      simp
    · rw [getElem!_neg (T q) i (by rw [hT]; omega)]
      rfl
  have h1 : ∀ (i : Nat), i ≤ c0.n → ∀ j : Int, cellRank cells (h0 + (i : Int)) (some j) = ((T j)[i]!).rank :=
    fun i hi j => cellRank_bigraded _ (qsOf_nodup _ _ _) h0 T c0.n hT hz i hi j
  have h2 : ∀ j : Int, altSum c0.n (fun i => (cellRank cells (h0 + (i : Int)) (some j) : Int)) =
      altSum c0.n (fun i => (((gensQ c q0 (gensByWeight c) j)[i]!).size : Int)) := by
    intro j
    rw [← euler_fam H (F j) (hR j) k hk]
    apply altSum_congr
    intro i hi
    rw [h1 i hi j]
  refine ⟨h1, h2, ?_⟩
  intro j
  rw [coeffAt_chiHom_bigraded _ (qsOf_nodup _ _ _) h0 T c0.n hT hz j, sum_sgn, ← h2 j]
  congr 1
  apply altSum_congr
  intro i hi
  rw [h1 i hi j]

/-- the unbigraded cell list -/
theorem unbigraded_core {G : Array (Array Gen)} (H : Ctx c0 p) (h0 : Int) (F : Fam c0 p G) (k : Coeff) (hk : CoeffOK k) :
    let T := homologyOf k G (dTab c0 p (gensByWeight c0))
    let cells := cellsUn h0 none T
    (∀ (i : Nat), i ≤ c0.n → cellRank cells (h0 + (i : Int)) none = (T[i]!).rank) ∧
    altSum c0.n (fun i => (cellRank cells (h0 + (i : Int)) none : Int)) = altSum c0.n (fun i => ((G[i]!).size : Int)) := by
  intro T cells
  have hR := rowsOK_of_fam normalizeRow_rowOK F
  have hT : T.size = c0.n + 1 := by
    show (homologyOf _ _ _).size = _
    rw [homologyOf_size, F.size]
  have h1 : ∀ (i : Nat), i ≤ c0.n → cellRank cells (h0 + (i : Int)) none = (T[i]!).rank :=
    fun i hi => cellRank_cellsUn h0 none T i (by rw [hT]; omega)
  refine ⟨h1, ?_⟩
  rw [← euler_fam H F hR k hk]
  apply altSum_congr
  intro i hi
  rw [h1 i hi]

end core

end Yuiv.C04Euler
