import Yuiv.Proofs.KhiSpecMain
import Yuiv.Proofs.KhiSpecGens
/-
KhiSpec — the per-instance check on the strongly invertible trefoil.
-/
namespace Yuiv.KhiSpec
open Yuiv Yuiv.KhRef Yuiv.C19 Yuiv.C06Cycle Yuiv.C19Inv Yuiv.C19Comm Yuiv.C19Cone

set_option maxRecDepth 4000

theorem tref_gens_ok_00 : khiGensOk (trefIC false) ⟨0, 0, false⟩ = true := by decide +kernel
theorem tref_gens_ok_11 : khiGensOk (trefIC false) ⟨1, 1, false⟩ = true := by decide +kernel
theorem tref_gens_ok_red : khiGensOk (trefIC true) ⟨1, 0, true⟩ = true := by decide +kernel

theorem tref_spec_ok : khiSpecOk tref ⟨0, 0, false⟩ = true ∧ khiSpecOk tref ⟨1, 1, false⟩ = true ∧
    khiSpecOk tref ⟨1, 0, true⟩ = true := by
  unfold khiSpecOk
  rw [tref_ok_unreduced, tref_ok_unreduced, tref_ok_reduced, tref_icube, tref_icube, tref_icube]
  exact ⟨tref_gens_ok_00, tref_gens_ok_11, tref_gens_ok_red⟩

end Yuiv.KhiSpec
