import Yuiv.Model.C08
import Mathlib.Data.Matrix.Mul
import Mathlib.Algebra.BigOperators.Fin
import Mathlib.Algebra.BigOperators.Ring.Finset
/-
Spec definitions and helper lemmas for the C08 checker (no property theorem here).

`toM φ A r c` is the Mathlib matrix (over `β`, through a ring homomorphism `φ : α →+* β`) denoted by a stored
matrix `A` on the declared shape `r × c`.  `Spec φ x` lists the identities the checker decides.
-/
namespace Yuiv.C08
open Matrix

theorem allN_iff (n : Nat) (p : Nat → Bool) : allN n p = true ↔ ∀ i, i < n → p i = true := by
  induction n with
  | zero => simp [allN]
  | succ n ih =>
    simp only [allN, Bool.and_eq_true, ih]
    constructor
    · rintro ⟨h1, h2⟩ i hi
      rcases Nat.lt_succ_iff_lt_or_eq.1 hi with h | h
      · exact h1 i h
      · exact h ▸ h2
    · intro h
      exact ⟨fun i hi => h i (Nat.lt_succ_of_lt hi), h n (Nat.lt_succ_self n)⟩

section
variable {α β : Type} [Semiring α] [Semiring β] (φ : α →+* β)

/-- the matrix over `β` denoted by `A` on the shape `r × c` -/
def toM (A : Mat α) (r c : Nat) : Matrix (Fin r) (Fin c) β := Matrix.of fun i j => φ (A.get i.val j.val)

theorem dotN_eq_sum (f g : Nat → α) (n : Nat) : dotN f g n = ∑ k ∈ Finset.range n, f k * g k := by
  induction n with
  | zero => simp [dotN]
  | succ n ih => simp [dotN, ih, Finset.sum_range_succ]

theorem map_dotN (f g : Nat → α) (n : Nat) :
    φ (dotN f g n) = ∑ k : Fin n, φ (f k.val) * φ (g k.val) := by
  rw [dotN_eq_sum, map_sum, Fin.sum_univ_eq_sum_range (fun k => φ (f k) * φ (g k)) n]
  simp [map_mul]

theorem toM_mul_apply (A B : Mat α) (m n p : Nat) (i : Fin m) (j : Fin p) :
    (toM φ A m n * toM φ B n p) i j
      = φ (dotN (fun k => A.get i.val k) (fun k => B.get k j.val) n) := by
  rw [map_dotN]; simp [Matrix.mul_apply, toM]

variable (eq : α → α → Bool) (heq : ∀ a b, eq a b = true ↔ φ a = φ b)
include heq

theorem mulEq2_iff (m n q p : Nat) (A B C D : Mat α) :
    mulEq2 eq m n q p A B C D = true ↔ toM φ A m n * toM φ B n p = toM φ C m q * toM φ D q p := by
  simp only [mulEq2, allN_iff, heq]
  constructor
  · intro h; ext i j
    rw [toM_mul_apply, toM_mul_apply]; exact h i.val i.isLt j.val j.isLt
  · intro h i hi j hj
    have := congrFun (congrFun h ⟨i, hi⟩) ⟨j, hj⟩
    rwa [toM_mul_apply, toM_mul_apply] at this

theorem mulEq1_iff (m n p : Nat) (A B C : Mat α) :
    mulEq1 eq m n p A B C = true ↔ toM φ A m n * toM φ B n p = toM φ C m p := by
  simp only [mulEq1, allN_iff, heq]
  constructor
  · intro h; ext i j
    rw [toM_mul_apply]; exact h i.val i.isLt j.val j.isLt
  · intro h i hi j hj
    have := congrFun (congrFun h ⟨i, hi⟩) ⟨j, hj⟩
    rwa [toM_mul_apply] at this

theorem mulEq0_iff (m n p : Nat) (A B : Mat α) :
    mulEq0 eq m n p A B = true ↔ toM φ A m n * toM φ B n p = 0 := by
  simp only [mulEq0, allN_iff, heq]
  constructor
  · intro h; ext i j
    rw [toM_mul_apply, h i.val i.isLt j.val j.isLt]; simp
  · intro h i hi j hj
    have := congrFun (congrFun h ⟨i, hi⟩) ⟨j, hj⟩
    rw [toM_mul_apply] at this
    simpa using this

theorem mulEqI_iff (m n : Nat) (A B : Mat α) :
    mulEqI eq m n A B = true ↔ toM φ A m n * toM φ B n m = 1 := by
  simp only [mulEqI, allN_iff, heq]
  constructor
  · intro h; ext i j
    rw [toM_mul_apply, h i.val i.isLt j.val j.isLt, Matrix.one_apply]
    by_cases hij : i = j
    · simp [hij]
    · have : ¬ i.val = j.val := fun e => hij (Fin.ext e)
      simp [hij, this]
  · intro h i hi j hj
    have := congrFun (congrFun h ⟨i, hi⟩) ⟨j, hj⟩
    rw [toM_mul_apply, Matrix.one_apply] at this
    rw [this]
    by_cases hij : i = j
    · simp [hij]
    · have : ¬ (⟨i, hi⟩ : Fin m) = ⟨j, hj⟩ := fun e => hij (Fin.mk.inj e)
      simp [hij, this]

omit heq

/-- what the checker decides, stated with Mathlib matrices over `β` -/
structure Spec (x : RedData α) : Prop where
  /-- the given differentials form a complex -/
  in_sq : ∀ i, 1 ≤ i → i < x.k →
    toM φ (x.dd i) (x.nn (i - 1)) (x.nn i) * toM φ (x.dd (i + 1)) (x.nn i) (x.nn (i + 1)) = 0
  /-- the reduced differentials form a complex -/
  red_sq : ∀ i, 1 ≤ i → i < x.k →
    toM φ (x.dr i) (x.mm (i - 1)) (x.mm i) * toM φ (x.dr (i + 1)) (x.mm i) (x.mm (i + 1)) = 0
  /-- the forward maps form a chain map: `F_{i-1} d_i = d'_i F_i` -/
  F_comm : ∀ i, 1 ≤ i → i ≤ x.k →
    toM φ (x.FF (i - 1)) (x.mm (i - 1)) (x.nn (i - 1)) * toM φ (x.dd i) (x.nn (i - 1)) (x.nn i)
      = toM φ (x.dr i) (x.mm (i - 1)) (x.mm i) * toM φ (x.FF i) (x.mm i) (x.nn i)
  /-- the backward maps form a chain map: `d_i B_i = B_{i-1} d'_i` -/
  B_comm : ∀ i, 1 ≤ i → i ≤ x.k →
    toM φ (x.dd i) (x.nn (i - 1)) (x.nn i) * toM φ (x.BB i) (x.nn i) (x.mm i)
      = toM φ (x.BB (i - 1)) (x.nn (i - 1)) (x.mm (i - 1)) * toM φ (x.dr i) (x.mm (i - 1)) (x.mm i)
  /-- forward after backward is the identity of the reduced complex -/
  FB : ∀ i, i ≤ x.k → toM φ (x.FF i) (x.mm i) (x.nn i) * toM φ (x.BB i) (x.nn i) (x.mm i) = 1
  /-- tracked vectors are transported by the forward map -/
  Fv : ∀ i, i ≤ x.k →
    toM φ (x.FF i) (x.mm i) (x.nn i) * toM φ (x.VV i) (x.nn i) (x.tt i) = toM φ (x.VR i) (x.mm i) (x.tt i)

theorem shift_iff (k : Nat) (P : Nat → Prop) :
    (∀ i, i < k → P (i + 1)) ↔ (∀ i, 1 ≤ i → i ≤ k → P i) := by
  constructor
  · intro h i h1 hk
    obtain ⟨j, rfl⟩ : ∃ j, i = j + 1 := ⟨i - 1, by omega⟩
    exact h j (by omega)
  · intro h i hi; exact h (i + 1) (by omega) (by omega)

theorem shift_iff' (k : Nat) (P : Nat → Prop) :
    (∀ i, i < k - 1 → P (i + 1)) ↔ (∀ i, 1 ≤ i → i < k → P i) := by
  constructor
  · intro h i h1 hk
    obtain ⟨j, rfl⟩ : ∃ j, i = j + 1 := ⟨i - 1, by omega⟩
    exact h j (by omega)
  · intro h i hi; exact h (i + 1) (by omega) (by omega)

end

/-- equality modulo `p` is equality of the casts to `ZMod p`-free form: divisibility of the difference -/
theorem eqMod_iff (p : Nat) (a b : Int) : eqMod p a b = true ↔ (p : Int) ∣ a - b := by
  simp [eqMod, Int.dvd_iff_emod_eq_zero]

theorem eqMod_zero_iff (a b : Int) : eqMod 0 a b = true ↔ a = b := by
  rw [eqMod_iff]; simp [sub_eq_zero]

end Yuiv.C08
