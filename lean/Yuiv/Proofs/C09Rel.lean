import Yuiv.Proofs.C09Inv
/-
C09 — the release build (no `debug_assert!`) computes exactly what the debug build computes, whenever the
debug build returns: `snfCalc e true … = ok s → snfCalc e false … = ok s`.
-/
namespace Yuiv.C09
open Yuiv
variable {α : Type} {e : EOps α} {m n : Nat}

theorem foldlM_mono {σ β : Type} (f g : σ → β → Res σ) (hfg : ∀ s x s', f s x = .ok s' → g s x = .ok s') :
    ∀ (l : List β) (s s' : σ), l.foldlM f s = .ok s' → l.foldlM g s = .ok s'
  | [], s, s', h => by simpa using h
  | x :: l, s, s', h => by
    rw [List.foldlM_cons] at h ⊢
    obtain ⟨y, hy, h⟩ := Res.bind_eq_ok h
    rw [hfg s x y hy]
    exact foldlM_mono f g hfg l y s' h

theorem sLeft_rel (o : ROps α) (s s' : St α m n) (a b c d : α) (i j : Fin m)
    (h : sLeft o true s a b c d i j = .ok s') : sLeft o false s a b c d i j = .ok s' := by
  unfold sLeft at h ⊢
  split at h
  · cases h
  · simpa using h

theorem sRight_rel (o : ROps α) (s s' : St α m n) (a b c d : α) (i j : Fin n)
    (h : sRight o true s a b c d i j = .ok s') : sRight o false s a b c d i j = .ok s' := by
  unfold sRight at h ⊢
  split at h
  · cases h
  · simpa using h

theorem eliminateColStep_rel (i : Fin m) (j : Fin n) (sm sm' : St α m n × Bool) (i1 : Fin m)
    (h : eliminateColStep e true i j sm i1 = .ok sm') : eliminateColStep e false i j sm i1 = .ok sm' := by
  unfold eliminateColStep at h ⊢
  simp only at h ⊢
  split
  · rename_i hc; rw [if_pos hc] at h; exact h
  · rename_i hc; rw [if_neg hc] at h
    split at h
    · rename_i s' h1; rw [sLeft_rel _ _ _ _ _ _ _ _ _ h1]; exact h
    · cases h
    · cases h

theorem eliminateRowStep_rel (i : Fin m) (j : Fin n) (sm sm' : St α m n × Bool) (j1 : Fin n)
    (h : eliminateRowStep e true i j sm j1 = .ok sm') : eliminateRowStep e false i j sm j1 = .ok sm' := by
  unfold eliminateRowStep at h ⊢
  simp only at h ⊢
  split
  · rename_i hc; rw [if_pos hc] at h; exact h
  · rename_i hc; rw [if_neg hc] at h
    split at h
    · rename_i s' h1; rw [sRight_rel _ _ _ _ _ _ _ _ _ h1]; exact h
    · cases h
    · cases h

theorem eliminateCol_rel (s : St α m n) (i : Fin m) (j : Fin n) (r : St α m n × Bool)
    (h : eliminateCol e true s i j = .ok r) : eliminateCol e false s i j = .ok r := by
  unfold eliminateCol at h ⊢
  have := foldlM_mono (σ := St α m n × Bool) (β := Fin m) (eliminateColStep e true i j) (eliminateColStep e false i j)
    (fun sm i1 sm' hf => eliminateColStep_rel i j sm sm' i1 hf)
  exact this _ _ _ h

theorem eliminateRow_rel (s : St α m n) (i : Fin m) (j : Fin n) (r : St α m n × Bool)
    (h : eliminateRow e true s i j = .ok r) : eliminateRow e false s i j = .ok r := by
  unfold eliminateRow at h ⊢
  have := foldlM_mono (σ := St α m n × Bool) (β := Fin n) (eliminateRowStep e true i j) (eliminateRowStep e false i j)
    (fun sm j1 sm' hf => eliminateRowStep_rel i j sm sm' j1 hf)
  exact this _ _ _ h

theorem eliminateAt_rel (i : Fin m) (j : Fin n) : ∀ (fuel : Nat) (s s' : St α m n),
    eliminateAt e true i j fuel s = .ok s' → eliminateAt e false i j fuel s = .ok s' := by
  intro fuel
  induction fuel with
  | zero => intro s s' hs; simp [eliminateAt] at hs
  | succ fuel ih =>
    intro s s' hs
    rw [eliminateAt] at hs ⊢
    split
    · rename_i hc; rw [if_pos hc] at hs
      split at hs
      · rename_i r1 h1
        rw [eliminateCol_rel s i j r1 h1]
        split at hs
        · rename_i r2 h2
          rw [eliminateRow_rel r1.1 i j r2 h2]
          split at hs
          · cases hs
          · rename_i hm; simp only; rw [if_neg hm]; exact ih _ _ hs
        · cases hs
        · cases hs
      · cases hs
      · cases hs
    · rename_i hc; rw [if_neg hc] at hs; exact hs

theorem eliminateStep_rel (fuel : Nat) (s : St α m n) (i : Fin m) (j : Fin n) (hi : i.1 < n) (r : Option (St α m n))
    (hs : eliminateStep e true fuel s i j hi = .ok r) : eliminateStep e false fuel s i j hi = .ok r := by
  unfold eliminateStep at hs ⊢
  split
  · rename_i hp; rw [hp] at hs; exact hs
  · rename_i ip hp
    rw [hp] at hs
    simp only at hs ⊢
    split at hs
    · rename_i s2 h2
      split at hs
      · cases hs
      · rename_i hz
        rw [if_neg hz]
        split at hs
        · rename_i s3 h3
          rw [eliminateAt_rel i _ fuel s2 s3 h3]; exact hs
        · cases hs
        · cases hs
    · cases hs
    · cases hs

theorem eliminateAllStep_rel (fuel : Nat) (si si' : St α m n × Nat) (j : Fin n)
    (hf : eliminateAllStep e true fuel si j = .ok si') : eliminateAllStep e false fuel si j = .ok si' := by
  unfold eliminateAllStep at hf ⊢
  split
  · rename_i hc
    rw [dif_pos hc] at hf
    split at hf
    · rename_i h1; rw [eliminateStep_rel fuel _ _ j _ _ h1]; exact hf
    · rename_i s' h1; rw [eliminateStep_rel fuel _ _ j _ _ h1]; exact hf
    · cases hf
    · cases hf
  · rename_i hc; rw [dif_neg hc] at hf; exact hf

theorem eliminateAll_rel (fuel : Nat) (s s' : St α m n) (hs : eliminateAll e true fuel s = .ok s') :
    eliminateAll e false fuel s = .ok s' := by
  unfold eliminateAll at hs ⊢
  split at hs
  · rename_i si h1
    have := foldlM_mono (σ := St α m n × Nat) (β := Fin n) (eliminateAllStep e true fuel) (eliminateAllStep e false fuel)
      (fun si j si' hf => eliminateAllStep_rel fuel si si' j hf)
    rw [this _ _ _ h1]; exact hs
  · cases hs
  · cases hs

theorem diagNormalizeStep_rel (s : St α m n) (i : Nat) (hm : i + 1 < m) (hn : i + 1 < n) (r : St α m n × Bool)
    (hs : diagNormalizeStep e true s i hm hn = .ok r) : diagNormalizeStep e false s i hm hn = .ok r := by
  unfold diagNormalizeStep at hs ⊢
  simp only at hs ⊢
  split
  · rename_i hc; rw [if_pos hc] at hs; exact hs
  · rename_i hc; rw [if_neg hc] at hs
    split
    · rename_i hc2; rw [if_pos hc2] at hs; exact hs
    · rename_i hc2; rw [if_neg hc2] at hs
      split
      · rename_i hc3; rw [if_pos hc3] at hs; exact hs
      · rename_i hc3; rw [if_neg hc3] at hs
        split at hs
        · rename_i s1 h1
          rw [sLeft_rel _ _ _ _ _ _ _ _ _ h1]
          simp only
          split at hs
          · rename_i s2 h2
            rw [sRight_rel _ _ _ _ _ _ _ _ _ h2]; exact hs
          · cases hs
          · cases hs
        · cases hs
        · cases hs

theorem diagPass_rel (r : Nat) : ∀ (cnt i : Nat) (s : St α m n) (r' : St α m n × Bool),
    diagPass e true r cnt i s = .ok r' → diagPass e false r cnt i s = .ok r' := by
  intro cnt
  induction cnt with
  | zero => intro i s r' hs; rw [diagPass] at hs ⊢; exact hs
  | succ cnt ih =>
    intro i s r' hs
    rw [diagPass] at hs ⊢
    split
    · rename_i hc
      rw [dif_pos hc] at hs
      split at hs
      · rename_i r1 h1
        rw [diagNormalizeStep_rel s i _ _ r1 h1]
        simp only
        split at hs
        · rename_i hb; rw [if_pos hb]; exact ih _ _ _ hs
        · rename_i hb; rw [if_neg hb]; exact hs
      · cases hs
      · cases hs
    · rename_i hc; rw [dif_neg hc] at hs; exact hs

theorem diagOuter_rel (r : Nat) : ∀ (fuel : Nat) (s s' : St α m n),
    diagOuter e true r fuel s = .ok s' → diagOuter e false r fuel s = .ok s' := by
  intro fuel
  induction fuel with
  | zero => intro s s' hs; simp [diagOuter] at hs
  | succ fuel ih =>
    intro s s' hs
    rw [diagOuter] at hs ⊢
    split at hs
    · rename_i r1 h1
      rw [diagPass_rel r r 0 s r1 h1]
      simp only
      split at hs
      · rename_i hb; rw [if_pos hb]; exact hs
      · rename_i hb; rw [if_neg hb]; exact ih _ _ hs
    · cases hs
    · cases hs

theorem diagNormalize_rel (fuel : Nat) (s s' : St α m n) (hs : diagNormalize e true fuel s = .ok s') :
    diagNormalize e false fuel s = .ok s' := by
  unfold diagNormalize at hs ⊢
  split at hs
  · cases hs
  · rw [if_neg (by simp)]
    split
    · rename_i hz; rw [if_pos hz] at hs; exact hs
    · rename_i hz; rw [if_neg hz] at hs
      split at hs
      · rename_i s1 h1
        rw [diagOuter_rel _ fuel s s1 h1]; exact hs
      · cases hs
      · cases hs

theorem snfCalc_rel (pre : St α m n → Res (St α m n)) (fuel : Nat) (A : Mat α m n) (s : St α m n)
    (hs : snfCalc e true pre fuel A = .ok s) : snfCalc e false pre fuel A = .ok s := by
  unfold snfCalc at hs ⊢
  split
  · rename_i hz; rw [if_pos hz] at hs; exact hs
  · rename_i hz; rw [if_neg hz] at hs
    split at hs
    · rename_i s1 h1
      split at hs
      · rename_i s2 h2
        rw [eliminateAll_rel fuel s1 s2 h2]
        exact diagNormalize_rel fuel s2 s hs
      · cases hs
      · cases hs
    · cases hs
    · cases hs

end Yuiv.C09
