import Yuiv.Proofs.C12
import Mathlib.Algebra.Ring.MinimalAxioms
import Mathlib.Algebra.Field.Rat
import Mathlib.Data.ZMod.Defs
import Mathlib.Algebra.Ring.Int.Defs

namespace Yuiv.C12
open Yuiv

instance : LawfulScal Int where
  zero_eq := rfl
  one_eq := rfl
  add_eq _ _ := rfl
  sub_eq _ _ := rfl
  mul_eq _ _ := rfl
  neg_eq _ := rfl
  isZero_iff a := by simp [Scal.isZero]
  inv_mul a b h := by
    simp only [Scal.inv] at h
    split at h
    · rename_i hu
      cases h
      rcases (by simpa using hu : a = 1 ∨ a = -1) with rfl | rfl <;> rfl
    · cases h

instance : LawfulScal Rat where
  zero_eq := rfl
  one_eq := rfl
  add_eq _ _ := rfl
  sub_eq _ _ := rfl
  mul_eq _ _ := rfl
  neg_eq _ := rfl
  isZero_iff a := by simp [Scal.isZero, Rat.num_eq_zero]
  inv_mul a b h := by
    simp only [Scal.inv] at h
    split at h
    · cases h
    · rename_i hz
      cases h
      have : a ≠ 0 := by simpa [Rat.num_eq_zero] using hz
      exact mul_inv_cancel₀ this

open Fin.CommRing in
instance : LawfulScal (Fin 5) where
  zero_eq := rfl
  one_eq := rfl
  add_eq _ _ := rfl
  sub_eq _ _ := rfl
  mul_eq _ _ := rfl
  neg_eq _ := rfl
  isZero_iff a := by revert a; decide
  inv_mul := by decide


/-! Gaussian integers -/
namespace GI
theorem ext' {x y : GI} (h1 : x.re = y.re) (h2 : x.im = y.im) : x = y := by
  cases x; cases y; simp_all

instance : Add GI := ⟨GI.add⟩
instance : Mul GI := ⟨GI.mul⟩
instance : Neg GI := ⟨GI.neg⟩
instance : Zero GI := ⟨⟨0, 0⟩⟩
instance : One GI := ⟨⟨1, 0⟩⟩

@[simp] theorem add_re (x y : GI) : (x + y).re = x.re + y.re := rfl
@[simp] theorem add_im (x y : GI) : (x + y).im = x.im + y.im := rfl
@[simp] theorem mul_re (x y : GI) : (x * y).re = x.re * y.re - x.im * y.im := rfl
@[simp] theorem mul_im (x y : GI) : (x * y).im = x.re * y.im + x.im * y.re := rfl
@[simp] theorem neg_re (x : GI) : (-x).re = -x.re := rfl
@[simp] theorem neg_im (x : GI) : (-x).im = -x.im := rfl
@[simp] theorem zero_re : (0 : GI).re = 0 := rfl
@[simp] theorem zero_im : (0 : GI).im = 0 := rfl
@[simp] theorem one_re : (1 : GI).re = 1 := rfl
@[simp] theorem one_im : (1 : GI).im = 0 := rfl

instance : CommRing GI :=
  CommRing.ofMinimalAxioms
    (fun a b c => ext' (by simp; ring) (by simp; ring))
    (fun a => ext' (by simp) (by simp))
    (fun a => ext' (by simp) (by simp))
    (fun a b c => ext' (by simp; ring) (by simp; ring))
    (fun a b => ext' (by simp; ring) (by simp; ring))
    (fun a => ext' (by simp) (by simp))
    (fun a b c => ext' (by simp; ring) (by simp; ring))

theorem sub_re (x y : GI) : (x - y).re = x.re - y.re := by
  rw [sub_eq_add_neg]; simp; ring
theorem sub_im (x y : GI) : (x - y).im = x.im - y.im := by
  rw [sub_eq_add_neg]; simp; ring
end GI

instance : LawfulScal GI where
  zero_eq := rfl
  one_eq := rfl
  add_eq _ _ := rfl
  sub_eq a b := GI.ext' (by rw [GI.sub_re]; rfl) (by rw [GI.sub_im]; rfl)
  mul_eq _ _ := rfl
  neg_eq _ := rfl
  isZero_iff a := by
    constructor
    · intro h
      have : a.re = 0 ∧ a.im = 0 := by simpa [Scal.isZero] using h
      exact GI.ext' this.1 this.2
    · rintro rfl; rfl
  inv_mul a b h := by
    simp only [Scal.inv, GI.inv] at h
    split at h
    · rename_i hu
      cases h
      have hn : GI.norm a = 1 ∨ GI.norm a = -1 := by simpa using hu
      have hpos : 0 ≤ GI.norm a := by unfold GI.norm; nlinarith [mul_self_nonneg a.re, mul_self_nonneg a.im]
      have h1 : GI.norm a = 1 := by omega
      have h1' : a.re * a.re + a.im * a.im = 1 := h1
      apply GI.ext'
      · show a.re * (GI.mul ⟨GI.norm a, 0⟩ (GI.conj a)).re - a.im * (GI.mul ⟨GI.norm a, 0⟩ (GI.conj a)).im = 1
        simp only [GI.mul, GI.conj, h1]; linarith
      · show a.re * (GI.mul ⟨GI.norm a, 0⟩ (GI.conj a)).im + a.im * (GI.mul ⟨GI.norm a, 0⟩ (GI.conj a)).re = 0
        simp only [GI.mul, GI.conj, h1]; ring
    · cases h

end Yuiv.C12
