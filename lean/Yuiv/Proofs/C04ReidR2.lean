import Yuiv.Proofs.C04ReidR1
/-
C04Reid (helper, no property theorem here): Reidemeister II on PD codes — the bigon between two strands.
Labels: the two strands enter the bigon on `a`, `b`, run through the bigon on `c`, `d` and leave on `a2`, `b2`.
Two concrete forms (those produced by inserting `σᵢ σᵢ⁻¹` resp. `σᵢ⁻¹ σᵢ` into a braid word, `Braid::closure`):
  PN :  X[a, c, d, b],  X[d, c, a2, b2]        NP :  X[b, a, c, d],  X[c, a2, b2, d]
Of the four resolutions of the two crossings one is the identity tangle (`a–c–a2`, `b–d–b2`), two are the turn-back
(`a–b`, `a2–b2`) and one is the turn-back with an extra circle `c–d`.
Main result `bigon_stateSum`: state sum of the new diagram = `x ·` state sum of the collapsed diagram
`+ (1 + x·y + x²) ·` (state sum of the turn-back diagram).
-/
open Yuiv.KhRef Yuiv.C04
namespace Yuiv.C04Inv
open Relation

/-- collapse `c`, `a2` onto `a` and `d`, `b2` onto `b` -/
def collapse2 (a b c d a2 b2 : Nat) (z : Nat) : Nat :=
  if z = c ∨ z = a2 then a else if z = d ∨ z = b2 then b else z

def hexSet (a b c d a2 b2 : Nat) : Set Nat := {z | z = a ∨ z = b ∨ z = c ∨ z = d ∨ z = a2 ∨ z = b2}
def quadSet (a b a2 b2 : Nat) : Set Nat := {z | z = a ∨ z = b ∨ z = a2 ∨ z = b2}

/-- the arcs of the turn-back tangle -/
def turnArcs (a b a2 b2 : Nat) : List (Nat × Nat) := [(a, b), (a2, b2)]

/-- freshness / distinctness of the six labels of a bigon relative to the rest `lm` of the diagram -/
structure BigonLabels (lm : Link) (a b c d a2 b2 : Nat) : Prop where
  hc : c ∉ labelSet lm
  hd : d ∉ labelSet lm
  ca : c ≠ a
  cb : c ≠ b
  ca2 : c ≠ a2
  cb2 : c ≠ b2
  da : d ≠ a
  db : d ≠ b
  da2 : d ≠ a2
  db2 : d ≠ b2
  cd : c ≠ d
  ab2 : a ≠ b2
  ba2 : b ≠ a2
  a2b2 : a2 ≠ b2

section
variable {lm : Link} {a b c d a2 b2 : Nat}

theorem collapse2_vals (h : BigonLabels lm a b c d a2 b2) :
    collapse2 a b c d a2 b2 a = a ∧ collapse2 a b c d a2 b2 b = b ∧ collapse2 a b c d a2 b2 c = a ∧
    collapse2 a b c d a2 b2 d = b ∧ collapse2 a b c d a2 b2 a2 = a ∧ collapse2 a b c d a2 b2 b2 = b := by
  obtain ⟨_, _, ca, cb, ca2, cb2, da, db, da2, db2, cd, ab2, ba2, a2b2⟩ := h
  unfold collapse2
  refine ⟨?_, ?_, ?_, ?_, ?_, ?_⟩
  · split
    · rfl
    · split
      · rename_i h; rcases h with h | h
        · exact absurd h.symm da
        · exact absurd h ab2
      · rfl
  · split
    · rename_i h; rcases h with h | h
      · exact absurd h.symm cb
      · exact absurd h ba2
    · split <;> rfl
  · simp
  · rw [if_neg (by rintro (h | h); exact cd h.symm; exact da2 h)]; simp
  · simp
  · rw [if_neg (by rintro (h | h); exact cb2 h.symm; exact a2b2 h.symm)]; simp

/-- arcs of the identity tangle -/
structure IsIdent (A : List (Nat × Nat)) (a b c d a2 b2 : Nat) : Prop where
  ca : Conn A c a
  a2a : Conn A a2 a
  db : Conn A d b
  b2b : Conn A b2 b
  same : ∀ p ∈ A, collapse2 a b c d a2 b2 p.1 = collapse2 a b c d a2 b2 p.2

theorem ident_count {A : List (Nat × Nat)} (hwf : WF lm) (h : BigonLabels lm a b c d a2 b2)
    (ha : a ∈ labelSet (renumber (collapse2 a b c d a2 b2) lm)) (hb : b ∈ labelSet (renumber (collapse2 a b c d a2 b2) lm))
    (hI : IsIdent A a b c d a2 b2) (s : Nat) :
    classCount (hexSet a b c d a2 b2 ∪ labelSet lm) (A ++ statePairs lm s)
      = classCount (labelSet (renumber (collapse2 a b c d a2 b2) lm))
          ([] ++ statePairs (renumber (collapse2 a b c d a2 b2) lm) s) + 0 := by
  rw [labelSet_renumber] at ha hb
  obtain ⟨va, vb, vc, vd, va2, vb2⟩ := collapse2_vals h
  refine kink_collapse (collapse2 a b c d a2 b2) _ A lm hwf hI.same ?_ ?_ s
  · intro z _
    unfold collapse2
    split
    · rename_i hz; rcases hz with rfl | rfl
      · exact hI.ca
      · exact hI.a2a
    · split
      · rename_i hz; rcases hz with rfl | rfl
        · exact hI.db
        · exact hI.b2b
      · exact Conn.refl _
  · intro z hz
    rcases hz with rfl | rfl | rfl | rfl | rfl | rfl
    · rw [va]; exact ha
    · rw [vb]; exact hb
    · rw [vc]; exact ha
    · rw [vd]; exact hb
    · rw [va2]; exact ha
    · rw [vb2]; exact hb

/-- collapse `c`, `d` onto `t` -/
def gTo (c d t : Nat) (z : Nat) : Nat := if z = c ∨ z = d then t else z

theorem gTo_c (c d t : Nat) : gTo c d t c = t := by simp [gTo]
theorem gTo_d (c d t : Nat) : gTo c d t d = t := by simp [gTo]
theorem gTo_other (c d t z : Nat) (h1 : z ≠ c) (h2 : z ≠ d) : gTo c d t z = z := by simp [gTo, h1, h2]

theorem statePairs_ne (hwf : WF lm) {c : Nat} (hc : c ∉ labelSet lm) (s : Nat) :
    ∀ p ∈ statePairs lm s, p.1 ≠ c ∧ p.2 ≠ c := by
  intro p hp
  obtain ⟨m1, m2⟩ := statePairs_sub lm hwf s p hp
  exact ⟨fun h => hc (h ▸ m1), fun h => hc (h ▸ m2)⟩

/-- arcs of a turn-back tangle in which `c`, `d` hang on the label `t ∈ {a, b, a2, b2}` -/
theorem turn_count {A : List (Nat × Nat)} (hwf : WF lm) (h : BigonLabels lm a b c d a2 b2) (t : Nat)
    (ht : t ∈ quadSet a b a2 b2)
    (hA : ∀ p ∈ A, Conn (turnArcs a b a2 b2) (gTo c d t p.1) (gTo c d t p.2))
    (hB : ∀ p ∈ turnArcs a b a2 b2, Conn A p.1 p.2) (h3c : Conn A c t) (h3d : Conn A d t) (s : Nat) :
    classCount (hexSet a b c d a2 b2 ∪ labelSet lm) (A ++ statePairs lm s)
      = classCount (quadSet a b a2 b2 ∪ labelSet lm) (turnArcs a b a2 b2 ++ statePairs lm s) + 0 := by
  obtain ⟨hc, hd, ca, cb, ca2, cb2, da, db, da2, db2, cd, ab2, ba2, a2b2⟩ := h
  refine classCount_collapse_append (gTo c d t) ?_ hA hB ?_ ?_
  · intro p hp
    obtain ⟨n1, n2⟩ := statePairs_ne hwf hc s p hp
    obtain ⟨n3, n4⟩ := statePairs_ne hwf hd s p hp
    exact ⟨gTo_other _ _ _ _ n1 n3, gTo_other _ _ _ _ n2 n4⟩
  · intro z _
    by_cases h1 : z = c
    · subst h1; rw [gTo_c]; exact h3c
    · by_cases h2 : z = d
      · subst h2; rw [gTo_d]; exact h3d
      · rw [gTo_other _ _ _ _ h1 h2]; exact Conn.refl _
  · ext z; constructor
    · rintro ⟨w, hw, rfl⟩
      by_cases h1 : w = c
      · subst h1; rw [gTo_c]; exact Or.inl ht
      · by_cases h2 : w = d
        · subst h2; rw [gTo_d]; exact Or.inl ht
        · rw [gTo_other _ _ _ _ h1 h2]
          rcases hw with hw | hw
          · left
            rcases hw with rfl | rfl | rfl | rfl | rfl | rfl
            · exact Or.inl rfl
            · exact Or.inr (Or.inl rfl)
            · exact absurd rfl h1
            · exact absurd rfl h2
            · exact Or.inr (Or.inr (Or.inl rfl))
            · exact Or.inr (Or.inr (Or.inr rfl))
          · exact Or.inr hw
    · intro hz
      have h1 : z ≠ c := by
        rintro rfl
        rcases hz with hz | hz
        · rcases hz with h | h | h | h
          exacts [ca h, cb h, ca2 h, cb2 h]
        · exact hc hz
      have h2 : z ≠ d := by
        rintro rfl
        rcases hz with hz | hz
        · rcases hz with h | h | h | h
          exacts [da h, db h, da2 h, db2 h]
        · exact hd hz
      refine ⟨z, ?_, gTo_other _ _ _ _ h1 h2⟩
      rcases hz with hz | hz
      · left
        rcases hz with rfl | rfl | rfl | rfl
        · exact Or.inl rfl
        · exact Or.inr (Or.inl rfl)
        · exact Or.inr (Or.inr (Or.inr (Or.inr (Or.inl rfl))))
        · exact Or.inr (Or.inr (Or.inr (Or.inr (Or.inr rfl))))
      · exact Or.inr hz

/-- move `d` onto `c` -/
def gDC (c d : Nat) (z : Nat) : Nat := if z = d then c else z

/-- arcs of the turn-back tangle with the extra circle `c – d` -/
theorem loopturn_count {A : List (Nat × Nat)} (hwf : WF lm) (h : BigonLabels lm a b c d a2 b2)
    (hA : ∀ p ∈ A, Conn (turnArcs a b a2 b2) (gDC c d p.1) (gDC c d p.2))
    (hB : ∀ p ∈ turnArcs a b a2 b2, Conn A p.1 p.2) (hdc : Conn A d c) (s : Nat) :
    classCount (hexSet a b c d a2 b2 ∪ labelSet lm) (A ++ statePairs lm s)
      = classCount (quadSet a b a2 b2 ∪ labelSet lm) (turnArcs a b a2 b2 ++ statePairs lm s) + 1 := by
  obtain ⟨hc, hd, ca, cb, ca2, cb2, da, db, da2, db2, cd, ab2, ba2, a2b2⟩ := h
  have hcq : c ∉ quadSet a b a2 b2 ∪ labelSet lm := by
    rintro (h | h)
    · rcases h with h | h | h | h
      exacts [ca h, cb h, ca2 h, cb2 h]
    · exact hc h
  have hdq : d ∉ quadSet a b a2 b2 ∪ labelSet lm := by
    rintro (h | h)
    · rcases h with h | h | h | h
      exacts [da h, db h, da2 h, db2 h]
    · exact hd h
  have hfin : (quadSet a b a2 b2 ∪ labelSet lm).Finite := by
    refine Set.Finite.union ?_ (labelSet_finite lm)
    have : quadSet a b a2 b2 = {a, b, a2, b2} := by ext z; simp [quadSet]
    rw [this]; exact Set.toFinite _
  rw [← classCount_insert_isolated hfin hcq]
  · refine classCount_collapse_append (gDC c d) ?_ hA hB ?_ ?_
    · intro p hp
      obtain ⟨n3, n4⟩ := statePairs_ne hwf hd s p hp
      simp [gDC, n3, n4]
    · intro z _
      unfold gDC
      split
      · rename_i hz; subst hz; exact hdc
      · exact Conn.refl _
    · ext z; constructor
      · rintro ⟨w, hw, rfl⟩
        unfold gDC
        split
        · exact Or.inl rfl
        · rename_i hwd
          by_cases hwc : w = c
          · exact Or.inl hwc
          · right
            rcases hw with hw | hw
            · rcases hw with rfl | rfl | rfl | rfl | rfl | rfl
              · exact Or.inl (Or.inl rfl)
              · exact Or.inl (Or.inr (Or.inl rfl))
              · exact absurd rfl hwc
              · exact absurd rfl hwd
              · exact Or.inl (Or.inr (Or.inr (Or.inl rfl)))
              · exact Or.inl (Or.inr (Or.inr (Or.inr rfl)))
            · exact Or.inr hw
      · rintro (rfl | hz)
        · refine ⟨z, Or.inl (Or.inr (Or.inr (Or.inl rfl))), ?_⟩
          unfold gDC; split <;> simp_all
        · have h2 : z ≠ d := fun h => hdq (h ▸ hz)
          refine ⟨z, ?_, by simp [gDC, h2]⟩
          rcases hz with hz | hz
          · left
            rcases hz with rfl | rfl | rfl | rfl
            · exact Or.inl rfl
            · exact Or.inr (Or.inl rfl)
            · exact Or.inr (Or.inr (Or.inr (Or.inr (Or.inl rfl))))
            · exact Or.inr (Or.inr (Or.inr (Or.inr (Or.inr rfl))))
          · exact Or.inr hz
  · intro p hp
    rcases List.mem_append.mp hp with hp | hp
    · simp only [turnArcs, List.mem_cons, List.mem_nil_iff, or_false] at hp
      rcases hp with rfl | rfl
      · simp [ca.symm, cb.symm]
      · simp [ca2.symm, cb2.symm]
    · obtain ⟨n1, n2⟩ := statePairs_ne hwf hc s p hp
      simp [n1, n2]

theorem gTo_vals (h : BigonLabels lm a b c d a2 b2) (t : Nat) :
    gTo c d t a = a ∧ gTo c d t b = b ∧ gTo c d t a2 = a2 ∧ gTo c d t b2 = b2 ∧ gTo c d t c = t ∧ gTo c d t d = t :=
  ⟨gTo_other _ _ _ _ h.ca.symm h.da.symm, gTo_other _ _ _ _ h.cb.symm h.db.symm,
    gTo_other _ _ _ _ h.ca2.symm h.da2.symm, gTo_other _ _ _ _ h.cb2.symm h.db2.symm, gTo_c _ _ _, gTo_d _ _ _⟩

theorem gDC_vals (h : BigonLabels lm a b c d a2 b2) :
    gDC c d a = a ∧ gDC c d b = b ∧ gDC c d a2 = a2 ∧ gDC c d b2 = b2 ∧ gDC c d c = c ∧ gDC c d d = c := by
  have := h.da.symm; have := h.db.symm; have := h.da2.symm; have := h.db2.symm; have := h.cd
  simp [gDC, *]

end

theorem arcsX (p q r t : Nat) :
    arcs ⟨.X, #[p, q, r, t]⟩ (CT.X.resolve false) = [(p, q), (r, t)] ∧
    arcs ⟨.X, #[p, q, r, t]⟩ (CT.X.resolve true) = [(p, t), (q, r)] := by
  simp [arcs, arcIdx, CT.resolve]

local macro "conn_close" : tactic =>
  `(tactic| first | exact Conn.refl _ | (refine Conn.of_mem ?_; simp [turnArcs]; done) |
    (refine Conn.of_mem_symm ?_; simp [turnArcs]; done))

local macro "conn_mem" : term => `(Conn.of_mem (by simp))
local macro "conn_sym" : term => `(Conn.of_mem_symm (by simp))

section
variable {R : Type} [CommRing R] {lm : Link} {a b c d a2 b2 : Nat}

theorem labelSet_perm_cons2 {l' : Link} {c₁ c₂ : Crossing} (hp : l'.toList.Perm (c₁ :: c₂ :: lm.toList)) :
    labelSet l' = {v | v ∈ c₁.e ∨ v ∈ c₂.e} ∪ labelSet lm := by
  have h1 := labelSet_perm_cons (l' := l') (lm := (c₂ :: lm.toList).toArray) (c := c₁) hp
  have h2 := labelSet_perm_cons (l' := (c₂ :: lm.toList).toArray) (lm := lm) (c := c₂) (List.Perm.refl _)
  rw [h1, h2, ← Set.union_assoc]; rfl

theorem WF_of_perm_cons2 {l' : Link} {c₁ c₂ : Crossing} (hp : l'.toList.Perm (c₁ :: c₂ :: lm.toList))
    (h₁ : c₁.e.size = 4) (h₂ : c₂.e.size = 4) (hwf : WF lm) : WF l' :=
  WF_of_perm_cons (lm := (c₂ :: lm.toList).toArray) hp h₁
    (WF_of_perm_cons (l' := (c₂ :: lm.toList).toArray) (lm := lm) (List.Perm.refl _) h₂ hwf)

/-- the turn-back state sum (the two strands of the bigon replaced by `a–b`, `a2–b2`) -/
noncomputable def turnSum (x y : R) (lm : Link) (a b a2 b2 : Nat) : R :=
  partSum (quadSet a b a2 b2 ∪ labelSet lm) x y lm 0 (turnArcs a b a2 b2)

/-- the bigon `X[a,c,d,b] X[d,c,a2,b2]` (from `σᵢ σᵢ⁻¹`) -/
theorem bigon_stateSum_PN (x y : R) {l' : Link} (hwf : WF lm) (h : BigonLabels lm a b c d a2 b2)
    (ha : a ∈ labelSet (renumber (collapse2 a b c d a2 b2) lm)) (hb : b ∈ labelSet (renumber (collapse2 a b c d a2 b2) lm))
    (hp : l'.toList.Perm (⟨.X, #[a, c, d, b]⟩ :: ⟨.X, #[d, c, a2, b2]⟩ :: lm.toList)) :
    stateSum x y l' = x * stateSum x y (renumber (collapse2 a b c d a2 b2) lm)
      + (1 + x * y + x ^ 2) * turnSum x y lm a b a2 b2 := by
  have hL' : labelSet l' = hexSet a b c d a2 b2 ∪ labelSet lm := by
    rw [labelSet_perm_cons2 hp]; congr 1; ext z; simp [hexSet]; tauto
  obtain ⟨va, vb, vc, vd, va2, vb2⟩ := collapse2_vals h
  obtain ⟨ga, gb, ga2, gb2, gc, gd⟩ := gTo_vals h a
  obtain ⟨ga', gb', ga2', gb2', gc', gd'⟩ := gTo_vals h a2
  obtain ⟨ka, kb, ka2, kb2, kc, kd⟩ := gDC_vals h
  unfold stateSum turnSum
  rw [stateSum_perm_cons2 x y (WF_of_perm_cons2 hp rfl rfl hwf) hp rfl rfl,
    stateSum_partSum x y _ (WF_renumber hwf), hL']
  simp only [(arcsX _ _ _ _).1, (arcsX _ _ _ _).2]
  rw [partSum_shift _ _ x y lm lm 0 0 _ (turnArcs a b a2 b2) rfl (turn_count hwf h a (Or.inl rfl)
        (by
          intro p hp
          simp only [List.mem_append, List.mem_cons, List.mem_nil_iff, or_false] at hp
          rcases hp with (rfl | rfl) | (rfl | rfl) <;> simp only [ga, gb, ga2, gb2, gc, gd] <;> conn_close)
        (by
          intro p hp
          simp only [turnArcs, List.mem_cons, List.mem_nil_iff, or_false] at hp
          rcases hp with rfl | rfl
          · exact (conn_mem : Conn _ a c).trans ((conn_sym : Conn _ c d).trans conn_mem)
          · exact conn_mem)
        conn_sym ((conn_mem : Conn _ d c).trans conn_sym)),
    partSum_shift _ _ x y lm _ 1 0 _ [] (crossingNum_renumber _ lm) (ident_count hwf h ha hb
        ⟨conn_sym, (conn_sym : Conn _ a2 c).trans conn_sym, (conn_mem : Conn _ d b), (conn_sym : Conn _ b2 d).trans conn_mem, by
          intro p hp
          simp only [List.mem_append, List.mem_cons, List.mem_nil_iff, or_false] at hp
          rcases hp with (rfl | rfl) | (rfl | rfl) <;> simp only [va, vb, vc, vd, va2, vb2]⟩),
    partSum_shift _ _ x y lm lm 1 1 _ (turnArcs a b a2 b2) rfl (loopturn_count hwf h
        (by
          intro p hp
          simp only [List.mem_append, List.mem_cons, List.mem_nil_iff, or_false] at hp
          rcases hp with (rfl | rfl) | (rfl | rfl) <;> simp only [ka, kb, ka2, kb2, kc, kd] <;> conn_close)
        (by
          intro p hp
          simp only [turnArcs, List.mem_cons, List.mem_nil_iff, or_false] at hp
          rcases hp with rfl | rfl <;> exact conn_mem)
        conn_mem),
    partSum_shift _ _ x y lm lm 2 0 _ (turnArcs a b a2 b2) rfl (turn_count hwf h a2 (Or.inr (Or.inr (Or.inl rfl)))
        (by
          intro p hp
          simp only [List.mem_append, List.mem_cons, List.mem_nil_iff, or_false] at hp
          rcases hp with (rfl | rfl) | (rfl | rfl) <;> simp only [ga', gb', ga2', gb2', gc', gd'] <;> conn_close)
        (by
          intro p hp
          simp only [turnArcs, List.mem_cons, List.mem_nil_iff, or_false] at hp
          rcases hp with rfl | rfl
          · exact conn_mem
          · exact (conn_sym : Conn _ a2 c).trans ((conn_mem : Conn _ c d).trans conn_mem))
        conn_mem ((conn_sym : Conn _ d c).trans conn_mem))]
  ring

/-- the bigon `X[b,a,c,d] X[c,a2,b2,d]` (from `σᵢ⁻¹ σᵢ`) -/
theorem bigon_stateSum_NP (x y : R) {l' : Link} (hwf : WF lm) (h : BigonLabels lm a b c d a2 b2)
    (ha : a ∈ labelSet (renumber (collapse2 a b c d a2 b2) lm)) (hb : b ∈ labelSet (renumber (collapse2 a b c d a2 b2) lm))
    (hp : l'.toList.Perm (⟨.X, #[b, a, c, d]⟩ :: ⟨.X, #[c, a2, b2, d]⟩ :: lm.toList)) :
    stateSum x y l' = x * stateSum x y (renumber (collapse2 a b c d a2 b2) lm)
      + (1 + x * y + x ^ 2) * turnSum x y lm a b a2 b2 := by
  have hL' : labelSet l' = hexSet a b c d a2 b2 ∪ labelSet lm := by
    rw [labelSet_perm_cons2 hp]; congr 1; ext z; simp [hexSet]; tauto
  obtain ⟨va, vb, vc, vd, va2, vb2⟩ := collapse2_vals h
  obtain ⟨ga, gb, ga2, gb2, gc, gd⟩ := gTo_vals h a
  obtain ⟨ga', gb', ga2', gb2', gc', gd'⟩ := gTo_vals h a2
  obtain ⟨ka, kb, ka2, kb2, kc, kd⟩ := gDC_vals h
  unfold stateSum turnSum
  rw [stateSum_perm_cons2 x y (WF_of_perm_cons2 hp rfl rfl hwf) hp rfl rfl,
    stateSum_partSum x y _ (WF_renumber hwf), hL']
  simp only [(arcsX _ _ _ _).1, (arcsX _ _ _ _).2]
  rw [partSum_shift _ _ x y lm lm 0 0 _ (turnArcs a b a2 b2) rfl (turn_count hwf h a2 (Or.inr (Or.inr (Or.inl rfl)))
        (by
          intro p hp
          simp only [List.mem_append, List.mem_cons, List.mem_nil_iff, or_false] at hp
          rcases hp with (rfl | rfl) | (rfl | rfl) <;> simp only [ga', gb', ga2', gb2', gc', gd'] <;> conn_close)
        (by
          intro p hp
          simp only [turnArcs, List.mem_cons, List.mem_nil_iff, or_false] at hp
          rcases hp with rfl | rfl
          · exact conn_sym
          · exact (conn_sym : Conn _ a2 c).trans ((conn_mem : Conn _ c d).trans conn_sym))
        conn_mem ((conn_sym : Conn _ d c).trans conn_mem)),
    partSum_shift _ _ x y lm lm 1 1 _ (turnArcs a b a2 b2) rfl (loopturn_count hwf h
        (by
          intro p hp
          simp only [List.mem_append, List.mem_cons, List.mem_nil_iff, or_false] at hp
          rcases hp with (rfl | rfl) | (rfl | rfl) <;> simp only [ka, kb, ka2, kb2, kc, kd] <;> conn_close)
        (by
          intro p hp
          simp only [turnArcs, List.mem_cons, List.mem_nil_iff, or_false] at hp
          rcases hp with rfl | rfl
          · exact conn_sym
          · exact conn_mem)
        conn_sym),
    partSum_shift _ _ x y lm _ 1 0 _ [] (crossingNum_renumber _ lm) (ident_count hwf h ha hb
        ⟨conn_sym, (conn_sym : Conn _ a2 c).trans conn_sym, conn_sym, (conn_mem : Conn _ b2 d).trans conn_sym, by
          intro p hp
          simp only [List.mem_append, List.mem_cons, List.mem_nil_iff, or_false] at hp
          rcases hp with (rfl | rfl) | (rfl | rfl) <;> simp only [va, vb, vc, vd, va2, vb2]⟩),
    partSum_shift _ _ x y lm lm 2 0 _ (turnArcs a b a2 b2) rfl (turn_count hwf h a (Or.inl rfl)
        (by
          intro p hp
          simp only [List.mem_append, List.mem_cons, List.mem_nil_iff, or_false] at hp
          rcases hp with (rfl | rfl) | (rfl | rfl) <;> simp only [ga, gb, ga2, gb2, gc, gd] <;> conn_close)
        (by
          intro p hp
          simp only [turnArcs, List.mem_cons, List.mem_nil_iff, or_false] at hp
          rcases hp with rfl | rfl
          · exact (conn_mem : Conn _ a c).trans ((conn_mem : Conn _ c d).trans conn_sym)
          · exact conn_mem)
        conn_sym ((conn_sym : Conn _ d c).trans conn_sym))]
  ring

/-- with `x = −q`, `y = q + q⁻¹` the turn-back terms cancel -/
theorem bigon_cancel (q qinv : R) (hq : q * qinv = 1) : 1 + (-q) * (q + qinv) + (-q) ^ 2 = 0 := by
  linear_combination (-1 : R) * hq

theorem prefactor_bigon (q qinv : R) (hq : q * qinv = 1) (nPos nNeg : Nat) :
    npow (-1 : R) (nNeg + 1) * zpow q qinv (((nPos + 1 : Nat) : Int) - 2 * ((nNeg + 1 : Nat) : Int)) * (-q)
      = npow (-1 : R) nNeg * zpow q qinv ((nPos : Int) - 2 * nNeg) := by
  have e : (((nPos + 1 : Nat) : Int) - 2 * ((nNeg + 1 : Nat) : Int)) = ((nPos : Int) - 2 * nNeg) + (-1) := by
    push_cast; ring
  rw [e, zpow_add' q qinv hq, zpow_neg_one', npow_eq, npow_eq, pow_succ]
  linear_combination ((-1 : R) ^ nNeg * zpow q qinv ((nPos : Int) - 2 * nNeg)) * hq

end

end Yuiv.C04Inv
