import Yuiv.Gen.SchurFn
set_option linter.unusedSectionVars false
set_option linter.unusedSimpArgs false
/-
Helper lemmas for `Yuiv/Props/C08Gen.lean` (no property theorem here).

`Yuiv.GenSchur.*` is GENERATED from `/repo/yui-matrix/src/sparse/schur.rs` by `tools/rs2lean_fn.py fn:schur`; `C12.schur`,
`C12.computeSchur` (`Yuiv/Model/C12.lean`) are the hand-written model.  `toS` turns the model's `SchurOut` into the
generated structure.
-/
namespace Yuiv.C08Gen
open Yuiv Res Yuiv.Rust Yuiv.C12

variable {α : Type} [Scal α]

def toS (o : SchurOut α) : GenSchur.SchurS α := ⟨o.s, o.src, o.tgt⟩

def mapR {β γ} (f : β → γ) : Res β → Res γ
  | .ok a => .ok (f a)
  | .panic => .panic
  | .err => .err

theorem assert_true : Res.assert true = ok () := rfl
theorem assert_false : Res.assert false = (.panic : Res Unit) := rfl
theorem pure_eq_ok {β} (a : β) : (pure a : Res β) = ok a := rfl

/-- looking up index `i` in the dense list `[(0, f 0), …, (n-1, f (n-1))]` -/
theorem find_dense {β : Type} (f : Nat → β) (n i : Nat) (hi : i < n) :
    ((List.range n).map fun k => (k, f k)).find? (fun e => e.1 == i) = some (i, f i) := by
  induction n with
  | zero => omega
  | succ n ih =>
    rw [List.range_succ, List.map_append, List.find?_append]
    by_cases h : i < n
    · rw [ih h]; rfl
    · have : i = n := by omega
      subst this
      have hn : ((List.range i).map fun k => (k, f k)).find? (fun e => e.1 == i) = none := by
        rw [List.find?_eq_none]
        intro e he
        simp only [List.mem_map, List.mem_range] at he
        obtain ⟨k, hk, rfl⟩ := he
        simp; omega
      rw [hn]
      simp

theorem solve_shape {upper : Bool} {A Y X : SpMat α} (h : solve upper A Y = ok X) : X.nrows = A.nrows ∧ X.ncols = Y.ncols := by
  unfold solve at h
  split at h
  · cases h
  · split at h
    · cases h
    · split at h
      · cases h; exact ⟨rfl, rfl⟩
      · cases h
      · cases h

theorem solveLeft_shape {upper : Bool} {A Y W : SpMat α} (h : solveLeft upper A Y = ok W) :
    W.nrows = Y.nrows ∧ W.ncols = A.ncols := by
  unfold solveLeft at h
  split at h
  · rename_i X hX
    cases h
    have := solve_shape hX
    exact ⟨this.2, this.1⟩
  · cases h
  · cases h

/-- the entries of `incl` / `proj` produced by `(0..k).map(..)` -/
theorem mapM_range {β : Type} (g : Nat → Res β) (f : Nat → β) : ∀ (c s : Nat), (∀ i, s ≤ i → i < s + c → g i = ok (f i)) →
    Iter.mapM g (List.range' s c) = ok ((List.range' s c).map f) := by
  intro c
  induction c with
  | zero => intro s _; rfl
  | succ c ih =>
    intro s h
    rw [List.range'_succ, Iter.mapM, h s (Nat.le_refl _) (by omega), ih (s + 1) (fun i h1 h2 => h i (by omega) (by omega))]
    rfl

theorem filter_shift (a j : Nat) : ∀ k, (List.range' 0 k).filter (fun i => decide (a + i = j)) =
    if a ≤ j ∧ j < a + k then [j - a] else [] := by
  intro k
  induction k with
  | zero => simp
  | succ k ih =>
    rw [List.range'_concat, List.filter_append, ih]
    have hk : (0 + 1 * k) = k := by omega
    rw [hk]
    by_cases h4 : a + k = j
    · have hf : List.filter (fun i => decide (a + i = j)) [k] = [k] := by simp [h4]
      have h1 : ¬ (a ≤ j ∧ j < a + k) := by omega
      have h2 : a ≤ j ∧ j < a + (k + 1) := by omega
      have h5 : j - a = k := by omega
      rw [hf, if_neg h1, if_pos h2, h5]; rfl
    · have hf : List.filter (fun i => decide (a + i = j)) [k] = [] := by simp [h4]
      rw [hf, List.append_nil]
      by_cases h1 : a ≤ j ∧ j < a + k
      · rw [if_pos h1, if_pos ⟨h1.1, by omega⟩]
      · rw [if_neg h1, if_neg (by omega)]

/-- `incl(n, k)` of schur.rs: `from_entries((n, k), (0..k).map(|i| (n - k + i, i, 1)))` is the model's `incl n k` -/
theorem incl_eq (hone : isZero (one : α) = false) (n k : Nat) (hk : k ≤ n) :
    SM.from_entries (n, k) ((List.range' 0 k).map fun i => (n - k + i, i, (one : α))) = ok (incl n k) := by
  unfold SM.from_entries incl
  have hall : ((List.range' 0 k).map fun i => (n - k + i, i, (one : α))).all
      (fun t => isZero t.2.2 || (decide (t.1 < n) && decide (t.2.1 < k))) = true := by
    simp [hone]; omega
  rw [if_pos hall]
  congr 3
  apply List.map_congr_left
  intro j hj
  have hj' : j < k := by simpa using hj
  simp only [List.filter_map, Function.comp_def, hone, Bool.not_false, Bool.and_true, List.map_map]
  have := filter_shift 0 j k
  simp only [Nat.zero_add, Nat.zero_le, true_and, hj', if_true, Nat.sub_zero] at this
  have e : (List.range' 0 k).filter (fun i => i == j) = [j] := by
    rw [← this]; congr 1
  rw [e]
  rfl

/-- `proj(n, k)`: `from_entries((k, n), (0..k).map(|i| (i, n - k + i, 1)))` is the model's `proj n k` -/
theorem proj_eq (hone : isZero (one : α) = false) (n k : Nat) (hk : k ≤ n) :
    SM.from_entries (k, n) ((List.range' 0 k).map fun i => (i, n - k + i, (one : α))) = ok (proj n k) := by
  unfold SM.from_entries proj
  have hall : ((List.range' 0 k).map fun i => (i, n - k + i, (one : α))).all
      (fun t => isZero t.2.2 || (decide (t.1 < k) && decide (t.2.1 < n))) = true := by
    simp [hone]; intro i hi; omega
  rw [if_pos hall]
  congr 3
  apply List.map_congr_left
  intro j hj
  have hj' : j < n := by simpa using hj
  simp only [List.filter_map, Function.comp_def, hone, Bool.not_false, Bool.and_true, List.map_map]
  have := filter_shift (n - k) j k
  have e : (List.range' 0 k).filter (fun i => n - k + i == j) = if n - k ≤ j then [j - (n - k)] else [] := by
    have e0 : (List.range' 0 k).filter (fun i => n - k + i == j) = (List.range' 0 k).filter (fun i => decide (n - k + i = j)) := by
      congr 1
    rw [e0, this]
    by_cases h2 : n - k ≤ j
    · rw [if_pos ⟨h2, by omega⟩, if_pos h2]
    · rw [if_neg (fun h => h2 h.1), if_neg h2]
  rw [e]
  split <;> rfl

theorem extendCols_shape {A B F : SpMat α} (h : extendCols A B = ok F) : F.nrows = A.nrows ∧ F.ncols = A.ncols + B.ncols := by
  unfold extendCols at h
  split at h
  · cases h
  · cases h; exact ⟨rfl, rfl⟩

theorem trnew_ok (f b : SpMat α) (h1 : f.ncols = b.nrows) (h2 : f.nrows = b.ncols) : SM.Tr.new f b = ok (f, b) := by
  unfold SM.Tr.new; rw [if_pos ⟨h1, h2⟩]

end Yuiv.C08Gen
