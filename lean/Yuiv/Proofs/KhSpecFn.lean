import Yuiv.Proofs.KhSpecDefs
/-
KhSpec (helper): loop-free form of `KhRef.khHomology` (UNBIGRADED computation) on its success path, and the
`malformed` failure path.

    theorem khHomology_unbigraded : (all `Cube.d` defined on the generators) → (`d∘d = 0` on the generators, as
        `chainSum` of the table `dTab`) →
        khHomology l signs p k false = .ok ⟨(cellsUn h0 none (homologyOf k gens (dTab c p gens))).toArray⟩
    theorem khHomology_malformed  : some `Cube.d` undefined on a generator → khHomology … = .error .malformed

Method: `khHomology` is restated (`khHomology_eqM`) as `khHomologyM` whose loop bodies are named functions (both sides
unfold to the same term once the auxiliary matchers are unfolded to `casesOn`: tactic `delta_matchers`, then `rfl`);
an early `return r` of a `for` loop is the state `(some r, …)` + `ForInStep.done`.  The hash map of the differential
is characterised by `get?` (`dmapOf_get?`), hence the table is the function `dTab` and the result does not depend on
the hash map; the `d∘d` accumulator is `C06Cycle.chainSum` (lemmas of `C06Cycle.HModel`).
-/
namespace Yuiv.KhSpec
open Yuiv Yuiv.KhRef Yuiv.KhSnf

abbrev ER := Except Failure Result
abbrev DMap := Std.HashMap Gen (Array Term)
abbrev Cells := Array (Int × Option Int × Group)

/-! ### `khHomology` with named loop bodies -/

/-- the first loop: the generators by weight -/
def gensLoop (c : Cube) : Array (Array Gen) :=
  (forIn (m := Id) [:2 ^ c.n] (Array.replicate (c.n + 1) #[]) fun s (gens : Array (Array Gen)) =>
    pure (ForInStep.yield (gens.set! (popcount s c.n) (gens[popcount s c.n]! ++ c.gensAt s)))).run

def dmapInner (c : Cube) (p : Params) (g : Gen) (st : Option ER × DMap) : Id (ForInStep (Option ER × DMap)) :=
  match c.d p g with
  | none => pure (ForInStep.done (some (Except.error Failure.malformed), st.2))
  | some ts => pure (ForInStep.yield (none, st.2.insert g ts))

def dmapOuter (c : Cube) (p : Params) (gs : Array Gen) (st : Option ER × DMap) :
    Id (ForInStep (Option ER × DMap)) := do
  let s ← forIn gs (none, st.2) (dmapInner c p)
  match s.1 with
  | some r => pure (ForInStep.done (some r, s.2))
  | none => pure (ForInStep.yield (none, s.2))

/-- the second loop: the table of the differential (and the `malformed` exit) -/
def dmapLoop (c : Cube) (p : Params) (gens : Array (Array Gen)) : Option ER × DMap :=
  (forIn (m := Id) gens (none, (∅ : DMap)) (dmapOuter c p)).run

/-- the accumulator of `d (d g)` -/
def accOf (d : Gen → Array Term) (g : Gen) : Std.HashMap Gen Int :=
  (forIn (m := Id) (d g) (∅ : Std.HashMap Gen Int) fun (x : Term) (acc : Std.HashMap Gen Int) =>
    match x with
    | (y, a) => do
      let s ← forIn (d y) acc fun (x : Term) (acc : Std.HashMap Gen Int) =>
        match x with
        | (z, b) => pure (ForInStep.yield (acc.insert z ((acc.get? z).getD 0 + a * b)))
      pure (ForInStep.yield s)).run

def ddInner (d : Gen → Array Term) (g : Gen) (_ : Option ER × Unit) : Id (ForInStep (Option ER × Unit)) :=
  if ((accOf d g).toList.any fun (x : Gen × Int) => match x with | (_, v) => v != 0) = true then
    pure (ForInStep.done (some (Except.error Failure.notComplex), ()))
  else pure (ForInStep.yield (none, ()))

def ddOuter (d : Gen → Array Term) (gs : Array Gen) (_ : Option ER × Unit) : Id (ForInStep (Option ER × Unit)) := do
  let s ← forIn gs (none, ()) (ddInner d)
  match s.1 with
  | some r => pure (ForInStep.done (some r, ()))
  | none => pure (ForInStep.yield (none, ()))

/-- the third loop: the `d∘d = 0` re-check -/
def ddLoop (gens : Array (Array Gen)) (d : Gen → Array Term) : Option ER × Unit :=
  (forIn (m := Id) gens (none, ()) (ddOuter d)).run

def cellBody (h0 : Int) (j : Option Int) (hs : Array Group) (i : Nat) (cells : Cells) : Id (ForInStep Cells) :=
  if ((hs[i]!).rank != 0 || (hs[i]!).tors.size != 0) = true then
    pure (ForInStep.yield (cells.push (h0 + (i : Int), j, hs[i]!)))
  else pure (ForInStep.yield cells)

/-- the push loop of the cells -/
def cellLoop (h0 : Int) (j : Option Int) (hs : Array Group) (cells : Cells) : Cells :=
  (forIn (m := Id) [:hs.size] cells (cellBody h0 j hs)).run

def qsInner (c : Cube) (q0 : Int) (g : Gen) (qs : Array Int) : Id (ForInStep (Array Int)) :=
  if (!qs.contains (c.qDeg q0 g)) = true then pure (ForInStep.yield (qs.push (c.qDeg q0 g)))
  else pure (ForInStep.yield qs)

def qsOuter (c : Cube) (q0 : Int) (gs : Array Gen) (qs : Array Int) : Id (ForInStep (Array Int)) := do
  let s ← forIn gs qs (qsInner c q0)
  pure (ForInStep.yield s)

/-- the collect loop of the q-degrees -/
def qsLoop (c : Cube) (q0 : Int) (gens : Array (Array Gen)) : Array Int :=
  (forIn (m := Id) gens (#[] : Array Int) (qsOuter c q0)).run

def qchkInner (c : Cube) (q0 : Int) (d : Gen → Array Term) (q : Int) (g : Gen) (_ : Option ER × Unit) :
    Id (ForInStep (Option ER × Unit)) :=
  if ((d g).any fun (x : Term) => match x with | (y, _) => c.qDeg q0 y != q) = true then
    pure (ForInStep.done (some (Except.error Failure.notComplex), ()))
  else pure (ForInStep.yield (none, ()))

def qchkOuter (c : Cube) (q0 : Int) (d : Gen → Array Term) (q : Int) (gs : Array Gen) (_ : Option ER × Unit) :
    Id (ForInStep (Option ER × Unit)) := do
  let s ← forIn gs (none, ()) (qchkInner c q0 d q)
  match s.1 with
  | some r => pure (ForInStep.done (some r, ()))
  | none => pure (ForInStep.yield (none, ()))

def qBody (c : Cube) (k : Coeff) (h0 q0 : Int) (gens : Array (Array Gen)) (d : Gen → Array Term) (q : Int)
    (st : Option ER × Cells) : Id (ForInStep (Option ER × Cells)) := do
  let gq := gens.map (fun gs => gs.filter (fun g => c.qDeg q0 g == q))
  let s ← forIn gq (none, ()) (qchkOuter c q0 d q)
  match s.1 with
  | some r => pure (ForInStep.done (some r, st.2))
  | none => pure (ForInStep.yield (none, cellLoop h0 (some q) (homologyOf k gq d) st.2))

/-- the bigraded tail -/
def tailQ (c : Cube) (k : Coeff) (h0 q0 : Int) (gens : Array (Array Gen)) (d : Gen → Array Term) : ER :=
  let s := (forIn (m := Id) ((qsLoop c q0 gens).qsort (· < ·)) (none, (#[] : Cells)) (qBody c k h0 q0 gens d)).run
  match s.1 with
  | some r => r
  | none => Except.ok ⟨s.2⟩

def khHomologyM (l : Link) (signs : Array Int) (p : Params) (k : Coeff) (bigraded : Bool) : ER :=
  let c := mkCube l p
  let gens := gensLoop c
  let s := dmapLoop c p gens
  match s.1 with
  | some r => r
  | none =>
    let d : Gen → Array Term := fun g => (s.2.get? g).getD #[]
    match (ddLoop gens d).1 with
    | some r => r
    | none =>
      if (!bigraded) = true then Except.ok ⟨cellLoop (h0Of signs) none (homologyOf k gens d) #[]⟩
      else tailQ c k (h0Of signs) (q0Of signs p) gens d

open Lean Meta Elab Tactic in
/-- unfold all matcher applications of the goal into `casesOn` (two stuck `match`es compiled into different auxiliary
matchers are not unified by `rfl` although they unfold to the same term) -/
elab "delta_matchers" : tactic => do
  let g ← getMainGoal
  let t ← instantiateMVars (← g.getType)
  let env ← getEnv
  let t' ← Meta.deltaExpand t (fun n => (Lean.Meta.getMatcherInfoCore? env n).isSome)
  let g' ← g.replaceTargetDefEq t'
  replaceMainGoal [g']

theorem khHomology_eqM (l : Link) (signs : Array Int) (p : Params) (k : Coeff) (bigraded : Bool) :
    khHomology l signs p k bigraded = khHomologyM l signs p k bigraded := by
  unfold khHomology khHomologyM tailQ qBody qchkOuter qchkInner qsLoop qsOuter qsInner cellLoop cellBody ddLoop ddOuter
    ddInner accOf dmapLoop dmapOuter dmapInner gensLoop
  delta_matchers
  rfl

/-! ### generic loops with an early-exit flag -/

/-- a loop whose rounds never exit is a fold of the state -/
theorem forIn_none_fold {α ρ σ : Type} (l : List α) (g : σ → α → σ)
    (body : α → Option ρ × σ → Id (ForInStep (Option ρ × σ)))
    (h : ∀ a ∈ l, ∀ st, body a st = pure (ForInStep.yield (none, g st.2 a))) (s : σ) :
    forIn (m := Id) l (none, s) body = pure (none, l.foldl g s) := by
  induction l generalizing s with
  | nil => rfl
  | cons a l ih =>
    rw [List.forIn_cons, h a List.mem_cons_self]
    simp only [pure_bind, List.foldl_cons]
    exact ih (fun b hb => h b (List.mem_cons_of_mem _ hb)) _

/-- every round either goes on or exits with `r`: so does the loop -/
theorem forIn_exit_dich {α ρ σ : Type} (l : List α) (r : ρ)
    (body : α → Option ρ × σ → Id (ForInStep (Option ρ × σ)))
    (hy : ∀ a ∈ l, ∀ st, (∃ s', body a st = pure (ForInStep.yield (none, s'))) ∨
      (∃ s', body a st = pure (ForInStep.done (some r, s')))) (s : σ) :
    (∃ s', forIn (m := Id) l (none, s) body = pure (none, s')) ∨
      (∃ s', forIn (m := Id) l (none, s) body = pure (some r, s')) := by
  induction l generalizing s with
  | nil => exact Or.inl ⟨s, rfl⟩
  | cons a l ih =>
    rw [List.forIn_cons]
    rcases hy a List.mem_cons_self (none, s) with ⟨s', e⟩ | ⟨s', e⟩
    · rw [e]
      simp only [pure_bind]
      exact ih (fun b hb => hy b (List.mem_cons_of_mem _ hb)) s'
    · rw [e]
      exact Or.inr ⟨s', rfl⟩

/-- … and if some round exits whatever the state, the loop exits -/
theorem forIn_exit {α ρ σ : Type} (l : List α) (r : ρ)
    (body : α → Option ρ × σ → Id (ForInStep (Option ρ × σ)))
    (hy : ∀ a ∈ l, ∀ st, (∃ s', body a st = pure (ForInStep.yield (none, s'))) ∨
      (∃ s', body a st = pure (ForInStep.done (some r, s'))))
    (hx : ∃ a ∈ l, ∀ st, ∃ s', body a st = pure (ForInStep.done (some r, s'))) (s : σ) :
    ∃ s', forIn (m := Id) l (none, s) body = pure (some r, s') := by
  induction l generalizing s with
  | nil => obtain ⟨a, ha, _⟩ := hx; cases ha
  | cons a l ih =>
    rw [List.forIn_cons]
    rcases hy a List.mem_cons_self (none, s) with ⟨s', e⟩ | ⟨s', e⟩
    · rw [e]
      simp only [pure_bind]
      refine ih (fun b hb => hy b (List.mem_cons_of_mem _ hb)) ?_ s'
      obtain ⟨b, hb, hbx⟩ := hx
      rcases List.mem_cons.mp hb with rfl | hb
      · obtain ⟨s'', e'⟩ := hbx (none, s)
        rw [e] at e'
        cases e'
      · exact ⟨b, hb, hbx⟩
    · rw [e]
      exact ⟨s', rfl⟩

/-! ### (a) the generators -/

theorem gensLoop_eq (c : Cube) : gensLoop c = gensByWeight c := by
  unfold gensLoop gensByWeight
  simp only [Std.Legacy.Range.forIn_eq_forIn_range', Std.Legacy.Range.size, Nat.sub_zero, Nat.add_sub_cancel,
    Nat.div_one]
  rw [C04Inv.id_forIn_yield (g := fun s (gens : Array (Array Gen)) =>
    gens.set! (popcount s c.n) (gens[popcount s c.n]! ++ c.gensAt s))]
  · rw [List.range_eq_range']
  · intro a b; rfl

/-! ### (b) the table of the differential -/

/-- the table as a fold (no hash-map operation other than `insert`) -/
def dmapOf (c : Cube) (p : Params) (gens : Array (Array Gen)) : DMap :=
  gens.toList.foldl (fun m gs => gs.toList.foldl (fun m g => m.insert g ((c.d p g).getD #[])) m) ∅

theorem dmapInner_some (c : Cube) (p : Params) (g : Gen) (st : Option ER × DMap) (h : (c.d p g).isSome = true) :
    dmapInner c p g st = pure (ForInStep.yield (none, st.2.insert g ((c.d p g).getD #[]))) := by
  unfold dmapInner
  cases hd : c.d p g with
  | none => rw [hd] at h; cases h
  | some ts => rfl

theorem dmapInner_none (c : Cube) (p : Params) (g : Gen) (st : Option ER × DMap) (h : c.d p g = none) :
    dmapInner c p g st = pure (ForInStep.done (some (Except.error Failure.malformed), st.2)) := by
  unfold dmapInner
  rw [h]

theorem dmapInner_dich (c : Cube) (p : Params) (g : Gen) (st : Option ER × DMap) :
    (∃ s', dmapInner c p g st = pure (ForInStep.yield (none, s'))) ∨
      (∃ s', dmapInner c p g st = pure (ForInStep.done (some (Except.error Failure.malformed), s'))) := by
  cases hd : c.d p g with
  | none => exact Or.inr ⟨_, dmapInner_none c p g st hd⟩
  | some ts => exact Or.inl ⟨_, dmapInner_some c p g st (by rw [hd]; rfl)⟩

theorem dmapOuter_ok (c : Cube) (p : Params) (gs : Array Gen) (st : Option ER × DMap)
    (h : ∀ g ∈ gs.toList, (c.d p g).isSome = true) :
    dmapOuter c p gs st =
      pure (ForInStep.yield (none, gs.toList.foldl (fun m g => m.insert g ((c.d p g).getD #[])) st.2)) := by
  unfold dmapOuter
  rw [← Array.forIn_toList, forIn_none_fold gs.toList (fun m g => m.insert g ((c.d p g).getD #[])) _
    (fun g hg st => dmapInner_some c p g st (h g hg))]
  rfl

theorem dmapOuter_dich (c : Cube) (p : Params) (gs : Array Gen) (st : Option ER × DMap) :
    (∃ s', dmapOuter c p gs st = pure (ForInStep.yield (none, s'))) ∨
      (∃ s', dmapOuter c p gs st = pure (ForInStep.done (some (Except.error Failure.malformed), s'))) := by
  unfold dmapOuter
  rw [← Array.forIn_toList]
  rcases forIn_exit_dich gs.toList (Except.error Failure.malformed) (dmapInner c p)
    (fun g _ st => dmapInner_dich c p g st) st.2 with ⟨s', e⟩ | ⟨s', e⟩
  · rw [e]; exact Or.inl ⟨s', rfl⟩
  · rw [e]; exact Or.inr ⟨s', rfl⟩

theorem dmapOuter_bad (c : Cube) (p : Params) (gs : Array Gen) (st : Option ER × DMap)
    (h : ∃ g ∈ gs.toList, c.d p g = none) :
    ∃ s', dmapOuter c p gs st = pure (ForInStep.done (some (Except.error Failure.malformed), s')) := by
  unfold dmapOuter
  rw [← Array.forIn_toList]
  obtain ⟨g, hg, hd⟩ := h
  obtain ⟨s', e⟩ := forIn_exit gs.toList (Except.error Failure.malformed) (dmapInner c p)
    (fun g _ st => dmapInner_dich c p g st) ⟨g, hg, fun st => ⟨_, dmapInner_none c p g st hd⟩⟩ st.2
  rw [e]; exact ⟨s', rfl⟩

theorem dmapLoop_ok (c : Cube) (p : Params) (gens : Array (Array Gen))
    (h : ∀ gs ∈ gens.toList, ∀ g ∈ gs.toList, (c.d p g).isSome = true) :
    dmapLoop c p gens = (none, dmapOf c p gens) := by
  unfold dmapLoop dmapOf
  rw [← Array.forIn_toList, forIn_none_fold gens.toList
    (fun m gs => gs.toList.foldl (fun m g => m.insert g ((c.d p g).getD #[])) m) _
    (fun gs hgs st => dmapOuter_ok c p gs st (h gs hgs))]
  rfl

theorem dmapLoop_bad (c : Cube) (p : Params) (gens : Array (Array Gen))
    (h : ∃ gs ∈ gens.toList, ∃ g ∈ gs.toList, c.d p g = none) :
    (dmapLoop c p gens).1 = some (Except.error Failure.malformed) := by
  unfold dmapLoop
  rw [← Array.forIn_toList]
  obtain ⟨gs, hgs, hg⟩ := h
  obtain ⟨s', e⟩ := forIn_exit gens.toList (Except.error Failure.malformed) (dmapOuter c p)
    (fun gs _ st => dmapOuter_dich c p gs st) ⟨gs, hgs, fun st => dmapOuter_bad c p gs st hg⟩ (∅ : DMap)
  rw [e]; rfl

theorem fold_insert_get? (f : Gen → Array Term) (l : List Gen) (m : DMap) (x : Gen) :
    (l.foldl (fun m g => m.insert g (f g)) m).get? x = if l.contains x then some (f x) else m.get? x := by
  induction l generalizing m with
  | nil => rfl
  | cons a l ih =>
    rw [List.foldl_cons, ih, Std.HashMap.get?_insert, List.contains_cons]
    cases h1 : l.contains x
    · by_cases h2 : (a == x) = true
      · have e : a = x := eq_of_beq h2
        subst e
        simp only [beq_self_eq_true, Bool.or_false, if_true, Bool.false_eq_true, if_false]
      · have h3 : (x == a) = false := by
          rw [Bool.eq_false_iff]; intro h; exact h2 (by rw [beq_iff_eq] at h ⊢; exact h.symm)
        simp only [h2, h3, Bool.or_false, Bool.false_eq_true, if_false]
    · simp only [Bool.or_true, if_true]

theorem fold2_insert_get? (f : Gen → Array Term) (ls : List (Array Gen)) (m : DMap) (x : Gen) :
    (ls.foldl (fun m gs => gs.toList.foldl (fun m g => m.insert g (f g)) m) m).get? x =
      if ls.any (fun gs => gs.contains x) then some (f x) else m.get? x := by
  induction ls generalizing m with
  | nil => rfl
  | cons gs ls ih =>
    have e : gs.toList.contains x = gs.contains x := by simp
    rw [List.foldl_cons, ih, fold_insert_get?, List.any_cons, e]
    cases h1 : (ls.any fun gs => gs.contains x) <;> cases h2 : gs.contains x <;> simp

/-- the table of `khHomology`, read with `get?`, does not depend on the hash map -/
theorem dmapOf_get? (c : Cube) (p : Params) (gens : Array (Array Gen)) (g : Gen) :
    (dmapOf c p gens).get? g = if inGens gens g then some ((c.d p g).getD #[]) else none := by
  unfold dmapOf inGens
  rw [fold2_insert_get? (fun g => (c.d p g).getD #[])]
  have e : (gens.toList.any fun gs => gs.contains g) = gens.any fun gs => gs.contains g := by simp
  rw [e]
  simp

theorem dmapOf_dTab (c : Cube) (p : Params) (gens : Array (Array Gen)) :
    (fun g => ((dmapOf c p gens).get? g).getD #[]) = dTab c p gens := by
  funext g
  rw [dmapOf_get?]
  unfold dTab
  split <;> rfl

/-! ### (c) the re-check of `d∘d = 0` -/

theorem accOf_eq (d : Gen → Array Term) (g : Gen) :
    accOf d g = (d g).toList.foldl (fun acc (x : Term) => (d x.1).toList.foldl (C06Cycle.HModel.ins x.2) acc) ∅ := by
  unfold accOf
  rw [← Array.forIn_toList, C04Inv.id_forIn_yield (g := fun (x : Term) (acc : Std.HashMap Gen Int) =>
    (d x.1).toList.foldl (C06Cycle.HModel.ins x.2) acc)]
  intro x acc
  obtain ⟨y, a⟩ := x
  show (forIn (d y) acc _ >>= _) = _
  rw [← Array.forIn_toList]
  have := C04Inv.id_forIn_yield (d y).toList acc (fun (x : Term) (acc : Std.HashMap Gen Int) => C06Cycle.HModel.ins a acc x)
    (fun (x : Term) (acc : Std.HashMap Gen Int) =>
      match x with
      | (z, b) => pure (ForInStep.yield (acc.insert z ((acc.get? z).getD 0 + a * b))))
    (by
      intro x acc
      obtain ⟨z, b⟩ := x
      show pure (ForInStep.yield (acc.insert z ((acc.get? z).getD 0 + a * b))) =
        pure (ForInStep.yield (acc.insert z (acc.getD z 0 + a * b)))
      rw [Std.HashMap.get?_eq_getElem?, Std.HashMap.getD_eq_getD_getElem?])
  change forIn (m := Id) (d y).toList acc _ = _ at this
  rw [this]
  rfl

theorem acc_fold (D : Gen → List Term) (ts : List Term) (acc : Std.HashMap Gen Int) (z : Gen) :
    (ts.foldl (fun acc (x : Term) => (D x.1).foldl (C06Cycle.HModel.ins x.2) acc) acc).getD z 0 =
      acc.getD z 0 + C06Cycle.chainSum D ts z := by
  induction ts generalizing acc with
  | nil => simp [C06Cycle.chainSum]
  | cons t ts ih =>
    rw [List.foldl_cons, ih, C06Cycle.HModel.ins_fold, C06Cycle.HModel.chainSum_cons, Int.add_assoc]

/-- the accumulator of `khHomology` holds the coefficients of `d (d g)` -/
theorem accOf_getD (d : Gen → Array Term) (g z : Gen) :
    (accOf d g).getD z 0 = C06Cycle.chainSum (fun y => (d y).toList) (d g).toList z := by
  rw [accOf_eq, acc_fold (fun y => (d y).toList), Std.HashMap.getD_empty, Int.zero_add]

theorem any_ne_zero_false (acc : Std.HashMap Gen Int) (h : ∀ y, acc.getD y 0 = 0) :
    (acc.toList.any fun (x : Gen × Int) => match x with | (_, v) => v != 0) = false := by
  rw [List.any_eq_false]
  intro kv hm
  obtain ⟨k, v⟩ := kv
  have hk := Std.HashMap.mem_toList_iff_getElem?_eq_some.mp hm
  have := h k
  rw [Std.HashMap.getD_eq_getD_getElem?, hk] at this
  simpa using this

theorem ddInner_ok (d : Gen → Array Term) (g : Gen) (st : Option ER × Unit)
    (h : ∀ z, C06Cycle.chainSum (fun y => (d y).toList) (d g).toList z = 0) :
    ddInner d g st = pure (ForInStep.yield (none, ())) := by
  unfold ddInner
  rw [any_ne_zero_false _ (fun z => by rw [accOf_getD]; exact h z)]
  rfl

theorem ddOuter_ok (d : Gen → Array Term) (gs : Array Gen) (st : Option ER × Unit)
    (h : ∀ g ∈ gs.toList, ∀ z, C06Cycle.chainSum (fun y => (d y).toList) (d g).toList z = 0) :
    ddOuter d gs st = pure (ForInStep.yield (none, ())) := by
  unfold ddOuter
  rw [← Array.forIn_toList, forIn_none_fold gs.toList (fun _ _ => ()) _ (fun g hg st => ddInner_ok d g st (h g hg))]
  rfl

theorem ddLoop_ok (gens : Array (Array Gen)) (d : Gen → Array Term)
    (h : ∀ gs ∈ gens.toList, ∀ g ∈ gs.toList, ∀ z,
      C06Cycle.chainSum (fun y => (d y).toList) (d g).toList z = 0) :
    ddLoop gens d = (none, ()) := by
  unfold ddLoop
  rw [← Array.forIn_toList, forIn_none_fold gens.toList (fun _ _ => ()) _
    (fun gs hgs st => ddOuter_ok d gs st (h gs hgs))]
  rfl

/-! ### (d) the cells -/

theorem cell_loop (h0 : Int) (j : Option Int) (hs : Array Group) (xs : List Nat) (cells : Cells) :
    forIn (m := Id) xs cells (cellBody h0 j hs) = pure (cells ++ (xs.filterMap (fun (i : Nat) =>
      if (hs[i]!).rank != 0 || (hs[i]!).tors.size != 0 then some (h0 + (i : Int), j, hs[i]!) else none)).toArray) := by
  induction xs generalizing cells with
  | nil => simp
  | cons x xs ih =>
    rw [List.forIn_cons]
    by_cases h : ((hs[x]!).rank != 0 || (hs[x]!).tors.size != 0) = true
    · have hb : cellBody h0 j hs x cells = pure (ForInStep.yield (cells.push (h0 + (x : Int), j, hs[x]!))) := by
        unfold cellBody; simp only [h, if_true]
      rw [hb]
      simp only [pure_bind]
      rw [ih, List.filterMap_cons]
      simp only [h, if_true]
      simp
    · have hb : cellBody h0 j hs x cells = pure (ForInStep.yield cells) := by
        unfold cellBody; simp only [h]; rfl
      rw [hb]
      simp only [pure_bind]
      rw [ih, List.filterMap_cons]
      simp only [h]
      rfl

theorem cellLoop_eq (h0 : Int) (j : Option Int) (hs : Array Group) (cells : Cells) :
    cellLoop h0 j hs cells = cells ++ (cellsUn h0 j hs).toArray := by
  unfold cellLoop cellsUn
  simp only [Std.Legacy.Range.forIn_eq_forIn_range', Std.Legacy.Range.size, Nat.sub_zero, Nat.add_sub_cancel,
    Nat.div_one]
  rw [cell_loop, List.range_eq_range']
  rfl

/-! ### the unbigraded computation -/

/-- the common part of both gradings: on the success path the table is `dTab` and the re-check passes -/
theorem khHomologyM_ok (l : Link) (signs : Array Int) (p : Params) (k : Coeff) (bigraded : Bool)
    (hdef : ∀ gs ∈ (gensByWeight (mkCube l p)).toList, ∀ g ∈ gs.toList, ((mkCube l p).d p g).isSome = true)
    (hdd : ∀ gs ∈ (gensByWeight (mkCube l p)).toList, ∀ g ∈ gs.toList, ∀ z,
      C06Cycle.chainSum (fun y => (dTab (mkCube l p) p (gensByWeight (mkCube l p)) y).toList)
        (dTab (mkCube l p) p (gensByWeight (mkCube l p)) g).toList z = 0) :
    khHomology l signs p k bigraded =
      if (!bigraded) = true then
        Except.ok ⟨cellLoop (h0Of signs) none
          (homologyOf k (gensByWeight (mkCube l p)) (dTab (mkCube l p) p (gensByWeight (mkCube l p)))) #[]⟩
      else tailQ (mkCube l p) k (h0Of signs) (q0Of signs p) (gensByWeight (mkCube l p))
        (dTab (mkCube l p) p (gensByWeight (mkCube l p))) := by
  rw [khHomology_eqM]
  unfold khHomologyM
  simp only [gensLoop_eq, dmapLoop_ok _ _ _ hdef, dmapOf_dTab, ddLoop_ok _ _ hdd]

/-- the table of `khHomology` really is `dTab`: on the generators the stored value, `#[]` elsewhere; in particular the
result does not depend on the hash map -/
theorem khHomology_unbigraded (l : Link) (signs : Array Int) (p : Params) (k : Coeff)
    (hdef : ∀ gs ∈ (gensByWeight (mkCube l p)).toList, ∀ g ∈ gs.toList, ((mkCube l p).d p g).isSome = true)
    (hdd : ∀ gs ∈ (gensByWeight (mkCube l p)).toList, ∀ g ∈ gs.toList, ∀ z,
      C06Cycle.chainSum (fun y => (dTab (mkCube l p) p (gensByWeight (mkCube l p)) y).toList)
        (dTab (mkCube l p) p (gensByWeight (mkCube l p)) g).toList z = 0) :
    khHomology l signs p k false =
      .ok ⟨(cellsUn (h0Of signs) none
        (homologyOf k (gensByWeight (mkCube l p)) (dTab (mkCube l p) p (gensByWeight (mkCube l p))))).toArray⟩ := by
  rw [khHomologyM_ok l signs p k false hdef hdd, cellLoop_eq]
  simp

/-- the failure paths, for completeness -/
theorem khHomology_malformed (l : Link) (signs : Array Int) (p : Params) (k : Coeff) (b : Bool)
    (h : ∃ gs ∈ (gensByWeight (mkCube l p)).toList, ∃ g ∈ gs.toList, (mkCube l p).d p g = none) :
    khHomology l signs p k b = .error .malformed := by
  rw [khHomology_eqM]
  unfold khHomologyM
  simp only [gensLoop_eq, dmapLoop_bad _ _ _ h]

end Yuiv.KhSpec
