import Yuiv.Proofs.C10GS
/-
C10 — COMPLETENESS of the verified checker `isLLLReduced` (helper lemmas; no property theorem here): the (untrusted)
`gramSchmidt` of the model does compute THE Gram–Schmidt decomposition of independent rows, hence the checker accepts
every basis that satisfies its spec `IsLLLReduced`.  Together with `isLLLReduced_sound`: the checker DECIDES the spec.
-/
namespace Yuiv.C10
open Yuiv Res Finset

theorem entQ_push_lt (A : QMat) (row : Array Rat) (r c : Nat) (h : r < A.size) :
    entQ (A.push row) r c = entQ A r c := by
  unfold entQ
  have : (A.push row).getD r #[] = A.getD r #[] := by
    rw [Array.getD_eq_getD_getElem?, Array.getD_eq_getD_getElem?, Array.getElem?_push_lt h]
    simp [h]
  rw [this]

theorem entQ_push_eq (A : QMat) (row : Array Rat) (c : Nat) :
    entQ (A.push row) A.size c = row.getD c 0 := by
  unfold entQ
  have : (A.push row).getD A.size #[] = row := by
    rw [Array.getD_eq_getD_getElem?]
    simp
  rw [this]

theorem getD_ofFn_rat (k : Nat) (f : Fin k → Rat) (c : Nat) (h : c < k) :
    (Array.ofFn f).getD c 0 = f ⟨c, h⟩ := by
  rw [Array.getD_eq_getD_getElem?]
  simp [h]

/-- one step of `gramSchmidt` -/
def gsStep (n : Nat) (B : Mat) (acc : QMat × QMat) (i : Nat) : QMat × QMat :=
  match acc with
  | (bs, mu) =>
    let mui : Array Rat := Array.ofFn (n := i) fun j =>
      (sumLtQ n fun c => (ent B i c : Rat) * entQ bs j c) / (sumLtQ n fun c => entQ bs j c * entQ bs j c)
    let bsi : Array Rat := Array.ofFn (n := n) fun c =>
      (ent B i c : Rat) - sumLtQ i fun j => mui.getD j 0 * entQ bs j c
    (bs.push bsi, mu.push mui)

theorem gramSchmidt_eq (m n : Nat) (B : Mat) : gramSchmidt m n B = (List.range m).foldl (gsStep n B) (#[], #[]) := rfl

/-- on independent rows `gramSchmidt` returns the Gram–Schmidt decomposition (on the index range) -/
theorem gramSchmidt_spec (m n : Nat) (B : Mat) (bs' mu' : Nat → Nat → ℚ) (h : IsGS m n (ent B) bs' mu') :
    (∀ i < m, ∀ c < n, entQ (gramSchmidt m n B).1 i c = bs' i c) ∧
    (∀ i < m, ∀ j < i, entQ (gramSchmidt m n B).2 i j = mu' i j) := by
  rw [gramSchmidt_eq]
  have key : ∀ k ≤ m, ((List.range k).foldl (gsStep n B) (#[], #[])).1.size = k ∧
      ((List.range k).foldl (gsStep n B) (#[], #[])).2.size = k ∧
      (∀ r < k, ∀ c < n, entQ ((List.range k).foldl (gsStep n B) (#[], #[])).1 r c = bs' r c) ∧
      (∀ r < k, ∀ j < r, entQ ((List.range k).foldl (gsStep n B) (#[], #[])).2 r j = mu' r j) := by
    intro k
    induction k with
    | zero =>
      intro _
      exact ⟨rfl, rfl, fun r hr => absurd hr (Nat.not_lt_zero r), fun r hr => absurd hr (Nat.not_lt_zero r)⟩
    | succ i ih =>
      intro hi
      obtain ⟨s1, s2, e1, e2⟩ := ih (by omega)
      rw [List.range_succ, List.foldl_append]
      generalize (List.range i).foldl (gsStep n B) (#[], #[]) = acc at s1 s2 e1 e2
      obtain ⟨bs, mu⟩ := acc
      simp only at s1 s2 e1 e2
      have him : i < m := by omega
      -- the new `μ` row
      have hmu : ∀ j (hj : j < i),
          (sumLtQ n fun c => (ent B i c : Rat) * entQ bs j c) / (sumLtQ n fun c => entQ bs j c * entQ bs j c)
            = mu' i j := by
        intro j hj
        rw [sumLtQ_eq, sumLtQ_eq]
        have a1 : ∑ c ∈ range n, (ent B i c : ℚ) * entQ bs j c = ∑ c ∈ range n, (ent B i c : ℚ) * bs' j c :=
          Finset.sum_congr rfl (fun c hc => by rw [e1 j hj c (mem_range.mp hc)])
        have a2 : ∑ c ∈ range n, entQ bs j c * entQ bs j c = ∑ c ∈ range n, bs' j c * bs' j c :=
          Finset.sum_congr rfl (fun c hc => by rw [e1 j hj c (mem_range.mp hc)])
        rw [a1, a2, h.inner_eq him hj]
        exact mul_div_cancel_right₀ _ (ne_of_gt (h.pos j (by omega)))
      show ((bs.push _).size = i + 1) ∧ ((mu.push _).size = i + 1) ∧ _ ∧ _
      refine ⟨by rw [Array.size_push, s1], by rw [Array.size_push, s2], ?_, ?_⟩
      · intro r hr c hc
        show entQ (bs.push _) r c = _
        rcases Nat.lt_or_ge r i with hlt | hge
        · rw [entQ_push_lt _ _ _ _ (by omega)]; exact e1 r hlt c hc
        · have hri : r = i := by omega
          subst hri
          have hpe := entQ_push_eq bs (Array.ofFn (n := n) fun c : Fin n =>
            (ent B r c : Rat) - sumLtQ r fun j => (Array.ofFn (n := r) fun j : Fin r =>
              (sumLtQ n fun c => (ent B r c : Rat) * entQ bs j c)
                / (sumLtQ n fun c => entQ bs j c * entQ bs j c)).getD j 0 * entQ bs j c) c
          rw [s1] at hpe
          rw [hpe, getD_ofFn_rat n _ c hc, sumLtQ_eq]
          have a3 : ∑ j ∈ range r, (Array.ofFn (n := r) fun j : Fin r =>
              (sumLtQ n fun c => (ent B r c : Rat) * entQ bs j c)
                / (sumLtQ n fun c => entQ bs j c * entQ bs j c)).getD j 0 * entQ bs j c
              = ∑ j ∈ range r, mu' r j * bs' j c := by
            refine Finset.sum_congr rfl (fun j hj => ?_)
            have hj' := mem_range.mp hj
            rw [getD_ofFn_rat r _ j hj', hmu j hj', e1 j hj' c hc]
          rw [a3, h.decomp r him c hc]
          ring
      · intro r hr j hj
        show entQ (mu.push _) r j = _
        rcases Nat.lt_or_ge r i with hlt | hge
        · rw [entQ_push_lt _ _ _ _ (by omega)]; exact e2 r hlt j hj
        · have hri : r = i := by omega
          subst hri
          have hpe := entQ_push_eq mu (Array.ofFn (n := r) fun j : Fin r =>
              (sumLtQ n fun c => (ent B r c : Rat) * entQ bs j c)
                / (sumLtQ n fun c => entQ bs j c * entQ bs j c)) j
          rw [s2] at hpe
          rw [hpe, getD_ofFn_rat r _ j hj]
          exact hmu j hj
  obtain ⟨_, _, e1, e2⟩ := key m (le_refl m)
  exact ⟨e1, e2⟩

/-- `reducedWith` accepts a correct certificate -/
theorem reducedWith_complete (m n : Nat) (B : Mat) (p q : Int) (bs mu : QMat)
    (hGS : IsGS m n (ent B) (entQ bs) (entQ mu))
    (hsz : ∀ i < m, ∀ j < i, |entQ mu i j| ≤ 1 / 2)
    (hlov : ∀ k, 0 < k → k < m →
      ((p : ℚ) / (q : ℚ) - entQ mu k (k - 1) ^ 2) * (∑ c ∈ range n, entQ bs (k - 1) c * entQ bs (k - 1) c)
        ≤ ∑ c ∈ range n, entQ bs k c * entQ bs k c) :
    reducedWith m n B p q bs mu = true := by
  simp only [reducedWith, allLt_iff, Bool.and_eq_true, Bool.or_eq_true, decide_eq_true_eq, beq_iff_eq,
    sumLtQ_eq]
  refine ⟨⟨⟨⟨hGS.decomp, hGS.orth⟩, hGS.pos⟩, fun i hi j hj => abs_le.mp (hsz i hi j hj)⟩, ?_⟩
  intro k hk
  rcases Nat.eq_zero_or_pos k with h0 | h0
  · exact Or.inl h0
  · refine Or.inr ?_
    have := hlov k h0 hk
    rw [pow_two] at this
    exact this

/-- COMPLETENESS of the checker: every LLL-reduced basis (spec `IsLLLReduced`) is accepted -/
theorem isLLLReduced_complete (m n : Nat) (B : Mat) (p q : Int) (h : IsLLLReduced m n (ent B) ((p : ℚ) / (q : ℚ))) :
    isLLLReduced m n B p q = true := by
  obtain ⟨bs', mu', hGS, hsz, hlov⟩ := h
  obtain ⟨e1, e2⟩ := gramSchmidt_spec m n B bs' mu' hGS
  unfold isLLLReduced
  simp only
  have hn : ∀ i < m, ∑ c ∈ range n, entQ (gramSchmidt m n B).1 i c * entQ (gramSchmidt m n B).1 i c
      = ∑ c ∈ range n, bs' i c * bs' i c :=
    fun i hi => Finset.sum_congr rfl (fun c hc => by rw [e1 i hi c (mem_range.mp hc)])
  apply reducedWith_complete
  · refine ⟨?_, ?_, ?_⟩
    · intro i hi c hc
      rw [e1 i hi c hc, hGS.decomp i hi c hc]
      congr 1
      refine Finset.sum_congr rfl (fun j hj => ?_)
      have hj' := mem_range.mp hj
      rw [e2 i hi j hj', e1 j (by omega) c hc]
    · intro i hi j hj
      rw [← hGS.orth i hi j hj]
      refine Finset.sum_congr rfl (fun c hc => ?_)
      rw [e1 i hi c (mem_range.mp hc), e1 j (by omega) c (mem_range.mp hc)]
    · intro i hi
      rw [hn i hi]
      exact hGS.pos i hi
  · intro i hi j hj
    rw [e2 i hi j hj]
    exact hsz i hi j hj
  · intro k hk0 hk
    rw [hn k hk, hn (k - 1) (by omega), e2 k hk (k - 1) (by omega)]
    exact hlov k hk0 hk

end Yuiv.C10
