import Yuiv.Proofs.C04InvUF
import Yuiv.Proofs.C04
/-
C04Inv (helper, no property theorem here): invariance of the Jones state sum of the model under ANY permutation
of the crossing list.  The sum over states `s < 2^n` (bit `k` of `s` resolves the `k`-th unresolved crossing) is
rewritten as a skein-style recursion `skein` over the crossing LIST (`stateSum_eq_skein`); the recursion only
depends on the multiset of crossings (`skein_perm`, by induction on `List.Perm`) because the class count only
depends on the SET of joined label pairs (`skein_congr`).  Works in every commutative ring, for arbitrary ring
elements `x` (in place of `−q`) and `y` (in place of `q + q⁻¹`).
-/
open Yuiv.KhRef Yuiv.C04
namespace Yuiv.C04Inv

variable {R : Type} [CommRing R]

/-- number of unresolved crossings of a crossing list -/
def nUnres : List Crossing → Nat
  | [] => 0
  | c :: cs => if c.ct.isResolved then nUnres cs else nUnres cs + 1

theorem crossingNum_eq (l : Link) : crossingNum l = nUnres l.toList := by
  unfold crossingNum
  rw [← Array.length_toList, Array.toList_filter]
  induction l.toList with
  | nil => rfl
  | cons c cs ih =>
    unfold nUnres
    by_cases h : c.ct.isResolved <;> simp [h, ih]

/-- the state sum by recursion over the crossing list (Kauffman-bracket style skein expansion):
`w` = number of 1-resolutions chosen so far, `P` = label pairs joined so far -/
noncomputable def skein (L : Set Nat) (x y : R) : List Crossing → Nat → List (Nat × Nat) → R
  | [], w, P => x ^ w * y ^ classCount L P
  | c :: cs, w, P =>
    if c.ct.isResolved then skein L x y cs w (P ++ arcs c c.ct)
    else skein L x y cs w (P ++ arcs c (c.ct.resolve false)) + skein L x y cs (w + 1) (P ++ arcs c (c.ct.resolve true))

theorem sum_range_double (N : Nat) (g : Nat → R) :
    ∑ s ∈ Finset.range (2 * N), g s = ∑ t ∈ Finset.range N, (g (2 * t) + g (2 * t + 1)) := by
  induction N with
  | zero => simp
  | succ N ih =>
    rw [show 2 * (N + 1) = 2 * N + 1 + 1 by ring, Finset.sum_range_succ, Finset.sum_range_succ, ih,
      Finset.sum_range_succ]
    ring

theorem popcount_succ' (s n : Nat) :
    popcount s (n + 1) = (if s.testBit 0 then 1 else 0) + popcount (s / 2) n := by
  unfold popcount
  rw [List.range_succ_eq_map, List.filter_cons, List.filter_map]
  have : ((fun i => s.testBit i) ∘ Nat.succ) = fun i => (s / 2).testBit i := by
    funext i; simp [Nat.testBit_succ]
  rw [this]
  split
  · simp; omega
  · simp

theorem stateSum_eq_skein (L : Set Nat) (x y : R) (cs : List Crossing) (w : Nat) (P : List (Nat × Nat)) :
    ∑ s ∈ Finset.range (2 ^ nUnres cs),
        x ^ (w + popcount s (nUnres cs)) * y ^ classCount L (P ++ pairsL cs (resTypes cs s))
      = skein L x y cs w P := by
  induction cs generalizing w P with
  | nil => simp [nUnres, skein, pairsL, popcount_zero_bits]
  | cons c cs ih =>
    by_cases h : c.ct.isResolved
    · simp only [nUnres, skein, h, if_true, resTypes, pairsL]
      rw [← ih]
      simp only [List.append_assoc]
    · have h' : c.ct.isResolved = false := by simpa using h
      simp only [nUnres, skein, h', resTypes, pairsL, Bool.false_eq_true, if_false]
      rw [pow_succ, Nat.mul_comm, sum_range_double, ← ih, ← ih, ← Finset.sum_add_distrib]
      apply Finset.sum_congr rfl
      intro t _
      rw [popcount_succ', popcount_succ']
      have e0 : (2 * t).testBit 0 = false := by simp [Nat.testBit_zero]
      have e1 : (2 * t + 1).testBit 0 = true := by simp [Nat.testBit_zero]
      have d0 : 2 * t / 2 = t := by omega
      have d1 : (2 * t + 1) / 2 = t := by omega
      simp only [e0, e1, d0, d1, List.append_assoc, if_true]
      simp [Nat.add_assoc]



theorem skein_congr (L : Set Nat) (x y : R) (cs : List Crossing) (w : Nat) {P P' : List (Nat × Nat)}
    (h : ∀ p, p ∈ P ↔ p ∈ P') : skein L x y cs w P = skein L x y cs w P' := by
  induction cs generalizing w P P' with
  | nil => simp only [skein]; rw [classCount_congr rfl h]
  | cons c cs ih =>
    have hA : ∀ A : List (Nat × Nat), ∀ p, p ∈ P ++ A ↔ p ∈ P' ++ A := by
      intro A p; simp [List.mem_append, h p]
    simp only [skein]
    rw [ih w (hA _), ih w (hA _), ih (w + 1) (hA _)]

theorem skein_perm (L : Set Nat) (x y : R) {cs cs' : List Crossing} (hp : cs.Perm cs') (w : Nat)
    (P : List (Nat × Nat)) : skein L x y cs w P = skein L x y cs' w P := by
  induction hp generalizing w P with
  | nil => rfl
  | cons c _ ih => simp only [skein, ih]
  | swap c1 c2 cs =>
    have hsw : ∀ A B : List (Nat × Nat), ∀ p, p ∈ (P ++ A) ++ B ↔ p ∈ (P ++ B) ++ A := by
      intro A B p; simp only [List.mem_append]; tauto
    simp only [skein]
    cases h1 : c1.ct.isResolved <;> cases h2 : c2.ct.isResolved <;>
      simp only [Bool.false_eq_true, if_true, if_false]
    · rw [skein_congr L x y cs w (hsw (arcs c2 (c2.ct.resolve false)) (arcs c1 (c1.ct.resolve false))),
        skein_congr L x y cs (w + 1) (hsw (arcs c2 (c2.ct.resolve false)) (arcs c1 (c1.ct.resolve true))),
        skein_congr L x y cs (w + 1) (hsw (arcs c2 (c2.ct.resolve true)) (arcs c1 (c1.ct.resolve false))),
        skein_congr L x y cs (w + 1 + 1) (hsw (arcs c2 (c2.ct.resolve true)) (arcs c1 (c1.ct.resolve true)))]
      ring
    · rw [skein_congr L x y cs w (hsw _ _), skein_congr L x y cs (w + 1) (hsw _ _)]
    · rw [skein_congr L x y cs w (hsw _ _), skein_congr L x y cs (w + 1) (hsw _ _)]
    · exact skein_congr L x y cs w (hsw _ _)
  | trans _ _ ih1 ih2 => rw [ih1, ih2]

theorem labelSet_perm {l l' : Link} (hp : l'.toList.Perm l.toList) : labelSet l' = labelSet l := by
  ext x
  simp only [labelSet, Set.mem_ofPred_eq]
  constructor
  · rintro ⟨c, hc, hx⟩; exact ⟨c, by simpa using hp.mem_iff.mp (by simpa using hc), hx⟩
  · rintro ⟨c, hc, hx⟩; exact ⟨c, by simpa using hp.mem_iff.mpr (by simpa using hc), hx⟩

theorem WF_perm {l l' : Link} (hp : l'.toList.Perm l.toList) (h : WF l) : WF l' := by
  intro c hc
  exact h c (by simpa using hp.mem_iff.mp (by simpa using hc))

/-- the state sum of the model equals the skein expansion over the crossing list -/
theorem stateSum_link (x y : R) (l : Link) (hwf : WF l) :
    sumRange (2 ^ crossingNum l) (fun s => npow x (popcount s (crossingNum l)) * npow y (circleCount l s))
      = skein (labelSet l) x y l.toList 0 [] := by
  rw [sumRange_eq, ← stateSum_eq_skein, crossingNum_eq]
  apply Finset.sum_congr rfl
  intro s _
  rw [npow_eq, npow_eq, (circleCount_eq l hwf s).1]
  simp [statePairs]

theorem stateSum_perm (x y : R) {l l' : Link} (hwf : WF l) (hp : l'.toList.Perm l.toList) :
    sumRange (2 ^ crossingNum l') (fun s => npow x (popcount s (crossingNum l')) * npow y (circleCount l' s))
      = sumRange (2 ^ crossingNum l) (fun s => npow x (popcount s (crossingNum l)) * npow y (circleCount l s)) := by
  rw [stateSum_link x y l hwf, stateSum_link x y l' (WF_perm hp hwf), labelSet_perm hp]
  exact skein_perm _ x y hp 0 []

theorem nUnres_perm {cs cs' : List Crossing} (hp : cs.Perm cs') : nUnres cs = nUnres cs' := by
  induction hp with
  | nil => rfl
  | cons c _ ih => simp only [nUnres, ih]
  | swap c1 c2 cs => simp only [nUnres]; split <;> split <;> rfl
  | trans _ _ ih1 ih2 => rw [ih1, ih2]

theorem crossingNum_perm {l l' : Link} (hp : l'.toList.Perm l.toList) : crossingNum l' = crossingNum l := by
  rw [crossingNum_eq, crossingNum_eq, nUnres_perm hp]

end Yuiv.C04Inv
