import Yuiv.Proofs.C18InvDefs
import Yuiv.Proofs.C18Resolve
/-
C18Inv — the orientation theorem for the model of `Link::crossing_signs`.

For every valid code that admits an orientation consistent with its under-strands, `crossingSigns` returns,
and what it returns are the signs (Rust table at the slot where the over-strand enters) of an orientation
consistent with the under-strands.

Proof: ghost state `V` = list of slots visited by the walks so far.  Invariant `J`: `V` is a union of complete
`step`-orbits (closed under `step` and under `step`-preimages), never contains both ends of an edge, `passed`
is the set of labels of `V`, and the sign array holds, for every crossing, the table entry at the visited
over-strand slot (`sgnV`).
-/
namespace Yuiv.C18
open Yuiv

/-- the sign array entry determined by the visited slots -/
def sgnV (l : Link) (V : List (Nat × Nat)) (i : Nat) : Option Sign :=
  if (i, 1) ∈ V then signAt (ctypeAt l i) 1 else if (i, 3) ∈ V then signAt (ctypeAt l i) 3 else none

structure J (l : Link) (st : List (Option Sign) × List Nat) (V : List (Nat × Nat)) : Prop where
  len : st.1.length = l.length
  he : ∀ h ∈ V, HE l h
  fwd : ∀ h ∈ V, step l h ∈ V
  bwd : ∀ h ∈ V, ∃ y ∈ V, step l y = h
  passed : ∀ e, e ∈ st.2 ↔ ∃ h ∈ V, lab l h = e
  nopart : ∀ h ∈ V, partner l h ∉ V
  sg : ∀ i, i < l.length → st.1.getD i none = sgnV l V i

theorem J_init (l : Link) : J l (List.replicate l.length none, []) [] where
  len := List.length_replicate
  he := by intro h hh; cases hh
  fwd := by intro h hh; cases hh
  bwd := by intro h hh; cases hh
  passed := by intro e; simp
  nopart := by intro h hh; cases hh
  sg := by
    intro i hi
    simp [sgnV, List.getD_eq_getElem?_getD, hi]

/-! ### table facts -/

theorem signAt_some_slot : ∀ t : CType, ∀ j, j < 4 → ∀ s, signAt t j = some s →
    t.isResolved = false ∧ (j = 1 ∨ j = 3) ∧ t.pass 1 = 3 ∧ t.pass 3 = 1 := by decide

theorem signAt_resolved : ∀ t : CType, t.isResolved = true → ∀ j, j < 4 → signAt t j = none := by decide

theorem signAt_unresolved : ∀ t : CType, t.isResolved = false →
    (signAt t 1).isSome = true ∧ (signAt t 3).isSome = true ∧ t.pass 1 = 3 ∧ t.pass 3 = 1 := by decide

/-! ### consequences of the invariant -/

theorem partner_step (l : Link) (hv : Valid l) (h : Nat × Nat) (hh : HE l h) :
    partner l (step l h) = thru l h := thru_partner_step l hv h hh

theorem step_thru (l : Link) (hv : Valid l) (h : Nat × Nat) (hh : HE l h) :
    step l (thru l h) = partner l h := by
  rw [step_eq l hv _ (thru_spec l h hh).1, (thru_spec l h hh).2.2]

/-- a visited slot's strand-partner through the crossing is not visited -/
theorem J.nothru {l : Link} {st V} (hJ : J l st V) (hv : Valid l) (h : Nat × Nat) (hh : h ∈ V) :
    thru l h ∉ V := by
  have h1 := hJ.fwd h hh
  have h2 := hJ.nopart _ h1
  rw [partner_step l hv h (hJ.he h hh)] at h2
  exact h2

/-- if the other end of the edge is visited, the other end of the strand is visited -/
theorem J.thru_of_partner {l : Link} {st V} (hJ : J l st V) (hv : Valid l) (h : Nat × Nat) (hh : HE l h)
    (hp : partner l h ∈ V) : thru l h ∈ V := by
  obtain ⟨y, hy, hyp⟩ := hJ.bwd _ hp
  have hyHE := hJ.he y hy
  rw [step_eq l hv y hyHE] at hyp
  have h1 := congrArg (partner l) hyp
  rw [(partner_spec l hv _ (thru_spec l y hyHE).1).2.2.2, (partner_spec l hv h hh).2.2.2] at h1
  -- h1 : thru y = h
  have : y = thru l h := by rw [← h1, (thru_spec l y hyHE).2.2]
  rw [← this]; exact hy

/-- a slot whose label is passed: it or its partner is visited -/
theorem J.of_label {l : Link} {st V} (hJ : J l st V) (hv : Valid l) (h : Nat × Nat) (hh : HE l h)
    (hp : lab l h ∈ st.2) : h ∈ V ∨ partner l h ∈ V := by
  obtain ⟨h', hm, hl⟩ := (hJ.passed _).1 hp
  rcases same_label l hv h' h (hJ.he h' hm) hh hl.symm with e | e
  · left; rw [e]; exact hm
  · right
    rw [e, (partner_spec l hv h' (hJ.he h' hm)).2.2.2]; exact hm

theorem J.label_thru {l : Link} {st V} (hJ : J l st V) (hv : Valid l) (h : Nat × Nat) (hh : HE l h)
    (hp : lab l h ∈ st.2) : lab l (thru l h) ∈ st.2 := by
  rcases hJ.of_label hv h hh hp with h1 | h1
  · refine (hJ.passed _).2 ⟨step l h, hJ.fwd h h1, ?_⟩
    exact lab_step l hv h hh
  · exact (hJ.passed _).2 ⟨thru l h, hJ.thru_of_partner hv h hh h1, rfl⟩

/-! ### the walk is fresh -/

theorem iter_in_V {l : Link} {st V} (hJ : J l st V) (hv : Valid l) (s : Nat × Nat) (hs : HE l s) :
    ∀ a, iter (step l) a s ∈ V → s ∈ V
  | 0, h => h
  | a + 1, h => by
    obtain ⟨y, hy, hyp⟩ := hJ.bwd _ h
    have : y = iter (step l) a s :=
      step_inj l hv y _ (hJ.he y hy) (iter_HE l hv s hs a) hyp
    exact iter_in_V hJ hv s hs a (this ▸ hy)

theorem iter_partner_in_V {l : Link} {st V} (hJ : J l st V) (hv : Valid l) (s : Nat × Nat) (hs : HE l s) :
    ∀ a, partner l (iter (step l) a s) ∈ V → partner l s ∈ V
  | 0, h => h
  | a + 1, h => by
    have hz := iter_HE l hv s hs a
    have h1 : partner l (iter (step l) (a + 1) s) = thru l (iter (step l) a s) := partner_step l hv _ hz
    rw [h1] at h
    have h2 := hJ.fwd _ h
    rw [step_thru l hv _ hz] at h2
    exact iter_partner_in_V hJ hv s hs a h2

theorem walk_fresh {l : Link} {st V} (hJ : J l st V) (hv : Valid l) (s : Nat × Nat) (hs : HE l s)
    (hnew : lab l s ∉ st.2) (v : List (Nat × Nat)) (hc : RChain (step l) s v) :
    ∀ x ∈ v, x ∉ V ∧ partner l x ∉ V := by
  intro x hx
  obtain ⟨a, rfl⟩ := hc.mem_iter x hx
  constructor
  · intro h
    exact hnew ((hJ.passed _).2 ⟨s, iter_in_V hJ hv s hs a h, rfl⟩)
  · intro h
    have := iter_partner_in_V hJ hv s hs a h
    exact hnew ((hJ.passed _).2 ⟨partner l s, this, (partner_spec l hv s hs).2.2.1⟩)

/-! ### the fold of `signsVisit` along a path -/

theorem getD_set_opt (xs : List (Option Sign)) (k i : Nat) (v : Option Sign) :
    (xs.set k v).getD i none = if k = i ∧ k < xs.length then v else xs.getD i none := by
  simp only [List.getD_eq_getElem?_getD, List.getElem?_set]
  by_cases hki : k = i
  · subst hki
    by_cases hk : k < xs.length
    · simp [hk]
    · simp [hk]
  · simp [hki]

theorem foldVisit (l : Link) (g : Nat → Option Sign) : ∀ (ps : List (Nat × Nat)) (st : List (Option Sign) × List Nat),
    (∀ p ∈ ps, ∀ s, signAt (ctypeAt l p.1) p.2 = some s → g p.1 = some s) →
    (ps.foldl (signsVisit l) st).1.length = st.1.length ∧
    (ps.foldl (signsVisit l) st).2 = (ps.map (lab l)).reverse ++ st.2 ∧
    (∀ i, (ps.foldl (signsVisit l) st).1.getD i none = st.1.getD i none ∨
      (ps.foldl (signsVisit l) st).1.getD i none = g i) ∧
    (∀ p ∈ ps, p.1 < st.1.length → (signAt (ctypeAt l p.1) p.2).isSome = true →
      (ps.foldl (signsVisit l) st).1.getD p.1 none = g p.1)
  | [], st, _ => ⟨rfl, rfl, fun _ => Or.inl rfl, fun p hp => by cases hp⟩
  | p :: ps, st, hg => by
    have hg' : ∀ q ∈ ps, ∀ s, signAt (ctypeAt l q.1) q.2 = some s → g q.1 = some s :=
      fun q hq => hg q (List.mem_cons_of_mem _ hq)
    obtain ⟨i1, i2, i3, i4⟩ := foldVisit l g ps (signsVisit l st p) hg'
    have hlen : (signsVisit l st p).1.length = st.1.length := by
      unfold signsVisit
      cases signAt (ctypeAt l p.1) p.2 <;> simp
    have hpas : (signsVisit l st p).2 = lab l p :: st.2 := by
      unfold signsVisit
      cases signAt (ctypeAt l p.1) p.2 <;> rfl
    have hget : ∀ i, (signsVisit l st p).1.getD i none = st.1.getD i none ∨
        ((signsVisit l st p).1.getD i none = g i ∧ i = p.1) := by
      intro i
      unfold signsVisit
      cases hs : signAt (ctypeAt l p.1) p.2 with
      | none => left; rfl
      | some s =>
        simp only
        rw [getD_set_opt]
        by_cases hc : p.1 = i ∧ p.1 < st.1.length
        · right; rw [if_pos hc, ← hc.1]; exact ⟨(hg p List.mem_cons_self s hs).symm, rfl⟩
        · left; rw [if_neg hc]
    simp only [List.foldl_cons]
    refine ⟨by rw [i1, hlen], by rw [i2, hpas]; simp, ?_, ?_⟩
    · intro i
      rcases i3 i with h | h
      · rcases hget i with h' | ⟨h', _⟩
        · left; rw [h, h']
        · right; rw [h, h']
      · right; exact h
    · intro q hq hql hsome
      rcases List.mem_cons.1 hq with rfl | hq'
      · rcases i3 q.1 with h | h
        · rw [h]
          unfold signsVisit
          cases hs : signAt (ctypeAt l q.1) q.2 with
          | none => rw [hs] at hsome; cases hsome
          | some s =>
            simp only
            rw [getD_set_opt, if_pos ⟨rfl, hql⟩]
            exact (hg q List.mem_cons_self s hs).symm
        · exact h
      · exact i4 q hq' (by rw [hlen]; exact hql) hsome

/-! ### one step of the loop -/

theorem mem_append_walk {V v : List (Nat × Nat)} {x : Nat × Nat} : x ∈ V ++ v ↔ x ∈ V ∨ x ∈ v :=
  List.mem_append

theorem signsStep_J (l : Link) (hv : Valid l) (j0 : Nat) (st : List (Option Sign) × List Nat)
    (V : List (Nat × Nat)) (i0 : Nat) (hJ : J l st V) (hs : HE l (i0, j0)) :
    ∃ st' V', signsStep l j0 st i0 = .ok st' ∧ J l st' V' ∧ (∀ h ∈ V, h ∈ V') ∧ lab l (i0, j0) ∈ st'.2 ∧
      (∀ h ∈ V', h ∈ V ∨ ∃ k, h = iter (step l) k (i0, j0)) := by
  unfold signsStep
  by_cases hcon : st.2.contains (edgeAt l i0 j0) = true
  · rw [if_pos hcon]
    refine ⟨st, V, rfl, hJ, fun h hh => hh, ?_, fun h hh => Or.inl hh⟩
    simpa [lab] using hcon
  · rw [if_neg hcon]
    have hnew : lab l (i0, j0) ∉ st.2 := by
      intro hm; apply hcon; simpa [lab] using hm
    obtain ⟨v, h1, h2, h3, h4, _⟩ :=
      traverseLoop_valid l hv (i0, j0) hs (4 * l.length) (i0, j0) [] rfl (by simp) (by simp)
    have hall : ∀ h ∈ v, HE l h := RChain.all_mem (HE l) hs (fun x hx => step_HE l hv x hx) h2
    have htr : traverse l (i0, j0) = .ok (v.reverse ++ [(i0, j0)]) := h1
    rw [htr]
    simp only
    have hfresh := walk_fresh hJ hv (i0, j0) hs hnew v h2
    have hsv : (i0, j0) ∈ v := h2.start_mem
    -- closure of the new orbit
    have vfwd : ∀ h ∈ v, step l h ∈ v := by
      intro h hh
      rcases h2.succ_mem h hh with e | e
      · rw [e, h4]; exact hsv
      · exact e
    have vbwd : ∀ h ∈ v, ∃ y ∈ v, step l y = h := by
      intro h hh
      rcases RChain.mem_cases h2 h hh with e | ⟨y, hy, p, q, hpq⟩
      · refine ⟨v.headD (i0, j0), ?_, by rw [h4, e]⟩
        cases v with
        | nil => exact h2.elim
        | cons a r => simp
      · exact ⟨y, by rw [hpq]; simp, hy.symm⟩
    -- the new visited set never contains both ends of a strand / of an edge
    have nopart' : ∀ h ∈ V ++ v, partner l h ∉ V ++ v := by
      intro h hh hp
      rcases List.mem_append.1 hh with a | a <;> rcases List.mem_append.1 hp with b | b
      · exact hJ.nopart h a b
      · have := (hfresh _ b).2
        rw [(partner_spec l hv h (hJ.he h a)).2.2.2] at this
        exact this a
      · exact (hfresh h a).2 b
      · exact orbit_no_partner l hv (i0, j0) hs v h2 h _ a b rfl
    have fwd' : ∀ h ∈ V ++ v, step l h ∈ V ++ v := by
      intro h hh
      rcases List.mem_append.1 hh with a | a
      · exact List.mem_append.2 (Or.inl (hJ.fwd h a))
      · exact List.mem_append.2 (Or.inr (vfwd h a))
    have he' : ∀ h ∈ V ++ v, HE l h := by
      intro h hh
      rcases List.mem_append.1 hh with a | a
      · exact hJ.he h a
      · exact hall h a
    have nothru' : ∀ h ∈ V ++ v, thru l h ∉ V ++ v := by
      intro h hh
      have := nopart' _ (fwd' h hh)
      rw [partner_step l hv h (he' h hh)] at this
      exact this
    -- all writes agree with the target `sgnV l (V ++ v)`
    have hg : ∀ p ∈ v.reverse ++ [(i0, j0)], ∀ s, signAt (ctypeAt l p.1) p.2 = some s →
        sgnV l (V ++ v) p.1 = some s := by
      intro p hp s hsg
      have hpv : p ∈ v := by
        rcases List.mem_append.1 hp with a | a
        · exact List.mem_reverse.1 a
        · simp only [List.mem_cons, List.not_mem_nil, or_false] at a; rw [a]; exact hsv
      have hpHE := hall p hpv
      obtain ⟨_, hj, p13, p31⟩ := signAt_some_slot _ _ hpHE.2 s hsg
      have hpm : (p.1, p.2) ∈ V ++ v := List.mem_append.2 (Or.inr hpv)
      unfold sgnV
      rcases hj with hj | hj
      · rw [hj] at hpm hsg
        rw [if_pos hpm]; exact hsg
      · rw [hj] at hpm hsg
        have hn : (p.1, 1) ∉ V ++ v := by
          have := nothru' _ hpm
          unfold thru at this
          simp only [p31] at this
          exact this
        rw [if_neg hn, if_pos hpm]; exact hsg
    obtain ⟨f1, f2, f3, f4⟩ := foldVisit l (sgnV l (V ++ v)) (v.reverse ++ [(i0, j0)]) st hg
    have hlabs : ∀ e, e ∈ ((v.reverse ++ [(i0, j0)]).map (lab l)).reverse ++ st.2 ↔
        (∃ h ∈ v, lab l h = e) ∨ e ∈ st.2 := by
      intro e
      simp only [List.mem_append, List.mem_reverse, List.mem_map, List.mem_cons, List.not_mem_nil, or_false]
      constructor
      · rintro (⟨h, (hh | hh), rfl⟩ | hh)
        · exact Or.inl ⟨h, hh, rfl⟩
        · exact Or.inl ⟨h, hh ▸ hsv, rfl⟩
        · exact Or.inr hh
      · rintro (⟨h, hh, rfl⟩ | hh)
        · exact Or.inl ⟨h, Or.inl hh, rfl⟩
        · exact Or.inr hh
    refine ⟨_, V ++ v, rfl, ⟨?_, he', fwd', ?_, ?_, nopart', ?_⟩, ?_, ?_, ?_⟩
    · rw [f1]; exact hJ.len
    · intro h hh
      rcases List.mem_append.1 hh with a | a
      · obtain ⟨y, hy, e⟩ := hJ.bwd h a
        exact ⟨y, List.mem_append.2 (Or.inl hy), e⟩
      · obtain ⟨y, hy, e⟩ := vbwd h a
        exact ⟨y, List.mem_append.2 (Or.inr hy), e⟩
    · intro e
      rw [f2, hlabs, hJ.passed]
      constructor
      · rintro (⟨h, hh, rfl⟩ | ⟨h, hh, rfl⟩)
        · exact ⟨h, List.mem_append.2 (Or.inr hh), rfl⟩
        · exact ⟨h, List.mem_append.2 (Or.inl hh), rfl⟩
      · rintro ⟨h, hh, rfl⟩
        rcases List.mem_append.1 hh with a | a
        · exact Or.inr ⟨h, a, rfl⟩
        · exact Or.inl ⟨h, a, rfl⟩
    · -- the sign array
      intro i hi
      have hold := hJ.sg i hi
      -- is there a sign-carrying visit of crossing `i` on the path?
      by_cases hex : ∃ p ∈ v, p.1 = i ∧ (signAt (ctypeAt l p.1) p.2).isSome = true
      · obtain ⟨p, hp, rfl, hsome⟩ := hex
        exact f4 p (List.mem_append.2 (Or.inl (List.mem_reverse.2 hp))) (by rw [hJ.len]; exact hi) hsome
      · rcases f3 i with e | e
        · rw [e, hold]
          -- no sign-carrying visit: the new slots of crossing `i` are at resolved crossings or not over-strand slots
          have key : ∀ j, (j = 1 ∨ j = 3) → (i, j) ∈ v → signAt (ctypeAt l i) j = none := by
            intro j _ hm
            cases hsj : signAt (ctypeAt l i) j with
            | none => rfl
            | some s => exact absurd ⟨(i, j), hm, rfl, by simp [hsj]⟩ hex
          have res1 : (i, 1) ∈ v → signAt (ctypeAt l i) 1 = none ∧ signAt (ctypeAt l i) 3 = none := by
            intro hm
            have k1 := key 1 (Or.inl rfl) hm
            cases hr : (ctypeAt l i).isResolved with
            | true => exact ⟨k1, signAt_resolved _ hr 3 (by omega)⟩
            | false =>
              have := (signAt_unresolved _ hr).1
              rw [k1] at this; cases this
          have res3 : (i, 3) ∈ v → signAt (ctypeAt l i) 1 = none ∧ signAt (ctypeAt l i) 3 = none := by
            intro hm
            have k3 := key 3 (Or.inr rfl) hm
            cases hr : (ctypeAt l i).isResolved with
            | true => exact ⟨signAt_resolved _ hr 1 (by omega), k3⟩
            | false =>
              have := (signAt_unresolved _ hr).2.1
              rw [k3] at this; cases this
          unfold sgnV
          simp only [List.mem_append]
          by_cases a1 : (i, 1) ∈ V
          · simp only [a1, true_or, if_true]
          · by_cases b1 : (i, 1) ∈ v
            · obtain ⟨r1, r3⟩ := res1 b1
              simp only [a1, b1, or_true, r1, r3, ite_self]
            · by_cases a3 : (i, 3) ∈ V
              · simp only [a1, b1, a3, or_self, true_or, if_true, if_false]
              · by_cases b3 : (i, 3) ∈ v
                · obtain ⟨r1, r3⟩ := res3 b3
                  simp only [a1, b1, a3, b3, or_self, false_or, if_true, if_false, r3]
                · simp only [a1, b1, a3, b3, or_self, if_false]
        · exact e
    · intro h hh; exact List.mem_append.2 (Or.inl hh)
    · rw [f2, hlabs]; exact Or.inl ⟨(i0, j0), hsv, rfl⟩
    · intro h hh
      rcases List.mem_append.1 hh with a | a
      · exact Or.inl a
      · exact Or.inr (h2.mem_iter h a)

/-! ### one pass, and the whole computation -/

theorem signsFold_J (l : Link) (hv : Valid l) (j0 : Nat) (hj : j0 < 4) :
    ∀ (is : List Nat) (st : List (Option Sign) × List Nat) (V : List (Nat × Nat)), J l st V →
      (∀ i ∈ is, i < l.length) →
      ∃ st' V', is.foldlM (signsStep l j0) st = .ok st' ∧ J l st' V' ∧ (∀ h ∈ V, h ∈ V') ∧
        (∀ i ∈ is, lab l (i, j0) ∈ st'.2) ∧
        (∀ h ∈ V', h ∈ V ∨ ∃ i ∈ is, ∃ k, h = iter (step l) k (i, j0)) ∧
        (∀ pre i0 post, is = pre ++ i0 :: post →
          (i0, j0) ∈ V' ∨ partner l (i0, j0) ∈ V ∨ ∃ i ∈ pre, ∃ k, partner l (i0, j0) = iter (step l) k (i, j0))
  | [], st, V, hJ, _ => by
    refine ⟨st, V, rfl, hJ, fun _ h => h, ?_, fun h hh => Or.inl hh, ?_⟩
    · intro i hi; cases hi
    · intro pre i0 post e
      cases pre <;> cases e
  | i :: is, st, V, hJ, hlt => by
    have hsi : HE l (i, j0) := ⟨hlt i List.mem_cons_self, hj⟩
    obtain ⟨st1, V1, e1, J1, m1, c1, o1⟩ := signsStep_J l hv j0 st V i hJ hsi
    obtain ⟨st2, V2, e2, J2, m2, c2, o2, f2⟩ :=
      signsFold_J l hv j0 hj is st1 V1 J1 (fun k hk => hlt k (List.mem_cons_of_mem _ hk))
    refine ⟨st2, V2, ?_, J2, fun h hh => m2 h (m1 h hh), ?_, ?_, ?_⟩
    · rw [List.foldlM_cons, e1]; exact e2
    · intro k hk
      rcases List.mem_cons.1 hk with rfl | hk
      · -- labels stay passed
        obtain ⟨h, hh, hl⟩ := (J1.passed _).1 c1
        exact (J2.passed _).2 ⟨h, m2 h hh, hl⟩
      · exact c2 k hk
    · intro h hh
      rcases o2 h hh with a | ⟨k, hk, a⟩
      · rcases o1 h a with b | b
        · exact Or.inl b
        · exact Or.inr ⟨i, List.mem_cons_self, b⟩
      · exact Or.inr ⟨k, List.mem_cons_of_mem _ hk, a⟩
    · intro pre i0 post e
      cases pre with
      | nil =>
        simp only [List.nil_append, List.cons.injEq] at e
        obtain ⟨rfl, rfl⟩ := e
        rcases J1.of_label hv _ hsi c1 with a | a
        · exact Or.inl (m2 _ a)
        · rcases o1 _ a with b | ⟨k, b⟩
          · exact Or.inr (Or.inl b)
          · exfalso
            apply no_flip l hv (i, j0) hsi k 0
            show partner l (i, j0) = iter (step l) (0 + k) (i, j0)
            rw [Nat.zero_add]; exact b
      | cons i' pre' =>
        simp only [List.cons_append, List.cons.injEq] at e
        obtain ⟨rfl, rfl⟩ := e
        rcases f2 pre' i0 post rfl with a | a | ⟨x, hx, k, a⟩
        · exact Or.inl a
        · rcases o1 _ a with b | ⟨k, b⟩
          · exact Or.inr (Or.inl b)
          · exact Or.inr (Or.inr ⟨i, List.mem_cons_self, k, b⟩)
        · exact Or.inr (Or.inr ⟨x, List.mem_cons_of_mem _ hx, k, a⟩)

theorem range_split (n i0 : Nat) (h : i0 < n) :
    List.range n = List.range i0 ++ i0 :: List.range' (i0 + 1) (n - i0 - 1) := by
  rw [List.range_eq_range', List.range_eq_range']
  have e1 : n = i0 + (n - i0) := by omega
  conv => lhs; rw [e1]
  rw [← List.range'_append_1]
  congr 1
  have e2 : n - i0 = (n - i0 - 1) + 1 := by omega
  rw [e2, List.range'_succ]
  simp

theorem signsPass_J (l : Link) (hv : Valid l) (j0 : Nat) (hj : j0 < 4) (st : List (Option Sign) × List Nat)
    (V : List (Nat × Nat)) (hJ : J l st V) :
    ∃ st' V', signsPass l j0 st = .ok st' ∧ J l st' V' ∧ (∀ h ∈ V, h ∈ V') ∧
      (∀ i, i < l.length → lab l (i, j0) ∈ st'.2) ∧
      (∀ h ∈ V', h ∈ V ∨ ∃ i, i < l.length ∧ ∃ k, h = iter (step l) k (i, j0)) ∧
      (∀ i0, i0 < l.length →
        (i0, j0) ∈ V' ∨ partner l (i0, j0) ∈ V ∨
          ∃ i, i < i0 ∧ ∃ k, partner l (i0, j0) = iter (step l) k (i, j0)) := by
  obtain ⟨st', V', h1, h2, h3, h4, h5, h6⟩ :=
    signsFold_J l hv j0 hj (List.range l.length) st V hJ (fun i hi => List.mem_range.1 hi)
  refine ⟨st', V', h1, h2, h3, fun i hi => h4 i (List.mem_range.2 hi), ?_, ?_⟩
  · intro h hh
    rcases h5 h hh with a | ⟨i, hi, a⟩
    · exact Or.inl a
    · exact Or.inr ⟨i, List.mem_range.1 hi, a⟩
  · intro i0 hi0
    rcases h6 _ i0 _ (range_split l.length i0 hi0) with a | a | ⟨i, hi, k, a⟩
    · exact Or.inl a
    · exact Or.inr (Or.inl a)
    · exact Or.inr (Or.inr ⟨i, List.mem_range.1 hi, k, a⟩)

/-- the orientation read off the final state: visited slots on the walked components, the given orientation
on the others -/
def oriOf (l : Link) (passed : List Nat) (V : List (Nat × Nat)) (O : Nat × Nat → Bool) : Nat × Nat → Bool :=
  fun h => if lab l h ∈ passed then decide (h ∈ V) else O h

theorem oriOf_orient (l : Link) (hv : Valid l) (O : Nat × Nat → Bool) (hO : Orient l O)
    (st : List (Option Sign) × List Nat) (V : List (Nat × Nat)) (hJ : J l st V) :
    Orient l (oriOf l st.2 V O) := by
  intro i hi j hj
  have hh : HE l (i, j) := ⟨hi, hj⟩
  have hlp : lab l (partner l (i, j)) = lab l (i, j) := (partner_spec l hv _ hh).2.2.1
  constructor
  · -- thru
    unfold oriOf
    by_cases hp : lab l (i, j) ∈ st.2
    · have hp' := hJ.label_thru hv _ hh hp
      rw [if_pos hp, if_pos hp']
      rcases hJ.of_label hv _ hh hp with a | a
      · have := hJ.nothru hv _ a
        simp [a, this]
      · have b := hJ.thru_of_partner hv _ hh a
        have c : (i, j) ∉ V := by
          intro hc
          exact hJ.nopart _ hc a
        simp [b, c]
    · have hp' : lab l (thru l (i, j)) ∉ st.2 := by
        intro hc
        have := hJ.label_thru hv _ (thru_spec l _ hh).1 hc
        rw [(thru_spec l _ hh).2.2] at this
        exact hp this
      rw [if_neg hp, if_neg hp']
      exact hO.thru_eq _ hh
  · unfold oriOf
    rw [hlp]
    by_cases hp : lab l (i, j) ∈ st.2
    · rw [if_pos hp, if_pos hp]
      rcases hJ.of_label hv _ hh hp with a | a
      · have := hJ.nopart _ a
        simp [a, this]
      · have c : (i, j) ∉ V := by
          intro hc
          exact hJ.nopart _ hc a
        simp [a, c]
    · rw [if_neg hp, if_neg hp]
      exact hO.partner_eq _ hh

theorem filterMap_getD (xs : List (Option Sign)) (g : Nat → Option Sign) :
    ∀ (k : Nat), (∀ i, i < xs.length → xs.getD i none = g (k + i)) →
      xs.filterMap id = (List.range' k xs.length).filterMap g := by
  induction xs with
  | nil => intro k _; rfl
  | cons a r ih =>
    intro k h
    have h0 := h 0 (by simp)
    simp only [List.getD_cons_zero, Nat.add_zero] at h0
    have hr := ih (k + 1) (by
      intro i hi
      have := h (i + 1) (by simpa using hi)
      simp only [List.getD_cons_succ] at this
      rw [this]; congr 1; omega)
    rw [List.length_cons, List.range'_succ, List.filterMap_cons, List.filterMap_cons, ← hr, ← h0]
    rfl

theorem length_signs (l : Link) (g : Nat → Option Sign) : ∀ (k : Nat),
    (∀ i (hi : i < l.length), (g (k + i)).isSome = !(l[i]).isResolved) →
    ((List.range' k l.length).filterMap g).length = crossingNum l := by
  induction l with
  | nil => intro k _; rfl
  | cons c cs ih =>
    intro k h
    have h0 := h 0 (by simp)
    simp only [Nat.add_zero, List.getElem_cons_zero] at h0
    have hr := ih (k + 1) (by
      intro i hi
      have := h (i + 1) (by simpa using hi)
      simp only [List.getElem_cons_succ] at this
      rw [← this]; congr 2; omega)
    rw [List.length_cons, List.range'_succ, List.filterMap_cons, crossingNum_cons]
    cases hg : g k with
    | none =>
      rw [hg] at h0
      have : c.isResolved = true := by
        cases hc : c.isResolved <;> simp [hc] at h0 ⊢
      simp only [this, if_true, hr]; omega
    | some s =>
      rw [hg] at h0
      have : c.isResolved = false := by
        cases hc : c.isResolved <;> simp [hc] at h0 ⊢
      simp only [this, Bool.false_eq_true, if_false, List.length_cons, hr]; omega

theorem sgnAt_isSome (l : Link) (O : Nat × Nat → Bool) (i : Nat) (hi : i < l.length) :
    (sgnAt l O i).isSome = !(l[i]).isResolved := by
  unfold sgnAt
  rw [ctypeAt_eq l i hi]
  unfold Crossing.isResolved
  cases hr : l[i].ctype.isResolved with
  | true =>
    cases O (i, 1)
    · simp [signAt_resolved _ hr 3 (by omega)]
    · simp [signAt_resolved _ hr 1 (by omega)]
  | false =>
    obtain ⟨a, b, _⟩ := signAt_unresolved _ hr
    cases O (i, 1)
    · simpa using b
    · simpa using a

/-- the final step: from the invariant to the result of `crossing_signs` -/
theorem finish (l : Link) (hv : Valid l) (O : Nat × Nat → Bool) (hO : Orient l O)
    (st : List (Option Sign) × List Nat) (V : List (Nat × Nat)) (hJ : J l st V)
    (h0 : ∀ i, i < l.length → (i, 0) ∈ V)
    (h1 : ∀ i, i < l.length → (ctypeAt l i).isResolved = false → (i, 1) ∈ V ∨ (i, 3) ∈ V) :
    Orient l (oriOf l st.2 V O) ∧ UnderIn l (oriOf l st.2 V O) ∧
      st.1.filterMap id = signsOf l (oriOf l st.2 V O) ∧
      (st.1.filterMap id).length = crossingNum l := by
  have hor := oriOf_orient l hv O hO st V hJ
  have hsig : st.1.filterMap id = signsOf l (oriOf l st.2 V O) := by
    unfold signsOf
    rw [List.range_eq_range', ← hJ.len]
    apply filterMap_getD
    intro i hi
    rw [hJ.len] at hi
    rw [Nat.zero_add, hJ.sg i hi]
    unfold sgnV sgnAt oriOf
    cases hr : (ctypeAt l i).isResolved with
    | true =>
      have hb : ∀ b : Bool, signAt (ctypeAt l i) (if b = true then 1 else 3) = none := by
        intro b
        cases b
        · exact signAt_resolved _ hr 3 (by omega)
        · exact signAt_resolved _ hr 1 (by omega)
      rw [signAt_resolved _ hr 1 (by omega), signAt_resolved _ hr 3 (by omega)]
      simp only [ite_self]
      split <;> exact (hb _).symm
    | false =>
      obtain ⟨_, _, p13, _⟩ := signAt_unresolved _ hr
      have hslot : HE l (i, 1) := ⟨hi, by omega⟩
      have hth : thru l (i, 1) = (i, 3) := by unfold thru; simp only [p13]
      rcases h1 i hi hr with a | a
      · have hp : lab l (i, 1) ∈ st.2 := (hJ.passed _).2 ⟨_, a, rfl⟩
        simp only [a, if_true, hp, decide_true]
      · have hn : (i, 1) ∉ V := by
          intro hc
          have := hJ.nothru hv _ hc
          rw [hth] at this
          exact this a
        have hp : lab l (i, 1) ∈ st.2 := by
          have := hJ.fwd _ a
          refine (hJ.passed _).2 ⟨_, this, ?_⟩
          rw [lab_step l hv _ (hJ.he _ a)]
          have : thru l (i, 3) = (i, 1) := by
            rw [← hth, (thru_spec l _ hslot).2.2]
          rw [this]
        simp only [hn, if_false, a, if_true, hp, decide_false, Bool.false_eq_true]
  refine ⟨hor, ?_, hsig, ?_⟩
  · intro i hi
    unfold oriOf
    have a := h0 i hi
    have hp : lab l (i, 0) ∈ st.2 := (hJ.passed _).2 ⟨_, a, rfl⟩
    simp only [hp, if_true, a, decide_true]
  · rw [hsig]
    unfold signsOf
    rw [List.range_eq_range']
    apply length_signs
    intro i hi
    rw [Nat.zero_add]
    exact sgnAt_isSome l _ i hi

theorem signsIncomplete_false (l : Link) (signs : List (Option Sign)) (h : signsIncomplete l signs = false) :
    ∀ i, i < l.length → (ctypeAt l i).isResolved = false → signs.getD i none ≠ none := by
  intro i hi hr hn
  unfold signsIncomplete at h
  have := List.any_eq_false.1 h i (List.mem_range.2 hi)
  rw [hr, hn] at this
  simp at this

/-- THE ORIENTATION THEOREM, with the rule by which the direction of a component that never passes under is
chosen: it is walked from slot 1 of the first crossing (in crossing order) whose over-strand lies on it. -/
theorem crossingSigns_orient_first (l : Link) (hv : Valid l) (O : Nat × Nat → Bool) (hO : Orient l O)
    (hU : UnderIn l O) :
    ∃ O', Orient l O' ∧ UnderIn l O' ∧ crossingSigns l = .ok (signsOf l O') ∧
      (∀ i0, i0 < l.length → (ctypeAt l i0).isResolved = false →
        (∀ i, i < l.length → ¬ SConn l (i, 0) (i0, 1)) → (∀ i, i < i0 → ¬ SConn l (i, 1) (i0, 1)) →
        O' (i0, 1) = true) := by
  obtain ⟨st0, V0, e0, J0, _, c0, o0, _⟩ := signsPass_J l hv 0 (by omega) _ [] (J_init l)
  -- after pass 0 every visited slot is an entrance of `O`, hence every slot 0 is visited
  have hV0 : ∀ h ∈ V0, O h = true := by
    intro h hh
    rcases o0 h hh with a | ⟨i, hi, k, rfl⟩
    · cases a
    · rw [hO.iter_eq hv (i, 0) ⟨hi, by omega⟩ k]; exact hU i hi
  have hV0c : ∀ h ∈ V0, ∃ i, i < l.length ∧ SConn l (i, 0) h := by
    intro h hh
    rcases o0 h hh with a | ⟨i, hi, k, rfl⟩
    · cases a
    · exact ⟨i, hi, SConn.iter_step hv (i, 0) ⟨hi, by omega⟩ k⟩
  have hz0 : ∀ i, i < l.length → (i, 0) ∈ V0 := by
    intro i hi
    have hh : HE l (i, 0) := ⟨hi, by omega⟩
    rcases J0.of_label hv _ hh (c0 i hi) with a | a
    · exact a
    · have := hV0 _ a
      rw [hO.partner_eq _ hh, hU i hi] at this
      cases this
  unfold crossingSigns
  rw [e0, Res.bind_ok]
  cases hinc : signsIncomplete l st0.1 with
  | false =>
    have h1 : ∀ i, i < l.length → (ctypeAt l i).isResolved = false → (i, 1) ∈ V0 ∨ (i, 3) ∈ V0 := by
      intro i hi hr
      have := signsIncomplete_false l st0.1 hinc i hi hr
      rw [J0.sg i hi] at this
      unfold sgnV at this
      by_cases a : (i, 1) ∈ V0
      · exact Or.inl a
      · by_cases b : (i, 3) ∈ V0
        · exact Or.inr b
        · simp [a, b] at this
    obtain ⟨f1, f2, f3, f4⟩ := finish l hv O hO st0 V0 J0 hz0 h1
    refine ⟨_, f1, f2, ?_, ?_⟩
    · simp only [Bool.false_eq_true, if_false, Res.pure_eq, Res.bind_ok]
      rw [if_pos f4, f3]
    · -- every over-strand lies on a component with an under-strand: the premise is contradictory
      intro i0 hi0 hr hno _
      exfalso
      obtain ⟨_, _, p13, p31⟩ := signAt_unresolved _ hr
      rcases h1 i0 hi0 hr with a | a
      · obtain ⟨i, hi, hc⟩ := hV0c _ a
        exact hno i hi hc
      · obtain ⟨i, hi, hc⟩ := hV0c _ a
        have := SConn.thru hc
        have hth : thru l (i0, 3) = (i0, 1) := by unfold thru; simp only [p31]
        rw [hth] at this
        exact hno i hi this
  | true =>
    obtain ⟨st1, V1, e1, J1, m1, c1, _, g1⟩ := signsPass_J l hv 1 (by omega) st0 V0 J0
    obtain ⟨st2, V2, e2, J2, m2, _, _, _⟩ := signsPass_J l hv 2 (by omega) st1 V1 J1
    have hz2 : ∀ i, i < l.length → (i, 0) ∈ V2 := fun i hi => m2 _ (m1 _ (hz0 i hi))
    have h1 : ∀ i, i < l.length → (ctypeAt l i).isResolved = false → (i, 1) ∈ V2 ∨ (i, 3) ∈ V2 := by
      intro i hi hr
      have hh : HE l (i, 1) := ⟨hi, by omega⟩
      obtain ⟨_, _, p13, _⟩ := signAt_unresolved _ hr
      have hth : thru l (i, 1) = (i, 3) := by unfold thru; simp only [p13]
      rcases J1.of_label hv _ hh (c1 i hi) with a | a
      · exact Or.inl (m2 _ a)
      · have := J1.thru_of_partner hv _ hh a
        rw [hth] at this
        exact Or.inr (m2 _ this)
    obtain ⟨f1, f2, f3, f4⟩ := finish l hv O hO st2 V2 J2 hz2 h1
    refine ⟨_, f1, f2, ?_, ?_⟩
    · simp only [if_true, e1, Res.bind_ok, e2, Res.pure_eq]
      rw [if_pos f4, f3]
    · intro i0 hi0 _ hno hfirst
      have hh : HE l (i0, 1) := ⟨hi0, by omega⟩
      have hpp : partner l (partner l (i0, 1)) = (i0, 1) := (partner_spec l hv _ hh).2.2.2
      rcases g1 i0 hi0 with a | a | ⟨i, hi, k, a⟩
      · have a2 := m2 _ a
        have hp : lab l (i0, 1) ∈ st2.2 := (J2.passed _).2 ⟨_, a2, rfl⟩
        unfold oriOf
        simp only [hp, if_true, a2, decide_true]
      · exfalso
        obtain ⟨i, hi, hc⟩ := hV0c _ a
        have := SConn.partner hc
        rw [hpp] at this
        exact hno i hi this
      · exfalso
        have hc := SConn.iter_step hv (i, 1) ⟨by omega, by omega⟩ k
        rw [← a] at hc
        have := SConn.partner hc
        rw [hpp] at this
        exact hfirst i hi this

/-- THE ORIENTATION THEOREM.  On a valid code that admits an orientation consistent with its under-strands,
`crossing_signs` returns the signs of an orientation consistent with the under-strands. -/
theorem crossingSigns_orient' (l : Link) (hv : Valid l) (O : Nat × Nat → Bool) (hO : Orient l O)
    (hU : UnderIn l O) :
    ∃ O', Orient l O' ∧ UnderIn l O' ∧ crossingSigns l = .ok (signsOf l O') := by
  obtain ⟨O', h1, h2, h3, _⟩ := crossingSigns_orient_first l hv O hO hU
  exact ⟨O', h1, h2, h3⟩

end Yuiv.C18
