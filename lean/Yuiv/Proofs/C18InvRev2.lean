import Yuiv.Proofs.C18InvRev
import Yuiv.Proofs.C18InvMain
/-
C18Inv — reversing ALL components leaves `crossing_signs` unchanged, for every valid oriented PD code,
also when some components never pass under (no `Determined` hypothesis): uses the rule by which the model
chooses the direction of such a component (`crossingSigns_orient_first`), which is the same for `l` and
`reverseAll l`.
-/
namespace Yuiv.C18
open Yuiv

/-- the slot at the other end of the strand (rotation by two) is on the same component -/
theorem sconn_rslot {l : Link} (hx : AllX l) (a : Nat × Nat) (ha : HE l a) : SConn l a (rslot a) := by
  have := SConn.thru (SConn.refl (l := l) a)
  rw [thru_allX hx a ha] at this
  exact this

/-- components of `reverseAll l` and of `l` are the same sets of slot indices -/
theorem sconn_of_reverseAll {l : Link} (hv : Valid l) (hx : AllX l) {a b : Nat × Nat}
    (hc : SConn (reverseAll l) a b) (ha : HE (reverseAll l) a) : SConn l a b := by
  have hal : HE l a := by rw [HE, reverseAll_length] at ha; exact ha
  have h1 := (slotIso_reverseAll l).sconn hv (valid_reverseAll hv) hc ha
  -- a ~ rslot a ~ rslot b ~ b
  have hb' : HE l (rslot b) := h1.he hv ((slotIso_reverseAll l).he a ha)
  have h2 := (sconn_rslot hx a hal).trans h1
  have h3 := h2.trans (sconn_rslot hx (rslot b) hb')
  have hbl : HE (reverseAll l) b := hc.he (valid_reverseAll hv) ha
  rw [rslot_rslot b hbl.2] at h3
  exact h3

theorem sconn_to_reverseAll {l : Link} (hv : Valid l) (hx : AllX l) {a b : Nat × Nat}
    (hc : SConn l a b) (ha : HE l a) : SConn (reverseAll l) a b := by
  have hv' := valid_reverseAll hv
  have hx' := allX_reverseAll hx
  have har : HE (reverseAll l) a := by rw [HE, reverseAll_length]; exact ha
  have h1 := (slotIso_reverseAll l).symm.sconn hv' hv hc ha
  have hb' : HE (reverseAll l) (rslot b) := h1.he hv' ((slotIso_reverseAll l).symm.he a ha)
  have h2 := (sconn_rslot hx' a har).trans h1
  have h3 := h2.trans (sconn_rslot hx' (rslot b) hb')
  have hbl : HE l b := hc.he hv ha
  rw [rslot_rslot b hbl.2] at h3
  exact h3

theorem exists_least (p : Nat → Prop) (h : ∃ n, p n) : ∃ n, p n ∧ ∀ m, m < n → ¬ p m := by
  obtain ⟨n, hn⟩ := h
  induction n using Nat.strongRecOn with
  | ind n ih =>
    by_cases hc : ∃ m, m < n ∧ p m
    · obtain ⟨m, hm, hpm⟩ := hc
      exact ih m hm hpm
    · exact ⟨n, hn, fun m hm hpm => hc ⟨m, hm, hpm⟩⟩

/-- reversing all components at once leaves every crossing sign unchanged (every valid oriented PD code) -/
theorem crossingSigns_reverseAll_all (l : Link) (hv : Valid l) (hx : AllX l) (O : Nat × Nat → Bool)
    (hO : Orient l O) (hU : UnderIn l O) : crossingSigns (reverseAll l) = crossingSigns l := by
  have hv' := valid_reverseAll hv
  have hx' := allX_reverseAll hx
  have hOr := orient_reverseAll hv hx hO
  have hUr : UnderIn (reverseAll l) O := underIn_reverseAll hU
  obtain ⟨O1, hO1, hU1, hs1, hf1⟩ := crossingSigns_orient_first l hv O hO hU
  obtain ⟨O2, hO2, hU2, hs2, hf2⟩ := crossingSigns_orient_first (reverseAll l) hv' O hOr hUr
  have hO1r := orient_reverseAll hv hx hO1
  have hU1r : UnderIn (reverseAll l) O1 := underIn_reverseAll hU1
  rw [hs1, hs2]
  congr 1
  rw [← signsOf_reverseAll l O1]
  apply signsOf_congr
  intro i hi
  rw [reverseAll_length] at hi
  have hh : HE l (i, 1) := ⟨hi, by omega⟩
  have hhr : HE (reverseAll l) (i, 1) := by rw [HE, reverseAll_length]; exact hh
  by_cases hc : ∃ i', i' < l.length ∧ SConn l (i', 0) (i, 1)
  · -- the component passes under somewhere: both orientations are the one determined by the code
    obtain ⟨i', hi', hc⟩ := hc
    have hcr := sconn_to_reverseAll hv hx hc ⟨hi', by omega⟩
    have e1 := orient_agree_under hv' hOr hUr hO1r hU1r i' (by rw [reverseAll_length]; exact hi') _ hcr
    have e2 := orient_agree_under hv' hOr hUr hO2 hU2 i' (by rw [reverseAll_length]; exact hi') _ hcr
    rw [e1, e2]
  · -- the component never passes under: both walks start at slot 1 of its first crossing
    have hno : ∀ i', i' < l.length → ¬ SConn l (i', 0) (i, 1) := fun i' hi' h => hc ⟨i', hi', h⟩
    obtain ⟨i0, ⟨hi0, hc0⟩, hmin⟩ :=
      exists_least (fun k => k < l.length ∧ SConn l (k, 1) (i, 1)) ⟨i, hi, SConn.refl _⟩
    have hh0 : HE l (i0, 1) := ⟨hi0, by omega⟩
    have hres : (ctypeAt l i0).isResolved = false := by
      rw [ctypeAt_eq l i0 hi0]; exact hx _ (List.getElem_mem hi0)
    have p1 : ∀ k, k < l.length → ¬ SConn l (k, 0) (i0, 1) := fun k hk h => hno k hk (h.trans hc0)
    have p2 : ∀ k, k < i0 → ¬ SConn l (k, 1) (i0, 1) :=
      fun k hk h => hmin k hk ⟨by omega, h.trans hc0⟩
    have a1 := hf1 i0 hi0 hres p1 p2
    have a2 := hf2 i0 (by rw [reverseAll_length]; exact hi0) (by rw [ctypeAt_reverseAll]; exact hres)
      (by
        intro k hk h
        rw [reverseAll_length] at hk
        exact p1 k hk (sconn_of_reverseAll hv hx h (by rw [HE, reverseAll_length]; exact ⟨hk, by omega⟩)))
      (by
        intro k hk h
        exact p2 k hk (sconn_of_reverseAll hv hx h (by rw [HE, reverseAll_length]; exact ⟨by omega, by omega⟩)))
    have hcr := sconn_to_reverseAll hv hx hc0 hh0
    exact orient_agree hv' hO1r hO2 hcr (by rw [HE, reverseAll_length]; exact hh0) (by rw [a1, a2])

end Yuiv.C18
